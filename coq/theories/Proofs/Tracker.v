(* Lemmas about the model of the import tracker and the raw namer (Model/Tracker.v). *)
Require Import Gengo.Base.Bytes Gengo.Model.CamelCase Gengo.Model.GoIdent Gengo.Model.Tracker
               Gengo.Model.TrackerSpec Gengo.Proofs.CamelCase.
From Coq Require Import Permutation Sorted.
From Coq Require Decimal DecimalNat DecimalString.

(* ------------------------------------------------------------------ byte strings, maps *)

Lemma bytes_eqb_false : forall a b, bytes_eqb a b = false <-> a <> b.
Proof.
  intros a b. split.
  - intros H E. apply bytes_eqb_spec in E. congruence.
  - intros H. destruct (bytes_eqb a b) eqn:E; [|reflexivity].
    apply bytes_eqb_spec in E. contradiction.
Qed.

Lemma bytes_eqb_sym : forall a b, bytes_eqb a b = bytes_eqb b a.
Proof.
  intros a b. destruct (bytes_eqb a b) eqn:E.
  - apply bytes_eqb_spec in E. subst. symmetry. apply bytes_eqb_refl.
  - symmetry. apply bytes_eqb_false. apply bytes_eqb_false in E. congruence.
Qed.

Lemma bytes_dec : forall a b : bytes, {a = b} + {a <> b}.
Proof.
  intros a b. destruct (bytes_eqb a b) eqn:E.
  - left. apply bytes_eqb_spec. exact E.
  - right. apply bytes_eqb_false. exact E.
Qed.

Lemma lookup_hd : forall k v m, lookup k ((k, v) :: m) = Some v.
Proof. intros. cbn. rewrite bytes_eqb_refl. reflexivity. Qed.

Lemma lookup_tl : forall k k' v m, k <> k' -> lookup k ((k', v) :: m) = lookup k m.
Proof. intros k k' v m H. cbn. apply bytes_eqb_false in H. rewrite H. reflexivity. Qed.

Lemma lookup_in : forall k v m, lookup k m = Some v -> In (k, v) m.
Proof.
  induction m as [|[k' v'] m IH]; cbn; [discriminate|].
  destruct (bytes_eqb k k') eqn:E; intros H.
  - apply bytes_eqb_spec in E. inversion H; subst. auto.
  - auto.
Qed.

Lemma lookup_in_keys : forall k v m, lookup k m = Some v -> In k (keys m).
Proof. intros k v m H. apply lookup_in in H. apply (in_map fst) in H. exact H. Qed.

Lemma lookup_none_keys : forall k m, lookup k m = None <-> ~ In k (keys m).
Proof.
  induction m as [|[k' v'] m IH]; cbn.
  - tauto.
  - destruct (bytes_eqb k k') eqn:E.
    + apply bytes_eqb_spec in E. subst. split; [discriminate|]. intros H. exfalso. auto.
    + apply bytes_eqb_false in E. rewrite IH. split.
      * intros H [H1|H1]; [congruence|auto].
      * intros H H1. auto.
Qed.

Lemma keys_in_lookup : forall k m, In k (keys m) -> exists v, lookup k m = Some v.
Proof.
  intros k m H. destruct (lookup k m) eqn:E; [eauto|].
  apply lookup_none_keys in E. contradiction.
Qed.

Lemma in_nodup_lookup : forall k v m, NoDup (keys m) -> In (k, v) m -> lookup k m = Some v.
Proof.
  induction m as [|[k' v'] m IH]; cbn; [tauto|].
  intros ND [H|H].
  - inversion H; subst. rewrite bytes_eqb_refl. reflexivity.
  - inversion ND; subst. destruct (bytes_eqb k k') eqn:E.
    + apply bytes_eqb_spec in E. subst. exfalso. apply H2. apply (in_map fst) in H. exact H.
    + auto.
Qed.

(* ------------------------------------------------------------------ invariants of a tracker *)

(* pathToName and nameToPath are inverse to each other *)
Definition bij (tr : tracker) : Prop :=
  forall p n, lookup p (p2n tr) = Some n <-> lookup n (n2p tr) = Some p.

(* the two Go maps hold the same pairs: the association lists are mirror images without repeated keys *)
Definition mirror (tr : tracker) : Prop :=
  n2p tr = map (fun e => (snd e, fst e)) (p2n tr) /\ NoDup (keys (p2n tr)) /\ NoDup (keys (n2p tr)).

(* a name the std table reserves is bound to its std package only *)
Definition std_ok (std : option tracker) (tr : tracker) : Prop :=
  forall s n p sp, std = Some s -> lookup n (n2p tr) = Some p -> lookup n (n2p s) = Some sp -> p = sp.

Definition names_valid (tr : tracker) : Prop :=
  forall p n, lookup p (p2n tr) = Some n -> valid_name_b n = true.

(* no local name is one of the names bind refuses (the predeclared identifiers) *)
Definition names_not_pre (pre : list bytes) (tr : tracker) : Prop :=
  forall p n, lookup p (p2n tr) = Some n -> name_in pre n = false.

(* pathToName only grows and never rebinds *)
Definition ext (a b : amap) : Prop := forall k v, lookup k a = Some v -> lookup k b = Some v.

Lemma ext_refl : forall a, ext a a.
Proof. intros a k v H. exact H. Qed.
Lemma ext_trans : forall a b c, ext a b -> ext b c -> ext a c.
Proof. intros a b c H1 H2 k v H. auto. Qed.

Lemma bij_empty : bij empty_tracker.
Proof. intros p n. cbn. split; discriminate. Qed.
Lemma mirror_empty : mirror empty_tracker.
Proof. repeat split; cbn; constructor. Qed.
Lemma std_ok_empty : forall std, std_ok std empty_tracker.
Proof. intros std s n p sp _ H. cbn in H. discriminate. Qed.
Lemma names_valid_empty : names_valid empty_tracker.
Proof. intros p n H. cbn in H. discriminate. Qed.
Lemma names_not_pre_empty : forall pre, names_not_pre pre empty_tracker.
Proof. intros pre p n H. cbn in H. discriminate. Qed.

Lemma name_in_spec : forall pre n, name_in pre n = true <-> In n pre.
Proof.
  intros pre n. unfold name_in. rewrite existsb_exists. split.
  - intros (x & Hin & E). apply bytes_eqb_spec in E. subst. exact Hin.
  - intros H. exists n. split; [exact H|apply bytes_eqb_refl].
Qed.

(* ------------------------------------------------------------------ bind *)

Lemma bind_some : forall pre std tr nm path tr',
  bind pre std tr nm path = Some tr' ->
  std_conflict std nm path = false /\ lookup nm (n2p tr) = None /\
  tr' = mk_tracker ((path, nm) :: p2n tr) ((nm, path) :: n2p tr).
Proof.
  intros pre std tr nm path tr' H. unfold bind in H.
  destruct (name_in pre nm); [discriminate|].
  destruct (std_conflict std nm path); [discriminate|].
  destruct (lookup nm (n2p tr)); [discriminate|]. inversion H. auto.
Qed.

(* a successful bind never gives a refused name *)
Lemma bind_some_not_pre : forall pre std tr nm path tr',
  bind pre std tr nm path = Some tr' -> name_in pre nm = false.
Proof.
  intros pre std tr nm path tr' H. unfold bind in H. destruct (name_in pre nm); [discriminate|reflexivity].
Qed.

Lemma bind_none : forall pre std tr nm path,
  bind pre std tr nm path = None ->
  In nm (keys (n2p tr)) \/ (exists s, std = Some s /\ In nm (keys (n2p s))) \/ In nm pre.
Proof.
  intros pre std tr nm path H. unfold bind in H.
  destruct (name_in pre nm) eqn:EP; [right; right; apply name_in_spec; exact EP|].
  destruct (std_conflict std nm path) eqn:E.
  - right. left. unfold std_conflict in E. destruct std as [s|]; [|discriminate].
    exists s. split; [reflexivity|]. destruct (lookup nm (n2p s)) eqn:L; [|discriminate].
    eapply lookup_in_keys; eauto.
  - left. destruct (lookup nm (n2p tr)) eqn:L; [|discriminate]. eapply lookup_in_keys; eauto.
Qed.

Section Bind.
  Variables (pre : list bytes) (std : option tracker) (tr tr' : tracker) (nm path : bytes).
  Hypothesis Hfree : lookup path (p2n tr) = None.
  Hypothesis Hbind : bind pre std tr nm path = Some tr'.

  Lemma bind_bij : bij tr -> bij tr'.
  Proof.
    intros B. destruct (bind_some _ _ _ _ _ _ Hbind) as (_ & Hn & ->). intros p n. cbn [p2n n2p].
    destruct (bytes_dec p path) as [->|Hp]; destruct (bytes_dec n nm) as [->|Hn'].
    - rewrite !lookup_hd. tauto.
    - rewrite lookup_hd. rewrite lookup_tl by exact Hn'. split.
      + intros H. inversion H. congruence.
      + intros H. apply B in H. congruence.
    - rewrite lookup_hd. rewrite lookup_tl by exact Hp. split.
      + intros H. apply B in H. congruence.
      + intros H. inversion H. congruence.
    - rewrite !lookup_tl by assumption. apply B.
  Qed.

  Lemma bind_mirror : mirror tr -> mirror tr'.
  Proof.
    intros (M & N1 & N2). destruct (bind_some _ _ _ _ _ _ Hbind) as (_ & Hn & ->). cbn [p2n n2p].
    repeat split.
    - cbn. rewrite M. reflexivity.
    - cbn. constructor; [|exact N1]. apply lookup_none_keys. exact Hfree.
    - cbn. constructor; [|exact N2]. apply lookup_none_keys. exact Hn.
  Qed.

  Lemma bind_std_ok : std_ok std tr -> std_ok std tr'.
  Proof.
    intros S. destruct (bind_some _ _ _ _ _ _ Hbind) as (Hc & Hn & ->).
    intros s n p sp Hs H1 H2. cbn [n2p] in H1.
    destruct (bytes_dec n nm) as [->|Hn'].
    - rewrite lookup_hd in H1. inversion H1; subst p. subst std. unfold std_conflict in Hc.
      rewrite H2 in Hc. apply negb_false_iff in Hc. apply bytes_eqb_spec in Hc. congruence.
    - rewrite lookup_tl in H1 by exact Hn'. eapply S; eauto.
  Qed.

  Lemma bind_names_valid : valid_name_b nm = true -> names_valid tr -> names_valid tr'.
  Proof.
    intros V NV. destruct (bind_some _ _ _ _ _ _ Hbind) as (_ & _ & ->).
    intros p n H. cbn [p2n] in H. destruct (bytes_dec p path) as [->|Hp].
    - rewrite lookup_hd in H. inversion H; subst. exact V.
    - rewrite lookup_tl in H by exact Hp. eapply NV; eauto.
  Qed.

  Lemma bind_names_not_pre : names_not_pre pre tr -> names_not_pre pre tr'.
  Proof.
    intros NP. pose proof (bind_some_not_pre _ _ _ _ _ _ Hbind) as V.
    destruct (bind_some _ _ _ _ _ _ Hbind) as (_ & _ & ->).
    intros p n H. cbn [p2n] in H. destruct (bytes_dec p path) as [->|Hp].
    - rewrite lookup_hd in H. inversion H; subst. exact V.
    - rewrite lookup_tl in H by exact Hp. eapply NP; eauto.
  Qed.

  Lemma bind_ext : ext (p2n tr) (p2n tr').
  Proof.
    destruct (bind_some _ _ _ _ _ _ Hbind) as (_ & _ & ->). intros k v H. cbn [p2n].
    destruct (bytes_dec k path) as [->|Hk]; [congruence|]. rewrite lookup_tl by exact Hk. exact H.
  Qed.

  Lemma bind_ext_n2p : ext (n2p tr) (n2p tr').
  Proof.
    destruct (bind_some _ _ _ _ _ _ Hbind) as (_ & Hn & ->). intros k v H. cbn [n2p].
    destruct (bytes_dec k nm) as [->|Hk]; [congruence|]. rewrite lookup_tl by exact Hk. exact H.
  Qed.

  Lemma bind_keys : keys (p2n tr') = path :: keys (p2n tr).
  Proof. destruct (bind_some _ _ _ _ _ _ Hbind) as (_ & _ & ->). reflexivity. Qed.

  Lemma bind_bound : lookup path (p2n tr') = Some nm.
  Proof. destruct (bind_some _ _ _ _ _ _ Hbind) as (_ & _ & ->). apply lookup_hd. Qed.
End Bind.

(* ------------------------------------------------------------------ how a tracker evolves *)

(* one successful bind of a path that had no name; on the repaired code the name is valid *)
Inductive grow (fixed : bool) (pre : list bytes) (std : option tracker) : tracker -> tracker -> Prop :=
| grow_bind : forall tr path nm tr',
    lookup path (p2n tr) = None -> bind pre std tr nm path = Some tr' ->
    (fixed = true -> valid_name_b nm = true) -> grow fixed pre std tr tr'.

Inductive reach (fixed : bool) (pre : list bytes) (std : option tracker) : tracker -> tracker -> Prop :=
| reach_refl : forall tr, reach fixed pre std tr tr
| reach_step : forall tr tr1 tr2, grow fixed pre std tr tr1 -> reach fixed pre std tr1 tr2 -> reach fixed pre std tr tr2.

Lemma reach_trans : forall fixed pre std a b c, reach fixed pre std a b -> reach fixed pre std b c -> reach fixed pre std a c.
Proof. intros fixed pre std a b c H. induction H; intros H2; [exact H2|]. econstructor; eauto. Qed.

Lemma reach_one : forall fixed pre std a b, grow fixed pre std a b -> reach fixed pre std a b.
Proof. intros. econstructor; [eassumption|constructor]. Qed.

Record inv (std : option tracker) (tr : tracker) : Prop := mk_inv {
  inv_bij : bij tr;
  inv_mirror : mirror tr;
  inv_std : std_ok std tr
}.

Lemma inv_empty : forall std, inv std empty_tracker.
Proof. intros. constructor; [apply bij_empty|apply mirror_empty|apply std_ok_empty]. Qed.

Lemma grow_inv : forall fixed pre std a b, grow fixed pre std a b -> inv std a -> inv std b.
Proof.
  intros fixed pre std a b [tr path nm tr' Hf Hb _] [B M S]. constructor.
  - eapply bind_bij; eauto.
  - eapply bind_mirror; eauto.
  - eapply bind_std_ok; eauto.
Qed.

Lemma reach_inv : forall fixed pre std a b, reach fixed pre std a b -> inv std a -> inv std b.
Proof. intros fixed pre std a b H. induction H; intros I; [exact I|]. apply IHreach. eapply grow_inv; eauto. Qed.

Lemma grow_valid : forall pre std a b, grow true pre std a b -> names_valid a -> names_valid b.
Proof.
  intros pre std a b [tr path nm tr' Hf Hb V] NV. eapply bind_names_valid; eauto.
Qed.

Lemma reach_valid : forall pre std a b, reach true pre std a b -> names_valid a -> names_valid b.
Proof. intros pre std a b H. induction H; intros I; [exact I|]. apply IHreach. eapply grow_valid; eauto. Qed.

Lemma grow_not_pre : forall fixed pre std a b, grow fixed pre std a b -> names_not_pre pre a -> names_not_pre pre b.
Proof.
  intros fixed pre std a b [tr path nm tr' Hf Hb _] NP. eapply bind_names_not_pre; eauto.
Qed.

Lemma reach_not_pre : forall fixed pre std a b, reach fixed pre std a b -> names_not_pre pre a -> names_not_pre pre b.
Proof. intros fixed pre std a b H. induction H; intros I; [exact I|]. apply IHreach. eapply grow_not_pre; eauto. Qed.

Lemma grow_ext : forall fixed pre std a b, grow fixed pre std a b -> ext (p2n a) (p2n b) /\ ext (n2p a) (n2p b).
Proof.
  intros fixed pre std a b [tr path nm tr' Hf Hb _]. split; [eapply bind_ext|eapply bind_ext_n2p]; eauto.
Qed.

Lemma reach_ext : forall fixed pre std a b, reach fixed pre std a b -> ext (p2n a) (p2n b) /\ ext (n2p a) (n2p b).
Proof.
  intros fixed pre std a b H. induction H.
  - split; apply ext_refl.
  - destruct (grow_ext _ _ _ _ _ H) as [E1 E2]. destruct IHreach as [F1 F2].
    split; eapply ext_trans; eauto.
Qed.

(* ------------------------------------------------------------------ names *)

Lemma keyword_all_lower : forall n, is_keyword n = true -> forallb is_lower n = true.
Proof.
  intros n H. unfold is_keyword in H. apply existsb_exists in H. destruct H as (k & Hin & E).
  apply bytes_eqb_spec in E. subst k.
  repeat (destruct Hin as [<-|Hin]; [vm_compute; reflexivity|]). destruct Hin.
Qed.

Lemma keyword_not_underscore_first : forall n, is_keyword (underscore :: n) = false.
Proof.
  intros n. destruct (is_keyword (underscore :: n)) eqn:E; [|reflexivity].
  apply keyword_all_lower in E. cbn in E. discriminate.
Qed.

Lemma ident_char_filter : forall raw, forallb ident_char (filter ident_char raw) = true.
Proof.
  induction raw as [|c r IH]; cbn; [reflexivity|].
  destruct (ident_char c) eqn:E; cbn; [rewrite E|]; exact IH.
Qed.

Lemma ident_char_not_digit_start : forall c, ident_char c = true -> is_digit c = false -> ident_start c = true.
Proof.
  intros c H D. unfold ident_char in H. unfold ident_start. rewrite D in H.
  rewrite orb_false_r in H. exact H.
Qed.

(* whatever LowerCamelCase leaves, the repaired toLocalName returns a usable name *)
Lemma sanitize_valid : forall raw, valid_name_b (sanitize raw) = true.
Proof.
  intros raw. unfold sanitize. pose proof (ident_char_filter raw) as F.
  set (name := filter ident_char raw) in *. clearbody name.
  destruct (is_nil name || is_blank name) eqn:E1; [vm_compute; reflexivity|].
  apply orb_false_iff in E1. destruct E1 as [Enil Eblank].
  destruct name as [|c r]; [discriminate|]. cbn [forallb] in F. apply andb_true_iff in F. destruct F as [Fc Fr].
  destruct (hd_is_digit (c :: r) || is_keyword (c :: r)) eqn:E2.
  - unfold valid_name_b. rewrite keyword_not_underscore_first. cbn [go_ident_b forallb].
    rewrite Fc, Fr. cbn. reflexivity.
  - apply orb_false_iff in E2. destruct E2 as [Ed Ek]. cbn in Ed.
    unfold valid_name_b. rewrite Ek, Eblank. cbn [go_ident_b]. rewrite Fr.
    rewrite (ident_char_not_digit_start c Fc Ed). reflexivity.
Qed.

Lemma valid_name_nonempty : forall n, valid_name_b n = true -> n <> [].
Proof. intros [|c r] H; [cbn in H; discriminate|discriminate]. Qed.

(* decimal numerals *)
Lemma uint_digits : forall d, forallb is_digit (of_string (DecimalString.NilEmpty.string_of_uint d)) = true.
Proof. induction d; cbn; try reflexivity; exact IHd. Qed.

Lemma itoa_digits : forall k, forallb is_digit (itoa k) = true.
Proof. intros k. apply uint_digits. Qed.

Lemma of_string_inj : forall a b, of_string a = of_string b -> a = b.
Proof.
  induction a as [|c a IH]; destruct b as [|d b]; cbn; intros H; try discriminate; [reflexivity|].
  inversion H. f_equal. auto.
Qed.

Lemma itoa_inj : forall a b, itoa a = itoa b -> a = b.
Proof.
  intros a b H. unfold itoa in H. apply of_string_inj in H.
  assert (E : Some (Nat.to_uint a) = Some (Nat.to_uint b)).
  { rewrite <- !DecimalString.NilEmpty.usu. rewrite H. reflexivity. }
  inversion E as [E']. rewrite <- (DecimalNat.Unsigned.of_to a), <- (DecimalNat.Unsigned.of_to b).
  rewrite E'. reflexivity.
Qed.

Lemma itoa_nonempty : forall k, itoa k <> [].
Proof.
  intros k H. unfold itoa in H.
  assert (E : DecimalString.NilEmpty.string_of_uint (Nat.to_uint k) = EmptyString).
  { apply of_string_inj. exact H. }
  pose proof (DecimalString.NilEmpty.usu (Nat.to_uint k)) as U. rewrite E in U. cbn in U.
  inversion U as [U']. pose proof (DecimalNat.Unsigned.to_of (Nat.to_uint k)) as N.
  rewrite DecimalNat.Unsigned.of_to in N. rewrite <- U' in N. cbn in N. discriminate.
Qed.

Lemma forallb_lower_digit : forall a d b, is_digit d = true -> forallb is_lower (a ++ d :: b) = false.
Proof.
  intros a d b D. rewrite forallb_app. cbn.
  assert (L : is_lower d = false).
  { unfold is_digit in D. unfold is_lower. apply andb_true_iff in D. destruct D as [_ D].
    apply N.leb_le in D. apply andb_false_iff. left. apply N.leb_gt. lia. }
  rewrite L. cbn. apply andb_false_r.
Qed.

(* a valid name followed by a decimal numeral is a valid name *)
Lemma valid_name_numbered : forall n k, valid_name_b n = true -> valid_name_b (n ++ itoa k) = true.
Proof.
  intros n k V. pose proof (itoa_digits k) as D. pose proof (itoa_nonempty k) as NE.
  destruct (itoa k) as [|d ds]; [congruence|]. cbn in D. apply andb_true_iff in D. destruct D as [Dd Dds].
  unfold valid_name_b in *. apply andb_true_iff in V. destruct V as [V Vb].
  apply andb_true_iff in V. destruct V as [Vi Vk].
  destruct n as [|c r]; [discriminate|]. cbn [go_ident_b app] in *.
  apply andb_true_iff in Vi. destruct Vi as [Vc Vr].
  assert (K : is_keyword (c :: r ++ d :: ds) = false).
  { destruct (is_keyword (c :: r ++ d :: ds)) eqn:E; [|reflexivity].
    apply keyword_all_lower in E. change (c :: r ++ d :: ds) with ((c :: r) ++ d :: ds) in E.
    rewrite forallb_lower_digit in E by exact Dd. discriminate. }
  assert (B : is_blank (c :: r ++ d :: ds) = false).
  { unfold is_blank. apply bytes_eqb_false. intros E. inversion E as [[E1 E2]].
    destruct r; discriminate. }
  rewrite K, B, Vc. cbn. rewrite forallb_app, Vr. cbn [forallb].
  assert (Hd : forall x, is_digit x = true -> ident_char x = true).
  { intros x Hx. unfold ident_char. rewrite Hx. apply orb_true_r. }
  rewrite (Hd d Dd). cbn. rewrite andb_true_r.
  clear - Dds Hd. induction ds as [|x ds IH]; cbn in *; [reflexivity|].
  apply andb_true_iff in Dds. destruct Dds as [Dx Dds]. rewrite (Hd x Dx). cbn. auto.
Qed.

(* ------------------------------------------------------------------ candidates *)

Lemma raw_local_name_total : forall parts, exists r, raw_local_name parts = Ok r.
Proof.
  intros parts. unfold raw_local_name, c_conv.
  destruct (conv_total crune c_cls c_blen c_drop1 (map a_low) (map a_up) (a_title false) a_is_id
              [(73, CUpper); (68, CUpper)]%N [(95, COther)]%N [(45, COther)]%N 4
              (Valid (map cr (concat parts)))) as [r Hr].
  rewrite Hr. eauto.
Qed.

Lemma to_local_name_spec : forall fixed parts,
  exists nm, to_local_name fixed parts = Ok nm /\ (fixed = true -> valid_name_b nm = true).
Proof.
  intros fixed parts. unfold to_local_name. destruct (raw_local_name_total parts) as [r ->]. cbn.
  eexists. split; [reflexivity|]. intros ->. apply sanitize_valid.
Qed.

Lemma local_name_spec : forall fixed segs n,
  exists nm, local_name fixed segs n = Ok nm /\ (fixed = true -> valid_name_b nm = true).
Proof.
  intros fixed segs n. unfold local_name.
  destruct segs as [|s [|s2 rest]]; try apply to_local_name_spec.
  - destruct (Nat.eqb n 1); apply to_local_name_spec.
  - destruct (Nat.eqb n 1); [|apply to_local_name_spec].
    destruct (shortcut (bs "domain") (s :: s2 :: rest)); [apply to_local_name_spec|].
    destruct (shortcut (bs "apis") (s :: s2 :: rest)); apply to_local_name_spec.
Qed.

Lemma try_cands_spec : forall fixed pre std tr path segs ns last,
  exists r l, try_cands fixed pre std tr path segs ns last = Ok (r, l) /\
    (fixed = true -> valid_name_b last = true \/ ns <> [] -> valid_name_b l = true) /\
    (forall tr', r = Some tr' -> bind pre std tr l path = Some tr').
Proof.
  intros fixed pre std tr path segs ns. induction ns as [|n rest IH]; intros last; cbn [try_cands].
  - exists None, last. split; [reflexivity|]. split.
    + intros _ [H|H]; [exact H|congruence].
    + discriminate.
  - destruct (local_name_spec fixed segs n) as (nm & -> & V). cbn [bind Bytes.bind].
    destruct (Tracker.bind pre std tr nm path) as [tr1|] eqn:B.
    + exists (Some tr1), nm. split; [reflexivity|]. split; [auto|]. intros tr' E. inversion E; subst. exact B.
    + destruct (IH nm) as (r & l & E & V' & Hb). exists r, l. split; [exact E|]. split; [|exact Hb].
      intros F _. apply V'; auto.
Qed.

Lemma split_slash_nonempty : forall s cur, split_slash cur s <> [].
Proof.
  induction s as [|c r IH]; intros cur; cbn; [discriminate|].
  destruct (byte_eqb c slash); [discriminate|apply IH].
Qed.

(* ------------------------------------------------------------------ the numbered fallback *)

Lemma number_loop_result : forall fuel k pre std tr base path,
  (exists tr' j, number_loop fuel k pre std tr base path = Ok tr' /\
                 Tracker.bind pre std tr (base ++ itoa j) path = Some tr')
  \/ (number_loop fuel k pre std tr base path = OutOfFuel /\
      forall j, k <= j < k + fuel -> Tracker.bind pre std tr (base ++ itoa j) path = None).
Proof.
  induction fuel as [|f IH]; intros k pre std tr base path; cbn [number_loop].
  - right. split; [reflexivity|]. intros j H. lia.
  - destruct (Tracker.bind pre std tr (base ++ itoa k) path) as [tr1|] eqn:B.
    + left. eauto.
    + destruct (IH (S k) pre std tr base path) as [H|[H1 H2]]; [left; exact H|].
      right. split; [exact H1|]. intros j Hj.
      destruct (PeanoNat.Nat.eq_dec j k) as [->|Hne]; [exact B|]. apply H2. lia.
Qed.

Definition taken (pre : list bytes) (std : option tracker) (tr : tracker) : list bytes :=
  keys (n2p tr) ++ match std with Some s => keys (n2p s) | None => [] end ++ pre.

Lemma taken_length : forall pre std tr, length (taken pre std tr) = length (n2p tr) + std_size std + length pre.
Proof.
  intros pre std tr. unfold taken, keys, std_size. rewrite !app_length, !map_length.
  destruct std; cbn; [rewrite map_length|]; lia.
Qed.

(* pigeonhole: the names base2, base3, ... are pairwise distinct and only finitely many names are
   taken, reserved or predeclared, so the fuel [add] supplies always suffices *)
Lemma number_loop_ok : forall fuel k pre std tr base path,
  length (n2p tr) + std_size std + length pre < fuel ->
  exists tr' j, number_loop fuel k pre std tr base path = Ok tr' /\
                Tracker.bind pre std tr (base ++ itoa j) path = Some tr'.
Proof.
  intros fuel k pre std tr base path Hlen.
  destruct (number_loop_result fuel k pre std tr base path) as [H|[_ Hall]]; [exact H|]. exfalso.
  set (l := map (fun j => base ++ itoa j) (seq k fuel)).
  assert (ND : NoDup l).
  { apply FinFun.Injective_map_NoDup; [|apply seq_NoDup].
    intros a b E. apply app_inv_head in E. apply itoa_inj. exact E. }
  assert (I : incl l (taken pre std tr)).
  { intros x Hx. unfold l in Hx. apply in_map_iff in Hx. destruct Hx as (j & <- & Hj).
    apply in_seq in Hj. specialize (Hall j Hj). apply bind_none in Hall. unfold taken.
    apply in_or_app. destruct Hall as [H|[(s & -> & H)|H]]; [left; exact H|right; apply in_or_app; auto ..]. }
  pose proof (NoDup_incl_length ND I) as L. unfold l in L.
  rewrite map_length, seq_length, taken_length in L. lia.
Qed.

(* ------------------------------------------------------------------ add *)

Lemma add_spec : forall fixed pre std tr path,
  exists tr', add fixed pre std tr path = Ok tr' /\
    (((exists n, lookup path (p2n tr) = Some n) /\ tr' = tr)
     \/ (lookup path (p2n tr) = None /\
         exists nm, Tracker.bind pre std tr nm path = Some tr' /\ (fixed = true -> valid_name_b nm = true))
     \/ (fixed = false /\ lookup path (p2n tr) = None /\ tr' = tr)).
Proof.
  intros fixed pre std tr path. unfold add. destruct (lookup path (p2n tr)) as [n|] eqn:L.
  - exists tr. split; [reflexivity|]. left. eauto.
  - set (segs := split_slash [] path).
    destruct (try_cands_spec fixed pre std tr path segs (seq 1 (length segs)) []) as (r & l & -> & V & Hb).
    cbn [Bytes.bind]. destruct r as [tr1|].
    + exists tr1. split; [reflexivity|]. right. left. split; [reflexivity|]. exists l. split; [auto|].
      intros F. apply V; [exact F|]. right. pose proof (split_slash_nonempty path []) as NE.
      fold segs in NE. destruct segs; [congruence|discriminate].
    + destruct fixed.
      * destruct (number_loop_ok (S (length (n2p tr) + std_size std + length pre)) 2 pre std tr l path) as (tr1 & j & E & B); [lia|].
        exists tr1. split; [exact E|]. right. left. split; [reflexivity|].
        exists (l ++ itoa j). split; [exact B|]. intros _. apply valid_name_numbered. apply V; [reflexivity|].
        right. pose proof (split_slash_nonempty path []) as NE.
        fold segs in NE. destruct segs; [congruence|discriminate].
      * exists tr. split; [reflexivity|]. right. right. auto.
Qed.

Lemma add_reach : forall fixed pre std tr path tr', add fixed pre std tr path = Ok tr' -> reach fixed pre std tr tr'.
Proof.
  intros fixed pre std tr path tr' H. destruct (add_spec fixed pre std tr path) as (tr1 & E & C).
  rewrite E in H. inversion H; subst tr1. clear H E.
  destruct C as [[_ ->]|[(L & nm & B & V)|(_ & _ & ->)]]; try constructor.
  apply reach_one. econstructor; eauto.
Qed.

(* the repaired add always leaves the path bound, and binds nothing else *)
Lemma add_fixed_bound : forall pre std tr path tr', add true pre std tr path = Ok tr' ->
  (exists n, lookup path (p2n tr') = Some n) /\
  (forall p, In p (keys (p2n tr')) <-> p = path \/ In p (keys (p2n tr))).
Proof.
  intros pre std tr path tr' H. destruct (add_spec true pre std tr path) as (tr1 & E & C).
  rewrite E in H. inversion H; subst tr1. clear H E.
  destruct C as [[[n L] ->]|[(L & nm & B & V)|(F & _)]]; [| |discriminate].
  - split; [eauto|]. intros p. split; [auto|]. intros [->|H]; [|exact H]. eapply lookup_in_keys; eauto.
  - split.
    + exists nm. eapply bind_bound; eauto.
    + intros p. rewrite (bind_keys _ _ _ _ _ _ B). cbn. split; intros [H|H]; auto.
Qed.

Lemma add_total : forall fixed pre std tr path, exists tr', add fixed pre std tr path = Ok tr'.
Proof. intros. destruct (add_spec fixed pre std tr path) as (tr' & E & _). eauto. Qed.

(* asking for the same package again changes nothing *)
Lemma add_idempotent : forall pre std tr path tr',
  add true pre std tr path = Ok tr' -> add true pre std tr' path = Ok tr'.
Proof.
  intros pre std tr path tr' H. destruct (add_fixed_bound _ _ _ _ _ H) as [[n L] _].
  unfold add. rewrite L. reflexivity.
Qed.

(* ------------------------------------------------------------------ rawNamer *)

Lemma walk_args_total : forall fixed pre std self args tr,
  exists tr' txt, walk_args fixed pre std self tr args = Ok (tr', txt) /\ reach fixed pre std tr tr'.
Proof.
  intros fixed pre std self. induction args as [|[p lit] rest IH]; intros tr; cbn [walk_args].
  - exists tr, []. split; [reflexivity|constructor].
  - destruct (is_nil p); [|destruct (bytes_eqb p self)].
    + destruct (IH tr) as (tr' & txt & -> & R). cbn. eauto.
    + destruct (IH tr) as (tr' & txt & -> & R). cbn. eauto.
    + destruct (add_total fixed pre std tr p) as [tr1 E]. rewrite E. cbn [Bytes.bind].
      destruct (IH tr1) as (tr' & txt & -> & R). cbn. do 2 eexists. split; [reflexivity|].
      eapply reach_trans; [eapply add_reach; eauto|exact R].
Qed.

Lemma lookup_or_empty_some : forall k v m, lookup k m = Some v -> lookup_or_empty k m = v.
Proof. intros k v m H. unfold lookup_or_empty. rewrite H. reflexivity. Qed.

Lemma is_nil_false : forall (A : Type) (l : list A), l <> [] -> is_nil l = false.
Proof. intros A [|x l] H; [congruence|reflexivity]. Qed.

Lemma walk_args_fixed : forall pre std self args tr tr' txt,
  walk_args true pre std self tr args = Ok (tr', txt) ->
  (forall p, In p (keys (p2n tr')) <-> In p (filter (foreign self) (map fst args)) \/ In p (keys (p2n tr))) /\
  (names_valid tr -> forall tbl, ext (p2n tr') tbl -> print_args self tbl args = Some txt).
Proof.
  intros pre std self. induction args as [|[p lit] rest IH]; intros tr tr' txt H; cbn [walk_args] in H.
  - inversion H; subst. split; [cbn; tauto|]. reflexivity.
  - cbn [map fst filter print_args]. unfold foreign at 1.
    destruct (is_nil p) eqn:En; [|destruct (bytes_eqb p self) eqn:Es]; cbn [negb andb].
    + destruct (walk_args true pre std self tr rest) as [[tr1 t1]| |] eqn:W; cbn in H; try discriminate.
      inversion H; subst. destruct (IH _ _ _ W) as [K T]. split; [exact K|].
      intros NV tbl E. rewrite (T NV tbl E). reflexivity.
    + destruct (walk_args true pre std self tr rest) as [[tr1 t1]| |] eqn:W; cbn in H; try discriminate.
      inversion H; subst. destruct (IH _ _ _ W) as [K T]. split; [exact K|].
      intros NV tbl E. rewrite (T NV tbl E). unfold qualifier. rewrite Es. reflexivity.
    + destruct (add true pre std tr p) as [tr1| |] eqn:A; cbn [Bytes.bind] in H; try discriminate.
      destruct (walk_args true pre std self tr1 rest) as [[tr2 t2]| |] eqn:W; cbn in H; try discriminate.
      inversion H; subst tr' txt. clear H.
      destruct (IH _ _ _ W) as [K T]. destruct (add_fixed_bound _ _ _ _ _ A) as [[n L] KA]. split.
      * intros q. rewrite K, KA. cbn [In]. split; intros Hq; intuition auto.
      * intros NV tbl E.
        assert (NV1 : names_valid tr1) by (eapply reach_valid; [eapply add_reach; eauto|exact NV]).
        rewrite (T NV1 tbl E).
        assert (R2 : reach true pre std tr1 tr2) by (destruct (walk_args_total true pre std self rest tr1) as (a & b & E2 & R); rewrite W in E2; inversion E2; subst; exact R).
        destruct (reach_ext _ _ _ _ _ R2) as [X _].
        unfold qualifier. rewrite Es. rewrite (E _ _ (X _ _ L)).
        rewrite (lookup_or_empty_some _ _ _ L).
        rewrite (is_nil_false _ n (valid_name_nonempty _ (NV1 _ _ L))).
        rewrite <- !app_assoc. reflexivity.
Qed.

Lemma name_ref_total : forall fixed pre std self tr r,
  exists tr' txt, name_ref fixed pre std self tr r = Ok (tr', txt) /\ reach fixed pre std tr tr'.
Proof.
  intros fixed pre std self tr r. unfold name_ref.
  destruct (walk_args_total fixed pre std self (r_args r) tr) as (tr1 & a & -> & R1). cbn [Bytes.bind].
  destruct (bytes_eqb (r_path r) self).
  - eauto.
  - destruct (add_total fixed pre std tr1 (r_path r)) as [tr2 E]. rewrite E. cbn [Bytes.bind].
    do 2 eexists. split; [reflexivity|]. eapply reach_trans; [exact R1|eapply add_reach; eauto].
Qed.

Lemma name_ref_reach : forall fixed pre std self tr r tr' txt,
  name_ref fixed pre std self tr r = Ok (tr', txt) -> reach fixed pre std tr tr'.
Proof.
  intros fixed pre std self tr r tr' txt H. destruct (name_ref_total fixed pre std self tr r) as (a & b & E & R).
  rewrite H in E. inversion E; subst. exact R.
Qed.

Lemma name_ref_fixed : forall pre std self tr r tr' txt,
  name_ref true pre std self tr r = Ok (tr', txt) ->
  (forall p, In p (keys (p2n tr')) <-> In p (ref_paths self r) \/ In p (keys (p2n tr))) /\
  (names_valid tr -> forall tbl, ext (p2n tr') tbl -> print_ref self tbl r = Some txt).
Proof.
  intros pre std self tr r tr' txt H. unfold name_ref in H.
  destruct (walk_args true pre std self tr (r_args r)) as [[tr1 a]| |] eqn:W; cbn [Bytes.bind] in H; try discriminate.
  destruct (walk_args_fixed _ _ _ _ _ _ _ W) as [K T].
  assert (R1 : reach true pre std tr tr1).
  { destruct (walk_args_total true pre std self (r_args r) tr) as (x & y & E & R). rewrite W in E. inversion E; subst. exact R. }
  unfold ref_paths, print_ref. destruct (bytes_eqb (r_path r) self) eqn:Es.
  - inversion H; subst tr' txt. clear H. split.
    + intros p. rewrite K, app_nil_r. tauto.
    + intros NV tbl E. rewrite (T NV tbl E). unfold qualifier. rewrite Es. cbn [andb app].
      unfold tparams_text. reflexivity.
  - destruct (add true pre std tr1 (r_path r)) as [tr2| |] eqn:A; cbn [Bytes.bind] in H; try discriminate.
    inversion H; subst tr' txt. clear H. destruct (add_fixed_bound _ _ _ _ _ A) as [[n L] KA]. split.
    + intros p. rewrite KA, K, in_app_iff. cbn [In]. intuition auto.
    + intros NV tbl E.
      assert (NV1 : names_valid tr1) by (eapply reach_valid; eauto).
      destruct (reach_ext _ _ _ _ _ (add_reach _ _ _ _ _ _ A)) as [X _].
      rewrite (T NV tbl (ext_trans _ _ _ X E)).
      unfold qualifier. rewrite Es. rewrite (E _ _ L). cbn [andb].
      rewrite (lookup_or_empty_some _ _ _ L). unfold tparams_text.
      rewrite <- app_assoc. reflexivity.
Qed.

Lemma render_items_total : forall fixed pre std self its tr,
  exists tr' txt, render_items fixed pre std self tr its = Ok (tr', txt) /\ reach fixed pre std tr tr'.
Proof.
  intros fixed pre std self. induction its as [|[b|r] rest IH]; intros tr; cbn [render_items].
  - exists tr, []. split; [reflexivity|constructor].
  - destruct (IH tr) as (tr' & txt & -> & R). cbn. eauto.
  - destruct (name_ref_total fixed pre std self tr r) as (tr1 & t & -> & R1). cbn [Bytes.bind].
    destruct (IH tr1) as (tr' & txt & -> & R). cbn. do 2 eexists. split; [reflexivity|].
    eapply reach_trans; eauto.
Qed.

Lemma render_items_fixed : forall pre std self its tr tr' txt,
  render_items true pre std self tr its = Ok (tr', txt) ->
  (forall p, In p (keys (p2n tr')) <-> In p (flat_map (item_paths self) its) \/ In p (keys (p2n tr))) /\
  (names_valid tr -> forall tbl, ext (p2n tr') tbl -> print_items self tbl its = Some txt).
Proof.
  intros pre std self. induction its as [|[b|r] rest IH]; intros tr tr' txt H; cbn [render_items] in H.
  - inversion H; subst. split; [cbn; tauto|]. reflexivity.
  - destruct (render_items true pre std self tr rest) as [[tr1 t1]| |] eqn:W; cbn in H; try discriminate.
    inversion H; subst. destruct (IH _ _ _ W) as [K T]. split; [exact K|].
    intros NV tbl E. cbn [print_items]. rewrite (T NV tbl E). reflexivity.
  - destruct (name_ref true pre std self tr r) as [[tr1 t1]| |] eqn:N; cbn [Bytes.bind] in H; try discriminate.
    destruct (render_items true pre std self tr1 rest) as [[tr2 t2]| |] eqn:W; cbn in H; try discriminate.
    inversion H; subst tr' txt. clear H.
    destruct (IH _ _ _ W) as [K T]. destruct (name_ref_fixed _ _ _ _ _ _ _ N) as [KN TN]. split.
    + intros p. rewrite K, KN. cbn [flat_map item_paths]. rewrite in_app_iff. tauto.
    + intros NV tbl E. cbn [print_items].
      assert (NV1 : names_valid tr1) by (eapply reach_valid; [eapply name_ref_reach; eauto|exact NV]).
      assert (R2 : reach true pre std tr1 tr2).
      { destruct (render_items_total true pre std self rest tr1) as (x & y & E2 & R). rewrite W in E2. inversion E2; subst. exact R. }
      destruct (reach_ext _ _ _ _ _ R2) as [X _].
      rewrite (TN NV tbl (ext_trans _ _ _ X E)), (T NV1 tbl E). reflexivity.
Qed.

Lemma step_total : forall fixed pre std self tr o,
  exists tr' txt, step fixed pre std self tr o = Ok (tr', txt) /\ reach fixed pre std tr tr'.
Proof.
  intros fixed pre std self tr [p|its]; cbn [step].
  - destruct (add_total fixed pre std tr p) as [tr1 E]. rewrite E. cbn. do 2 eexists. split; [reflexivity|].
    eapply add_reach; eauto.
  - apply render_items_total.
Qed.

Lemma step_reach : forall fixed pre std self tr o tr' txt,
  step fixed pre std self tr o = Ok (tr', txt) -> reach fixed pre std tr tr'.
Proof.
  intros fixed pre std self tr o tr' txt H. destruct (step_total fixed pre std self tr o) as (a & b & E & R).
  rewrite H in E. inversion E; subst. exact R.
Qed.

Lemma step_fixed : forall pre std self tr o tr' txt,
  step true pre std self tr o = Ok (tr', txt) ->
  (forall p, In p (keys (p2n tr')) <-> In p (op_paths self o) \/ In p (keys (p2n tr))) /\
  (names_valid tr -> forall tbl, ext (p2n tr') tbl -> print_op self tbl o = Some txt).
Proof.
  intros pre std self tr [p|its] tr' txt H; cbn [step] in H.
  - destruct (add true pre std tr p) as [tr1| |] eqn:A; cbn in H; try discriminate. inversion H; subst.
    destruct (add_fixed_bound _ _ _ _ _ A) as [_ KA]. split; [|reflexivity].
    intros q. rewrite KA. cbn. intuition (subst; auto).
  - eapply render_items_fixed. exact H.
Qed.

(* ------------------------------------------------------------------ histories *)

Lemma run_from_total : forall fixed pre std self ops tr,
  exists tr' texts snaps, run_from fixed pre std self tr ops = Ok (tr', texts, snaps) /\ reach fixed pre std tr tr'.
Proof.
  intros fixed pre std self. induction ops as [|o rest IH]; intros tr; cbn [run_from].
  - exists tr, [], []. split; [reflexivity|constructor].
  - destruct (step_total fixed pre std self tr o) as (tr1 & t & -> & R1). cbn [Bytes.bind].
    destruct (IH tr1) as (tr' & ts & sn & -> & R). cbn. do 3 eexists. split; [reflexivity|].
    eapply reach_trans; eauto.
Qed.

Lemma run_from_reach : forall fixed pre std self ops tr tr' texts snaps,
  run_from fixed pre std self tr ops = Ok (tr', texts, snaps) -> reach fixed pre std tr tr'.
Proof.
  intros fixed pre std self ops tr tr' texts snaps H.
  destruct (run_from_total fixed pre std self ops tr) as (a & b & c & E & R).
  rewrite H in E. inversion E; subst. exact R.
Qed.

Lemma run_from_fixed : forall pre std self ops tr tr' texts snaps,
  run_from true pre std self tr ops = Ok (tr', texts, snaps) ->
  (forall p, In p (keys (p2n tr')) <-> In p (history_paths self ops) \/ In p (keys (p2n tr))) /\
  (names_valid tr -> map (print_op self (p2n tr')) ops = map Some texts) /\
  Forall (fun s => ext s (p2n tr')) snaps.
Proof.
  intros pre std self. induction ops as [|o rest IH]; intros tr tr' texts snaps H; cbn [run_from] in H.
  - inversion H; subst. split; [cbn; tauto|]. split; [reflexivity|constructor].
  - destruct (step true pre std self tr o) as [[tr1 t]| |] eqn:S; cbn [Bytes.bind] in H; try discriminate.
    destruct (run_from true pre std self tr1 rest) as [[[tr2 ts] sn]| |] eqn:W; cbn in H; try discriminate.
    inversion H; subst tr' texts snaps. clear H.
    destruct (IH _ _ _ _ W) as (K & T & F). destruct (step_fixed _ _ _ _ _ _ _ S) as [KS TS].
    destruct (reach_ext _ _ _ _ _ (run_from_reach _ _ _ _ _ _ _ _ _ W)) as [X _].
    split; [|split].
    + intros p. rewrite K, KS. unfold history_paths. cbn [flat_map]. rewrite in_app_iff. tauto.
    + intros NV. cbn [map].
      assert (NV1 : names_valid tr1) by (eapply reach_valid; [eapply step_reach; eauto|exact NV]).
      rewrite (TS NV _ X), (T NV1). reflexivity.
    + constructor; [exact X|exact F].
Qed.

Lemma run_from_app : forall fixed pre std self ops1 ops2 tr,
  run_from fixed pre std self tr (ops1 ++ ops2) =
  (let! (tr1, t1, s1) := run_from fixed pre std self tr ops1 in
   let! (tr2, t2, s2) := run_from fixed pre std self tr1 ops2 in
   Ok (tr2, t1 ++ t2, s1 ++ s2)).
Proof.
  intros fixed pre std self. induction ops1 as [|o rest IH]; intros ops2 tr; cbn [app run_from].
  - cbn. destruct (run_from fixed pre std self tr ops2) as [[[a b] c]| |]; reflexivity.
  - destruct (step fixed pre std self tr o) as [[tr1 t]| |]; cbn [Bytes.bind]; try reflexivity.
    rewrite IH. destruct (run_from fixed pre std self tr1 rest) as [[[a b] c]| |]; cbn [Bytes.bind]; try reflexivity.
    destruct (run_from fixed pre std self a ops2) as [[[a2 b2] c2]| |]; reflexivity.
Qed.

Lemma add_all_as_run : forall fixed pre std self ps tr,
  add_all fixed pre std tr ps =
  match run_from fixed pre std self tr (map OAdd ps) with
  | Ok (tr', _, _) => Ok tr'
  | Panic => Panic
  | OutOfFuel => OutOfFuel
  end.
Proof.
  intros fixed pre std self. induction ps as [|p rest IH]; intros tr; cbn [add_all map run_from step]; [reflexivity|].
  destruct (add fixed pre std tr p) as [tr1| |]; cbn [Bytes.bind]; try reflexivity.
  rewrite IH. destruct (run_from fixed pre std self tr1 (map OAdd rest)) as [[[a b] c]| |]; reflexivity.
Qed.

(* ------------------------------------------------------------------ writeImports *)

Definition key_le (a b : bytes * bytes) : Prop := bytes_leb (fst a) (fst b) = true.

Lemma bytes_leb_total : forall a b, bytes_leb a b = false -> bytes_leb b a = true.
Proof.
  induction a as [|x a IH]; destruct b as [|y b]; cbn; intros H; try discriminate; try reflexivity.
  destruct (N.ltb (N_of_ascii x) (N_of_ascii y)) eqn:E1; [discriminate|].
  destruct (N.ltb (N_of_ascii y) (N_of_ascii x)) eqn:E2; [reflexivity|]. auto.
Qed.

Lemma insert_key_perm : forall e l, Permutation (insert_key e l) (e :: l).
Proof.
  intros e. induction l as [|e' r IH]; cbn; [reflexivity|].
  destruct (bytes_leb (fst e) (fst e')); [reflexivity|].
  rewrite IH. apply perm_swap.
Qed.

Lemma sort_by_key_perm : forall m, Permutation (sort_by_key m) m.
Proof.
  induction m as [|e m IH]; cbn; [reflexivity|].
  rewrite insert_key_perm. constructor. exact IH.
Qed.

Lemma insert_key_sorted : forall e l, Sorted key_le l -> Sorted key_le (insert_key e l).
Proof.
  intros e. induction l as [|e' r IH]; intros S; cbn.
  - repeat constructor.
  - destruct (bytes_leb (fst e) (fst e')) eqn:E.
    + constructor; [exact S|]. constructor. exact E.
    + inversion S as [|? ? S' Hd]; subst. constructor; [apply IH; exact S'|].
      destruct r as [|e2 r2]; cbn.
      * constructor. apply bytes_leb_total. exact E.
      * destruct (bytes_leb (fst e) (fst e2)).
        -- constructor. apply bytes_leb_total. exact E.
        -- inversion Hd; subst. constructor. assumption.
Qed.

Lemma sort_by_key_sorted : forall m, Sorted key_le (sort_by_key m).
Proof.
  induction m as [|e m IH]; cbn; [constructor|]. apply insert_key_sorted. exact IH.
Qed.

(* ------------------------------------------------------------------ the property, per clause *)

Section Final.
  Variable pre : list bytes.         (* the names bind refuses: ANY list *)
  Variable std : option tracker.       (* the reserved-name table: ANY table *)
  Variable self : bytes.

  Lemma run_total : forall fixed ops, exists tr texts snaps, run fixed pre std self ops = Ok (tr, texts, snaps).
  Proof.
    intros fixed ops. destruct (run_from_total fixed pre std self ops empty_tracker) as (a & b & c & E & _).
    unfold run. eauto.
  Qed.

  Lemma run_inv : forall fixed ops tr texts snaps,
    run fixed pre std self ops = Ok (tr, texts, snaps) -> inv std tr.
  Proof.
    intros fixed ops tr texts snaps H. eapply reach_inv; [eapply run_from_reach; exact H|apply inv_empty].
  Qed.

  Lemma run_bijection : forall fixed ops tr texts snaps,
    run fixed pre std self ops = Ok (tr, texts, snaps) ->
    (forall p n, lookup p (p2n tr) = Some n <-> lookup n (n2p tr) = Some p) /\
    (forall p1 p2 n, lookup p1 (p2n tr) = Some n -> lookup p2 (p2n tr) = Some n -> p1 = p2) /\
    NoDup (keys (p2n tr)) /\ NoDup (vals (p2n tr)).
  Proof.
    intros fixed ops tr texts snaps H. destruct (run_inv _ _ _ _ _ H) as [B (M & N1 & N2) _].
    split; [exact B|]. split; [|split; [exact N1|]].
    - intros p1 p2 n H1 H2. apply B in H1. apply B in H2. congruence.
    - unfold vals. unfold keys in N2. rewrite M in N2. rewrite map_map in N2. cbn in N2. exact N2.
  Qed.

  Lemma run_std_reserved : forall fixed ops tr texts snaps s,
    std = Some s -> run fixed pre std self ops = Ok (tr, texts, snaps) ->
    forall p n sp, lookup p (p2n tr) = Some n -> lookup n (n2p s) = Some sp -> p = sp.
  Proof.
    intros fixed ops tr texts snaps s Hs H p n sp H1 H2. destruct (run_inv _ _ _ _ _ H) as [B _ S].
    apply B in H1. eapply S; eauto.
  Qed.

  Lemma run_stable : forall fixed ops1 ops2 tr2 texts snaps,
    run fixed pre std self (ops1 ++ ops2) = Ok (tr2, texts, snaps) ->
    exists tr1 t1 s1 t2 s2,
      run fixed pre std self ops1 = Ok (tr1, t1, s1) /\ texts = t1 ++ t2 /\ snaps = s1 ++ s2 /\
      forall p n, lookup p (p2n tr1) = Some n -> lookup p (p2n tr2) = Some n.
  Proof.
    intros fixed ops1 ops2 tr2 texts snaps H. unfold run in *. rewrite run_from_app in H.
    destruct (run_from fixed pre std self empty_tracker ops1) as [[[tr1 t1] s1]| |] eqn:E1; cbn [Bytes.bind] in H; try discriminate.
    destruct (run_from fixed pre std self tr1 ops2) as [[[tr2' t2] s2]| |] eqn:E2; cbn [Bytes.bind] in H; try discriminate.
    inversion H; subst. exists tr1, t1, s1, t2, s2. repeat split.
    destruct (reach_ext _ _ _ _ _ (run_from_reach _ _ _ _ _ _ _ _ _ E2)) as [X _]. exact X.
  Qed.

  Lemma run_valid_names : forall ops tr texts snaps,
    run true pre std self ops = Ok (tr, texts, snaps) ->
    forall p n, lookup p (p2n tr) = Some n -> valid_name_b n = true.
  Proof.
    intros ops tr texts snaps H. eapply reach_valid; [eapply run_from_reach; exact H|apply names_valid_empty].
  Qed.

  (* both code versions: whatever bind refuses outright is never a local name *)
  Lemma run_not_predeclared : forall fixed ops tr texts snaps,
    run fixed pre std self ops = Ok (tr, texts, snaps) ->
    forall p n, lookup p (p2n tr) = Some n -> ~ In n pre.
  Proof.
    intros fixed ops tr texts snaps H p n L Hin. apply name_in_spec in Hin.
    pose proof (reach_not_pre _ _ _ _ _ (run_from_reach _ _ _ _ _ _ _ _ _ H) (names_not_pre_empty pre) p n L) as E.
    congruence.
  Qed.

  Lemma run_exact_imports : forall ops tr texts snaps,
    run true pre std self ops = Ok (tr, texts, snaps) ->
    forall p, In p (keys (p2n tr)) <-> In p (history_paths self ops).
  Proof.
    intros ops tr texts snaps H p. destruct (run_from_fixed _ _ _ _ _ _ _ _ H) as (K & _ & _).
    rewrite K. cbn. tauto.
  Qed.

  Lemma run_texts : forall ops tr texts snaps,
    run true pre std self ops = Ok (tr, texts, snaps) ->
    map (print_op self (p2n tr)) ops = map Some texts.
  Proof.
    intros ops tr texts snaps H. destruct (run_from_fixed _ _ _ _ _ _ _ _ H) as (_ & T & _).
    apply T. apply names_valid_empty.
  Qed.

  Lemma run_snapshots : forall ops tr texts snaps,
    run true pre std self ops = Ok (tr, texts, snaps) ->
    Forall (fun s => forall p n, lookup p s = Some n -> lookup p (p2n tr) = Some n) snaps.
  Proof.
    intros ops tr texts snaps H. destruct (run_from_fixed _ _ _ _ _ _ _ _ H) as (_ & _ & F). exact F.
  Qed.
End Final.

Lemma own_package_unqualified : forall self tbl r,
  r_path r = self -> r_name r <> [] -> print_ref self tbl r <> None ->
  exists rest, print_ref self tbl r = Some (r_name r ++ rest).
Proof.
  intros self tbl r Hp Hn Hs. unfold print_ref in *. rewrite Hp in *. unfold qualifier in *.
  rewrite bytes_eqb_refl in *. destruct (print_args self tbl (r_args r)) as [a|]; [|congruence].
  cbn [andb app]. destruct (r_name r) as [|c n]; [congruence|]. cbn [app is_nil]. eauto.
Qed.

(* the import block *)
Lemma write_imports_entries : forall m,
  Permutation (sort_by_key m) m /\ Sorted key_le (sort_by_key m).
Proof. intros m. split; [apply sort_by_key_perm|apply sort_by_key_sorted]. Qed.

(* ------------------------------------------------------------------ the code before the repairs *)

Definition h_refs (paths : list bytes) : list op :=
  map (fun p => ORender [IRef (mk_ref p (bs "T") [] [])]) paths.

Lemma old_keyword_name :
  exists tr texts snaps,
    run false [] None (bs "m") (h_refs [bs "github.com/json-iterator/go"]) = Ok (tr, texts, snaps) /\
    lookup (bs "github.com/json-iterator/go") (p2n tr) = Some (bs "go") /\ texts = [bs "go.T"].
Proof. do 3 eexists. vm_compute. repeat split. Qed.

Lemma old_digit_name :
  exists tr texts snaps,
    run false [] None (bs "m") (h_refs [bs "example.com/2fa"]) = Ok (tr, texts, snaps) /\
    lookup (bs "example.com/2fa") (p2n tr) = Some (bs "2fa").
Proof. do 3 eexists. vm_compute. repeat split. Qed.

(* the code before fixes/C03-3 (fixes 1 and 2 in, nothing refused outright) *)
Lemma old_predeclared_name :
  exists tr texts snaps,
    run true [] None (bs "m") (h_refs [bs "example.com/x/string"]) = Ok (tr, texts, snaps) /\
    lookup (bs "example.com/x/string") (p2n tr) = Some (bs "string") /\ texts = [bs "string.T"].
Proof. do 3 eexists. vm_compute. repeat split. Qed.

Lemma old_candidates_exhausted :
  exists tr texts snaps,
    run false [] None (bs "m") (h_refs [bs "a.com/foo-bar"; bs "a.com/foo_bar"; bs "a.com/foobar"]) = Ok (tr, texts, snaps) /\
    lookup (bs "a.com/foobar") (p2n tr) = None /\ nth 2 texts [] = bs ".T".
Proof. do 3 eexists. vm_compute. repeat split. Qed.
