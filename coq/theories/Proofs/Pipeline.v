(* Lemmas about the pipeline model: the file system, exec = apply_all . effects, where effects may land,
   localisation of a package's files, and the per-package analysis used by C07 / C05 / C02. *)
Require Import Gengo.Base.Bytes Gengo.Model.Pipeline.
From Coq Require Import Permutation.

(* ---------- bytes ---------- *)

Lemma bytes_eqb_neq : forall a b, bytes_eqb a b = false <-> a <> b.
Proof.
  intros a b. split.
  - intros H Heq. apply bytes_eqb_spec in Heq. congruence.
  - intros H. destruct (bytes_eqb a b) eqn:Hab; [|reflexivity].
    apply bytes_eqb_spec in Hab. contradiction.
Qed.

Lemma path_eqb_spec : forall a b : path, path_eqb a b = true <-> a = b.
Proof.
  intros [a1 a2] [b1 b2]. unfold path_eqb. cbn [fst snd]. rewrite andb_true_iff, !bytes_eqb_spec.
  split; [intros [-> ->]; reflexivity | intros H; inversion H; auto].
Qed.

Lemma path_eqb_refl : forall a, path_eqb a a = true.
Proof. intros a. apply path_eqb_spec. reflexivity. Qed.

Lemma path_eqb_neq : forall a b : path, path_eqb a b = false <-> a <> b.
Proof.
  intros a b. split.
  - intros H Heq. apply path_eqb_spec in Heq. congruence.
  - intros H. destruct (path_eqb a b) eqn:Hab; [|reflexivity].
    apply path_eqb_spec in Hab. contradiction.
Qed.

Lemma prefixb_app : forall p s, prefixb p (p ++ s) = true.
Proof.
  induction p as [|c p IH]; intros s; cbn; [reflexivity|].
  rewrite Ascii.eqb_refl, IH. reflexivity.
Qed.

Lemma mem_bytes_In : forall x l, mem_bytes x l = true <-> In x l.
Proof.
  intros x l. unfold mem_bytes. rewrite existsb_exists. split.
  - intros [y [Hin Heq]]. apply bytes_eqb_spec in Heq. subst. exact Hin.
  - intros Hin. exists x. split; [exact Hin | apply bytes_eqb_refl].
Qed.

(* ---------- sorting is a permutation ---------- *)

Lemma insert_by_perm {A} (key : A -> bytes) (x : A) (l : list A) : Permutation (insert_by key x l) (x :: l).
Proof.
  induction l as [|y r IH]; cbn.
  - apply Permutation_refl.
  - destruct (bytes_leb (key x) (key y)).
    + apply Permutation_refl.
    + eapply Permutation_trans; [apply perm_skip, IH | apply perm_swap].
Qed.

Lemma sort_by_perm {A} (key : A -> bytes) (l : list A) : Permutation (sort_by key l) l.
Proof.
  induction l as [|x r IH]; cbn.
  - apply Permutation_refl.
  - eapply Permutation_trans; [apply insert_by_perm | apply perm_skip, IH].
Qed.

Lemma sort_by_In {A} (key : A -> bytes) (l : list A) (x : A) : In x (sort_by key l) <-> In x l.
Proof.
  split; apply Permutation_in; [apply sort_by_perm | apply Permutation_sym, sort_by_perm].
Qed.

Lemma sort_by_NoDup_map {A B} (key : A -> bytes) (f : A -> B) (l : list A) :
  NoDup (map f l) -> NoDup (map f (sort_by key l)).
Proof.
  intros H. eapply Permutation_NoDup; [|exact H].
  apply Permutation_map, Permutation_sym, sort_by_perm.
Qed.

(* the removal order is a permutation of the removal set, whatever the ranks *)
Lemma insert_rank_perm : forall rk x l, Permutation (insert_rank rk x l) (x :: l).
Proof.
  intros rk x l. induction l as [|y r IH]; cbn; [apply Permutation_refl|].
  destruct (Nat.leb (rk x) (rk y)); [apply Permutation_refl|].
  eapply Permutation_trans; [apply perm_skip, IH | apply perm_swap].
Qed.

Lemma rank_sort_perm : forall rk l, Permutation (rank_sort rk l) l.
Proof.
  intros rk l. induction l as [|x r IH]; cbn; [apply Permutation_refl|].
  eapply Permutation_trans; [apply insert_rank_perm | apply perm_skip, IH].
Qed.

Lemma rank_sort_In : forall rk l x, In x (rank_sort rk l) <-> In x l.
Proof.
  intros rk l x. split; apply Permutation_in; [apply rank_sort_perm | apply Permutation_sym, rank_sort_perm].
Qed.

Lemma mem_rank_sort : forall rk l x, mem_bytes x (rank_sort rk l) = mem_bytes x l.
Proof.
  intros rk l x. destruct (mem_bytes x l) eqn:H.
  - apply mem_bytes_In. apply rank_sort_In. apply mem_bytes_In. exact H.
  - destruct (mem_bytes x (rank_sort rk l)) eqn:H'; [|reflexivity].
    apply mem_bytes_In in H'. apply rank_sort_In in H'. apply mem_bytes_In in H'. congruence.
Qed.

(* ---------- file system ---------- *)

Lemma lookup_del_same : forall p s, fs_lookup p (fs_del p s) = None.
Proof.
  intros p s. induction s as [|[q b] r IH]; cbn; [reflexivity|].
  destruct (path_eqb q p) eqn:Hq; cbn; [exact IH|]. rewrite Hq. exact IH.
Qed.

Lemma lookup_del_other : forall p q s, q <> p -> fs_lookup q (fs_del p s) = fs_lookup q s.
Proof.
  intros p q s Hne. induction s as [|[x b] r IH]; cbn; [reflexivity|].
  destruct (path_eqb x p) eqn:Hx; cbn.
  - apply path_eqb_spec in Hx. subst x.
    assert (Hpq : path_eqb p q = false) by (apply path_eqb_neq; congruence).
    rewrite Hpq. exact IH.
  - destruct (path_eqb x q); [reflexivity | exact IH].
Qed.

Lemma lookup_set_same : forall p b s, fs_lookup p (fs_set p b s) = Some b.
Proof. intros p b s. unfold fs_set. cbn. rewrite path_eqb_refl. reflexivity. Qed.

Lemma lookup_set_other : forall p q b s, q <> p -> fs_lookup q (fs_set p b s) = fs_lookup q s.
Proof.
  intros p q b s Hne. unfold fs_set. cbn.
  assert (Hpq : path_eqb p q = false) by (apply path_eqb_neq; congruence).
  rewrite Hpq. apply lookup_del_other. exact Hne.
Qed.

Lemma apply_effect_other : forall e q s, effect_path e <> q -> fs_lookup q (apply_effect e s) = fs_lookup q s.
Proof.
  intros e q s Hne. destruct e as [p b|p|p|p b]; cbn [effect_path apply_effect] in *;
    first [apply lookup_set_other | apply lookup_del_other]; congruence.
Qed.

Lemma apply_all_app : forall e1 e2 s, apply_all (e1 ++ e2) s = apply_all e2 (apply_all e1 s).
Proof. intros. unfold apply_all. apply fold_left_app. Qed.

Lemma apply_all_other : forall effs q s,
  (forall e, In e effs -> effect_path e <> q) -> fs_lookup q (apply_all effs s) = fs_lookup q s.
Proof.
  induction effs as [|e r IH]; intros q s H; cbn; [reflexivity|].
  rewrite IH by (intros e' He'; apply H; right; exact He').
  apply apply_effect_other. apply H. left. reflexivity.
Qed.

(* what an effect list does at a path depends only on what was at that path *)
Lemma apply_effect_congr : forall e q s1 s2,
  fs_lookup q s1 = fs_lookup q s2 -> fs_lookup q (apply_effect e s1) = fs_lookup q (apply_effect e s2).
Proof.
  intros e q s1 s2 H.
  destruct (path_eqb (effect_path e) q) eqn:Hq.
  - apply path_eqb_spec in Hq. subst q.
    destruct e as [p b|p|p|p b]; cbn [effect_path apply_effect] in *.
    + rewrite !lookup_set_same. reflexivity.
    + rewrite !lookup_del_same. reflexivity.
    + rewrite !lookup_set_same. reflexivity.
    + rewrite !lookup_set_same, H. reflexivity.
  - apply path_eqb_neq in Hq. rewrite !apply_effect_other by exact Hq. exact H.
Qed.

Lemma apply_all_congr : forall effs q s1 s2,
  fs_lookup q s1 = fs_lookup q s2 -> fs_lookup q (apply_all effs s1) = fs_lookup q (apply_all effs s2).
Proof.
  induction effs as [|e r IH]; intros q s1 s2 H; cbn; [exact H|].
  apply IH. apply apply_effect_congr. exact H.
Qed.

Lemma firstn_In {A} : forall (l : list A) n x, In x (firstn n l) -> In x l.
Proof.
  induction l as [|y r IH]; intros n x H; destruct n; cbn in *; try contradiction.
  destruct H as [H|H]; [left; exact H | right; eapply IH; exact H].
Qed.

(* ---------- names ---------- *)

Lemma fname_prefix : forall a n, prefixb (out_prefix a) (fname a n) = true.
Proof.
  intros a n. unfold out_prefix, fname. rewrite app_assoc. apply prefixb_app.
Qed.

Lemma fname_inj : forall a n1 n2, fname a n1 = fname a n2 -> n1 = n2.
Proof.
  intros a n1 n2 H. unfold fname in H.
  apply app_inv_head in H. apply app_inv_head in H. apply app_inv_tail in H. exact H.
Qed.

Lemma fname_ne_sum : forall a n, fname a n <> sum_name.
Proof.
  intros a n H. apply (f_equal (@rev ascii)) in H. unfold fname in H.
  rewrite !rev_app_distr in H. cbn in H. discriminate H.
Qed.

Lemma gen_file_inj : forall a p n1 n2, gen_file a p n1 = gen_file a p n2 -> n1 = n2.
Proof. intros a p n1 n2 H. unfold gen_file in H. inversion H as [H1]. eapply fname_inj; exact H1. Qed.

Lemma strike_In : forall f l x, In x (strike f l) <-> In x l /\ x <> f.
Proof.
  intros f l x. unfold strike. rewrite filter_In. rewrite negb_true_iff, bytes_eqb_neq. tauto.
Qed.

(* ---------- exec = apply_all . effects ---------- *)

Section WithEnv.
Variable E : env.

Lemma apply_write_effects : forall f out s, apply_all (write_effects f out) s = write_file_fs f out s.
Proof.
  intros f out s. unfold write_effects, write_file_fs, apply_all. cbn [fold_left apply_effect].
  rewrite lookup_set_same. reflexivity.
Qed.

Lemma write_loop_fs_eq : forall a p gfs rem s,
  write_loop_fs E a p gfs rem s =
  (apply_all (fst (fst (write_loop E a p gfs rem))) s, snd (fst (write_loop E a p gfs rem)), snd (write_loop E a p gfs rem)).
Proof.
  intros a p gfs. induction gfs as [|[n body] r IH]; intros rem s; cbn [write_loop write_loop_fs].
  - reflexivity.
  - destruct (is_nil body); [apply IH|].
    destruct (e_fmt E (assemble (pk_name p) n body)) as [out|]; [|reflexivity].
    rewrite IH. destruct (write_loop E a p r (strike (fname a n) rem)) as [[effs rem'] e]. cbn [fst snd].
    rewrite apply_all_app, apply_write_effects. reflexivity.
Qed.

Lemma remove_all_fs_eq : forall d names s,
  remove_all_fs d names s = apply_all (map (fun f => ERemove (d, f)) names) s.
Proof.
  intros d names. induction names as [|f r IH]; intros s; cbn; [reflexivity|]. apply IH.
Qed.

Lemma pkg_execute_fs_eq : forall a w gens prev p s,
  pkg_execute_fs E a w gens prev p s =
  (apply_all (fst (fst (pkg_execute E a w gens prev p))) s,
   snd (fst (pkg_execute E a w gens prev p)), snd (pkg_execute E a w gens prev p)).
Proof.
  intros a w gens prev p s. unfold pkg_execute_fs, pkg_execute, pkg_effects.
  destruct (pkg_changed a w prev p); [|reflexivity].
  destruct (gen_phase E gens p) as [[gfs tr] out].
  destruct out; try reflexivity.
  rewrite write_loop_fs_eq.
  destruct (write_loop E a p (e_order E p gfs) (generated_files a p)) as [[effs rem] e]. cbn [fst snd].
  destruct e; [reflexivity|]. cbn [fst snd]. rewrite apply_all_app, remove_all_fs_eq. reflexivity.
Qed.

Lemma run_pkgs_fs_eq : forall a w gens prev ps s,
  run_pkgs_fs E a w gens prev ps s =
  (apply_all (fst (fst (run_pkgs E a w gens prev ps))) s,
   snd (fst (run_pkgs E a w gens prev ps)), snd (run_pkgs E a w gens prev ps)).
Proof.
  intros a w gens prev ps. induction ps as [|p r IH]; intros s; cbn [run_pkgs run_pkgs_fs]; [reflexivity|].
  destruct (selected a w p); [|apply IH].
  rewrite pkg_execute_fs_eq.
  destruct (pkg_execute E a w gens prev p) as [[e1 t1] o1]. cbn [fst snd].
  destruct o1; try reflexivity.
  rewrite IH. destruct (run_pkgs E a w gens prev r) as [[e2 t2] o2]. cbn [fst snd].
  rewrite apply_all_app. reflexivity.
Qed.

Theorem exec_eq : forall a w gens s,
  exec E a w gens s = (apply_all (effects E a w gens s) s, exec_trace E a w gens s, exec_outcome E a w gens s).
Proof.
  intros a w gens s. unfold exec, effects, exec_trace, exec_outcome, run_all.
  rewrite run_pkgs_fs_eq.
  destruct (run_pkgs E a w gens (load_prev E a w s) (sorted_pkgs w)) as [[effs tr] out]. cbn [fst snd].
  destruct out; try reflexivity.
  destruct (a_all a); [|reflexivity].
  rewrite apply_all_app.
  change (save_effects E w) with (write_effects (sum_path w) (e_sum_bytes E (current_sum w))).
  rewrite apply_write_effects. reflexivity.
Qed.

Lemma exec_fs_eq : forall a w gens s, exec_fs E a w gens s = apply_all (effects E a w gens s) s.
Proof. intros. unfold exec_fs. rewrite exec_eq. reflexivity. Qed.

(* ---------- where effects land ---------- *)

Lemma write_loop_paths : forall a p gfs rem e,
  In e (fst (fst (write_loop E a p gfs rem))) -> exists n, In n (map fst gfs) /\ effect_path e = gen_file a p n.
Proof.
  intros a p gfs. induction gfs as [|[n body] r IH]; intros rem e H; cbn [write_loop] in H.
  - contradiction.
  - destruct (is_nil body).
    + destruct (IH _ _ H) as [n' [Hin Hp]]. exists n'. split; [right; exact Hin | exact Hp].
    + destruct (e_fmt E (assemble (pk_name p) n body)) as [out|]; [|contradiction].
      destruct (write_loop E a p r (strike (fname a n) rem)) as [[effs rem'] err] eqn:Hw. cbn [fst snd] in H.
      apply in_app_or in H. destruct H as [H|H].
      * exists n. split; [left; reflexivity|].
        cbn in H. destruct H as [H|[H|[]]]; subst e; reflexivity.
      * specialize (IH (strike (fname a n) rem) e). rewrite Hw in IH. destruct (IH H) as [n' [Hin Hp]].
        exists n'. split; [right; exact Hin | exact Hp].
Qed.

Lemma write_loop_rem : forall a p gfs rem f,
  In f (snd (fst (write_loop E a p gfs rem))) -> In f rem.
Proof.
  intros a p gfs. induction gfs as [|[n body] r IH]; intros rem f H; cbn [write_loop] in H.
  - exact H.
  - destruct (is_nil body).
    + apply IH in H. apply strike_In in H. tauto.
    + destruct (e_fmt E (assemble (pk_name p) n body)) as [out|]; [|exact H].
      destruct (write_loop E a p r (strike (fname a n) rem)) as [[effs rem'] err] eqn:Hw. cbn [fst snd] in H.
      specialize (IH (strike (fname a n) rem) f). rewrite Hw in IH. apply IH in H. apply strike_In in H. tauto.
Qed.

Definition in_pkg_output (a : args) (p : pkginfo) (q : path) : Prop :=
  fst q = pk_dir p /\ prefixb (out_prefix a) (snd q) = true.

(* every effect of a package is at <its dir>/<base>.<something>, and is either the file of one of the
   generators or one of the package's own Go files *)
Lemma pkg_effects_paths : forall a gens p e,
  In e (fst (fst (pkg_effects E a gens p))) ->
  in_pkg_output a p (effect_path e) /\
  ((exists n, effect_path e = gen_file a p n) \/ In (snd (effect_path e)) (pk_files p)).
Proof.
  intros a gens p e H. unfold pkg_effects in H.
  destruct (gen_phase E gens p) as [[gfs tr] out].
  destruct out; try contradiction.
  destruct (write_loop E a p (e_order E p gfs) (generated_files a p)) as [[effs rem] err] eqn:Hw.
  assert (Hwr : forall e, In e effs -> in_pkg_output a p (effect_path e) /\ exists n, effect_path e = gen_file a p n).
  { intros e0 He0. pose proof (write_loop_paths a p (e_order E p gfs) (generated_files a p) e0) as Hp.
    rewrite Hw in Hp. destruct (Hp He0) as [n [_ Hn]]. rewrite Hn. split; [|exists n; reflexivity].
    split; [reflexivity | apply fname_prefix]. }
  destruct err; cbn [fst snd] in H.
  - destruct (Hwr e H) as [H1 H2]. split; [exact H1 | left; exact H2].
  - apply in_app_or in H. destruct H as [H|H].
    + destruct (Hwr e H) as [H1 H2]. split; [exact H1 | left; exact H2].
    + apply in_map_iff in H. destruct H as [f [Hf Hin]]. subst e. cbn [effect_path fst snd].
      pose proof (write_loop_rem a p (e_order E p gfs) (generated_files a p) f) as Hr. rewrite Hw in Hr.
      apply rank_sort_In in Hin.
      specialize (Hr Hin). unfold generated_files in Hr. apply filter_In in Hr. destruct Hr as [Hr1 Hr2].
      split; [split; [reflexivity | exact Hr2] | right; exact Hr1].
Qed.

Lemma pkg_execute_paths : forall a w gens prev p e,
  In e (fst (fst (pkg_execute E a w gens prev p))) ->
  pkg_changed a w prev p = true /\ in_pkg_output a p (effect_path e) /\
  ((exists n, effect_path e = gen_file a p n) \/ In (snd (effect_path e)) (pk_files p)).
Proof.
  intros a w gens prev p e H. unfold pkg_execute in H.
  destruct (pkg_changed a w prev p); [|contradiction].
  split; [reflexivity | apply pkg_effects_paths with (gens := gens); exact H].
Qed.

Lemma run_pkgs_paths : forall a w gens prev ps e,
  In e (fst (fst (run_pkgs E a w gens prev ps))) ->
  exists p, In p ps /\ selected a w p = true /\ pkg_changed a w prev p = true /\
            in_pkg_output a p (effect_path e) /\
            ((exists n, effect_path e = gen_file a p n) \/ In (snd (effect_path e)) (pk_files p)).
Proof.
  intros a w gens prev ps. induction ps as [|p r IH]; intros e H; cbn [run_pkgs] in H; [contradiction|].
  destruct (selected a w p) eqn:Hsel.
  - destruct (pkg_execute E a w gens prev p) as [[e1 t1] o1] eqn:Hpe.
    assert (H1 : forall e, In e e1 -> exists p0, In p0 (p :: r) /\ selected a w p0 = true /\ pkg_changed a w prev p0 = true /\
                 in_pkg_output a p0 (effect_path e) /\
                 ((exists n, effect_path e = gen_file a p0 n) \/ In (snd (effect_path e)) (pk_files p0))).
    { intros e0 He0. pose proof (pkg_execute_paths a w gens prev p e0) as Hp. rewrite Hpe in Hp.
      destruct (Hp He0) as [Hc [Ho Hk]]. exists p. split; [left; reflexivity|]. auto. }
    destruct o1; cbn [fst snd] in H; try (apply H1; exact H).
    destruct (run_pkgs E a w gens prev r) as [[e2 t2] o2]. cbn [fst snd] in H, IH.
    apply in_app_or in H. destruct H as [H|H]; [apply H1; exact H|].
    destruct (IH e H) as [p0 [Hin Hrest]]. exists p0. split; [right; exact Hin | exact Hrest].
  - destruct (IH e H) as [p0 [Hin Hrest]]. exists p0. split; [right; exact Hin | exact Hrest].
Qed.

(* ---------- the frame ---------- *)

Definition processed (a : args) (w : world) (s : fs) (p : pkginfo) : bool :=
  selected a w p && pkg_changed a w (load_prev E a w s) p.

Definition own_output (a : args) (w : world) (s : fs) (q : path) : Prop :=
  (exists p, In p (w_pkgs w) /\ processed a w s p = true /\ in_pkg_output a p q)
  \/ (a_all a = true /\ q = sum_path w).

Definition pkgs_effects (a : args) (w : world) (gens : list generator) (s : fs) : list effect :=
  fst (fst (run_all E a w gens s)).

Lemma effects_split : forall a w gens s,
  effects E a w gens s =
  pkgs_effects a w gens s ++
  (match exec_outcome E a w gens s with Done => if a_all a then save_effects E w else [] | _ => [] end).
Proof.
  intros a w gens s. unfold effects, pkgs_effects, exec_outcome.
  destruct (run_all E a w gens s) as [[effs tr] out]. cbn [fst snd].
  destruct out; try (rewrite app_nil_r; reflexivity).
  destruct (a_all a); [reflexivity | rewrite app_nil_r; reflexivity].
Qed.

Lemma pkgs_effects_paths : forall a w gens s e,
  In e (pkgs_effects a w gens s) ->
  exists p, In p (w_pkgs w) /\ processed a w s p = true /\ in_pkg_output a p (effect_path e) /\
            ((exists n, effect_path e = gen_file a p n) \/ In (snd (effect_path e)) (pk_files p)).
Proof.
  intros a w gens s e H. unfold pkgs_effects, run_all in H.
  destruct (run_pkgs_paths _ _ _ _ _ _ H) as [p [Hin [Hsel [Hch [Ho Hk]]]]].
  exists p. split; [apply (sort_by_In pk_path); exact Hin|].
  split; [unfold processed; rewrite Hsel, Hch; reflexivity|]. auto.
Qed.

Lemma effects_paths_own : forall a w gens s e,
  In e (effects E a w gens s) -> own_output a w s (effect_path e).
Proof.
  intros a w gens s e H. rewrite effects_split in H. apply in_app_or in H. destruct H as [H|H].
  - destruct (pkgs_effects_paths _ _ _ _ _ H) as [p [Hin [Hpr [Ho _]]]]. left. exists p. auto.
  - destruct (exec_outcome E a w gens s); try contradiction.
    destruct (a_all a) eqn:Hall; [|contradiction].
    right. split; [exact Hall|]. cbn in H. destruct H as [H|[H|[]]]; subst e; reflexivity.
Qed.

(* every path that is not gengo's own output is unchanged: after the run (whatever its outcome) and
   after every prefix of its effects (a process that dies part-way) *)
Theorem frame_prefix : forall a w gens s q k,
  ~ own_output a w s q ->
  fs_lookup q (apply_all (firstn k (effects E a w gens s)) s) = fs_lookup q s.
Proof.
  intros a w gens s q k Hq. apply apply_all_other. intros e He Heq.
  apply firstn_In in He. apply Hq. rewrite <- Heq. apply effects_paths_own with (gens := gens). exact He.
Qed.

Theorem frame : forall a w gens s q,
  ~ own_output a w s q -> fs_lookup q (exec_fs E a w gens s) = fs_lookup q s.
Proof.
  intros a w gens s q Hq. rewrite exec_fs_eq.
  rewrite <- (firstn_all (effects E a w gens s)). apply frame_prefix. exact Hq.
Qed.

End WithEnv.
