(* C12: the model's commentLinesFrom (trim_space, split_nl, the "go:" filter) meets the relational
   specification [lines_of_text] of Spec/Comments.v, and that relation is functional: it holds of exactly one
   list of lines.  The specification mentions no function of the model; everything that ties the two together
   is proved here. *)
Require Import Gengo.Base.Bytes.
From Coq Require Import NArith Lia PeanoNat.
Require Import Gengo.Model.Comments Gengo.Spec.Comments.

(* ------------------------------------------------------------------ *)
(* white-space characters: the model's byte tests vs. the spec's list  *)
(* ------------------------------------------------------------------ *)

Definition ws_mem_b (w : bytes) : bool := existsb (bytes_eqb w) ws_chars.

Lemma ws_mem_b_in w : ws_mem_b w = true -> In w ws_chars.
Proof.
  unfold ws_mem_b. intros H. apply existsb_exists in H. destruct H as [x [Hin He]].
  apply bytes_eqb_spec in He. subst. exact Hin.
Qed.

Lemma byte_of c k : N_of_ascii c = k -> c = ascii_of_N k.
Proof. intros <-. symmetry. apply ascii_N_embedding. Qed.

Lemma ws_nonempty w : In w ws_chars -> w <> [].
Proof. revert w. apply Forall_forall. unfold ws_chars, ws_codes. cbn [map]. repeat constructor; discriminate. Qed.

(* every listed character is recognised at the head of a string, with its length *)
Lemma space_head_ws w r : In w ws_chars -> space_head (w ++ r) = length w.
Proof.
  revert w. apply Forall_forall. unfold ws_chars, ws_codes. cbn [map].
  repeat (constructor; [reflexivity|]). constructor.
Qed.

(* ... and at the head of the reversed string *)
Lemma space_last_ws w r : In w ws_chars -> space_last (rev w ++ r) = length w.
Proof.
  revert w. apply Forall_forall. unfold ws_chars, ws_codes. cbn [map].
  repeat (constructor; [reflexivity|]). constructor.
Qed.

Ltac ws_done := apply ws_mem_b_in; vm_compute; reflexivity.

(* whatever the model recognises at the head is a listed character *)
Lemma space_head_inv s : space_head s <> 0 ->
  exists w r, In w ws_chars /\ s = w ++ r /\ space_head s = length w.
Proof.
  destruct s as [|c r]; [cbn; congruence|].
  unfold space_head.
  destruct (is_ascii_space c) eqn:Ea.
  { intros _. exists [c], r. split; [|split; reflexivity].
    unfold is_ascii_space in Ea. pose proof (byte_of c _ eq_refl) as Hc.
    set (n := N_of_ascii c) in *.
    assert (Hn : (n = 9 \/ n = 10 \/ n = 11 \/ n = 12 \/ n = 13 \/ n = 32)%N).
    { apply orb_true_iff in Ea. destruct Ea as [Ea|Ea].
      - apply andb_true_iff in Ea. destruct Ea as [E1 E2]. apply N.leb_le in E1, E2. lia.
      - apply N.eqb_eq in Ea. lia. }
    rewrite Hc. destruct Hn as [-> | [-> | [-> | [-> | [-> | ->]]]]]; ws_done. }
  destruct r as [|c1 r1]; [congruence|].
  cbv zeta.
  pose proof (byte_of c _ eq_refl) as Hc. pose proof (byte_of c1 _ eq_refl) as Hc1.
  set (n := N_of_ascii c) in *. set (n1 := N_of_ascii c1) in *.
  destruct ((n =? 194)%N && ((n1 =? 133) || (n1 =? 160))%N) eqn:E2.
  { intros _. exists [c; c1], r1. split; [|split; reflexivity].
    apply andb_true_iff in E2. destruct E2 as [E2a E2b]. apply N.eqb_eq in E2a.
    apply orb_true_iff in E2b. rewrite !N.eqb_eq in E2b. rewrite Hc, Hc1, E2a.
    destruct E2b as [-> | ->]; ws_done. }
  destruct r1 as [|c2 r2]; [congruence|].
  pose proof (byte_of c2 _ eq_refl) as Hc2. set (n2 := N_of_ascii c2) in *.
  assert (Hgoal : forall k k1 k2 : N, n = k -> n1 = k1 -> n2 = k2 ->
            In [ascii_of_N k; ascii_of_N k1; ascii_of_N k2] ws_chars ->
            exists w r, In w ws_chars /\ c :: c1 :: c2 :: r2 = w ++ r /\ 3 = length w).
  { intros k k1 k2 E E1 E3 Hin. exists [c; c1; c2], r2. rewrite Hc, Hc1, Hc2, E, E1, E3.
    split; [exact Hin|split; reflexivity]. }
  destruct ((n =? 225)%N && (n1 =? 154)%N && (n2 =? 128)%N) eqn:E3a.
  { intros _. apply andb_true_iff in E3a. destruct E3a as [E3a Ec]. apply andb_true_iff in E3a.
    destruct E3a as [Ea' Eb]. apply N.eqb_eq in Ea', Eb, Ec.
    apply (Hgoal _ _ _ Ea' Eb Ec). ws_done. }
  destruct ((n =? 226)%N && (n1 =? 128)%N &&
            (((128 <=? n2) && (n2 <=? 138)) || (n2 =? 168) || (n2 =? 169) || (n2 =? 175))%N) eqn:E3b.
  { intros _. apply andb_true_iff in E3b. destruct E3b as [E3b Ec]. apply andb_true_iff in E3b.
    destruct E3b as [Ea' Eb]. apply N.eqb_eq in Ea', Eb.
    assert (Hn2 : (n2 = 128 \/ n2 = 129 \/ n2 = 130 \/ n2 = 131 \/ n2 = 132 \/ n2 = 133 \/ n2 = 134 \/ n2 = 135
                   \/ n2 = 136 \/ n2 = 137 \/ n2 = 138 \/ n2 = 168 \/ n2 = 169 \/ n2 = 175)%N).
    { repeat (apply orb_true_iff in Ec; destruct Ec as [Ec|Ec]); try (apply N.eqb_eq in Ec; lia).
      apply andb_true_iff in Ec. destruct Ec as [L1 L2]. apply N.leb_le in L1, L2. lia. }
    repeat (destruct Hn2 as [Hn2|Hn2]; [apply (Hgoal _ _ _ Ea' Eb Hn2); ws_done|]).
    apply (Hgoal _ _ _ Ea' Eb Hn2); ws_done. }
  destruct ((n =? 226)%N && (n1 =? 129)%N && (n2 =? 159)%N) eqn:E3c.
  { intros _. apply andb_true_iff in E3c. destruct E3c as [E3c Ec]. apply andb_true_iff in E3c.
    destruct E3c as [Ea' Eb]. apply N.eqb_eq in Ea', Eb, Ec.
    apply (Hgoal _ _ _ Ea' Eb Ec). ws_done. }
  destruct ((n =? 227)%N && (n1 =? 128)%N && (n2 =? 128)%N) eqn:E3d.
  { intros _. apply andb_true_iff in E3d. destruct E3d as [E3d Ec]. apply andb_true_iff in E3d.
    destruct E3d as [Ea' Eb]. apply N.eqb_eq in Ea', Eb, Ec.
    apply (Hgoal _ _ _ Ea' Eb Ec). ws_done. }
  congruence.
Qed.

Lemma space_head_0_iff s : space_head s = 0 <-> ~ starts_ws s.
Proof.
  split.
  - intros H (w & r & Hw & ->). rewrite (space_head_ws w r Hw) in H.
    apply ws_nonempty in Hw. destruct w; [congruence|discriminate].
  - intros H. destruct (space_head s) eqn:E; [reflexivity|]. exfalso. apply H.
    destruct (space_head_inv s) as (w & r & Hw & Hs & _); [congruence|]. exists w, r. auto.
Qed.

Lemma length_1 {A} (l : list A) : length l = 1 -> exists a, l = [a].
Proof. destruct l as [|a [|]]; try discriminate. eauto. Qed.

(* the same at the end of a string (the model looks at the reversed string) *)
Lemma space_last_inv r0 : space_last r0 <> 0 ->
  exists w r, In w ws_chars /\ r0 = rev w ++ r /\ space_last r0 = length w.
Proof.
  destruct r0 as [|c r]; [cbn; congruence|].
  unfold space_last.
  destruct (is_ascii_space c) eqn:Ea.
  { intros _. destruct (space_head_inv [c]) as (w & r' & Hw & Hs & Hl).
    - cbn. rewrite Ea. discriminate.
    - cbn in Hl. rewrite Ea in Hl. symmetry in Hl. destruct (length_1 _ Hl) as [a ->].
      cbn in Hs. inversion Hs; subst. exists [a], r. auto. }
  destruct r as [|c0 r1]; [congruence|].
  destruct (Nat.eqb (space_head [c0; c]) 2) eqn:E2.
  { intros _. apply Nat.eqb_eq in E2.
    destruct (space_head_inv [c0; c]) as (w & r' & Hw & Hs & Hl); [congruence|].
    rewrite E2 in Hl. destruct w as [|a [|a' [|]]]; try discriminate. cbn in Hs. inversion Hs; subst.
    exists [a; a'], r1. auto. }
  destruct r1 as [|cm r2]; [congruence|].
  destruct (Nat.eqb (space_head [cm; c0; c]) 3) eqn:E3; [|congruence].
  intros _. apply Nat.eqb_eq in E3.
  destruct (space_head_inv [cm; c0; c]) as (w & r' & Hw & Hs & Hl); [congruence|].
  rewrite E3 in Hl. destruct w as [|a [|a' [|a'' [|]]]]; try discriminate. cbn in Hs. inversion Hs; subst.
  exists [a; a'; a''], r2. auto.
Qed.

Lemma space_last_0_iff s : space_last (rev s) = 0 <-> ~ ends_ws s.
Proof.
  split.
  - intros H (w & r & Hw & ->). rewrite rev_app_distr, (space_last_ws w _ Hw) in H.
    apply ws_nonempty in Hw. destruct w; [congruence|discriminate].
  - intros H. destruct (space_last (rev s)) eqn:E; [reflexivity|]. exfalso. apply H.
    destruct (space_last_inv (rev s)) as (w & r & Hw & Hs & _); [congruence|]. exists w, (rev r).
    split; [exact Hw|]. rewrite <- (rev_involutive s), Hs, rev_app_distr, rev_involutive. reflexivity.
Qed.

(* ------------------------------------------------------------------ *)
(* blank strings                                                       *)
(* ------------------------------------------------------------------ *)

Lemma blank_nil : blank [].
Proof. exists []. split; [constructor|reflexivity]. Qed.

Lemma blank_cons_ws w s : In w ws_chars -> blank s -> blank (w ++ s).
Proof. intros Hw (ws & F & ->). exists (w :: ws). split; [constructor; assumption|reflexivity]. Qed.

Lemma blank_snoc_ws w s : In w ws_chars -> blank s -> blank (s ++ w).
Proof.
  intros Hw (ws & F & ->). exists (ws ++ [w]). split.
  - apply Forall_app. split; [exact F|constructor; [exact Hw|constructor]].
  - rewrite concat_app. cbn. rewrite app_nil_r. reflexivity.
Qed.

Lemma blank_app a c : blank a -> blank c -> blank (a ++ c).
Proof.
  intros (ws & F & ->) (ws' & F' & ->). exists (ws ++ ws'). split.
  - apply Forall_app. auto.
  - rewrite concat_app. reflexivity.
Qed.

Lemma blank_rev_cases s : blank s -> s = [] \/ exists s' w, In w ws_chars /\ blank s' /\ s = s' ++ w.
Proof.
  intros (ws & F & ->). destruct ws as [|w0 ws0] using rev_ind; [left; reflexivity|]. right.
  apply Forall_app in F. destruct F as [F Fw]. inversion Fw; subst.
  exists (concat ws0), w0. split; [assumption|]. split; [exists ws0; auto|].
  rewrite concat_app. cbn. rewrite app_nil_r. reflexivity.
Qed.

(* no character of the list begins with a byte that occurs inside (after the first byte of) a listed character:
   UTF-8 continuation bytes are never lead bytes.  Checked on the list. *)
Definition hd_is (h : ascii) (w : bytes) : bool := match w with c :: _ => Ascii.eqb c h | [] => false end.
Definition no_straddle_b : bool :=
  forallb (fun w => forallb (fun h => negb (existsb (hd_is h) ws_chars)) (tl w)) ws_chars.

Lemma no_straddle w w2 h r2 : In w ws_chars -> In h (tl w) -> In w2 ws_chars -> w2 = h :: r2 -> False.
Proof.
  intros Hw Hh Hw2 E.
  assert (Hb : no_straddle_b = true) by (vm_compute; reflexivity).
  unfold no_straddle_b in Hb. rewrite forallb_forall in Hb. specialize (Hb _ Hw).
  rewrite forallb_forall in Hb. specialize (Hb _ Hh). apply negb_true_iff in Hb.
  assert (Ht : existsb (hd_is h) ws_chars = true).
  { apply existsb_exists. exists w2. split; [exact Hw2|]. subst w2. cbn. apply Ascii.eqb_refl. }
  congruence.
Qed.

(* a non-empty string that does not start with white space still does not when blanks follow it *)
Lemma space_head_core_suf core suf :
  core <> [] -> ~ starts_ws core -> blank suf -> space_head (core ++ suf) = 0.
Proof.
  intros Hne Hns Hb. apply space_head_0_iff. intros (w & r & Hw & E).
  apply app_eq_app in E. destruct E as [l [[E1 E2]|[E1 E2]]].
  - apply Hns. exists w, l. auto.
  - (* w = core ++ l, suf = l ++ r *)
    destruct l as [|h l'].
    + apply Hns. exists w, []. rewrite app_nil_r in E1. rewrite app_nil_r. auto.
    + destruct Hb as (ws & F & Es). destruct ws as [|w2 ws'].
      * cbn in Es. rewrite Es in E2. discriminate.
      * inversion F as [|? ? Hw2 F']; subst.
        pose proof (ws_nonempty _ Hw2) as Hne2. destruct w2 as [|h2 r2]; [congruence|].
        cbn in E2. inversion E2; subst h2.
        destruct core as [|c core']; [congruence|].
        apply (no_straddle (c :: core' ++ h :: l') (h :: r2) h r2); auto.
        cbn. apply in_or_app. right. left. reflexivity.
Qed.

(* ------------------------------------------------------------------ *)
(* strings.TrimSpace                                                   *)
(* ------------------------------------------------------------------ *)

Lemma ws_len_pos w : In w ws_chars -> 0 < length w.
Proof. intros H. apply ws_nonempty in H. destruct w; [congruence|cbn; lia]. Qed.

Lemma skipn_app_exact {A} (a c : list A) : skipn (length a) (a ++ c) = c.
Proof. induction a; cbn; auto. Qed.

(* what one trimming loop removes is blank, and it stops at a non-space *)
Lemma trim_left_sound : forall fuel s, length s <= fuel ->
  exists pre, blank pre /\ s = pre ++ trim_left_space fuel s /\ space_head (trim_left_space fuel s) = 0.
Proof.
  induction fuel as [|f IH]; intros s Hl.
  - destruct s; [|cbn in Hl; lia]. exists []. cbn. split; [apply blank_nil|auto].
  - cbn [trim_left_space]. destruct (space_head s) as [|n] eqn:E.
    + exists []. split; [apply blank_nil|]. auto.
    + destruct (space_head_inv s) as (w & r & Hw & Hs & Hn); [congruence|].
      rewrite E in Hn. rewrite Hn. subst s. rewrite skipn_app_exact.
      destruct (IH r) as (pre & Hb & Hr & H0).
      { rewrite app_length in Hl. pose proof (ws_len_pos _ Hw). lia. }
      exists (w ++ pre). split; [apply blank_cons_ws; assumption|]. split; [|exact H0].
      rewrite <- app_assoc. rewrite <- Hr. reflexivity.
Qed.

Lemma trim_left_complete : forall ws rest fuel,
  Forall (fun w => In w ws_chars) ws -> length ws <= fuel -> space_head rest = 0 ->
  trim_left_space fuel (concat ws ++ rest) = rest.
Proof.
  induction ws as [|w ws IH]; intros rest fuel F Hl H0.
  - cbn. destruct fuel; cbn; [reflexivity|]. rewrite H0. reflexivity.
  - inversion F as [|? ? Hw F']; subst. destruct fuel as [|f]; [cbn in Hl; lia|].
    cbn [trim_left_space concat]. rewrite <- app_assoc. rewrite (space_head_ws w _ Hw).
    pose proof (ws_len_pos _ Hw) as Hp. destruct (length w) as [|k] eqn:Ek; [lia|].
    rewrite <- Ek, skipn_app_exact. apply IH; [assumption|cbn in Hl; lia|assumption].
Qed.

Lemma trim_right_sound : forall fuel r, length r <= fuel ->
  exists suf, blank suf /\ r = rev suf ++ trim_left_space_rev fuel r /\ space_last (trim_left_space_rev fuel r) = 0.
Proof.
  induction fuel as [|f IH]; intros s Hl.
  - destruct s; [|cbn in Hl; lia]. exists []. cbn. split; [apply blank_nil|auto].
  - cbn [trim_left_space_rev]. destruct (space_last s) as [|n] eqn:E.
    + exists []. split; [apply blank_nil|]. auto.
    + destruct (space_last_inv s) as (w & r & Hw & Hs & Hn); [congruence|].
      rewrite E in Hn. rewrite Hn. subst s. rewrite <- (rev_length w), skipn_app_exact.
      destruct (IH r) as (suf & Hb & Hr & H0).
      { rewrite app_length, rev_length in Hl. pose proof (ws_len_pos _ Hw). lia. }
      exists (suf ++ w). split; [apply blank_snoc_ws; assumption|]. split; [|exact H0].
      rewrite rev_app_distr, <- app_assoc, <- Hr. reflexivity.
Qed.

Lemma concat_length_le (ws : list bytes) :
  Forall (fun w => In w ws_chars) ws -> length ws <= length (concat ws).
Proof.
  induction 1 as [|w ws Hw F IH]; cbn; [lia|]. rewrite app_length. pose proof (ws_len_pos _ Hw). lia.
Qed.

Lemma trim_right_complete : forall suf rest fuel,
  blank suf -> length suf <= fuel -> space_last rest = 0 ->
  trim_left_space_rev fuel (rev suf ++ rest) = rest.
Proof.
  intros suf rest fuel (ws & F & ->). revert rest fuel.
  induction ws as [|w ws IH] using rev_ind; intros rest fuel Hl H0.
  - cbn. destruct fuel; cbn; [reflexivity|]. rewrite H0. reflexivity.
  - apply Forall_app in F. destruct F as [F Fw]. inversion Fw as [|? ? Hw _]; subst.
    rewrite concat_app in *. cbn [concat] in *. rewrite app_nil_r in *.
    rewrite rev_app_distr, <- app_assoc.
    pose proof (ws_len_pos _ Hw) as Hp. rewrite app_length in Hl.
    destruct fuel as [|f]; [lia|]. cbn [trim_left_space_rev].
    rewrite (space_last_ws w _ Hw). destruct (length w) as [|k] eqn:Ek; [lia|].
    rewrite <- Ek, <- (rev_length w), skipn_app_exact. apply IH; [exact F|lia|exact H0].
Qed.

(* the relational reading of TrimSpace *)
Definition trimmed (text core : bytes) : Prop :=
  exists pre suf, text = pre ++ core ++ suf /\ blank pre /\ blank suf /\ ~ starts_ws core /\ ~ ends_ws core.

Lemma trim_space_sound text : trimmed text (trim_space text).
Proof.
  unfold trim_space.
  destruct (trim_left_sound (length text) text (le_n _)) as (pre & Hpre & Ht & H0).
  set (l := trim_left_space (length text) text) in *.
  destruct (trim_right_sound (length l) (rev l)) as (suf & Hsuf & Hr & H1); [rewrite rev_length; lia|].
  set (k := trim_left_space_rev (length l) (rev l)) in *.
  assert (El : l = rev k ++ suf).
  { rewrite <- (rev_involutive l), Hr, rev_app_distr, rev_involutive. reflexivity. }
  exists pre, suf. split; [rewrite <- El; exact Ht|]. split; [exact Hpre|]. split; [exact Hsuf|]. split.
  - intros (w & r & Hw & E). rewrite El, E, <- app_assoc, (space_head_ws w _ Hw) in H0.
    pose proof (ws_len_pos _ Hw). lia.
  - apply space_last_0_iff. rewrite rev_involutive. exact H1.
Qed.

Lemma blank_trim_left : forall s fuel, blank s -> length s <= fuel -> trim_left_space fuel s = [].
Proof.
  intros s fuel (ws & F & ->) Hl. rewrite <- (app_nil_r (concat ws)).
  apply trim_left_complete; [exact F| |reflexivity].
  pose proof (concat_length_le ws F). lia.
Qed.

Lemma trim_space_complete text core : trimmed text core -> trim_space text = core.
Proof.
  intros (pre & suf & -> & Hpre & Hsuf & Hs & He). unfold trim_space.
  destruct core as [|c core'] eqn:Ec.
  - cbn [app]. rewrite (blank_trim_left (pre ++ suf)); [reflexivity|apply blank_app; assumption|lia].
  - rewrite <- Ec in *.
    assert (El : trim_left_space (length (pre ++ core ++ suf)) (pre ++ core ++ suf) = core ++ suf).
    { destruct Hpre as (ws & F & ->). apply trim_left_complete; [exact F| |].
      - pose proof (concat_length_le ws F). rewrite app_length. lia.
      - apply space_head_core_suf; [rewrite Ec; discriminate|assumption|assumption]. }
    rewrite El, rev_app_distr.
    rewrite trim_right_complete; [apply rev_involutive|exact Hsuf|rewrite app_length; lia|].
    apply space_last_0_iff. exact He.
Qed.

Lemma trim_space_spec text core : trimmed text core <-> trim_space text = core.
Proof. split; [apply trim_space_complete|intros <-; apply trim_space_sound]. Qed.

(* ------------------------------------------------------------------ *)
(* strings.Split(s, "\n") and joining                                  *)
(* ------------------------------------------------------------------ *)

Lemma nl_is_c_nl : nl = c_nl.
Proof. reflexivity. Qed.

Lemma split_nl_acc_no_nl : forall l rest cur, no_nl l ->
  split_nl_acc (l ++ rest) cur = split_nl_acc rest (rev l ++ cur).
Proof.
  induction l as [|c l IH]; intros rest cur Hn; [reflexivity|].
  cbn [app split_nl_acc]. destruct (Ascii.eqb c c_nl) eqn:E.
  - apply Ascii.eqb_eq in E. exfalso. apply Hn. left. rewrite nl_is_c_nl. auto.
  - rewrite IH; [|intros Hin; apply Hn; right; exact Hin]. cbn [rev]. rewrite <- app_assoc. reflexivity.
Qed.

Lemma split_join : forall all cur, Forall no_nl all -> all <> [] ->
  split_nl_acc (join_nl all) cur = (rev cur ++ hd [] all) :: tl all.
Proof.
  induction all as [|l r IH]; intros cur F Hne; [congruence|].
  inversion F as [|? ? Hl Fr]; subst. cbn [join_nl hd tl]. destruct r as [|l2 r2].
  - rewrite <- (app_nil_r l) at 1. rewrite split_nl_acc_no_nl by exact Hl. cbn [split_nl_acc].
    rewrite rev_app_distr, rev_involutive. reflexivity.
  - rewrite split_nl_acc_no_nl by exact Hl. cbn [split_nl_acc].
    change (Ascii.eqb nl c_nl) with true. cbn iota.
    rewrite rev_app_distr, rev_involutive. f_equal.
    rewrite (IH [] Fr) by discriminate. reflexivity.
Qed.

Lemma split_nl_acc_nonempty : forall s cur, split_nl_acc s cur <> [].
Proof.
  induction s as [|c r IH]; intros cur; cbn [split_nl_acc]; [discriminate|].
  destruct (Ascii.eqb c c_nl); [discriminate|apply IH].
Qed.

Lemma join_split : forall s cur, no_nl (rev cur) ->
  join_nl (split_nl_acc s cur) = rev cur ++ s /\ Forall no_nl (split_nl_acc s cur).
Proof.
  induction s as [|c r IH]; intros cur Hc.
  - cbn. rewrite app_nil_r. split; [reflexivity|constructor; [exact Hc|constructor]].
  - cbn [split_nl_acc]. destruct (Ascii.eqb c c_nl) eqn:E.
    + apply Ascii.eqb_eq in E. subst c. destruct (IH [] (fun H => H)) as [J F].
      split; [|constructor; assumption].
      cbn [join_nl]. pose proof (split_nl_acc_nonempty r []) as Hne.
      destruct (split_nl_acc r []) as [|x y] eqn:Ex; [congruence|].
      rewrite J. reflexivity.
    + apply Ascii.eqb_neq in E. destruct (IH (c :: cur)) as [J F].
      * cbn [rev]. intros Hin. apply in_app_or in Hin. destruct Hin as [Hin|[Hin|[]]]; [exact (Hc Hin)|].
        apply E. exact Hin.
      * split; [|exact F]. rewrite J. cbn [rev]. rewrite <- app_assoc. reflexivity.
Qed.

(* the pieces of a non-empty string, relationally *)
Lemma split_nl_spec core all :
  (all <> [] /\ Forall no_nl all /\ join_nl all = core) <-> split_nl core = all.
Proof.
  unfold split_nl. split.
  - intros (Hne & F & <-). rewrite split_join by assumption. destruct all; [congruence|reflexivity].
  - intros <-. destruct (join_split core [] (fun H => H)) as [J F].
    split; [apply split_nl_acc_nonempty|]. split; assumption.
Qed.

(* ------------------------------------------------------------------ *)
(* the go: filter                                                      *)
(* ------------------------------------------------------------------ *)

Lemma has_prefix_go_iff l : has_prefix go_colon l = true <-> is_go l.
Proof.
  unfold go_colon, is_go, b. split.
  - destruct l as [|a [|c [|d r]]]; cbn [has_prefix]; rewrite ?andb_false_r; try discriminate.
    intros H. apply andb_true_iff in H. destruct H as [H1 H]. apply andb_true_iff in H. destruct H as [H2 H].
    apply andb_true_iff in H. destruct H as [H3 _].
    apply Ascii.eqb_eq in H1, H2, H3. subst. eauto.
  - intros [r ->]. cbn [has_prefix]. rewrite !Ascii.eqb_refl. reflexivity.
Qed.

Lemma without_go_spec all ls :
  without_go all ls <-> filter (fun l => negb (has_prefix go_colon l)) all = ls.
Proof.
  split.
  - induction 1 as [|l all ls Hg _ IH|l all ls Hg _ IH]; cbn [filter].
    + reflexivity.
    + apply has_prefix_go_iff in Hg. rewrite Hg. exact IH.
    + destruct (has_prefix go_colon l) eqn:E; [apply has_prefix_go_iff in E; contradiction|].
      cbn [negb]. rewrite IH. reflexivity.
  - intros <-. induction all as [|l all IH]; cbn [filter]; [constructor|].
    destruct (has_prefix go_colon l) eqn:E; cbn [negb].
    + apply wg_skip; [apply has_prefix_go_iff; exact E|exact IH].
    + apply wg_keep; [|exact IH]. intros Hg. apply has_prefix_go_iff in Hg. congruence.
Qed.

(* ------------------------------------------------------------------ *)
(* the lines of a group                                                *)
(* ------------------------------------------------------------------ *)

(* the model's commentLinesFrom computes exactly the lines the relation describes *)
Theorem group_lines_meets_relation text ls : lines_of_text text ls <-> group_lines true text = ls.
Proof.
  unfold group_lines. cbn [andb]. split.
  - intros (pre & core & suf & Et & Hp & Hs & Hns & Hne & Hcases).
    assert (Etr : trim_space text = core) by (apply trim_space_complete; exists pre, suf; auto).
    rewrite Etr. destruct Hcases as [[-> ->]|[Hc (all & F & J & W)]]; [reflexivity|].
    destruct core as [|c0 core']; [congruence|]. cbn [is_nil].
    assert (Es : split_nl (c0 :: core') = all).
    { apply split_nl_spec. split; [|auto]. intros ->. cbn in J. discriminate. }
    rewrite Es. apply without_go_spec. exact W.
  - intros <-. destruct (trim_space_sound text) as (pre & suf & Et & Hp & Hs & Hns & Hne).
    exists pre, (trim_space text), suf. repeat (split; [assumption|]).
    destruct (trim_space text) as [|c0 core'] eqn:Ec; cbn [is_nil]; [left; auto|right].
    split; [discriminate|]. exists (split_nl (c0 :: core')).
    destruct (proj2 (split_nl_spec (c0 :: core') _) eq_refl) as (_ & F & J).
    split; [exact F|]. split; [exact J|]. apply without_go_spec. reflexivity.
Qed.

(* the relation determines the lines: it is functional and total *)
Corollary lines_of_text_functional text l1 l2 : lines_of_text text l1 -> lines_of_text text l2 -> l1 = l2.
Proof. intros H1 H2. apply group_lines_meets_relation in H1, H2. congruence. Qed.

Corollary lines_of_text_total text : exists ls, lines_of_text text ls.
Proof. exists (group_lines true text). apply group_lines_meets_relation. reflexivity. Qed.

(* the executable form [spec_lines] (Spec/Comments.v, evaluated by Corr/C12.v) computes the relation too *)
Require Gengo.Proofs.Comments.
Corollary spec_lines_meets_relation text ls : lines_of_text text ls <-> spec_lines text = ls.
Proof. rewrite <- (Gengo.Proofs.Comments.group_lines_spec text). apply group_lines_meets_relation. Qed.

(* TrimSpace alone, for reference in Props *)
Corollary trim_space_relational text core :
  (exists pre suf, text = pre ++ core ++ suf /\ blank pre /\ blank suf /\ ~ starts_ws core /\ ~ ends_ws core)
  <-> trim_space text = core.
Proof. exact (trim_space_spec text core). Qed.

(* a witness: tab, space, U+00A0 | "first" NL "  second " NL "go:generate x" NL "+tag=1" | NL NL U+2028 *)
Definition ex_text : bytes :=
  map ascii_of_N [9; 32; 194; 160]%N ++ bs "first" ++ [nl] ++ bs "  second " ++ [nl] ++ bs "go:generate x"
  ++ [nl] ++ bs "+tag=1" ++ [nl; nl] ++ map ascii_of_N [226; 128; 168]%N.
Definition ex_lines : list bytes := [bs "first"; bs "  second "; bs "+tag=1"].

Lemma ex_lines_of_text : lines_of_text ex_text ex_lines.
Proof. apply group_lines_meets_relation. vm_compute. reflexivity. Qed.

(* the same, shown directly from the definition of the relation (no function of the model involved) *)
Lemma ex_lines_of_text_direct : lines_of_text ex_text ex_lines.
Proof.
  exists (map ascii_of_N [9; 32; 194; 160]%N),
         (bs "first" ++ [nl] ++ bs "  second " ++ [nl] ++ bs "go:generate x" ++ [nl] ++ bs "+tag=1"),
         ([nl; nl] ++ map ascii_of_N [226; 128; 168]%N).
  split; [vm_compute; reflexivity|].
  split. { exists [[ascii_of_N 9]; [ascii_of_N 32]; map ascii_of_N [194; 160]%N].
           split; [repeat constructor; ws_done|reflexivity]. }
  split. { exists [[nl]; [nl]; map ascii_of_N [226; 128; 168]%N].
           split; [repeat constructor; ws_done|reflexivity]. }
  split. { apply space_head_0_iff. vm_compute. reflexivity. }
  split. { apply space_last_0_iff. vm_compute. reflexivity. }
  right. split; [discriminate|].
  exists [bs "first"; bs "  second "; bs "go:generate x"; bs "+tag=1"].
  split. { repeat constructor; intros H; vm_compute in H; repeat (destruct H as [H|H]; [discriminate H|]); exact H. }
  split; [vm_compute; reflexivity|].
  apply wg_keep. { intros [r H]. discriminate H. }
  apply wg_keep. { intros [r H]. discriminate H. }
  apply wg_skip. { exists (bs "generate x"). reflexivity. }
  apply wg_keep. { intros [r H]. discriminate H. }
  constructor.
Qed.
