(* Lemmas for C09: the scanner loops of the snippet package compute tokenise-then-substitute. *)
Require Import Gengo.Base.Bytes Gengo.Model.Snippet Gengo.Model.SnippetSpec.
Require Import Lia.

(* ---------------------------------------------------------------------------------------- *)
(* small facts *)

Lemma emitr_nil : forall k, emitr (Ok []) k = k.
Proof. intros [b| |]; reflexivity. Qed.

Lemma cat_res_cons : forall a l, cat_res (a :: l) = emitr a (cat_res l).
Proof. reflexivity. Qed.

Lemma untok_cons : forall t r, untok (t :: r) = untok1 t ++ untok r.
Proof. reflexivity. Qed.

Lemma suntok_cons : forall t r, suntok (t :: r) = suntok1 t ++ suntok r.
Proof. reflexivity. Qed.

Lemma span_eq : forall p s a b,
  span p s = (a, b) -> s = a ++ b /\ forallb p a = true /\ head_is p b = false.
Proof.
  intros p s. induction s as [|c r IH]; intros a b H; cbn in H.
  - inversion H; subst. auto.
  - destruct (p c) eqn:E.
    + destruct (span p r) as [a' b'] eqn:E2. inversion H; subst.
      destruct (IH a' b eq_refl) as (H1 & H2 & H3).
      split; [cbn; congruence|]. split; [cbn; rewrite E; exact H2 | exact H3].
    + inversion H; subst. cbn. rewrite E. auto.
Qed.

Lemma span_app : forall p n r,
  forallb p n = true -> head_is p r = false -> span p (n ++ r) = (n, r).
Proof.
  intros p n r. induction n as [|c n IH]; cbn; intros Hn Hr.
  - destruct r as [|d r]; cbn in *; [reflexivity | rewrite Hr; reflexivity].
  - apply andb_true_iff in Hn as [H1 H2]. rewrite H1, (IH H2 Hr). reflexivity.
Qed.

(* ---------------------------------------------------------------------------------------- *)
(* tokenize: fuel is irrelevant, unfolding equations *)

Lemma tf_S : forall k c r,
  tokenize_fuel (S k) (c :: r) =
  if Ascii.eqb c c_at then
    let (n, rest) := span is_name r in
    match n with
    | [] => Lit c_at :: tokenize_fuel k r
    | _ =>
        match rest with
        | d :: rest' =>
            if Ascii.eqb d c_apos then Hole n true :: tokenize_fuel k rest'
            else Hole n false :: tokenize_fuel k rest
        | [] => [Hole n false]
        end
    end
  else Lit c :: tokenize_fuel k r.
Proof. reflexivity. Qed.

Lemma tf_irrel : forall k k' s,
  length s < k -> length s < k' -> tokenize_fuel k s = tokenize_fuel k' s.
Proof.
  induction k as [|k IH]; intros k' s Hk Hk'; [lia|].
  destruct k' as [|k']; [lia|].
  destruct s as [|c r]; [reflexivity|]. rewrite !tf_S. cbn [length] in *.
  destruct (Ascii.eqb c c_at).
  - destruct (span is_name r) as [n rest] eqn:E. apply span_eq in E as (E1 & _ & _).
    assert (Hl : length rest <= length r) by (subst r; rewrite app_length; lia).
    destruct n as [|n0 n'].
    + f_equal. apply IH; lia.
    + destruct rest as [|d rest']; [reflexivity|]. cbn [length] in Hl.
      destruct (Ascii.eqb d c_apos); f_equal; apply IH; cbn [length]; lia.
  - f_equal. apply IH; lia.
Qed.

Lemma tokenize_nil : tokenize [] = [].
Proof. reflexivity. Qed.

Lemma tokenize_lit : forall c r, Ascii.eqb c c_at = false -> tokenize (c :: r) = Lit c :: tokenize r.
Proof.
  intros c r E. unfold tokenize. cbn [length]. rewrite tf_S, E. reflexivity.
Qed.

Definition tokenize_at_rhs (r : bytes) : list tok :=
  let (n, rest) := span is_name r in
  match n with
  | [] => Lit c_at :: tokenize r
  | _ =>
      match rest with
      | d :: rest' =>
          if Ascii.eqb d c_apos then Hole n true :: tokenize rest' else Hole n false :: tokenize rest
      | [] => [Hole n false]
      end
  end.

Lemma tokenize_at : forall r, tokenize (c_at :: r) = tokenize_at_rhs r.
Proof.
  intros r. unfold tokenize, tokenize_at_rhs. cbn [length]. rewrite tf_S, Ascii.eqb_refl.
  destruct (span is_name r) as [n rest] eqn:E. apply span_eq in E as (E1 & _ & _).
  assert (Hl : length rest <= length r) by (subst r; rewrite app_length; lia).
  destruct n as [|n0 n']; [reflexivity|].
  destruct rest as [|d rest']; [reflexivity|]. cbn [length] in Hl.
  destruct (Ascii.eqb d c_apos); f_equal; apply tf_irrel; cbn [length]; lia.
Qed.

(* the three shapes of tokenize_at, ready for rewriting *)
Lemma tokenize_bare_at : forall r, head_is is_name r = false -> tokenize (c_at :: r) = Lit c_at :: tokenize r.
Proof.
  intros r H. rewrite tokenize_at. unfold tokenize_at_rhs.
  rewrite (span_app is_name [] r eq_refl H : span is_name r = ([], r)). reflexivity.
Qed.

Lemma tokenize_hole_apos : forall n r,
  n <> [] -> forallb is_name n = true ->
  tokenize (c_at :: n ++ c_apos :: r) = Hole n true :: tokenize r.
Proof.
  intros n r Hne Hn. rewrite tokenize_at. unfold tokenize_at_rhs.
  rewrite (span_app is_name n (c_apos :: r) Hn eq_refl).
  destruct n as [|n0 n']; [congruence|]. rewrite Ascii.eqb_refl. reflexivity.
Qed.

Lemma tokenize_hole_end : forall n,
  n <> [] -> forallb is_name n = true -> tokenize (c_at :: n ++ []) = [Hole n false].
Proof.
  intros n Hne Hn. rewrite tokenize_at. unfold tokenize_at_rhs.
  rewrite (span_app is_name n [] Hn eq_refl).
  destruct n as [|n0 n']; [congruence|]. reflexivity.
Qed.

Lemma tokenize_hole_other : forall n d r,
  n <> [] -> forallb is_name n = true -> is_name d = false -> Ascii.eqb d c_apos = false ->
  tokenize (c_at :: n ++ d :: r) = Hole n false :: tokenize (d :: r).
Proof.
  intros n d r Hne Hn Hd Ha. rewrite tokenize_at. unfold tokenize_at_rhs.
  rewrite (span_app is_name n (d :: r) Hn Hd).
  destruct n as [|n0 n']; [congruence|]. rewrite Ha. reflexivity.
Qed.

(* ---------------------------------------------------------------------------------------- *)
(* the tokeniser is lossless, its output is well-formed, and well-formed readings are unique *)

Lemma tokenize_lossless_n : forall n s, length s <= n -> untok (tokenize s) = s.
Proof.
  induction n as [|n IH]; intros s Hl.
  - destruct s; [reflexivity | cbn in Hl; lia].
  - destruct s as [|c r]; [reflexivity|]. cbn [length] in Hl.
    destruct (Ascii.eqb c c_at) eqn:E.
    + apply Ascii.eqb_eq in E; subst c. rewrite tokenize_at. unfold tokenize_at_rhs.
      destruct (span is_name r) as [nm rest] eqn:Es. apply span_eq in Es as (E1 & E2 & E3).
      assert (Hr : length rest <= length r) by (subst r; rewrite app_length; lia).
      destruct nm as [|n0 n'].
      * rewrite untok_cons, IH by lia. reflexivity.
      * destruct rest as [|d rest'].
        -- subst r. cbn. rewrite !app_nil_r. reflexivity.
        -- cbn [length] in Hr. destruct (Ascii.eqb d c_apos) eqn:Ed.
           ++ apply Ascii.eqb_eq in Ed; subst d. rewrite untok_cons, IH by lia. subst r.
              cbn. rewrite <- app_assoc. reflexivity.
           ++ rewrite untok_cons, IH by (cbn [length]; lia). subst r.
              cbn. rewrite app_nil_r. reflexivity.
    + rewrite (tokenize_lit _ _ E), untok_cons, IH by lia. reflexivity.
Qed.

Lemma tokenize_lossless : forall s, untok (tokenize s) = s.
Proof. intros s. apply (tokenize_lossless_n (length s)). lia. Qed.

Lemma tokenize_wf_n : forall n s, length s <= n -> wf_toks (tokenize s) = true.
Proof.
  induction n as [|n IH]; intros s Hl.
  - destruct s; [reflexivity | cbn in Hl; lia].
  - destruct s as [|c r]; [reflexivity|]. cbn [length] in Hl.
    destruct (Ascii.eqb c c_at) eqn:E.
    + apply Ascii.eqb_eq in E; subst c. rewrite tokenize_at. unfold tokenize_at_rhs.
      destruct (span is_name r) as [nm rest] eqn:Es. apply span_eq in Es as (E1 & E2 & E3).
      assert (Hr : length rest <= length r) by (subst r; rewrite app_length; lia).
      destruct nm as [|n0 n'].
      * cbn [wf_toks wf_tok]. rewrite Ascii.eqb_refl, tokenize_lossless, IH by lia.
        cbn [app] in E1. subst r. rewrite E3. reflexivity.
      * destruct rest as [|d rest'].
        -- cbn [wf_toks wf_tok untok map concat head_is is_nil]. rewrite E2. reflexivity.
        -- cbn [length] in Hr. destruct (Ascii.eqb d c_apos) eqn:Ed.
           ++ cbn [wf_toks wf_tok is_nil]. rewrite E2, IH by lia. reflexivity.
           ++ cbn [wf_toks wf_tok is_nil]. rewrite E2, tokenize_lossless, IH by (cbn [length]; lia).
              cbn [head_is] in *. unfold name_or_apos. rewrite E3, Ed. reflexivity.
    + rewrite (tokenize_lit _ _ E). cbn [wf_toks wf_tok]. rewrite E, IH by lia. reflexivity.
Qed.

Lemma tokenize_wf : forall s, wf_toks (tokenize s) = true.
Proof. intros s. apply (tokenize_wf_n (length s)). lia. Qed.

Lemma tokenize_tokens : forall s, Tokens s (tokenize s).
Proof. intros s. split; [apply tokenize_lossless | apply tokenize_wf]. Qed.

Lemma wf_unique : forall ts, wf_toks ts = true -> tokenize (untok ts) = ts.
Proof.
  induction ts as [|t r IH]; intros H; [reflexivity|].
  cbn [wf_toks] in H. apply andb_true_iff in H as [Ht Hr]. specialize (IH Hr).
  rewrite untok_cons. destruct t as [c|n a]; cbn [untok1 wf_tok] in *.
  - destruct (Ascii.eqb c c_at) eqn:E.
    + apply Ascii.eqb_eq in E; subst c. apply negb_true_iff in Ht.
      cbn [app]. rewrite (tokenize_bare_at _ Ht), IH. reflexivity.
    + cbn [app]. rewrite (tokenize_lit _ _ E), IH. reflexivity.
  - apply andb_true_iff in Ht as [Ht Ha]. apply andb_true_iff in Ht as [Hne Hn].
    assert (Hne' : n <> []) by (destruct n; [discriminate | congruence]).
    cbn [app]. rewrite <- app_assoc. destruct a.
    + cbn [app]. rewrite (tokenize_hole_apos n (untok r) Hne' Hn), IH. reflexivity.
    + cbn [app orb] in *. apply negb_true_iff in Ha.
      destruct (untok r) as [|d rest] eqn:Eu.
      * rewrite (tokenize_hole_end n Hne' Hn). rewrite tokenize_nil in IH. subst r. reflexivity.
      * cbn [head_is] in Ha. unfold name_or_apos in Ha. apply orb_false_iff in Ha as [Hd Hap].
        rewrite (tokenize_hole_other n d rest Hne' Hn Hd Hap), IH. reflexivity.
Qed.

Lemma tokens_unique : forall s ts, Tokens s ts -> ts = tokenize s.
Proof. intros s ts [H1 H2]. subst s. symmetry. apply wf_unique. exact H2. Qed.

(* ---------------------------------------------------------------------------------------- *)
(* the template scanner (repaired code) = substitution into the tokens *)

Lemma scan_cons : forall fx args c r,
  scan fx args (c :: r) =
  if Ascii.eqb c c_at then name_loop fx args r [] else emit [c] (scan fx args r).
Proof. reflexivity. Qed.

Lemma name_loop_nil : forall fx args named,
  name_loop fx args [] named = after_name fx args named None (Ok []).
Proof. reflexivity. Qed.

Lemma name_loop_cons : forall fx args c r' named,
  name_loop fx args (c :: r') named =
  if Ascii.eqb c c_apos then after_name fx args named (Some c) (scan fx args r')
  else if is_name c then name_loop fx args r' (named ++ [c])
  else after_name fx args named (Some c)
         (if Ascii.eqb c c_at then name_loop fx args r' [] else scan fx args r').
Proof. reflexivity. Qed.

Section TplProof.
  Variable args : list (bytes * aview).

  Lemma after_name_hole : forall named c k toks a,
    named <> [] ->
    tail all_fixed true c k = subst args toks ->
    after_name all_fixed args named c k = subst args (Hole named a :: toks).
  Proof.
    intros named c k toks a Hne Ht. destruct named as [|n0 n']; [congruence|].
    cbn [after_name subst piece]. destruct (lookup (n0 :: n') args) as [[|isnil out]|].
    - rewrite emitr_nil, <- Ht. reflexivity.
    - destruct isnil.
      + rewrite emitr_nil, <- Ht. reflexivity.
      + rewrite <- Ht. reflexivity.
    - reflexivity.
  Qed.

  Lemma tail_other : forall b c k,
    Ascii.eqb c c_at = false -> Ascii.eqb c c_apos = false ->
    tail all_fixed b (Some c) k = emit [c] k.
  Proof. intros b c k E1 E2. unfold tail. rewrite E1, E2. reflexivity. Qed.

  Lemma scan_spec : forall s,
    scan all_fixed args s = subst args (tokenize s) /\
    forall named, forallb is_name named = true ->
      name_loop all_fixed args s named = subst args (tokenize (c_at :: named ++ s)).
  Proof.
    induction s as [|c r [IH1 IH2]].
    - split; [reflexivity|]. intros named Hn. rewrite name_loop_nil.
      destruct named as [|n0 n'].
      + reflexivity.
      + rewrite (tokenize_hole_end (n0 :: n')) by (congruence || exact Hn).
        apply after_name_hole; [congruence | reflexivity].
    - split.
      + rewrite scan_cons. destruct (Ascii.eqb c c_at) eqn:E.
        * apply Ascii.eqb_eq in E; subst c. rewrite (IH2 [] eq_refl). reflexivity.
        * rewrite (tokenize_lit _ _ E). cbn [subst piece]. rewrite IH1. reflexivity.
      + intros named Hn. rewrite name_loop_cons.
        destruct (Ascii.eqb c c_apos) eqn:Ea.
        * apply Ascii.eqb_eq in Ea; subst c.
          destruct named as [|n0 n'].
          -- cbn [app]. rewrite (tokenize_bare_at (c_apos :: r) eq_refl).
             rewrite (tokenize_lit c_apos r eq_refl). rewrite IH1. reflexivity.
          -- rewrite (tokenize_hole_apos (n0 :: n') r) by (congruence || exact Hn).
             apply after_name_hole; [congruence|]. rewrite IH1. reflexivity.
        * destruct (is_name c) eqn:En.
          -- rewrite (IH2 (named ++ [c])).
             ++ rewrite <- app_assoc. reflexivity.
             ++ rewrite forallb_app, Hn. cbn. rewrite En. reflexivity.
          -- destruct named as [|n0 n'].
             ++ cbn [app]. rewrite (tokenize_bare_at (c :: r)) by exact En.
                destruct (Ascii.eqb c c_at) eqn:E.
                ** apply Ascii.eqb_eq in E; subst c. rewrite (IH2 [] eq_refl). reflexivity.
                ** rewrite (tokenize_lit _ _ E). cbn [after_name all_fixed fx_at].
                   rewrite (tail_other false c _ E Ea), IH1. reflexivity.
             ++ rewrite (tokenize_hole_other (n0 :: n') c r) by (congruence || assumption).
                apply after_name_hole; [congruence|].
                destruct (Ascii.eqb c c_at) eqn:E.
                ** apply Ascii.eqb_eq in E; subst c. rewrite (IH2 [] eq_refl). reflexivity.
                ** rewrite (tail_other true c _ E Ea), (tokenize_lit _ _ E), IH1. reflexivity.
  Qed.

  Lemma tpl_spec : forall f,
    tpl_impl all_fixed args f = subst args (tokenize (sc_view (trim_nl f))).
  Proof.
    intros f. unfold tpl_impl. change (sc_in all_fixed (trim_nl f)) with (sc_view (trim_nl f)). apply scan_spec.
  Qed.

  Lemma subst_missing : forall ts n a,
    In (Hole n a) ts -> lookup n args = None -> is_ok (subst args ts) = false.
  Proof.
    induction ts as [|t r IH]; intros n a Hin Hl; [destruct Hin|].
    destruct Hin as [->|Hin].
    - cbn [subst piece]. rewrite Hl. reflexivity.
    - cbn [subst]. pose proof (IH n a Hin Hl) as H.
      destruct (piece args t); [|reflexivity|reflexivity].
      destruct (subst args r); [discriminate|reflexivity|reflexivity].
  Qed.
End TplProof.

(* ---------------------------------------------------------------------------------------- *)
(* Sprintf *)

Ltac chars :=
  repeat match goal with
         | H : Ascii.eqb ?x ?y = true |- _ =>
             first [ is_var x; apply Ascii.eqb_eq in H; subst x
                   | exfalso; vm_compute in H; discriminate H ]
         end.

Lemma sp_spec_n : forall n s args, length s <= n ->
  sp_scan all_fixed s args = ssubst (stokenize s) args.
Proof.
  induction n as [|n IH]; intros s args Hl.
  - destruct s; [reflexivity | cbn in Hl; lia].
  - destruct s as [|c r]; [reflexivity|]. cbn [length] in Hl. cbn [sp_scan stokenize].
    destruct (Ascii.eqb c c_pct) eqn:E.
    + destruct r as [|d r']; [reflexivity|]. cbn [length] in Hl.
      destruct (Ascii.eqb d c_T) eqn:ET; destruct (Ascii.eqb d c_v) eqn:EV;
        destruct (Ascii.eqb d c_pct) eqn:EP; chars; cbn [ssubst fx_pct all_fixed];
        try (destruct args as [|a args']; [reflexivity|]); rewrite ?IH by lia; reflexivity.
    + cbn [ssubst]. rewrite IH by lia. reflexivity.
Qed.

Lemma sp_spec : forall f args, sp_impl all_fixed f args = ssubst (stokenize (sc_view f)) args.
Proof.
  intros f args. unfold sp_impl. change (sc_in all_fixed f) with (sc_view f).
  apply (sp_spec_n (length (sc_view f))). lia.
Qed.

Lemma stok_lossless_n : forall n s, length s <= n -> suntok (stokenize s) = s.
Proof.
  induction n as [|n IH]; intros s Hl.
  - destruct s; [reflexivity | cbn in Hl; lia].
  - destruct s as [|c r]; [reflexivity|]. cbn [length] in Hl. cbn [stokenize].
    destruct (Ascii.eqb c c_pct) eqn:E.
    + chars. destruct r as [|d r']; [reflexivity|]. cbn [length] in Hl.
      rewrite suntok_cons, IH by lia.
      destruct (Ascii.eqb d c_v) eqn:EV; [chars; reflexivity|].
      destruct (Ascii.eqb d c_T) eqn:ET; [chars; reflexivity|].
      destruct (Ascii.eqb d c_pct) eqn:EP; [chars; reflexivity|]. reflexivity.
    + rewrite suntok_cons, IH by lia. reflexivity.
Qed.

Lemma stok_lossless : forall s, suntok (stokenize s) = s.
Proof. intros s. apply (stok_lossless_n (length s)). lia. Qed.

Lemma stok_wf_n : forall n s, length s <= n -> swf (stokenize s) = true.
Proof.
  induction n as [|n IH]; intros s Hl.
  - destruct s; [reflexivity | cbn in Hl; lia].
  - destruct s as [|c r]; [reflexivity|]. cbn [length] in Hl. cbn [stokenize].
    destruct (Ascii.eqb c c_pct) eqn:E.
    + destruct r as [|d r']; [reflexivity|]. cbn [length] in Hl.
      destruct (Ascii.eqb d c_v) eqn:EV; [cbn [swf]; rewrite IH by lia; reflexivity|].
      destruct (Ascii.eqb d c_T) eqn:ET; [cbn [swf]; rewrite IH by lia; reflexivity|].
      destruct (Ascii.eqb d c_pct) eqn:EP; cbn [swf]; rewrite IH by lia; [reflexivity|].
      rewrite EV, ET, EP. reflexivity.
    + cbn [swf]. rewrite E, IH by lia. reflexivity.
Qed.

Lemma stok_wf : forall s, swf (stokenize s) = true.
Proof. intros s. apply (stok_wf_n (length s)). lia. Qed.

Lemma stok_unique : forall ts, swf ts = true -> stokenize (suntok ts) = ts.
Proof.
  induction ts as [|t r IH]; intros H; [reflexivity|].
  cbn [swf] in H. apply andb_true_iff in H as [Ht Hr]. specialize (IH Hr).
  rewrite suntok_cons. destruct t as [c| | | |[d|]]; cbn [suntok1 app stokenize].
  - apply negb_true_iff in Ht. rewrite Ht, IH. reflexivity.
  - rewrite IH. reflexivity.
  - rewrite IH. reflexivity.
  - rewrite IH. reflexivity.
  - apply andb_true_iff in Ht as [Ht H3]. apply andb_true_iff in Ht as [H1 H2].
    apply negb_true_iff in H1, H2, H3. rewrite Ascii.eqb_refl, H1, H2, H3, IH. reflexivity.
  - destruct r; [reflexivity | cbn in Ht; discriminate].
Qed.

Lemma emit_not_ok : forall b k, is_ok k = false -> is_ok (emit b k) = false.
Proof. intros b [x| |]; cbn; congruence. Qed.

Lemma emitr_not_ok : forall o k, is_ok k = false -> is_ok (emitr o k) = false.
Proof. intros [a| |] [x| |]; cbn; congruence. Qed.

(* any other verb: no output *)
Lemma ssubst_bad : forall ts c args, In (KBad c) ts -> is_ok (ssubst ts args) = false.
Proof.
  induction ts as [|t r IH]; intros c args Hin; [destruct Hin|].
  destruct Hin as [->|Hin]; [reflexivity|].
  destruct t; cbn [ssubst].
  - apply emit_not_ok. eapply IH; exact Hin.
  - destruct args as [|a args']; [reflexivity|]. apply emitr_not_ok. eapply IH; exact Hin.
  - destruct args as [|a args']; [reflexivity|]. apply emitr_not_ok. eapply IH; exact Hin.
  - apply emit_not_ok. eapply IH; exact Hin.
  - reflexivity.
Qed.

(* more verbs than arguments: no output *)
Definition verbs (ts : list stok) : nat :=
  length (filter (fun t => match t with KV | KT => true | _ => false end) ts).

Lemma ssubst_missing : forall ts args, length args < verbs ts -> is_ok (ssubst ts args) = false.
Proof.
  unfold verbs. induction ts as [|t r IH]; intros args H; [cbn in H; lia|].
  destruct t; cbn [filter length ssubst] in *.
  - apply emit_not_ok, IH. exact H.
  - destruct args as [|a args']; [reflexivity|]. apply emitr_not_ok, IH. cbn [length] in H. lia.
  - destruct args as [|a args']; [reflexivity|]. apply emitr_not_ok, IH. cbn [length] in H. lia.
  - apply emit_not_ok, IH. exact H.
  - reflexivity.
Qed.

(* ---------------------------------------------------------------------------------------- *)
(* Comment, GoDirective *)

Lemma comment_loop_S : forall i ls,
  comment_loop (S i) ls = concat (map (fun l => c_nl :: slashes ++ l) ls).
Proof.
  intros i ls. revert i. induction ls as [|l r IH]; intros i; [reflexivity|].
  cbn [comment_loop map concat]. rewrite IH. cbn [app]. rewrite <- app_assoc. reflexivity.
Qed.

Lemma join_nl_cons : forall a l, l <> [] -> join_nl (a :: l) = a ++ c_nl :: join_nl l.
Proof. intros a l H. destruct l; [congruence | reflexivity]. Qed.

Lemma join_nl_map : forall (f : bytes -> bytes) l r,
  join_nl (map f (l :: r)) = f l ++ concat (map (fun x => c_nl :: f x) r).
Proof.
  intros f l r. revert l. induction r as [|x r IH]; intros l.
  - cbn. rewrite app_nil_r. reflexivity.
  - change (map f (l :: x :: r)) with (f l :: map f (x :: r)).
    rewrite join_nl_cons by (cbn; discriminate). rewrite IH. reflexivity.
Qed.

Lemma comment_impl_spec : forall v, comment_impl v = comment_spec v.
Proof.
  intros v. unfold comment_impl, comment_spec. destruct (is_nil v); [reflexivity|].
  destruct (split_nl v) as [|l r]; [reflexivity|].
  rewrite join_nl_map. cbn [comment_loop app]. rewrite comment_loop_S.
  rewrite <- app_assoc. reflexivity.
Qed.

Definition no_nl (l : bytes) : bool := forallb (fun c => negb (Ascii.eqb c c_nl)) l.

Lemma split_nl_nonempty : forall s, split_nl s <> [].
Proof.
  induction s as [|c r IH]; cbn; [discriminate|].
  destruct (Ascii.eqb c c_nl); [discriminate|]. destruct (split_nl r); [congruence | discriminate].
Qed.

Lemma split_nl_no_nl : forall s, forallb no_nl (split_nl s) = true.
Proof.
  induction s as [|c r IH]; [reflexivity|]. cbn [split_nl].
  destruct (Ascii.eqb c c_nl) eqn:E; [exact IH|].
  destruct (split_nl r) as [|h t]; cbn in *; rewrite E; cbn [negb andb]; [reflexivity | exact IH].
Qed.

Lemma join_split_nl : forall s, join_nl (split_nl s) = s.
Proof.
  induction s as [|c r IH]; [reflexivity|]. cbn [split_nl].
  destruct (Ascii.eqb c c_nl) eqn:E.
  - apply Ascii.eqb_eq in E; subst c. pose proof (split_nl_nonempty r) as Hne.
    cbn [join_nl]. destruct (split_nl r) as [|h t]; [congruence|]. rewrite IH. reflexivity.
  - destruct (split_nl r) as [|h t] eqn:Es; [exfalso; exact (split_nl_nonempty r Es)|].
    cbn [join_nl] in *. destruct t; cbn [app]; congruence.
Qed.

Lemma split_nl_app_line : forall l s, no_nl l = true ->
  split_nl (l ++ c_nl :: s) = l :: split_nl s.
Proof.
  induction l as [|c l IH]; intros s Hl.
  - cbn [app split_nl]. rewrite Ascii.eqb_refl. reflexivity.
  - cbn in Hl. apply andb_true_iff in Hl as [Hc Hl]. apply negb_true_iff in Hc.
    cbn [app split_nl]. rewrite Hc, (IH s Hl). reflexivity.
Qed.

Lemma split_nl_line : forall l, no_nl l = true -> split_nl l = [l].
Proof.
  induction l as [|c l IH]; intros Hl; [reflexivity|].
  cbn in Hl. apply andb_true_iff in Hl as [Hc Hl]. apply negb_true_iff in Hc.
  cbn [split_nl]. rewrite Hc, (IH Hl). reflexivity.
Qed.

Lemma split_join_nl : forall ls, ls <> [] -> forallb no_nl ls = true -> split_nl (join_nl ls) = ls.
Proof.
  induction ls as [|l r IH]; intros Hne Hl; [congruence|].
  cbn in Hl. apply andb_true_iff in Hl as [H1 H2]. cbn [join_nl].
  destruct r as [|l2 r2]; [apply split_nl_line; exact H1|].
  rewrite (split_nl_app_line _ _ H1), IH; [reflexivity | discriminate | exact H2].
Qed.

Lemma no_nl_map_slashes : forall ls,
  forallb no_nl ls = true -> forallb no_nl (map (app slashes) ls) = true.
Proof.
  induction ls as [|l r IH]; intros H; [reflexivity|].
  cbn [forallb] in H. apply andb_true_iff in H as [H1 H2]. cbn [map forallb].
  rewrite (IH H2), andb_true_r. unfold no_nl in *. rewrite forallb_app, H1. reflexivity.
Qed.

Lemma comment_lines : forall v, v <> [] ->
  split_nl (comment_impl v) = map (app slashes) (split_nl v).
Proof.
  intros v Hv. rewrite comment_impl_spec. unfold comment_spec.
  destruct v as [|c v]; [congruence|]. cbn [is_nil].
  apply split_join_nl.
  - pose proof (split_nl_nonempty (c :: v)). destruct (split_nl (c :: v)); [congruence | cbn; discriminate].
  - apply no_nl_map_slashes, split_nl_no_nl.
Qed.

Lemma directive_args_spec : forall args,
  directive_args args = concat (map (app (bs " ")) (filter nonempty args)).
Proof.
  induction args as [|a r IH]; [reflexivity|]. cbn [directive_args filter]. change (nonempty a) with (negb (is_nil a)).
  destruct (negb (is_nil a)); [|exact IH]. cbn [map concat]. rewrite IH, <- app_assoc. reflexivity.
Qed.

Lemma directive_impl_spec : forall d args, directive_impl d args = directive_spec d args.
Proof.
  intros d args. unfold directive_impl, directive_spec. rewrite directive_args_spec. reflexivity.
Qed.

(* ---------------------------------------------------------------------------------------- *)
(* text/scanner, as the repaired code uses it, is transparent on well-formed UTF-8 *)

Lemma sc_go_id : forall s k, utf8_go s k = true -> sc_go s k = s.
Proof.
  induction s as [|b r IH]; intros k H; [reflexivity|].
  cbn [sc_go utf8_go] in *. destruct k as [|k].
  - destruct (rune_len (b :: r)) as [|k']; [discriminate|]. f_equal. apply IH. exact H.
  - f_equal. apply IH. exact H.
Qed.

(* the byte order mark the scanner discards is the one the code put in front *)
Lemma sc_view_go : forall f, sc_view f = sc_go f 0.
Proof. reflexivity. Qed.

Lemma sc_view_id : forall f, utf8b f = true -> sc_view f = f.
Proof. intros f H. rewrite sc_view_go. apply sc_go_id. exact H. Qed.

(* ... and as the code before fixes/C09-5-leading-bom.diff used it, when there is no leading U+FEFF *)
Lemma sc_raw_id : forall f, utf8b f = true -> has_bom f = false -> sc_raw f = f.
Proof. intros f H1 H2. unfold sc_raw, drop_bom. rewrite H2. apply sc_go_id. exact H1. Qed.

Lemma rng_iff : forall lo hi c, rng lo hi c = true <-> (lo <= nb c /\ nb c <= hi)%N.
Proof.
  intros lo hi c. unfold rng. rewrite andb_true_iff, !N.leb_le. reflexivity.
Qed.

Lemma rng_high : forall lo hi c, (128 <= lo)%N -> rng lo hi c = true -> N.ltb (nb c) 128 = false.
Proof. intros lo hi c Hlo H. apply rng_iff in H. apply N.ltb_ge. lia. Qed.

Lemma rng_disj : forall lo hi lo' hi' c, (hi' < lo)%N -> rng lo hi c = true -> rng lo' hi' c = false.
Proof.
  intros lo hi lo' hi' c Hd H. apply rng_iff in H. destruct (rng lo' hi' c) eqn:E; [|reflexivity].
  apply rng_iff in E. lia.
Qed.

Lemma wf2_first : forall b0 b1, wf2 b0 b1 = true -> N.ltb (nb b0) 128 = false.
Proof.
  intros b0 b1 H. unfold wf2 in H. apply andb_true_iff in H as [H _].
  apply (rng_high 194 223); [lia | exact H].
Qed.

Lemma wf3_first : forall b0 b1 b2, wf3 b0 b1 b2 = true -> rng 224 239 b0 = true.
Proof.
  intros b0 b1 b2 H. unfold wf3 in H. apply andb_true_iff in H as [H _].
  repeat (apply orb_true_iff in H as [H|H]); apply andb_true_iff in H as [H _];
    apply rng_iff in H; apply rng_iff; lia.
Qed.

Lemma wf4_first : forall b0 b1 b2 b3, wf4 b0 b1 b2 b3 = true -> rng 240 244 b0 = true.
Proof.
  intros b0 b1 b2 b3 H. unfold wf4 in H. apply andb_true_iff in H as [H _].
  apply andb_true_iff in H as [H _].
  repeat (apply orb_true_iff in H as [H|H]); apply andb_true_iff in H as [H _];
    apply rng_iff in H; apply rng_iff; lia.
Qed.

Lemma utf8_utf8b : forall s, utf8 s -> utf8b s = true.
Proof.
  unfold utf8b. induction 1 as [|b0 r H1 _ IH|b0 b1 r H2 _ IH|b0 b1 b2 r H3 _ IH|b0 b1 b2 b3 r H4 _ IH].
  - reflexivity.
  - cbn [utf8_go rune_len]. rewrite H1. exact IH.
  - cbn [utf8_go rune_len]. rewrite (wf2_first _ _ H2), H2. exact IH.
  - pose proof (wf3_first _ _ _ H3) as Hf.
    cbn [utf8_go rune_len]. rewrite (rng_high 224 239 b0 ltac:(lia) Hf).
    unfold wf2 at 1. rewrite (rng_disj 224 239 194 223 b0 ltac:(lia) Hf). cbn [andb].
    rewrite H3. exact IH.
  - pose proof (wf4_first _ _ _ _ H4) as Hf.
    cbn [utf8_go rune_len]. rewrite (rng_high 240 244 b0 ltac:(lia) Hf).
    unfold wf2 at 1. rewrite (rng_disj 240 244 194 223 b0 ltac:(lia) Hf). cbn [andb].
    assert (H3 : wf3 b0 b1 b2 = false).
    { unfold wf3. rewrite (rng_disj 240 244 224 224 b0 ltac:(lia) Hf), (rng_disj 240 244 225 236 b0 ltac:(lia) Hf),
        (rng_disj 240 244 237 237 b0 ltac:(lia) Hf), (rng_disj 240 244 238 239 b0 ltac:(lia) Hf). reflexivity. }
    rewrite H3, H4. exact IH.
Qed.

Lemma utf8b_utf8_n : forall n s, length s <= n -> utf8b s = true -> utf8 s.
Proof.
  unfold utf8b. induction n as [|n IH]; intros s Hl H.
  - destruct s; [constructor | cbn in Hl; lia].
  - destruct s as [|b0 r]; [constructor|]. cbn [length] in Hl. cbn [utf8_go rune_len] in H.
    destruct (N.ltb (nb b0) 128) eqn:E0.
    + apply U1; [exact E0 | apply IH; [lia | exact H]].
    + destruct r as [|b1 r1]; [cbn in H; discriminate|]. cbn [length] in Hl.
      destruct (wf2 b0 b1) eqn:E2.
      * apply U2; [exact E2 | apply IH; [lia | exact H]].
      * destruct r1 as [|b2 r2]; [cbn in H; discriminate|]. cbn [length] in Hl.
        destruct (wf3 b0 b1 b2) eqn:E3.
        -- apply U3; [exact E3 | apply IH; [lia | exact H]].
        -- destruct r2 as [|b3 r3]; [cbn in H; discriminate|]. cbn [length] in Hl.
           destruct (wf4 b0 b1 b2 b3) eqn:E4; [|cbn in H; discriminate].
           apply U4; [exact E4 | apply IH; [lia | exact H]].
Qed.

Lemma utf8b_iff : forall s, utf8b s = true <-> utf8 s.
Proof.
  intros s. split; [apply (utf8b_utf8_n (length s)); lia | apply utf8_utf8b].
Qed.

(* ---------------------------------------------------------------------------------------- *)
(* the whole vocabulary *)

Section SnipInd.
  Variable P : snip -> Prop.
  Hypothesis HNil : P SNil.
  Hypothesis HBlock : forall b, P (SBlock b).
  Hypothesis HT : forall f args, Forall (fun p => P (snd p)) args -> P (ST f args).
  Hypothesis HSp : forall f args, Forall P args -> P (SSprintf f args).
  Hypothesis HVal : forall a b, P (SVal a b).
  Hypothesis HC : forall v, P (SComment v).
  Hypothesis HD : forall d a, P (SDirective d a).
  Hypothesis HSn : forall l, Forall P l -> P (SSnippets l).
  Hypothesis HF : forall x, P x -> P (SFragments x).
  Hypothesis HO : forall n o, P (SOpaque n o).

  Fixpoint snip_ind' (s : snip) : P s :=
    match s with
    | SNil => HNil
    | SBlock b => HBlock b
    | ST f args =>
        HT f args ((fix go (l : list (bytes * snip)) : Forall (fun p => P (snd p)) l :=
                      match l with
                      | [] => Forall_nil _
                      | (n, v) :: r => Forall_cons (n, v) (snip_ind' v : P (snd (n, v))) (go r)
                      end) args)
    | SSprintf f args =>
        HSp f args ((fix go (l : list snip) : Forall P l :=
                       match l with
                       | [] => Forall_nil _
                       | v :: r => Forall_cons v (snip_ind' v) (go r)
                       end) args)
    | SVal a b => HVal a b
    | SComment v => HC v
    | SDirective d a => HD d a
    | SSnippets l =>
        HSn l ((fix go (l : list snip) : Forall P l :=
                  match l with
                  | [] => Forall_nil _
                  | v :: r => Forall_cons v (snip_ind' v) (go r)
                  end) l)
    | SFragments x => HF x (snip_ind' x)
    | SOpaque n o => HO n o
    end.
End SnipInd.

Lemma view_of_ext : forall (f g : snip -> res bytes) v, f v = g v -> view_of f v = view_of g v.
Proof. intros f g v H. destruct v; cbn; rewrite ?H; reflexivity. Qed.

Lemma sview_of_ext : forall nl (f g : snip -> res bytes) v, f v = g v -> sview_of nl f v = sview_of nl g v.
Proof. intros nl f g v H. destruct v; cbn; rewrite ?H; reflexivity. Qed.

Lemma is_nil_call_fixed : forall c, is_nil_call all_fixed c = Ok (isnil_of c).
Proof. intros c. destruct c; reflexivity. Qed.

Lemma snippets_loop_cons : forall fx fr c r,
  snippets_loop fx fr (c :: r) =
  let! n := is_nil_call fx c in
  if n then snippets_loop fx fr r else emitr (fr c) (snippets_loop fx fr r).
Proof. reflexivity. Qed.

(* the model of the repaired code renders every snippet term to what the specification says, when
   the specification reads formats through text/scanner and a missing value literal is a panic *)
Lemma frag_spec : forall s, frag all_fixed s = spec_frag sc_view Panic s.
Proof.
  induction s as [|b|f args IH|f args IH|a b|v|d a|l IH|x IH|n o] using snip_ind'; try reflexivity.
  - cbn [frag spec_frag]. rewrite tpl_spec. f_equal.
    induction IH as [|p r Hp _ IHr]; [reflexivity|]. cbn [map]. rewrite IHr. f_equal. f_equal.
    apply view_of_ext. exact Hp.
  - cbn [frag spec_frag]. rewrite sp_spec. f_equal.
    induction IH as [|p r Hp _ IHr]; [reflexivity|]. cbn [map]. rewrite IHr. f_equal.
    apply sview_of_ext. exact Hp.
  - cbn [frag spec_frag]. rewrite comment_impl_spec. reflexivity.
  - cbn [frag spec_frag]. rewrite directive_impl_spec. reflexivity.
  - cbn [frag spec_frag]. induction IH as [|c r Hc _ IHr]; [reflexivity|].
    rewrite snippets_loop_cons, is_nil_call_fixed. cbn [bind map]. rewrite cat_res_cons.
    rewrite IHr. destruct (isnil_of c); [rewrite emitr_nil; reflexivity|]. rewrite Hc. reflexivity.
  - cbn [frag spec_frag]. rewrite is_nil_call_fixed. cbn [bind]. rewrite IH. reflexivity.
Qed.

Lemma render_spec : forall s, render all_fixed s = spec_render sc_view Panic s.
Proof.
  intros s. unfold render, spec_render. destruct s; try reflexivity; rewrite frag_spec; reflexivity.
Qed.

(* on the property's domain the specification does not depend on text/scanner nor on the dumper *)
Lemma spec_frag_dom : forall s, fmts_utf8 s = true -> cls_nolit s = false ->
  spec_frag sc_view Panic s = spec_frag same OutOfFuel s.
Proof.
  induction s as [|b|f args IH|f args IH|a b|v|d a|l IH|x IH|n o] using snip_ind';
    intros Hf Hn; try reflexivity.
  - cbn [spec_frag fmts_utf8 cls_nolit] in *. apply andb_true_iff in Hf as [Hf1 Hf2].
    rewrite (sc_view_id _ Hf1). change (same (trim_nl f)) with (trim_nl f). f_equal.
    clear Hf1. revert Hf2 Hn.
    induction IH as [|p r Hp _ IHr]; intros Hf2 Hn; [reflexivity|]. cbn [map forallb existsb] in *.
    apply andb_true_iff in Hf2 as [Ha Hb]. apply orb_false_iff in Hn as [Hc Hd].
    rewrite (IHr Hb Hd). f_equal. f_equal. apply view_of_ext. apply Hp; assumption.
  - cbn [spec_frag fmts_utf8 cls_nolit] in *. apply andb_true_iff in Hf as [Hf1 Hf2].
    rewrite (sc_view_id _ Hf1). change (same f) with f. f_equal.
    clear Hf1. revert Hf2 Hn.
    induction IH as [|p r Hp _ IHr]; intros Hf2 Hn; [reflexivity|]. cbn [map forallb existsb] in *.
    apply andb_true_iff in Hf2 as [Ha Hb]. apply orb_false_iff in Hn as [Hc Hd].
    rewrite (IHr Hb Hd). f_equal.
    destruct p; cbn [sview_of]; try (f_equal; apply Hp; assumption).
    destruct vlit; [reflexivity | cbn in Hc; discriminate].
  - cbn [spec_frag fmts_utf8 cls_nolit] in *. revert Hf Hn.
    induction IH as [|c r Hc _ IHr]; intros Hf Hn; [reflexivity|]. cbn [map forallb existsb] in *.
    apply andb_true_iff in Hf as [Ha Hb]. apply orb_false_iff in Hn as [Hc' Hd].
    rewrite !cat_res_cons, (IHr Hb Hd), (Hc Ha Hc'). reflexivity.
  - cbn [spec_frag fmts_utf8 cls_nolit] in *. rewrite (IH Hf Hn). reflexivity.
Qed.

Lemma render_dom : forall s, fmts_utf8 s = true -> cls_nolit s = false ->
  render all_fixed s = spec_render same OutOfFuel s.
Proof.
  intros s Hf Hn. rewrite render_spec. unfold spec_render. rewrite (spec_frag_dom s Hf Hn). reflexivity.
Qed.

(* Snippets / Fragments, in the words of the property *)
Lemma cat_res_filter : forall (fr : snip -> res bytes) l,
  cat_res (map (fun c => if isnil_of c then Ok [] else fr c) l)
  = cat_res (map fr (filter (fun c => negb (isnil_of c)) l)).
Proof.
  intros fr l. induction l as [|c r IH]; [reflexivity|]. cbn [map filter].
  rewrite cat_res_cons. destruct (isnil_of c); cbn [negb]; [rewrite emitr_nil; exact IH|].
  cbn [map]. rewrite cat_res_cons, IH. reflexivity.
Qed.

Lemma snippets_spec : forall l,
  frag all_fixed (SSnippets l)
  = cat_res (map (frag all_fixed) (filter (fun c => negb (isnil_of c)) l)).
Proof.
  intros l. rewrite <- cat_res_filter. cbn [frag].
  induction l as [|c r IH]; [reflexivity|].
  rewrite snippets_loop_cons, is_nil_call_fixed. cbn [bind map]. rewrite cat_res_cons, IH.
  destruct (isnil_of c); [rewrite emitr_nil|]; reflexivity.
Qed.

Lemma fragments_spec : forall x,
  frag all_fixed (SFragments x) = if isnil_of x then Ok [] else frag all_fixed x.
Proof. intros x. cbn [frag]. rewrite is_nil_call_fixed. reflexivity. Qed.

(* ---------------------------------------------------------------------------------------- *)
(* the statements of Props/C09.v *)

Lemma template_tokens : forall (args : list (bytes * aview)) (f : bytes) (ts : list tok),
  Tokens (sc_view (trim_nl f)) ts -> tpl_impl all_fixed args f = subst args ts.
Proof. intros args f ts H. rewrite (tokens_unique _ _ H). exact (tpl_spec args f). Qed.

Lemma scanner_transparent : forall f, utf8 f -> sc_view f = f.
Proof. intros f Hu. apply sc_view_id. exact (utf8_utf8b _ Hu). Qed.

Lemma template_faithful : forall args f ts,
  utf8 (trim_nl f) -> Tokens (trim_nl f) ts ->
  tpl_impl all_fixed args f = subst args ts.
Proof.
  intros args f ts Hu H. apply template_tokens. rewrite (scanner_transparent _ Hu). exact H.
Qed.

Lemma missing_panics : forall args f n a,
  In (Hole n a) (tokenize (sc_view (trim_nl f))) -> lookup n args = None ->
  is_ok (tpl_impl all_fixed args f) = false.
Proof. intros args f n a Hin Hl. rewrite tpl_spec. exact (subst_missing args _ n a Hin Hl). Qed.

Lemma sprintf_tokens : forall s,
  suntok (stokenize s) = s /\ swf (stokenize s) = true /\
  (forall ts, swf ts = true -> suntok ts = s -> ts = stokenize s).
Proof.
  intros s. split; [apply stok_lossless|]. split; [apply stok_wf|].
  intros ts H1 H2. subst s. symmetry. apply stok_unique. exact H1.
Qed.

Lemma sprintf_panics : forall f (args : list sview),
  (exists c, In (KBad c) (stokenize (sc_view f))) \/ length args < verbs (stokenize (sc_view f)) ->
  is_ok (sp_impl all_fixed f args) = false.
Proof.
  intros f args [[c H]|H]; rewrite sp_spec; [exact (ssubst_bad _ c args H) | exact (ssubst_missing _ args H)].
Qed.

(* ---------------------------------------------------------------------------------------- *)
(* no fuel anywhere: the model never answers OutOfFuel *)

Definition defined (r : res bytes) : bool := match r with OutOfFuel => false | _ => true end.
Definition vdef (v : aview) : bool := match v with AVNil => true | AV _ o => defined o end.
Definition svdef (v : sview) : bool :=
  match v with SVSnip o => defined o | SVRaw a b => defined a && defined b end.

Lemma emitr_defined : forall a b, defined a = true -> defined b = true -> defined (emitr a b) = true.
Proof. intros [x| |] [y| |]; cbn; auto. Qed.

Lemma lookup_forall : forall (P : aview -> bool) n l v,
  forallb (fun p => P (snd p)) l = true -> lookup n l = Some v -> P v = true.
Proof.
  intros P n l v. induction l as [|[k x] r IH]; cbn; intros H E; [discriminate|].
  apply andb_true_iff in H as [H1 H2]. destruct (lookup n r) as [y|] eqn:El.
  - inversion E; subst. apply IH; [exact H2 | reflexivity].
  - destruct (bytes_eqb k n); inversion E; subst. exact H1.
Qed.

Lemma subst_defined : forall args ts,
  forallb (fun p => vdef (snd p)) args = true -> defined (subst args ts) = true.
Proof.
  intros args ts H. induction ts as [|t r IH]; [reflexivity|]. cbn [subst].
  apply emitr_defined; [|exact IH]. destruct t as [c|n a]; cbn [piece]; [reflexivity|].
  destruct (lookup n args) as [v|] eqn:E; [|reflexivity].
  pose proof (lookup_forall vdef _ _ _ H E) as Hv. destruct v as [|isnil o]; [reflexivity|].
  destruct isnil; [reflexivity | exact Hv].
Qed.

Lemma ssubst_defined : forall ts args, forallb svdef args = true -> defined (ssubst ts args) = true.
Proof.
  induction ts as [|t r IH]; intros args H; [reflexivity|]. destruct t; cbn [ssubst].
  - apply (emitr_defined (Ok [c])); [reflexivity | apply IH; exact H].
  - destruct args as [|x args']; [reflexivity|]. cbn [forallb] in H. apply andb_true_iff in H as [H1 H2].
    apply emitr_defined; [|apply IH; exact H2].
    destruct x; cbn [svdef] in H1; [exact H1|]. apply andb_true_iff in H1 as [Ha _]. exact Ha.
  - destruct args as [|x args']; [reflexivity|]. cbn [forallb] in H. apply andb_true_iff in H as [H1 H2].
    apply emitr_defined; [|apply IH; exact H2].
    destruct x; cbn [svdef] in H1; [exact H1|]. apply andb_true_iff in H1 as [_ Hb]. exact Hb.
  - apply (emitr_defined (Ok [c_pct])); [reflexivity | apply IH; exact H].
  - reflexivity.
Qed.

Lemma spec_frag_defined : forall vw s, defined (spec_frag vw Panic s) = true.
Proof.
  intros vw. induction s as [|b|f args IH|f args IH|a b|v|d a|l IH|x IH|n o] using snip_ind';
    try reflexivity.
  - cbn [spec_frag]. apply subst_defined.
    induction IH as [|p r Hp _ IHr]; [reflexivity|]. cbn [map forallb]. rewrite IHr, andb_true_r.
    cbn [snd]. destruct (snd p); try exact Hp; reflexivity.
  - cbn [spec_frag]. apply ssubst_defined.
    induction IH as [|p r Hp _ IHr]; [reflexivity|]. cbn [map forallb]. rewrite IHr, andb_true_r.
    destruct p; try exact Hp. cbn. destruct vlit, tid; reflexivity.
  - cbn [spec_frag]. induction IH as [|c r Hc _ IHr]; [reflexivity|]. cbn [map].
    rewrite cat_res_cons. apply emitr_defined; [|exact IHr]. destruct (isnil_of c); [reflexivity | exact Hc].
  - cbn [spec_frag]. destruct (isnil_of x); [reflexivity | exact IH].
  - destruct o; reflexivity.
Qed.

Lemma render_defined : forall s, render all_fixed s <> OutOfFuel.
Proof.
  intros s H. rewrite render_spec in H. unfold spec_render in H.
  destruct (isnil_of s); [discriminate|]. pose proof (spec_frag_defined sc_view s) as D.
  rewrite H in D. discriminate.
Qed.

(* ---------------------------------------------------------------------------------------- *)
(* the code before the repairs, and the recorded findings *)

Definition Bk (s : string) : aview := AV (is_nil (bs s)) (Ok (bs s)).

(* "%%" re-read the second '%': Sprintf("100%%") panicked, Sprintf("a%%v", 1) rendered a%1 *)
Lemma sprintf_pct_old :
  sp_impl none_fixed (bs "100%%") [] = Panic /\
  sp_impl none_fixed (bs "a%%v") [SVRaw (Ok (bs "1")) Panic] = Ok (bs "a%1") /\
  ssubst (stokenize (bs "100%%")) [] = Ok (bs "100%") /\
  ssubst (stokenize (bs "a%%v")) [SVRaw (Ok (bs "1")) Panic] = Ok (bs "a%v").
Proof. repeat split; vm_compute; reflexivity. Qed.

(* the apostrophe after a placeholder bound to a nil argument was kept *)
Lemma tpl_delim_old :
  tpl_impl none_fixed [(bs "x", Bk "")] (bs "a@x'b") = Ok (bs "a'b") /\
  subst [(bs "x", Bk "")] (tokenize (bs "a@x'b")) = Ok (bs "ab").
Proof. split; vm_compute; reflexivity. Qed.

(* a Go-nil Snippet bound to a name, or inside Snippets / Fragments, was dereferenced *)
Lemma nil_iface_old :
  tpl_impl none_fixed [(bs "x", AVNil)] (bs "a@x") = Panic /\
  subst [(bs "x", AVNil)] (tokenize (bs "a@x")) = Ok (bs "a") /\
  render none_fixed (SSnippets [SBlock (bs "a"); SNil; SBlock (bs "b")]) = Panic /\
  render none_fixed (SFragments SNil) = Panic /\
  spec_render same OutOfFuel (SSnippets [SBlock (bs "a"); SNil; SBlock (bs "b")]) = Ok (bs "ab").
Proof. repeat split; vm_compute; reflexivity. Qed.

(* an '@' that starts no name was dropped (with a following apostrophe) *)
Lemma bare_at_old :
  tpl_impl none_fixed [] (bs "a@ b") = Ok (bs "a b") /\
  tpl_impl none_fixed [] (bs "a@") = Ok (bs "a") /\
  tpl_impl none_fixed [(bs "x", Bk "X")] (bs "@@x") = Ok (bs "X") /\
  tpl_impl none_fixed [] (bs "a@'b") = Ok (bs "ab") /\
  subst [] (tokenize (bs "a@ b")) = Ok (bs "a@ b") /\
  subst [(bs "x", Bk "X")] (tokenize (bs "@@x")) = Ok (bs "@X") /\
  subst [] (tokenize (bs "a@'b")) = Ok (bs "a@'b").
Proof. repeat split; vm_compute; reflexivity. Qed.

(* text/scanner drops one leading U+FEFF: before fixes/C09-5-leading-bom.diff a format lost it (T: after the trimmed
   newlines); the repaired code keeps it on the same witnesses *)
Definition before_bom_fix := mk_fixes true true true true false.
Lemma bom_old :
  exists f, utf8b f = true /\
    tpl_impl before_bom_fix [] f <> subst [] (tokenize (trim_nl f)) /\
    sp_impl before_bom_fix f [] <> ssubst (stokenize f) [] /\
    tpl_impl before_bom_fix [] (c_nl :: f) <> subst [] (tokenize (trim_nl (c_nl :: f))) /\
    tpl_impl all_fixed [] f = subst [] (tokenize (trim_nl f)) /\
    sp_impl all_fixed f [] = ssubst (stokenize f) [].
Proof.
  exists (bom ++ bs "a"). repeat split; vm_compute; congruence.
Qed.

(* known finding value_literal_unavailable: Sprintf("%v", nil) — Value(nil) panics in the dumper *)
Lemma nolit_refuted :
  exists s, fmts_utf8 s = true /\ render all_fixed s = Panic /\ spec_render same OutOfFuel s = OutOfFuel.
Proof.
  exists (SSprintf (bs "%v") [SVal None None]). repeat split; vm_compute; reflexivity.
Qed.
