(* RenderStack: C10's and C11's models of Dumper.TypeLit agree on C10's universe.
   C10 (Model/ValueLit.v) has its own little model of the type literal of a reflect.Type ([type_lit] to a tree with
   package PATHS, [print_ty local] the text); C11 (Model/TypeLit.v) models the real thing through rawNamer and the
   tracker.  Here: on the view [gview t] of a C10 type, C11's model registers exactly the foreign packages of C10's tree,
   left to right, and prints — in every later tracker state — the text C10's printer gives with the tracker's names. *)
Require Import Gengo.Base.Bytes.
Require Import Gengo.Model.RenderStack Gengo.Proofs.RenderStackTracker Gengo.Proofs.RenderStackSnippet Gengo.Proofs.RenderStackLeaves.
Require Gengo.Model.TypeLit Gengo.Proofs.TypeLit Gengo.Model.ValueLit.

Section GotypeInd.
  Variable P : VL.gotype -> Prop.
  Hypothesis Hbool : P VL.TBool.
  Hypothesis Hint : forall k, P (VL.TInt k).
  Hypothesis Hfloat : forall k, P (VL.TFloat k).
  Hypothesis Hstr : P VL.TString.
  Hypothesis Hnamed : forall p n u, P (VL.TNamed p n u).
  Hypothesis Hptr : forall e, P e -> P (VL.TPtr e).
  Hypothesis Hslice : forall e, P e -> P (VL.TSlice e).
  Hypothesis Harray : forall n e, P e -> P (VL.TArray n e).
  Hypothesis Hmap : forall k e, P k -> P e -> P (VL.TMap k e).
  Hypothesis Hstruct : forall fs, Forall (fun f => P (snd f)) fs -> P (VL.TStruct fs).

  Fixpoint gotype_ind' (t : VL.gotype) : P t :=
    match t with
    | VL.TBool => Hbool | VL.TInt k => Hint k | VL.TFloat k => Hfloat k | VL.TString => Hstr
    | VL.TNamed p n u => Hnamed p n u
    | VL.TPtr e => Hptr e (gotype_ind' e)
    | VL.TSlice e => Hslice e (gotype_ind' e)
    | VL.TArray n e => Harray n e (gotype_ind' e)
    | VL.TMap k e => Hmap k e (gotype_ind' k) (gotype_ind' e)
    | VL.TStruct fs =>
        Hstruct fs ((fix go (l : list (bytes * VL.gotype)) : Forall (fun f => P (snd f)) l :=
                       match l with
                       | [] => Forall_nil _
                       | f :: r => Forall_cons f (gotype_ind' (snd f)) (go r)
                       end) fs)
    end.
End GotypeInd.

Lemma parse_c15_ident : forall n, TL.is_ident n = true -> parse_c15 n = Some (TL.TRef [] n TL.TRNil).
Proof.
  intros n H. pose proof (parse_hyp_c15 (TL.TRef [] n TL.TRNil)) as P. cbn [PTL.tref_wf is_nil orb andb] in P.
  rewrite H in P. cbn [TL.tref_string is_nil app] in P. rewrite app_nil_r in P. exact (P eq_refl).
Qed.

Lemma print_fields_cons : forall quote name anon t tag rest,
  TL.print_fields quote (TL.AFCons name anon t tag rest) =
  (if anon then [] else name ++ bs " ") ++ TL.print quote t ++ TL.print_tag quote tag ++ [TL.nl] ++ TL.print_fields quote rest.
Proof. reflexivity. Qed.

Lemma print_struct : forall quote afs, TL.print quote (TL.AStruct afs) = bs "struct {" ++ TL.print_fields quote afs ++ bs "}".
Proof. reflexivity. Qed.

Section Agree.
  Variable pick : bytes -> TL.renv -> option bytes.
  Hypothesis pick_total : forall p e, TL.alookup p e = None -> pick p e <> None.
  Hypothesis pick_nonempty : forall p e n, pick p e = Some n -> n <> [].
  Variable self : bytes.
  Variable cbq : bytes -> bool.
  Variables fe ft : bool.
  Variable quote : bytes -> bytes.

  Notation add_all := (add_all pick).
  Notation type_lit := (TL.type_lit pick parse_c15 self cbq fe ft).
  Notation fields_lit := (TL.fields_lit pick parse_c15 self cbq fe ft).
  Notation foreign := (is_foreign self).

  Definition names_ok (e : TL.renv) : Prop := Forall (fun n => n <> []) (map snd e).

  Lemma tr_add_names_ok : forall p e, names_ok e -> names_ok (TL.tr_add pick p e).
  Proof.
    intros p e H. unfold TL.tr_add. destruct (TL.alookup p e); [exact H|]. destruct (pick p e) as [n|] eqn:E; [|exact H].
    unfold names_ok. rewrite map_app. apply Forall_app. split; [exact H|]. constructor; [eapply pick_nonempty; eauto|constructor].
  Qed.

  Lemma add_all_names_ok : forall ps e, names_ok e -> names_ok (add_all ps e).
  Proof. induction ps as [|p r IH]; intros e H; [exact H|]. cbn. apply IH, tr_add_names_ok, H. Qed.

  Lemma local_name_nonempty : forall p e, names_ok e -> (exists n, TL.alookup p e = Some n) -> TL.local_name_of p e <> [].
  Proof.
    intros p e H [n L]. unfold TL.local_name_of. rewrite L. apply PTL.alookup_in in L.
    unfold names_ok in H. rewrite Forall_forall in H. apply H. apply in_map_iff. exists (p, n). auto.
  Qed.

  (* what is claimed of one type *)
  Definition agrees (t : VL.gotype) : Prop :=
    forall e, names_ok e ->
      exists a, type_lit (gview t) e = Ok (a, add_all (filter foreign (ty_pkgs (VL.type_lit t))) e) /\
                forall e2, ext (add_all (filter foreign (ty_pkgs (VL.type_lit t))) e) e2 ->
                  TL.print quote a = VL.print_ty (local_of self e2) (VL.type_lit t).

  Lemma agrees_basic : forall t, (forall e, type_lit (gview t) e = Ok (TL.raw_ast (VL.kind_name t), e)) ->
    VL.type_lit t = VL.YName [] (VL.kind_name t) -> agrees t.
  Proof.
    intros t Hl Hy e _. rewrite Hy. cbn [ty_pkgs filter]. unfold is_foreign at 1. cbn [is_nil negb andb filter].
    exists (TL.raw_ast (VL.kind_name t)). split; [apply Hl|]. intros e2 _.
    cbn [VL.print_ty]. unfold local_of, is_foreign. cbn [is_nil negb andb].
    unfold TL.raw_ast. destruct (TL.is_ident (VL.kind_name t)); cbn [TL.print is_nil app]; [apply app_nil_r|reflexivity].
  Qed.

  Lemma agrees_wrap : forall (t e' : VL.gotype) (pre : bytes) (wrapA : TL.tyast -> TL.tyast) (wrapY : VL.tyast -> VL.tyast),
    (forall e, type_lit (gview t) e = (let! (a, e1) := type_lit (gview e') e in Ok (wrapA a, e1))) ->
    VL.type_lit t = wrapY (VL.type_lit e') ->
    ty_pkgs (wrapY (VL.type_lit e')) = ty_pkgs (VL.type_lit e') ->
    (forall a, TL.print quote (wrapA a) = pre ++ TL.print quote a) ->
    (forall local y, VL.print_ty local (wrapY y) = pre ++ VL.print_ty local y) ->
    agrees e' -> agrees t.
  Proof.
    intros t e' pre wrapA wrapY Hl Hy Hp HA HY IH e Hn. rewrite Hy, Hp.
    destruct (IH e Hn) as (a & E & S). exists (wrapA a). split.
    - rewrite (Hl e), E. reflexivity.
    - intros e2 X. rewrite HA, HY, (S e2 X). reflexivity.
  Qed.

  Theorem type_lit_agree : forall t, ty_okb t = true -> agrees t.
  Proof.
    induction t as [|k|k| |p n u|e IH|e IH|n e IH|k e IHk IHe|fs IH] using gotype_ind'; intros Hok.
    - apply agrees_basic; reflexivity.
    - apply agrees_basic; reflexivity.
    - apply agrees_basic; reflexivity.
    - apply agrees_basic; reflexivity.
    - (* a named type: rawNamer.Name *)
      cbn [ty_okb] in Hok. apply andb_true_iff in Hok. destruct Hok as [Hp Hn].
      intros e He. cbn [gview VL.type_lit ty_pkgs filter TL.type_lit].
      unfold TL.namer_name, TL.process_name. rewrite (parse_c15_ident n Hn). cbn [bind].
      assert (Nn : n <> []) by (intros ->; discriminate).
      unfold is_foreign. rewrite Hp. cbn [andb]. destruct (bytes_eqb p self) eqn:Es; cbn [negb filter].
      + exists (TL.ANamed [] n TL.ANil). split.
        * destruct n as [|c r]; [congruence|]. reflexivity.
        * intros e2 _. cbn [TL.print VL.print_ty is_nil app]. unfold local_of, is_foreign. rewrite Hp, Es. cbn [negb andb].
          apply app_nil_r.
      + cbv zeta. cbn [RenderStack.add_all fold_left].
        set (e1 := TL.tr_add pick p e).
        assert (Q : TL.local_name_of p e1 <> []).
        { apply local_name_nonempty; [apply tr_add_names_ok, He|apply (tr_add_bound pick pick_total)]. }
        exists (TL.ANamed (TL.local_name_of p e1) n TL.ANil). split.
        * unfold TL.named_ast. destruct (TL.local_name_of p e1) eqn:El; [congruence|]. reflexivity.
        * intros e2 X. cbn [TL.print VL.print_ty].
          assert (L2 : local_of self e2 p = TL.local_name_of p e1).
          { unfold local_of, is_foreign. rewrite Hp, Es. cbn [negb andb].
            exact (proj2 (step_stable pick pick_total p e e2 X)). }
          rewrite L2. destruct (TL.local_name_of p e1) eqn:El; [congruence|]. cbn [is_nil].
          rewrite <- app_assoc. cbn [app]. rewrite app_nil_r. reflexivity.
    - cbn [ty_okb] in Hok. eapply (agrees_wrap _ e (bs "*") TL.AStar VL.YPtr); try reflexivity; auto.
    - cbn [ty_okb] in Hok. eapply (agrees_wrap _ e (bs "[]") TL.ASlice VL.YSlice); try reflexivity; auto.
    - cbn [ty_okb] in Hok. apply andb_true_iff in Hok. destruct Hok as [Hd Hok]. apply bytes_eqb_spec in Hd.
      eapply (agrees_wrap _ e (bs "[" ++ VL.dec_nat n ++ bs "]") (TL.AArray (N.of_nat n)) (VL.YArray n)); try reflexivity; auto.
      + intros a. cbn [TL.print]. rewrite Hd. unfold TL.lbrack, TL.rbrack. rewrite <- !app_assoc. reflexivity.
      + intros local y. cbn [VL.print_ty]. rewrite <- !app_assoc. reflexivity.
    - cbn [ty_okb] in Hok. apply andb_true_iff in Hok. destruct Hok as [Hk He].
      intros e0 Hn. cbn [gview VL.type_lit ty_pkgs].
      change (type_lit (TL.VMap (gview k) (gview e)) e0) with
        (let! (ak, e1) := type_lit (gview k) e0 in let! (ax, e2) := type_lit (gview e) e1 in Ok (TL.AMap ak ax, e2)).
      destruct (IHk Hk e0 Hn) as (ak & Ek & Sk). rewrite Ek. cbn [bind].
      set (e1 := add_all (filter foreign (ty_pkgs (VL.type_lit k))) e0) in *.
      destruct (IHe He e1 (add_all_names_ok _ _ Hn)) as (ax & Ex & Sx). rewrite Ex. cbn [bind].
      rewrite filter_app, (add_all_app pick). fold e1.
      exists (TL.AMap ak ax). split; [reflexivity|]. intros e2 X.
      assert (X1 : ext e1 e2) by (eapply PTL.ext_trans; [apply (add_all_ext pick)|exact X]).
      cbn [TL.print VL.print_ty]. rewrite (Sk e2 X1), (Sx e2 X). reflexivity.
    - cbn [ty_okb] in Hok. rewrite forallb_forall in Hok.
      intros e0 Hn. cbn [VL.type_lit].
      (* the field list *)
      assert (FL : forall e, names_ok e ->
                exists afs, fields_lit ((fix go (l : list (bytes * VL.gotype)) : TL.vfields :=
                                           match l with
                                           | [] => TL.VFNil
                                           | f :: r => TL.VFCons (fst f) false (gview (snd f)) [] (go r)
                                           end) fs) e
                            = Ok (afs, add_all (filter foreign (flat_map (fun f => ty_pkgs (VL.type_lit (snd f))) fs)) e) /\
                            forall e2, ext (add_all (filter foreign (flat_map (fun f => ty_pkgs (VL.type_lit (snd f))) fs)) e) e2 ->
                              TL.print_fields quote afs
                              = concat (map (fun f => fst f ++ bs " " ++ VL.print_ty (local_of self e2) (snd f) ++ [VL.nl])
                                            (map (fun f => (fst f, VL.type_lit (snd f))) fs))).
      { clear e0 Hn. induction IH as [|f r Hf _ IHr]; intros e Hn.
        - exists TL.AFNil. split; [reflexivity|]. intros; reflexivity.
        - assert (Hokf : ty_okb (snd f) = true) by (apply Hok; left; reflexivity).
          assert (Hokr : forall x, In x r -> ty_okb (snd x) = true) by (intros x Hx; apply Hok; right; exact Hx).
          destruct (Hf Hokf e Hn) as (a & Ea & Sa).
          set (e1 := add_all (filter foreign (ty_pkgs (VL.type_lit (snd f)))) e) in *.
          destruct (IHr Hokr e1 (add_all_names_ok _ _ Hn)) as (ar & Er & Sr).
          exists (TL.AFCons (fst f) false a TL.NoTag ar). split.
          + change (fields_lit (TL.VFCons (fst f) false (gview (snd f)) []
                      ((fix go (l : list (bytes * VL.gotype)) : TL.vfields :=
                          match l with
                          | [] => TL.VFNil
                          | f0 :: r0 => TL.VFCons (fst f0) false (gview (snd f0)) [] (go r0)
                          end) r)) e)
              with (let! (a0, e1') := type_lit (gview (snd f)) e in
                    let! (r0, e2') := fields_lit ((fix go (l : list (bytes * VL.gotype)) : TL.vfields :=
                                                     match l with
                                                     | [] => TL.VFNil
                                                     | f0 :: r0 => TL.VFCons (fst f0) false (gview (snd f0)) [] (go r0)
                                                     end) r) e1' in
                    Ok (TL.AFCons (fst f) false a0 (TL.tag_lit cbq ft []) r0, e2')).
            rewrite Ea. cbn [bind]. fold e1. rewrite Er. cbn [bind flat_map]. rewrite filter_app, (add_all_app pick). reflexivity.
          + intros e2 X. cbn [flat_map] in X. rewrite filter_app, (add_all_app pick) in X. fold e1 in X.
            assert (X1 : ext e1 e2) by (eapply PTL.ext_trans; [apply (add_all_ext pick)|exact X]).
            rewrite print_fields_cons, (Sa e2 X1), (Sr e2 X). cbn [map concat fst snd TL.print_tag].
            rewrite <- !app_assoc. reflexivity. }
      destruct (FL e0 Hn) as (afs & Ef & Sf).
      exists (TL.AStruct afs). split.
      + change (ty_pkgs (VL.YStruct (map (fun f => (fst f, VL.type_lit (snd f))) fs)))
          with (flat_map (fun f => ty_pkgs (snd f)) (map (fun f => (fst f, VL.type_lit (snd f))) fs)).
        rewrite flat_map_concat_map, map_map, <- flat_map_concat_map. cbn [snd].
        change (type_lit (gview (VL.TStruct fs)) e0)
          with (let! (x, e1) := fields_lit ((fix go (l : list (bytes * VL.gotype)) : TL.vfields :=
                                               match l with
                                               | [] => TL.VFNil
                                               | f :: r => TL.VFCons (fst f) false (gview (snd f)) [] (go r)
                                               end) fs) e0 in Ok (TL.AStruct x, e1)).
        rewrite Ef. reflexivity.
      + intros e2 X.
        change (ty_pkgs (VL.YStruct (map (fun f => (fst f, VL.type_lit (snd f))) fs)))
          with (flat_map (fun f => ty_pkgs (snd f)) (map (fun f => (fst f, VL.type_lit (snd f))) fs)) in X.
        rewrite flat_map_concat_map, map_map, <- flat_map_concat_map in X. cbn [snd] in X.
        rewrite print_struct, (Sf e2 X). reflexivity.
  Qed.
End Agree.
