(* C18's reading of Dumper.TypeLit coincides with C11's model (Model/TypeLit.v) on the common domain. *)
Require Import Gengo.Base.Bytes.
Require Import Gengo.Model.GeneratorsTypes.

Lemma alookup_app_some {A} : forall p (e s : list (bytes * A)) n, TL.alookup p e = Some n -> TL.alookup p (e ++ s) = Some n.
Proof.
  intros p e s n. induction e as [|[k v] e IH]; cbn; [discriminate|].
  destruct (bytes_eqb p k); [auto|apply IH].
Qed.

Lemma alookup_app_none {A} : forall p (e s : list (bytes * A)), TL.alookup p e = None -> TL.alookup p (e ++ s) = TL.alookup p s.
Proof.
  intros p e s. induction e as [|[k v] e IH]; cbn; [reflexivity|].
  destruct (bytes_eqb p k); [discriminate|apply IH].
Qed.

Lemma local_name_ext : forall p e s, TL.alookup p e <> None -> TL.local_name_of p (e ++ s) = TL.local_name_of p e.
Proof.
  intros p e s H. unfold TL.local_name_of. destruct (TL.alookup p e) as [n|] eqn:E; [|contradiction].
  rewrite (alookup_app_some p e s n E). reflexivity.
Qed.

Lemma is_ident_nonempty : forall n, TL.is_ident n = true -> n <> [].
Proof. intros n H E. subst n. discriminate H. Qed.

Section Agree.
  Variable pick : bytes -> TL.renv -> option bytes.
  Variable parse_tref : bytes -> option TL.tref.
  Variable target : bytes.
  Variable can_backquote : bytes -> bool.
  Variable fx_tag : bool.
  Variable c : PS.cfg.

  (* C15: an identifier is a type reference without package and without type arguments *)
  Hypothesis Hparse : forall n, TL.is_ident n = true -> parse_tref n = Some (TL.TRef [] n TL.TRNil).
  (* C03: the tracker finds a non-empty name for a path it has not seen *)
  Hypothesis Hpick : forall p e, TL.alookup p e = None -> exists n, pick p e = Some n /\ n <> [].

  Notation tl := (TL.type_lit pick parse_tref target can_backquote (PS.fx_errlit c) fx_tag).

  Lemma tr_add_spec : forall p e, env_ok e ->
    exists suf, TL.tr_add pick p e = e ++ suf /\ env_ok (TL.tr_add pick p e) /\ TL.alookup p (TL.tr_add pick p e) <> None /\
                (forall q, TL.alookup q (TL.tr_add pick p e) <> None -> TL.alookup q e <> None \/ q = p).
  Proof.
    intros p e He. unfold TL.tr_add. destruct (TL.alookup p e) as [n|] eqn:E.
    - exists []. rewrite app_nil_r. split; [reflexivity|]. split; [exact He|]. split; [congruence|]. auto.
    - destruct (Hpick p e E) as [n [Hp Hn]]. rewrite Hp. exists [(p, n)]. split; [reflexivity|]. split; [|split].
      + intros q m Hq. destruct (TL.alookup q e) as [m'|] eqn:Eq.
        * rewrite (alookup_app_some q e _ m' Eq) in Hq. inversion Hq; subst. eapply He; eauto.
        * rewrite (alookup_app_none q e _ Eq) in Hq. cbn in Hq. destruct (bytes_eqb q p); [|discriminate].
          inversion Hq; subst. exact Hn.
      + rewrite (alookup_app_none p e _ E). cbn. rewrite bytes_eqb_refl. discriminate.
      + intros q Hq. destruct (TL.alookup q e) eqn:Eq; [left; discriminate|].
        rewrite (alookup_app_none q e _ Eq) in Hq. cbn in Hq. destruct (bytes_eqb q p) eqn:Eb; [|contradiction].
        right. apply bytes_eqb_spec. exact Eb.
  Qed.

  Lemma foreign_map : forall k v, foreign18 target (PS.TMap k v) = foreign18 target k ++ foreign18 target v.
  Proof. intros. unfold foreign18. cbn [PS.ty_pkgs]. apply filter_app. Qed.

  Theorem type_lit_agree : forall t, wf18 t = true -> forall e, env_ok e ->
    exists a e' suf,
      tl (view18 t) e = Ok (a, e') /\ e' = e ++ suf /\ env_ok e' /\
      (forall p, In p (foreign18 target t) -> TL.alookup p e' <> None) /\
      (forall p, TL.alookup p e' <> None -> TL.alookup p e <> None \/ In p (foreign18 target t)) /\
      (forall L, (forall p, In p (foreign18 target t) -> L p = TL.local_name_of p e') ->
                 a = ast18 (fst (PS.type_lit L target c t))).
  Proof.
    induction t as [n| | |pkg name u ms|x IH|x IH|len x IH|k IHk v IHv|txt|ap an ar IHa]; intros Hwf e He; cbn [wf18] in Hwf.
    - (* basic *)
      exists (TL.ANamed [] n TL.ANil), e, []. rewrite app_nil_r. cbn [view18 TL.type_lit]. unfold TL.raw_ast. rewrite Hwf.
      repeat split; auto; try (intros p []).
    - exists (TL.ANamed [] (bs "any") TL.ANil), e, []. rewrite app_nil_r. cbn [view18 TL.type_lit].
      replace (bytes_eqb [] (bs "error")) with false by reflexivity. rewrite andb_false_r.
      repeat split; auto; try (intros p []).
    - exists (TL.ANamed [] (if PS.fx_errlit c then bs "error" else bs "any") TL.ANil), e, []. rewrite app_nil_r.
      cbn [view18 TL.type_lit]. rewrite bytes_eqb_refl, andb_true_r.
      split; [destruct (PS.fx_errlit c); reflexivity|]. repeat split; auto; try (intros p []).
    - (* named *)
      apply andb_true_iff in Hwf. destruct Hwf as [Hpk Hid].
      cbn [view18 TL.type_lit]. unfold TL.namer_name, TL.process_name. rewrite (Hparse name Hid). cbn [bind].
      unfold foreign18. cbn [PS.ty_pkgs filter PS.type_lit].
      destruct (bytes_eqb pkg target) eqn:Ep; cbn [negb].
      + assert (Hne : name <> []) by (apply is_ident_nonempty; exact Hid).
        exists (TL.ANamed [] name TL.ANil), e, []. rewrite app_nil_r. split.
        { destruct name; [contradiction|reflexivity]. }
        repeat split; auto; try (intros p []).
      + destruct (tr_add_spec pkg e He) as [suf [Hs [He2 [Hreg Hnew]]]].
        exists (TL.ANamed (TL.local_name_of pkg (TL.tr_add pick pkg e)) name TL.ANil), (TL.tr_add pick pkg e), suf.
        assert (Hq : TL.local_name_of pkg (TL.tr_add pick pkg e) <> []).
        { unfold TL.local_name_of. destruct (TL.alookup pkg (TL.tr_add pick pkg e)) as [m|] eqn:El; [|contradiction].
          eapply He2. exact El. }
        split.
        { unfold TL.named_ast. cbn [andb]. destruct (TL.local_name_of pkg (TL.tr_add pick pkg e)); [contradiction|reflexivity]. }
        split; [exact Hs|]. split; [exact He2|]. split; [|split].
        * intros p [<-|Hf]; [exact Hreg|destruct Hf].
        * intros p Hp. destruct (Hnew p Hp) as [H| ->]; [left; exact H|right; left; reflexivity].
        * intros L HL. cbn [fst ast18]. rewrite (HL pkg (or_introl eq_refl)). reflexivity.
    - destruct (IH Hwf e He) as [a [e' [suf [H1 [H2 [H3 [H4 [H5 H6]]]]]]]].
      exists (TL.AStar a), e', suf. cbn [view18 TL.type_lit]. rewrite H1. cbn [bind].
      split; [reflexivity|]. split; [exact H2|]. split; [exact H3|]. split; [exact H4|]. split; [exact H5|].
      intros L HL. cbn [PS.type_lit]. rewrite (H6 L HL). destruct (PS.type_lit L target c x). reflexivity.
    - destruct (IH Hwf e He) as [a [e' [suf [H1 [H2 [H3 [H4 [H5 H6]]]]]]]].
      exists (TL.ASlice a), e', suf. cbn [view18 TL.type_lit]. rewrite H1. cbn [bind].
      split; [reflexivity|]. split; [exact H2|]. split; [exact H3|]. split; [exact H4|]. split; [exact H5|].
      intros L HL. cbn [PS.type_lit]. rewrite (H6 L HL). destruct (PS.type_lit L target c x). reflexivity.
    - destruct (IH Hwf e He) as [a [e' [suf [H1 [H2 [H3 [H4 [H5 H6]]]]]]]].
      exists (TL.AArray len a), e', suf. cbn [view18 TL.type_lit]. rewrite H1. cbn [bind].
      split; [reflexivity|]. split; [exact H2|]. split; [exact H3|]. split; [exact H4|]. split; [exact H5|].
      intros L HL. cbn [PS.type_lit]. rewrite (H6 L HL). destruct (PS.type_lit L target c x). reflexivity.
    - (* map: the key is rendered first, the tracker state flows into the element *)
      apply andb_true_iff in Hwf. destruct Hwf as [Hk Hv].
      destruct (IHk Hk e He) as [ak [e1 [s1 [K1 [K2 [K3 [K4 [K5 K6]]]]]]]].
      destruct (IHv Hv e1 K3) as [av [e2 [s2 [V1 [V2 [V3 [V4 [V5 V6]]]]]]]].
      exists (TL.AMap ak av), e2, (s1 ++ s2). cbn [view18 TL.type_lit]. rewrite K1. cbn [bind]. rewrite V1. cbn [bind].
      split; [reflexivity|]. split; [rewrite V2, K2, app_assoc; reflexivity|]. split; [exact V3|].
      rewrite foreign_map. split; [|split].
      + intros p Hp. apply in_app_or in Hp. destruct Hp as [Hp|Hp]; [|apply V4; exact Hp].
        specialize (K4 p Hp). rewrite V2. destruct (TL.alookup p e1) as [m|] eqn:El; [|contradiction].
        rewrite (alookup_app_some p e1 s2 m El). discriminate.
      + intros p Hp. destruct (V5 p Hp) as [H|H]; [|right; apply in_or_app; right; exact H].
        destruct (K5 p H) as [H'|H']; [left; exact H'|right; apply in_or_app; left; exact H'].
      + intros L HL. cbn [PS.type_lit].
        rewrite (K6 L), (V6 L).
        * destruct (PS.type_lit L target c k). destruct (PS.type_lit L target c v). reflexivity.
        * intros p Hp. apply HL. apply in_or_app. right. exact Hp.
        * intros p Hp. rewrite (HL p (in_or_app _ _ _ (or_introl Hp))). rewrite V2. apply local_name_ext. apply K4. exact Hp.
    - exists (TL.ANamed [] (bs "any") TL.ANil), e, []. rewrite app_nil_r. cbn [view18 TL.type_lit].
      replace (bytes_eqb [] (bs "error")) with false by reflexivity. rewrite andb_false_r.
      repeat split; auto; try (intros p []).
    - (* alias: both readings go to the right-hand side *)
      exact (IHa Hwf e He).
  Qed.
End Agree.

(* the hypotheses in C11's own vocabulary (Proofs/TypeLit.v), and discharged by C03's tracker and C15's parser *)
Require Gengo.Proofs.TypeLit Gengo.Model.RenderStack Gengo.Proofs.RenderStackTracker Gengo.Proofs.RenderStackConcrete.
Module PTL := Gengo.Proofs.TypeLit.
Module RS := Gengo.Model.RenderStack.

Theorem type_lit_agree_c11 : forall pick parse_tref target can_backquote fx_tag c,
  PTL.tracker_hyps pick -> PTL.parse_hyp parse_tref ->
  forall t, wf18 t = true -> forall e, env_ok e ->
    exists a e' suf,
      TL.type_lit pick parse_tref target can_backquote (PS.fx_errlit c) fx_tag (view18 t) e = Ok (a, e') /\
      e' = e ++ suf /\ env_ok e' /\
      (forall p, In p (foreign18 target t) -> TL.alookup p e' <> None) /\
      (forall p, TL.alookup p e' <> None -> TL.alookup p e <> None \/ In p (foreign18 target t)) /\
      (forall L, (forall p, In p (foreign18 target t) -> L p = TL.local_name_of p e') ->
                 a = ast18 (fst (PS.type_lit L target c t))).
Proof.
  intros pick parse_tref target cbq fx_tag c [_ [Hne Hsome]] Hparse.
  apply type_lit_agree.
  - intros n Hid. specialize (Hparse (TL.TRef [] n TL.TRNil)). cbn in Hparse. rewrite app_nil_r in Hparse.
    apply Hparse. rewrite Hid. reflexivity.
  - intros p e Hl. destruct (pick p e) as [n|] eqn:Ep; [|exfalso; eapply Hsome; eauto].
    exists n. split; [reflexivity|]. eapply Hne. exact Ep.
Qed.

Theorem type_lit_agree_concrete : forall pre std target can_backquote fx_tag c,
  forall t, wf18 t = true -> forall e, env_ok e ->
    exists a e' suf,
      TL.type_lit (RS.pick_c03 pre std) RS.parse_c15 target can_backquote (PS.fx_errlit c) fx_tag (view18 t) e = Ok (a, e') /\
      e' = e ++ suf /\ env_ok e' /\
      (forall p, In p (foreign18 target t) -> TL.alookup p e' <> None) /\
      (forall p, TL.alookup p e' <> None -> TL.alookup p e <> None \/ In p (foreign18 target t)) /\
      (forall L, (forall p, In p (foreign18 target t) -> L p = TL.local_name_of p e') ->
                 a = ast18 (fst (PS.type_lit L target c t))).
Proof.
  intros pre std target cbq fx_tag c. apply type_lit_agree_c11.
  - apply Gengo.Proofs.RenderStackTracker.tracker_hyps_c03.
  - apply Gengo.Proofs.RenderStackTracker.parse_hyp_c15.
Qed.

(* non-vacuity: map[string]origin.Inner through the empty tracker state *)
Lemma type_lit_agree_example :
  let t := PS.TMap (PS.TBasic (bs "string")) (PS.TNamed (bs "example.com/m/origin") (bs "Inner") PS.UStruct []) in
  wf18 t = true /\ env_ok [] /\
  exists e', TL.type_lit RS.the_pick RS.parse_c15 (bs "example.com/m/target") (fun _ => true) true true (view18 t) []
             = Ok (ast18 (PS.OMap (PS.OIdent (bs "string")) (PS.OSel (bs "origin") (bs "Inner"))), e')
             /\ TL.local_name_of (bs "example.com/m/origin") e' = bs "origin".
Proof.
  cbn zeta. split; [reflexivity|]. split; [intros p n H; discriminate|].
  eexists. split; vm_compute; reflexivity.
Qed.
