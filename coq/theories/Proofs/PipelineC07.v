(* The C07 theorems about a successful run: a generator's file exists iff it rendered something (or signalled
   ErrIgnore and had one), stale files are removed, and the non-All restriction. *)
Require Import Gengo.Base.Bytes Gengo.Model.Pipeline Gengo.Spec.PipelineSpec Gengo.Proofs.Pipeline Gengo.Proofs.PipelinePkg.
From Coq Require Import Permutation.

Section C07.
Variable E : env.

Definition signalled_ignore (g : generator) (p : pkginfo) : bool :=
  existsb ev_is_ignore (go_trace (gen_run E g p)).

Lemma call_loop_ignore : e_fixed E = true -> forall g p tys st,
  ro_out (call_loop E g p st tys) = Done ->
  ro_ignore (call_loop E g p st tys) = existsb ev_is_ignore (ro_trace (call_loop E g p st tys)).
Proof.
  intros Hfix g p tys. induction tys as [|t r IH]; intros st Hout; cbn [call_loop] in *; [reflexivity|].
  destruct (should_call E g p t); [|apply IH; exact Hout].
  destruct (g_type g st p t) as [st' o]. destruct (so_res o) eqn:Hres; cbn [ro_out ro_ignore ro_trace] in *;
    try discriminate Hout; cbn [existsb ev_is_ignore sets_ignore].
  - rewrite IH by exact Hout. reflexivity.
  - rewrite IH by exact Hout. reflexivity.
  - rewrite Hfix. destruct (ty_kind t); reflexivity.
Qed.

Lemma defer_loop_no_ignore : forall fuel g p ids st,
  existsb ev_is_ignore (ro_trace (defer_loop fuel g p st ids)) = false.
Proof.
  intros fuel g p. induction fuel as [|fuel IH]; intros ids st;
    (destruct ids as [|i r]; cbn [defer_loop]; [reflexivity|]); [reflexivity|].
  destruct (g_defer g st p i) as [st' o]. destruct (so_res o); cbn [ro_trace existsb ev_is_ignore]; try reflexivity.
  apply IH.
Qed.

Lemma gen_run_ignore : e_fixed E = true -> forall g p,
  go_out (gen_run E g p) = Done -> go_ignore (gen_run E g p) = signalled_ignore g p.
Proof.
  intros Hfix g p Hout. unfold signalled_ignore. unfold gen_run in *.
  destruct (ro_out (call_loop E g p (g_new g p) (sort_by ty_name (pk_types p)))) eqn:Hc;
    cbn [go_out go_ignore go_trace] in *; try discriminate Hout.
  rewrite existsb_app, defer_loop_no_ignore, orb_false_r. apply call_loop_ignore; assumption.
Qed.

(* the flag is never set without the signal, fixed or not *)
Lemma call_loop_ignore_sound : forall g p tys st,
  ro_ignore (call_loop E g p st tys) = true -> existsb ev_is_ignore (ro_trace (call_loop E g p st tys)) = true.
Proof.
  intros g p tys. induction tys as [|t r IH]; intros st H; cbn [call_loop] in *; [discriminate H|].
  destruct (should_call E g p t); [|apply IH; exact H].
  destruct (g_type g st p t) as [st' o]. destruct (so_res o) eqn:Hres; cbn [ro_ignore ro_trace] in *;
    try discriminate H; cbn [existsb ev_is_ignore sets_ignore] in *.
  - apply IH. exact H.
  - apply IH. exact H.
  - reflexivity.
Qed.

(* ---------- a processed package after a successful run ---------- *)

Lemma processed_split : forall a w s p,
  processed E a w s p = true -> selected a w p = true /\ pkg_changed a w (load_prev E a w s) p = true.
Proof. intros a w s p H. unfold processed in H. apply andb_true_iff in H. exact H. Qed.

Lemma processed_pkg_effects : forall a w gens s p,
  In p (w_pkgs w) -> processed E a w s p = true -> exec_outcome E a w gens s = Done ->
  pkg_execute E a w gens (load_prev E a w s) p = pkg_effects E a gens p /\ snd (pkg_effects E a gens p) = Done.
Proof.
  intros a w gens s p Hp Hpr Hdone. destruct (processed_split _ _ _ _ Hpr) as [Hsel Hch].
  assert (Heq : pkg_execute E a w gens (load_prev E a w s) p = pkg_effects E a gens p).
  { unfold pkg_execute. rewrite Hch. reflexivity. }
  split; [exact Heq|]. rewrite <- Heq.
  unfold exec_outcome, run_all in Hdone.
  apply (proj1 (run_pkgs_done_iff E a w gens (load_prev E a w s) (sorted_pkgs w)) Hdone).
  - apply sort_by_In. exact Hp.
  - exact Hsel.
Qed.

Lemma gen_file_not_sum : forall a w p n, gen_file a p n <> sum_path w.
Proof.
  intros a w p n H. unfold gen_file, sum_path in H. inversion H as [[H1 H2]]. exact (fname_ne_sum a n H2).
Qed.

(* the bytes at a generator's path after a successful run, in closed form *)
Lemma generator_file_after : forall a w gens s p g,
  order_ok E -> NoDup (map g_name gens) -> world_ok w ->
  exec_outcome E a w gens s = Done ->
  In p (w_pkgs w) -> processed E a w s p = true -> In g gens ->
  fs_lookup (gen_file a p (g_name g)) (exec_fs E a w gens s) =
    (if negb (is_nil (go_body (gen_run E g p))) then e_fmt E (assemble (pk_name p) (g_name g) (go_body (gen_run E g p)))
     else if go_ignore (gen_run E g p) then fs_lookup (gen_file a p (g_name g)) s
     else if mem_bytes (fname a (g_name g)) (pk_files p) then None
     else fs_lookup (gen_file a p (g_name g)) s)
  /\ (go_body (gen_run E g p) <> [] ->
      e_fmt E (assemble (pk_name p) (g_name g) (go_body (gen_run E g p))) <> None)
  /\ go_out (gen_run E g p) = Done.
Proof.
  intros a w gens s p g Hord Hnd Hok Hdone Hp Hpr Hg.
  destruct (processed_split _ _ _ _ Hpr) as [Hsel _].
  destruct (processed_pkg_effects a w gens s p Hp Hpr Hdone) as [Heq Hpd].
  unfold gen_file at 1.
  rewrite (exec_local E a w gens s p (fname a (g_name g)) Hok Hp Hsel Hdone) by apply gen_file_not_sum.
  rewrite Heq. destruct (pkg_effects E a gens p) as [[effs tr] out] eqn:Hpe. cbn [snd fst] in *. subst out.
  destruct (pkg_effects_done E a gens p effs tr Hord Hnd Hpe s) as [H1 [H2 _]].
  split; [apply H1; exact Hg | split; [apply H2; exact Hg|]].
  unfold pkg_effects in Hpe. destruct (gen_phase E gens p) as [[gfs tr0] out0] eqn:Hgp.
  destruct out0; try (inversion Hpe; fail).
  - destruct (gen_phase_done E _ _ _ _ Hgp) as [_ Hall]. apply Hall. exact Hg.
Qed.

Theorem exists_iff : forall a w gens s p g,
  e_fixed E = true -> order_ok E -> NoDup (map g_name gens) -> world_ok w ->
  exec_outcome E a w gens s = Done ->
  In p (w_pkgs w) -> processed E a w s p = true -> In g gens ->
  (fs_lookup (gen_file a p (g_name g)) s <> None -> In (fname a (g_name g)) (pk_files p)) ->
  (fs_lookup (gen_file a p (g_name g)) (exec_fs E a w gens s) <> None
   <-> go_body (gen_run E g p) <> [] \/
       (signalled_ignore g p = true /\ fs_lookup (gen_file a p (g_name g)) s <> None)).
Proof.
  intros a w gens s p g Hfix Hord Hnd Hok Hdone Hp Hpr Hg Hlist.
  destruct (generator_file_after a w gens s p g Hord Hnd Hok Hdone Hp Hpr Hg) as [Hlk [Hfmt Hgo]].
  rewrite Hlk. rewrite <- (gen_run_ignore Hfix g p Hgo).
  destruct (go_body (gen_run E g p)) as [|c b] eqn:Hb; cbn [is_nil negb].
  - destruct (go_ignore (gen_run E g p)).
    + split; [intros H; right; split; [reflexivity | exact H] | intros [H|[_ H]]; [contradiction | exact H]].
    + destruct (mem_bytes (fname a (g_name g)) (pk_files p)) eqn:Hm.
      * split; [intros H; contradiction | intros [H|[H _]]; [contradiction | discriminate H]].
      * split.
        -- intros H. exfalso. apply Hlist in H. apply mem_bytes_In in H. congruence.
        -- intros [H|[H _]]; [contradiction | discriminate H].
  - split; [intros _; left; discriminate | intros _; apply Hfmt; discriminate].
Qed.

Theorem written_content : forall a w gens s p g,
  order_ok E -> NoDup (map g_name gens) -> world_ok w ->
  exec_outcome E a w gens s = Done ->
  In p (w_pkgs w) -> processed E a w s p = true -> In g gens ->
  go_body (gen_run E g p) <> [] ->
  exists out, e_fmt E (assemble (pk_name p) (g_name g) (go_body (gen_run E g p))) = Some out /\
              fs_lookup (gen_file a p (g_name g)) (exec_fs E a w gens s) = Some out.
Proof.
  intros a w gens s p g Hord Hnd Hok Hdone Hp Hpr Hg Hne.
  destruct (generator_file_after a w gens s p g Hord Hnd Hok Hdone Hp Hpr Hg) as [Hlk [Hfmt _]].
  specialize (Hfmt Hne). rewrite Hlk.
  destruct (go_body (gen_run E g p)) as [|c b] eqn:Hb; [contradiction|]. cbn [is_nil negb].
  destruct (e_fmt E (assemble (pk_name p) (g_name g) (c :: b))) as [out|]; [|contradiction].
  exists out. split; reflexivity.
Qed.

Theorem stale_removed : forall a w gens s p f,
  order_ok E -> NoDup (map g_name gens) -> world_ok w -> files_ok w ->
  exec_outcome E a w gens s = Done ->
  In p (w_pkgs w) -> processed E a w s p = true ->
  In f (pk_files p) -> prefixb (out_prefix a) f = true ->
  (~ exists g, In g gens /\ kept E g p = true /\ f = fname a (g_name g)) ->
  fs_lookup (pk_dir p, f) (exec_fs E a w gens s) = None.
Proof.
  intros a w gens s p f Hord Hnd Hok Hfiles Hdone Hp Hpr Hf Hpre Hnone.
  destruct (processed_split _ _ _ _ Hpr) as [Hsel _].
  destruct (processed_pkg_effects a w gens s p Hp Hpr Hdone) as [Heq Hpd].
  assert (Hq : (pk_dir p, f) <> sum_path w).
  { intros H. unfold sum_path in H. inversion H; subst f. exact (Hfiles p Hp Hf). }
  rewrite (exec_local E a w gens s p f Hok Hp Hsel Hdone Hq).
  rewrite Heq. destruct (pkg_effects E a gens p) as [[effs tr] out] eqn:Hpe. cbn [snd fst] in *. subst out.
  destruct (pkg_effects_done E a gens p effs tr Hord Hnd Hpe s) as [_ [_ H3]].
  apply H3; assumption.
Qed.

(* ---------- without All ---------- *)

Theorem not_all : forall a w gens s,
  a_all a = false -> files_ok w ->
  fs_lookup (sum_path w) (exec_fs E a w gens s) = fs_lookup (sum_path w) s
  /\ forall q, (~ exists p, In p (w_pkgs w) /\ is_direct w p = true /\ in_pkg_output a p q) ->
               fs_lookup q (exec_fs E a w gens s) = fs_lookup q s.
Proof.
  intros a w gens s Hall Hfiles. split.
  - rewrite exec_fs_eq, effects_split, Hall.
    assert (Hnil : (match exec_outcome E a w gens s with Done => [] | _ => [] end) = (@nil effect))
      by (destruct (exec_outcome E a w gens s); reflexivity).
    rewrite Hnil, app_nil_r. apply apply_all_other. intros e He Heq.
    apply (pkgs_effects_not_sum E a w gens s e Hfiles He). rewrite Heq. reflexivity.
  - intros q Hq. apply frame. intros [[p [Hp [Hpr Hout]]]|[Hc _]]; [|congruence].
    apply Hq. exists p. split; [exact Hp|]. split; [|exact Hout].
    destruct (processed_split _ _ _ _ Hpr) as [Hsel _]. unfold selected in Hsel. rewrite Hall in Hsel. exact Hsel.
Qed.

(* cached packages are not touched at all (own_output only speaks of processed ones); stated for reference *)
Theorem cached_untouched : forall a w gens s p f,
  world_ok w -> In p (w_pkgs w) -> processed E a w s p = false -> (pk_dir p, f) <> sum_path w ->
  fs_lookup (pk_dir p, f) (exec_fs E a w gens s) = fs_lookup (pk_dir p, f) s.
Proof.
  intros a w gens s p f [Hd _] Hp Hpr Hq. apply frame. intros [[p' [Hp' [Hpr' [Hdir _]]]]|[_ Hs]]; [|contradiction].
  cbn [fst] in Hdir. assert (p' = p) by (eapply NoDup_map_inj_in; eauto). subst p'. congruence.
Qed.

End C07.
