(* Lemmas about the model of the partialstruct generator. *)
Require Import Gengo.Base.Bytes Gengo.Model.GenPartialStruct.

Section Errors.
  Variable L : bytes -> bytes.
  Variable target : bytes.
  Variable c : cfg.

  (* not a struct, or no spec of the group names a type: an error, and nothing rendered (no TGen) *)
  Lemma generate_type_errors : forall ti,
      ti_enabled ti = true ->
      ti_name ti <> [] ->
      (ti_under ti = None -> generate_type L target c ti = TErr EMustStruct) /\
      (forall fs, ti_under ti = Some fs -> origin_loop c (ti_name ti) (ti_group ti) None = None ->
                  generate_type L target c ti = TErr ENeedNamed).
  Proof.
    intros ti Hen Hname. unfold generate_type. rewrite Hen. cbn [negb].
    destruct (ti_name ti) as [|x r] eqn:En; [congruence|]. cbn [gen_name].
    split.
    - intros Hu. rewrite Hu. reflexivity.
    - intros fs Hu Ho. rewrite Hu, Ho. reflexivity.
  Qed.
End Errors.
