(* Lemmas about the model of the partialstruct generator. *)
Require Import Gengo.Base.Bytes Gengo.Model.GenPartialStruct.

(* ---- small facts about byte strings ---- *)

Lemma bytes_eqb_sym : forall a b, bytes_eqb a b = bytes_eqb b a.
Proof.
  intros a b. destruct (bytes_eqb a b) eqn:E1; destruct (bytes_eqb b a) eqn:E2; try reflexivity.
  - apply bytes_eqb_spec in E1. subst. rewrite bytes_eqb_refl in E2. discriminate.
  - apply bytes_eqb_spec in E2. subst. rewrite bytes_eqb_refl in E1. discriminate.
Qed.

Lemma bytes_eqb_false : forall a b, a <> b -> bytes_eqb a b = false.
Proof.
  intros a b H. destruct (bytes_eqb a b) eqn:E; [|reflexivity].
  apply bytes_eqb_spec in E. contradiction.
Qed.

Lemma bytes_eqb_neq : forall a b, bytes_eqb a b = false -> a <> b.
Proof. intros a b H E. subst. rewrite bytes_eqb_refl in H. discriminate. Qed.

Lemma name_in_spec : forall n l, name_in n l = true <-> In n l.
Proof.
  intros n l. unfold name_in. rewrite existsb_exists. split.
  - intros [x [Hin He]]. apply bytes_eqb_spec in He. subst. exact Hin.
  - intros Hin. exists n. split; [exact Hin|apply bytes_eqb_refl].
Qed.

(* ================================================================================================================
   1. the field list
   ================================================================================================================ *)

Section Fields.
  Variable L : bytes -> bytes.
  Variable target : bytes.
  Variable c : cfg.

  (* text of a replacement type *)
  Definition rendered_ref (s : bytes) : bytes :=
    match id_string L target s with IdOk t _ => t | _ => s end.

  (* the declarative reading of "unless replaced by a replace tag": name kept; type and (if given) tag replaced *)
  Definition apply_replace (repl : list (bytes * list bytes)) (f : field) : gfield :=
    match lookup (f_name f) repl with
    | Some (t0 :: rest) =>
        mk_gfield (f_name f) (OText (rendered_ref t0))
                  (match rest with [] => f_tag f | _ => join_with ch_space rest end)
    | _ => mk_gfield (f_name f) (fst (field_type_lit L target c (f_ty f))) (f_tag f)
    end.

  Definition retained (omit : list bytes) (f : field) : bool := negb (omitted omit (f_name f)).

  Hypothesis Htag : fx_tag c = true.

  Lemma render_tag_fixed : forall t, render_tag L target c t = IdOk t [].
  Proof. intros t. unfold render_tag. rewrite Htag. reflexivity. Qed.

  Lemma gen_field_ok : forall repl f g i,
      gen_field L target c repl f = GOk g i -> g = apply_replace repl f.
  Proof.
    intros repl f g i. unfold gen_field, apply_replace.
    destruct (lookup (f_name f) repl) as [[|t0 rest]|] eqn:El.
    - discriminate.
    - rewrite render_tag_fixed. unfold rendered_ref.
      destruct (id_string L target t0) as [rt ri| |]; try discriminate.
      intros H. inversion H. reflexivity.
    - destruct (field_type_lit L target c (f_ty f)) as [o ti] eqn:Et. rewrite render_tag_fixed.
      intros H. inversion H. reflexivity.
  Qed.

  Lemma gen_fields_loop_spec : forall omit repl fs acc imps gs i,
      gen_fields_loop L target c omit repl fs acc imps = GOk gs i ->
      gs = acc ++ map (apply_replace repl) (filter (retained omit) fs).
  Proof.
    intros omit repl fs. induction fs as [|f r IH]; intros acc imps gs i H; cbn [gen_fields_loop] in H.
    - inversion H. cbn. rewrite app_nil_r. reflexivity.
    - cbn [filter]. unfold retained at 1.
      destruct (omitted omit (f_name f)) eqn:Eo; cbn [negb].
      + apply IH in H. exact H.
      + destruct (gen_field L target c repl f) as [g gi| |] eqn:Eg; try discriminate.
        apply IH in H. rewrite H. rewrite <- app_assoc. cbn [map app].
        apply gen_field_ok in Eg. rewrite Eg. reflexivity.
  Qed.

  (* replacement type strings that the model renders: no type arguments after a qualified name *)
  Definition ref_modelled (s : bytes) : bool :=
    match id_string L target s with IdOk _ _ => true | _ => false end.

  Definition replace_modelled (omit : list bytes) (repl : list (bytes * list bytes)) (fs : list field) : Prop :=
    forall f t0 rest, In f fs -> retained omit f = true -> lookup (f_name f) repl = Some (t0 :: rest) ->
                      ref_modelled t0 = true.

  Lemma replace_map_nonempty : forall vals acc,
      (forall k v, In (k, v) acc -> v <> []) ->
      forall k v, In (k, v) (replace_map vals acc) -> v <> [].
  Proof.
    induction vals as [|x r IH]; intros acc Hacc k v Hin; cbn [replace_map] in Hin.
    - eapply Hacc; eauto.
    - destruct (split2 ch_colon x) as [k0 [rest|]] eqn:Es.
      + eapply IH; [|exact Hin]. intros k1 v1 [He|Hi].
        * inversion He; subst. destruct rest as [|a rest']; cbn; [discriminate|].
          destruct (Ascii.eqb a ch_space); [discriminate|].
          destruct (split_on ch_space rest'); discriminate.
        * eapply Hacc; eauto.
      + eapply IH; eauto.
  Qed.

  Lemma lookup_in : forall k m v, lookup k m = Some v -> exists k', In (k', v) m.
  Proof.
    intros k m. induction m as [|[k' v'] r IH]; intros v H; cbn [lookup] in H; [discriminate|].
    destruct (bytes_eqb k k').
    - inversion H; subst. exists k'. left. reflexivity.
    - destruct (IH _ H) as [k'' Hin]. exists k''. right. exact Hin.
  Qed.

  Lemma gen_fields_loop_total : forall omit repl fs acc imps,
      (forall k v, In (k, v) repl -> v <> []) ->
      replace_modelled omit repl fs ->
      exists gs i, gen_fields_loop L target c omit repl fs acc imps = GOk gs i.
  Proof.
    intros omit repl fs. induction fs as [|f r IH]; intros acc imps Hne Hm; cbn [gen_fields_loop].
    - eauto.
    - assert (Hm' : replace_modelled omit repl r).
      { intros f' t0 rest Hin. apply Hm. right. exact Hin. }
      destruct (omitted omit (f_name f)) eqn:Eo.
      + apply IH; assumption.
      + assert (Hg : exists g i, gen_field L target c repl f = GOk g i).
        { unfold gen_field. destruct (lookup (f_name f) repl) as [[|t0 rest]|] eqn:El.
          - destruct (lookup_in _ _ _ El) as [k' Hin]. exfalso. eapply Hne; eauto.
          - rewrite render_tag_fixed.
            assert (Hr : ref_modelled t0 = true).
            { eapply Hm; [left; reflexivity| |exact El]. unfold retained. rewrite Eo. reflexivity. }
            unfold ref_modelled in Hr. destruct (id_string L target t0); try discriminate. eauto.
          - destruct (field_type_lit L target c (f_ty f)). rewrite render_tag_fixed. eauto. }
        destruct Hg as [g [i Hg]]. rewrite Hg. apply IH; assumption.
  Qed.
End Fields.

(* ================================================================================================================
   2. rendered types denote the origin's types (foreign packages resolved through the import block)
   ================================================================================================================ *)

Section Types.
  Variable L : bytes -> bytes.
  Variable target : bytes.
  Variable c : cfg.
  Variable imps : list (bytes * bytes).      (* the import block: (path, local name) *)

  Hypothesis Himps_L : forall p n, In (p, n) imps -> n = L p.
  Hypothesis Hnodup : NoDup (map snd imps).

  Lemma resolve_L : forall p, In (p, L p) imps -> resolve imps (L p) = Some p.
  Proof.
    intros p. revert Himps_L Hnodup. induction imps as [|[p' n'] r IH]; intros HL Hnd Hin; [contradiction|].
    cbn [resolve]. destruct Hin as [He|Hin].
    - inversion He; subst. rewrite bytes_eqb_refl. reflexivity.
    - cbn [map snd] in Hnd. inversion Hnd as [|x l Hnotin Hnd']; subst.
      destruct (bytes_eqb n' (L p)) eqn:E.
      + apply bytes_eqb_spec in E. subst. exfalso. apply Hnotin.
        apply in_map_iff. exists (p, L p). split; [reflexivity|exact Hin].
      + apply IH; [|exact Hnd'|exact Hin]. intros p0 n0 H0. apply HL. right. exact H0.
  Qed.

  Definition imported (t : ty) : Prop :=
    forall p, In p (ty_pkgs t) -> bytes_eqb p target = false -> In (p, L p) imps.

  Fixpoint no_error (t : ty) : bool :=
    match t with
    | TError => false
    | TPtr e | TSlice e | TArray _ e => no_error e
    | TMap k v => no_error k && no_error v
    | TAlias _ _ r => no_error r
    | _ => true
    end.

  Lemma type_lit_denotes : forall t,
      (fx_errlit c = true \/ no_error t = true) ->
      has_iface_lit t = false ->
      imported t ->
      denotes imps target (fst (type_lit L target c t)) t = true.
  Proof.
    induction t as [n| | |pkg name u ms|e IH|e IH|n e IH|k IHk v IHv|txt|ap an ar IHa]; intros Herr Hif Himp; cbn [type_lit].
    - cbn. apply bytes_eqb_refl.
    - cbn. reflexivity.
    - destruct Herr as [Herr|Herr]; [|cbn in Herr; discriminate]. rewrite Herr. cbn. reflexivity.
    - destruct (bytes_eqb pkg target) eqn:Ep; cbn [fst denotes].
      + rewrite Ep, bytes_eqb_refl. reflexivity.
      + rewrite Ep, bytes_eqb_refl. cbn [negb andb].
        rewrite resolve_L; [cbn; apply bytes_eqb_refl|]. apply Himp; [cbn; left; reflexivity|exact Ep].
    - destruct (type_lit L target c e) as [o i] eqn:Ee. cbn [fst denotes]. cbn [fst] in IH. apply IH.
      + destruct Herr as [H|H]; [left; exact H|right; exact H].
      + exact Hif.
      + exact Himp.
    - destruct (type_lit L target c e) as [o i] eqn:Ee. cbn [fst denotes]. cbn [fst] in IH. apply IH.
      + destruct Herr as [H|H]; [left; exact H|right; exact H].
      + exact Hif.
      + exact Himp.
    - destruct (type_lit L target c e) as [o i] eqn:Ee. cbn [fst denotes]. cbn [fst] in IH.
      rewrite N.eqb_refl. cbn [andb]. apply IH.
      + destruct Herr as [H|H]; [left; exact H|right; exact H].
      + exact Hif.
      + exact Himp.
    - destruct (type_lit L target c k) as [ok ik] eqn:Ek. destruct (type_lit L target c v) as [ov iv] eqn:Ev.
      cbn [fst denotes]. cbn [fst] in IHk, IHv. cbn [has_iface_lit] in Hif. apply orb_false_iff in Hif.
      destruct Hif as [Hifk Hifv]. apply andb_true_iff. split.
      + apply IHk.
        * destruct Herr as [H|H]; [left; exact H|right]. cbn in H. apply andb_true_iff in H. tauto.
        * exact Hifk.
        * intros p Hp. apply Himp. cbn. apply in_or_app. left. exact Hp.
      + apply IHv.
        * destruct Herr as [H|H]; [left; exact H|right]. cbn in H. apply andb_true_iff in H. tauto.
        * exact Hifv.
        * intros p Hp. apply Himp. cbn. apply in_or_app. right. exact Hp.
    - cbn in Hif. discriminate.
    - cbn [denotes]. rewrite IHa; [apply orb_true_r| | |].
      + destruct Herr as [H|H]; [left; exact H|right; exact H].
      + exact Hif.
      + exact Himp.
  Qed.

  (* a field's type: an alias at the top level is printed by its own name, which denotes it; below the top level it is
     printed through its right-hand side - the same type *)
  Definition fimported (t : ty) : Prop :=
    forall p, In p (fty_pkgs t) -> bytes_eqb p target = false -> In (p, L p) imps.

  Lemma field_type_lit_denotes : forall t,
      (fx_errlit c = true \/ no_error t = true) ->
      fhas_iface_lit t = false ->
      fimported t ->
      denotes imps target (fst (field_type_lit L target c t)) t = true.
  Proof.
    intros t Herr Hif Himp.
    destruct t as [n| | |pkg name u ms|e|e|n e|k v|txt|ap an ar];
      try (apply type_lit_denotes; assumption).
    cbn [field_type_lit denotes]. apply orb_true_iff. left.
    destruct (bytes_eqb ap target) eqn:Ep; cbn [fst denotes_ref].
    - rewrite Ep, bytes_eqb_refl. reflexivity.
    - rewrite Ep, bytes_eqb_refl. cbn [negb andb].
      rewrite resolve_L; [cbn; apply bytes_eqb_refl|]. apply Himp; [cbn; left; reflexivity|exact Ep].
  Qed.

  (* known finding unnamed_method_interface_rendered_any: TypeLit prints `any`, which does not denote the type *)
  Lemma type_lit_iface_refuted : forall txt,
      denotes imps target (fst (type_lit L target c (TIfaceLit txt))) (TIfaceLit txt) = false.
  Proof. intros txt. reflexivity. Qed.

  (* the import paths type_lit registers are exactly the foreign packages the type mentions *)
  Lemma type_lit_imports : forall t,
      snd (type_lit L target c t) = filter (fun p => negb (bytes_eqb p target)) (ty_pkgs t).
  Proof.
    induction t as [n| | |pkg name u ms|e IH|e IH|n e IH|k IHk v IHv|txt|ap an ar IHa]; cbn [type_lit ty_pkgs filter]; try reflexivity.
    - destruct (bytes_eqb pkg target); reflexivity.
    - destruct (type_lit L target c e). exact IH.
    - destruct (type_lit L target c e). exact IH.
    - destruct (type_lit L target c e). exact IH.
    - destruct (type_lit L target c k). destruct (type_lit L target c v). cbn [snd] in *.
      rewrite filter_app, IHk, IHv. reflexivity.
    - exact IHa.
  Qed.

  Lemma field_type_lit_imports : forall t,
      snd (field_type_lit L target c t) = filter (fun p => negb (bytes_eqb p target)) (fty_pkgs t).
  Proof.
    intros t. destruct t as [n| | |pkg name u ms|e|e|n e|k v|txt|ap an ar]; try apply type_lit_imports.
    cbn [field_type_lit fty_pkgs filter]. destruct (bytes_eqb ap target); reflexivity.
  Qed.

  Lemma type_lit_quals : forall t,
      oty_quals (fst (type_lit L target c t)) = map L (filter (fun p => negb (bytes_eqb p target)) (ty_pkgs t)).
  Proof.
    induction t as [n| | |pkg name u ms|e IH|e IH|n e IH|k IHk v IHv|txt|ap an ar IHa]; cbn [type_lit ty_pkgs filter]; try reflexivity.
    - destruct (bytes_eqb pkg target); reflexivity.
    - destruct (type_lit L target c e). exact IH.
    - destruct (type_lit L target c e). exact IH.
    - destruct (type_lit L target c e). exact IH.
    - destruct (type_lit L target c k). destruct (type_lit L target c v). cbn [fst oty_quals] in *.
      rewrite filter_app, map_app, IHk, IHv. reflexivity.
    - exact IHa.
  Qed.

  Lemma field_type_lit_quals : forall t,
      oty_quals (fst (field_type_lit L target c t)) = map L (filter (fun p => negb (bytes_eqb p target)) (fty_pkgs t)).
  Proof.
    intros t. destruct t as [n| | |pkg name u ms|e|e|n e|k v|txt|ap an ar]; try apply type_lit_quals.
    cbn [field_type_lit fty_pkgs filter]. destruct (bytes_eqb ap target); reflexivity.
  Qed.
End Types.

(* ================================================================================================================
   3. the copy statements and their meaning
   ================================================================================================================ *)

Section Copy.
  Variable L : bytes -> bytes.
  Variable target : bytes.
  Variable c : cfg.

  Definition is_replaced (repl : list (bytes * list bytes)) (f : field) : bool :=
    match lookup (f_name f) repl with Some _ => true | None => false end.

  (* the type the switch of createFieldSnippet runs on: the field's own type, or the named type (error included) it is
     an alias of *)
  Lemma unalias_not_alias : forall t p n r, unalias t <> TAlias p n r.
  Proof. induction t; intros p0 n0 r0; cbn [unalias]; try discriminate. apply IHt. Qed.

  Lemma gen_stmts_loop_spec : forall omit repl fs acc imps ss i,
      gen_stmts_loop L target c omit repl fs acc imps = GOk ss i ->
      exists ss', ss = acc ++ ss' /\
        Forall2 (fun f s => exists j, field_stmt L target c (is_replaced repl f) f = GOk s j)
                (filter (retained omit) fs) ss'.
  Proof.
    intros omit repl fs. induction fs as [|f r IH]; intros acc imps ss i H; cbn [gen_stmts_loop] in H.
    - inversion H. exists []. rewrite app_nil_r. split; [reflexivity|constructor].
    - cbn [filter]. unfold retained at 1. destruct (omitted omit (f_name f)) eqn:Eo; cbn [negb].
      + apply IH in H. exact H.
      + destruct (field_stmt L target c
                    (match lookup (f_name f) repl with Some _ => true | None => false end) f) as [s j| |] eqn:Es;
          try discriminate.
        apply IH in H. destruct H as [ss' [Hs HF]]. exists (s :: ss'). split.
        * rewrite Hs, <- app_assoc. reflexivity.
        * constructor; [exists j; exact Es|exact HF].
  Qed.

  (* every statement writes the field it was generated for *)
  Definition stmt_field (s : stmt) : bytes :=
    match s with
    | SAssign f | SCopySlice f _ | SCopyMap f _ | SCallInto f _ | SCallCopyVal f _ | SCallCopyDeref f _ => f
    | SOther _ => []
    end.

  Definition is_other (s : stmt) : bool := match s with SOther _ => true | _ => false end.

  Lemma select_named_field : forall f fc, stmt_field (select_named f fc) = f /\ is_other (select_named f fc) = false.
  Proof.
    intros f [[hc hi] ptr]. unfold select_named.
    destruct (ptr && hi); [split; reflexivity|].
    destruct (negb ptr && hc); [split; reflexivity|].
    destruct (ptr && hc); split; reflexivity.
  Qed.

  Lemma field_stmt_field : forall b f s j,
      field_stmt L target c b f = GOk s j -> stmt_field s = f_name f /\ is_other s = false.
  Proof.
    intros b f s j.
    assert (Hsel : forall fc i0, GOk (select_named (f_name f) fc) i0 = GOk s j ->
                                 stmt_field s = f_name f /\ is_other s = false).
    { intros fc i0 H. assert (Hs : s = select_named (f_name f) fc) by congruence.
      rewrite Hs. apply select_named_field. }
    unfold field_stmt, field_stmt_gen. cbv zeta.
    destruct (switch_type true (f_ty f)) as [n| | |pkg name u ms|e|e|n e|k v|txt|ap an ar] eqn:Et.
    - intros H; inversion H; split; reflexivity.
    - intros H; inversion H; split; reflexivity.
    - destruct b; [apply Hsel|].
      destruct (fx_errnil c); [|discriminate]. intros H; inversion H; split; reflexivity.
    - destruct b; [apply Hsel|].
      destruct (scan_methods ms (false, false, true)) as [[hc hi] ptr].
      destruct (bytes_eqb pkg target && negb (is_uiface u)); apply Hsel.
    - intros H; inversion H; split; reflexivity.
    - destruct (field_type_lit L target c (f_ty f)). intros H; inversion H; split; reflexivity.
    - intros H; inversion H; split; reflexivity.
    - destruct (field_type_lit L target c (f_ty f)). intros H; inversion H; split; reflexivity.
    - intros H; inversion H; split; reflexivity.
    - intros H; inversion H; split; reflexivity.
  Qed.

  (* statements that call a method: only for named (or error) field types *)
  Definition is_call (s : stmt) : bool :=
    match s with SCallInto _ _ | SCallCopyVal _ _ | SCallCopyDeref _ _ => true | _ => false end.

  Lemma sget_sset_same : forall s f v, sget (sset s f v) f = v.
  Proof. intros. unfold sset. cbn [sget]. rewrite bytes_eqb_refl. reflexivity. Qed.

  Lemma sget_sset_other : forall s f g v, g <> f -> sget (sset s f v) g = sget s g.
  Proof. intros. unfold sset. cbn [sget]. rewrite bytes_eqb_false; [reflexivity|assumption]. Qed.

  (* one statement: the field it names gets the (converted) source value, or stays as it is when the source
     container is nil; nothing else changes *)
  Lemma exec_stmt_effect : forall conv inv out s,
      is_other s = false ->
      exists out', exec_stmt conv inv out s = Some out' /\
        (forall g, g <> stmt_field s -> sget out' g = sget out g) /\
        (sget out (stmt_field s) = VZero ->
         sget out' (stmt_field s) = if is_call s then conv (stmt_field s) (sget inv (stmt_field s))
                                     else sget inv (stmt_field s)).
  Proof.
    intros conv inv out s Ho. destruct s as [f|f t|f t|f m|f m|f m|txt]; cbn [is_other] in Ho; try discriminate;
      cbn [exec_stmt stmt_field is_call].
    - eexists. split; [reflexivity|]. split.
      + intros g Hg. apply sget_sset_other. exact Hg.
      + intros _. apply sget_sset_same.
    - destruct (is_zero (sget inv f)) eqn:Ez.
      + eexists. split; [reflexivity|]. split; [reflexivity|].
        intros Hz. rewrite Hz. destruct (sget inv f); try discriminate. reflexivity.
      + eexists. split; [reflexivity|]. split.
        * intros g Hg. apply sget_sset_other. exact Hg.
        * intros _. apply sget_sset_same.
    - destruct (is_zero (sget inv f)) eqn:Ez.
      + eexists. split; [reflexivity|]. split; [reflexivity|].
        intros Hz. rewrite Hz. destruct (sget inv f); try discriminate. reflexivity.
      + eexists. split; [reflexivity|]. split.
        * intros g Hg. apply sget_sset_other. exact Hg.
        * intros _. apply sget_sset_same.
    - eexists. split; [reflexivity|]. split.
      + intros g Hg. apply sget_sset_other. exact Hg.
      + intros _. apply sget_sset_same.
    - eexists. split; [reflexivity|]. split.
      + intros g Hg. apply sget_sset_other. exact Hg.
      + intros _. apply sget_sset_same.
    - eexists. split; [reflexivity|]. split.
      + intros g Hg. apply sget_sset_other. exact Hg.
      + intros _. apply sget_sset_same.
  Qed.

  (* a list of statements over pairwise distinct fields *)
  Lemma exec_stmts_effect : forall conv inv ss out,
      Forall (fun s => is_other s = false) ss ->
      NoDup (map stmt_field ss) ->
      (forall s, In s ss -> sget out (stmt_field s) = VZero) ->
      exists out', exec_stmts conv inv out ss = Some out' /\
        (forall g, ~ In g (map stmt_field ss) -> sget out' g = sget out g) /\
        (forall s, In s ss ->
           sget out' (stmt_field s) = if is_call s then conv (stmt_field s) (sget inv (stmt_field s))
                                       else sget inv (stmt_field s)).
  Proof.
    intros conv inv ss. induction ss as [|s r IH]; intros out Hoth Hnd Hz.
    - exists out. split; [reflexivity|]. split; [reflexivity|]. intros s [].
    - inversion Hoth as [|x l Hs Hr]; subst. cbn [map] in Hnd. inversion Hnd as [|x l Hnotin Hnd']; subst.
      destruct (exec_stmt_effect conv inv out s Hs) as [out1 [He [Hfr Hset]]].
      cbn [exec_stmts]. rewrite He.
      destruct (IH out1 Hr Hnd') as [out' [He' [Hfr' Hset']]].
      { intros s' Hin. rewrite Hfr.
        - apply Hz. right. exact Hin.
        - intros E. apply Hnotin. rewrite <- E. apply in_map. exact Hin. }
      exists out'. split; [exact He'|]. split.
      + intros g Hg. cbn [map] in Hg. rewrite Hfr'.
        * apply Hfr. intros E. apply Hg. left. symmetry. exact E.
        * intros Hin. apply Hg. right. exact Hin.
      + intros s' [E|Hin].
        * subst s'. rewrite Hfr'; [|exact Hnotin]. apply Hset. apply Hz. left. reflexivity.
        * apply Hset'. exact Hin.
  Qed.
End Copy.

(* ================================================================================================================
   4. error cases, origin of a grouped declaration
   ================================================================================================================ *)

Section Errors.
  Variable L : bytes -> bytes.
  Variable target : bytes.
  Variable c : cfg.

  (* not a struct, or no spec names a type: an error, and nothing rendered (TErr carries no text) *)
  Lemma generate_type_errors : forall ti,
      ti_enabled ti = true ->
      ti_name ti <> [] ->
      (ti_under ti = None -> generate_type L target c ti = TErr EMustStruct) /\
      (forall fs, ti_under ti = Some fs -> origin_loop c (ti_name ti) (ti_group ti) None = None ->
                  generate_type L target c ti = TErr ENeedNamed).
  Proof.
    intros ti Hen Hname. unfold generate_type. rewrite Hen. cbn [negb].
    destruct (ti_name ti) as [|x r] eqn:En; [congruence|]. cbn [gen_name].
    split.
    - intros Hu. rewrite Hu. reflexivity.
    - intros fs Hu Ho. rewrite Hu, Ho. reflexivity.
  Qed.

  Lemma generate_type_gen_inv : forall ti g i,
      generate_type L target c ti = TGen g i ->
      ti_enabled ti = true /\
      exists fs o, ti_under ti = Some fs /\ origin_loop c (ti_name ti) (ti_group ti) None = Some o /\
        g_origin g = fst (origin_ref L target o) /\
        (exists i1, gen_fields_loop L target c (ti_omit ti) (replace_map (ti_replace ti) []) fs [] [] = GOk (g_fields g) i1) /\
        (exists i3, gen_stmts_loop L target c (copy_skip (ti_omit ti)) (replace_map (ti_replace ti) []) fs [] [] = GOk (g_stmts g) i3).
  Proof.
    intros ti g i. unfold generate_type.
    destruct (ti_enabled ti); cbn [negb]; [|discriminate].
    destruct (gen_name (ti_name ti)) as [gname| |]; try discriminate.
    destruct (ti_under ti) as [fs|]; [|discriminate].
    destruct (origin_loop c (ti_name ti) (ti_group ti) None) as [o|] eqn:Eo; [|discriminate].
    destruct (gen_fields_loop L target c (ti_omit ti) (replace_map (ti_replace ti) []) fs [] []) as [gfs i1| |] eqn:Ef;
      try discriminate.
    destruct (origin_ref L target o) as [oref i2] eqn:Eor.
    destruct (gen_stmts_loop L target c (copy_skip (ti_omit ti)) (replace_map (ti_replace ti) []) fs [] []) as [sts i3| |] eqn:Es;
      try discriminate.
    intros H. inversion H; subst. cbn [g_origin g_fields g_stmts fst]. split; [reflexivity|].
    exists fs, o. split; [reflexivity|]. split; [reflexivity|]. split; [rewrite Eor; reflexivity|].
    split; [exists i1; exact Ef|exists i3; exact Es].
  Qed.

  (* the package: a declaration in error never lets a file through *)
  Definition decl_bad (ti : tinput) : Prop :=
    ti_enabled ti = true /\ ti_name ti <> [] /\
    (ti_under ti = None \/ origin_loop c (ti_name ti) (ti_group ti) None = None).

  Lemma generate_type_bad : forall ti, decl_bad ti -> exists k, generate_type L target c ti = TErr k.
  Proof.
    intros ti [Hen [Hn Hb]]. destruct (generate_type_errors ti Hen Hn) as [H1 H2].
    destruct (ti_under ti) as [fs|] eqn:Eu.
    - destruct Hb as [Hb|Hb]; [discriminate|]. exists ENeedNamed. eapply H2; eauto.
    - exists EMustStruct. apply H1. reflexivity.
  Qed.

  Lemma generate_pkg_no_file : forall tis acc imps,
      (exists ti, In ti tis /\ decl_bad ti) ->
      forall ts i, generate_pkg L target c tis acc imps <> OutFile ts i.
  Proof.
    induction tis as [|ti r IH]; intros acc imps [t [Hin Hbad]] ts i.
    - contradiction.
    - cbn [generate_pkg]. destruct Hin as [E|Hin].
      + subst t. destruct (generate_type_bad ti Hbad) as [k Hk]. rewrite Hk. discriminate.
      + destruct (generate_type L target c ti); try discriminate; apply IH; eauto.
  Qed.

  Lemma generate_pkg_error : forall tis acc imps,
      (exists ti, In ti tis /\ decl_bad ti) ->
      (forall ti, In ti tis -> generate_type L target c ti <> TPanic /\ generate_type L target c ti <> TGeneric) ->
      exists k, generate_pkg L target c tis acc imps = OutErr k.
  Proof.
    induction tis as [|ti r IH]; intros acc imps [t [Hin Hbad]] Hnp.
    - contradiction.
    - cbn [generate_pkg]. destruct Hin as [E|Hin].
      + subst t. destruct (generate_type_bad ti Hbad) as [k Hk]. rewrite Hk. eauto.
      + destruct (Hnp ti (or_introl eq_refl)) as [Hp Hg].
        destruct (generate_type L target c ti) eqn:Eg; try congruence; eauto.
        * apply IH; [eauto|]. intros ti' Hi. apply Hnp. right. exact Hi.
        * apply IH; [eauto|]. intros ti' Hi. apply Hnp. right. exact Hi.
  Qed.

  (* ---- origin of a grouped declaration ---- *)

  Lemma origin_loop_skip : forall own specs cur,
      fx_group c = true ->
      ~ In own (map fst specs) ->
      origin_loop c own specs cur = cur.
  Proof.
    intros own specs. induction specs as [|[n r] rest IH]; intros cur Hg Hnot; cbn [origin_loop]; [reflexivity|].
    rewrite Hg. cbn [andb]. cbn [map fst] in Hnot.
    rewrite bytes_eqb_false.
    - cbn [negb]. apply IH; [exact Hg|]. intros H. apply Hnot. right. exact H.
    - intros E. apply Hnot. left. exact E.
  Qed.

  Lemma origin_loop_own : forall own specs cur,
      fx_group c = true ->
      NoDup (map fst specs) ->
      origin_loop c own specs cur =
      match find (fun p => bytes_eqb (fst p) own) specs with
      | Some (_, r) => match rhs_obj r with Some o => Some o | None => cur end
      | None => cur
      end.
  Proof.
    intros own specs. induction specs as [|[n r] rest IH]; intros cur Hg Hnd; cbn [origin_loop find fst]; [reflexivity|].
    rewrite Hg. cbn [andb]. cbn [map fst] in Hnd. inversion Hnd as [|x l Hnotin Hnd']; subst.
    destruct (bytes_eqb n own) eqn:E; cbn [negb].
    - apply bytes_eqb_spec in E. subst n.
      destruct (rhs_obj r); apply origin_loop_skip; assumption.
    - apply IH; assumption.
  Qed.
End Errors.

(* ================================================================================================================
   5. scoping of the rendered type expressions (known finding import_name_shadows_template_local)
   ================================================================================================================ *)

Section Scoping.
  Variable L : bytes -> bytes.
  Variable target : bytes.
  Variable c : cfg.

  (* the tracker names a package by the last element of its path (simple paths; property C03) *)
  Hypothesis HL : forall p, L p = last_segment p.

  Lemma select_named_quals : forall f fc, stmt_quals (select_named f fc) = [].
  Proof.
    intros f [[hc hi] ptr]. unfold select_named.
    destruct (ptr && hi); [reflexivity|]. destruct (negb ptr && hc); [reflexivity|].
    destruct (ptr && hc); reflexivity.
  Qed.

  Lemma field_stmt_quals : forall b f s j,
      field_stmt L target c b f = GOk s j ->
      stmt_quals s = [] \/
      (is_container (unalias (f_ty f)) = true /\ stmt_quals s = oty_quals (fst (field_type_lit L target c (f_ty f)))).
  Proof.
    intros b f s j.
    assert (Hsel : forall fc i0, GOk (select_named (f_name f) fc) i0 = GOk s j -> stmt_quals s = []).
    { intros fc i0 H. assert (Hs : s = select_named (f_name f) fc) by congruence.
      rewrite Hs. apply select_named_quals. }
    unfold field_stmt, field_stmt_gen, switch_type. cbv zeta.
    destruct (unalias (f_ty f)) as [n| | |pkg name u ms|e|e|n e|k v|txt|ap an ar] eqn:Et.
    - intros H; inversion H; left; reflexivity.
    - intros H; inversion H; left; reflexivity.
    - destruct b; [intros H; left; eapply Hsel; exact H|].
      destruct (fx_errnil c); [|discriminate]. intros H; inversion H; left; reflexivity.
    - destruct b; [intros H; left; eapply Hsel; exact H|].
      destruct (scan_methods ms (false, false, true)) as [[hc hi] ptr].
      destruct (bytes_eqb pkg target && negb (is_uiface u)); intros H; left; eapply Hsel; exact H.
    - intros H; inversion H; left; reflexivity.
    - destruct (field_type_lit L target c (f_ty f)) as [o oi] eqn:El. intros H; inversion H. right.
      split; reflexivity.
    - intros H; inversion H; left; reflexivity.
    - destruct (field_type_lit L target c (f_ty f)) as [o oi] eqn:El. intros H; inversion H. right.
      split; reflexivity.
    - intros H; inversion H; left; reflexivity.
    - intros H; inversion H; left; reflexivity.
  Qed.

  Lemma gen_stmts_quals : forall omit repl fs acc imps ss i q,
      gen_stmts_loop L target c omit repl fs acc imps = GOk ss i ->
      In q (flat_map stmt_quals ss) ->
      In q (flat_map stmt_quals acc) \/
      exists f p, In f fs /\ retained omit f = true /\ is_container (unalias (f_ty f)) = true /\
                  In p (fty_pkgs (f_ty f)) /\ bytes_eqb p target = false /\ q = L p.
  Proof.
    intros omit repl fs. induction fs as [|f r IH]; intros acc imps ss i q H Hq; cbn [gen_stmts_loop] in H.
    - inversion H; subst. left. exact Hq.
    - destruct (omitted omit (f_name f)) eqn:Eo.
      + destruct (IH _ _ _ _ _ H Hq) as [Ha|[f' [p [Hin Hrest]]]]; [left; exact Ha|].
        right. exists f', p. split; [right; exact Hin|exact Hrest].
      + destruct (field_stmt L target c
                    (match lookup (f_name f) repl with Some _ => true | None => false end) f) as [s j| |] eqn:Es;
          try discriminate.
        destruct (IH _ _ _ _ _ H Hq) as [Ha|[f' [p [Hin Hrest]]]].
        * rewrite flat_map_app in Ha. apply in_app_or in Ha. destruct Ha as [Ha|Ha]; [left; exact Ha|].
          cbn [flat_map] in Ha. rewrite app_nil_r in Ha.
          right. exists f.
          destruct (field_stmt_quals _ _ _ _ Es) as [Hnil|[Hc Hqs]].
          -- rewrite Hnil in Ha. contradiction.
          -- rewrite Hqs, field_type_lit_quals in Ha. apply in_map_iff in Ha.
             destruct Ha as [p [Hp Hpin]]. apply filter_In in Hpin. destruct Hpin as [Hpin Hpt].
             exists p. split; [left; reflexivity|]. split; [unfold retained; rewrite Eo; reflexivity|].
             split; [exact Hc|]. split; [exact Hpin|]. split.
             ++ destruct (bytes_eqb p target); [discriminate|reflexivity].
             ++ symmetry. exact Hp.
        * right. exists f', p. split; [right; exact Hin|exact Hrest].
  Qed.
End Scoping.

(* ================================================================================================================
   6. the statements assembled for Props/C18.v
   ================================================================================================================ *)

Lemma Forall2_in_l {A B} (R : A -> B -> Prop) : forall l1 l2 x,
    Forall2 R l1 l2 -> In x l1 -> exists y, In y l2 /\ R x y.
Proof.
  intros l1 l2 x HF. induction HF as [|a b l l' Hab HF IH]; intros Hin; [contradiction|].
  destruct Hin as [E|Hin].
  - subst. exists b. split; [left; reflexivity|exact Hab].
  - destruct (IH Hin) as [y [Hy HR]]. exists y. split; [right; exact Hy|exact HR].
Qed.

Lemma NoDup_map_filter {A B} (f : A -> B) (p : A -> bool) : forall l,
    NoDup (map f l) -> NoDup (map f (filter p l)).
Proof.
  induction l as [|x r IH]; intros H; cbn; [constructor|].
  cbn in H. inversion H as [|y l' Hnotin Hnd]; subst.
  destruct (p x); cbn.
  - constructor; [|apply IH; exact Hnd].
    intros Hin. apply Hnotin. apply in_map_iff in Hin. destruct Hin as [z [Hz Hzin]].
    apply filter_In in Hzin. apply in_map_iff. exists z. tauto.
  - apply IH. exact Hnd.
Qed.

Section Main.
  Variable L : bytes -> bytes.
  Variable target : bytes.
  Variable c : cfg.

  (* ---- field mirror ---- *)

  Lemma fields_mirror : forall ti g i,
      fx_tag c = true ->
      generate_type L target c ti = TGen g i ->
      exists fs, ti_under ti = Some fs /\
        g_fields g = map (apply_replace L target c (replace_map (ti_replace ti) []))
                         (filter (retained (ti_omit ti)) fs).
  Proof.
    intros ti g i Htag H. apply generate_type_gen_inv in H.
    destruct H as [_ [fs [o [Hu [_ [_ [[i1 Hf] _]]]]]]].
    exists fs. split; [exact Hu|].
    apply (gen_fields_loop_spec L target c Htag) in Hf. exact Hf.
  Qed.

  (* an unreplaced field keeps name, type (as rendered by TypeLit) and tag *)
  Lemma apply_replace_unreplaced : forall repl f,
      lookup (f_name f) repl = None ->
      apply_replace L target c repl f = mk_gfield (f_name f) (fst (field_type_lit L target c (f_ty f))) (f_tag f).
  Proof. intros repl f H. unfold apply_replace. rewrite H. reflexivity. Qed.

  (* a replaced field keeps its name; type text = the replacement; tag = the words after the type, if any *)
  Lemma apply_replace_replaced : forall repl f t0 rest,
      lookup (f_name f) repl = Some (t0 :: rest) ->
      gf_name (apply_replace L target c repl f) = f_name f /\
      gf_ty (apply_replace L target c repl f) = OText (rendered_ref L target t0) /\
      gf_tag (apply_replace L target c repl f) = match rest with [] => f_tag f | _ => join_with ch_space rest end.
  Proof. intros repl f t0 rest H. unfold apply_replace. rewrite H. cbn. repeat split. Qed.

  (* ---- totality: a struct defined from a named type always generates ---- *)

  Lemma gen_stmts_loop_total : forall omit repl fs acc imps,
      fx_errnil c = true ->
      exists ss i, gen_stmts_loop L target c omit repl fs acc imps = GOk ss i.
  Proof.
    intros omit repl fs. induction fs as [|f r IH]; intros acc imps He; cbn [gen_stmts_loop]; [eauto|].
    destruct (omitted omit (f_name f)); [apply IH; exact He|].
    assert (Hs : exists s j, field_stmt L target c
                   (match lookup (f_name f) repl with Some _ => true | None => false end) f = GOk s j).
    { unfold field_stmt, field_stmt_gen. cbv zeta.
      destruct (switch_type true (f_ty f)) as [n| | |pkg name u ms|e|e|n e|k v|txt|ap an ar]; eauto.
      - destruct (match lookup (f_name f) repl with Some _ => true | None => false end); eauto.
        rewrite He. eauto.
      - destruct (match lookup (f_name f) repl with Some _ => true | None => false end); eauto.
        destruct (scan_methods ms (false, false, true)) as [[hc hi] ptr].
        destruct (bytes_eqb pkg target && negb (is_uiface u)); eauto.
      - destruct (field_type_lit L target c (f_ty f)). eauto.
      - destruct (field_type_lit L target c (f_ty f)). eauto. }
    destruct Hs as [s [j Hs]]. rewrite Hs. apply IH. exact He.
  Qed.

  Lemma generate_total : forall ti fs o,
      fx_tag c = true -> fx_errnil c = true ->
      ti_enabled ti = true -> ti_name ti <> [] ->
      ti_under ti = Some fs ->
      origin_loop c (ti_name ti) (ti_group ti) None = Some o ->
      replace_modelled L target (ti_omit ti) (replace_map (ti_replace ti) []) fs ->
      exists g i, generate_type L target c ti = TGen g i.
  Proof.
    intros ti fs o Htag Herr Hen Hname Hu Ho Hm. unfold generate_type. rewrite Hen. cbn [negb].
    destruct (ti_name ti) as [|x r] eqn:En; [congruence|]. cbn [gen_name]. rewrite Hu, Ho.
    destruct (gen_fields_loop_total L target c Htag (ti_omit ti) (replace_map (ti_replace ti) []) fs [] [])
      as [gs [i1 Hf]].
    - apply replace_map_nonempty. intros k v [].
    - exact Hm.
    - rewrite Hf. destruct (origin_ref L target o) as [oref i2].
      destruct (gen_stmts_loop_total (copy_skip (ti_omit ti)) (replace_map (ti_replace ti) []) fs [] [] Herr) as [ss [i3 Hs]].
      rewrite Hs. eauto.
  Qed.

  (* ---- copy semantics ---- *)

  Lemma stmts_of_fields : forall repl fl ss,
      Forall2 (fun f s => exists j, field_stmt L target c (is_replaced repl f) f = GOk s j) fl ss ->
      map stmt_field ss = map f_name fl /\ Forall (fun s => is_other s = false) ss.
  Proof.
    intros repl fl ss HF. induction HF as [|f s l l' [j Hfs] HF [IH1 IH2]]; [split; [reflexivity|constructor]|].
    destruct (field_stmt_field L target c _ _ _ _ Hfs) as [Hn Ho].
    split; [cbn; rewrite Hn, IH1; reflexivity|constructor; assumption].
  Qed.

  Lemma copy_semantics : forall ti g i fs conv,
      generate_type L target c ti = TGen g i ->
      ti_under ti = Some fs ->
      NoDup (map f_name fs) ->
      deep_copy_as conv (g_stmts g) None = Some None /\
      forall inv, exists out,
        deep_copy_as conv (g_stmts g) (Some inv) = Some (Some out) /\
        forall f, In f fs ->
          (omitted (copy_skip (ti_omit ti)) (f_name f) = true -> sget out (f_name f) = VZero) /\
          (omitted (copy_skip (ti_omit ti)) (f_name f) = false ->
             exists s j, In s (g_stmts g) /\
               field_stmt L target c (is_replaced (replace_map (ti_replace ti) []) f) f = GOk s j /\
               sget out (f_name f) = if is_call s then conv (f_name f) (sget inv (f_name f))
                                     else sget inv (f_name f)).
  Proof.
    intros ti g i fs conv H Hu Hnd. split; [reflexivity|].
    apply generate_type_gen_inv in H. destruct H as [_ [fs' [o [Hu' [_ [_ [_ [i3 Hs]]]]]]]].
    rewrite Hu in Hu'. inversion Hu'; subst fs'. clear Hu'.
    apply gen_stmts_loop_spec in Hs. destruct Hs as [ss' [Hss HF]]. cbn [app] in Hss. subst ss'.
    destruct (stmts_of_fields _ _ _ HF) as [Hnames Hoth].
    intros inv.
    destruct (exec_stmts_effect conv inv (g_stmts g) [] Hoth) as [out [He [Hfr Hset]]].
    - rewrite Hnames. apply NoDup_map_filter. exact Hnd.
    - intros s _. reflexivity.
    - exists out. split; [cbn [deep_copy_as]; rewrite He; reflexivity|].
      intros f Hin. split.
      + intros Hom. rewrite Hfr; [reflexivity|]. rewrite Hnames. intros Hi.
        apply in_map_iff in Hi. destruct Hi as [f' [Hn Hf']]. apply filter_In in Hf'. destruct Hf' as [_ Hr].
        unfold retained in Hr. rewrite Hn, Hom in Hr. discriminate.
      + intros Hom.
        assert (Hinf : In f (filter (retained (copy_skip (ti_omit ti))) fs)).
        { apply filter_In. split; [exact Hin|]. unfold retained. rewrite Hom. reflexivity. }
        destruct (Forall2_in_l _ _ _ _ HF Hinf) as [s [Hsin [j Hfs]]].
        exists s, j. split; [exact Hsin|]. split; [exact Hfs|].
        destruct (field_stmt_field L target c _ _ _ _ Hfs) as [Hn _].
        rewrite <- Hn. apply Hset. exact Hsin.
  Qed.

  (* which statements convert: an unreplaced field whose type is not a named type is assigned or container-copied *)
  Lemma unreplaced_not_call : forall f s j,
      field_stmt L target c false f = GOk s j ->
      (forall pkg name u ms, unalias (f_ty f) <> TNamed pkg name u ms) ->
      is_call s = false.
  Proof.
    intros f s j H Hn. unfold field_stmt, field_stmt_gen in H. cbv zeta in H.
    assert (Hn' : forall pkg name u ms, switch_type true (f_ty f) <> TNamed pkg name u ms) by exact Hn.
    destruct (switch_type true (f_ty f)) as [n| | |pkg name u ms|e|e|n e|k v|txt|ap an ar] eqn:Et.
    - inversion H; reflexivity.
    - inversion H; reflexivity.
    - destruct (fx_errnil c); [|discriminate]. inversion H; reflexivity.
    - exfalso. eapply Hn'. reflexivity.
    - inversion H; reflexivity.
    - destruct (field_type_lit L target c (f_ty f)). inversion H; reflexivity.
    - inversion H; reflexivity.
    - destruct (field_type_lit L target c (f_ty f)). inversion H; reflexivity.
    - inversion H; reflexivity.
    - inversion H; reflexivity.
  Qed.

  (* a foreign named type without methods called DeepCopyAs / DeepCopyIntoAs is assigned *)
  Fixpoint no_as_methods (ms : list msig) : bool :=
    match ms with
    | [] => true
    | (name, _, _, _, _) :: r => negb (bytes_eqb name dc_name) && negb (bytes_eqb name dc_into_name) && no_as_methods r
    end.

  Lemma scan_no_as : forall ms hc hi ptr, no_as_methods ms = true ->
      scan_methods ms (hc, hi, ptr) = match ms with [] => (hc, hi, ptr) | _ => (false, false, ptr) end.
  Proof.
    induction ms as [|[[[[name np] nr] p0] r0] r IH]; intros hc hi ptr H; [reflexivity|].
    cbn [no_as_methods] in H. apply andb_true_iff in H. destruct H as [H Hr].
    apply andb_true_iff in H. destruct H as [H1 H2].
    apply negb_true_iff in H1. apply negb_true_iff in H2.
    cbn [scan_methods]. rewrite H1, H2. cbn [andb].
    rewrite IH; [|exact Hr]. destruct r; reflexivity.
  Qed.

  Lemma foreign_plain_named_assigned : forall f pkg name u ms s j,
      unalias (f_ty f) = TNamed pkg name u ms ->
      bytes_eqb pkg target = false ->
      no_as_methods ms = true ->
      field_stmt L target c false f = GOk s j ->
      s = SAssign (f_name f).
  Proof.
    intros f pkg name u ms s j Et Hp Hm H. unfold field_stmt, field_stmt_gen, switch_type in H. rewrite Et in H.
    cbv zeta in H. rewrite (scan_no_as ms false false true Hm) in H. rewrite Hp in H.
    destruct ms; inversion H; reflexivity.
  Qed.

  (* a replaced field of a named type is converted by the replacement's DeepCopyIntoAs *)
  Lemma replaced_named_into : forall f pkg name u ms s j,
      unalias (f_ty f) = TNamed pkg name u ms ->
      field_stmt L target c true f = GOk s j ->
      s = SCallInto (f_name f) dc_into_name.
  Proof.
    intros f pkg name u ms s j Et H. unfold field_stmt, field_stmt_gen, switch_type in H. rewrite Et in H.
    inversion H. reflexivity.
  Qed.

  (* before the repairs bf0d8cc / adc5fac no alias was looked through: every alias-typed field was assigned - a replaced
     field typed by an alias of a named struct (`out.A = in.A` with the replacement's type on the right: does not compile),
     and a slice or map field declared through an alias (DeepCopyAs shared the container with the source) *)
  Lemma alias_assigned_before_fix : forall b f p n r,
      f_ty f = TAlias p n r ->
      field_stmt_gen L target c false b f = GOk (SAssign (f_name f)) [].
  Proof. intros b f p n r Et. unfold field_stmt_gen, switch_type. rewrite Et. reflexivity. Qed.

  (* a slice or map field declared through an alias gets the container copy, and make(...) spells the alias's name *)
  Lemma alias_container_copied : forall b f p n r,
      f_ty f = TAlias p n r ->
      is_container (unalias r) = true ->
      exists s, field_stmt L target c b f = GOk s (snd (field_type_lit L target c (f_ty f))) /\
        (s = SCopySlice (f_name f) (fst (field_type_lit L target c (f_ty f))) \/
         s = SCopyMap (f_name f) (fst (field_type_lit L target c (f_ty f)))) /\
        fst (field_type_lit L target c (f_ty f)) = (if bytes_eqb p target then OIdent n else OSel (L p) n).
  Proof.
    intros b f p n r Et Hc. unfold field_stmt, field_stmt_gen, switch_type. cbv zeta. rewrite Et. cbn [unalias].
    assert (Hl : fst (field_type_lit L target c (TAlias p n r)) = (if bytes_eqb p target then OIdent n else OSel (L p) n)).
    { cbn [field_type_lit]. destruct (bytes_eqb p target); reflexivity. }
    destruct (unalias r) eqn:Eu; cbn [is_container] in Hc; try discriminate;
      destruct (field_type_lit L target c (TAlias p n r)) as [o i]; eexists; (split; [reflexivity|]); split; eauto.
  Qed.

  (* an alias of anything but a named, slice or map type is assigned, replaced or not *)
  Lemma alias_field_assigned : forall b f p n r,
      f_ty f = TAlias p n r ->
      (forall pkg name u ms, unalias r <> TNamed pkg name u ms) -> unalias r <> TError ->
      is_container (unalias r) = false ->
      field_stmt L target c b f = GOk (SAssign (f_name f)) [].
  Proof.
    intros b f p n r Et Hn He Hc. unfold field_stmt, field_stmt_gen, switch_type. cbv zeta. rewrite Et. cbn [unalias].
    destruct (unalias r) eqn:Eu; cbn [is_container] in Hc; try discriminate; try reflexivity.
    - exfalso. apply He. reflexivity.
    - exfalso. eapply Hn. reflexivity.
  Qed.

  (* ---- origin of the type's own spec ---- *)

  Lemma origin_own_spec : forall ti,
      fx_group c = true ->
      NoDup (map fst (ti_group ti)) ->
      origin_loop c (ti_name ti) (ti_group ti) None = own_origin ti.
  Proof.
    intros ti Hg Hnd. rewrite (origin_loop_own c _ _ None Hg Hnd).
    unfold own_origin, own_rhs.
    destruct (find (fun p => bytes_eqb (fst p) (ti_name ti)) (ti_group ti)) as [[n r]|]; cbn; [|reflexivity].
    destruct (rhs_obj r); reflexivity.
  Qed.

  (* ---- scoping ---- *)

  Lemma scoping_partial : forall ti g i,
      (forall p, L p = last_segment p) ->
      fx_group c = true ->
      NoDup (map fst (ti_group ti)) ->
      generate_type L target c ti = TGen g i ->
      shadow_type target ti = false ->
      gtype_shadowed g = false.
  Proof.
    intros ti g i HL Hg Hnd H Hsh.
    apply generate_type_gen_inv in H. destruct H as [Hen [fs [o [Hu [Ho [Hor [_ [i3 Hs]]]]]]]].
    rewrite (origin_own_spec ti Hg Hnd) in Ho.
    unfold shadow_type in Hsh. rewrite Hen, Hu, Ho in Hsh. cbn [andb] in Hsh.
    destruct o as [opkg oname]. apply orb_false_iff in Hsh. destruct Hsh as [Hsh1 Hsh2].
    unfold gtype_shadowed. apply orb_false_iff. split.
    - rewrite Hor. unfold origin_ref. destruct (bytes_eqb opkg target) eqn:Ep; cbn [fst oty_quals existsb]; [reflexivity|].
      cbn [negb andb] in Hsh1. rewrite HL.
      unfold locals_as, name_in. cbn [existsb]. rewrite Hsh1. reflexivity.
    - destruct (existsb stmt_shadowed (g_stmts g)) eqn:Ex; [|reflexivity]. exfalso.
      apply existsb_exists in Ex. destruct Ex as [s [Hsin Hss]]. unfold stmt_shadowed in Hss.
      apply existsb_exists in Hss. destruct Hss as [q [Hq Hqn]].
      assert (Hqin : In q (flat_map stmt_quals (g_stmts g))).
      { apply in_flat_map. exists s. split; assumption. }
      destruct (gen_stmts_quals L target c _ _ _ _ _ _ _ _ Hs Hqin) as [Hnil|[f [p [Hfin [Hret [Hc [Hp [Hpt Hql]]]]]]]];
        [contradiction|].
      assert (Htrue : existsb (fun f => negb (omitted (copy_skip (ti_omit ti)) (f_name f)) && is_container (unalias (f_ty f))
                  && existsb (fun p => negb (bytes_eqb p target) && name_in (last_segment p) shadow_names_block)
                             (fty_pkgs (f_ty f))) fs = true).
      { apply existsb_exists. exists f. split; [exact Hfin|].
        unfold retained in Hret. rewrite Hret, Hc. cbn [andb].
        apply existsb_exists. exists p. split; [exact Hp|]. rewrite Hpt. cbn [negb andb].
        rewrite <- HL, <- Hql. exact Hqn. }
      rewrite Htrue in Hsh2. discriminate.
  Qed.
End Main.

(* ================================================================================================================
   7. witnesses: the code before the repairs, and the recorded known finding
   ================================================================================================================ *)

Definition w_target : bytes := bs "example.com/m/target".
Definition w_origin : bytes := bs "example.com/m/origin".

Definition w_ti (name : string) (group : list (bytes * rhs)) (fs : list field) (omit repl : list bytes) : tinput :=
  mk_tinput (bs name) true group (Some fs) omit repl.

Definition w_sel (n : string) : rhs := RSel (Some (w_origin, bs n)).

(* #25: `json:"a.b"` through snippet.ID — the tag is split at the dot and the left part goes to the import tracker *)
Definition w_tag_field : field := mk_field (bs "A") (TBasic (bs "int")) (of_string "json:""a.b""").
Definition w_tag_ti : tinput := w_ti "x" [(bs "x", w_sel "T")] [w_tag_field] [] [].
Definition cfg_tag_unfixed : cfg := mk_cfg false true true true.

Lemma tag_refuted_before_fix :
  exists L g i,
    generate_type L w_target cfg_tag_unfixed w_tag_ti = TGen g i /\
    g_fields g <> [mk_gfield (bs "A") (OIdent (bs "int")) (f_tag w_tag_field)] /\
    In (of_string "json:""a") i.
Proof.
  exists (fun _ => bs "pkg").
  eexists. eexists. split; [vm_compute; reflexivity|]. split; [vm_compute; discriminate|].
  vm_compute. left. reflexivity.
Qed.

(* #25: `x.G[int` through snippet.ID — processName panics with "invalid type ref" *)
Definition w_tag_panic_ti : tinput :=
  w_ti "x" [(bs "x", w_sel "T")] [mk_field (bs "A") (TBasic (bs "int")) (bs "x.G[int")] [] [].

Lemma tag_panic_before_fix : forall L, generate_type L w_target cfg_tag_unfixed w_tag_panic_ti = TPanic.
Proof. intros L. vm_compute. reflexivity. Qed.

Lemma tag_fixed_witness : forall L,
  exists g i, generate_type L w_target all_fixed w_tag_panic_ti = TGen g i /\
              map gf_tag (g_fields g) = [bs "x.G[int"].
Proof. intros L. eexists. eexists. split; vm_compute; reflexivity. Qed.

(* #31: type ( a origin.A; b origin.B ) — the last spec's origin is used for a *)
Definition w_group : list (bytes * rhs) := [(bs "a", w_sel "A"); (bs "b", w_sel "B")].
Definition w_group_ti : tinput := w_ti "a" w_group [mk_field (bs "X") (TBasic (bs "int")) []] [] [].
Definition cfg_group_unfixed : cfg := mk_cfg true false true true.

Lemma origin_refuted_before_fix :
  origin_loop cfg_group_unfixed (ti_name w_group_ti) (ti_group w_group_ti) None = Some (w_origin, bs "B") /\
  own_origin w_group_ti = Some (w_origin, bs "A").
Proof. split; vm_compute; reflexivity. Qed.

(* a struct literal grouped with a named spec is not reported before the repair *)
Definition w_group_lit_ti : tinput :=
  w_ti "a" [(bs "a", ROther); (bs "b", w_sel "B")] [mk_field (bs "X") (TBasic (bs "int")) []] [] [].

Lemma group_error_refuted_before_fix : forall L,
  decl_error w_group_lit_ti = Some ENeedNamed /\
  exists g i, generate_type L w_target cfg_group_unfixed w_group_lit_ti = TGen g i.
Proof. intros L. split; [vm_compute; reflexivity|]. eexists. eexists. vm_compute. reflexivity. Qed.

(* #15 / #23 (prerequisites owned by C11 / C17): a field of type error *)
Definition w_err_ti : tinput := w_ti "x" [(bs "x", w_sel "T")] [mk_field (bs "Err") TError []] [] [].

Lemma error_field_refuted_before_prerequisites : forall L,
  generate_type L w_target (mk_cfg true true true false) w_err_ti = TPanic /\
  (forall imps, denotes imps w_target (fst (type_lit L w_target (mk_cfg true true false true) TError)) TError = false).
Proof. intros L. split; [vm_compute; reflexivity|]. intros imps. vm_compute. reflexivity. Qed.

(* #33 known finding: the origin package is imported as `o` and a map field mentions it *)
Definition w_o : bytes := bs "example.com/m/o".
Definition w_shadow_ti : tinput :=
  mk_tinput (bs "x") true [(bs "x", RSel (Some (w_o, bs "T")))]
            (Some [mk_field (bs "M") (TMap (TBasic (bs "string")) (TNamed w_o (bs "Inner") UStruct [])) []]) [] [].

Lemma scoping_refuted :
  exists g i, generate_type last_segment w_target all_fixed w_shadow_ti = TGen g i /\
              gtype_shadowed g = true /\ shadow_type w_target w_shadow_ti = true.
Proof. eexists. eexists. split; [vm_compute; reflexivity|]. split; vm_compute; reflexivity. Qed.

(* ================================================================================================================
   8. a non-trivial instance for the Examples of Props/C18.v
   ================================================================================================================ *)

Definition ex_time : bytes := bs "time".
Definition ex_fields : list field :=
  [ mk_field (bs "A") (TBasic (bs "int")) (of_string "json:""a.b"" yaml:""x""");
    mk_field (bs "B") (TSlice (TBasic (bs "string"))) (bs "x.G[int @q %d 'r'");
    mk_field (bs "C") (TMap (TBasic (bs "string")) (TNamed w_origin (bs "Inner") UStruct [])) [];
    mk_field (bs "D") (TPtr (TNamed ex_time (bs "Duration") UOther [])) (bs "d");
    mk_field (bs "I") (TNamed w_origin (bs "Inner") UStruct []) (of_string "json:""i""");
    mk_field (bs "E") TError [];
    mk_field (bs "G") TAny (bs "g") ].
Definition ex_ti : tinput :=
  mk_tinput (bs "x") true [(bs "y", RSel (Some (w_origin, bs "Inner"))); (bs "x", RSel (Some (w_origin, bs "T")))]
            (Some ex_fields) [bs "B"; bs "Nope"] [of_string "I:Y json:""ii"" yaml:""q.r"""; bs "bad"; bs "Nope:string"].


Lemma example_hypotheses :
  NoDup (map f_name ex_fields) /\ NoDup (map fst (ti_group ex_ti)) /\ shadow_type w_target ex_ti = false /\
  own_origin ex_ti = Some (w_origin, bs "T") /\
  (forall f t0 rest, In f ex_fields -> retained (ti_omit ex_ti) f = true ->
     lookup (f_name f) (replace_map (ti_replace ex_ti) []) = Some (t0 :: rest) -> ref_modelled last_segment w_target t0 = true).
Proof.
  split; [repeat constructor; cbn; intuition discriminate|].
  split; [repeat constructor; cbn; intuition discriminate|].
  split; [vm_compute; reflexivity|]. split; [vm_compute; reflexivity|].
  intros f t0 rest Hin _ Hl. cbn in Hin.
  repeat (destruct Hin as [E|Hin]; [subst f; vm_compute in Hl; try discriminate; inversion Hl; subst; vm_compute; reflexivity|]).
  contradiction.
Qed.

