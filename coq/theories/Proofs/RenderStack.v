(* RenderStack: the theorems about the composed rendering (C09 over C10 / C11 / C15 over C03) and about the file
   assembled from it (C01). *)
Require Import Gengo.Base.Bytes.
Require Import Gengo.Model.GoIdent Gengo.Model.RenderStack.
Require Import Gengo.Proofs.RenderStackTracker Gengo.Proofs.RenderStackSnippet Gengo.Proofs.RenderStackLeaves.
Require Gengo.Model.Snippet Gengo.Model.SnippetSpec Gengo.Proofs.Snippet.
Require Gengo.Model.TypeLit Gengo.Spec.TypeLit Gengo.Proofs.TypeLit Gengo.Proofs.RenderStackConcrete.
Require Gengo.Model.GenFile Gengo.Proofs.GenFile.
Require Gengo.Model.Tracker Gengo.Proofs.Tracker Gengo.Proofs.StdTable.
From Coq Require Import Permutation Sorted.

Module GF := Gengo.Model.GenFile.
Module TLS := Gengo.Spec.TypeLit.

Section Stack.
  Context {F : Type}.
  Variable fzero : F -> bool.
  Variables ffmt gfmt : VL.fkind -> F -> bytes.
  Variable fbig : F -> bool.
  Variable quote : bytes -> bytes.
  Variable cbq : bytes -> bool.
  Variable pre : list bytes.
  Variable std : option Tk.tracker.
  Variable self : bytes.
  Variable fx6 : bool.

  Notation pick := (pick_c03 pre std).
  Notation crender := (crender fzero ffmt gfmt fbig quote cbq pick self fx6).
  Notation crender_all := (crender_all fzero ffmt gfmt fbig quote cbq pick self fx6).
  Notation cerase := (cerase fzero ffmt gfmt fbig quote cbq pick self fx6).
  Notation leaf_regs := (leaf_regs fzero ffmt gfmt fbig quote self fx6).
  Notation raw_v_regs := (raw_v_regs fzero ffmt gfmt fbig quote self fx6).
  Notation raw_t_regs := (@raw_t_regs F self).
  Notation csnip := (@csnip F).
  Notation add_all := (add_all pick).

  (* the packages a term refers to: those of the leaves that are rendered (holes that occur, arguments a verb consumes) *)
  Definition cpkgs (s : csnip) : list bytes :=
    rpkgs_render (@leaf F) (@rawarg F) leaf_isnil leaf_regs raw_v_regs raw_t_regs s.

  Let ptotal := pick_total pre std.

  (* ---- 2a. text: the composed rendering is C09's rendering of the term whose leaves are replaced by what the
     component models render them to in the final tracker state ---- *)
  Theorem crender_erase : forall s e out e',
    crender s e = Ok (out, e') ->
    ext e e' /\
    forall e2, ext e' e2 ->
      crender s e2 = Ok (out, e2) /\ Sn.render Sn.all_fixed (cerase e2 s) = Ok out.
  Proof.
    intros s e out e' H. unfold RenderStack.crender, RenderStack.cerase in *.
    exact (rrender_erase TL.renv ext PTL.ext_refl PTL.ext_trans ext_antisym _ _ _ _ _ _
             (leaf_frag_stable fzero ffmt gfmt fbig quote cbq pick ptotal self fx6)
             (raw_v_stable fzero ffmt gfmt fbig quote pick ptotal self fx6)
             (raw_t_stable quote cbq pick ptotal self) s e out e' H).
  Qed.

  (* ... hence the specification of C09 itself, on C09's domain *)
  Corollary crender_spec : forall s e out e',
    crender s e = Ok (out, e') ->
    SS.fmts_utf8 (cerase e' s) = true -> SS.cls_nolit (cerase e' s) = false ->
    SS.spec_render SS.same OutOfFuel (cerase e' s) = Ok out.
  Proof.
    intros s e out e' H U N. destruct (crender_erase s e out e' H) as [_ R].
    destruct (R e' (PTL.ext_refl e')) as [_ P]. rewrite <- (Gengo.Proofs.Snippet.render_dom _ U N). exact P.
  Qed.

  (* ---- 2b. imports: the tracker after rendering is AddType of the referenced packages, in order, on the tracker
     before; so the registered set is exactly the old one plus the packages the term refers to ---- *)
  Theorem crender_reach : forall s e out e', crender s e = Ok (out, e') -> e' = add_all (cpkgs s) e.
  Proof.
    intros s e out e' H.
    exact (rrender_regs TL.renv (reached pick) (reached_refl pick) (reached_trans pick) _ _ _ _ _ _ _ _ _
             (leaf_frag_regs fzero ffmt gfmt fbig quote cbq pick ptotal self fx6)
             (raw_v_regs_ok fzero ffmt gfmt fbig quote pick ptotal self fx6)
             (raw_t_regs_ok quote cbq pick ptotal self) s e out e' H).
  Qed.

  Theorem crender_all_reach : forall l e out e', crender_all l e = Ok (out, e') -> e' = add_all (flat_map cpkgs l) e.
  Proof.
    intros l e out e' H.
    exact (rrender_all_regs TL.renv (reached pick) (reached_refl pick) (reached_trans pick) _ _ _ _ _ _ _ _ _
             (leaf_frag_regs fzero ffmt gfmt fbig quote cbq pick ptotal self fx6)
             (raw_v_regs_ok fzero ffmt gfmt fbig quote pick ptotal self fx6)
             (raw_t_regs_ok quote cbq pick ptotal self) l e out e' H).
  Qed.

  Corollary crender_imports : forall s e out e', crender s e = Ok (out, e') ->
    forall p, In p (map fst e') <-> In p (map fst e) \/ In p (cpkgs s).
  Proof. intros s e out e' H p. rewrite (crender_reach s e out e' H). apply (add_all_paths pick ptotal). Qed.

  (* and in C03's own vocabulary: the final tracker is C03's [add_all] (a history of AddType calls) on the first *)
  Corollary crender_all_is_history : forall l e out e', crender_all l e = Ok (out, e') ->
    Tk.add_all true pre std (tr_of e) (flat_map cpkgs l) = Ok (tr_of e').
  Proof.
    intros l e out e' H. rewrite (crender_all_reach l e out e' H).
    unfold RenderStack.add_all. rewrite fold_tr_add_simulation. apply fold_cadd_add_all.
  Qed.

  (* ---- the table a writer builds from the empty tracker ---- *)
  Definition name_ok (n : bytes) : Prop := valid_name_b n = true /\ lower_first n /\ name_in pre n = false.
  Definition table_ok (e : TL.renv) : Prop :=
    NoDup (map fst e) /\ NoDup (map snd e) /\ Forall name_ok (map snd e).

  Lemma table_ok_nil : table_ok [].
  Proof. repeat split; constructor. Qed.

  Lemma tr_add_table_ok : forall p e, table_ok e -> table_ok (TL.tr_add pick p e).
  Proof.
    intros p e (N1 & N2 & A). split; [apply tr_add_nodup, N1|].
    unfold TL.tr_add. destruct (TL.alookup p e) eqn:L; [auto|]. destruct (pick p e) as [n|] eqn:P; [|auto].
    destruct (pick_spec pre std p e n P) as (_ & _ & Fr & NP & V & LF). rewrite map_app. cbn [map snd]. split.
    - apply PTL.NoDup_app_one; assumption.
    - apply Forall_app. split; [exact A|]. constructor; [|constructor]. exact (conj V (conj LF NP)).
  Qed.

  Lemma add_all_table_ok : forall ps e, table_ok e -> table_ok (add_all ps e).
  Proof. induction ps as [|p r IH]; intros e H; [exact H|]. cbn. apply IH, tr_add_table_ok, H. Qed.

  (* no registration is the file's own package or the empty path *)
  Lemma tref_regs_foreign :
    (forall t p, In p (tref_regs self t) -> is_foreign self p = true) /\
    (forall l p, In p (trefs_regs self l) -> is_foreign self p = true).
  Proof.
    apply tref_mutind.
    - intros pkg name args IH p H. cbn [tref_regs] in H. apply in_app_iff in H. destruct H as [H|H]; [|apply IH, H].
      unfold is_foreign. destruct (is_nil pkg) eqn:E1; [destruct H|]. destruct (bytes_eqb pkg self) eqn:E2; [destruct H|].
      destruct H as [<-|[]]. rewrite E1, E2. reflexivity.
    - intros p [].
    - intros t IHt r IHr p H. cbn [trefs_regs] in H. apply in_app_iff in H. destruct H; auto.
  Qed.

  (* ---- every fragment of a body is rendered with the FINAL table ---- *)
  Lemma crender_all_erase : forall l e body e', crender_all l e = Ok (body, e') ->
    forall e2, ext e' e2 ->
    exists outs, Forall2 (fun s o => Sn.render Sn.all_fixed (cerase e2 s) = Ok o) l outs /\ body = concat outs.
  Proof.
    induction l as [|s r IH]; intros e body e' H e2 X.
    - cbn in H. unfold ret_st in H. inversion H; subst. exists []. split; [constructor|reflexivity].
    - unfold RenderStack.crender_all in H. cbn [rrender_all] in H. unfold emitr_st in H.
      fold (crender s e) in H.
      destruct (crender s e) as [[a e1]| |] eqn:E1; cbn [bind] in H; try discriminate.
      fold (crender_all r e1) in H.
      destruct (crender_all r e1) as [[b eb]| |] eqn:E2; cbn [bind] in H; try discriminate.
      inversion H; subst.
      destruct (IH _ _ _ E2 e2 X) as (outs & Ho & ->).
      assert (M : ext e1 e').
      { pose proof (rrender_all_stable TL.renv ext PTL.ext_refl PTL.ext_trans _ _ _ _ _ _
                      (leaf_frag_stable fzero ffmt gfmt fbig quote cbq pick ptotal self fx6)
                      (raw_v_stable fzero ffmt gfmt fbig quote pick ptotal self fx6)
                      (raw_t_stable quote cbq pick ptotal self) r e1 _ _ E2) as [L _]. exact L. }
      destruct (crender_erase s e a e1 E1) as [_ R]. destruct (R e2 (PTL.ext_trans _ _ _ M X)) as [_ P].
      exists (a :: outs). split; [constructor; assumption|reflexivity].
  Qed.

  (* ---- 3. the assembled file ---- *)
  Theorem file_imports : forall pkg gen frags body e',
    crender_all frags [] = Ok (body, e') ->
    (* the source handed to the formatter *)
    GF.assemble pkg gen e' body
      = GF.header_comment pkg gen ++ ([GF.nl] ++ bs "package " ++ pkg ++ [GF.nl]) ++ GF.import_block e' ++ body
    (* its import table: pairwise distinct paths under pairwise distinct names that are valid identifiers, not
       keywords, not "_", not upper-case (never exported-looking), not refused ([pre]: predeclared) *)
    /\ table_ok e'
    (* exactly the packages the rendered body refers to: none missing, none extra *)
    /\ (forall p, In p (map fst e') <-> In p (flat_map cpkgs frags))
    (* the block lists exactly the table, one line per entry, sorted by path *)
    /\ (e' = [] -> GF.import_block e' = [])
    /\ (e' <> [] ->
        exists entries,
          Permutation entries e' /\ StronglySorted Gengo.Proofs.GenFile.le (map fst entries) /\
          GF.import_block e'
          = GF.nl :: bs "import (" ++ [GF.nl]
            ++ flat_map (fun e => GF.tab :: snd e ++ bs " " ++ [GF.dquote] ++ fst e ++ [GF.dquote; GF.nl]) entries
            ++ bs ")" ++ [GF.nl])
    (* and the body is the concatenation of the fragments, each rendered (C09) with its leaves printed against THIS
       table: every qualifier in the body is the name the block binds to the package *)
    /\ exists outs, Forall2 (fun s o => Sn.render Sn.all_fixed (cerase e' s) = Ok o) frags outs /\ body = concat outs.
  Proof.
    intros pkg gen frags body e' H.
    pose proof (crender_all_reach frags [] body e' H) as R.
    assert (T : table_ok e') by (rewrite R; apply add_all_table_ok, table_ok_nil).
    split; [apply Gengo.Proofs.GenFile.assemble_shape|]. split; [exact T|]. split.
    - intros p. rewrite R, (add_all_paths pick ptotal). cbn. tauto.
    - split; [intros ->; exact (proj1 Gengo.Proofs.GenFile.imports_claim)|]. split.
      + intros Hne. exact (proj2 Gengo.Proofs.GenFile.imports_claim e' Hne (proj1 T)).
      + exact (crender_all_erase frags [] body e' H e' (PTL.ext_refl e')).
  Qed.

  (* ---- what a leaf registers, read off the leaf alone ---- *)
  Lemma idarg_regs_not_self : forall x p, In p (idarg_regs self parse_c15 x) -> p <> self.
  Proof.
    assert (T : forall t p, In p (tref_regs self t) -> p <> self).
    { intros t p H. pose proof (proj1 tref_regs_foreign t p H) as Fg. unfold is_foreign in Fg.
      apply andb_true_iff in Fg. destruct Fg as [_ Fg]. apply negb_true_iff in Fg. intros ->. rewrite bytes_eqb_refl in Fg. discriminate. }
    assert (N : forall pkg name p, In p (name_regs self parse_c15 pkg name) -> p <> self).
    { intros pkg name p H. unfold name_regs in H. apply in_app_iff in H. destruct H as [H|H].
      - destruct (parse_c15 name) as [[q n [|a0 r0]]|]; try (destruct H; fail). exact (T _ _ H).
      - destruct (bytes_eqb pkg self) eqn:E; [destruct H|]. destruct H as [<-|[]]. intros ->. rewrite bytes_eqb_refl in E. discriminate. }
    assert (V : (forall v p, In p (RenderStack.view_regs self parse_c15 v) -> p <> self) /\
                (forall fs p, In p (RenderStack.fields_regs self parse_c15 fs) -> p <> self)).
    { apply tyview_mutind; try (intros; cbn in *; contradiction).
      - intros pkg name p H. exact (N _ _ _ H).
      - intros x IH p H. exact (IH p H).
      - intros x IH p H. exact (IH p H).
      - intros fs IH p H. exact (IH p H).
      - intros n x IH p H. exact (IH p H).
      - intros x IH p H. exact (IH p H).
      - intros k IHk x IHx p H. change (RenderStack.view_regs self parse_c15 (TL.VMap k x)) with (RenderStack.view_regs self parse_c15 k ++ RenderStack.view_regs self parse_c15 x) in H.
        apply in_app_iff in H. destruct H; auto.
      - intros name anon t IHt tag rest IHr p H.
        change (RenderStack.fields_regs self parse_c15 (TL.VFCons name anon t tag rest)) with (RenderStack.view_regs self parse_c15 t ++ RenderStack.fields_regs self parse_c15 rest) in H.
        apply in_app_iff in H. destruct H; auto. }
    intros x p H. destruct x as [s|s|pk n tps|v|v|]; cbn [idarg_regs] in H.
    - destruct (TL.parse_ref s) as [[pk n]|]; [exact (N _ _ _ H)|destruct H].
    - destruct (TL.parse_ref s) as [[pk n]|]; [exact (N _ _ _ H)|destruct H].
    - exact (N _ _ _ H).
    - exact (proj1 V _ _ H).
    - exact (proj1 V _ _ H).
    - destruct H.
  Qed.

  Lemma cpkgs_not_self : forall s p, In p (cpkgs s) -> p <> self.
  Proof.
    intros s p H. unfold cpkgs in H. revert s p H. apply rpkgs_render_forall.
    - intros [[[t v]|]|[x|]|pk n] p H; cbn [RenderStack.leaf_regs] in H; try (destruct H; fail).
      + unfold leaf_value_regs in H. apply filter_In in H. destruct H as [_ Fg]. unfold is_foreign in Fg.
        apply andb_true_iff in Fg. destruct Fg as [_ Fg]. apply negb_true_iff in Fg. intros ->. rewrite bytes_eqb_refl in Fg. discriminate.
      + exact (idarg_regs_not_self _ _ H).
      + exact (idarg_regs_not_self _ _ H).
    - intros [t v| |x] p H; cbn [RenderStack.raw_v_regs] in H; try (destruct H; fail).
      unfold leaf_value_regs in H. apply filter_In in H. destruct H as [_ Fg]. unfold is_foreign in Fg.
      apply andb_true_iff in Fg. destruct Fg as [_ Fg]. apply negb_true_iff in Fg. intros ->. rewrite bytes_eqb_refl in Fg. discriminate.
    - intros [t v| |x] p H; cbn [RenderStack.raw_t_regs] in H; try (destruct H; fail).
      + destruct t; try (destruct H; fail). destruct v; try (destruct H; fail). exact (idarg_regs_not_self _ _ H).
      + exact (idarg_regs_not_self _ _ H).
  Qed.

  Lemma body_table_not_self : forall frags body e', crender_all frags [] = Ok (body, e') -> ~ In self (map fst e').
  Proof.
    intros frags body e' H Hin. rewrite (crender_all_reach frags [] body e' H) in Hin.
    apply (add_all_paths pick ptotal) in Hin. destruct Hin as [[]|Hin].
    apply in_flat_map in Hin. destruct Hin as (s & _ & Hp). exact (cpkgs_not_self s self Hp eq_refl).
  Qed.

  (* value leaves, repaired code: exactly the foreign packages the literal mentions *)
  Lemma value_regs_exact : forall local t v l,
    fx6 = true ->
    vlit fzero ffmt gfmt fbig quote local false t v = Ok l ->
    keys_distinct fzero ffmt gfmt fbig quote local t v = true ->
    forall p, In p (leaf_value_regs fzero ffmt gfmt fbig quote self fx6 t v) <-> In p (filter (is_foreign self) (lit_pkgs l)).
  Proof.
    intros local t v l -> H K p. unfold leaf_value_regs. rewrite !filter_In. split; intros [H1 H2]; (split; [|exact H2]).
    - exact (value_regs_used fzero ffmt gfmt fbig quote v local false t l H K p H1).
    - exact (value_lit_pkgs fzero ffmt gfmt fbig quote true v local false t l H p H1).
  Qed.

  Lemma add_all_registered : forall ps e, (forall p, In p ps -> In p (map fst e)) -> add_all ps e = e.
  Proof.
    induction ps as [|p r IH]; intros e H; [reflexivity|]. cbn.
    assert (E : TL.tr_add pick p e = e).
    { unfold TL.tr_add. destruct (TL.alookup p e) eqn:L; [reflexivity|]. exfalso.
      apply alookup_none_notin in L. apply L, H. left. reflexivity. }
    rewrite E. apply IH. intros q Hq. apply H. right. exact Hq.
  Qed.
End Stack.

(* ---- type leaves: C11's theorems at the table of the assembled file (the tracker of the current tree) ---- *)
Section TypeLeaves.
  Variable self : bytes.
  Variable cbq : bytes -> bool.
  Hypothesis Hc : PTL.cbq_hyp cbq.

  Import Gengo.Spec.TypeLit.

  (* ident.Frag registers exactly the foreign packages of the type *)
  Lemma idarg_regs_exact : forall x g,
    PTL.renders x g -> in_domain PTL.all_tags self g = true ->
    forall p, In p (idarg_regs self parse_c15 x) <-> In p (foreign_pkgs self g).
  Proof.
    intros x g Hx Hd p.
    destruct (Gengo.Proofs.RenderStackConcrete.c11_total_concrete self cbq Hc x g [] Hx Hd
                (Gengo.Proofs.RenderStackConcrete.tracker_inv_nil self)) as (a & e' & E).
    destruct (Gengo.Proofs.RenderStackConcrete.c11_imports_exact_concrete self cbq Hc x g [] a e' Hx Hd
                (Gengo.Proofs.RenderStackConcrete.tracker_inv_nil self) E) as (_ & _ & P).
    destruct (ident_frag_spec the_pick (pick_total the_pre the_std) parse_c15 self cbq true true x [] a e' E) as [R _].
    rewrite R in P. specialize (P p). rewrite (add_all_paths the_pick (pick_total the_pre the_std)) in P. cbn [map In] in P. tauto.
  Qed.

  Lemma table_ok_inv : forall e, table_ok the_pre e -> ~ In self (map fst e) ->
    PTL.tracker_inv self e /\ Forall PTL.lower_name (map snd e).
  Proof.
    intros e (N1 & N2 & A) Hs. split.
    - unfold PTL.tracker_inv, PTL.inv. repeat split; try assumption.
      + rewrite Forall_forall in *. intros n Hn. destruct (A n Hn) as (V & _ & _). apply Gengo.Proofs.Tracker.valid_name_nonempty, V.
      + rewrite Forall_forall. intros; exact I.
    - rewrite Forall_forall in *. intros n Hn. destruct (A n Hn) as (_ & [_ LF] & NP). split; [|exact LF].
      destruct (is_predeclared n) eqn:E; [|reflexivity]. exfalso.
      apply Gengo.Proofs.StdTable.c11_predeclared_in_universe in E. apply Gengo.Proofs.Tracker.name_in_spec in E.
      unfold the_pre in NP. congruence.
  Qed.

  (* a type all of whose packages the file imports renders, against the file's table, to an expression that leaves the
     table alone and that denotes the type when it is read through that table *)
  Theorem type_leaf_denotes : forall e' x g,
    table_ok the_pre e' -> ~ In self (map fst e') ->
    PTL.renders x g -> in_domain PTL.all_tags self g = true -> locals_exported self g = true ->
    (forall p, In p (foreign_pkgs self g) -> In p (map fst e')) ->
    exists a, TL.ident_frag the_pick parse_c15 self cbq true true x e' = Ok (a, e') /\
              resolve e' self a = Some (canon g).
  Proof.
    intros e' x g T Hs Hx Hd Hl Hin. destruct (table_ok_inv e' T Hs) as [I L].
    destruct (Gengo.Proofs.RenderStackConcrete.c11_total_concrete self cbq Hc x g e' Hx Hd I) as (a & e2 & E).
    destruct (ident_frag_spec the_pick (pick_total the_pre the_std) parse_c15 self cbq true true x e' a e2 E) as [R _].
    assert (E2 : e2 = e').
    { rewrite R. apply add_all_registered. intros p Hp. apply Hin. apply (idarg_regs_exact x g Hx Hd). exact Hp. }
    clear R. subst e2. exists a. split; [exact E|].
    exact (Gengo.Proofs.RenderStackConcrete.c11_roundtrip_exported_concrete self cbq Hc x g e' a e' Hx Hd Hl I L E).
  Qed.
End TypeLeaves.
