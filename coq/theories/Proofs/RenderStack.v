(* RenderStack: the theorems about the composed rendering (C09 over C10 / C11 / C15 over C03) and about the file
   assembled from it (C01). *)
Require Import Gengo.Base.Bytes.
Require Import Gengo.Model.GoIdent Gengo.Model.RenderStack.
Require Import Gengo.Proofs.RenderStackTracker Gengo.Proofs.RenderStackSnippet Gengo.Proofs.RenderStackLeaves.
Require Gengo.Model.Snippet Gengo.Model.SnippetSpec Gengo.Proofs.Snippet.
Require Gengo.Model.TypeLit Gengo.Spec.TypeLit Gengo.Proofs.TypeLit Gengo.Proofs.RenderStackConcrete.
Require Gengo.Model.GenFile Gengo.Proofs.GenFile.
Require Gengo.Model.Tracker Gengo.Proofs.Tracker Gengo.Proofs.StdTable.
From Coq Require Import Permutation Sorted.

Module GF := Gengo.Model.GenFile.
Module TLS := Gengo.Spec.TypeLit.

Section Stack.
  Context {F : Type}.
  Variable fzero : F -> bool.
  Variables ffmt gfmt : VL.fkind -> F -> bytes.
  Variable fbig : F -> bool.
  Variable quote : bytes -> bytes.
  Variable cbq : bytes -> bool.
  Variable pre : list bytes.
  Variable std : option Tk.tracker.
  Variable self : bytes.
  Variable fx6 : bool.

  Notation pick := (pick_c03 pre std).
  Notation crender := (crender fzero ffmt gfmt fbig quote cbq pick self fx6).
  Notation crender_all := (crender_all fzero ffmt gfmt fbig quote cbq pick self fx6).
  Notation cerase := (cerase fzero ffmt gfmt fbig quote cbq pick self fx6).
  Notation leaf_regs := (leaf_regs fzero ffmt gfmt fbig quote self fx6).
  Notation raw_v_regs := (raw_v_regs fzero ffmt gfmt fbig quote self fx6).
  Notation raw_t_regs := (@raw_t_regs F self).
  Notation csnip := (@csnip F).
  Notation add_all := (add_all pick).

  (* the packages a term refers to: those of the leaves that are rendered (holes that occur, arguments a verb consumes) *)
  Definition cpkgs (s : csnip) : list bytes :=
    rpkgs_render (@leaf F) (@rawarg F) leaf_isnil leaf_regs raw_v_regs raw_t_regs s.

  Let ptotal := pick_total pre std.

  (* ---- 2a. text: the composed rendering is C09's rendering of the term whose leaves are replaced by what the
     component models render them to in the final tracker state ---- *)
  Theorem crender_erase : forall s e out e',
    crender s e = Ok (out, e') ->
    ext e e' /\
    forall e2, ext e' e2 ->
      crender s e2 = Ok (out, e2) /\ Sn.render Sn.all_fixed (cerase e2 s) = Ok out.
  Proof.
    intros s e out e' H. unfold RenderStack.crender, RenderStack.cerase in *.
    exact (rrender_erase TL.renv ext PTL.ext_refl PTL.ext_trans ext_antisym _ _ _ _ _ _
             (leaf_frag_stable fzero ffmt gfmt fbig quote cbq pick ptotal self fx6)
             (raw_v_stable fzero ffmt gfmt fbig quote pick ptotal self fx6)
             (raw_t_stable quote cbq pick ptotal self) s e out e' H).
  Qed.

  (* ... hence the specification of C09 itself, on C09's domain *)
  Corollary crender_spec : forall s e out e',
    crender s e = Ok (out, e') ->
    SS.fmts_utf8 (cerase e' s) = true -> SS.cls_bom (cerase e' s) = false -> SS.cls_nolit (cerase e' s) = false ->
    SS.spec_render SS.same OutOfFuel (cerase e' s) = Ok out.
  Proof.
    intros s e out e' H U B N. destruct (crender_erase s e out e' H) as [_ R].
    destruct (R e' (PTL.ext_refl e')) as [_ P]. rewrite <- (Gengo.Proofs.Snippet.render_dom_classes _ U B N). exact P.
  Qed.

  (* ---- 2b. imports: the tracker after rendering is AddType of the referenced packages, in order, on the tracker
     before; so the registered set is exactly the old one plus the packages the term refers to ---- *)
  Theorem crender_reach : forall s e out e', crender s e = Ok (out, e') -> e' = add_all (cpkgs s) e.
  Proof.
    intros s e out e' H.
    exact (rrender_regs TL.renv (reached pick) (reached_refl pick) (reached_trans pick) _ _ _ _ _ _ _ _ _
             (leaf_frag_regs fzero ffmt gfmt fbig quote cbq pick ptotal self fx6)
             (raw_v_regs_ok fzero ffmt gfmt fbig quote pick ptotal self fx6)
             (raw_t_regs_ok quote cbq pick ptotal self) s e out e' H).
  Qed.

  Theorem crender_all_reach : forall l e out e', crender_all l e = Ok (out, e') -> e' = add_all (flat_map cpkgs l) e.
  Proof.
    intros l e out e' H.
    exact (rrender_all_regs TL.renv (reached pick) (reached_refl pick) (reached_trans pick) _ _ _ _ _ _ _ _ _
             (leaf_frag_regs fzero ffmt gfmt fbig quote cbq pick ptotal self fx6)
             (raw_v_regs_ok fzero ffmt gfmt fbig quote pick ptotal self fx6)
             (raw_t_regs_ok quote cbq pick ptotal self) l e out e' H).
  Qed.

  Corollary crender_imports : forall s e out e', crender s e = Ok (out, e') ->
    forall p, In p (map fst e') <-> In p (map fst e) \/ In p (cpkgs s).
  Proof. intros s e out e' H p. rewrite (crender_reach s e out e' H). apply (add_all_paths pick ptotal). Qed.

  (* and in C03's own vocabulary: the final tracker is C03's [add_all] (a history of AddType calls) on the first *)
  Corollary crender_all_is_history : forall l e out e', crender_all l e = Ok (out, e') ->
    Tk.add_all true pre std (tr_of e) (flat_map cpkgs l) = Ok (tr_of e').
  Proof.
    intros l e out e' H. rewrite (crender_all_reach l e out e' H).
    unfold RenderStack.add_all. rewrite fold_tr_add_simulation. apply fold_cadd_add_all.
  Qed.

  (* ---- the table a writer builds from the empty tracker ---- *)
  Definition name_ok (n : bytes) : Prop := valid_name_b n = true /\ lower_first n /\ name_in pre n = false.
  Definition table_ok (e : TL.renv) : Prop :=
    NoDup (map fst e) /\ NoDup (map snd e) /\ Forall name_ok (map snd e).

  Lemma table_ok_nil : table_ok [].
  Proof. repeat split; constructor. Qed.

  Lemma tr_add_table_ok : forall p e, table_ok e -> table_ok (TL.tr_add pick p e).
  Proof.
    intros p e (N1 & N2 & A). split; [apply tr_add_nodup, N1|].
    unfold TL.tr_add. destruct (TL.alookup p e) eqn:L; [auto|]. destruct (pick p e) as [n|] eqn:P; [|auto].
    destruct (pick_spec pre std p e n P) as (_ & _ & Fr & NP & V & LF). rewrite map_app. cbn [map snd]. split.
    - apply PTL.NoDup_app_one; assumption.
    - apply Forall_app. split; [exact A|]. constructor; [|constructor]. exact (conj V (conj LF NP)).
  Qed.

  Lemma add_all_table_ok : forall ps e, table_ok e -> table_ok (add_all ps e).
  Proof. induction ps as [|p r IH]; intros e H; [exact H|]. cbn. apply IH, tr_add_table_ok, H. Qed.

  (* no registration is the file's own package or the empty path *)
  Lemma tref_regs_foreign :
    (forall t p, In p (tref_regs self t) -> is_foreign self p = true) /\
    (forall l p, In p (trefs_regs self l) -> is_foreign self p = true).
  Proof.
    apply tref_mutind.
    - intros pkg name args IH p H. cbn [tref_regs] in H. apply in_app_iff in H. destruct H as [H|H]; [|apply IH, H].
      unfold is_foreign. destruct (is_nil pkg) eqn:E1; [destruct H|]. destruct (bytes_eqb pkg self) eqn:E2; [destruct H|].
      destruct H as [<-|[]]. rewrite E1, E2. reflexivity.
    - intros p [].
    - intros t IHt r IHr p H. cbn [trefs_regs] in H. apply in_app_iff in H. destruct H; auto.
  Qed.

  (* ---- every fragment of a body is rendered with the FINAL table ---- *)
  Lemma crender_all_erase : forall l e body e', crender_all l e = Ok (body, e') ->
    forall e2, ext e' e2 ->
    exists outs, Forall2 (fun s o => Sn.render Sn.all_fixed (cerase e2 s) = Ok o) l outs /\ body = concat outs.
  Proof.
    induction l as [|s r IH]; intros e body e' H e2 X.
    - cbn in H. unfold ret_st in H. inversion H; subst. exists []. split; [constructor|reflexivity].
    - unfold RenderStack.crender_all in H. cbn [rrender_all] in H. unfold emitr_st in H.
      fold (crender s e) in H.
      destruct (crender s e) as [[a e1]| |] eqn:E1; cbn [bind] in H; try discriminate.
      fold (crender_all r e1) in H.
      destruct (crender_all r e1) as [[b eb]| |] eqn:E2; cbn [bind] in H; try discriminate.
      inversion H; subst.
      destruct (IH _ _ _ E2 e2 X) as (outs & Ho & ->).
      assert (M : ext e1 e').
      { pose proof (rrender_all_stable TL.renv ext PTL.ext_refl PTL.ext_trans _ _ _ _ _ _
                      (leaf_frag_stable fzero ffmt gfmt fbig quote cbq pick ptotal self fx6)
                      (raw_v_stable fzero ffmt gfmt fbig quote pick ptotal self fx6)
                      (raw_t_stable quote cbq pick ptotal self) r e1 _ _ E2) as [L _]. exact L. }
      destruct (crender_erase s e a e1 E1) as [_ R]. destruct (R e2 (PTL.ext_trans _ _ _ M X)) as [_ P].
      exists (a :: outs). split; [constructor; assumption|reflexivity].
  Qed.

  (* ---- 3. the assembled file ---- *)
  Theorem file_imports : forall pkg gen frags body e',
    crender_all frags [] = Ok (body, e') ->
    (* the source handed to the formatter *)
    GF.assemble pkg gen e' body
      = GF.header_comment pkg gen ++ ([GF.nl] ++ bs "package " ++ pkg ++ [GF.nl]) ++ GF.import_block e' ++ body
    (* its import table: pairwise distinct paths under pairwise distinct names that are valid identifiers, not
       keywords, not "_", not upper-case (never exported-looking), not refused ([pre]: predeclared) *)
    /\ table_ok e'
    (* exactly the packages the rendered body refers to: none missing, none extra *)
    /\ (forall p, In p (map fst e') <-> In p (flat_map cpkgs frags))
    (* the block lists exactly the table, one line per entry, sorted by path *)
    /\ (e' = [] -> GF.import_block e' = [])
    /\ (e' <> [] ->
        exists entries,
          Permutation entries e' /\ StronglySorted Gengo.Proofs.GenFile.le (map fst entries) /\
          GF.import_block e'
          = GF.nl :: bs "import (" ++ [GF.nl]
            ++ flat_map (fun e => GF.tab :: snd e ++ bs " " ++ [GF.dquote] ++ fst e ++ [GF.dquote; GF.nl]) entries
            ++ bs ")" ++ [GF.nl])
    (* and the body is the concatenation of the fragments, each rendered (C09) with its leaves printed against THIS
       table: every qualifier in the body is the name the block binds to the package *)
    /\ exists outs, Forall2 (fun s o => Sn.render Sn.all_fixed (cerase e' s) = Ok o) frags outs /\ body = concat outs.
  Proof.
    intros pkg gen frags body e' H.
    pose proof (crender_all_reach frags [] body e' H) as R.
    assert (T : table_ok e') by (rewrite R; apply add_all_table_ok, table_ok_nil).
    split; [apply Gengo.Proofs.GenFile.assemble_shape|]. split; [exact T|]. split.
    - intros p. rewrite R, (add_all_paths pick ptotal). cbn. tauto.
    - split; [intros ->; exact (proj1 Gengo.Proofs.GenFile.imports_claim)|]. split.
      + intros Hne. exact (proj2 Gengo.Proofs.GenFile.imports_claim e' Hne (proj1 T)).
      + exact (crender_all_erase frags [] body e' H e' (PTL.ext_refl e')).
  Qed.
End Stack.
