(* RenderStack: two models of the same code agree.  snippet.ID(string) -> ParseRef -> rawNamer.Name -> processName is
   modelled twice: by C15 (Model/TypeRef.v [snippet_id], text, abstract tracker) and by C11 (Model/TypeLit.v
   [ident_frag (IdStr s)], syntax tree, tracker = [pick], parser = [parse_tref]).  With C03's tracker under both and
   C15's parser under C11 they compute the same thing on EVERY string: same panics, same text, same tracker. *)
Require Import Gengo.Base.Bytes.
Require Import Gengo.Model.RenderStack Gengo.Proofs.RenderStackTracker.
Require Gengo.Model.TypeLit Gengo.Proofs.TypeLit Gengo.Model.TypeRef Gengo.Proofs.TypeRef.
Require Import Gengo.Proofs.RenderStackLeaves.

Module PTR := Gengo.Proofs.TypeRef.
From Coq Require Import Arith.
Open Scope nat_scope.

(* ---- the byte searches are the same functions ---- *)
Lemma index_agree : forall c s, TL.index_of c s = TR.index_byte c s.
Proof. induction s as [|x r IH]; cbn; [reflexivity|]. rewrite IH. reflexivity. Qed.

Lemma last_index_agree : forall c s, TL.last_index_of c s = TR.last_index_byte c s.
Proof. induction s as [|x r IH]; cbn; [reflexivity|]. rewrite IH. reflexivity. Qed.

Lemma index_byte_lt : forall c s i, TR.index_byte c s = Some i -> i < length s.
Proof.
  intros c s i H. destruct (PTR.index_byte_spec c s i H) as (a & b & -> & <- & _). rewrite app_length. cbn. lia.
Qed.

Lemma last_index_byte_lt : forall c s i, TR.last_index_byte c s = Some i -> i < length s.
Proof.
  intros c s i H. destruct (PTR.last_index_byte_spec c s i H) as (a & b & -> & <- & _). rewrite app_length. cbn. lia.
Qed.

Lemma substr_prefix : forall s i, i <= length s -> TR.substr s 0 i = Ok (firstn i s).
Proof.
  intros s i H. unfold TR.substr. cbn [Nat.leb]. apply PeanoNat.Nat.leb_le in H. rewrite H. cbn [andb skipn]. rewrite PeanoNat.Nat.sub_0_r. reflexivity.
Qed.

Lemma substr_suffix : forall s k, k <= length s -> TR.substr s k (length s) = Ok (skipn k s).
Proof.
  intros s k H. unfold TR.substr. pose proof H as H'. apply PeanoNat.Nat.leb_le in H'. rewrite H', PeanoNat.Nat.leb_refl. cbn [andb].
  rewrite <- (skipn_length k s). rewrite firstn_all. reflexivity.
Qed.

Lemma parse_ref_agree : forall s, TR.parse_ref s = Ok (TL.parse_ref s).
Proof.
  intros s. unfold TR.parse_ref, TL.parse_ref, TR.cut_bracket. change TL.index_of with TR.index_byte. unfold TL.lbrack, TR.lbr.
  assert (B : exists base, (match TR.index_byte "["%char s with
                            | Some i => if 0 <? i then TR.substr s 0 i else Ok s
                            | None => Ok s
                            end) = Ok base
                           /\ base = (match TR.index_byte "["%char s with Some (S i) => firstn (S i) s | _ => s end)
                           /\ length base <= length s).
  { destruct (TR.index_byte "["%char s) as [[|i]|] eqn:E; try (exists s; repeat split; reflexivity || lia).
    pose proof (index_byte_lt _ _ _ E) as L. cbn [Nat.ltb Nat.leb]. rewrite substr_prefix by lia.
    exists (firstn (S i) s). repeat split. rewrite firstn_length. lia. }
  destruct B as (base & -> & Eb & Lb). cbn [bind]. rewrite <- Eb. change TL.last_index_of with TR.last_index_byte. unfold TL.dot, TR.dot.
  destruct (TR.last_index_byte "."%char base) as [[|j]|] eqn:E; try reflexivity.
  pose proof (last_index_byte_lt _ _ _ E) as L. cbn [Nat.ltb Nat.leb].
  rewrite substr_prefix by lia. cbn [bind]. replace (S j + 1) with (S (S j)) by lia.
  rewrite substr_suffix by lia. reflexivity.
Qed.

(* ---- printing: C15's String() on its trees = C11's on the converted trees ---- *)
Lemma to15_of15 : forall t, to15 (of15 t) = t.
Proof.
  induction t as [p n args IH] using PTR.tref_ind'. rewrite of15_eq. cbn [to15]. f_equal.
  induction IH as [|a r Ha _ IHr]; [reflexivity|]. cbn [of15s to15s]. rewrite Ha, IHr. reflexivity.
Qed.

Lemma print_of15 : forall t, TL.tref_string (of15 t) = TR.print t.
Proof. intros t. rewrite <- (proj1 print_to15 (of15 t)), to15_of15. reflexivity. Qed.

Scheme tref_mind' := Induction for TL.tref Sort Prop
  with trefs_mind' := Induction for TL.trefs Sort Prop.
Combined Scheme tref_mutind' from tref_mind', trefs_mind'.

Lemma print_named_eq : forall quote q name args,
  TL.print quote (TL.ANamed q name args) =
  (if is_nil q then [] else q ++ [TL.dot]) ++ name ++
  (match args with TL.ANil => [] | _ => [TL.lbrack] ++ TL.print_args quote args ++ [TL.rbrack] end).
Proof. reflexivity. Qed.

Lemma tref_string_eq : forall pkg name args,
  TL.tref_string (TL.TRef pkg name args) =
  (if is_nil pkg then [] else pkg ++ [TL.dot]) ++ name ++
  (match args with TL.TRNil => [] | _ => [TL.lbrack] ++ TL.trefs_string args ++ [TL.rbrack] end).
Proof. reflexivity. Qed.

Lemma print_args_cons : forall quote t r,
  TL.print_args quote (TL.ACons t r) =
  match r with TL.ANil => TL.print quote t | _ => TL.print quote t ++ [TL.comma] ++ TL.print_args quote r end.
Proof. intros quote t [|t2 r2]; reflexivity. Qed.

Lemma trefs_string_cons : forall t r,
  TL.trefs_string (TL.TRCons t r) =
  match r with TL.TRNil => TL.tref_string t | _ => TL.tref_string t ++ [TL.comma] ++ TL.trefs_string r end.
Proof. intros t [|t2 r2]; reflexivity. Qed.

Lemma print_asts :
  (forall t quote, TL.print quote (TL.ast_of_tref t) = TL.tref_string t) /\
  (forall l quote, TL.print_args quote (TL.asts_of_trefs l) = TL.trefs_string l).
Proof.
  apply tref_mutind'.
  - intros pkg name args IH quote.
    change (TL.ast_of_tref (TL.TRef pkg name args)) with (TL.ANamed pkg name (TL.asts_of_trefs args)).
    rewrite print_named_eq, tref_string_eq, (IH quote). destruct args; reflexivity.
  - reflexivity.
  - intros t IHt r IHr quote.
    change (TL.asts_of_trefs (TL.TRCons t r)) with (TL.ACons (TL.ast_of_tref t) (TL.asts_of_trefs r)).
    rewrite print_args_cons, trefs_string_cons, IHt, (IHr quote). destruct r; reflexivity.
Qed.

Lemma print_named_self : forall quote t, TL.print quote (TL.named_ast false [] t []) = TL.tref_string t.
Proof.
  intros quote [[|c q] n args]; cbn [TL.named_ast andb]; [|reflexivity].
  change (TL.ANamed [] n (TL.asts_of_trefs args)) with (TL.ast_of_tref (TL.TRef [] n args)). apply print_asts.
Qed.

Lemma print_named_foreign : forall quote q t, TL.print quote (TL.named_ast true q t []) = q ++ [TL.dot] ++ TL.tref_string t.
Proof.
  intros quote q [[|c p] n args]; cbn [TL.named_ast andb]; [|cbn [TL.print]; rewrite <- app_assoc; reflexivity].
  destruct q as [|c q]; cbn [is_nil]; [reflexivity|].
  rewrite print_named_eq, tref_string_eq. cbn [is_nil app]. rewrite <- app_assoc. f_equal. f_equal. f_equal.
  rewrite (proj2 print_asts args quote). destruct args; reflexivity.
Qed.

Section Agree.
  Variable pre : list bytes.
  Variable std : option Tk.tracker.
  Variable self : bytes.
  Variable cbq : bytes -> bool.
  Variables fe ft : bool.
  Variable quote : bytes -> bytes.

  Notation pick := (pick_c03 pre std).
  Notation cadd := (cadd pre std).
  Notation walk11 := (TL.walk pick self).
  Notation walks11 := (TL.walks pick self).
  Notation walk15 := (TR.walk Tk.tracker cadd cname self).
  Notation walk_list15 := (TR.walk_list Tk.tracker cadd cname self).

  Definition nd (e : TL.renv) : Prop := NoDup (map fst e).

  Lemma walk15_eq : forall p n args tr,
    walk15 (TR.TRef p n args) tr =
    let '(p', tr1) := TR.visit Tk.tracker cadd cname self p tr in
    let '(args', tr2) := walk_list15 args tr1 in
    (TR.TRef p' n args', tr2).
  Proof. reflexivity. Qed.

  Lemma walk11_eq : forall pkg name args e,
    walk11 (TL.TRef pkg name args) e =
    let '(pkg', e1) :=
      if is_nil pkg then (pkg, e)
      else if bytes_eqb pkg self then ([], e)
      else let e1 := TL.tr_add pick pkg e in (TL.local_name_of pkg e1, e1) in
    let '(args', e2) := walks11 args e1 in
    (TL.TRef pkg' name args', e2).
  Proof. reflexivity. Qed.

  Lemma walks11_cons : forall t r e,
    walks11 (TL.TRCons t r) e =
    let '(t', e1) := walk11 t e in let '(r', e2) := walks11 r e1 in (TL.TRCons t' r', e2).
  Proof. reflexivity. Qed.

  Lemma walk_list15_cons : forall a r tr,
    walk_list15 (a :: r) tr =
    let '(a', tra) := walk15 a tr in let '(r', trr) := walk_list15 r tra in (a' :: r', trr).
  Proof. reflexivity. Qed.

  Definition walk_ok (t : TR.tref) : Prop :=
    forall e, nd e ->
      fst (walk11 (of15 t) e) = of15 (fst (walk15 t (tr_of e))) /\
      snd (walk15 t (tr_of e)) = tr_of (snd (walk11 (of15 t) e)) /\
      nd (snd (walk11 (of15 t) e)).

  Lemma walks_agree : forall l, Forall walk_ok l -> forall e, nd e ->
    fst (walks11 (of15s l) e) = of15s (fst (walk_list15 l (tr_of e))) /\
    snd (walk_list15 l (tr_of e)) = tr_of (snd (walks11 (of15s l) e)) /\
    nd (snd (walks11 (of15s l) e)).
  Proof.
    intros l H. induction H as [|t r Ht _ IHr]; intros e He; [cbn; auto|].
    rewrite walk_list15_cons. cbn [of15s]. rewrite walks11_cons.
    destruct (Ht e He) as (A1 & A2 & A3).
    destruct (walk11 (of15 t) e) as [t1 e1]. destruct (walk15 t (tr_of e)) as [t2 tr1]. cbn [fst snd] in *. subst tr1 t1.
    destruct (IHr e1 A3) as (B1 & B2 & B3).
    destruct (walks11 (of15s r) e1) as [r1 e2]. destruct (walk_list15 r (tr_of e1)) as [r2 tr2]. cbn [fst snd] in *. subst.
    cbn [of15s]. repeat split; assumption || reflexivity.
  Qed.

  Lemma walk_agree : forall t, walk_ok t.
  Proof.
    induction t as [p n args IH] using PTR.tref_ind'. intros e He.
    rewrite of15_eq, walk11_eq, walk15_eq. unfold TR.visit.
    destruct (is_nil p) eqn:En.
    - destruct (walks_agree args IH e He) as (B1 & B2 & B3).
      destruct (walks11 (of15s args) e) as [r1 e2]. destruct (walk_list15 args (tr_of e)) as [r2 tr2]. cbn [fst snd] in *. subst.
      rewrite of15_eq. repeat split; assumption || reflexivity.
    - destruct (bytes_eqb p self) eqn:Es.
      + destruct (walks_agree args IH e He) as (B1 & B2 & B3).
        destruct (walks11 (of15s args) e) as [r1 e2]. destruct (walk_list15 args (tr_of e)) as [r2 tr2]. cbn [fst snd] in *. subst.
        rewrite of15_eq. repeat split; assumption || reflexivity.
      + cbv zeta. rewrite <- (tr_add_simulation pre std p e).
        pose proof (tr_add_nodup pre std p e He) as He1.
        rewrite <- (local_name_simulation p _ He1).
        destruct (walks_agree args IH _ He1) as (B1 & B2 & B3).
        destruct (walks11 (of15s args) (TL.tr_add pick p e)) as [r1 e2].
        destruct (walk_list15 args (tr_of (TL.tr_add pick p e))) as [r2 tr2]. cbn [fst snd] in *. subst.
        rewrite of15_eq. repeat split; assumption || reflexivity.
  Qed.

  (* processName *)
  Lemma process_name_agree : forall name e, nd e ->
    match TR.process_name Tk.tracker cadd cname self true (tr_of e) name,
          TL.process_name pick parse_c15 self name e with
    | Ok (tn, tr1), Ok (t1, e1) => tn = TL.tref_string t1 /\ tr1 = tr_of e1 /\ nd e1
    | Panic, Panic => True
    | _, _ => False
    end.
  Proof.
    intros name e He. unfold TR.process_name, TL.process_name, parse_c15.
    destruct (PTR.parse_type_ref_total true name) as [r ->]. cbn [bind].
    destruct r as [t|err]; [|exact I].
    destruct t as [p n args]. rewrite of15_eq. cbn [TR.t_args TR.t_name].
    destruct args as [|a r]; cbn [is_nil of15s].
    - cbn [TL.tref_string is_nil app]. rewrite app_nil_r. auto.
    - change (TL.TRef p n (TL.TRCons (of15 a) (of15s r))) with (TL.TRef p n (of15s (a :: r))). rewrite <- of15_eq.
      destruct (walk_agree (TR.TRef p n (a :: r)) e He) as (A1 & A2 & A3).
      destruct (walk11 (of15 (TR.TRef p n (a :: r))) e) as [t1 e1].
      destruct (walk15 (TR.TRef p n (a :: r)) (tr_of e)) as [t2 tr1]. cbn [fst snd] in *. subst.
      rewrite print_of15. auto.
  Qed.

  Lemma tref_string_nil : forall t, TL.tref_string t = [] <-> t = TL.TRef [] [] TL.TRNil.
  Proof.
    intros [[|c p] [|d n] [|a r]]; cbn; split; intros H; try reflexivity; try discriminate; try (inversion H; fail).
    all: try (destruct (p ++ [TL.dot]); discriminate).
  Qed.

  (* rawNamer.Name on a Ref(p, n) *)
  Lemma namer_name_agree : forall p n e, nd e ->
    match TR.namer_name Tk.tracker cadd cname self true (tr_of e) p n,
          TL.namer_name pick parse_c15 self p n [] e with
    | Ok (txt, tr1), Ok (a, e1) => txt = TL.print quote a /\ tr1 = tr_of e1 /\ nd e1
    | Panic, Panic => True
    | _, _ => False
    end.
  Proof.
    intros p n e He. unfold TR.namer_name, TL.namer_name.
    pose proof (process_name_agree n e He) as PN.
    destruct (TR.process_name Tk.tracker cadd cname self true (tr_of e) n) as [[tn tr1]| |];
      destruct (TL.process_name pick parse_c15 self n e) as [[t1 e1]| |]; try contradiction; [|exact I].
    destruct PN as (-> & -> & He1). cbn [bind].
    destruct (bytes_eqb p self) eqn:Es.
    - destruct (is_nil (TL.tref_string t1)) eqn:En; cbn [negb].
      + assert (E : t1 = TL.TRef [] [] TL.TRNil) by (apply tref_string_nil; destruct (TL.tref_string t1); [reflexivity|discriminate]).
        subst t1. cbn [TL.print]. unfold TR.ref_string. cbn [fst snd]. auto.
      + assert (N : t1 <> TL.TRef [] [] TL.TRNil) by (intros ->; discriminate).
        assert (E : (match t1, @nil bytes with
                     | TL.TRef [] [] TL.TRNil, [] => Ok (TL.ARaw (p ++ [TL.dot] ++ n), e1)
                     | _, _ => Ok (TL.named_ast false [] t1 [], e1)
                     end) = Ok (TL.named_ast false [] t1 [], e1)).
        { destruct t1 as [[|c q] [|d m] [|a r]]; try reflexivity. congruence. }
        rewrite E. rewrite print_named_self. auto.
    - cbv zeta. rewrite <- (tr_add_simulation pre std p e1).
      pose proof (tr_add_nodup pre std p e1 He1) as He2. rewrite <- (local_name_simulation p _ He2).
      rewrite print_named_foreign. auto.
  Qed.

  (* snippet.ID(s) *)
  Theorem id_string_agree : forall s e, nd e ->
    match TR.snippet_id Tk.tracker cadd cname self true (tr_of e) s,
          TL.ident_frag pick parse_c15 self cbq fe ft (TL.IdStr s) e with
    | Ok (txt, tr1), Ok (a, e1) => txt = TL.print quote a /\ tr1 = tr_of e1 /\ nd e1
    | Panic, Panic => True
    | _, _ => False
    end.
  Proof.
    intros s e He. unfold TR.snippet_id. rewrite parse_ref_agree. cbn [bind TL.ident_frag].
    destruct (TL.parse_ref s) as [[p n]|].
    - apply namer_name_agree, He.
    - unfold TL.raw_ast. destruct (TL.is_ident s); cbn [TL.print is_nil app]; [rewrite app_nil_r|]; auto.
  Qed.
End Agree.
