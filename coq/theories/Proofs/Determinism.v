(* Lemmas for C04: every range over a map is consumed through a sort_strings, through a lookup, or through
   inserts / effects on distinct keys, so the result of a run does not depend on the order oracle. *)
Require Import Gengo.Base.Bytes Gengo.Model.Determinism.
From Coq Require Import Permutation Sorted.

(* statements talk about [map fst]; goals coming from the model are normalised with [unfold Determinism.keys] *)
Local Notation keys := (map fst) (only parsing).
Ltac ukeys := unfold Gengo.Model.Determinism.keys in *.

(* ================= byte order ================= *)

Lemma N_of_ascii_inj : forall a b, N_of_ascii a = N_of_ascii b -> a = b.
Proof.
  intros a b H. rewrite <- (ascii_N_embedding a), <- (ascii_N_embedding b). now rewrite H.
Qed.

Lemma bytes_leb_total : forall a b, bytes_leb a b = true \/ bytes_leb b a = true.
Proof.
  induction a as [|x a IH]; destruct b as [|y b]; cbn; auto.
  destruct (N.ltb (N_of_ascii x) (N_of_ascii y)) eqn:E1, (N.ltb (N_of_ascii y) (N_of_ascii x)) eqn:E2; auto.
Qed.

Lemma bytes_leb_antisym : forall a b, bytes_leb a b = true -> bytes_leb b a = true -> a = b.
Proof.
  induction a as [|x a IH]; destruct b as [|y b]; cbn; intros H1 H2; try reflexivity; try discriminate.
  destruct (N.ltb_spec (N_of_ascii x) (N_of_ascii y)) as [L1|L1],
           (N.ltb_spec (N_of_ascii y) (N_of_ascii x)) as [L2|L2]; try discriminate; try lia.
  assert (x = y) by (apply N_of_ascii_inj; lia). subst. f_equal. now apply IH.
Qed.

Lemma bytes_leb_trans : forall a b c, bytes_leb a b = true -> bytes_leb b c = true -> bytes_leb a c = true.
Proof.
  induction a as [|x a IH]; destruct b as [|y b]; destruct c as [|z c]; cbn; intros H1 H2;
    try reflexivity; try discriminate.
  destruct (N.ltb_spec (N_of_ascii x) (N_of_ascii y)) as [L1|L1],
           (N.ltb_spec (N_of_ascii y) (N_of_ascii x)) as [L2|L2],
           (N.ltb_spec (N_of_ascii y) (N_of_ascii z)) as [L3|L3],
           (N.ltb_spec (N_of_ascii z) (N_of_ascii y)) as [L4|L4],
           (N.ltb_spec (N_of_ascii x) (N_of_ascii z)) as [L5|L5],
           (N.ltb_spec (N_of_ascii z) (N_of_ascii x)) as [L6|L6];
    try reflexivity; try discriminate; try lia.
  eapply IH; eassumption.
Qed.

Lemma bytes_leb_refl : forall a, bytes_leb a a = true.
Proof. intros a. destruct (bytes_leb_total a a); assumption. Qed.

(* ================= insertion sort_strings ================= *)

Section SortFacts.
  Context {A K : Type} (key : A -> K) (leb : K -> K -> bool).
  Hypothesis leb_total : forall a b, leb a b = true \/ leb b a = true.
  Hypothesis leb_trans : forall a b c, leb a b = true -> leb b c = true -> leb a c = true.

  Definition ordR (x y : A) : Prop := leb (key x) (key y) = true.

  Lemma insert_by_perm : forall x l, Permutation (x :: l) (insert_by key leb x l).
  Proof.
    intros x l. induction l as [|y r IH]; cbn.
    - apply Permutation_refl.
    - destruct (leb (key x) (key y)).
      + apply Permutation_refl.
      + eapply perm_trans; [apply perm_swap|]. apply perm_skip. exact IH.
  Qed.

  Lemma sort_by_perm : forall l, Permutation l (sort_by key leb l).
  Proof.
    induction l as [|x r IH]; cbn.
    - constructor.
    - eapply perm_trans; [|apply insert_by_perm]. apply perm_skip. exact IH.
  Qed.

  Lemma insert_by_sorted : forall x l, StronglySorted ordR l -> StronglySorted ordR (insert_by key leb x l).
  Proof.
    intros x l. induction l as [|y r IH]; cbn; intros HS.
    - constructor; constructor.
    - inversion HS as [|? ? HSr HF]; subst.
      destruct (leb (key x) (key y)) eqn:E.
      + constructor; [exact HS|]. constructor; [exact E|].
        eapply Forall_impl; [|exact HF]. intros z Hz. unfold ordR in *. eapply leb_trans; eassumption.
      + constructor; [apply IH; exact HSr|].
        eapply Permutation_Forall; [apply insert_by_perm|].
        constructor; [|exact HF]. unfold ordR. destruct (leb_total (key x) (key y)); congruence.
  Qed.

  Lemma sort_by_sorted : forall l, StronglySorted ordR (sort_by key leb l).
  Proof.
    induction l as [|x r IH]; cbn; [constructor|]. apply insert_by_sorted. exact IH.
  Qed.

  Lemma sorted_perm_eq : forall l1 l2,
      StronglySorted ordR l1 -> StronglySorted ordR l2 -> Permutation l1 l2 ->
      (forall x y, In x l1 -> In y l1 -> ordR x y -> ordR y x -> x = y) ->
      l1 = l2.
  Proof.
    induction l1 as [|x l1 IH]; intros l2 S1 S2 HP Hinj.
    - apply Permutation_nil in HP. now subst.
    - destruct l2 as [|y l2]; [apply Permutation_sym, Permutation_nil in HP; discriminate|].
      inversion S1 as [|? ? S1' F1]; subst. inversion S2 as [|? ? S2' F2]; subst.
      assert (Hxy : x = y).
      { assert (Hx : In x (y :: l2)) by (eapply Permutation_in; [exact HP|now left]).
        assert (Hy : In y (x :: l1)) by (eapply Permutation_in; [apply Permutation_sym; exact HP|now left]).
        destruct Hx as [Hx|Hx]; [now subst|]. destruct Hy as [Hy|Hy]; [now subst|].
        apply Hinj; [now left|now right| |].
        - rewrite Forall_forall in F1. now apply F1.
        - rewrite Forall_forall in F2. now apply F2. }
      subst y. f_equal. apply IH; try assumption.
      + eapply Permutation_cons_inv; exact HP.
      + intros a b Ha Hb. apply Hinj; now right.
  Qed.

  Lemma sort_by_perm_eq : forall l1 l2,
      Permutation l1 l2 ->
      (forall x y, In x l1 -> In y l1 -> ordR x y -> ordR y x -> x = y) ->
      sort_by key leb l1 = sort_by key leb l2.
  Proof.
    intros l1 l2 HP Hinj. apply sorted_perm_eq; try apply sort_by_sorted.
    - eapply perm_trans; [apply Permutation_sym, sort_by_perm|]. eapply perm_trans; [exact HP|apply sort_by_perm].
    - intros x y Hx Hy. apply Hinj; eapply Permutation_in; try eassumption; apply Permutation_sym, sort_by_perm.
  Qed.
End SortFacts.

Lemma sort_perm_eq : forall l1 l2, Permutation l1 l2 -> sort_strings l1 = sort_strings l2.
Proof.
  intros l1 l2 HP. unfold sort_strings. apply sort_by_perm_eq; try assumption.
  - apply bytes_leb_total.
  - apply bytes_leb_trans.
  - intros x y _ _ H1 H2. apply bytes_leb_antisym; assumption.
Qed.

Lemma sort_perm : forall l, Permutation l (sort_strings l).
Proof. intros l. apply sort_by_perm. Qed.

Lemma sort_sorted : forall l, StronglySorted (fun a b => bytes_leb a b = true) (sort_strings l).
Proof. intros l. apply (sort_by_sorted (fun x : bytes => x) bytes_leb bytes_leb_total bytes_leb_trans). Qed.

Lemma N_leb_total : forall a b, N.leb a b = true \/ N.leb b a = true.
Proof. intros a b. destruct (N.leb_spec a b); [now left|right]. apply N.leb_le. lia. Qed.

Lemma N_leb_trans : forall a b c, N.leb a b = true -> N.leb b c = true -> N.leb a c = true.
Proof. intros a b c H1 H2. apply N.leb_le in H1, H2. apply N.leb_le. lia. Qed.

Lemma NoDup_map_inj_in {A B} (f : A -> B) : forall l x y, NoDup (map f l) -> In x l -> In y l -> f x = f y -> x = y.
Proof.
  induction l as [|a l IH]; intros x y HN Hx Hy Hf; [contradiction|].
  cbn in HN. inversion HN as [|? ? Hnot HN']; subst.
  destruct Hx as [Hx|Hx], Hy as [Hy|Hy]; subst; auto.
  - exfalso. apply Hnot. rewrite Hf. now apply in_map.
  - exfalso. apply Hnot. rewrite <- Hf. now apply in_map.
Qed.

(* sort_strings by a numeric key without duplicates *)
Lemma sort_by_N_perm_eq {A} (key : A -> N) : forall l1 l2,
    NoDup (map key l1) -> Permutation l1 l2 -> sort_by key N.leb l1 = sort_by key N.leb l2.
Proof.
  intros l1 l2 HN HP. apply sort_by_perm_eq; try assumption.
  - apply N_leb_total.
  - apply N_leb_trans.
  - intros x y Hx Hy H1 H2. unfold ordR in *. apply N.leb_le in H1, H2.
    eapply NoDup_map_inj_in; try eassumption. lia.
Qed.

(* ================= association lists ================= *)

Lemma bytes_eqb_neq : forall a b, a <> b -> bytes_eqb a b = false.
Proof. intros a b H. destruct (bytes_eqb a b) eqn:E; [|reflexivity]. apply bytes_eqb_spec in E. contradiction. Qed.

Lemma bytes_eqb_sym : forall a b, bytes_eqb a b = bytes_eqb b a.
Proof.
  intros a b. destruct (bytes_eqb a b) eqn:E.
  - apply bytes_eqb_spec in E. subst. symmetry. apply bytes_eqb_refl.
  - destruct (bytes_eqb b a) eqn:E2; [|reflexivity]. apply bytes_eqb_spec in E2. subst.
    rewrite bytes_eqb_refl in E. discriminate.
Qed.

Ltac beq a b := let E := fresh "E" in destruct (bytes_eqb a b) eqn:E; [apply bytes_eqb_spec in E; subst|].

Section AList.
  Context {V : Type}.
  Implicit Types m : alist V.

  Lemma lookup_aset : forall m k k' v, lookup k (aset k' v m) = if bytes_eqb k k' then Some v else lookup k m.
  Proof.
    induction m as [|[k0 v0] r IH]; intros k k' v; cbn.
    - reflexivity.
    - beq k' k0; cbn.
      + beq k k0; reflexivity.
      + rewrite IH. beq k k0; [|reflexivity]. rewrite bytes_eqb_sym, E. reflexivity.
  Qed.

  Lemma keys_aset_in : forall m k k' v, In k (keys (aset k' v m)) <-> k = k' \/ In k (keys m).
  Proof.
    induction m as [|[k0 v0] r IH]; intros k k' v; cbn.
    - split; intros [H|H]; auto; contradiction.
    - beq k' k0; cbn.
      + split; intros H; repeat destruct H as [H|H]; subst; auto.
      + rewrite IH. split; intros H; repeat destruct H as [H|H]; auto.
  Qed.

  Lemma aset_notin : forall m k v, ~ In k (keys m) -> aset k v m = m ++ [(k, v)].
  Proof.
    induction m as [|[k0 v0] r IH]; intros k v H; cbn; [reflexivity|].
    cbn in H. rewrite bytes_eqb_neq by (intros ->; apply H; now left).
    f_equal. apply IH. intros Hin. apply H. now right.
  Qed.

  Lemma NoDup_keys_aset : forall m k v, NoDup (keys m) -> NoDup (keys (aset k v m)).
  Proof.
    induction m as [|[k0 v0] r IH]; intros k v H; cbn.
    - constructor; [intros []|constructor].
    - cbn in H. inversion H as [|? ? Hn Hr]; subst. beq k k0; cbn.
      + constructor; assumption.
      + constructor; [|now apply IH]. rewrite keys_aset_in. intros [->|Hin]; [|contradiction].
        rewrite bytes_eqb_refl in E. discriminate.
  Qed.

  Lemma lookup_perm : forall m1 m2 k, NoDup (keys m1) -> Permutation m1 m2 -> lookup k m1 = lookup k m2.
  Proof.
    intros m1 m2 k HN HP. induction HP as [|[k0 v0] l l' HP IH|[k1 v1] [k2 v2] l|l l' l'' HP1 IH1 HP2 IH2].
    - reflexivity.
    - cbn. cbn in HN. inversion HN; subst. destruct (bytes_eqb k k0); auto.
    - cbn. cbn in HN. inversion HN as [|? ? Hn _]; subst.
      beq k k1; [|reflexivity]. beq k1 k2; [|reflexivity]. exfalso. apply Hn. now left.
    - rewrite IH1 by assumption. apply IH2. eapply Permutation_NoDup; [|exact HN].
      apply Permutation_map. exact HP1.
  Qed.

  Lemma lookup_None_iff : forall m k, lookup k m = None <-> ~ In k (keys m).
  Proof.
    induction m as [|[k0 v0] r IH]; intros k; cbn.
    - split; auto.
    - beq k k0.
      + split; [discriminate|]. intros H. exfalso. apply H. now left.
      + rewrite IH. split; intros H; [intros [->|Hin]|]; auto.
        rewrite bytes_eqb_refl in E. discriminate.
  Qed.

  Lemma lookup_In : forall m k v, NoDup (keys m) -> In (k, v) m -> lookup k m = Some v.
  Proof.
    induction m as [|[k0 v0] r IH]; intros k v HN Hin; [contradiction|].
    cbn in *. inversion HN as [|? ? Hn Hr]; subst. destruct Hin as [Heq|Hin].
    - inversion Heq; subst. now rewrite bytes_eqb_refl.
    - beq k k0; [|now apply IH]. exfalso. apply Hn. change k0 with (fst (k0, v)). now apply in_map.
  Qed.

  Lemma lookup_app : forall m1 m2 k,
      lookup k (m1 ++ m2) = match lookup k m1 with Some v => Some v | None => lookup k m2 end.
  Proof.
    induction m1 as [|[k0 v0] r IH]; intros m2 k; cbn; [reflexivity|]. destruct (bytes_eqb k k0); auto.
  Qed.

  (* a fold of inserts, read back by lookup: the last insert of the key wins *)
  Lemma lookup_fold_aset {X} (kf : X -> bytes) (vf : X -> V) : forall l m k,
      lookup k (fold_left (fun m x => aset (kf x) (vf x) m) l m)
      = match lookup k (rev (map (fun x => (kf x, vf x)) l)) with Some v => Some v | None => lookup k m end.
  Proof.
    induction l as [|x r IH]; intros m k; cbn; [reflexivity|].
    rewrite IH, lookup_app, lookup_aset. cbn.
    destruct (lookup k (rev (map (fun x0 => (kf x0, vf x0)) r))); [reflexivity|].
    destruct (bytes_eqb k (kf x)); reflexivity.
  Qed.

  Lemma keys_fold_aset_in {X} (kf : X -> bytes) (vf : X -> V) : forall l m k,
      In k (keys (fold_left (fun m x => aset (kf x) (vf x) m) l m)) <-> In k (map kf l) \/ In k (keys m).
  Proof.
    induction l as [|x r IH]; intros m k; cbn.
    - split; [auto|intros [[]|H]; exact H].
    - rewrite IH, keys_aset_in. split; intros H; repeat destruct H as [H|H]; auto.
  Qed.

  Lemma NoDup_keys_fold_aset {X} (kf : X -> bytes) (vf : X -> V) : forall l m,
      NoDup (keys m) -> NoDup (keys (fold_left (fun m x => aset (kf x) (vf x) m) l m)).
  Proof.
    induction l as [|x r IH]; intros m H; cbn; [exact H|]. apply IH. now apply NoDup_keys_aset.
  Qed.

  (* inserts of distinct fresh keys just append *)
  Lemma fold_aset_nodup {X} (kf : X -> bytes) (vf : X -> V) : forall l m,
      NoDup (keys m ++ map kf l) ->
      fold_left (fun m x => aset (kf x) (vf x) m) l m = m ++ map (fun x => (kf x, vf x)) l.
  Proof.
    induction l as [|x r IH]; intros m H; cbn.
    - now rewrite app_nil_r.
    - cbn in H. rewrite aset_notin.
      + rewrite IH.
        * now rewrite <- app_assoc.
        * rewrite map_app. cbn. rewrite <- app_assoc. cbn.
          eapply Permutation_NoDup; [|exact H]. apply Permutation_app_head.
          apply Permutation_refl.
      + apply NoDup_remove_2 in H. intros Hin. apply H. apply in_or_app. now left.
  Qed.

  Lemma keys_adel_in : forall m k k', In k (keys (adel k' m)) <-> In k (keys m) /\ k <> k'.
  Proof.
    induction m as [|[k0 v0] r IH]; intros k k'; cbn.
    - tauto.
    - beq k' k0; cbn.
      + rewrite IH. split; [tauto|]. intros [[->|H] Hne]; [contradiction|tauto].
      + rewrite IH. split.
        * intros [->|[H Hne]]; [split; [now left|]|tauto]. intros ->. rewrite bytes_eqb_refl in E. discriminate.
        * tauto.
  Qed.

  Lemma adel_comm : forall m k1 k2, adel k1 (adel k2 m) = adel k2 (adel k1 m).
  Proof.
    induction m as [|[k0 v0] r IH]; intros k1 k2; cbn; [reflexivity|].
    destruct (bytes_eqb k2 k0) eqn:E2, (bytes_eqb k1 k0) eqn:E1; cbn; rewrite ?E1, ?E2; auto. now rewrite IH.
  Qed.

  Lemma adel_perm : forall m1 m2 k, Permutation m1 m2 -> Permutation (adel k m1) (adel k m2).
  Proof.
    intros m1 m2 k HP. induction HP as [|[k0 v0] l l' HP IH|[k1 v1] [k2 v2] l|l l' l'' HP1 IH1 HP2 IH2]; cbn.
    - constructor.
    - destruct (bytes_eqb k k0); [exact IH|now constructor].
    - destruct (bytes_eqb k k1), (bytes_eqb k k2); try apply Permutation_refl. apply perm_swap.
    - eapply perm_trans; eassumption.
  Qed.
End AList.

Lemma fold_left_comm_perm {S X} (f : S -> X -> S) :
  (forall s a b, f (f s a) b = f (f s b) a) ->
  forall l1 l2, Permutation l1 l2 -> forall s, fold_left f l1 s = fold_left f l2 s.
Proof.
  intros Hc l1 l2 HP. induction HP as [|x l l' HP IH|x y l|l l' l'' HP1 IH1 HP2 IH2]; intros s; cbn.
  - reflexivity.
  - apply IH.
  - now rewrite Hc.
  - now rewrite IH1.
Qed.

Lemma existsb_ext_in {A} (f : A -> bool) : forall l1 l2, (forall x, In x l1 <-> In x l2) -> existsb f l1 = existsb f l2.
Proof.
  intros l1 l2 H. destruct (existsb f l1) eqn:E1.
  - apply existsb_exists in E1. destruct E1 as [x [Hin Hf]]. symmetry. apply existsb_exists. exists x. split; [now apply H|exact Hf].
  - destruct (existsb f l2) eqn:E2; [|reflexivity]. apply existsb_exists in E2. destruct E2 as [x [Hin Hf]].
    assert (existsb f l1 = true) by (apply existsb_exists; exists x; split; [now apply H|exact Hf]). congruence.
Qed.

Lemma mem_perm : forall k l1 l2, Permutation l1 l2 -> mem k l1 = mem k l2.
Proof.
  intros k l1 l2 HP. unfold mem. apply existsb_ext_in. intros x. split; apply Permutation_in; [exact HP|now apply Permutation_sym].
Qed.

Lemma forallb_perm {A} (f : A -> bool) : forall l1 l2, Permutation l1 l2 -> forallb f l1 = forallb f l2.
Proof.
  intros l1 l2 HP. induction HP as [|x l l' HP IH|x y l|l l' l'' HP1 IH1 HP2 IH2]; cbn.
  - reflexivity.
  - now rewrite IH.
  - destruct (f x), (f y); reflexivity.
  - congruence.
Qed.

Lemma forallb_ext' {A} (f g : A -> bool) : (forall x, f x = g x) -> forall l, forallb f l = forallb g l.
Proof. intros H. induction l as [|x l IH]; cbn; [reflexivity|]. now rewrite H, IH. Qed.

Lemma filter_perm {A} (f : A -> bool) : forall l1 l2, Permutation l1 l2 -> Permutation (filter f l1) (filter f l2).
Proof.
  intros l1 l2 HP. induction HP as [|x l l' HP IH|x y l|l l' l'' HP1 IH1 HP2 IH2]; cbn.
  - constructor.
  - destruct (f x); [now constructor|exact IH].
  - destruct (f x), (f y); try apply Permutation_refl. apply perm_swap.
  - eapply perm_trans; eassumption.
Qed.

Lemma NoDup_map_filter {A B} (g : A -> B) (f : A -> bool) : forall l, NoDup (map g l) -> NoDup (map g (filter f l)).
Proof.
  induction l as [|x l IH]; cbn; intros H; [constructor|].
  inversion H as [|? ? Hn Hr]; subst. destruct (f x); cbn; [|now apply IH].
  constructor; [|now apply IH]. intros Hin. apply Hn.
  apply in_map_iff in Hin. destruct Hin as [y [Hy Hin]]. apply filter_In in Hin. rewrite <- Hy. apply in_map. tauto.
Qed.

Lemma map_pair_eta {A B} : forall l : list (A * B), map (fun x => (fst x, snd x)) l = l.
Proof. induction l as [|[a b] l IH]; cbn; [reflexivity|now rewrite IH]. Qed.

(* ================= maps up to order ================= *)

Definition meq {V} (m1 m2 : alist V) : Prop := forall k, lookup k m1 = lookup k m2.

Lemma meq_refl {V} (m : alist V) : meq m m.
Proof. intros k. reflexivity. Qed.

Lemma meq_keys_in {V} (m1 m2 : alist V) : meq m1 m2 -> forall k, In k (keys m1) <-> In k (keys m2).
Proof.
  intros H k. split; intros Hin.
  - destruct (lookup k m2) eqn:E.
    + assert (Hn : lookup k m2 <> None) by congruence. rewrite lookup_None_iff in Hn.
      destruct (in_dec (list_eq_dec Ascii.ascii_dec) k (keys m2)); [assumption|contradiction].
    + exfalso. rewrite <- H in E. apply lookup_None_iff in E. contradiction.
  - destruct (lookup k m1) eqn:E.
    + assert (Hn : lookup k m1 <> None) by congruence. rewrite lookup_None_iff in Hn.
      destruct (in_dec (list_eq_dec Ascii.ascii_dec) k (keys m1)); [assumption|contradiction].
    + exfalso. rewrite H in E. apply lookup_None_iff in E. contradiction.
Qed.

Lemma perm_meq {V} (m1 m2 : alist V) : NoDup (keys m1) -> Permutation m1 m2 -> meq m1 m2.
Proof. intros HN HP k. now apply lookup_perm. Qed.

(* ================= effects ================= *)

Lemma path_eqb_spec : forall p q, path_eqb p q = true <-> p = q.
Proof.
  intros [a b] [c d]. unfold path_eqb. cbn. rewrite andb_true_iff, !bytes_eqb_spec. split.
  - intros [-> ->]. reflexivity.
  - intros H. inversion H. auto.
Qed.

Lemma path_eqb_refl : forall p, path_eqb p p = true.
Proof. intros p. now apply path_eqb_spec. Qed.

Definition feq (f f' : fs) : Prop := forall q, f q = f' q.
Definition aeq (es1 es2 : list effect) : Prop := forall f f', feq f f' -> feq (apply es1 f) (apply es2 f').

Lemma apply_app : forall a b f, apply (a ++ b) f = apply b (apply a f).
Proof. intros a b f. unfold apply. apply fold_left_app. Qed.

Lemma apply1_feq : forall e f f', feq f f' -> feq (apply1 f e) (apply1 f' e).
Proof. intros e f f' H q. destruct e; cbn; destruct (path_eqb q p); auto. Qed.

Lemma aeq_refl : forall es, aeq es es.
Proof.
  induction es as [|e es IH]; intros f f' H; cbn; [exact H|]. apply IH. now apply apply1_feq.
Qed.

Lemma aeq_app : forall a a' b b', aeq a a' -> aeq b b' -> aeq (a ++ b) (a' ++ b').
Proof. intros a a' b b' Ha Hb f f' H. rewrite !apply_app. apply Hb. now apply Ha. Qed.

Definition eff_result (e : effect) : option bytes := match e with EWrite _ b => Some b | ERemove _ => None end.

(* distinct paths: the effect on a path is the one effect that names it *)
Lemma apply_find : forall es f q,
    NoDup (map eff_path es) ->
    apply es f q = match find (fun e => path_eqb q (eff_path e)) es with Some e => eff_result e | None => f q end.
Proof.
  induction es as [|e es IH]; intros f q HN; cbn; [reflexivity|].
  cbn in HN. inversion HN as [|? ? Hn Hr]; subst.
  change (fold_left apply1 es (apply1 f e)) with (apply es (apply1 f e)). rewrite IH by assumption.
  destruct (path_eqb q (eff_path e)) eqn:E.
  - apply path_eqb_spec in E. subst q.
    destruct (find (fun e0 => path_eqb (eff_path e) (eff_path e0)) es) eqn:F.
    + exfalso. apply find_some in F. destruct F as [Hin Heq]. apply path_eqb_spec in Heq.
      apply Hn. rewrite Heq. now apply in_map.
    + destruct e; cbn; now rewrite path_eqb_refl.
  - destruct (find (fun e0 => path_eqb q (eff_path e0)) es); [reflexivity|].
    destruct e; cbn in *; now rewrite E.
Qed.

Lemma find_path_perm : forall es1 es2 q,
    NoDup (map eff_path es1) -> Permutation es1 es2 ->
    find (fun e => path_eqb q (eff_path e)) es1 = find (fun e => path_eqb q (eff_path e)) es2.
Proof.
  intros es1 es2 q HN HP. induction HP as [|x l l' HP IH|x y l|l l' l'' HP1 IH1 HP2 IH2]; cbn.
  - reflexivity.
  - cbn in HN. inversion HN; subst. destruct (path_eqb q (eff_path x)); auto.
  - cbn in HN. inversion HN as [|? ? Hn _]; subst.
    destruct (path_eqb q (eff_path y)) eqn:E1; [|reflexivity].
    destruct (path_eqb q (eff_path x)) eqn:E2; [|reflexivity].
    apply path_eqb_spec in E1, E2. exfalso. apply Hn. left. congruence.
  - rewrite IH1 by assumption. apply IH2. eapply Permutation_NoDup; [|exact HN]. now apply Permutation_map.
Qed.

Lemma aeq_perm_distinct : forall es1 es2, NoDup (map eff_path es1) -> Permutation es1 es2 -> aeq es1 es2.
Proof.
  intros es1 es2 HN HP f f' H q.
  rewrite !apply_find; try assumption.
  - rewrite (find_path_perm es1 es2 q HN HP). destruct (find _ es2); [reflexivity|apply H].
  - eapply Permutation_NoDup; [|exact HN]. now apply Permutation_map.
Qed.

Lemma apply_removes : forall ps f q,
    apply (map ERemove ps) f q = if existsb (path_eqb q) ps then None else f q.
Proof.
  induction ps as [|p ps IH]; intros f q; cbn; [reflexivity|].
  change (fold_left apply1 (map ERemove ps) (apply1 f (ERemove p))) with (apply (map ERemove ps) (apply1 f (ERemove p))).
  rewrite IH. cbn. destruct (path_eqb q p); cbn; [|reflexivity]. destruct (existsb (path_eqb q) ps); reflexivity.
Qed.

Lemma aeq_removes_perm : forall ps1 ps2, Permutation ps1 ps2 -> aeq (map ERemove ps1) (map ERemove ps2).
Proof.
  intros ps1 ps2 HP f f' H q. rewrite !apply_removes.
  rewrite (existsb_ext_in (path_eqb q) ps1 ps2).
  - destruct (existsb (path_eqb q) ps2); [reflexivity|apply H].
  - intros x. split; apply Permutation_in; [exact HP|now apply Permutation_sym].
Qed.

(* ================= well-formedness of the loaded data (what Go maps and go/types guarantee) ================= *)

Record wf_pkg (p : pkg) : Prop := {
  wf_names : NoDup (map td_name (filter td_pkgscope (pk_defs p)));     (* go/types: one object per name in the package scope *)
  wf_filetags : Forall (fun ft => NoDup (keys (snd ft))) (pk_filetags p);   (* tags are Go maps *)
  wf_decltags : Forall (fun d => NoDup (keys (td_tags d))) (pk_defs p);
  wf_meths : NoDup (map m_pos (pk_meths p))                             (* distinct positions *)
}.

Record wf_world (w : world) : Prop := {
  wf_paths : NoDup (map pk_path (w_pkgs w));
  wf_pkgs : Forall wf_pkg (w_pkgs w)
}.

Definition wf_args (a : args) : Prop := NoDup (keys (a_globals a)).

(* ================= one range site at a time ================= *)

Section Sites.
  Variable render : gfile -> option bytes.
  Variable parse_sum : bytes -> alist bytes.
  Variables o1 o2 : oracle.
  Hypothesis Hs1 : shuffles o1.
  Hypothesis Hs2 : shuffles o2.

  Lemma oracle_perm {A} (s1 s2 : list bytes) (l : list A) : Permutation (o1 A s1 l) (o2 A s2 l).
  Proof. eapply perm_trans; [apply Permutation_sym, Hs1|apply Hs2]. Qed.

  (* --- the type table (package.go) --- *)

  Lemma table_add_fold : forall l t,
      fold_left (table_add true) l t = fold_left (fun m d => aset (td_name d) d m) (filter td_pkgscope l) t.
  Proof.
    induction l as [|d l IH]; intros t; cbn; [reflexivity|].
    unfold table_add at 2. cbn. destruct (td_pkgscope d); cbn; apply IH.
  Qed.

  Lemma type_table_eq : forall (o : oracle) p, shuffles o -> wf_pkg p ->
      type_table true o p = map (fun d => (td_name d, d)) (filter td_pkgscope (o _ [bs "defs"; pk_path p] (pk_defs p))).
  Proof.
    intros o p Hs Hw. unfold type_table. rewrite table_add_fold.
    rewrite fold_aset_nodup; [reflexivity|]. cbn.
    eapply Permutation_NoDup; [|apply (wf_names p Hw)].
    apply Permutation_map, filter_perm, Hs.
  Qed.

  Lemma type_table_perm : forall p, wf_pkg p -> Permutation (type_table true o1 p) (type_table true o2 p).
  Proof.
    intros p Hw. rewrite !type_table_eq by assumption. apply Permutation_map, filter_perm, oracle_perm.
  Qed.

  Lemma type_table_nodup : forall (o : oracle) p, shuffles o -> wf_pkg p -> NoDup (keys (type_table true o p)).
  Proof.
    intros o p Hs Hw. rewrite type_table_eq by assumption. rewrite map_map. cbn.
    eapply Permutation_NoDup; [|apply (wf_names p Hw)]. apply Permutation_map, filter_perm, Hs.
  Qed.

  (* --- methods (package.go) --- *)

  Lemma methods_of_eq : forall p uid, wf_pkg p -> methods_of true o1 p uid = methods_of true o2 p uid.
  Proof.
    intros p uid Hw. unfold methods_of. f_equal. apply sort_by_N_perm_eq.
    - apply NoDup_map_filter. eapply Permutation_NoDup; [|apply (wf_meths p Hw)]. apply Permutation_map, Hs1.
    - apply filter_perm, oracle_perm.
  Qed.

  Lemma meth_view_eq : forall p, wf_pkg p -> meth_view true o1 p = meth_view true o2 p.
  Proof.
    intros p Hw. unfold meth_view. apply map_ext. intros d. f_equal. now apply methods_of_eq.
  Qed.

  (* --- tags: set_all / merge / IsGeneratorEnabled --- *)

  Lemma set_all_meq2 : forall (o o' : oracle) s s' tags tags' m m',
      shuffles o -> shuffles o' -> NoDup (keys tags) -> NoDup (keys tags') -> meq tags tags' -> meq m m' ->
      meq (set_all o s tags m) (set_all o' s' tags' m').
  Proof.
    intros o o' s s' tags tags' m m' Hs Hs' HN HN' Ht Hm k. unfold set_all.
    rewrite !(lookup_fold_aset (fun kv : bytes * bytes => fst kv) (fun kv => snd kv)), !map_pair_eta.
    rewrite <- (lookup_perm tags (rev (o _ s tags)) k HN) by (eapply perm_trans; [apply Hs|apply Permutation_rev]).
    rewrite <- (lookup_perm tags' (rev (o' _ s' tags')) k HN') by (eapply perm_trans; [apply Hs'|apply Permutation_rev]).
    now rewrite Ht, Hm.
  Qed.

  Lemma set_all_meq : forall (o o' : oracle) s s' tags m m',
      shuffles o -> shuffles o' -> NoDup (keys tags) -> meq m m' ->
      meq (set_all o s tags m) (set_all o' s' tags m').
  Proof.
    intros o o' s s' tags m m' Hs Hs' HN Hm. apply set_all_meq2; try assumption. apply meq_refl.
  Qed.

  Lemma set_all_nodup : forall (o : oracle) s tags m, NoDup (keys m) -> NoDup (keys (set_all o s tags m)).
  Proof. intros o s tags m H. unfold set_all. now apply NoDup_keys_fold_aset. Qed.

  Lemma enabled_loop_spec : forall pre l en,
      enabled_loop pre l en
      = match lookup pre l with
        | Some v => negb (bytes_eqb v (bs "false"))
        | None => en || existsb (has_prefix (pre ++ bs ":")) (keys l)
        end.
  Proof.
    intros pre. induction l as [|[k v] r IH]; intros en; cbn.
    - now rewrite orb_false_r.
    - rewrite (bytes_eqb_sym pre k). destruct (bytes_eqb k pre); [reflexivity|].
      rewrite IH. destruct (lookup pre r); [reflexivity|].
      destruct (has_prefix _ k), en; cbn; auto.
  Qed.

  Lemma enabled_meq : forall (o o' : oracle) s s' g m m',
      shuffles o -> shuffles o' -> NoDup (keys m) -> NoDup (keys m') -> meq m m' ->
      enabled o s g m = enabled o' s' g m'.
  Proof.
    intros o o' s s' g m m' Hs Hs' HN HN' Hm. unfold enabled. rewrite !enabled_loop_spec.
    rewrite <- (lookup_perm m (o _ (bs "enabled" :: s) m)) by (try assumption; apply Hs).
    rewrite <- (lookup_perm m' (o' _ (bs "enabled" :: s') m')) by (try assumption; apply Hs').
    rewrite Hm. destruct (lookup (bs "gengo:" ++ g) m'); [reflexivity|]. cbn.
    apply existsb_ext_in. intros k.
    assert (P1 : Permutation (keys m) (keys (o _ (bs "enabled" :: s) m))) by apply Permutation_map, Hs.
    assert (P2 : Permutation (keys m') (keys (o' _ (bs "enabled" :: s') m'))) by apply Permutation_map, Hs'.
    split; intros Hin.
    - eapply Permutation_in; [exact P2|]. apply (meq_keys_in m m' Hm).
      eapply Permutation_in; [apply Permutation_sym; exact P1|exact Hin].
    - eapply Permutation_in; [exact P1|]. apply (meq_keys_in m m' Hm).
      eapply Permutation_in; [apply Permutation_sym; exact P2|exact Hin].
  Qed.

  Lemma pkg_tags_gen : forall (o o' : oracle) (path : bytes) fts m m',
      shuffles o -> shuffles o' ->
      Forall (fun ft => NoDup (keys (snd ft))) fts -> meq m m' -> NoDup (keys m) -> NoDup (keys m') ->
      let r := fold_left (fun m (ft : bytes * alist bytes) => set_all o [bs "ftags"; path; fst ft] (snd ft) m) fts m in
      let r' := fold_left (fun m (ft : bytes * alist bytes) => set_all o' [bs "ftags"; path; fst ft] (snd ft) m) fts m' in
      meq r r' /\ NoDup (keys r) /\ NoDup (keys r').
  Proof.
    intros o o' path fts. induction fts as [|ft fts IH]; intros m m' Hs Hs' HF Hm HN HN'; cbn.
    - auto.
    - inversion HF; subst. apply IH; try assumption.
      + now apply set_all_meq.
      + now apply set_all_nodup.
      + now apply set_all_nodup.
  Qed.

  Lemma pkg_tags_meq : forall p, wf_pkg p ->
      meq (pkg_tags o1 p) (pkg_tags o2 p) /\ NoDup (keys (pkg_tags o1 p)) /\ NoDup (keys (pkg_tags o2 p)).
  Proof.
    intros p Hw. unfold pkg_tags. apply pkg_tags_gen; try assumption.
    - apply (wf_filetags p Hw).
    - apply meq_refl.
    - constructor.
    - constructor.
  Qed.

  Lemma merge_meq : forall (o o' : oracle) s s' g p p' d,
      shuffles o -> shuffles o' -> NoDup (keys g) -> NoDup (keys p) -> NoDup (keys p') -> NoDup (keys d) -> meq p p' ->
      meq (merge o s g p d) (merge o' s' g p' d)
      /\ NoDup (keys (merge o s g p d)) /\ NoDup (keys (merge o' s' g p' d)).
  Proof.
    intros o o' s s' g p p' d Hs Hs' Hg Hp Hp' Hd Hm. unfold merge. split; [|split].
    - apply set_all_meq; try assumption.
      apply set_all_meq2; try assumption.
      apply set_all_meq; try assumption. apply meq_refl.
    - repeat apply set_all_nodup. constructor.
    - repeat apply set_all_nodup. constructor.
  Qed.

  (* --- doGenerate --- *)

  Lemma dispatch_one_eq : forall a p pt pt' g d,
      wf_args a -> NoDup (keys (td_tags d)) -> NoDup (keys pt) -> NoDup (keys pt') -> meq pt pt' ->
      dispatch_one o1 a p pt g d = dispatch_one o2 a p pt' g d.
  Proof.
    intros a p pt pt' g d Ha Hd Hp Hp' Hm. unfold dispatch_one.
    destruct (merge_meq o1 o2 [pk_path p; g_name g; td_name d] [pk_path p; g_name g; td_name d]
                (a_globals a) pt pt' (td_tags d) Hs1 Hs2 Ha Hp Hp' Hd Hm) as [M [N1 N2]].
    rewrite (enabled_meq o1 o2 _ [pk_path p; g_name g; td_name d] (g_name g) _ _ Hs1 Hs2 N1 N2 M).
    reflexivity.
  Qed.

  Lemma table_in_defs : forall (o : oracle) p n d, shuffles o -> wf_pkg p ->
      lookup n (type_table true o p) = Some d -> In d (pk_defs p).
  Proof.
    intros o p n d Hs Hw H. rewrite type_table_eq in H by assumption.
    assert (Hin : In d (filter td_pkgscope (o _ [bs "defs"; pk_path p] (pk_defs p)))).
    { revert H. generalize (filter td_pkgscope (o _ [bs "defs"; pk_path p] (pk_defs p))).
      induction l as [|x l IH]; cbn; [discriminate|]. destruct (bytes_eqb n (td_name x)).
      - intros E. inversion E. now left.
      - intros E. right. now apply IH. }
    apply filter_In in Hin. eapply Permutation_in; [apply Permutation_sym, Hs|]. apply Hin.
  Qed.

  Lemma dispatch_eq : forall a p g, wf_args a -> wf_pkg p ->
      dispatch true o1 a p (pkg_tags o1 p) g = dispatch true o2 a p (pkg_tags o2 p) g.
  Proof.
    intros a p g Ha Hw. unfold dispatch. ukeys.
    destruct (pkg_tags_meq p Hw) as [M [N1 N2]].
    assert (HT : Permutation (type_table true o1 p) (type_table true o2 p)) by now apply type_table_perm.
    assert (HN : NoDup (keys (type_table true o1 p))) by now apply type_table_nodup.
    rewrite (sort_perm_eq (keys (o1 _ [bs "names"; pk_path p; g_name g] (type_table true o1 p)))
                          (keys (o2 _ [bs "names"; pk_path p; g_name g] (type_table true o2 p)))).
    - apply flat_map_ext. intros n.
      rewrite (lookup_perm _ _ n HN HT).
      destruct (lookup n (type_table true o2 p)) as [d|] eqn:E; [|reflexivity].
      apply dispatch_one_eq; try assumption.
      pose proof (wf_decltags p Hw) as HF. rewrite Forall_forall in HF. apply HF.
      eapply table_in_defs; eassumption.
    - apply Permutation_map.
      eapply perm_trans; [apply Permutation_sym, Hs1|]. eapply perm_trans; [exact HT|apply Hs2].
  Qed.

  (* --- one generator, all generators --- *)

  Lemma gen_one_eq : forall a p g, wf_args a -> wf_pkg p ->
      gen_one true true o1 a p (pkg_tags o1 p) g = gen_one true true o2 a p (pkg_tags o2 p) g.
  Proof.
    intros a p g Ha Hw. unfold gen_one. rewrite dispatch_eq, meth_view_eq by assumption. reflexivity.
  Qed.

  Lemma gens_loop_eq : forall a p gs gfs log, wf_args a -> wf_pkg p ->
      gens_loop true true o1 a p (pkg_tags o1 p) gs gfs log = gens_loop true true o2 a p (pkg_tags o2 p) gs gfs log.
  Proof.
    intros a p gs. induction gs as [|g gs IH]; intros gfs log Ha Hw; cbn; [reflexivity|].
    rewrite gen_one_eq by assumption.
    destruct (gen_one true true o2 a p (pkg_tags o2 p) g) as [[calls og]|]; [|reflexivity]. now apply IH.
  Qed.

  Lemma gens_loop_nodup : forall (o : oracle) a p pt gs gfs log gfs' log',
      NoDup (keys gfs) -> gens_loop true true o a p pt gs gfs log = Some (gfs', log') -> NoDup (keys gfs').
  Proof.
    intros o a p pt gs. induction gs as [|g gs IH]; intros gfs log gfs' log' HN H; cbn in H.
    - inversion H. now subst.
    - destruct (gen_one true true o a p pt g) as [[calls og]|]; [|discriminate].
      eapply IH; [|exact H]. destruct og; [now apply NoDup_keys_aset|exact HN].
  Qed.

  (* --- writeImports / Bytes: sorted keys, values by lookup --- *)

  Lemma sorted_entries_eq : forall (o o' : oracle) s s' m m',
      shuffles o -> shuffles o' -> meq m m' -> Permutation (keys m) (keys m') ->
      sorted_entries o s m = sorted_entries o' s' m'.
  Proof.
    intros o o' s s' m m' Hs Hs' Hm HP. unfold sorted_entries. ukeys.
    rewrite (sort_perm_eq (keys (o _ s m)) (keys (o' _ s' m'))).
    - apply map_ext. intros k. now rewrite Hm.
    - eapply perm_trans; [apply Permutation_map, Permutation_sym, Hs|].
      eapply perm_trans; [exact HP|apply Permutation_map, Hs'].
  Qed.

  Lemma mk_file_eq : forall p g out, mk_file o1 p g out = mk_file o2 p g out.
  Proof.
    intros p g out. unfold mk_file. f_equal.
    apply sorted_entries_eq; try assumption; [apply meq_refl|apply Permutation_refl].
  Qed.
End Sites.

(* ================= writing, removing, the package loop ================= *)

Definition prel (r1 r2 : option (list effect * calllog)) : Prop :=
  match r1, r2 with
  | None, None => True
  | Some (e1, l1), Some (e2, l2) => l1 = l2 /\ aeq e1 e2
  | _, _ => False
  end.

Lemma filename_inj : forall a g1 g2, filename a g1 = filename a g2 -> g1 = g2.
Proof.
  intros a g1 g2 H. unfold filename in H. apply app_inv_head in H. apply app_inv_head in H.
  now apply app_inv_tail in H.
Qed.

Section Writes.
  Variable render : gfile -> option bytes.
  Variable parse_sum : bytes -> alist bytes.
  Variables o1 o2 : oracle.
  Hypothesis Hs1 : shuffles o1.
  Hypothesis Hs2 : shuffles o2.

  Definition wl_ok (o : oracle) (p : pkg) (kv : bytes * genout) : bool :=
    is_nil (go_body (snd kv)) || match render (mk_file o p (fst kv) (snd kv)) with Some _ => true | None => false end.

  Definition wl_eff (o : oracle) (a : args) (p : pkg) (kv : bytes * genout) : list effect :=
    if is_nil (go_body (snd kv)) then []
    else match render (mk_file o p (fst kv) (snd kv)) with
         | Some b => [EWrite (pk_dir p, filename a (fst kv)) b]
         | None => []
         end.

  Lemma write_loop_spec : forall (o : oracle) a p l stale acc,
      write_loop render o a p l stale acc
      = if forallb (wl_ok o p) l
        then Some (acc ++ flat_map (wl_eff o a p) l, fold_left (fun s (kv : bytes * genout) => adel (filename a (fst kv)) s) l stale)
        else None.
  Proof.
    intros o a p. induction l as [|[g out] r IH]; intros stale acc; cbn.
    - now rewrite app_nil_r.
    - unfold wl_ok at 1, wl_eff at 1. cbn. destruct (is_nil (go_body out)) eqn:E; cbn.
      + apply IH.
      + destruct (render (mk_file o p g out)); cbn; [|reflexivity].
        rewrite IH. destruct (forallb (wl_ok o p) r); [|reflexivity]. now rewrite <- app_assoc.
  Qed.

  Lemma wl_ok_eq : forall p kv, wl_ok o1 p kv = wl_ok o2 p kv.
  Proof. intros p kv. unfold wl_ok. now rewrite (mk_file_eq o1 o2 Hs1 Hs2). Qed.

  Lemma wl_eff_eq : forall a p kv, wl_eff o1 a p kv = wl_eff o2 a p kv.
  Proof. intros a p kv. unfold wl_eff. now rewrite (mk_file_eq o1 o2 Hs1 Hs2). Qed.

  Lemma wl_eff_paths : forall (o : oracle) a p l,
      NoDup (keys l) -> NoDup (map eff_path (flat_map (wl_eff o a p) l)).
  Proof.
    intros o a p. induction l as [|[g out] r IH]; cbn; intros HN; [constructor|].
    inversion HN as [|? ? Hn Hr]; subst. rewrite map_app. unfold wl_eff at 1. cbn.
    destruct (is_nil (go_body out)); cbn; [now apply IH|].
    destruct (render (mk_file o p g out)); cbn; [|now apply IH].
    constructor; [|now apply IH].
    intros Hin. apply in_map_iff in Hin. destruct Hin as [e [He Hin]].
    apply in_flat_map in Hin. destruct Hin as [[g' out'] [Hin' He']].
    unfold wl_eff in He'. cbn in He'.
    destruct (is_nil (go_body out')); [contradiction|].
    destruct (render (mk_file o p g' out')); [|contradiction].
    destruct He' as [<-|[]]. cbn in He. inversion He as [Hf]. apply filename_inj in Hf. subst g'.
    apply Hn. change g with (fst (g, out')). now apply in_map.
  Qed.

  Lemma pkg_execute_rel : forall a gens p, wf_args a -> wf_pkg p ->
      prel (pkg_execute true true render o1 a gens p) (pkg_execute true true render o2 a gens p).
  Proof.
    intros a gens p Ha Hw. unfold pkg_execute.
    rewrite (gens_loop_eq o1 o2 Hs1 Hs2) by assumption.
    destruct (gens_loop true true o2 a p (pkg_tags o2 p) gens [] []) as [[gfs log]|] eqn:G; [|exact I].
    assert (HN : NoDup (keys gfs)) by (eapply gens_loop_nodup; [|exact G]; constructor).
    rewrite !write_loop_spec.
    assert (HP : Permutation (o1 _ [bs "gfs"; pk_path p] gfs) (o2 _ [bs "gfs"; pk_path p] gfs))
      by (eapply perm_trans; [apply Permutation_sym, Hs1|apply Hs2]).
    rewrite (forallb_perm _ _ _ HP).
    rewrite (forallb_ext' (wl_ok o1 p) (wl_ok o2 p)) by (intros; apply wl_ok_eq).
    destruct (forallb (wl_ok o2 p) (o2 _ [bs "gfs"; pk_path p] gfs)); [|exact I].
    cbn. split; [reflexivity|].
    rewrite (fold_left_comm_perm _ (fun s k1 k2 => adel_comm s (filename a (fst k2)) (filename a (fst k1))) _ _ HP).
    apply aeq_app.
    - rewrite (flat_map_ext (wl_eff o1 a p) (wl_eff o2 a p)) by (intros; apply wl_eff_eq).
      apply aeq_perm_distinct.
      + apply wl_eff_paths. eapply Permutation_NoDup; [|exact HN]. apply Permutation_map, Hs1.
      + now apply Permutation_flat_map.
    - rewrite <- !(map_map snd ERemove). apply aeq_removes_perm. apply Permutation_map.
      eapply perm_trans; [apply Permutation_sym, Hs1|apply Hs2].
  Qed.

  (* --- load.go: the tables filled in registration order --- *)

  Lemma local_pkgs_eq : forall (o : oracle) e w, shuffles o -> wf_world w ->
      local_pkgs o e w = map (fun p => (pk_path p, mem (pk_path p) e)) (o _ [bs "reg"] (w_pkgs w)).
  Proof.
    intros o e w Hs Hw. unfold local_pkgs. rewrite fold_aset_nodup; [reflexivity|]. cbn.
    eapply Permutation_NoDup; [|apply (wf_paths w Hw)]. apply Permutation_map, Hs.
  Qed.

  Lemma sum_data_eq : forall (o : oracle) w, shuffles o -> wf_world w ->
      sum_data o w = map (fun p => (pk_path p, pk_hash p)) (o _ [bs "reg"] (w_pkgs w)).
  Proof.
    intros o w Hs Hw. unfold sum_data. rewrite fold_aset_nodup; [reflexivity|]. cbn.
    eapply Permutation_NoDup; [|apply (wf_paths w Hw)]. apply Permutation_map, Hs.
  Qed.

  Lemma sum_data_perm : forall w, wf_world w ->
      Permutation (sum_data o1 w) (sum_data o2 w) /\ NoDup (keys (sum_data o1 w)).
  Proof.
    intros w Hw. rewrite !sum_data_eq by assumption. split.
    - apply Permutation_map. eapply perm_trans; [apply Permutation_sym, Hs1|apply Hs2].
    - rewrite map_map. cbn. eapply Permutation_NoDup; [|apply (wf_paths w Hw)]. apply Permutation_map, Hs1.
  Qed.

  Lemma sorted_local_eq : forall e1 e2 w, wf_world w -> Permutation e1 e2 ->
      sorted_local o1 e1 w = sorted_local o2 e2 w.
  Proof.
    intros e1 e2 w Hw He. unfold sorted_local. rewrite !local_pkgs_eq by assumption. ukeys.
    assert (HP : Permutation (map (fun p => (pk_path p, mem (pk_path p) e1)) (o1 _ [bs "reg"] (w_pkgs w)))
                             (map (fun p => (pk_path p, mem (pk_path p) e2)) (o2 _ [bs "reg"] (w_pkgs w)))).
    { rewrite (map_ext (fun p => (pk_path p, mem (pk_path p) e1)) (fun p => (pk_path p, mem (pk_path p) e2)))
        by (intros p; now rewrite (mem_perm _ _ _ He)).
      apply Permutation_map. eapply perm_trans; [apply Permutation_sym, Hs1|apply Hs2]. }
    assert (HN : NoDup (keys (map (fun p => (pk_path p, mem (pk_path p) e1)) (o1 _ [bs "reg"] (w_pkgs w))))).
    { rewrite map_map. cbn. eapply Permutation_NoDup; [|apply (wf_paths w Hw)]. apply Permutation_map, Hs1. }
    rewrite (sort_perm_eq _ (keys (o2 _ [bs "local"] (map (fun p => (pk_path p, mem (pk_path p) e2)) (o2 _ [bs "reg"] (w_pkgs w)))))).
    - apply map_ext. intros k. now rewrite (lookup_perm _ _ k HN HP).
    - apply Permutation_map. eapply perm_trans; [apply Permutation_sym, Hs1|]. eapply perm_trans; [exact HP|apply Hs2].
  Qed.

  Lemma find_pkg_wf : forall k w p, wf_world w -> find_pkg k w = Some p -> wf_pkg p.
  Proof.
    intros k w p Hw H. unfold find_pkg in H. apply find_some in H. destruct H as [Hin _].
    pose proof (wf_pkgs w Hw) as HF. rewrite Forall_forall in HF. now apply HF.
  Qed.

  Lemma pkgs_loop_rel : forall a w gens prev cur1 cur2 l es1 es2 log,
      wf_args a -> wf_world w -> meq cur1 cur2 -> aeq es1 es2 ->
      prel (pkgs_loop true true render o1 a w gens prev cur1 l es1 log)
           (pkgs_loop true true render o2 a w gens prev cur2 l es2 log).
  Proof.
    intros a w gens prev cur1 cur2. induction l as [|[k direct] r IH]; intros es1 es2 log Ha Hw Hc He; cbn.
    - split; [reflexivity|exact He].
    - destruct (negb (a_all a) && negb direct); [now apply IH|].
      assert (Hch : pkg_changed a prev cur1 k = pkg_changed a prev cur2 k).
      { unfold pkg_changed, sum_get. now rewrite (Hc k). }
      rewrite Hch. destruct (negb (pkg_changed a prev cur2 k)); [now apply IH|].
      destruct (find_pkg k w) as [p|] eqn:F; [|exact I].
      pose proof (pkg_execute_rel a gens p Ha (find_pkg_wf k w p Hw F)) as HR. unfold prel in HR.
      destruct (pkg_execute true true render o1 a gens p) as [[e1 l1]|],
               (pkg_execute true true render o2 a gens p) as [[e2 l2]|]; try contradiction; [|exact I].
      destruct HR as [-> HA]. apply IH; try assumption. now apply aeq_app.
  Qed.

  Lemma sum_bytes_eq : forall w, wf_world w -> sum_bytes o1 (sum_data o1 w) = sum_bytes o2 (sum_data o2 w).
  Proof.
    intros w Hw. unfold sum_bytes. destruct (sum_data_perm w Hw) as [HP HN].
    rewrite (sorted_entries_eq o1 o2 [bs "sum"] [bs "sum"] _ _ Hs1 Hs2 (perm_meq _ _ HN HP) (Permutation_map fst HP)).
    reflexivity.
  Qed.

  Lemma plan_rel : forall a e1 e2 w gens f, wf_args a -> wf_world w -> Permutation e1 e2 ->
      prel (plan true true render parse_sum o1 a e1 w gens f) (plan true true render parse_sum o2 a e2 w gens f).
  Proof.
    intros a e1 e2 w gens f Ha Hw He. unfold plan.
    rewrite (sorted_local_eq e1 e2 w Hw He).
    destruct (sum_data_perm w Hw) as [HP HN].
    pose proof (pkgs_loop_rel a w gens
                  (if a_all a && existsb snd (sorted_local o2 e2 w)
                   then match f (w_moddir w, sum_name) with Some b => Some (parse_sum b) | None => None end
                   else None)
                  (sum_data o1 w) (sum_data o2 w) (sorted_local o2 e2 w) [] [] [] Ha Hw (perm_meq _ _ HN HP) (aeq_refl [])) as HR.
    unfold prel in HR.
    destruct (pkgs_loop true true render o1 _ _ _ _ _ _ _ _) as [[es1 l1]|],
             (pkgs_loop true true render o2 _ _ _ _ _ _ _ _) as [[es2 l2]|]; try contradiction; [|exact I].
    destruct HR as [-> HA]. cbn. split; [reflexivity|].
    destruct (a_all a); [|exact HA]. apply aeq_app; [exact HA|]. rewrite (sum_bytes_eq w Hw). apply aeq_refl.
  Qed.
End Writes.

Definition out_equiv (r1 r2 : option (fs * calllog)) : Prop :=
  match r1, r2 with
  | None, None => True
  | Some (f1, l1), Some (f2, l2) => feq f1 f2 /\ l1 = l2
  | _, _ => False
  end.

Lemma run_order_independent : forall render parse_sum (o1 o2 : oracle) a e1 e2 w gens f,
    shuffles o1 -> shuffles o2 -> wf_args a -> wf_world w -> Permutation e1 e2 ->
    out_equiv (run true true render parse_sum o1 a e1 w gens f) (run true true render parse_sum o2 a e2 w gens f).
Proof.
  intros render parse_sum o1 o2 a e1 e2 w gens f Hs1 Hs2 Ha Hw He. unfold run.
  pose proof (plan_rel render parse_sum o1 o2 Hs1 Hs2 a e1 e2 w gens f Ha Hw He) as HR. unfold prel in HR.
  destruct (plan true true render parse_sum o1 a e1 w gens f) as [[es1 l1]|],
           (plan true true render parse_sum o2 a e2 w gens f) as [[es2 l2]|]; try contradiction; [|exact I].
  destruct HR as [-> HA]. cbn. split; [|reflexivity]. apply HA. intros q. reflexivity.
Qed.

(* ================= gengo.sum ================= *)

Definition sum_line (kv : bytes * bytes) : bytes := fst kv ++ bs " " ++ snd kv ++ bs (String "010"%char EmptyString).

Lemma entries_of_keys {V} (d : V) : forall m : alist V, NoDup (keys m) ->
    map (fun k => (k, match lookup k m with Some v => v | None => d end)) (keys m) = m.
Proof.
  intros m HN. rewrite map_map.
  rewrite <- (map_id m) at 2. apply map_ext_in. intros [k v] Hin. cbn.
  now rewrite (lookup_In m k v HN Hin).
Qed.

Lemma sum_bytes_sorted : forall (o : oracle) m, shuffles o -> NoDup (keys m) ->
    let es := sorted_entries o [bs "sum"] m in
    sum_bytes o m = concat (map sum_line es)
    /\ es = sorted_entries oid [bs "sum"] m
    /\ Permutation es m
    /\ keys es = sort_strings (keys m)
    /\ StronglySorted (fun a b => bytes_leb a b = true) (keys es)
    /\ NoDup (keys es).
Proof.
  intros o m Hs HN es.
  assert (Hk : keys es = sort_strings (keys m)).
  { unfold es, sorted_entries. rewrite map_map. cbn. rewrite map_id. ukeys.
    apply sort_perm_eq. apply Permutation_map, Permutation_sym, Hs. }
  split; [reflexivity|]. split; [|split; [|split; [exact Hk|split]]].
  - unfold es. apply sorted_entries_eq; try assumption.
    + intros A s l. apply Permutation_refl.
    + apply meq_refl.
    + apply Permutation_refl.
  - unfold es, sorted_entries. ukeys.
    rewrite (sort_perm_eq (keys (o _ [bs "sum"] m)) (keys m)) by (apply Permutation_map, Permutation_sym, Hs).
    rewrite <- (entries_of_keys [] m HN) at 2.
    apply Permutation_map, Permutation_sym, sort_perm.
  - rewrite Hk. apply sort_sorted.
  - rewrite Hk. eapply Permutation_NoDup; [apply sort_perm|exact HN].
Qed.

(* ================= what the unrepaired code did ================= *)

Definition rev_oracle : oracle := fun A _ l => rev l.

Lemma rev_oracle_shuffles : shuffles rev_oracle.
Proof. intros A s l. apply Permutation_rev. Qed.

Lemma oid_shuffles : shuffles oid.
Proof. intros A s l. apply Permutation_refl. Qed.

(* type T struct{} tagged +gengo:rec, next to func F[T any]() *)
Definition wit_pkg : pkg :=
  mk_pkg (bs "m/a") (bs "a") (bs "a") [bs "f0.go"] []
         [mk_tdef (bs "T") 306 KNamed true false [(bs "gengo:rec", [])];
          mk_tdef (bs "T") 608 KOther false false []]
         [mk_meth 306 (bs "M0") 1006 false; mk_meth 306 (bs "M1") 1206 false]
         (bs "h1:x").
Definition wit_world : world := mk_world (bs ".") [wit_pkg].
Definition wit_args : args := mk_args [] (bs "zz_generated") true false.
Definition wit_gens : list gen :=
  [scripted (bs "rec") false [(bs "m/a", [(306%N, mk_frag ORender [bs "G"] [] (Some (bs "Gm")) [] [])])]].
Definition wit_render (f : gfile) : option bytes := Some (gf_body f).
Definition wit_fs : fs := fun _ => None.

Definition log_of (r : option (fs * calllog)) : option calllog := option_map snd r.
Definition file_of (r : option (fs * calllog)) (q : path) : option bytes :=
  match r with Some (f, _) => f q | None => None end.

Lemma table_fold_refuted :
  log_of (run false true wit_render (fun _ => []) oid wit_args [bs "m/a"] wit_world wit_gens wit_fs)
  <> log_of (run false true wit_render (fun _ => []) rev_oracle wit_args [bs "m/a"] wit_world wit_gens wit_fs).
Proof. vm_compute. discriminate. Qed.

Lemma methods_order_refuted :
  file_of (run true false wit_render (fun _ => []) oid wit_args [bs "m/a"] wit_world wit_gens wit_fs) (bs "a", bs "zz_generated.rec.go")
  <> file_of (run true false wit_render (fun _ => []) rev_oracle wit_args [bs "m/a"] wit_world wit_gens wit_fs) (bs "a", bs "zz_generated.rec.go").
Proof. vm_compute. discriminate. Qed.

Ltac solve_nodup := repeat (constructor; [cbn; intuition discriminate|]); try constructor.

Lemma wit_world_wf : wf_world wit_world.
Proof.
  split; cbn.
  - solve_nodup.
  - constructor; [|constructor]. split; cbn.
    + solve_nodup.
    + constructor.
    + repeat constructor; cbn; intuition discriminate.
    + solve_nodup.
Qed.

Lemma wit_run_nontrivial :
  log_of (run true true wit_render (fun _ => []) rev_oracle wit_args [bs "m/a"] wit_world wit_gens wit_fs)
  = Some [(bs "m/a", bs "rec", [mk_call CType (bs "T") 306])]
  /\ file_of (run true true wit_render (fun _ => []) rev_oracle wit_args [bs "m/a"] wit_world wit_gens wit_fs) (bs "a", bs "zz_generated.rec.go")
     = Some (bs "G;Gm(M0,M1,);").
Proof. vm_compute. split; reflexivity. Qed.

(* ================= the second run ================= *)

Definition is_gen_name (a : args) (b : bytes) : bool := has_prefix (a_base a ++ bs ".") b.
Definition generated (a : args) (q : path) : bool := is_gen_name a (snd q).
Definition selected (a : args) (direct : bool) : bool := a_all a || direct.

(* two loads of the same sources: the files present and the directory hashes may differ *)
Definition src_eq (p p' : pkg) : Prop :=
  pk_path p = pk_path p' /\ pk_name p = pk_name p' /\ pk_dir p = pk_dir p'
  /\ pk_filetags p = pk_filetags p' /\ pk_defs p = pk_defs p' /\ pk_meths p = pk_meths p'.

Definition reload (w w' : world) : Prop := w_moddir w = w_moddir w' /\ Forall2 src_eq (w_pkgs w) (w_pkgs w').

(* the hypothesis on generators: what they render depends on the sources only — not on which generated
   files exist, nor on the directory hash (they do not read generated files) *)
Definition reads_sources_only (g : gen) : Prop :=
  forall p p' mv cs, src_eq p p' -> g_run g p mv cs = g_run g p' mv cs.

Definition eff_id (f : fs) (e : effect) : Prop :=
  match e with EWrite q b => f q = Some b | ERemove r => f r = None end.

Lemma apply_feq : forall es f f', feq f f' -> feq (apply es f) (apply es f').
Proof. intros es f f' H. now apply aeq_refl. Qed.

Lemma apply_id : forall es f, (forall e, In e es -> eff_id f e) -> feq (apply es f) f.
Proof.
  induction es as [|e es IH]; intros f H q; cbn; [reflexivity|].
  change (fold_left apply1 es (apply1 f e)) with (apply es (apply1 f e)).
  assert (E : feq (apply1 f e) f).
  { intros r. pose proof (H e (or_introl eq_refl)) as He. destruct e as [p b|p]; cbn in *.
    - destruct (path_eqb r p) eqn:Ep; [|reflexivity]. apply path_eqb_spec in Ep. now subst.
    - destruct (path_eqb r p) eqn:Ep; [|reflexivity]. apply path_eqb_spec in Ep. now subst. }
  rewrite (apply_feq es _ _ E q). apply IH. intros e0 Hin. apply H. now right.
Qed.

Section Alist2.
  Context {V : Type}.
  Lemma In_aset : forall (m : alist V) k v k' v', In (k, v) (aset k' v' m) -> (k = k' /\ v = v') \/ In (k, v) m.
  Proof.
    induction m as [|[k0 v0] r IH]; intros k v k' v' H; cbn in H.
    - destruct H as [H|[]]. inversion H. auto.
    - beq k' k0.
      + destruct H as [H|H]; [inversion H; auto|right; now right].
      + destruct H as [H|H]; [right; now left|]. apply IH in H. destruct H; auto. right. now right.
  Qed.

  Lemma In_adel : forall (m : alist V) k v k', In (k, v) (adel k' m) <-> In (k, v) m /\ k <> k'.
  Proof.
    induction m as [|[k0 v0] r IH]; intros k v k'; cbn.
    - tauto.
    - beq k' k0; cbn.
      + rewrite IH. split; [tauto|]. intros [[H|H] Hne]; [inversion H; subst; contradiction|tauto].
      + rewrite IH. split.
        * intros [H|[H Hne]]; [|tauto]. inversion H; subst. split; [now left|].
          intros ->. rewrite bytes_eqb_refl in E. discriminate.
        * tauto.
  Qed.

  Lemma In_fold_adel {X} (h : X -> bytes) : forall l (s : alist V) k v,
      In (k, v) (fold_left (fun s x => adel (h x) s) l s) <-> In (k, v) s /\ forall x, In x l -> k <> h x.
  Proof.
    induction l as [|x l IH]; intros s k v; cbn.
    - split; [intros H; split; [exact H|intros x []]|tauto].
    - rewrite IH, In_adel. split.
      + intros [[H Hne] Hall]. split; [exact H|]. intros y [<-|Hy]; auto.
      + intros [H Hall]. split; [split; [exact H|apply Hall; now left]|]. intros y Hy. apply Hall. now right.
  Qed.

  Lemma NoDup_keys_adel : forall (m : alist V) k, NoDup (keys m) -> NoDup (keys (adel k m)).
  Proof.
    induction m as [|[k0 v0] r IH]; intros k H; cbn; [constructor|].
    cbn in H. inversion H as [|? ? Hn Hr]; subst. beq k k0; [now apply IH|]. cbn.
    constructor; [|now apply IH]. rewrite keys_adel_in. tauto.
  Qed.

  Lemma NoDup_keys_fold_adel {X} (h : X -> bytes) : forall l (s : alist V),
      NoDup (keys s) -> NoDup (keys (fold_left (fun s x => adel (h x) s) l s)).
  Proof. induction l as [|x l IH]; intros s H; cbn; [exact H|]. apply IH. now apply NoDup_keys_adel. Qed.
End Alist2.

(* generatedFiles: every listed file named <base>.*, mapped to its full name *)
Lemma generated_files_gen : forall a (dir : bytes) l (m : alist path),
    (forall k v, In (k, v) m -> v = (dir, k) /\ is_gen_name a k = true) -> NoDup (keys m) ->
    let r := fold_left (fun m f => if has_prefix (a_base a ++ bs ".") f then aset f (dir, f) m else m) l m in
    (forall k v, In (k, v) r -> v = (dir, k) /\ is_gen_name a k = true)
    /\ NoDup (keys r)
    /\ (forall k, (In k l /\ is_gen_name a k = true) \/ In k (keys m) -> In k (keys r)).
Proof.
  intros a dir. induction l as [|x l IH]; intros m Hm HN r; subst r; cbn [fold_left].
  - split; [exact Hm|]. split; [exact HN|]. intros k [[[] _]|H]. exact H.
  - destruct (has_prefix (a_base a ++ bs ".") x) eqn:E.
    + destruct (IH (aset x (dir, x) m)) as [I1 [I2 I3]].
      * intros k v H. apply In_aset in H. destruct H as [[-> ->]|H]; [split; [reflexivity|exact E]|now apply Hm].
      * now apply NoDup_keys_aset.
      * split; [exact I1|]. split; [exact I2|]. intros k H. apply I3.
        destruct H as [[[<-|H] Hg]|H].
        -- right. apply keys_aset_in. now left.
        -- left. tauto.
        -- right. apply keys_aset_in. now right.
    + destruct (IH m Hm HN) as [I1 [I2 I3]]. split; [exact I1|]. split; [exact I2|]. intros k H. apply I3.
      destruct H as [[[<-|H] Hg]|H]; auto. unfold is_gen_name in Hg. congruence.
Qed.

Lemma generated_files_spec : forall a p,
    (forall k v, In (k, v) (generated_files a p) -> v = (pk_dir p, k) /\ is_gen_name a k = true)
    /\ NoDup (keys (generated_files a p))
    /\ (forall k, In k (pk_files p) -> is_gen_name a k = true -> In (k, (pk_dir p, k)) (generated_files a p)).
Proof.
  intros a p. unfold generated_files.
  destruct (generated_files_gen a (pk_dir p) (pk_files p) []) as [I1 [I2 I3]]; [intros k v []|constructor|].
  split; [exact I1|]. split; [exact I2|]. intros k Hin Hg.
  assert (Hk : In k (keys (fold_left (fun m f => if has_prefix (a_base a ++ bs ".") f then aset f (pk_dir p, f) m else m) (pk_files p) [])))
    by (apply I3; left; tauto).
  apply in_map_iff in Hk. destruct Hk as [[k' v] [Hf Hk]]. cbn in Hf. subst k'.
  destruct (I1 k v Hk) as [-> _]. exact Hk.
Qed.

(* the sorted list of local packages, canonically *)
Lemma sorted_local_canon : forall (o : oracle) e w, shuffles o -> wf_world w ->
    sorted_local o e w = map (fun k => (k, mem k e)) (sort_strings (map pk_path (w_pkgs w))).
Proof.
  intros o e w Hs Hw. unfold sorted_local. rewrite (local_pkgs_eq o e w Hs Hw). ukeys.
  set (L := map (fun p => (pk_path p, mem (pk_path p) e)) (o _ [bs "reg"] (w_pkgs w))).
  assert (HN : NoDup (keys L)).
  { unfold L. rewrite map_map. cbn. eapply Permutation_NoDup; [|apply (wf_paths w Hw)]. apply Permutation_map, Hs. }
  assert (HK : Permutation (keys (o _ [bs "local"] L)) (map pk_path (w_pkgs w))).
  { eapply perm_trans; [apply Permutation_map, Permutation_sym, Hs|]. unfold L. rewrite map_map. cbn.
    apply Permutation_map, Permutation_sym, Hs. }
  rewrite (sort_perm_eq _ _ HK). apply map_ext_in. intros k Hk. f_equal.
  assert (Hin : In k (map pk_path (w_pkgs w))) by (eapply Permutation_in; [apply Permutation_sym, sort_perm|exact Hk]).
  apply in_map_iff in Hin. destruct Hin as [p [<- Hp]].
  rewrite (lookup_In L (pk_path p) (mem (pk_path p) e) HN); [reflexivity|].
  unfold L. apply in_map_iff. exists p. split; [reflexivity|]. eapply Permutation_in; [apply Hs|exact Hp].
Qed.

Lemma reload_paths : forall w w', reload w w' -> map pk_path (w_pkgs w) = map pk_path (w_pkgs w').
Proof.
  intros w w' [_ H]. induction H as [|p p' l l' Hp _ IH]; cbn; [reflexivity|].
  destruct Hp as [-> _]. now rewrite IH.
Qed.

Lemma find_pkg_reload : forall w w' k p', reload w w' -> find_pkg k w' = Some p' ->
    exists p, find_pkg k w = Some p /\ src_eq p p'.
Proof.
  intros w w' k p' [_ H]. unfold find_pkg. induction H as [|p q l l' Hp _ IH]; cbn; [discriminate|].
  pose proof Hp as [Hpath _]. rewrite Hpath. destruct (bytes_eqb k (pk_path q)).
  - intros E. inversion E; subst. eauto.
  - exact IH.
Qed.

Lemma find_pkg_some : forall w k, In k (map pk_path (w_pkgs w)) -> exists p, find_pkg k w = Some p.
Proof.
  intros w k H. unfold find_pkg. induction (w_pkgs w) as [|p l IH]; cbn in *; [contradiction|].
  destruct (bytes_eqb k (pk_path p)) eqn:E; [eauto|]. destruct H as [H|H]; [|now apply IH].
  subst. rewrite bytes_eqb_refl in E. discriminate.
Qed.

Lemma find_pkg_path : forall w k p, find_pkg k w = Some p -> pk_path p = k /\ In p (w_pkgs w).
Proof.
  intros w k p H. unfold find_pkg in H. apply find_some in H. destruct H as [Hin E].
  apply bytes_eqb_spec in E. auto.
Qed.

Section Second.
  Variable render : gfile -> option bytes.
  Variable parse_sum : bytes -> alist bytes.
  Variable o : oracle.
  Hypothesis Hs : shuffles o.

  (* a package's generated files are exactly what its generators produce *)
  Definition settled_pkg (a : args) (gens : list gen) (p : pkg) (f : fs) : Prop :=
    exists gfs log,
      gens_loop true true o a p (pkg_tags o p) gens [] [] = Some (gfs, log)
      /\ (forall g out, In (g, out) gfs -> is_nil (go_body out) = false ->
                        exists b, render (mk_file o p g out) = Some b /\ f (pk_dir p, filename a g) = Some b)
      /\ (forall k, is_gen_name a k = true -> f (pk_dir p, k) <> None ->
                    exists g, In g (keys gfs) /\ k = filename a g).

  Definition settled (a : args) (e : list bytes) (gens : list gen) (w : world) (f : fs) : Prop :=
    forall k p, In k (map pk_path (w_pkgs w)) -> selected a (mem k e) = true -> find_pkg k w = Some p ->
                settled_pkg a gens p f.

  Lemma gen_one_src : forall a p p' g, src_eq p p' -> reads_sources_only g ->
      gen_one true true o a p (pkg_tags o p) g = gen_one true true o a p' (pkg_tags o p') g.
  Proof.
    intros a [pa na da fa ta de me ha] [pa' na' da' fa' ta' de' me' ha'] g H Hg.
    pose proof H as [E1 [E2 [E3 [E4 [E5 E6]]]]]. cbn in *. subst.
    unfold gen_one. rewrite (Hg _ _ _ _ H). reflexivity.
  Qed.

  Lemma gens_loop_src : forall a p p' gs gfs log, src_eq p p' -> Forall reads_sources_only gs ->
      gens_loop true true o a p (pkg_tags o p) gs gfs log = gens_loop true true o a p' (pkg_tags o p') gs gfs log.
  Proof.
    intros a p p' gs. induction gs as [|g gs IH]; intros gfs log H HF; cbn; [reflexivity|].
    inversion HF; subst. rewrite (gen_one_src a p p' g H) by assumption.
    destruct (gen_one true true o a p' (pkg_tags o p') g) as [[calls og]|]; [|reflexivity].
    pose proof H as [E _]. rewrite E. now apply IH.
  Qed.

  Lemma mk_file_src : forall p p' g out, src_eq p p' -> mk_file o p g out = mk_file o p' g out.
  Proof. intros p p' g out [E1 [E2 _]]. unfold mk_file. now rewrite E1, E2. Qed.

  Lemma settled_pkg_src : forall a gens p p' f, src_eq p p' -> Forall reads_sources_only gens ->
      settled_pkg a gens p f -> settled_pkg a gens p' f.
  Proof.
    intros a gens p p' f H HF [gfs [log [G [C1 C2]]]]. exists gfs, log.
    rewrite <- (gens_loop_src a p p' gens [] [] H HF). split; [exact G|].
    pose proof H as [_ [_ [Ed _]]]. rewrite <- Ed. split.
    - intros g out Hin Hb. rewrite <- (mk_file_src p p' g out H). now apply C1.
    - exact C2.
  Qed.

  (* executing a settled package changes nothing *)
  Lemma pkg_execute_settled : forall a gens p f, settled_pkg a gens p f ->
      exists es log, pkg_execute true true render o a gens p = Some (es, log) /\ forall e, In e es -> eff_id f e.
  Proof.
    intros a gens p f [gfs [log [G [C1 C2]]]]. unfold pkg_execute. rewrite G, write_loop_spec.
    assert (HP : Permutation gfs (o _ [bs "gfs"; pk_path p] gfs)) by apply Hs.
    assert (Hok : forallb (wl_ok render o p) (o _ [bs "gfs"; pk_path p] gfs) = true).
    { apply forallb_forall. intros [g out] Hin. unfold wl_ok. cbn.
      destruct (is_nil (go_body out)) eqn:E; [reflexivity|]. cbn.
      destruct (C1 g out) as [b [R _]]; [eapply Permutation_in; [apply Permutation_sym; exact HP|exact Hin]|exact E|].
      now rewrite R. }
    rewrite Hok. eexists _, log. split; [reflexivity|]. cbn. intros e Hin. apply in_app_or in Hin. destruct Hin as [Hin|Hin].
    - apply in_flat_map in Hin. destruct Hin as [[g out] [Hg He]]. unfold wl_eff in He. cbn in He.
      destruct (is_nil (go_body out)) eqn:E; [contradiction|].
      destruct (C1 g out) as [b [R F]]; [eapply Permutation_in; [apply Permutation_sym; exact HP|exact Hg]|exact E|].
      rewrite R in He. destruct He as [<-|[]]. exact F.
    - apply in_map_iff in Hin. destruct Hin as [[k v] [<- Hkv]]. cbn.
      assert (Hkv' : In (k, v) (fold_left (fun s (kv : bytes * genout) => adel (filename a (fst kv)) s)
                                          (o _ [bs "gfs"; pk_path p] gfs) (generated_files a p)))
        by (eapply Permutation_in; [apply Permutation_sym, Hs|exact Hkv]).
      apply (In_fold_adel (fun kv : bytes * genout => filename a (fst kv))) in Hkv'. destruct Hkv' as [Hg Hne].
      destruct (generated_files_spec a p) as [S1 _]. destruct (S1 k v Hg) as [-> Hgen].
      destruct (f (pk_dir p, k)) eqn:F; [|reflexivity]. exfalso.
      destruct (C2 k Hgen) as [g [Hgin ->]]; [congruence|].
      apply in_map_iff in Hgin. destruct Hgin as [[g' out] [Hf Hgin]]. cbn in Hf. subst g'.
      apply (Hne (g, out)); [eapply Permutation_in; [exact HP|exact Hgin]|reflexivity].
  Qed.

  Lemma pkgs_loop_settled : forall a e gens w w' f prev cur,
      reload w w' -> Forall reads_sources_only gens -> settled a e gens w f ->
      forall l es log,
        (forall k d, In (k, d) l -> In k (map pk_path (w_pkgs w)) /\ d = mem k e) ->
        (forall x, In x es -> eff_id f x) ->
        exists es' log', pkgs_loop true true render o a w' gens prev cur l es log = Some (es', log')
                         /\ forall x, In x es' -> eff_id f x.
  Proof.
    intros a e gens w w' f prev cur Hr HF Hset. induction l as [|[k d] l IH]; intros es log Hl Hes; cbn.
    - eauto.
    - assert (Hl' : forall k0 d0, In (k0, d0) l -> In k0 (map pk_path (w_pkgs w)) /\ d0 = mem k0 e)
        by (intros; apply Hl; now right).
      destruct (negb (a_all a) && negb d) eqn:Sel; [now apply IH|].
      destruct (negb (pkg_changed a prev cur k)); [now apply IH|].
      destruct (Hl k d (or_introl eq_refl)) as [Hk ->].
      destruct (find_pkg_some w' k) as [p' F']; [rewrite <- (reload_paths w w' Hr); exact Hk|].
      rewrite F'. destruct (find_pkg_reload w w' k p' Hr F') as [p [F Hsrc]].
      assert (Hsel : selected a (mem k e) = true).
      { unfold selected. destruct (a_all a), (mem k e); cbn in *; congruence. }
      pose proof (settled_pkg_src a gens p p' f Hsrc HF (Hset k p Hk Hsel F)) as Hp'.
      destruct (pkg_execute_settled a gens p' f Hp') as [es1 [log1 [E Hid]]]. rewrite E.
      apply IH; [exact Hl'|]. intros x Hx. apply in_app_or in Hx. destruct Hx; auto.
  Qed.

  (* a run on a settled tree: only gengo.sum may change *)
  Lemma run_settled : forall a e gens w w' f,
      wf_world w' -> reload w w' -> Forall reads_sources_only gens -> settled a e gens w f ->
      exists f' log, run true true render parse_sum o a e w' gens f = Some (f', log)
                     /\ forall q, q <> (w_moddir w', sum_name) -> f' q = f q.
  Proof.
    intros a e gens w w' f Hw' Hr HF Hset. unfold run, plan.
    set (prev := if a_all a && existsb snd (sorted_local o e w') then _ else None).
    destruct (pkgs_loop_settled a e gens w w' f prev (sum_data o w') Hr HF Hset (sorted_local o e w') [] [])
      as [es [log [E Hid]]].
    - intros k d Hin. rewrite (sorted_local_canon o e w' Hs Hw') in Hin.
      apply in_map_iff in Hin. destruct Hin as [k' [Heq Hin]]. inversion Heq; subst. split; [|reflexivity].
      rewrite (reload_paths w w' Hr). eapply Permutation_in; [apply Permutation_sym, sort_perm|exact Hin].
    - intros x [].
    - rewrite E. eexists _, log. split; [reflexivity|]. intros q Hq.
      destruct (a_all a).
      + rewrite apply_app. set (sp := (w_moddir w', sum_name)) in *. cbn. destruct (path_eqb q sp) eqn:Eq.
        * apply path_eqb_spec in Eq. contradiction.
        * exact (apply_id es f Hid q).
      + exact (apply_id es f Hid q).
  Qed.
End Second.

(* ================= the first run settles the tree ================= *)

Lemma has_prefix_app : forall p s, has_prefix p (p ++ s) = true.
Proof. induction p as [|x p IH]; intros s; cbn; [reflexivity|]. now rewrite Ascii.eqb_refl, IH. Qed.

Lemma filename_is_gen : forall a g, is_gen_name a (filename a g) = true.
Proof.
  intros a g. unfold is_gen_name, filename. rewrite app_assoc. apply has_prefix_app.
Qed.

Lemma NoDup_app_intro {A} : forall l1 l2 : list A,
    NoDup l1 -> NoDup l2 -> (forall x, In x l1 -> ~ In x l2) -> NoDup (l1 ++ l2).
Proof.
  induction l1 as [|x l1 IH]; intros l2 H1 H2 Hd; cbn; [exact H2|].
  inversion H1 as [|? ? Hn Hr]; subst. constructor.
  - intros Hin. apply in_app_or in Hin. destruct Hin as [Hin|Hin]; [contradiction|]. apply (Hd x); [now left|exact Hin].
  - apply IH; try assumption. intros y Hy. apply Hd. now right.
Qed.

Lemma NoDup_map_snd_dir : forall (dir : bytes) (l : alist path),
    NoDup (keys l) -> (forall kv, In kv l -> snd kv = (dir, fst kv)) -> NoDup (map snd l).
Proof.
  intros dir. induction l as [|[k v] l IH]; cbn; intros HN H; [constructor|].
  inversion HN as [|? ? Hn Hr]; subst. constructor.
  - intros Hin. apply in_map_iff in Hin. destruct Hin as [[k' v'] [Hv Hin]]. cbn in Hv. subst v'.
    pose proof (H (k, v) (or_introl eq_refl)) as E1. pose proof (H (k', v) (or_intror Hin)) as E2. cbn in *.
    rewrite E1 in E2. inversion E2; subst. apply Hn. change k' with (fst (k', (dir, k'))). now apply in_map.
  - apply IH; [exact Hr|]. intros kv Hin. apply H. now right.
Qed.

Lemma find_in_nodup : forall es e, NoDup (map eff_path es) -> In e es ->
    find (fun e0 => path_eqb (eff_path e) (eff_path e0)) es = Some e.
Proof.
  induction es as [|x es IH]; intros e HN Hin; [contradiction|]. cbn in *.
  inversion HN as [|? ? Hn Hr]; subst. destruct Hin as [->|Hin].
  - now rewrite path_eqb_refl.
  - destruct (path_eqb (eff_path e) (eff_path x)) eqn:E; [|now apply IH].
    apply path_eqb_spec in E. exfalso. apply Hn. rewrite <- E. now apply in_map.
Qed.

Lemma apply_untouched : forall es f q, (forall e, In e es -> eff_path e <> q) -> apply es f q = f q.
Proof.
  induction es as [|e es IH]; intros f q H; cbn; [reflexivity|].
  change (fold_left apply1 es (apply1 f e)) with (apply es (apply1 f e)).
  rewrite IH by (intros e0 Hin; apply H; now right).
  pose proof (H e (or_introl eq_refl)) as Hne.
  destruct e as [p b|p]; cbn in *; destruct (path_eqb q p) eqn:E; try reflexivity;
    apply path_eqb_spec in E; congruence.
Qed.

Lemma apply_local : forall es f f' q, f q = f' q -> apply es f q = apply es f' q.
Proof.
  induction es as [|e es IH]; intros f f' q H; cbn; [exact H|].
  change (fold_left apply1 es (apply1 ?g e)) with (apply es (apply1 g e)).
  apply IH. destruct e as [p b|p]; cbn; destruct (path_eqb q p); auto.
Qed.

Section First.
  Variable render : gfile -> option bytes.
  Variable parse_sum : bytes -> alist bytes.
  Variable o : oracle.
  Hypothesis Hs : shuffles o.

  (* every file named <base>.* that exists in a package directory was listed when the package was loaded *)
  Definition loaded (a : args) (w : world) (f : fs) : Prop :=
    forall p k, In p (w_pkgs w) -> is_gen_name a k = true -> f (pk_dir p, k) <> None -> In k (pk_files p).

  (* the run regenerates every selected package: Force, or no cache (not All / no previous gengo.sum) *)
  Definition regen_all (a : args) (w : world) (f : fs) : Prop :=
    a_force a = true \/ a_all a = false \/ f (w_moddir w, sum_name) = None.

  Lemma pkg_execute_shape : forall a gens p es log,
      pkg_execute true true render o a gens p = Some (es, log) ->
      exists gfs,
        gens_loop true true o a p (pkg_tags o p) gens [] [] = Some (gfs, log)
        /\ forallb (wl_ok render o p) (o _ [bs "gfs"; pk_path p] gfs) = true
        /\ es = flat_map (wl_eff render o a p) (o _ [bs "gfs"; pk_path p] gfs)
                ++ map (fun kv : bytes * path => ERemove (snd kv))
                       (o _ [bs "stale"; pk_path p]
                          (fold_left (fun s (kv : bytes * genout) => adel (filename a (fst kv)) s)
                                     (o _ [bs "gfs"; pk_path p] gfs) (generated_files a p))).
  Proof.
    intros a gens p es log H. unfold pkg_execute in H.
    destruct (gens_loop true true o a p (pkg_tags o p) gens [] []) as [[gfs lg]|]; [|discriminate].
    rewrite write_loop_spec in H.
    destruct (forallb (wl_ok render o p) (o _ [bs "gfs"; pk_path p] gfs)) eqn:F; [|discriminate].
    cbn in H. inversion H; subst. exists gfs. auto.
  Qed.

  Lemma stale_entry : forall a p (l : list (bytes * genout)) k v,
      In (k, v) (fold_left (fun s (kv : bytes * genout) => adel (filename a (fst kv)) s) l (generated_files a p)) ->
      v = (pk_dir p, k) /\ is_gen_name a k = true /\ forall x, In x l -> k <> filename a (fst x).
  Proof.
    intros a p l k v H. apply (In_fold_adel (fun kv : bytes * genout => filename a (fst kv))) in H.
    destruct H as [Hg Hne]. destruct (generated_files_spec a p) as [S1 _]. destruct (S1 k v Hg). auto.
  Qed.

  Lemma wl_eff_in : forall a p l e, In e (flat_map (wl_eff render o a p) l) ->
      exists g out b, In (g, out) l /\ is_nil (go_body out) = false /\ render (mk_file o p g out) = Some b
                      /\ e = EWrite (pk_dir p, filename a g) b.
  Proof.
    intros a p l e H. apply in_flat_map in H. destruct H as [[g out] [Hin He]]. unfold wl_eff in He. cbn in He.
    destruct (is_nil (go_body out)) eqn:E; [contradiction|].
    destruct (render (mk_file o p g out)) as [b|] eqn:R; [|contradiction]. destruct He as [<-|[]].
    exists g, out, b. auto.
  Qed.

  Lemma pkg_execute_paths : forall a gens p es log,
      pkg_execute true true render o a gens p = Some (es, log) ->
      forall e, In e es -> fst (eff_path e) = pk_dir p /\ is_gen_name a (snd (eff_path e)) = true.
  Proof.
    intros a gens p es log H e Hin. destruct (pkg_execute_shape a gens p es log H) as [gfs [_ [_ ->]]].
    apply in_app_or in Hin. destruct Hin as [Hin|Hin].
    - destruct (wl_eff_in a p _ e Hin) as [g [out [b [_ [_ [_ ->]]]]]]. cbn. split; [reflexivity|apply filename_is_gen].
    - apply in_map_iff in Hin. destruct Hin as [[k v] [<- Hkv]]. cbn.
      assert (Hkv' := Permutation_in _ (Permutation_sym (Hs _ _ _)) Hkv).
      destruct (stale_entry a p _ k v Hkv') as [-> [Hg _]]. cbn. auto.
  Qed.

  Lemma pkg_execute_nodup : forall a gens p es log,
      pkg_execute true true render o a gens p = Some (es, log) -> NoDup (map eff_path es).
  Proof.
    intros a gens p es log H. destruct (pkg_execute_shape a gens p es log H) as [gfs [G [_ ->]]].
    assert (HN : NoDup (keys gfs)) by (eapply (gens_loop_nodup o); [|exact G]; constructor).
    rewrite map_app. apply NoDup_app_intro.
    - apply wl_eff_paths. eapply Permutation_NoDup; [|exact HN]. apply Permutation_map, Hs.
    - rewrite map_map. cbn.
      apply (NoDup_map_snd_dir (pk_dir p)).
      + eapply Permutation_NoDup; [apply Permutation_map, Hs|].
        apply (NoDup_keys_fold_adel (fun kv : bytes * genout => filename a (fst kv))).
        apply (generated_files_spec a p).
      + intros [k v] Hin. assert (Hin' := Permutation_in _ (Permutation_sym (Hs _ _ _)) Hin).
        destruct (stale_entry a p _ k v Hin') as [-> _]. reflexivity.
    - intros q Hq1 Hq2.
      apply in_map_iff in Hq1. destruct Hq1 as [e1 [<- He1]].
      destruct (wl_eff_in a p _ e1 He1) as [g [out [b [Hg [_ [_ ->]]]]]]. cbn in Hq2.
      rewrite map_map in Hq2. cbn in Hq2. apply in_map_iff in Hq2. destruct Hq2 as [[k v] [Hv Hkv]]. cbn in Hv.
      assert (Hkv' := Permutation_in _ (Permutation_sym (Hs _ _ _)) Hkv).
      destruct (stale_entry a p _ k v Hkv') as [-> [_ Hne]]. inversion Hv; subst.
      apply (Hne (g, out) Hg). reflexivity.
  Qed.

  Lemma pkg_execute_settles : forall a gens p es log f f1,
      pkg_execute true true render o a gens p = Some (es, log) ->
      (forall k, is_gen_name a k = true -> f (pk_dir p, k) <> None -> In k (pk_files p)) ->
      (forall k, is_gen_name a k = true -> f1 (pk_dir p, k) = apply es f (pk_dir p, k)) ->
      settled_pkg render o a gens p f1.
  Proof.
    intros a gens p es log f f1 H Hload Hf1.
    pose proof (pkg_execute_nodup a gens p es log H) as HN.
    destruct (pkg_execute_shape a gens p es log H) as [gfs [G [Hok Hes]]].
    assert (HP : Permutation gfs (o _ [bs "gfs"; pk_path p] gfs)) by apply Hs.
    exists gfs, log. split; [exact G|]. split.
    - intros g out Hin Hb.
      rewrite forallb_forall in Hok. pose proof (Hok (g, out) (Permutation_in _ HP Hin)) as Hk.
      unfold wl_ok in Hk. cbn in Hk. rewrite Hb in Hk. cbn in Hk.
      destruct (render (mk_file o p g out)) as [b|] eqn:R; [|discriminate].
      exists b. split; [reflexivity|]. rewrite Hf1 by apply filename_is_gen.
      assert (Hine : In (EWrite (pk_dir p, filename a g) b) es).
      { rewrite Hes. apply in_or_app. left. apply in_flat_map. exists (g, out). split; [exact (Permutation_in _ HP Hin)|].
        unfold wl_eff. cbn. rewrite Hb, R. now left. }
      rewrite (apply_find es f _ HN).
      change (pk_dir p, filename a g) with (eff_path (EWrite (pk_dir p, filename a g) b)).
      now rewrite (find_in_nodup es _ HN Hine).
    - intros k Hg Hne. rewrite (Hf1 k Hg) in Hne.
      destruct (in_dec (list_eq_dec Ascii.ascii_dec) k (map (fun kv : bytes * genout => filename a (fst kv)) gfs)) as [Hin|Hnin].
      + apply in_map_iff in Hin. destruct Hin as [[g out] [<- Hin]]. exists g. split; [|reflexivity].
        change g with (fst (g, out)). now apply in_map.
      + exfalso. apply Hne. rewrite (apply_find es f _ HN).
        destruct (find (fun e => path_eqb (pk_dir p, k) (eff_path e)) es) as [e|] eqn:F.
        * apply find_some in F. destruct F as [Hine Hpe]. apply path_eqb_spec in Hpe.
          rewrite Hes in Hine. apply in_app_or in Hine. destruct Hine as [Hine|Hine].
          -- destruct (wl_eff_in a p _ e Hine) as [g [out [b [Hgin [_ [_ ->]]]]]]. cbn in Hpe. inversion Hpe; subst.
             exfalso. apply Hnin. apply in_map_iff. exists (g, out). split; [reflexivity|].
             exact (Permutation_in _ (Permutation_sym HP) Hgin).
          -- apply in_map_iff in Hine. destruct Hine as [kv [<- _]]. reflexivity.
        * destruct (f (pk_dir p, k)) eqn:Ff; [|reflexivity]. exfalso.
          assert (Hk : In k (pk_files p)) by (apply Hload; [exact Hg|congruence]).
          destruct (generated_files_spec a p) as [_ [_ S3]]. pose proof (S3 k Hk Hg) as Hgf.
          assert (Hst : In (k, (pk_dir p, k))
                           (fold_left (fun s (kv : bytes * genout) => adel (filename a (fst kv)) s)
                                      (o _ [bs "gfs"; pk_path p] gfs) (generated_files a p))).
          { apply (In_fold_adel (fun kv : bytes * genout => filename a (fst kv))). split; [exact Hgf|].
            intros x Hx Hkx. apply Hnin. apply in_map_iff. exists x. split; [now symmetry|].
            exact (Permutation_in _ (Permutation_sym HP) Hx). }
          assert (Hrm : In (ERemove (pk_dir p, k)) es).
          { rewrite Hes. apply in_or_app. right. apply in_map_iff. exists (k, (pk_dir p, k)). split; [reflexivity|].
            exact (Permutation_in _ (Hs _ _ _) Hst). }
          pose proof (find_none _ _ F _ Hrm) as Hfn. cbn in Hfn. rewrite path_eqb_refl in Hfn. discriminate.
  Qed.

  Definition from_other (w : world) (l : list (bytes * bool)) (k : bytes) (e : effect) : Prop :=
    exists k2 d2 p2, In (k2, d2) l /\ k2 <> k /\ find_pkg k2 w = Some p2 /\ fst (eff_path e) = pk_dir p2.

  Lemma from_other_mono : forall w l x k e, from_other w l k e -> from_other w (x :: l) k e.
  Proof. intros w l x k e [k2 [d2 [p2 [H1 H2]]]]. exists k2, d2, p2. split; [now right|exact H2]. Qed.

  Lemma pkgs_loop_parts : forall a w gens prev cur,
      (forall k, pkg_changed a prev cur k = true) ->
      forall l es log es' log',
        NoDup (map fst l) ->
        pkgs_loop true true render o a w gens prev cur l es log = Some (es', log') ->
        exists tail, es' = es ++ tail
          /\ (forall e, In e tail -> exists k d p2, In (k, d) l /\ find_pkg k w = Some p2 /\ fst (eff_path e) = pk_dir p2)
          /\ (forall k d p, In (k, d) l -> selected a d = true -> find_pkg k w = Some p ->
                exists A es_p B lg, tail = A ++ es_p ++ B
                  /\ pkg_execute true true render o a gens p = Some (es_p, lg)
                  /\ forall e, In e (A ++ B) -> from_other w l k e).
  Proof.
    intros a w gens prev cur Hch. induction l as [|[k0 d0] r IH]; intros es log es' log' HN H; cbn in H.
    - inversion H; subst. exists []. rewrite app_nil_r. split; [reflexivity|]. split; [intros e []|intros k d p []].
    - cbn in HN. inversion HN as [|? ? Hn Hr]; subst.
      destruct (negb (a_all a) && negb d0) eqn:Sel.
      + destruct (IH es log es' log' Hr H) as [tail [E [T1 T2]]]. exists tail. split; [exact E|]. split.
        * intros e He. destruct (T1 e He) as [k [d [p2 [Hin Hrest]]]]. exists k, d, p2. split; [now right|exact Hrest].
        * intros k d p [Heq|Hin] Hsel F.
          -- inversion Heq; subst. unfold selected in Hsel. destruct (a_all a), d; cbn in *; discriminate.
          -- destruct (T2 k d p Hin Hsel F) as [A [es_p [B [lg [E1 [E2 E3]]]]]]. exists A, es_p, B, lg.
             split; [exact E1|]. split; [exact E2|]. intros e He. apply from_other_mono. now apply E3.
      + rewrite Hch in H. cbn in H.
        destruct (find_pkg k0 w) as [p0|] eqn:F0; [|discriminate].
        destruct (pkg_execute true true render o a gens p0) as [[es0 lg0]|] eqn:X0; [|discriminate].
        destruct (IH _ _ es' log' Hr H) as [tail [E [T1 T2]]]. exists (es0 ++ tail).
        split; [rewrite E; now rewrite app_assoc|]. split.
        * intros e He. apply in_app_or in He. destruct He as [He|He].
          -- exists k0, d0, p0. split; [now left|]. split; [exact F0|]. now apply (pkg_execute_paths a gens p0 es0 lg0 X0).
          -- destruct (T1 e He) as [k [d [p2 [Hin Hrest]]]]. exists k, d, p2. split; [now right|exact Hrest].
        * intros k d p [Heq|Hin] Hsel F.
          -- inversion Heq; subst. rewrite F0 in F. inversion F; subst.
             exists [], es0, tail, lg0. split; [reflexivity|]. split; [exact X0|]. cbn. intros e He.
             destruct (T1 e He) as [k2 [d2 [p2 [Hin [F2 Hd]]]]]. exists k2, d2, p2.
             split; [now right|]. split; [|auto]. intros ->. apply Hn. change k with (fst (k, d2)). now apply in_map.
          -- destruct (T2 k d p Hin Hsel F) as [A [es_p [B [lg [E1 [E2 E3]]]]]]. exists (es0 ++ A), es_p, B, lg.
             split; [rewrite E1; now rewrite app_assoc|]. split; [exact E2|]. intros e He.
             rewrite <- app_assoc in He. apply in_app_or in He. destruct He as [He|He].
             ++ exists k0, d0, p0. split; [now left|]. split.
                ** intros ->. apply Hn. change k with (fst (k, d)). now apply in_map.
                ** split; [exact F0|]. now apply (pkg_execute_paths a gens p0 es0 lg0 X0).
             ++ apply from_other_mono. now apply E3.
  Qed.

  Lemma first_run_settles : forall a e gens w f f1 log,
      wf_world w -> NoDup (map pk_dir (w_pkgs w)) -> is_gen_name a sum_name = false ->
      loaded a w f -> regen_all a w f ->
      run true true render parse_sum o a e w gens f = Some (f1, log) ->
      settled render o a e gens w f1.
  Proof.
    intros a e gens w f f1 log Hw Hdirs Hsum Hload Hregen H. unfold run, plan in H.
    set (prev := if a_all a && existsb snd (sorted_local o e w) then _ else None) in H.
    destruct (pkgs_loop true true render o a w gens prev (sum_data o w) (sorted_local o e w) [] []) as [[es lg]|] eqn:L;
      [|discriminate].
    inversion H; subst f1 log. clear H.
    assert (Hch : forall k, pkg_changed a prev (sum_data o w) k = true).
    { intros k. unfold pkg_changed. destruct (a_force a) eqn:Ef; [reflexivity|].
      assert (prev = None) as ->; [|reflexivity]. unfold prev.
      destruct Hregen as [Hr|[Hr|Hr]]; [congruence|now rewrite Hr|].
      rewrite Hr. now destruct (a_all a && existsb snd (sorted_local o e w)). }
    assert (Hsl := sorted_local_canon o e w Hs Hw).
    assert (HNl : NoDup (map fst (sorted_local o e w))).
    { rewrite Hsl, map_map. cbn. rewrite map_id. eapply Permutation_NoDup; [apply sort_perm|apply (wf_paths w Hw)]. }
    destruct (pkgs_loop_parts a w gens prev (sum_data o w) Hch _ _ _ _ _ HNl L) as [tail [E [T1 T2]]].
    cbn in E. subst es.
    intros k p Hk Hsel F.
    assert (Hin : In (k, mem k e) (sorted_local o e w)).
    { rewrite Hsl. apply in_map_iff. exists k. split; [reflexivity|]. eapply Permutation_in; [apply sort_perm|exact Hk]. }
    destruct (T2 k (mem k e) p Hin Hsel F) as [A [es_p [B [lg' [E1 [X Hoth]]]]]].
    destruct (find_pkg_path w k p F) as [Hpk Hpin].
    apply (pkg_execute_settles a gens p es_p lg' f); [exact X|intros k0; now apply Hload|].
    intros k0 Hg.
    assert (Hother : forall e0, In e0 (A ++ B) -> eff_path e0 <> (pk_dir p, k0)).
    { intros e0 He0 Hp0. destruct (Hoth e0 He0) as [k2 [d2 [p2 [_ [Hne [F2 Hd]]]]]].
      destruct (find_pkg_path w k2 p2 F2) as [Hpk2 Hpin2]. rewrite Hp0 in Hd. cbn in Hd.
      assert (p = p2) by (eapply (NoDup_map_inj_in pk_dir); eassumption). subst p2. congruence. }
    assert (Hcore : apply tail f (pk_dir p, k0) = apply es_p f (pk_dir p, k0)).
    { rewrite E1, !apply_app.
      rewrite apply_untouched by (intros e0 He0; apply Hother, in_or_app; now right).
      apply apply_local. apply apply_untouched. intros e0 He0. apply Hother, in_or_app. now left. }
    destruct (a_all a); [|exact Hcore].
    rewrite apply_app. set (sp := (w_moddir w, sum_name)). cbn.
    destruct (path_eqb (pk_dir p, k0) sp) eqn:Eq; [|exact Hcore].
    apply path_eqb_spec in Eq. unfold sp in Eq. inversion Eq; subst. congruence.
  Qed.
End First.

(* ================= second run, any number of runs ================= *)

Lemma run_feq : forall render parse_sum (o : oracle) a e w gens f f',
    feq f f' ->
    out_equiv (run true true render parse_sum o a e w gens f) (run true true render parse_sum o a e w gens f').
Proof.
  intros render parse_sum o a e w gens f f' H. unfold run.
  assert (E : plan true true render parse_sum o a e w gens f = plan true true render parse_sum o a e w gens f').
  { unfold plan. now rewrite (H (w_moddir w, sum_name)). }
  rewrite E. destruct (plan true true render parse_sum o a e w gens f') as [[es lg]|]; [|exact I].
  cbn. split; [|reflexivity]. now apply apply_feq.
Qed.

Lemma generated_not_sum : forall a (md : bytes) q, is_gen_name a sum_name = false -> generated a q = true -> q <> (md, sum_name).
Proof. intros a md q Hs Hg ->. unfold generated in Hg. cbn [snd] in Hg. congruence. Qed.

Theorem second_run_fixed_point :
  forall render parse_sum (o1 o2 : oracle) a e gens w w' f f1 log1,
    shuffles o1 -> shuffles o2 -> wf_args a -> wf_world w -> wf_world w' ->
    NoDup (map pk_dir (w_pkgs w)) -> is_gen_name a sum_name = false ->
    Forall reads_sources_only gens -> reload w w' ->
    loaded a w f -> regen_all a w f ->
    run true true render parse_sum o1 a e w gens f = Some (f1, log1) ->
    exists f2 log2,
      run true true render parse_sum o2 a e w' gens f1 = Some (f2, log2)
      /\ forall q, q <> (w_moddir w', sum_name) -> f2 q = f1 q.
Proof.
  intros render parse_sum o1 o2 a e gens w w' f f1 log1 Hs1 Hs2 Ha Hw Hw' Hd Hsum HF Hr Hl Hg H.
  pose proof (run_order_independent render parse_sum o1 o2 a e e w gens f Hs1 Hs2 Ha Hw (Permutation_refl e)) as HO.
  rewrite H in HO. unfold out_equiv in HO.
  destruct (run true true render parse_sum o2 a e w gens f) as [[f1' lg]|] eqn:R1; [|contradiction].
  destruct HO as [Hf _].
  pose proof (first_run_settles render parse_sum o2 Hs2 a e gens w f f1' lg Hw Hd Hsum Hl Hg R1) as Hset.
  destruct (run_settled render parse_sum o2 Hs2 a e gens w w' f1' Hw' Hr HF Hset) as [f2' [log2 [R2 Hsame]]].
  pose proof (run_feq render parse_sum o2 a e w' gens f1 f1' Hf) as HE. rewrite R2 in HE. unfold out_equiv in HE.
  destruct (run true true render parse_sum o2 a e w' gens f1) as [[f2 lg2]|]; [|contradiction].
  destruct HE as [Hf2 ->]. exists f2, log2. split; [reflexivity|]. intros q Hq.
  rewrite (Hf2 q), (Hsame q Hq). symmetry. apply Hf.
Qed.

Lemma settled_pkg_oracle : forall render (o o' : oracle) a gens p f,
    shuffles o -> shuffles o' -> wf_args a -> wf_pkg p ->
    settled_pkg render o a gens p f -> settled_pkg render o' a gens p f.
Proof.
  intros render o o' a gens p f Hs Hs' Ha Hw [gfs [log [G [C1 C2]]]]. exists gfs, log.
  rewrite <- (gens_loop_eq o o' Hs Hs' a p gens [] [] Ha Hw). split; [exact G|]. split; [|exact C2].
  intros g out Hin Hb. rewrite <- (mk_file_eq o o' Hs Hs'). now apply C1.
Qed.

Lemma settled_pkg_agree : forall render (o : oracle) a gens p f f',
    (forall q, generated a q = true -> f' q = f q) ->
    settled_pkg render o a gens p f -> settled_pkg render o a gens p f'.
Proof.
  intros render o a gens p f f' H [gfs [log [G [C1 C2]]]]. exists gfs, log. split; [exact G|]. split.
  - intros g out Hin Hb. destruct (C1 g out Hin Hb) as [b [R F]]. exists b. split; [exact R|].
    rewrite H; [exact F|]. unfold generated. cbn. apply filename_is_gen.
  - intros k Hg Hne. apply C2; [exact Hg|]. rewrite <- H; [exact Hne|exact Hg].
Qed.

(* the worlds loaded before each further run, with the runtime's behaviour in that run *)
Fixpoint runs_to (render : gfile -> option bytes) (parse_sum : bytes -> alist bytes) (a : args) (e : list bytes)
         (gens : list gen) (f : fs) (ws : list (world * oracle)) (f' : fs) : Prop :=
  match ws with
  | [] => feq f f'
  | (w', o) :: r =>
      exists f1 log, run true true render parse_sum o a e w' gens f = Some (f1, log)
                     /\ runs_to render parse_sum a e gens f1 r f'
  end.

Theorem settled_forever :
  forall render parse_sum a e gens w,
    wf_args a -> wf_world w -> is_gen_name a sum_name = false -> Forall reads_sources_only gens ->
    forall (ws : list (world * oracle)),
      Forall (fun wo => reload w (fst wo) /\ wf_world (fst wo) /\ shuffles (snd wo)) ws ->
      forall f, (exists o, shuffles o /\ settled render o a e gens w f) ->
      exists f', runs_to render parse_sum a e gens f ws f' /\ forall q, generated a q = true -> f' q = f q.
Proof.
  intros render parse_sum a e gens w Ha Hw Hsum HF. induction ws as [|[w' o] r IH]; intros HA f [o0 [Hs0 Hset]].
  - exists f. split; [intros q; reflexivity|reflexivity].
  - inversion HA as [|? ? [Hr [Hw' Hs]] HA']; subst. cbn in *.
    assert (Hset' : settled render o a e gens w f).
    { intros k p Hk Hsel F. apply (settled_pkg_oracle render o0 o); try assumption.
      - pose proof (wf_pkgs w Hw) as HP. rewrite Forall_forall in HP. apply HP. now apply (find_pkg_path w k p).
      - now apply (Hset k p). }
    destruct (run_settled render parse_sum o Hs a e gens w w' f Hw' Hr HF Hset') as [f1 [log [R Hsame]]].
    assert (Hgen : forall q, generated a q = true -> f1 q = f q)
      by (intros q Hq; apply Hsame; now apply (generated_not_sum a)).
    destruct (IH HA' f1) as [f' [Hruns Hf']].
    + exists o. split; [exact Hs|]. intros k p Hk Hsel F. apply (settled_pkg_agree render o a gens p f f1 Hgen). now apply (Hset' k p).
    + exists f'. split; [exists f1, log; auto|]. intros q Hq. rewrite (Hf' q Hq). now apply Hgen.
Qed.

(* the scripted generators of the harness read nothing but the package path *)
Lemma scripted_reads_sources_only : forall name alias per_pkg, reads_sources_only (scripted name alias per_pkg).
Proof. intros name alias per_pkg p p' mv cs [E _]. cbn. now rewrite E. Qed.

(* ================= the order of the generators (GetRegisteredGenerators ranges over a map) ================= *)

(* what one generator sees: its entries of the call log, in order *)
Definition log_of_gen (g : bytes) (l : calllog) : calllog := filter (fun e => bytes_eqb g (snd (fst e))) l.

Definition log_equiv (l1 l2 : calllog) : Prop := Permutation l1 l2 /\ forall g, log_of_gen g l1 = log_of_gen g l2.

Definition prel_log (r1 r2 : option (list effect * calllog)) : Prop :=
  match r1, r2 with
  | None, None => True
  | Some (e1, l1), Some (e2, l2) => log_equiv l1 l2 /\ aeq e1 e2
  | _, _ => False
  end.

Definition out_equiv_log (r1 r2 : option (fs * calllog)) : Prop :=
  match r1, r2 with
  | None, None => True
  | Some (f1, l1), Some (f2, l2) => feq f1 f2 /\ log_equiv l1 l2
  | _, _ => False
  end.

Lemma log_equiv_refl : forall l, log_equiv l l.
Proof. intros l. split; [apply Permutation_refl|reflexivity]. Qed.

Lemma log_equiv_app : forall a a' b b', log_equiv a a' -> log_equiv b b' -> log_equiv (a ++ b) (a' ++ b').
Proof.
  intros a a' b b' [P1 F1] [P2 F2]. split; [now apply Permutation_app|].
  intros g. unfold log_of_gen in *. rewrite !filter_app. now rewrite F1, F2.
Qed.

(* entries with distinct generator names: a permutation keeps every generator's entries *)
Lemma log_equiv_perm : forall l1 l2 : calllog,
    Permutation l1 l2 -> NoDup (map (fun e => snd (fst e)) l1) -> log_equiv l1 l2.
Proof.
  intros l1 l2 HP HN. split; [exact HP|]. intros g. unfold log_of_gen.
  pose proof (filter_perm (fun e : bytes * bytes * list call => bytes_eqb g (snd (fst e))) l1 l2 HP) as HF.
  assert (HL : forall l : calllog, NoDup (map (fun e => snd (fst e)) l) ->
                 length (filter (fun e => bytes_eqb g (snd (fst e))) l) <= 1).
  { induction l as [|x l IH]; cbn; intros H; [lia|]. inversion H as [|? ? Hn Hr]; subst.
    destruct (bytes_eqb g (snd (fst x))) eqn:E; [|now apply IH]. cbn.
    apply bytes_eqb_spec in E.
    assert (filter (fun e => bytes_eqb g (snd (fst e))) l = []) as ->; [|cbn; lia].
    destruct (filter (fun e => bytes_eqb g (snd (fst e))) l) as [|y r] eqn:F; [reflexivity|]. exfalso.
    assert (Hy : In y (filter (fun e => bytes_eqb g (snd (fst e))) l)) by (rewrite F; now left).
    apply filter_In in Hy. destruct Hy as [Hy Ey]. apply bytes_eqb_spec in Ey.
    apply Hn. rewrite <- E, Ey. now apply (in_map (fun e => snd (fst e))). }
  pose proof (HL l1 HN) as H1.
  destruct (filter (fun e => bytes_eqb g (snd (fst e))) l1) as [|x [|y r]] eqn:F1; cbn in H1; try lia.
  - apply Permutation_nil in HF. now rewrite HF.
  - apply Permutation_length_1_inv in HF. now rewrite HF.
Qed.

Section GenOrder.
  Variable render : gfile -> option bytes.
  Variable parse_sum : bytes -> alist bytes.
  Variable o : oracle.
  Hypothesis Hs : shuffles o.

  Definition g_ok (a : args) (p : pkg) (pt : alist bytes) (g : gen) : bool :=
    match gen_one true true o a p pt g with Some _ => true | None => false end.
  Definition g_entry (a : args) (p : pkg) (pt : alist bytes) (g : gen) : alist genout :=
    match gen_one true true o a p pt g with Some (_, Some out) => [(g_name g, out)] | _ => [] end.
  Definition g_log (a : args) (p : pkg) (pt : alist bytes) (g : gen) : calllog :=
    match gen_one true true o a p pt g with Some (calls, _) => [(pk_path p, g_name g, calls)] | None => [] end.

  Lemma gens_loop_spec : forall a p pt gs gfs log,
      gens_loop true true o a p pt gs gfs log
      = if forallb (g_ok a p pt) gs
        then Some (fold_left (fun m (kv : bytes * genout) => aset (fst kv) (snd kv) m) (flat_map (g_entry a p pt) gs) gfs,
                   log ++ flat_map (g_log a p pt) gs)
        else None.
  Proof.
    intros a p pt. induction gs as [|g gs IH]; intros gfs log; cbn.
    - now rewrite app_nil_r.
    - unfold g_ok at 1, g_entry at 1, g_log at 1.
      destruct (gen_one true true o a p pt g) as [[calls [out|]]|]; cbn; [| |reflexivity].
      + rewrite IH. destruct (forallb (g_ok a p pt) gs); [|reflexivity]. now rewrite <- app_assoc.
      + rewrite IH. destruct (forallb (g_ok a p pt) gs); [|reflexivity]. now rewrite <- app_assoc.
  Qed.

  Lemma g_entry_keys : forall a p pt gs, NoDup (map g_name gs) -> NoDup (keys (flat_map (g_entry a p pt) gs)).
  Proof.
    intros a p pt. induction gs as [|g gs IH]; cbn; intros HN; [constructor|].
    inversion HN as [|? ? Hn Hr]; subst. rewrite map_app. unfold g_entry at 1.
    destruct (gen_one true true o a p pt g) as [[calls [out|]]|]; cbn; try now apply IH.
    constructor; [|now apply IH]. intros Hin. apply Hn.
    apply in_map_iff in Hin. destruct Hin as [[k v] [Hk Hin]]. cbn in Hk. subst k.
    apply in_flat_map in Hin. destruct Hin as [g' [Hg' He]]. unfold g_entry in He.
    destruct (gen_one true true o a p pt g') as [[c' [o'|]]|]; try contradiction.
    destruct He as [He|[]]. inversion He; subst. now apply in_map.
  Qed.

  Lemma finish_perm : forall a p gfs1 gfs2,
      Permutation gfs1 gfs2 -> NoDup (keys gfs1) ->
      match write_loop render o a p (o _ [bs "gfs"; pk_path p] gfs1) (generated_files a p) [] with
      | None => match write_loop render o a p (o _ [bs "gfs"; pk_path p] gfs2) (generated_files a p) [] with None => True | Some _ => False end
      | Some (ws1, st1) =>
          match write_loop render o a p (o _ [bs "gfs"; pk_path p] gfs2) (generated_files a p) [] with
          | None => False
          | Some (ws2, st2) =>
              aeq (ws1 ++ map (fun kv : bytes * path => ERemove (snd kv)) (o _ [bs "stale"; pk_path p] st1))
                  (ws2 ++ map (fun kv : bytes * path => ERemove (snd kv)) (o _ [bs "stale"; pk_path p] st2))
          end
      end.
  Proof.
    intros a p gfs1 gfs2 HP0 HN. rewrite !write_loop_spec.
    assert (HP : Permutation (o _ [bs "gfs"; pk_path p] gfs1) (o _ [bs "gfs"; pk_path p] gfs2)).
    { eapply perm_trans; [apply Permutation_sym, Hs|]. eapply perm_trans; [exact HP0|apply Hs]. }
    rewrite (forallb_perm _ _ _ HP).
    destruct (forallb (wl_ok render o p) (o _ [bs "gfs"; pk_path p] gfs2)); [|exact I]. cbn.
    rewrite (fold_left_comm_perm _ (fun s k1 k2 => adel_comm s (filename a (fst k2)) (filename a (fst k1))) _ _ HP).
    apply aeq_app.
    - apply aeq_perm_distinct.
      + apply wl_eff_paths. eapply Permutation_NoDup; [|exact HN]. apply Permutation_map, Hs.
      + now apply Permutation_flat_map.
    - apply aeq_refl.
  Qed.

  Lemma pkg_execute_gens_perm : forall a gens1 gens2 p,
      Permutation gens1 gens2 -> NoDup (map g_name gens1) ->
      prel_log (pkg_execute true true render o a gens1 p) (pkg_execute true true render o a gens2 p).
  Proof.
    intros a gens1 gens2 p HP HN. unfold pkg_execute. rewrite !gens_loop_spec.
    rewrite (forallb_perm _ _ _ HP).
    destruct (forallb (g_ok a p (pkg_tags o p)) gens2); [|exact I]. cbn [app].
    assert (HN2 : NoDup (map g_name gens2)) by (eapply Permutation_NoDup; [apply Permutation_map; exact HP|exact HN]).
    rewrite !fold_aset_nodup by (cbn; now apply g_entry_keys). cbn [app].
    rewrite !map_pair_eta.
    pose proof (finish_perm a p (flat_map (g_entry a p (pkg_tags o p)) gens1) (flat_map (g_entry a p (pkg_tags o p)) gens2)
                  (Permutation_flat_map _ HP) (g_entry_keys a p _ gens1 HN)) as HF.
    destruct (write_loop render o a p (o _ [bs "gfs"; pk_path p] (flat_map (g_entry a p (pkg_tags o p)) gens1)) (generated_files a p) [])
      as [[ws1 st1]|],
      (write_loop render o a p (o _ [bs "gfs"; pk_path p] (flat_map (g_entry a p (pkg_tags o p)) gens2)) (generated_files a p) [])
      as [[ws2 st2]|]; try contradiction; [|exact I].
    split; [|exact HF]. apply log_equiv_perm; [now apply Permutation_flat_map|].
    clear -HN. induction gens1 as [|g gs IH]; cbn; [constructor|].
    inversion HN as [|? ? Hn Hr]; subst. rewrite map_app. unfold g_log at 1.
    destruct (gen_one true true o a p (pkg_tags o p) g) as [[calls og]|]; cbn; [|now apply IH].
    constructor; [|now apply IH]. intros Hin. apply Hn.
    apply in_map_iff in Hin. destruct Hin as [e [He Hin]].
    apply in_flat_map in Hin. destruct Hin as [g' [Hg' He']]. unfold g_log in He'.
    destruct (gen_one true true o a p (pkg_tags o p) g') as [[c' o']|]; [|contradiction].
    destruct He' as [<-|[]]. cbn in He. rewrite <- He. now apply in_map.
  Qed.

  Lemma pkgs_loop_gens_perm : forall a w gens1 gens2 prev cur,
      Permutation gens1 gens2 -> NoDup (map g_name gens1) ->
      forall l es1 es2 log1 log2, aeq es1 es2 -> log_equiv log1 log2 ->
      prel_log (pkgs_loop true true render o a w gens1 prev cur l es1 log1)
               (pkgs_loop true true render o a w gens2 prev cur l es2 log2).
  Proof.
    intros a w gens1 gens2 prev cur HP HN. induction l as [|[k direct] r IH]; intros es1 es2 log1 log2 He Hl; cbn.
    - split; assumption.
    - destruct (negb (a_all a) && negb direct); [now apply IH|].
      destruct (negb (pkg_changed a prev cur k)); [now apply IH|].
      destruct (find_pkg k w) as [p|]; [|exact I].
      pose proof (pkg_execute_gens_perm a gens1 gens2 p HP HN) as HR. unfold prel_log in HR.
      destruct (pkg_execute true true render o a gens1 p) as [[e1 l1]|],
               (pkg_execute true true render o a gens2 p) as [[e2 l2]|]; try contradiction; [|exact I].
      destruct HR as [HL HA]. apply IH; [now apply aeq_app|now apply log_equiv_app].
  Qed.

  Lemma run_gens_perm : forall a e w gens1 gens2 f,
      Permutation gens1 gens2 -> NoDup (map g_name gens1) ->
      out_equiv_log (run true true render parse_sum o a e w gens1 f) (run true true render parse_sum o a e w gens2 f).
  Proof.
    intros a e w gens1 gens2 f HP HN. unfold run, plan.
    set (prev := if a_all a && existsb snd (sorted_local o e w) then _ else None).
    pose proof (pkgs_loop_gens_perm a w gens1 gens2 prev (sum_data o w) HP HN (sorted_local o e w) [] [] [] []
                  (aeq_refl []) (log_equiv_refl [])) as HR. unfold prel_log in HR.
    destruct (pkgs_loop true true render o a w gens1 prev (sum_data o w) (sorted_local o e w) [] []) as [[es1 l1]|],
             (pkgs_loop true true render o a w gens2 prev (sum_data o w) (sorted_local o e w) [] []) as [[es2 l2]|];
      try contradiction; [|exact I].
    destruct HR as [HL HA]. cbn. split; [|exact HL].
    destruct (a_all a).
    - apply (aeq_app _ _ _ _ HA (aeq_refl _)). intros q. reflexivity.
    - apply HA. intros q. reflexivity.
  Qed.
End GenOrder.

Theorem generator_order_independent :
  forall render parse_sum (o1 o2 : oracle) a e1 e2 w gens1 gens2 f,
    shuffles o1 -> shuffles o2 -> wf_args a -> wf_world w -> Permutation e1 e2 ->
    Permutation gens1 gens2 -> NoDup (map g_name gens1) ->
    out_equiv_log (run true true render parse_sum o1 a e1 w gens1 f) (run true true render parse_sum o2 a e2 w gens2 f).
Proof.
  intros render parse_sum o1 o2 a e1 e2 w gens1 gens2 f Hs1 Hs2 Ha Hw He HP HN.
  pose proof (run_order_independent render parse_sum o1 o2 a e1 e2 w gens1 f Hs1 Hs2 Ha Hw He) as H1.
  pose proof (run_gens_perm render parse_sum o2 Hs2 a e2 w gens1 gens2 f HP HN) as H2.
  unfold out_equiv in H1. unfold out_equiv_log in *.
  destruct (run true true render parse_sum o1 a e1 w gens1 f) as [[f1 l1]|],
           (run true true render parse_sum o2 a e2 w gens1 f) as [[f1' l1']|]; try contradiction.
  - destruct H1 as [Hf ->].
    destruct (run true true render parse_sum o2 a e2 w gens2 f) as [[f2 l2]|]; [|contradiction].
    destruct H2 as [Hf2 Hl]. split; [|exact Hl]. intros q. now rewrite (Hf q).
  - destruct (run true true render parse_sum o2 a e2 w gens2 f); [contradiction|exact I].
Qed.
