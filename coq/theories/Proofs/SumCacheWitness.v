(* A richer concrete world for the cache state machine than [Good] of SumCacheExamples.v, in which every
   hypothesis of the C08 theorems is PROVED and [converges] is applied:
   - four packages m/a, m/a/sub, m/c, m/d; the directory of m/a/sub is NESTED in the directory of m/a (the
     directory hash of m/a is recursive and covers the files of m/a/sub), so [contains] is used with two
     different packages in [gen_local];
   - an import edge m/c -> m/a that is PART OF THE TREE (an edit adds or removes it) and a fixed edge
     m/a -> m/a/sub; [locals] depends on the tree and on the entrypoints: the packages named by the entrypoints
     (direct) plus what they reach through imports (non-direct), listed in an unsorted order;
   - a stale gengo.sum at the start, edits of the import edge and of the nested package between runs. *)
Require Import Gengo.Base.Bytes Gengo.Model.SumFile Gengo.Model.SumCache Gengo.Proofs.SumFile Gengo.Proofs.SumCache.
Require Import Gengo.Proofs.SumCacheExamples.

Module Deep.
  Definition pa : bytes := bs "m/a".
  Definition ps : bytes := bs "m/a/sub".
  Definition pc : bytes := bs "m/c".
  Definition pd : bytes := bs "m/d".

  (* per package: the version of its sources, and what its generated file was generated from + 1 (0 = there is no
     generated file);  imp: the sources of m/c import m/a.  (m/a always imports m/a/sub.) *)
  Record tree := T {
    a_src : nat; a_gen : nat;
    s_src : nat; s_gen : nat;
    c_src : nat; c_gen : nat;
    d_src : nat; d_gen : nat;
    imp : bool
  }.

  (* what dirhash reads below a package directory: the files' contents, in order *)
  Definition content := list nat.

  Definition enc (c : content) : bytes := concat (map (fun n => repeat one n ++ [xx]) c).
  Definition H (c : content) : option bytes := Some (hh :: enc c).

  (* recursive: the directory of m/a includes the files of m/a/sub *)
  Definition dirc (t : tree) (_ : option bytes) (p : bytes) : content :=
    if bytes_eqb p pa then [a_src t; a_gen t; s_src t; s_gen t]
    else if bytes_eqb p ps then [s_src t; s_gen t]
    else if bytes_eqb p pc then [c_src t; c_gen t; if imp t then 1 else 0]
    else if bytes_eqb p pd then [d_src t; d_gen t]
    else [].

  (* the generators write the package's generated file from the package's own sources; nothing else changes *)
  Definition gen (t : tree) (p : bytes) : tree :=
    if bytes_eqb p pa then
      T (a_src t) (S (a_src t)) (s_src t) (s_gen t) (c_src t) (c_gen t) (d_src t) (d_gen t) (imp t)
    else if bytes_eqb p ps then
      T (a_src t) (a_gen t) (s_src t) (S (s_src t)) (c_src t) (c_gen t) (d_src t) (d_gen t) (imp t)
    else if bytes_eqb p pc then
      T (a_src t) (a_gen t) (s_src t) (s_gen t) (c_src t) (S (c_src t)) (d_src t) (d_gen t) (imp t)
    else if bytes_eqb p pd then
      T (a_src t) (a_gen t) (s_src t) (s_gen t) (c_src t) (c_gen t) (d_src t) (S (d_src t)) (imp t)
    else t.

  Definition mem (p : bytes) (l : list bytes) : bool := existsb (bytes_eqb p) l.

  (* go/packages: the packages named by the entrypoints (direct) and everything they reach through imports
     (m/c -> m/a if the tree has the edge, m/a -> m/a/sub always); keys of a Go map, here in the order d, c, sub, a *)
  Definition locals (t : tree) (entry : list bytes) : list (bytes * bool) :=
    let has_c := mem pc entry in
    let has_a := mem pa entry || (has_c && imp t) in
    let has_s := mem ps entry || has_a in
    let has_d := mem pd entry in
    (if has_d then [(pd, mem pd entry)] else [])
    ++ (if has_c then [(pc, mem pc entry)] else [])
    ++ (if has_s then [(ps, mem ps entry)] else [])
    ++ (if has_a then [(pa, mem pa entry)] else []).

  Lemma enc_cons : forall n c, enc (n :: c) = repeat one n ++ xx :: enc c.
  Proof. intros n c. unfold enc. cbn [map concat]. rewrite <- app_assoc. reflexivity. Qed.

  Lemma enc_plain : forall c, forallb plain (enc c) = true.
  Proof.
    induction c as [|n c IH]; [reflexivity|].
    rewrite enc_cons, forallb_app'. cbn [forallb]. rewrite forallb_repeat_plain, IH. reflexivity.
  Qed.

  Lemma enc_inj : forall c c', enc c = enc c' -> c = c'.
  Proof.
    induction c as [|n c IH]; intros [|m c'] E.
    - reflexivity.
    - rewrite enc_cons in E. destruct m; discriminate E.
    - rewrite enc_cons in E. destruct n; discriminate E.
    - rewrite !enc_cons in E. apply unary_inj in E. destruct E as [En Ec].
      subst m. rewrite (IH _ Ec). reflexivity.
  Qed.

  Lemma H_tokens_ok : H_tokens content H.
  Proof.
    intros c h E. unfold H in E. inversion E; subst h. unfold token_ok. cbn [is_nil negb andb forallb].
    rewrite enc_plain. reflexivity.
  Qed.

  Lemma H_injective_ok : H_injective content H.
  Proof.
    intros c1 c2 h E1 E2. unfold H in *. rewrite <- E2 in E1. inversion E1 as [E]. apply enc_inj. exact E.
  Qed.

  Lemma locals_ok_ok : locals_ok tree locals.
  Proof.
    intros t e. unfold locals.
    generalize (mem pd e), (mem pc e), (mem ps e), (mem pa e), (imp t). intros bd bc bs' ba bi.
    destruct bd, bc, bs', ba, bi; cbn [orb andb app map fst]; split;
      try (repeat (constructor; [cbn [In]; intuition discriminate|]); constructor);
      repeat constructor.
  Qed.

  Lemma gen_idem_ok : gen_idem tree gen.
  Proof.
    intros t p. destruct t. unfold gen.
    destruct (bytes_eqb p pa); [reflexivity|]. destruct (bytes_eqb p ps); [reflexivity|].
    destruct (bytes_eqb p pc); [reflexivity|]. destruct (bytes_eqb p pd); reflexivity.
  Qed.

  Lemma gen_comm_ok : gen_comm tree gen.
  Proof.
    intros t p q. destruct t. unfold gen.
    destruct (bytes_eqb p pa), (bytes_eqb p ps), (bytes_eqb p pc), (bytes_eqb p pd),
             (bytes_eqb q pa), (bytes_eqb q ps), (bytes_eqb q pc), (bytes_eqb q pd); reflexivity.
  Qed.

  (* m/a/sub lies below m/a: what is below m/a determines what is below m/a/sub *)
  Lemma contains_a_sub : contains tree content dirc pa ps.
  Proof.
    intros t t' E. unfold D, dirc in *.
    change (bytes_eqb pa pa) with true in E. change (bytes_eqb ps pa) with false. change (bytes_eqb ps ps) with true.
    cbv iota in *. inversion E. reflexivity.
  Qed.

  Lemma contains_refl : forall p, contains tree content dirc p p.
  Proof. intros p t t' E. exact E. Qed.

  (* generating p changes the directory of p and, for p = m/a/sub, the directory of m/a that contains it *)
  Lemma gen_local_ok : gen_local tree content dirc gen.
  Proof.
    intros t p q.
    destruct (bytes_eqb p pa) eqn:Epa.
    { apply bytes_eqb_spec in Epa. subst p.
      destruct (bytes_eqb q pa) eqn:Eqa.
      - left. apply bytes_eqb_spec in Eqa. subst q. apply contains_refl.
      - right. unfold D, dirc, gen. change (bytes_eqb pa pa) with true. cbv iota. rewrite Eqa.
        destruct (bytes_eqb q ps), (bytes_eqb q pc), (bytes_eqb q pd); reflexivity. }
    destruct (bytes_eqb p ps) eqn:Eps.
    { apply bytes_eqb_spec in Eps. subst p.
      destruct (bytes_eqb q pa) eqn:Eqa.
      - left. apply bytes_eqb_spec in Eqa. subst q. apply contains_a_sub.
      - destruct (bytes_eqb q ps) eqn:Eqs.
        + left. apply bytes_eqb_spec in Eqs. subst q. apply contains_refl.
        + right. unfold D, dirc, gen. change (bytes_eqb ps pa) with false. change (bytes_eqb ps ps) with true.
          cbv iota. rewrite Eqa, Eqs. destruct (bytes_eqb q pc), (bytes_eqb q pd); reflexivity. }
    destruct (bytes_eqb p pc) eqn:Epc.
    { apply bytes_eqb_spec in Epc. subst p.
      destruct (bytes_eqb q pc) eqn:Eqc.
      - left. apply bytes_eqb_spec in Eqc. subst q. apply contains_refl.
      - right. unfold D, dirc, gen. change (bytes_eqb pc pa) with false. change (bytes_eqb pc ps) with false.
        change (bytes_eqb pc pc) with true. cbv iota. rewrite Eqc.
        destruct (bytes_eqb q pa), (bytes_eqb q ps), (bytes_eqb q pd); reflexivity. }
    destruct (bytes_eqb p pd) eqn:Epd.
    { apply bytes_eqb_spec in Epd. subst p.
      destruct (bytes_eqb q pd) eqn:Eqd.
      - left. apply bytes_eqb_spec in Eqd. subst q. apply contains_refl.
      - right. unfold D, dirc, gen. change (bytes_eqb pd pa) with false. change (bytes_eqb pd ps) with false.
        change (bytes_eqb pd pc) with false. change (bytes_eqb pd pd) with true. cbv iota. rewrite Eqd.
        destruct (bytes_eqb q pa), (bytes_eqb q ps), (bytes_eqb q pc); reflexivity. }
    right. unfold D, gen. rewrite Epa, Eps, Epc, Epd. reflexivity.
  Qed.

  (* generated files do not change the import edge, hence not the set of loaded packages *)
  Lemma gen_keeps_locals_ok : gen_keeps_locals tree gen locals.
  Proof.
    intros t p e. unfold locals, gen.
    destruct (bytes_eqb p pa); [reflexivity|]. destruct (bytes_eqb p ps); [reflexivity|].
    destruct (bytes_eqb p pc); [reflexivity|]. destruct (bytes_eqb p pd); reflexivity.
  Qed.

  Lemma all_hashable_ok : all_hashable tree content H dirc.
  Proof. intros t p. unfold H. discriminate. Qed.

  Definition run := run tree content H dirc gen locals fixed_all.
  Definition exec := exec tree content H dirc gen locals fixed_all.
  Definition all_run (e : list bytes) : runargs := {| r_all := true; r_force := false; r_entry := e; r_fail := None |}.
  Definition entry : list bytes := [pc; pd].

  (* all sources at version 1, nothing generated, m/c does not import m/a; gengo.sum is a left-over *)
  Definition st0 : state tree :=
    {| st_tree := T 1 0 1 0 1 0 1 0 false; st_sum := SumFile (bs "m/a h1x" ++ [nl] ++ bs "garbage") |}.

  (* m/c's sources are edited: they now import m/a *)
  Definition add_import (t : tree) : tree :=
    T (a_src t) (a_gen t) (s_src t) (s_gen t) (S (c_src t)) (c_gen t) (d_src t) (d_gen t) true.
  (* the sources of the nested package are edited *)
  Definition edit_sub (t : tree) : tree :=
    T (a_src t) (a_gen t) (S (s_src t)) (s_gen t) (c_src t) (c_gen t) (d_src t) (d_gen t) (imp t).
  (* the generated files of m/a and m/a/sub are deleted *)
  Definition del_gen (t : tree) : tree :=
    T (a_src t) 0 (s_src t) 0 (c_src t) (c_gen t) (d_src t) (d_gen t) (imp t).
  (* a gengo.sum whose only line is the hash of m/a's directory as [del_gen] leaves it after [edit_sub]
     (sources a = 1, sub = 2, no generated files) *)
  Definition old_sum : bytes := bs "m/a h1xx11xx" ++ [nl].

  Definition after (s : state tree) (n : nat) : state tree := exec s (repeat (Run (all_run entry)) n).

  (* which packages each run executes in; the entrypoints are m/c and m/d throughout:
       from the stale gengo.sum (m/a not loaded): run, run, run, run;
       m/c starts to import m/a (m/a, m/a/sub loaded as non-direct packages): run, run, run;
       the nested m/a/sub is edited: run, run, run;
       the generated files of m/a and m/a/sub are deleted and gengo.sum is replaced by one that records the
       current directory of m/a and nothing else: run, run, run, run *)
  Definition demo : list (list bytes) :=
    let r s := executed (fst (snd (run (all_run entry) s))) in
    let e1 := exec (after st0 3) [Edit add_import] in
    let e2 := exec (after e1 3) [Edit edit_sub] in
    let e3 := exec (after e2 3) [Edit del_gen; CorruptSum old_sum] in
    [r st0; r (after st0 1); r (after st0 2); r (after st0 3);
     r e1; r (after e1 1); r (after e1 2);
     r e2; r (after e2 1); r (after e2 2);
     r e3; r (after e3 1); r (after e3 2); r (after e3 3)].

  (* the state the instance of [converges] starts from: the stale gengo.sum, the import edge already added *)
  Definition s_imp : state tree := exec st0 [Edit add_import].
End Deep.

Lemma deep_demo :
  Deep.demo =
    [ [Deep.pc; Deep.pd]; [Deep.pc; Deep.pd]; []; [];
      [Deep.pa; Deep.ps; Deep.pc]; [Deep.pa; Deep.ps; Deep.pc]; [];
      [Deep.pa; Deep.ps]; [Deep.pa; Deep.ps]; [];
      [Deep.ps; Deep.pc; Deep.pd]; [Deep.pa; Deep.ps]; [Deep.pa]; [] ].
Proof. vm_compute. reflexivity. Qed.

(* what is loaded for the entrypoints m/c, m/d before and after the import edge is added: m/a and m/a/sub come in
   as NON-direct packages; with m/a/sub alone as the entrypoint m/a is not loaded *)
Lemma deep_locals :
  Deep.locals (st_tree Deep.st0) Deep.entry = [(Deep.pd, true); (Deep.pc, true)]
  /\ Deep.locals (st_tree Deep.s_imp) Deep.entry
     = [(Deep.pd, true); (Deep.pc, true); (Deep.ps, false); (Deep.pa, false)]
  /\ Deep.locals (st_tree Deep.s_imp) [Deep.ps] = [(Deep.ps, true)]
  /\ Deep.locals (st_tree Deep.s_imp) [Deep.pa; Deep.pd] = [(Deep.pd, true); (Deep.ps, false); (Deep.pa, true)].
Proof. vm_compute. repeat split; reflexivity. Qed.

(* [converges] applied to this world, every hypothesis discharged by the lemmas above: from the stale gengo.sum,
   with the import edge present (four local packages, two of them non-direct, one nested in another), after
   three plain All runs a fourth one executes nothing and changes nothing *)
Lemma deep_converges_instance :
  let r := Deep.run (Deep.all_run Deep.entry) in
  let s3 := fst (r (fst (r (fst (r Deep.s_imp))))) in
  fst (r s3) = s3 /\ executed (fst (snd (r s3))) = [] /\ snd (snd (r s3)) = ENone.
Proof.
  assert (Hp : plain_run (Deep.all_run Deep.entry)) by (repeat split; reflexivity).
  assert (Hs : st_sum Deep.s_imp <> SumUnreadable) by (cbn; discriminate).
  exact (converges Deep.tree Deep.content Deep.H Deep.dirc Deep.gen Deep.locals
           Deep.H_tokens_ok Deep.H_injective_ok Deep.locals_ok_ok Deep.gen_idem_ok Deep.gen_comm_ok
           Deep.gen_local_ok Deep.gen_keeps_locals_ok Deep.all_hashable_ok
           (Deep.all_run Deep.entry) Hp
           [(Deep.pd, true); (Deep.pc, true); (Deep.ps, false); (Deep.pa, false)] eq_refl
           Deep.s_imp eq_refl Hs).
Qed.
Print Assumptions deep_converges_instance.
