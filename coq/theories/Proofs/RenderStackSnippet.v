(* RenderStack, part 2 (generic): the state-threading scanners are tokenise-then-substitute with
   state; a term whose leaves are STABLE (inflationary, and re-rendering in any later state gives
   the same text and leaves the state alone) renders to what C09's model / specification gives for
   the term in which every leaf is replaced by its rendering in the final state; the registered
   packages are exactly those of the rendered leaves.  The state type is generic. *)
Require Import Gengo.Base.Bytes.
Require Import Gengo.Model.Snippet Gengo.Model.SnippetSpec Gengo.Proofs.Snippet.
Require Import Gengo.Model.RenderStack.

Section Generic.
  Variable St : Type.
  Variable le : St -> St -> Prop.
  Hypothesis le_refl : forall e, le e e.
  Hypothesis le_trans : forall a b c, le a b -> le b c -> le a c.
  Hypothesis le_antisym : forall a b, le a b -> le b a -> a = b.

  Notation rs := (rs St).
  Notation ret_st := (ret_st St).
  Notation panic_st := (panic_st St).
  Notation emit_st := (emit_st St).
  Notation emitr_st := (emitr_st St).
  Notation aview_st := (aview_st St).
  Notation sview_st := (sview_st St).

  Definition eqr (a b : rs) : Prop := forall e, a e = b e.

  Lemma eqr_refl : forall a, eqr a a. Proof. intros a e. reflexivity. Qed.
  Lemma eqr_sym : forall a b, eqr a b -> eqr b a. Proof. intros a b H e. symmetry. apply H. Qed.
  Lemma eqr_trans : forall a b c, eqr a b -> eqr b c -> eqr a c.
  Proof. intros a b c H1 H2 e. rewrite H1. apply H2. Qed.

  Lemma emit_st_ext : forall b k k', eqr k k' -> eqr (emit_st b k) (emit_st b k').
  Proof. intros b k k' H e. unfold RenderStack.emit_st. rewrite H. reflexivity. Qed.

  Lemma emitr_st_ext : forall o k k', eqr k k' -> eqr (emitr_st o k) (emitr_st o k').
  Proof.
    intros o k k' H e. unfold RenderStack.emitr_st. destruct (o e) as [[a e1]| |]; cbn [bind]; [|reflexivity..].
    rewrite H. reflexivity.
  Qed.

  Lemma emitr_st_nil : forall k, eqr (emitr_st (ret_st []) k) k.
  Proof.
    intros k e. unfold RenderStack.emitr_st, RenderStack.ret_st. cbn [bind].
    destruct (k e) as [[r e2]| |]; reflexivity.
  Qed.

  Lemma emit_as_emitr : forall b k, eqr (emit_st b k) (emitr_st (ret_st b) k).
  Proof. intros b k e. reflexivity. Qed.

  Lemma emitr_panic : forall k, eqr (emitr_st panic_st k) panic_st.
  Proof. intros k e. reflexivity. Qed.

  (* ------------------------------------------------------------------------------------------ *)
  (* the template scanner = substitution into the tokens                                         *)
  Section Tpl.
    Variable args : list (bytes * aview_st).
    Notation tail_st := (tail_st St).
    Notation after_name_st := (after_name_st St args).
    Notation scan_st := (scan_st St args).
    Notation name_loop_st := (name_loop_st St args).
    Notation subst_st := (subst_st St args).

    Lemma tail_st_ext : forall n c k k', eqr k k' -> eqr (tail_st n c k) (tail_st n c k').
    Proof.
      intros n c k k' H. unfold RenderStack.tail_st. destruct c as [c|]; [|apply eqr_refl].
      destruct (Ascii.eqb c c_at); [exact H|]. destruct (Ascii.eqb c c_apos).
      - destruct (negb n); [apply emit_st_ext, H|exact H].
      - apply emit_st_ext, H.
    Qed.

    Lemma after_name_st_ext : forall named c k k', eqr k k' -> eqr (after_name_st named c k) (after_name_st named c k').
    Proof.
      intros named c k k' H. unfold RenderStack.after_name_st. destruct named as [|n0 n'].
      - apply emit_st_ext, tail_st_ext, H.
      - destruct (lookup (n0 :: n') args) as [[|isnil out]|]; [apply tail_st_ext, H| |apply eqr_refl].
        destruct isnil; [apply tail_st_ext, H|apply emitr_st_ext, tail_st_ext, H].
    Qed.

    Lemma scan_st_cons : forall c r,
      scan_st (c :: r) = if Ascii.eqb c c_at then name_loop_st r [] else emit_st [c] (scan_st r).
    Proof. reflexivity. Qed.

    Lemma name_loop_st_nil : forall named, name_loop_st [] named = after_name_st named None (ret_st []).
    Proof. reflexivity. Qed.

    Lemma name_loop_st_cons : forall c r' named,
      name_loop_st (c :: r') named =
      if Ascii.eqb c c_apos then after_name_st named (Some c) (scan_st r')
      else if is_name c then name_loop_st r' (named ++ [c])
      else after_name_st named (Some c) (if Ascii.eqb c c_at then name_loop_st r' [] else scan_st r').
    Proof. reflexivity. Qed.

    Lemma after_name_hole_st : forall named c k toks a,
      named <> [] ->
      eqr (tail_st true c k) (subst_st toks) ->
      eqr (after_name_st named c k) (subst_st (Hole named a :: toks)).
    Proof.
      intros named c k toks a Hne Ht. destruct named as [|n0 n']; [congruence|].
      cbn [RenderStack.after_name_st RenderStack.subst_st piece_st].
      destruct (lookup (n0 :: n') args) as [[|isnil out]|].
      - apply eqr_sym. eapply eqr_trans; [apply emitr_st_nil|]. apply eqr_sym, Ht.
      - destruct isnil.
        + apply eqr_sym. eapply eqr_trans; [apply emitr_st_nil|]. apply eqr_sym, Ht.
        + apply emitr_st_ext, Ht.
      - apply eqr_sym, emitr_panic.
    Qed.

    Lemma tail_st_other : forall b c k,
      Ascii.eqb c c_at = false -> Ascii.eqb c c_apos = false -> tail_st b (Some c) k = emit_st [c] k.
    Proof. intros b c k E1 E2. unfold RenderStack.tail_st. rewrite E1, E2. reflexivity. Qed.

    Lemma subst_st_lit : forall c toks k, eqr k (subst_st toks) -> eqr (emit_st [c] k) (subst_st (Lit c :: toks)).
    Proof. intros c toks k H. cbn [RenderStack.subst_st piece_st]. eapply eqr_trans; [apply emit_as_emitr|]. apply emitr_st_ext, H. Qed.

    Lemma scan_st_spec : forall s,
      eqr (scan_st s) (subst_st (tokenize s)) /\
      forall named, forallb is_name named = true ->
        eqr (name_loop_st s named) (subst_st (tokenize (c_at :: named ++ s))).
    Proof.
      induction s as [|c r [IH1 IH2]].
      - split; [apply eqr_refl|]. intros named Hn. rewrite name_loop_st_nil.
        destruct named as [|n0 n'].
        + apply eqr_refl.
        + rewrite (tokenize_hole_end (n0 :: n')) by (congruence || exact Hn).
          apply after_name_hole_st; [congruence | apply eqr_refl].
      - split.
        + rewrite scan_st_cons. destruct (Ascii.eqb c c_at) eqn:E.
          * apply Ascii.eqb_eq in E; subst c. exact (IH2 [] eq_refl).
          * rewrite (tokenize_lit _ _ E). apply subst_st_lit, IH1.
        + intros named Hn. rewrite name_loop_st_cons.
          destruct (Ascii.eqb c c_apos) eqn:Ea.
          * apply Ascii.eqb_eq in Ea; subst c.
            destruct named as [|n0 n'].
            -- cbn [app]. rewrite (tokenize_bare_at (c_apos :: r) eq_refl).
               rewrite (tokenize_lit c_apos r eq_refl).
               cbn [RenderStack.after_name_st RenderStack.tail_st]. change (Ascii.eqb c_apos c_at) with false.
               change (Ascii.eqb c_apos c_apos) with true. cbn [negb].
               apply subst_st_lit, subst_st_lit, IH1.
            -- rewrite (tokenize_hole_apos (n0 :: n') r) by (congruence || exact Hn).
               apply after_name_hole_st; [congruence|]. exact IH1.
          * destruct (is_name c) eqn:En.
            -- assert (Hn' : forallb is_name (named ++ [c]) = true) by (rewrite forallb_app, Hn; cbn; rewrite En; reflexivity).
               pose proof (IH2 (named ++ [c]) Hn') as H. rewrite <- app_assoc in H. exact H.
            -- destruct named as [|n0 n'].
               ++ cbn [app]. rewrite (tokenize_bare_at (c :: r)) by exact En.
                  destruct (Ascii.eqb c c_at) eqn:E.
                  ** apply Ascii.eqb_eq in E; subst c. cbn [RenderStack.after_name_st RenderStack.tail_st].
                     change (Ascii.eqb c_at c_at) with true. apply subst_st_lit. exact (IH2 [] eq_refl).
                  ** rewrite (tokenize_lit _ _ E). cbn [RenderStack.after_name_st].
                     rewrite (tail_st_other false c _ E Ea). apply subst_st_lit, subst_st_lit, IH1.
               ++ rewrite (tokenize_hole_other (n0 :: n') c r) by (congruence || assumption).
                  apply after_name_hole_st; [congruence|].
                  destruct (Ascii.eqb c c_at) eqn:E.
                  ** apply Ascii.eqb_eq in E; subst c. cbn [RenderStack.tail_st]. change (Ascii.eqb c_at c_at) with true.
                     exact (IH2 [] eq_refl).
                  ** rewrite (tail_st_other true c _ E Ea), (tokenize_lit _ _ E). apply subst_st_lit, IH1.
    Qed.

    Lemma tpl_st_spec : forall f, eqr (tpl_st St args f) (subst_st (tokenize (sc_view (trim_nl f)))).
    Proof. intros f. unfold tpl_st. apply scan_st_spec. Qed.
  End Tpl.

  (* ------------------------------------------------------------------------------------------ *)
  (* Sprintf                                                                                     *)
  Lemma sp_st_spec_n : forall n s args, length s <= n ->
    eqr (sp_scan_st St s args) (ssubst_st St (stokenize s) args).
  Proof.
    induction n as [|n IH]; intros s args Hl.
    - destruct s; [apply eqr_refl | cbn in Hl; lia].
    - destruct s as [|c r]; [apply eqr_refl|]. cbn [length] in Hl. cbn [sp_scan_st stokenize].
      destruct (Ascii.eqb c c_pct) eqn:E.
      + destruct r as [|d r']; [apply eqr_refl|]. cbn [length] in Hl.
        destruct (Ascii.eqb d c_T) eqn:ET; destruct (Ascii.eqb d c_v) eqn:EV;
          destruct (Ascii.eqb d c_pct) eqn:EP; chars; cbn [ssubst_st];
          try (destruct args as [|a args']; [apply eqr_refl|]);
          try (apply emitr_st_ext, IH; lia); try (apply emit_st_ext, IH; lia); apply eqr_refl.
      + cbn [ssubst_st]. apply emit_st_ext, IH. lia.
  Qed.

  Lemma sp_st_spec : forall f args, eqr (sp_st St f args) (ssubst_st St (stokenize (sc_view f)) args).
  Proof. intros f args. unfold sp_st. apply (sp_st_spec_n (length (sc_view f))). lia. Qed.

  (* ------------------------------------------------------------------------------------------ *)
  (* stability                                                                                   *)
  Definition stable (r : rs) : Prop :=
    forall e t e1, r e = Ok (t, e1) -> le e e1 /\ forall e2, le e1 e2 -> r e2 = Ok (t, e2).

  Lemma stable_ext : forall a b, eqr a b -> stable b -> stable a.
  Proof.
    intros a b H S e t e1 Ha. rewrite H in Ha. destruct (S e t e1 Ha) as [L R]. split; [exact L|].
    intros e2 L2. rewrite H. apply R, L2.
  Qed.

  Lemma stable_ret : forall b, stable (ret_st b).
  Proof.
    intros b e t e1 H. unfold RenderStack.ret_st in *. inversion H; subst. split; [apply le_refl|]. intros e2 _. reflexivity.
  Qed.

  Lemma stable_panic : stable panic_st.
  Proof. intros e t e1 H. discriminate. Qed.

  Lemma stable_emitr : forall o k, stable o -> stable k -> stable (emitr_st o k).
  Proof.
    intros o k So Sk e t e2 H. unfold RenderStack.emitr_st in *.
    destruct (o e) as [[a e1]| |] eqn:Eo; cbn [bind] in H; try discriminate.
    destruct (k e1) as [[r e2']| |] eqn:Ek; cbn [bind] in H; try discriminate.
    inversion H; subst. destruct (So _ _ _ Eo) as [L1 R1]. destruct (Sk _ _ _ Ek) as [L2 R2].
    split; [eapply le_trans; eauto|]. intros e3 L3.
    rewrite (R1 e3 (le_trans _ _ _ L2 L3)). cbn [bind]. rewrite (R2 e3 L3). reflexivity.
  Qed.

  Lemma stable_emit : forall b k, stable k -> stable (emit_st b k).
  Proof. intros b k S. eapply stable_ext; [apply emit_as_emitr|]. apply stable_emitr; [apply stable_ret|exact S]. Qed.

  Definition view_stable (v : aview_st) : Prop :=
    match v with AVNilS _ => True | AVS _ _ out => stable out end.
  Definition sview_stable (v : sview_st) : Prop :=
    match v with SVSnipS _ o => stable o | SVRawS _ a b => stable a /\ stable b end.

  Lemma lookup_Forall : forall {A} (P : A -> Prop) n (l : list (bytes * A)) v,
    Forall (fun p => P (snd p)) l -> lookup n l = Some v -> P v.
  Proof.
    intros A P n l. induction l as [|[k x] r IH]; intros v Hall H; cbn [lookup] in H; [discriminate|].
    inversion Hall as [|? ? Hx Hr]; subst. destruct (lookup n r) as [y|] eqn:E.
    - inversion H; subst. apply IH; [exact Hr|reflexivity].
    - destruct (bytes_eqb k n); inversion H; subst. exact Hx.
  Qed.

  Lemma stable_subst : forall args ts, Forall (fun p => view_stable (snd p)) args -> stable (subst_st St args ts).
  Proof.
    intros args ts Ha. induction ts as [|t r IH]; [apply stable_ret|]. cbn [subst_st].
    apply stable_emitr; [|exact IH]. destruct t as [c|n a]; cbn [piece_st]; [apply stable_ret|].
    destruct (lookup n args) as [[|isnil out]|] eqn:E; [apply stable_ret| |apply stable_panic].
    destruct isnil; [apply stable_ret|]. exact (lookup_Forall view_stable n args _ Ha E).
  Qed.

  Lemma stable_ssubst : forall ts args, Forall sview_stable args -> stable (ssubst_st St ts args).
  Proof.
    induction ts as [|t r IH]; intros args Ha; [apply stable_ret|]. cbn [ssubst_st].
    destruct t as [c| | | |c].
    - apply stable_emit, IH, Ha.
    - destruct args as [|a args']; [apply stable_panic|]. inversion Ha; subst.
      apply stable_emitr; [|apply IH; assumption]. destruct a; cbn in *; tauto.
    - destruct args as [|a args']; [apply stable_panic|]. inversion Ha; subst.
      apply stable_emitr; [|apply IH; assumption]. destruct a; cbn in *; tauto.
    - apply stable_emit, IH, Ha.
    - apply stable_panic.
  Qed.

  (* ------------------------------------------------------------------------------------------ *)
  (* terms                                                                                       *)
  Variables leaf raw : Type.
  Variable leaf_isnil : leaf -> bool.
  Variable leaf_frag : leaf -> rs.
  Variable raw_v raw_t : raw -> rs.
  Hypothesis leaf_stable : forall l, stable (leaf_frag l).
  Hypothesis raw_v_stable : forall a, stable (raw_v a).
  Hypothesis raw_t_stable : forall a, stable (raw_t a).

  Notation rsnip := (rsnip leaf raw).
  Notation risnil_of := (risnil_of leaf raw leaf_isnil).
  Notation rfrag := (rfrag St leaf raw leaf_isnil leaf_frag raw_v raw_t).
  Notation rrender := (rrender St leaf raw leaf_isnil leaf_frag raw_v raw_t).
  Notation rrender_all := (rrender_all St leaf raw leaf_isnil leaf_frag raw_v raw_t).
  Notation erase := (erase St leaf raw leaf_isnil leaf_frag raw_v raw_t).
  Notation view_of_st := (view_of_st St leaf raw leaf_isnil).
  Notation sview_of_st := (sview_of_st St leaf raw raw_v raw_t).

  Section RsnipInd.
    Variable P : rsnip -> Prop.
    Hypothesis HNil : P (RNil _ _).
    Hypothesis HBlock : forall b, P (RBlock _ _ b).
    Hypothesis HT : forall f args, Forall (fun p => P (snd p)) args -> P (RT _ _ f args).
    Hypothesis HSp : forall f args, Forall P args -> P (RSprintf _ _ f args).
    Hypothesis HRaw : forall a, P (RRaw _ _ a).
    Hypothesis HC : forall v, P (RComment _ _ v).
    Hypothesis HD : forall d a, P (RDirective _ _ d a).
    Hypothesis HSn : forall l, Forall P l -> P (RSnippets _ _ l).
    Hypothesis HF : forall x, P x -> P (RFragments _ _ x).
    Hypothesis HL : forall l, P (RLeaf _ _ l).

    Fixpoint rsnip_ind' (s : rsnip) : P s :=
      match s with
      | RNil _ _ => HNil
      | RBlock _ _ b => HBlock b
      | RT _ _ f args =>
          HT f args ((fix go (l : list (bytes * rsnip)) : Forall (fun p => P (snd p)) l :=
                        match l with
                        | [] => Forall_nil _
                        | (n, v) :: r => Forall_cons (n, v) (rsnip_ind' v : P (snd (n, v))) (go r)
                        end) args)
      | RSprintf _ _ f args =>
          HSp f args ((fix go (l : list rsnip) : Forall P l :=
                         match l with
                         | [] => Forall_nil _
                         | v :: r => Forall_cons v (rsnip_ind' v) (go r)
                         end) args)
      | RRaw _ _ a => HRaw a
      | RComment _ _ v => HC v
      | RDirective _ _ d a => HD d a
      | RSnippets _ _ l =>
          HSn l ((fix go (l : list rsnip) : Forall P l :=
                    match l with
                    | [] => Forall_nil _
                    | v :: r => Forall_cons v (rsnip_ind' v) (go r)
                    end) l)
      | RFragments _ _ x => HF x (rsnip_ind' x)
      | RLeaf _ _ l => HL l
      end.
  End RsnipInd.

  Lemma snippets_loop_st_cons : forall fr c r,
    snippets_loop_st St leaf raw leaf_isnil fr (c :: r) =
    if risnil_of c then snippets_loop_st St leaf raw leaf_isnil fr r
    else emitr_st (fr c) (snippets_loop_st St leaf raw leaf_isnil fr r).
  Proof. reflexivity. Qed.

  Lemma view_of_st_stable : forall v, stable (rfrag v) -> view_stable (view_of_st rfrag v).
  Proof. intros v H. destruct v; cbn; try exact H; exact I. Qed.

  Lemma sview_of_st_stable : forall v, stable (rfrag v) -> sview_stable (sview_of_st rfrag v).
  Proof. intros v H. destruct v; cbn; try exact H. split; [apply raw_v_stable|apply raw_t_stable]. Qed.

  Lemma rfrag_stable : forall s, stable (rfrag s).
  Proof.
    induction s as [|b|f args IH|f args IH|a|v|d a|l IH|x IH|l] using rsnip_ind'; cbn [RenderStack.rfrag].
    - apply stable_panic.
    - apply stable_ret.
    - eapply stable_ext; [apply tpl_st_spec|]. apply stable_subst.
      induction IH as [|p r Hp _ IHr]; [constructor|]. cbn [map]. constructor; [|exact IHr].
      cbn [snd]. apply view_of_st_stable, Hp.
    - eapply stable_ext; [apply sp_st_spec|]. apply stable_ssubst.
      induction IH as [|p r Hp _ IHr]; [constructor|]. cbn [map]. constructor; [|exact IHr].
      apply sview_of_st_stable, Hp.
    - apply stable_panic.
    - apply stable_ret.
    - apply stable_ret.
    - induction IH as [|c r Hc _ IHr]; [apply stable_ret|]. rewrite snippets_loop_st_cons.
      destruct (risnil_of c); [exact IHr|]. apply stable_emitr; assumption.
    - destruct (risnil_of x); [apply stable_ret|exact IH].
    - apply leaf_stable.
  Qed.

  Lemma rrender_stable : forall s, stable (rrender s).
  Proof.
    intros s. unfold RenderStack.rrender. destruct s; try apply stable_ret;
      match goal with |- stable (if ?b then _ else _) => destruct b; [apply stable_ret|apply rfrag_stable] end.
  Qed.

  Lemma rrender_all_stable : forall l, stable (rrender_all l).
  Proof.
    induction l as [|s r IH]; [apply stable_ret|]. cbn [RenderStack.rrender_all].
    apply stable_emitr; [apply rrender_stable|exact IH].
  Qed.

  (* ------------------------------------------------------------------------------------------ *)
  (* rendering in a state that the rendering leaves alone = C09's pure rendering of the erased term *)
  Section Pure.
    Variable tbl : St.

    Definition pure_of (o : rs) (o' : res bytes) : Prop := forall t, o tbl = Ok (t, tbl) -> o' = Ok t.

    Definition view_rel (vs : aview_st) (vp : aview) : Prop :=
      match vs, vp with
      | AVNilS _, AVNil => True
      | AVS _ n o, AV n' o' => n = n' /\ stable o /\ pure_of o o'
      | _, _ => False
      end.

    Definition sview_rel (vs : sview_st) (vp : sview) : Prop :=
      match vs, vp with
      | SVSnipS _ o, SVSnip o' => stable o /\ pure_of o o'
      | SVRawS _ v t, SVRaw v' t' => (stable v /\ pure_of v v') /\ (stable t /\ pure_of t t')
      | _, _ => False
      end.

    Lemma lookup_map : forall {X Y} (f : X -> Y) n (l : list (bytes * X)),
      lookup n (map (fun p => (fst p, f (snd p))) l) = option_map f (lookup n l).
    Proof.
      intros X Y f n l. induction l as [|[k x] r IH]; [reflexivity|]. cbn [map lookup fst snd]. rewrite IH.
      destruct (lookup n r); [reflexivity|]. destruct (bytes_eqb k n); reflexivity.
    Qed.

    (* splitting a sequence that ends where it started *)
    Lemma emitr_st_fix : forall o k out, stable o -> stable k ->
      emitr_st o k tbl = Ok (out, tbl) ->
      exists a r, o tbl = Ok (a, tbl) /\ k tbl = Ok (r, tbl) /\ out = a ++ r.
    Proof.
      intros o k out So Sk H. unfold RenderStack.emitr_st in H.
      destruct (o tbl) as [[a e1]| |] eqn:Eo; cbn [bind] in H; try discriminate.
      destruct (k e1) as [[r e2]| |] eqn:Ek; cbn [bind] in H; try discriminate.
      inversion H; subst. destruct (So _ _ _ Eo) as [L1 _]. destruct (Sk _ _ _ Ek) as [L2 _].
      assert (e1 = tbl) by (apply le_antisym; assumption). subst e1. eauto.
    Qed.

    Section SubstPure.
      Variable X : Type.
      Variable G : X -> aview_st.
      Variable Fp : X -> aview.

      Notation args_s l := (map (fun p : bytes * X => (fst p, G (snd p))) l).
      Notation args_p l := (map (fun p : bytes * X => (fst p, Fp (snd p))) l).
      Notation rel_all l := (Forall (fun p : bytes * X => view_rel (G (snd p)) (Fp (snd p))) l).

      Lemma args_s_stable : forall l, rel_all l -> Forall (fun p => view_stable (snd p)) (args_s l).
      Proof.
        intros l Hrel. induction Hrel as [|p r Hp _ IHr]; [constructor|]. cbn [map]. constructor; [|exact IHr].
        cbn [snd]. unfold view_rel in Hp. destruct (G (snd p)), (Fp (snd p)); cbn; tauto.
      Qed.

      Lemma lookup_rel : forall l n x, rel_all l -> lookup n l = Some x -> view_rel (G x) (Fp x).
      Proof.
        intros l n. induction l as [|[k y] r0 IHl]; intros x Hrel E; [discriminate|].
        inversion Hrel as [|? ? Hy Hr]; subst. cbn [lookup] in E. destruct (lookup n r0) as [z|] eqn:E2.
        - inversion E; subst. apply IHl; [exact Hr|reflexivity].
        - destruct (bytes_eqb k n); inversion E; subst. exact Hy.
      Qed.

      Lemma piece_st_stable : forall args t, Forall (fun p => view_stable (snd p)) args -> stable (piece_st St args t).
      Proof.
        intros args t Ha. destruct t as [c|n a]; cbn [piece_st]; [apply stable_ret|].
        destruct (lookup n args) as [[|isnil out]|] eqn:E; [apply stable_ret| |apply stable_panic].
        destruct isnil; [apply stable_ret|]. exact (lookup_Forall view_stable n args _ Ha E).
      Qed.

      Lemma subst_pure : forall l, rel_all l -> forall ts out,
        subst_st St (args_s l) ts tbl = Ok (out, tbl) -> subst (args_p l) ts = Ok out.
      Proof.
        intros l Hrel. pose proof (args_s_stable l Hrel) as Sa.
        induction ts as [|t r IH]; intros out H.
        - cbn in H. unfold RenderStack.ret_st in H. inversion H. reflexivity.
        - cbn [subst_st] in H.
          destruct (emitr_st_fix _ _ _ (piece_st_stable _ t Sa) (stable_subst _ r Sa) H) as (a & b & Ha & Hb & ->).
          cbn [subst]. rewrite (IH _ Hb).
          assert (Hp : piece (args_p l) t = Ok a).
          { destruct t as [c|n ap]; cbn [piece_st piece] in *.
            - unfold RenderStack.ret_st in Ha. inversion Ha. reflexivity.
            - rewrite lookup_map in Ha. rewrite lookup_map. clear H.
              destruct (lookup n l) as [x|] eqn:E; cbn [option_map] in *; [|unfold RenderStack.panic_st in Ha; discriminate Ha].
              pose proof (lookup_rel l n x Hrel E) as R.
              unfold view_rel in R. destruct (G x) as [|isnil o], (Fp x) as [|isnil' o']; try contradiction.
              + unfold RenderStack.ret_st in Ha. inversion Ha. reflexivity.
              + destruct R as (-> & _ & Pu). destruct isnil'.
                * unfold RenderStack.ret_st in Ha. inversion Ha. reflexivity.
                * apply Pu, Ha. }
          rewrite Hp. reflexivity.
      Qed.
    End SubstPure.

    Lemma ssubst_pure : forall ts args_s args_p out,
      Forall2 sview_rel args_s args_p ->
      ssubst_st St ts args_s tbl = Ok (out, tbl) -> ssubst ts args_p = Ok out.
    Proof.
      induction ts as [|t r IH]; intros args_s args_p out HR H.
      - cbn in H. unfold RenderStack.ret_st in H. inversion H. reflexivity.
      - assert (Sall : Forall sview_stable args_s).
        { clear - HR. induction HR as [|a b ra rb Hab _ IHr]; constructor; [|exact IHr].
          unfold sview_rel in Hab. destruct a, b; cbn; tauto. }
        cbn [ssubst_st ssubst] in *. destruct t as [c| | | |c].
        + pose proof (emit_as_emitr [c] (ssubst_st St r args_s) tbl) as E. rewrite E in H.
          destruct (emitr_st_fix _ _ _ (stable_ret [c]) (stable_ssubst r args_s Sall) H) as (a & b & Ha & Hb & ->).
          unfold RenderStack.ret_st in Ha. inversion Ha; subst. rewrite (IH _ _ _ HR Hb). reflexivity.
        + destruct HR as [|a b ra rb Hab HR']; [discriminate|]. inversion Sall; subst.
          assert (So : stable match a with SVSnipS _ o => o | SVRawS _ v _ => v end) by (destruct a; cbn in *; tauto).
          destruct (emitr_st_fix _ _ _ So (stable_ssubst r ra H3) H) as (x & y & Hx & Hy & ->).
          rewrite (IH _ _ _ HR' Hy). unfold sview_rel in Hab.
          destruct a, b; try contradiction.
          * destruct Hab as [_ Pu]. rewrite (Pu _ Hx). reflexivity.
          * destruct Hab as [[_ Pu] _]. rewrite (Pu _ Hx). reflexivity.
        + destruct HR as [|a b ra rb Hab HR']; [discriminate|]. inversion Sall; subst.
          assert (So : stable match a with SVSnipS _ o => o | SVRawS _ _ t => t end) by (destruct a; cbn in *; tauto).
          destruct (emitr_st_fix _ _ _ So (stable_ssubst r ra H3) H) as (x & y & Hx & Hy & ->).
          rewrite (IH _ _ _ HR' Hy). unfold sview_rel in Hab.
          destruct a, b; try contradiction.
          * destruct Hab as [_ Pu]. rewrite (Pu _ Hx). reflexivity.
          * destruct Hab as [_ [_ Pu]]. rewrite (Pu _ Hx). reflexivity.
        + pose proof (emit_as_emitr [c_pct] (ssubst_st St r args_s) tbl) as E. rewrite E in H.
          destruct (emitr_st_fix _ _ _ (stable_ret [c_pct]) (stable_ssubst r args_s Sall) H) as (a & b & Ha & Hb & ->).
          unfold RenderStack.ret_st in Ha. inversion Ha; subst. rewrite (IH _ _ _ HR Hb). reflexivity.
        + discriminate.
    Qed.

    Lemma isnil_of_erase : forall s, isnil_of (erase tbl s) = risnil_of s.
    Proof. destruct s; reflexivity. Qed.

    Notation sfrag := (spec_frag sc_view Panic).

    Lemma view_rel_erase : forall v,
      (forall out, rfrag v tbl = Ok (out, tbl) -> sfrag (erase tbl v) = Ok out) ->
      view_rel (view_of_st rfrag v) (view_of sfrag (erase tbl v)).
    Proof.
      intros v H. destruct v; unfold view_rel, RenderStack.view_of_st, view_of; cbn [RenderStack.erase]; try exact I;
        (split; [reflexivity|]; split; [apply rfrag_stable|exact H]).
    Qed.

    Lemma r2o_pure : forall (o : rs), pure_of o (o2r (r2o St (o tbl))).
    Proof. intros o t H. rewrite H. reflexivity. Qed.

    Lemma sview_rel_erase : forall v,
      (forall out, rfrag v tbl = Ok (out, tbl) -> sfrag (erase tbl v) = Ok out) ->
      sview_rel (sview_of_st rfrag v) (sview_of Panic sfrag (erase tbl v)).
    Proof.
      intros v H. destruct v; unfold sview_rel, RenderStack.sview_of_st, sview_of; cbn [RenderStack.erase];
        try (split; [apply rfrag_stable|exact H]).
      split; (split; [auto|]).
      - intros t Ht. rewrite Ht. reflexivity.
      - apply r2o_pure.
    Qed.

    Lemma rfrag_pure : forall s out, rfrag s tbl = Ok (out, tbl) -> sfrag (erase tbl s) = Ok out.
    Proof.
      induction s as [|b|f args IH|f args IH|a|v|d a|l IH|x IH|l] using rsnip_ind'; intros out H;
        cbn [RenderStack.rfrag RenderStack.erase spec_frag] in *.
      - discriminate.
      - unfold RenderStack.ret_st in H. inversion H. reflexivity.
      - rewrite (tpl_st_spec _ f tbl) in H. rewrite map_map. cbn [fst snd].
        refine (subst_pure rsnip (view_of_st rfrag) (fun v => view_of sfrag (erase tbl v)) args _ _ _ H).
        clear H. induction IH as [|p r Hp _ IHr]; [constructor|]. constructor; [|exact IHr]. apply view_rel_erase, Hp.
      - rewrite (sp_st_spec f _ tbl) in H. rewrite map_map.
        refine (ssubst_pure _ _ _ _ _ H).
        clear H. induction IH as [|p r Hp _ IHr]; cbn [map]; [constructor|]. constructor; [|exact IHr]. apply sview_rel_erase, Hp.
      - discriminate.
      - unfold RenderStack.ret_st in H. inversion H. rewrite comment_impl_spec. reflexivity.
      - unfold RenderStack.ret_st in H. inversion H. rewrite directive_impl_spec. reflexivity.
      - revert out H. induction IH as [|c r Hc Hr IHr]; intros out H.
        + cbn in H. unfold RenderStack.ret_st in H. inversion H. reflexivity.
        + rewrite snippets_loop_st_cons in H. cbn [map]. rewrite cat_res_cons, isnil_of_erase.
          destruct (risnil_of c).
          * rewrite emitr_nil. apply IHr, H.
          * assert (Sr : stable (snippets_loop_st St leaf raw leaf_isnil rfrag r)).
            { pose proof (rfrag_stable (RSnippets _ _ r)) as S. exact S. }
            destruct (emitr_st_fix _ _ _ (rfrag_stable c) Sr H) as (x & y & Hx & Hy & ->).
            rewrite (Hc _ Hx), (IHr _ Hy). reflexivity.
      - rewrite isnil_of_erase. destruct (risnil_of x).
        + unfold RenderStack.ret_st in H. inversion H. reflexivity.
        + apply IH, H.
      - rewrite H. reflexivity.
    Qed.

    Lemma rrender_pure : forall s out, rrender s tbl = Ok (out, tbl) -> render all_fixed (erase tbl s) = Ok out.
    Proof.
      intros s out H. rewrite render_spec. unfold spec_render. rewrite isnil_of_erase.
      unfold RenderStack.rrender in H. destruct s; cbn [RenderStack.risnil_of] in *;
        try (unfold RenderStack.ret_st in H; inversion H; reflexivity);
        try (apply rfrag_pure; exact H);
        match goal with |- (if ?b then _ else _) = _ => destruct b;
          [unfold RenderStack.ret_st in H; inversion H; reflexivity|apply rfrag_pure; exact H] end.
    Qed.
  End Pure.

  (* THE composition theorem (text): what the state-threading rendering writes is C09's rendering of the term whose
     leaves are replaced by what they render to in the final state (or any later one) *)
  Theorem rrender_erase : forall s e out e',
    rrender s e = Ok (out, e') ->
    le e e' /\ forall e2, le e' e2 -> rrender s e2 = Ok (out, e2) /\ render all_fixed (erase e2 s) = Ok out.
  Proof.
    intros s e out e' H. destruct (rrender_stable s e out e' H) as [L R]. split; [exact L|].
    intros e2 L2. pose proof (R e2 L2) as H2. split; [exact H2|]. apply rrender_pure, H2.
  Qed.
End Generic.

(* ------------------------------------------------------------------------------------------ *)
(* which packages a rendering registers: exactly those of the leaves it renders                 *)
Section Regs.
  Variable St : Type.
  (* [R e e1 F]: going from state e to state e1 registered the packages F, e.g. "e1 = AddType of F, in order, on e",
     or "the paths of e1 are those of e and F"; anything reflexive on [] and transitive on ++ *)
  Variable R : St -> St -> list bytes -> Prop.
  Hypothesis grows_refl : forall e, R e e [].
  Hypothesis grows_trans : forall e e1 e2 F1 F2, R e e1 F1 -> R e1 e2 F2 -> R e e2 (F1 ++ F2).

  Notation rs := (rs St).
  Notation grows := R.

  Definition regs_ok (o : rs) (F : list bytes) : Prop := forall e t e1, o e = Ok (t, e1) -> grows e e1 F.

  Lemma regs_ok_ext : forall a b F, eqr St a b -> regs_ok b F -> regs_ok a F.
  Proof. intros a b F H Rb e t e1 Ha. rewrite H in Ha. eapply Rb; eauto. Qed.

  Lemma regs_ok_ret : forall b, regs_ok (ret_st St b) [].
  Proof. intros b e t e1 H. unfold ret_st in H. inversion H; subst. apply grows_refl. Qed.

  Lemma regs_ok_panic : forall F, regs_ok (panic_st St) F.
  Proof. intros F e t e1 H. discriminate. Qed.

  Lemma regs_ok_emitr : forall o k F1 F2, regs_ok o F1 -> regs_ok k F2 -> regs_ok (emitr_st St o k) (F1 ++ F2).
  Proof.
    intros o k F1 F2 Ro Rk e t e2 H. unfold emitr_st in H.
    destruct (o e) as [[a e1]| |] eqn:Eo; cbn [bind] in H; try discriminate.
    destruct (k e1) as [[r e2']| |] eqn:Ek; cbn [bind] in H; try discriminate.
    inversion H; subst. eapply grows_trans; eauto.
  Qed.

  Lemma regs_ok_emit : forall b k F, regs_ok k F -> regs_ok (emit_st St b k) F.
  Proof.
    intros b k F Rk. eapply regs_ok_ext; [apply emit_as_emitr|].
    change F with ([] ++ F). apply regs_ok_emitr; [apply regs_ok_ret|exact Rk].
  Qed.

  Section SubstRegs.
    Variable X : Type.
    Variable G : X -> aview_st St.
    Variable pk : X -> list bytes.

    Definition view_regs (x : X) : Prop :=
      match G x with
      | AVNilS _ => pk x = []
      | AVS _ isnil o => if isnil then pk x = [] else regs_ok o (pk x)
      end.

    Definition tok_pkgs (l : list (bytes * X)) (t : tok) : list bytes :=
      match t with
      | Hole n _ => match lookup n (map (fun p => (fst p, pk (snd p))) l) with Some x => x | None => [] end
      | Lit _ => []
      end.

    Lemma lookup_all : forall (P : X -> Prop) l n x, Forall (fun p => P (snd p)) l -> lookup n l = Some x -> P x.
    Proof. intros P l n x H E. exact (lookup_Forall P n l x H E). Qed.

    Lemma subst_regs : forall l, Forall (fun p => view_regs (snd p)) l ->
      forall ts, regs_ok (subst_st St (map (fun p => (fst p, G (snd p))) l) ts) (flat_map (tok_pkgs l) ts).
    Proof.
      intros l Hl. induction ts as [|t r IH]; [apply regs_ok_ret|]. cbn [subst_st flat_map].
      apply regs_ok_emitr; [|exact IH]. destruct t as [c|n a]; cbn [piece_st tok_pkgs]; [apply regs_ok_ret|].
      rewrite !lookup_map. destruct (lookup n l) as [x|] eqn:E; cbn [option_map]; [|apply regs_ok_panic].
      pose proof (lookup_all view_regs l n x Hl E) as V. unfold view_regs in V.
      destruct (G x) as [|isnil o]; [rewrite V; apply regs_ok_ret|].
      destruct isnil; [rewrite V; apply regs_ok_ret|exact V].
    Qed.
  End SubstRegs.

  Definition sview_regs (a : sview_st St) (pk : list bytes * list bytes) : Prop :=
    match a with
    | SVSnipS _ o => regs_ok o (fst pk) /\ regs_ok o (snd pk)
    | SVRawS _ v t => regs_ok v (fst pk) /\ regs_ok t (snd pk)
    end.

  Lemma ssubst_regs : forall ts args pks, Forall2 sview_regs args pks ->
    regs_ok (ssubst_st St ts args) (verb_pkgs ts pks).
  Proof.
    induction ts as [|t r IH]; intros args pks HR; [apply regs_ok_ret|]. cbn [ssubst_st verb_pkgs].
    destruct t as [c| | | |c].
    - apply regs_ok_emit, IH, HR.
    - destruct HR as [|a pk ra rp Hab HR']; [apply regs_ok_panic|].
      apply regs_ok_emitr; [|apply IH, HR']. unfold sview_regs in Hab. destruct a; tauto.
    - destruct HR as [|a pk ra rp Hab HR']; [apply regs_ok_panic|].
      apply regs_ok_emitr; [|apply IH, HR']. unfold sview_regs in Hab. destruct a; tauto.
    - apply regs_ok_emit, IH, HR.
    - apply regs_ok_panic.
  Qed.

  Variables leaf raw : Type.
  Variable leaf_isnil : leaf -> bool.
  Variable leaf_frag : leaf -> rs.
  Variable raw_v raw_t : raw -> rs.
  Variable leaf_pkgs : leaf -> list bytes.
  Variable raw_v_pkgs raw_t_pkgs : raw -> list bytes.
  Hypothesis leaf_regs : forall l, regs_ok (leaf_frag l) (leaf_pkgs l).
  Hypothesis raw_v_regs : forall a, regs_ok (raw_v a) (raw_v_pkgs a).
  Hypothesis raw_t_regs : forall a, regs_ok (raw_t a) (raw_t_pkgs a).

  Notation rsnip := (rsnip leaf raw).
  Notation risnil_of := (risnil_of leaf raw leaf_isnil).
  Notation rfrag := (rfrag St leaf raw leaf_isnil leaf_frag raw_v raw_t).
  Notation rrender := (rrender St leaf raw leaf_isnil leaf_frag raw_v raw_t).
  Notation rrender_all := (rrender_all St leaf raw leaf_isnil leaf_frag raw_v raw_t).
  Notation rpkgs := (rpkgs leaf raw leaf_isnil leaf_pkgs raw_v_pkgs raw_t_pkgs).
  Notation rpkgs_render := (rpkgs_render leaf raw leaf_isnil leaf_pkgs raw_v_pkgs raw_t_pkgs).

  Lemma rfrag_regs : forall s, regs_ok (rfrag s) (rpkgs s).
  Proof.
    induction s as [|b|f args IH|f args IH|a|v|d a|l IH|x IH|l] using (rsnip_ind' leaf raw);
      cbn [RenderStack.rfrag RenderStack.rpkgs].
    - apply regs_ok_panic.
    - apply regs_ok_ret.
    - eapply regs_ok_ext; [apply tpl_st_spec|].
      apply (subst_regs rsnip (view_of_st St leaf raw leaf_isnil rfrag) (fun v => if risnil_of v then [] else rpkgs v)).
      induction IH as [|p r Hp _ IHr]; [constructor|]. constructor; [|exact IHr].
      unfold view_regs. destruct (snd p); cbn [RenderStack.view_of_st RenderStack.risnil_of] in *; try reflexivity; try exact Hp;
        match goal with |- (if ?b then _ else _) => destruct b; [reflexivity|exact Hp] end.
    - eapply regs_ok_ext; [apply sp_st_spec|]. apply ssubst_regs.
      induction IH as [|p r Hp _ IHr]; cbn [map]; [constructor|]. constructor; [|exact IHr].
      unfold sview_regs. destruct p; cbn [RenderStack.sview_of_st fst snd]; try (split; exact Hp).
      split; [apply raw_v_regs|apply raw_t_regs].
    - apply regs_ok_panic.
    - apply regs_ok_ret.
    - apply regs_ok_ret.
    - induction IH as [|c r Hc _ IHr]; [apply regs_ok_ret|].
      change (snippets_loop_st St leaf raw leaf_isnil rfrag (c :: r)) with
        (if risnil_of c then snippets_loop_st St leaf raw leaf_isnil rfrag r
         else emitr_st St (rfrag c) (snippets_loop_st St leaf raw leaf_isnil rfrag r)).
      cbn [flat_map]. destruct (risnil_of c); [exact IHr|]. apply regs_ok_emitr; assumption.
    - destruct (risnil_of x); [apply regs_ok_ret|exact IH].
    - apply leaf_regs.
  Qed.

  Lemma rrender_regs : forall s, regs_ok (rrender s) (rpkgs_render s).
  Proof.
    intros s. unfold RenderStack.rrender, RenderStack.rpkgs_render.
    destruct s; cbn [RenderStack.risnil_of]; try apply regs_ok_ret; try apply rfrag_regs;
      match goal with |- regs_ok (if ?b then _ else _) _ => destruct b; [apply regs_ok_ret|apply rfrag_regs] end.
  Qed.

  Theorem rrender_all_regs : forall l, regs_ok (rrender_all l) (flat_map rpkgs_render l).
  Proof.
    induction l as [|s r IH]; [apply regs_ok_ret|]. cbn [RenderStack.rrender_all flat_map].
    apply regs_ok_emitr; [apply rrender_regs|exact IH].
  Qed.

  (* every package of [rpkgs] comes from a leaf *)
  Lemma rpkgs_forall : forall (P : bytes -> Prop),
    (forall l p, In p (leaf_pkgs l) -> P p) ->
    (forall a p, In p (raw_v_pkgs a) -> P p) ->
    (forall a p, In p (raw_t_pkgs a) -> P p) ->
    forall s p, In p (rpkgs s) -> P p.
  Proof.
    intros P Hl Hv Ht.
    induction s as [|b|f args IH|f args IH|a|v|d a|l IH|x IH|l] using (rsnip_ind' leaf raw);
      intros p Hp; try (destruct Hp; fail).
    - change (rpkgs (RT leaf raw f args)) with
        (flat_map (fun t => match t with
                            | Hole n _ => match lookup n (map (fun p => (fst p, (fun v => if risnil_of v then [] else rpkgs v) (snd p))) args) with
                                          | Some l => l | None => [] end
                            | Lit _ => []
                            end) (tokenize (sc_view (trim_nl f)))) in Hp.
      apply in_flat_map in Hp. destruct Hp as (t & _ & Hp). destruct t as [c|n ap]; [destruct Hp|].
      rewrite (lookup_map (fun v => if risnil_of v then [] else rpkgs v)) in Hp. destruct (lookup n args) as [v|] eqn:E; cbn [option_map] in Hp; [|destruct Hp].
      pose proof (lookup_Forall (fun v => forall p, In p (rpkgs v) -> P p) n args v IH E) as Hv'.
      destruct (risnil_of v); [destruct Hp|exact (Hv' p Hp)].
    - change (rpkgs (RSprintf leaf raw f args)) with
        (verb_pkgs (stokenize (sc_view f))
           (map (fun a => match a with
                          | RRaw _ _ x => (raw_v_pkgs x, raw_t_pkgs x)
                          | _ => (rpkgs a, rpkgs a)
                          end) args)) in Hp.
      revert Hp. generalize (stokenize (sc_view f)). intros ts. revert ts.
      induction IH as [|x r Hx _ IHr]; intros ts Hp.
      + cbn [map] in Hp. induction ts as [|t ts IHt]; [destruct Hp|]. cbn [verb_pkgs] in Hp.
        destruct t; try (destruct Hp; fail); apply IHt, Hp.
      + cbn [map] in Hp. revert Hp. induction ts as [|t ts IHt]; intros Hp; [destruct Hp|]. cbn [verb_pkgs] in Hp.
        destruct t as [c| | | |c]; try (apply IHt, Hp); try (destruct Hp; fail).
        * apply in_app_iff in Hp. destruct Hp as [Hp|Hp]; [|exact (IHr ts Hp)].
          destruct x; cbn [fst] in Hp; try exact (Hx p Hp). exact (Hv _ _ Hp).
        * apply in_app_iff in Hp. destruct Hp as [Hp|Hp]; [|exact (IHr ts Hp)].
          destruct x; cbn [snd] in Hp; try exact (Hx p Hp). exact (Ht _ _ Hp).
    - change (rpkgs (RSnippets leaf raw l)) with (flat_map (fun c => if risnil_of c then [] else rpkgs c) l) in Hp.
      apply in_flat_map in Hp. destruct Hp as (c & Hc & Hp). rewrite Forall_forall in IH.
      destruct (risnil_of c); [destruct Hp|exact (IH c Hc p Hp)].
    - change (rpkgs (RFragments leaf raw x)) with (if risnil_of x then [] else rpkgs x) in Hp.
      destruct (risnil_of x); [destruct Hp|exact (IH p Hp)].
    - exact (Hl _ _ Hp).
  Qed.

  Lemma rpkgs_render_forall : forall (P : bytes -> Prop),
    (forall l p, In p (leaf_pkgs l) -> P p) ->
    (forall a p, In p (raw_v_pkgs a) -> P p) ->
    (forall a p, In p (raw_t_pkgs a) -> P p) ->
    forall s p, In p (rpkgs_render s) -> P p.
  Proof.
    intros P Hl Hv Ht s p Hp. unfold RenderStack.rpkgs_render in Hp.
    destruct (risnil_of s); [destruct Hp|]. exact (rpkgs_forall P Hl Hv Ht s p Hp).
  Qed.
End Regs.
