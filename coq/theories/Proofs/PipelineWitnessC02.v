(* Concrete failing runs of the model (non-vacuity of the C02 theorems). *)
Require Import Gengo.Base.Bytes Gengo.Model.Pipeline Gengo.Spec.PipelineSpec Gengo.Proofs.Pipeline Gengo.Proofs.PipelinePkg
  Gengo.Proofs.PipelineWitness Gengo.Corr.Pipe.

(* parses unless the body contains an opening parenthesis followed by a newline *)
Fixpoint has_bad_from (prev_paren : bool) (b : bytes) : bool :=
  match b with
  | [] => false
  | c :: r => if prev_paren && Ascii.eqb c (ascii_of_N 10) then true else has_bad_from (Ascii.eqb c "("%char) r
  end.
Definition has_bad (b : bytes) : bool := has_bad_from false b.
Definition wf_env : env := whole_env (fun src => if has_bad src then None else Some src) (fun _ l => l) rank0 [].

(* module m, packages a (types T0 T1 T2) and b (type T0), generators g1 and g2, All; previous outputs and a sum *)
Definition wf_a : pkginfo :=
  mk_pkg (bs "m/a") (bs "a") (bs "a") [bs "a.go"; bs "zz_generated.g1.go"; bs "zz_generated.g2.go"]
    [mk_ty (bs "T0") KNamed (tag "g1" ++ tag "g2"); mk_ty (bs "T1") KNamed (tag "g1"); mk_ty (bs "T2") KNamed (tag "g1")] (bs "h1:a").
Definition wf_b : pkginfo :=
  mk_pkg (bs "m/b") (bs "b") (bs "b") [bs "b.go"; bs "zz_generated.g1.go"] [mk_ty (bs "T0") KNamed (tag "g1")] (bs "h1:b").
Definition wf_world : world := mk_world [wf_b; wf_a] [bs "m/a"; bs "m/b"].
Definition wf_args : args := {| a_all := true; a_force := false; a_base := bs "zz_generated" |}.
Definition wf_fs : fs :=
  [((bs "a", bs "a.go"), bs "A"); ((bs "a", bs "zz_generated.g1.go"), bs "old a g1"); ((bs "a", bs "zz_generated.g2.go"), bs "old a g2");
   ((bs "b", bs "b.go"), bs "B"); ((bs "b", bs "zz_generated.g1.go"), bs "old b g1"); ((bs "", bs "gengo.sum"), bs "m/a h1:old")].

Definition ok_step (b : string) : sstep := mk_step (bs b) RNil false false [].

(* g1 fails at its THIRD call in package a (index 2), after g2... no: g1 runs first; earlier calls render and skip *)
Definition wf_g1 (third : sstep) (b_step : sstep) : sgen :=
  mk_sgen (bs "g1") false
    [((bs "m/a", bs "T0"), ok_step "var A0 = 1"); ((bs "m/a", bs "T1"), mk_step [] RSkip false false []);
     ((bs "m/a", bs "T2"), third); ((bs "m/b", bs "T0"), b_step)].
Definition wf_g2 : sgen := mk_sgen (bs "g2") false [((bs "m/a", bs "T0"), ok_step "var G2 = 1")].

Definition wf_run (third b_step : sstep) :=
  exec wf_env wf_args wf_world [script_gen (wf_g1 third b_step); script_gen wf_g2] wf_fs.

Definition unchanged (s' : fs) (qs : list path) : bool :=
  forallb (fun q => option_eqb bytes_eqb (fs_lookup q s') (fs_lookup q wf_fs)) qs.

Definition a_g1 : path := (bs "a", bs "zz_generated.g1.go").
Definition a_g2 : path := (bs "a", bs "zz_generated.g2.go").
Definition b_g1 : path := (bs "b", bs "zz_generated.g1.go").
Definition the_sum : path := (bs "", bs "gengo.sum").

(* error at call index 2 of g1 in package a: named, nothing of a, b or the sum touched *)
Lemma witness_error_at_index_2 :
  let '(s', tr, out) := wf_run (mk_step (bs "var A2 = 1") RErr false false []) (ok_step "var B0 = 1") in
  out = Failed (EGen (bs "g1") (bs "m/a")) /\ List.length tr = 3 /\ unchanged s' [a_g1; a_g2; b_g1; the_sum] = true.
Proof. vm_compute. repeat split; reflexivity. Qed.

(* a deferred callback of g1 returns ErrSkip: an error for a callback *)
Lemma witness_deferred_error :
  let '(s', tr, out) := wf_run (mk_step (bs "var A2 = 1") RNil false false [SD [] RSkip []]) (ok_step "var B0 = 1") in
  out = Failed (EDefer (bs "g1") (bs "m/a")) /\ unchanged s' [a_g1; a_g2; b_g1; the_sum] = true.
Proof. vm_compute. repeat split; reflexivity. Qed.

(* unparseable rendering of g1 in package b, the SECOND package of the All run: a has been regenerated, b's file and
   the sum are untouched *)
Lemma witness_unparseable_second_package :
  let '(s', tr, out) := wf_run (ok_step "var A2 = 1") (ok_step "func (
") in
  out = Failed (EParse b_g1) /\ unchanged s' [b_g1; the_sum] = true /\ unchanged s' [a_g1] = false.
Proof. vm_compute. repeat split; reflexivity. Qed.

(* the process dies inside GenerateType in package b *)
Lemma witness_death :
  let '(s', tr, out) := wf_run (ok_step "var A2 = 1") (mk_step [] RDie false false []) in
  out = Died /\ unchanged s' [b_g1; the_sum] = true.
Proof. vm_compute. repeat split; reflexivity. Qed.

(* ErrSkip and ErrIgnore are swallowed: the run succeeds and the sum is rewritten *)
Lemma witness_swallowed :
  let '(s', tr, out) := wf_run (mk_step [] RIgnore false false []) (mk_step [] RSkip false false []) in
  out = Done /\ unchanged s' [the_sum] = false /\
  existsb (fun e => match e with EvCall _ _ _ _ RSkip => true | _ => false end) tr = true /\
  existsb ev_is_ignore tr = true.
Proof. vm_compute. repeat split; reflexivity. Qed.
