(* Lemmas about the cache state machine (Model/SumCache.v). *)
Require Import Gengo.Base.Bytes Gengo.Model.SumFile Gengo.Model.SumCache Gengo.Proofs.SumFile.
From Coq Require Import Permutation Sorted.

Lemma opt_bytes_eqb_none : forall p, opt_bytes_eqb None p = false.
Proof. reflexivity. Qed.

Section CacheFacts.
  Variables tree content : Type.
  Variable H : content -> option bytes.
  Variable dirc : tree -> option bytes -> bytes -> content.
  Variable gen : tree -> bytes -> tree.
  Variable locals : tree -> list bytes -> list (bytes * bool).

  Notation State := (state tree).
  Notation hash_of := (hash_of tree content H dirc).
  Notation current_sum := (current_sum tree content H dirc).
  Notation previous_sum := (previous_sum tree).
  Notation pkg_loop := (pkg_loop tree gen).
  Notation run := (run tree content H dirc gen locals).
  Notation step := (step tree content H dirc gen locals).
  Notation exec := (exec tree content H dirc gen locals).

  (* ---------- the package loop ---------- *)
  Definition in_scope (a : runargs) (pd : bytes * bool) : bool := r_all a || snd pd.

  Definition ev_ok (fx : fixes) (a : runargs) (prev : option sum) (cur : sum) (e : ev) : Prop :=
    match e with
    | EvSkip p => pkg_changed fx a prev cur p = false
    | EvExec p => pkg_changed fx a prev cur p = true /\ opt_bytes_eqb (r_fail a) p = false
    | EvFail p => pkg_changed fx a prev cur p = true /\ opt_bytes_eqb (r_fail a) p = true
    end.

  Lemma scope_test : forall a (d : bool), negb (r_all a) && negb d = negb (r_all a || d).
  Proof. intros a d. destruct (r_all a), d; reflexivity. Qed.

  Lemma pkg_loop_events : forall fx a prev cur order t t' evs,
    pkg_loop fx a prev cur order t = (t', evs) -> Forall (ev_ok fx a prev cur) evs.
  Proof.
    intros fx a prev cur. induction order as [|[p d] rest IH]; intros t t' evs E.
    - cbn in E. inversion E; subst. constructor.
    - cbn [SumCache.pkg_loop] in E.
      destruct (negb (r_all a) && negb d).
      + eapply IH; exact E.
      + destruct (pkg_changed fx a prev cur p) eqn:Ec.
        * destruct (opt_bytes_eqb (r_fail a) p) eqn:Ef.
          -- inversion E; subst. constructor; [split; assumption|constructor].
          -- destruct (pkg_loop fx a prev cur rest (gen t p)) as [t2 evs2] eqn:E2.
             inversion E; subst. constructor; [split; assumption|]. eapply IH; exact E2.
        * destruct (pkg_loop fx a prev cur rest t) as [t2 evs2] eqn:E2.
          inversion E; subst. constructor; [exact Ec|]. eapply IH; exact E2.
  Qed.

  (* the visited packages are a prefix of the packages in scope; all of them unless a generator failed *)
  Lemma pkg_loop_visited : forall fx a prev cur order t t' evs,
    pkg_loop fx a prev cur order t = (t', evs) ->
    exists rest, map fst (filter (in_scope a) order) = visited evs ++ rest /\ (failed evs = false -> rest = []).
  Proof.
    intros fx a prev cur. induction order as [|[p d] rest IH]; intros t t' evs E.
    - cbn in E. inversion E; subst. exists []. split; [reflexivity|reflexivity].
    - cbn [SumCache.pkg_loop] in E. cbn [filter]. unfold in_scope at 1. cbn [snd].
      rewrite scope_test in E.
      destruct (r_all a || d); cbn [negb] in E.
      + destruct (pkg_changed fx a prev cur p) eqn:Ec.
        * destruct (opt_bytes_eqb (r_fail a) p) eqn:Ef.
          -- inversion E; subst. cbn. exists (map fst (filter (in_scope a) rest)). split; [reflexivity|discriminate].
          -- destruct (pkg_loop fx a prev cur rest (gen t p)) as [t2 evs2] eqn:E2.
             inversion E; subst. destruct (IH _ _ _ E2) as [r [Hr Hf]].
             exists r. cbn [map fst visited ev_visited app]. rewrite Hr. split; [reflexivity|].
             intros Hfl. apply Hf. exact Hfl.
        * destruct (pkg_loop fx a prev cur rest t) as [t2 evs2] eqn:E2.
          inversion E; subst. destruct (IH _ _ _ E2) as [r [Hr Hf]].
          exists r. cbn [map fst visited ev_visited app]. rewrite Hr. split; [reflexivity|].
          intros Hfl. apply Hf. exact Hfl.
      + eapply IH; exact E.
  Qed.

  Lemma in_skipped : forall evs p, In p (skipped evs) <-> In (EvSkip p) evs.
  Proof.
    intros evs p. unfold skipped. rewrite in_flat_map. split.
    - intros [e [He Hp]]. destruct e; cbn in Hp; try contradiction.
      destruct Hp as [Hp|[]]. subst. exact He.
    - intros Hin. exists (EvSkip p). split; [exact Hin|left; reflexivity].
  Qed.

  Lemma in_executed : forall evs p, In p (executed evs) <-> (In (EvExec p) evs \/ In (EvFail p) evs).
  Proof.
    intros evs p. unfold executed. rewrite in_flat_map. split.
    - intros [e [He Hp]]. destruct e; cbn in Hp; try contradiction;
        destruct Hp as [Hp|[]]; subst; [left|right]; exact He.
    - intros [Hin|Hin]; [exists (EvExec p)|exists (EvFail p)]; (split; [exact Hin|left; reflexivity]).
  Qed.

  Lemma visited_split : forall evs p, In p (visited evs) <-> (In p (executed evs) \/ In p (skipped evs)).
  Proof.
    intros evs p. unfold visited. rewrite in_map_iff, in_executed, in_skipped. split.
    - intros [e [Ee Hin]]. destruct e; cbn in Ee; subst; tauto.
    - intros [[Hin|Hin]|Hin]; eexists; (split; [|exact Hin]); reflexivity.
  Qed.

  (* without a failing package the loop is a filter *)
  Lemma pkg_loop_plain : forall fx a prev cur order t,
    r_all a = true -> r_fail a = None ->
    pkg_loop fx a prev cur order t =
      (fold_left gen (filter (pkg_changed fx a prev cur) (map fst order)) t,
       map (fun p => if pkg_changed fx a prev cur p then EvExec p else EvSkip p) (map fst order)).
  Proof.
    intros fx a prev cur order t Hall Hfail. revert t.
    induction order as [|[p d] rest IH]; intros t; [reflexivity|].
    cbn [SumCache.pkg_loop map fst filter]. rewrite Hall, Hfail. cbn [negb andb opt_bytes_eqb].
    destruct (pkg_changed fx a prev cur p); rewrite IH; reflexivity.
  Qed.

  Lemma executed_plain : forall (chg : bytes -> bool) l,
    executed (map (fun p => if chg p then EvExec p else EvSkip p) l) = filter chg l.
  Proof.
    intros chg. induction l as [|p l IH]; [reflexivity|].
    cbn [map filter]. unfold executed in *. cbn [flat_map]. destruct (chg p); cbn; rewrite IH; reflexivity.
  Qed.

  Lemma failed_plain : forall (chg : bytes -> bool) l,
    failed (map (fun p => if chg p then EvExec p else EvSkip p) l) = false.
  Proof.
    intros chg. induction l as [|p l IH]; [reflexivity|].
    cbn [map]. unfold failed in *. cbn [existsb]. destruct (chg p); cbn; exact IH.
  Qed.

  (* ---------- the hashes taken at load time ---------- *)
  Lemma current_sum_shape : forall fx st loc,
    current_sum fx st loc = map (fun p => (p, hash_of fx st p)) (map fst loc).
  Proof. intros fx st loc. unfold SumCache.current_sum. rewrite map_map. reflexivity. Qed.

  Lemma current_sum_keys : forall fx st loc, map fst (current_sum fx st loc) = map fst loc.
  Proof. intros. unfold SumCache.current_sum. rewrite map_map. reflexivity. Qed.

  Lemma sum_sum_current : forall fx st loc p,
    sum_sum (current_sum fx st loc) p = if existsb (fun x => bytes_eqb x p) (map fst loc) then hash_of fx st p else [].
  Proof.
    intros fx st loc p. rewrite current_sum_shape. unfold sum_sum. rewrite sum_get_map.
    destruct (existsb (fun x => bytes_eqb x p) (map fst loc)); reflexivity.
  Qed.

  Lemma sum_sum_current_in : forall fx st loc p, In p (map fst loc) ->
    sum_sum (current_sum fx st loc) p = hash_of fx st p.
  Proof.
    intros fx st loc p Hin. rewrite sum_sum_current.
    apply existsb_bytes_in in Hin. rewrite Hin. reflexivity.
  Qed.

  (* ---------- one run ---------- *)
  Definition run_loc (a : runargs) (st : State) := locals (st_tree st) (r_entry a).
  Definition run_loop (fx : fixes) (a : runargs) (st : State) :=
    pkg_loop fx a (previous_sum a st (run_loc a st)) (current_sum fx st (run_loc a st))
             (sort_by fst (run_loc a st)) (st_tree st).

  Lemma run_unfold : forall fx a st,
    run fx a st =
      let (t', evs) := run_loop fx a st in
      if failed evs then ({| st_tree := t'; st_sum := st_sum st |}, (evs, EGen))
      else if r_all a then
        match st_sum st with
        | SumUnreadable => ({| st_tree := t'; st_sum := SumUnreadable |}, (evs, ESave))
        | _ => ({| st_tree := t'; st_sum := SumFile (sumfile_bytes (current_sum fx st (run_loc a st))) |}, (evs, ENone))
        end
      else ({| st_tree := t'; st_sum := st_sum st |}, (evs, ENone)).
  Proof. reflexivity. Qed.

  Lemma run_events : forall fx a st, fst (snd (run fx a st)) = snd (run_loop fx a st).
  Proof.
    intros fx a st. rewrite run_unfold. destruct (run_loop fx a st) as [t' evs]. cbn [snd].
    destruct (failed evs); [reflexivity|]. destruct (r_all a); [|reflexivity].
    destruct (st_sum st); reflexivity.
  Qed.

  Lemma run_tree : forall fx a st, st_tree (fst (run fx a st)) = fst (run_loop fx a st).
  Proof.
    intros fx a st. rewrite run_unfold. destruct (run_loop fx a st) as [t' evs]. cbn [fst].
    destruct (failed evs); [reflexivity|]. destruct (r_all a); [|reflexivity].
    destruct (st_sum st); reflexivity.
  Qed.

  (* what a run does to gengo.sum *)
  Lemma run_sum_cases : forall fx a st,
    st_sum (fst (run fx a st)) = st_sum st
    \/ (r_all a = true /\ snd (snd (run fx a st)) = ENone
        /\ st_sum (fst (run fx a st)) = SumFile (sumfile_bytes (current_sum fx st (run_loc a st)))).
  Proof.
    intros fx a st. rewrite run_unfold. destruct (run_loop fx a st) as [t' evs].
    destruct (failed evs); [left; reflexivity|]. destruct (r_all a); [|left; reflexivity].
    destruct (st_sum st); [right|right|left]; cbn; auto.
  Qed.

  Lemma run_err_keeps_sum : forall fx a st,
    snd (snd (run fx a st)) <> ENone -> st_sum (fst (run fx a st)) = st_sum st.
  Proof.
    intros fx a st. rewrite run_unfold. destruct (run_loop fx a st) as [t' evs].
    destruct (failed evs); [reflexivity|]. destruct (r_all a).
    - destruct (st_sum st); cbn; intros Hn; try reflexivity; exfalso; apply Hn; reflexivity.
    - reflexivity.
  Qed.

  Lemma run_not_all_keeps_sum : forall fx a st,
    r_all a = false -> st_sum (fst (run fx a st)) = st_sum st.
  Proof.
    intros fx a st Hall. rewrite run_unfold. destruct (run_loop fx a st) as [t' evs].
    destruct (failed evs); [reflexivity|]. rewrite Hall. reflexivity.
  Qed.

  Lemma run_saved : forall fx a st,
    r_all a = true -> snd (snd (run fx a st)) = ENone ->
    st_sum (fst (run fx a st)) = SumFile (sumfile_bytes (current_sum fx st (run_loc a st))).
  Proof.
    intros fx a st Hall. rewrite run_unfold. destruct (run_loop fx a st) as [t' evs].
    destruct (failed evs); [discriminate|]. rewrite Hall.
    destruct (st_sum st); cbn; intros E; try reflexivity; discriminate.
  Qed.

  Lemma run_events_ok : forall fx a st,
    Forall (ev_ok fx a (previous_sum a st (run_loc a st)) (current_sum fx st (run_loc a st)))
           (fst (snd (run fx a st))).
  Proof.
    intros fx a st. rewrite run_events. unfold run_loop.
    destruct (pkg_loop fx a (previous_sum a st (run_loc a st)) (current_sum fx st (run_loc a st))
                       (sort_by fst (run_loc a st)) (st_tree st)) as [t' evs] eqn:E.
    cbn [snd]. eapply pkg_loop_events. exact E.
  Qed.

  Lemma run_visited_scope : forall fx a st,
    exists rest,
      map fst (filter (in_scope a) (sort_by fst (run_loc a st))) = visited (fst (snd (run fx a st))) ++ rest
      /\ (snd (snd (run fx a st)) <> EGen -> rest = []).
  Proof.
    intros fx a st. pose proof (run_events fx a st) as Hev. rewrite run_unfold in *. unfold run_loop in *.
    destruct (pkg_loop fx a (previous_sum a st (run_loc a st)) (current_sum fx st (run_loc a st))
                       (sort_by fst (run_loc a st)) (st_tree st)) as [t' evs] eqn:E.
    destruct (pkg_loop_visited _ _ _ _ _ _ _ _ E) as [rest [Hr Hf]].
    exists rest. cbn [snd] in Hev. rewrite Hev. split; [exact Hr|].
    destruct (failed evs).
    - cbn. intros Hn. exfalso. apply Hn. reflexivity.
    - intros _. apply Hf. reflexivity.
  Qed.

  Lemma visited_local : forall fx a st p,
    In p (visited (fst (snd (run fx a st)))) -> In p (map fst (run_loc a st)).
  Proof.
    intros fx a st p Hin. destruct (run_visited_scope fx a st) as [rest [Hr _]].
    assert (Hin2 : In p (map fst (filter (in_scope a) (sort_by fst (run_loc a st))))).
    { rewrite Hr. apply in_or_app. left. exact Hin. }
    apply in_map_iff in Hin2. destruct Hin2 as [pd [E Hpd]]. apply filter_In in Hpd. destruct Hpd as [Hpd _].
    apply in_map_iff. exists pd. split; [exact E|].
    eapply Permutation_in; [apply sort_by_perm|exact Hpd].
  Qed.

  (* ---------- skipped only if ...  ---------- *)
  Lemma run_skip_only_if : forall fx a st p,
    In p (skipped (fst (snd (run fx a st)))) ->
    r_all a = true /\ r_force a = false /\
    exists b, st_sum st = SumFile b
              /\ sum_sum (sumfile_load b) p = hash_of fx st p
              /\ (fx_empty fx = true -> hash_of fx st p <> []).
  Proof.
    intros fx a st p Hsk.
    assert (Hloc : In p (map fst (run_loc a st))).
    { eapply visited_local. apply visited_split. right. exact Hsk. }
    apply in_skipped in Hsk.
    pose proof (run_events_ok fx a st) as Hok. rewrite Forall_forall in Hok. specialize (Hok _ Hsk).
    cbn [ev_ok] in Hok. unfold pkg_changed in Hok.
    destruct (r_force a); [discriminate|].
    unfold SumCache.previous_sum in Hok.
    destruct (r_all a); [|discriminate]. cbn [andb] in Hok.
    destruct (existsb snd (run_loc a st)); [|discriminate].
    destruct (st_sum st) as [|b|]; try discriminate.
    apply orb_false_iff in Hok. destruct Hok as [Hne Heq].
    apply negb_false_iff in Heq. apply bytes_eqb_spec in Heq.
    rewrite (sum_sum_current_in fx st _ p Hloc) in Heq, Hne.
    split; [reflexivity|]. split; [reflexivity|]. exists b. split; [reflexivity|]. split; [exact Heq|].
    intros Hfx. rewrite Hfx in Hne. cbn [andb] in Hne. intros E. rewrite E in Hne. discriminate.
  Qed.

  (* ---------- ... and everything else regenerates ---------- *)
  Lemma run_changed_executed : forall fx a st p,
    In p (visited (fst (snd (run fx a st)))) ->
    pkg_changed fx a (previous_sum a st (run_loc a st)) (current_sum fx st (run_loc a st)) p = true ->
    In p (executed (fst (snd (run fx a st)))).
  Proof.
    intros fx a st p Hv Hc. apply visited_split in Hv. destruct Hv as [Hv|Hv]; [exact Hv|].
    apply in_skipped in Hv.
    pose proof (run_events_ok fx a st) as Hok. rewrite Forall_forall in Hok. specialize (Hok _ Hv).
    cbn [ev_ok] in Hok. congruence.
  Qed.

  Lemma run_regenerates : forall fx a st p,
    In p (visited (fst (snd (run fx a st)))) ->
    (r_force a = true \/ r_all a = false
     \/ (forall b, st_sum st <> SumFile b)
     \/ (exists b, st_sum st = SumFile b /\ sum_sum (sumfile_load b) p <> hash_of fx st p)
     \/ (fx_empty fx = true /\ hash_of fx st p = [])) ->
    In p (executed (fst (snd (run fx a st)))).
  Proof.
    intros fx a st p Hv Hc. apply run_changed_executed; [exact Hv|].
    assert (Hloc : In p (map fst (run_loc a st))) by (eapply visited_local; exact Hv).
    unfold pkg_changed. destruct (r_force a) eqn:Ef; [reflexivity|].
    unfold SumCache.previous_sum.
    destruct (r_all a) eqn:Ea; [|reflexivity]. cbn [andb].
    destruct (existsb snd (run_loc a st)); [|reflexivity].
    destruct (st_sum st) as [|b|] eqn:Es; try reflexivity.
    rewrite (sum_sum_current_in fx st _ p Hloc).
    destruct Hc as [Hc|[Hc|[Hc|[Hc|Hc]]]]; try discriminate.
    - exfalso. apply (Hc b). reflexivity.
    - destruct Hc as [b' [Eb Hne]]. inversion Eb; subst b'.
      rewrite bytes_eqb_false by exact Hne. cbn. apply orb_true_r.
    - destruct Hc as [Hfx Hh]. rewrite Hfx, Hh. reflexivity.
  Qed.

  (* ---------- assumptions about the external components ---------- *)
  Definition H_tokens : Prop := forall c h, H c = Some h -> token_ok h = true.
  Definition H_injective : Prop := forall c1 c2 h, H c1 = Some h -> H c2 = Some h -> c1 = c2.
  Definition locals_ok : Prop :=
    forall t e, NoDup (map fst (locals t e)) /\ Forall (fun p => token_ok p = true) (map fst (locals t e)).

  Lemma token_plain : forall s, token_ok s = true -> forallb plain s = true.
  Proof. intros s Hs. unfold token_ok in Hs. apply andb_true_iff in Hs. tauto. Qed.

  Lemma hash_of_plain : forall fx st p, H_tokens -> forallb plain (hash_of fx st p) = true.
  Proof.
    intros fx st p HT. unfold SumCache.hash_of.
    destruct (H (dirc (st_tree st) (if fx_rootsum fx then None else sum_file_bytes (st_sum st)) p)) as [h|] eqn:E.
    - apply token_plain. eapply HT. exact E.
    - reflexivity.
  Qed.

  Lemma current_sum_ok : forall fx a st, H_tokens -> locals_ok -> kv_ok (current_sum fx st (run_loc a st)).
  Proof.
    intros fx a st HT HL. destruct (HL (st_tree st) (r_entry a)) as [ND HF]. split.
    - rewrite current_sum_keys. exact ND.
    - unfold SumCache.current_sum. apply Forall_forall. intros kv Hin.
      apply in_map_iff in Hin. destruct Hin as [pd [E Hpd]]. subst kv. cbn [fst snd]. split.
      + rewrite Forall_forall in HF. apply HF. apply in_map. exact Hpd.
      + apply hash_of_plain. exact HT.
  Qed.

  (* what the next reader finds for p in the file a successful All run at s1 wrote *)
  Lemma recorded_after_run : forall fx a1 s1 p, H_tokens -> locals_ok ->
    sum_sum (sumfile_load (sumfile_bytes (current_sum fx s1 (run_loc a1 s1)))) p
    = if existsb (fun x => bytes_eqb x p) (map fst (run_loc a1 s1)) then hash_of fx s1 p else [].
  Proof.
    intros fx a1 s1 p HT HL. rewrite load_bytes_sum by (apply current_sum_ok; assumption).
    apply sum_sum_current.
  Qed.

  (* ---------- the repaired code: a skipped package is in the state its recorded hash was taken from ---------- *)
  Definition D (t : tree) (p : bytes) : content := dirc t None p.

  Lemma hash_of_fixed : forall st p,
    hash_of fixed_all st p = match H (D (st_tree st) p) with Some h => h | None => [] end.
  Proof. reflexivity. Qed.

  Lemma skip_after_write : forall a1 s1 a2 s2 p,
    H_tokens -> H_injective -> locals_ok ->
    st_sum s2 = SumFile (sumfile_bytes (current_sum fixed_all s1 (run_loc a1 s1))) ->
    In p (skipped (fst (snd (run fixed_all a2 s2)))) ->
    In p (map fst (run_loc a1 s1))
    /\ (exists h, H (D (st_tree s1) p) = Some h /\ H (D (st_tree s2) p) = Some h)
    /\ D (st_tree s2) p = D (st_tree s1) p.
  Proof.
    intros a1 s1 a2 s2 p HT HI HL Hs Hsk.
    destruct (run_skip_only_if fixed_all a2 s2 p Hsk) as [_ [_ [b [Eb [Hrec Hne]]]]].
    rewrite Hs in Eb. inversion Eb; subst b. clear Eb.
    rewrite recorded_after_run in Hrec by assumption.
    specialize (Hne eq_refl).
    destruct (existsb (fun x => bytes_eqb x p) (map fst (run_loc a1 s1))) eqn:Ein.
    2:{ exfalso. apply Hne. symmetry. exact Hrec. }
    apply existsb_bytes_in in Ein. split; [exact Ein|].
    rewrite !hash_of_fixed in *.
    destruct (H (D (st_tree s2) p)) as [h2|] eqn:E2; [|exfalso; apply Hne; reflexivity].
    destruct (H (D (st_tree s1) p)) as [h1|] eqn:E1.
    - subst h2. split; [exists h1; split; reflexivity|]. eapply HI; eassumption.
    - exfalso. apply Hne. symmetry. exact Hrec.
  Qed.

  (* ---------- histories ---------- *)
  Definition no_corrupt (ops : list (op tree)) : Prop :=
    Forall (fun o => match o with CorruptSum _ => False | _ => True end) ops.

  Definition good_run (fx : fixes) (a : runargs) (st : State) : Prop :=
    r_all a = true /\ snd (snd (run fx a st)) = ENone.

  Lemma exec_snoc : forall fx st ops o, exec fx st (ops ++ [o]) = step fx o (exec fx st ops).
  Proof. intros fx st ops o. unfold SumCache.exec. rewrite fold_left_app. reflexivity. Qed.

  (* every gengo.sum present in a corruption-free history was written by an earlier successful All run *)
  Definition sum_origin (fx : fixes) (st0 : State) (pre : list (op tree)) (s : State) : Prop :=
    forall b, st_sum s = SumFile b ->
      exists pre1 a1 mid, pre = pre1 ++ Run a1 :: mid
        /\ good_run fx a1 (exec fx st0 pre1)
        /\ b = sumfile_bytes (current_sum fx (exec fx st0 pre1) (run_loc a1 (exec fx st0 pre1))).

  Lemma sum_origin_history : forall fx st0 pre,
    st_sum st0 = SumMissing -> no_corrupt pre -> sum_origin fx st0 pre (exec fx st0 pre).
  Proof.
    intros fx st0 pre H0. induction pre as [|o pre IH] using rev_ind; intros Hnc.
    - intros b Hb. cbn in Hb. rewrite H0 in Hb. discriminate.
    - unfold no_corrupt in Hnc. apply Forall_app in Hnc. destruct Hnc as [Hnc Ho].
      specialize (IH Hnc). inversion Ho as [|? ? Ho1 _]; subst.
      rewrite exec_snoc. intros b Hb.
      assert (Hkeep : st_sum (exec fx st0 pre) = SumFile b ->
                      exists pre1 a1 mid, pre ++ [o] = pre1 ++ Run a1 :: mid
                        /\ good_run fx a1 (exec fx st0 pre1)
                        /\ b = sumfile_bytes (current_sum fx (exec fx st0 pre1) (run_loc a1 (exec fx st0 pre1)))).
      { intros Hb'. destruct (IH b Hb') as [pre1 [a1 [mid [E [Hg Hbb]]]]].
        exists pre1, a1, (mid ++ [o]). split; [|split; assumption].
        rewrite E. rewrite <- app_assoc. reflexivity. }
      destruct o as [f| |b'| |a]; cbn [SumCache.step st_sum] in Hb.
      + apply Hkeep. exact Hb.
      + discriminate.
      + contradiction.
      + discriminate.
      + destruct (run_sum_cases fx a (exec fx st0 pre)) as [Hsame|[Hall [Herr Hw]]].
        * apply Hkeep. rewrite <- Hsame. exact Hb.
        * exists pre, a, []. split; [reflexivity|]. split; [split; assumption|].
          rewrite Hw in Hb. inversion Hb. reflexivity.
  Qed.

  Theorem skip_sound_history : forall st0 pre a p,
    H_tokens -> H_injective -> locals_ok ->
    st_sum st0 = SumMissing -> no_corrupt pre ->
    In p (skipped (fst (snd (run fixed_all a (exec fixed_all st0 pre))))) ->
    r_all a = true /\ r_force a = false /\
    exists pre1 a1 mid,
      pre = pre1 ++ Run a1 :: mid
      /\ good_run fixed_all a1 (exec fixed_all st0 pre1)
      /\ In p (map fst (run_loc a1 (exec fixed_all st0 pre1)))
      /\ (exists h, H (D (st_tree (exec fixed_all st0 pre1)) p) = Some h
                    /\ sum_file_bytes (st_sum (exec fixed_all st0 pre)) <> None
                    /\ (forall b, st_sum (exec fixed_all st0 pre) = SumFile b -> sum_sum (sumfile_load b) p = h))
      /\ D (st_tree (exec fixed_all st0 pre)) p = D (st_tree (exec fixed_all st0 pre1)) p.
  Proof.
    intros st0 pre a p HT HI HL H0 Hnc Hsk.
    destruct (run_skip_only_if fixed_all a _ p Hsk) as [Hall [Hforce [b [Eb [Hrec Hne]]]]].
    split; [exact Hall|]. split; [exact Hforce|].
    destruct (sum_origin_history fixed_all st0 pre H0 Hnc b Eb) as [pre1 [a1 [mid [E [Hg Hb]]]]].
    exists pre1, a1, mid. split; [exact E|]. split; [exact Hg|].
    assert (Hs : st_sum (exec fixed_all st0 pre)
                 = SumFile (sumfile_bytes (current_sum fixed_all (exec fixed_all st0 pre1)
                                                        (run_loc a1 (exec fixed_all st0 pre1)))))
      by (rewrite Eb, Hb; reflexivity).
    destruct (skip_after_write a1 _ a _ p HT HI HL Hs Hsk) as [Hin [[h [Eh1 Eh2]] HD]].
    split; [exact Hin|]. split; [|exact HD].
    exists h. split; [exact Eh1|]. split.
    - rewrite Eb. discriminate.
    - intros b' Eb'. rewrite Eb in Eb'. inversion Eb'; subst b'.
      rewrite Hrec. rewrite hash_of_fixed. rewrite Eh2. reflexivity.
  Qed.

  (* ---------- after a successful All run ---------- *)
  Lemma saved_lines : forall fx st loc,
    sumfile_bytes (current_sum fx st loc)
    = flat_map (fun p => p ++ sp :: hash_of fx st p ++ [nl]) (sort_keys (map fst loc)).
  Proof.
    intros fx st loc. unfold sumfile_bytes. rewrite current_sum_keys.
    rewrite !flat_map_concat_map. f_equal. apply map_ext_in. intros p Hin.
    unfold sum_line. rewrite sum_sum_current_in; [reflexivity|].
    eapply Permutation_in; [apply sort_keys_perm|exact Hin].
  Qed.

  Lemma current_sum_perm : forall fx st loc loc',
    Permutation loc loc' -> Permutation (current_sum fx st loc) (current_sum fx st loc').
  Proof. intros. unfold SumCache.current_sum. apply Permutation_map. assumption. Qed.
End CacheFacts.

(* ---------- convergence of repeated plain All runs (repaired code) ---------- *)
Section Converge.
  Variables tree content : Type.
  Variable H : content -> option bytes.
  Variable dirc : tree -> option bytes -> bytes -> content.
  Variable gen : tree -> bytes -> tree.
  Variable locals : tree -> list bytes -> list (bytes * bool).

  Notation State := (state tree).
  Notation hash_of := (hash_of tree content H dirc).
  Notation current_sum := (current_sum tree content H dirc).
  Notation run := (run tree content H dirc gen locals).
  Notation D := (D tree content dirc).

  (* the directory of q contains the directory of p: what is below q determines what is below p *)
  Definition contains (q p : bytes) : Prop := forall t t', D t q = D t' q -> D t p = D t' p.

  (* the generated files of a package are a function of that package's own sources *)
  Definition gen_idem : Prop := forall t p, gen (gen t p) p = gen t p.
  Definition gen_comm : Prop := forall t p q, gen (gen t p) q = gen (gen t q) p.
  (* generating p touches only p's directory *)
  Definition gen_local : Prop := forall t p q, contains q p \/ D (gen t p) q = D t q.
  (* generated files do not change which packages are loaded *)
  Definition gen_keeps_locals : Prop := forall t p e, locals (gen t p) e = locals t e.
  Definition all_hashable : Prop := forall t p, H (D t p) <> None.

  Hypothesis HT : H_tokens content H.
  Hypothesis HI : H_injective content H.
  Hypothesis HL : locals_ok tree locals.
  Hypothesis Gidem : gen_idem.
  Hypothesis Gcomm : gen_comm.
  Hypothesis Glocal : gen_local.
  Hypothesis Gloc : gen_keeps_locals.
  Hypothesis Hhash : all_hashable.

  Definition plain_run (a : runargs) : Prop := r_all a = true /\ r_force a = false /\ r_fail a = None.

  Lemma fold_gen_locals : forall S t e, locals (fold_left gen S t) e = locals t e.
  Proof.
    induction S as [|p S IH]; intros t e; [reflexivity|].
    cbn [fold_left]. rewrite IH. apply Gloc.
  Qed.

  Lemma gen_fold_comm : forall S t q, gen (fold_left gen S t) q = fold_left gen S (gen t q).
  Proof.
    induction S as [|p S IH]; intros t q; [reflexivity|].
    cbn [fold_left]. rewrite IH. rewrite Gcomm. reflexivity.
  Qed.

  Lemma gen_absorbed : forall S t q, In q S -> gen (fold_left gen S t) q = fold_left gen S t.
  Proof.
    induction S as [|p S IH]; intros t q Hin; [contradiction|].
    cbn [fold_left]. destruct Hin as [E|Hin].
    - subst p. rewrite gen_fold_comm. rewrite Gidem. reflexivity.
    - apply IH. exact Hin.
  Qed.

  Lemma fold_absorbed : forall S' S t, incl S' S -> fold_left gen S' (fold_left gen S t) = fold_left gen S t.
  Proof.
    induction S' as [|q S' IH]; intros S t Hincl; [reflexivity|].
    cbn [fold_left]. rewrite gen_absorbed by (apply Hincl; left; reflexivity).
    apply IH. intros x Hx. apply Hincl. right. exact Hx.
  Qed.

  Lemma fold_gen_outside : forall S t p,
    (forall q, In q S -> ~ contains p q) -> D (fold_left gen S t) p = D t p.
  Proof.
    induction S as [|q S IH]; intros t p Hout; [reflexivity|].
    cbn [fold_left]. rewrite IH by (intros x Hx; apply Hout; right; exact Hx).
    destruct (Glocal t q p) as [Hc|E]; [|exact E].
    exfalso. apply (Hout q); [left; reflexivity|exact Hc].
  Qed.

  (* one plain All run from a state whose gengo.sum was written by the previous one *)
  Definition hsh (t : tree) (p : bytes) : bytes := match H (D t p) with Some h => h | None => [] end.

  Lemma hsh_nonempty : forall t p, hsh t p <> [].
  Proof.
    intros t p. unfold hsh. destruct (H (D t p)) as [h|] eqn:E.
    - pose proof (HT _ _ E) as Htok. unfold token_ok in Htok. destruct h; [discriminate|discriminate].
    - exfalso. apply (Hhash t p). exact E.
  Qed.

  Lemma hsh_eq_D : forall t t' p, hsh t p = hsh t' p -> D t p = D t' p.
  Proof.
    intros t t' p E. unfold hsh in E.
    destruct (H (D t p)) as [h|] eqn:E1; [|exfalso; apply (Hhash t p); exact E1].
    destruct (H (D t' p)) as [h'|] eqn:E2; [|exfalso; apply (Hhash t' p); exact E2].
    subst h'. eapply HI; eassumption.
  Qed.

  Variable a : runargs.
  Hypothesis Ha : plain_run a.
  Variable loc : list (bytes * bool).
  Hypothesis Hdirect : existsb snd loc = true.
  Notation L := (map fst (sort_by fst loc)).

  Definition cur (t : tree) : sum := current_sum fixed_all {| st_tree := t; st_sum := SumMissing |} loc.

  Lemma cur_any_sum : forall t s, current_sum fixed_all {| st_tree := t; st_sum := s |} loc = cur t.
  Proof. reflexivity. Qed.

  Lemma L_local : forall p, In p L -> In p (map fst loc).
  Proof.
    intros p Hin. eapply Permutation_in; [|exact Hin]. apply Permutation_map. apply sort_by_perm.
  Qed.

  Definition chg (tprev t : tree) (p : bytes) : bool := negb (bytes_eqb (hsh tprev p) (hsh t p)).

  (* a run that finds the file written for tree [tprev] *)
  Lemma run_after : forall tprev t,
    locals t (r_entry a) = loc ->
    run fixed_all a {| st_tree := t; st_sum := SumFile (sumfile_bytes (cur tprev)) |}
    = ({| st_tree := fold_left gen (filter (chg tprev t) L) t; st_sum := SumFile (sumfile_bytes (cur t)) |},
       (map (fun p => if chg tprev t p then EvExec p else EvSkip p) L, ENone)).
  Proof.
    intros tprev t Hloc. destruct Ha as [Hall [Hforce Hfail]].
    rewrite run_unfold. unfold run_loop, run_loc. cbn [st_tree st_sum]. rewrite Hloc.
    rewrite pkg_loop_plain by assumption.
    set (pc := pkg_changed fixed_all a _ _).
    assert (Hpc : forall p, In p L -> pc p = chg tprev t p).
    { intros p Hin. unfold pc, pkg_changed. rewrite Hforce.
      unfold SumCache.previous_sum. rewrite Hall, Hdirect. cbn [andb st_sum fx_empty fixed_all].
      rewrite cur_any_sum.
      assert (Hk : kv_ok (cur tprev)).
      { destruct (HL t (r_entry a)) as [ND HF]. rewrite Hloc in ND, HF. split.
        - unfold cur. rewrite current_sum_keys. exact ND.
        - unfold cur, SumCache.current_sum. apply Forall_forall. intros kv Hkv.
          apply in_map_iff in Hkv. destruct Hkv as [pd [E Hpd]]. subst kv. cbn [fst snd]. split.
          + rewrite Forall_forall in HF. apply HF. apply in_map. exact Hpd.
          + apply hash_of_plain. exact HT. }
      rewrite load_bytes_sum by exact Hk.
      unfold cur. rewrite !sum_sum_current_in by (apply L_local; exact Hin).
      rewrite !hash_of_fixed. cbn [st_tree]. fold (hsh t p). fold (hsh tprev p).
      destruct (hsh t p) eqn:E; [exfalso; exact (hsh_nonempty t p E)|].
      cbn [is_nil orb]. unfold chg. rewrite E. reflexivity. }
    rewrite (filter_ext_in pc (chg tprev t) L Hpc).
    rewrite (map_ext_in _ (fun p => if chg tprev t p then EvExec p else EvSkip p) L)
      by (intros p Hin; rewrite (Hpc p Hin); reflexivity).
    rewrite failed_plain. rewrite Hall. rewrite cur_any_sum. reflexivity.
  Qed.

  (* the first run: whatever gengo.sum was (missing, damaged, stale), as long as it can be written *)
  Lemma run_first : forall s0,
    locals (st_tree s0) (r_entry a) = loc -> st_sum s0 <> SumUnreadable ->
    exists X, run fixed_all a s0
              = ({| st_tree := fold_left gen X (st_tree s0); st_sum := SumFile (sumfile_bytes (cur (st_tree s0))) |},
                 (map (fun p => if existsb (fun x => bytes_eqb x p) X then EvExec p else EvSkip p) L, ENone))
              /\ incl X L.
  Proof.
    intros s0 Hloc Hs. destruct Ha as [Hall [Hforce Hfail]].
    rewrite run_unfold. unfold run_loop, run_loc. rewrite Hloc.
    rewrite pkg_loop_plain by assumption.
    set (pc := pkg_changed fixed_all a _ _).
    exists (filter pc L). split.
    - rewrite (map_ext_in _ (fun p => if existsb (fun x => bytes_eqb x p) (filter pc L) then EvExec p else EvSkip p) L).
      + rewrite failed_plain, Hall.
        destruct s0 as [t0 s]. cbn [st_tree st_sum] in *. destruct s; try reflexivity. exfalso. apply Hs. reflexivity.
      + intros p Hin. destruct (pc p) eqn:E.
        * assert (Hex : existsb (fun x => bytes_eqb x p) (filter pc L) = true).
          { apply existsb_bytes_in. apply filter_In. split; assumption. }
          rewrite Hex. reflexivity.
        * assert (Hex : existsb (fun x => bytes_eqb x p) (filter pc L) = false).
          { destruct (existsb (fun x => bytes_eqb x p) (filter pc L)) eqn:E2; [|reflexivity].
            apply existsb_bytes_in in E2. apply filter_In in E2. destruct E2 as [_ E2]. congruence. }
          rewrite Hex. reflexivity.
    - intros x Hx. apply filter_In in Hx. tauto.
  Qed.

  Lemma filter_chg_same : forall t l, filter (chg t t) l = [].
  Proof.
    intros t. induction l as [|p l IH]; [reflexivity|].
    cbn [filter]. unfold chg at 1. rewrite bytes_eqb_refl. cbn [negb]. exact IH.
  Qed.

  Theorem converges : forall s0,
    locals (st_tree s0) (r_entry a) = loc -> st_sum s0 <> SumUnreadable ->
    let s1 := fst (run fixed_all a s0) in
    let s2 := fst (run fixed_all a s1) in
    let s3 := fst (run fixed_all a s2) in
    fst (run fixed_all a s3) = s3
    /\ executed (fst (snd (run fixed_all a s3))) = []
    /\ snd (snd (run fixed_all a s3)) = ENone.
  Proof.
    intros s0 Hloc0 Hs0.
    destruct (run_first s0 Hloc0 Hs0) as [X1 [R1 _]].
    set (t0 := st_tree s0) in *.
    set (t1 := fold_left gen X1 t0) in *.
    assert (Hloc1 : locals t1 (r_entry a) = loc) by (unfold t1; rewrite fold_gen_locals; exact Hloc0).
    cbn zeta. rewrite R1. cbn [fst].
    rewrite (run_after t0 t1 Hloc1). cbn [fst].
    set (X2 := filter (chg t0 t1) L).
    set (t2 := fold_left gen X2 t1).
    assert (Hloc2 : locals t2 (r_entry a) = loc) by (unfold t2; rewrite fold_gen_locals; exact Hloc1).
    rewrite (run_after t1 t2 Hloc2). cbn [fst].
    set (X3 := filter (chg t1 t2) L).
    (* every package the third run executes was executed by the second *)
    assert (H32 : incl X3 X2).
    { intros p Hp. unfold X3 in Hp. apply filter_In in Hp. destruct Hp as [HpL Hc3].
      unfold X2. apply filter_In. split; [exact HpL|].
      destruct (chg t0 t1 p) eqn:Hc2; [reflexivity|]. exfalso.
      unfold chg in Hc2. apply negb_false_iff in Hc2. apply bytes_eqb_spec in Hc2.
      assert (HD01 : D t0 p = D t1 p) by (apply hsh_eq_D; exact Hc2).
      assert (HD12 : D t2 p = D t1 p).
      { unfold t2. apply fold_gen_outside. intros q Hq Hcont.
        unfold X2 in Hq. apply filter_In in Hq. destruct Hq as [_ Hcq].
        unfold chg in Hcq. apply negb_true_iff in Hcq.
        assert (Eq : hsh t0 q = hsh t1 q).
        { unfold hsh. rewrite (Hcont t0 t1 HD01). reflexivity. }
        rewrite Eq in Hcq. rewrite bytes_eqb_refl in Hcq. discriminate. }
      unfold chg in Hc3. apply negb_true_iff in Hc3.
      assert (Eq : hsh t1 p = hsh t2 p) by (unfold hsh; rewrite HD12; reflexivity).
      rewrite Eq in Hc3. rewrite bytes_eqb_refl in Hc3. discriminate. }
    assert (Ht3 : fold_left gen X3 t2 = t2) by (unfold t2; apply fold_absorbed; exact H32).
    rewrite Ht3.
    rewrite (run_after t2 t2 Hloc2). cbn [fst snd].
    assert (Hno : filter (chg t2 t2) L = []) by apply filter_chg_same.
    rewrite Hno. cbn [fold_left]. split; [reflexivity|]. split; [|reflexivity].
    rewrite executed_plain. exact Hno.
  Qed.
End Converge.

(* ---------- corollaries in the shape the property is worded ---------- *)
Section Corollaries.
  Variables tree content : Type.
  Variable H : content -> option bytes.
  Variable dirc : tree -> option bytes -> bytes -> content.
  Variable gen : tree -> bytes -> tree.
  Variable locals : tree -> list bytes -> list (bytes * bool).

  Notation hash_of := (hash_of tree content H dirc).
  Notation current_sum := (current_sum tree content H dirc).
  Notation run := (run tree content H dirc gen locals).
  Notation D := (D tree content dirc).

  (* a package gengo.sum has no entry for is regenerated (repaired comparison) *)
  Lemma run_missing_entry : forall fx a st p b,
    fx_empty fx = true ->
    In p (visited (fst (snd (run fx a st)))) ->
    st_sum st = SumFile b -> sum_get (sumfile_load b) p = None ->
    In p (executed (fst (snd (run fx a st)))).
  Proof.
    intros fx a st p b Hfx Hv Hs Hg. apply run_regenerates; [exact Hv|].
    right. right. right.
    destruct (hash_of fx st p) as [|c h] eqn:E.
    - right. split; [assumption|reflexivity].
    - left. exists b. split; [exact Hs|]. unfold sum_sum. rewrite Hg. discriminate.
  Qed.

  (* any difference between the directory now and the directory the recorded hashes were taken from *)
  Lemma run_changed_dir : forall a1 s1 a2 s2 p,
    H_tokens content H -> H_injective content H -> locals_ok tree locals ->
    st_sum s2 = SumFile (sumfile_bytes (current_sum fixed_all s1 (run_loc tree locals a1 s1))) ->
    In p (visited (fst (snd (run fixed_all a2 s2)))) ->
    D (st_tree s2) p <> D (st_tree s1) p ->
    In p (executed (fst (snd (run fixed_all a2 s2)))).
  Proof.
    intros a1 s1 a2 s2 p HT HI HL Hs Hv Hd. apply visited_split in Hv. destruct Hv as [Hv|Hv]; [exact Hv|].
    exfalso. apply Hd.
    destruct (skip_after_write tree content H dirc gen locals a1 s1 a2 s2 p HT HI HL Hs Hv) as [_ [_ HD]].
    exact HD.
  Qed.

  (* gengo.sum after a successful All run: one "path hash" line per local package, sorted, load-time hashes;
     whatever order the package map was iterated in *)
  Lemma run_saved_exact : forall fx a st,
    r_all a = true -> snd (snd (run fx a st)) = ENone -> NoDup (map fst (locals (st_tree st) (r_entry a))) ->
    exists order,
      Permutation order (map fst (locals (st_tree st) (r_entry a)))
      /\ StronglySorted (fun x y => bytes_leb x y = true) order /\ NoDup order
      /\ st_sum (fst (run fx a st))
         = SumFile (flat_map (fun p => p ++ sp :: hash_of fx st p ++ [nl]) order).
  Proof.
    intros fx a st Hall Herr ND.
    exists (sort_keys (map fst (locals (st_tree st) (r_entry a)))).
    split; [apply sort_keys_perm|]. split; [apply sort_keys_sorted|]. split.
    - eapply Permutation_NoDup; [apply Permutation_sym, sort_keys_perm|exact ND].
    - rewrite run_saved by assumption. rewrite saved_lines. reflexivity.
  Qed.

  Lemma saved_bytes_perm : forall fx st loc loc',
    Permutation loc loc' -> NoDup (map fst loc) ->
    sumfile_bytes (current_sum fx st loc) = sumfile_bytes (current_sum fx st loc').
  Proof.
    intros fx st loc loc' HP ND. apply sumfile_bytes_perm.
    - apply current_sum_perm. exact HP.
    - rewrite current_sum_keys. exact ND.
  Qed.
End Corollaries.

(* Execute does not look at its context: whenever the caller cancels it, the run is the ordinary run. *)
Lemma run_ctx_is_run :
  forall (tree content : Type) (H : content -> option bytes) (dirc : tree -> option bytes -> bytes -> content)
         (gen : tree -> bytes -> tree) (locals : tree -> list bytes -> list (bytes * bool))
         (fx : fixes) (c : ctxstate) (a : runargs) (st : state tree),
    run_ctx tree content H dirc gen locals fx c a st = run tree content H dirc gen locals fx a st.
Proof. reflexivity. Qed.
