(* Two small concrete worlds for the cache state machine:
   - [Good]: two sibling packages; every hypothesis of the C08 theorems is PROVED for it (so the theorems
     are not vacuous) and a history is evaluated on it;
   - [Bad]: one package at the module root whose directory may be unhashable; the witnesses that refute the
     full statements for the code as it was before the two "fix:" patches. *)
Require Import Gengo.Base.Bytes Gengo.Model.SumFile Gengo.Model.SumCache Gengo.Proofs.SumFile Gengo.Proofs.SumCache.

Definition one : ascii := ascii_of_N 49.     (* '1' *)
Definition xx : ascii := ascii_of_N 120.     (* 'x' *)
Definition hh : ascii := ascii_of_N 104.     (* 'h' *)

Lemma forallb_repeat_plain : forall n, forallb plain (repeat one n) = true.
Proof. induction n as [|n IH]; [reflexivity|]. cbn [repeat forallb]. rewrite IH. reflexivity. Qed.

Lemma forallb_app' : forall (f : ascii -> bool) a b, forallb f (a ++ b) = forallb f a && forallb f b.
Proof. intros f a b. apply forallb_app. Qed.

(* unary numbers separated by 'x' are read back uniquely *)
Lemma unary_inj : forall n m r r', repeat one n ++ xx :: r = repeat one m ++ xx :: r' -> n = m /\ r = r'.
Proof.
  induction n as [|n IH]; intros m r r' E.
  - destruct m as [|m]; cbn in E.
    + inversion E. split; reflexivity.
    + inversion E.
  - destruct m as [|m]; cbn in E.
    + inversion E.
    + inversion E as [E']. destruct (IH _ _ _ E') as [E1 E2]. subst. split; reflexivity.
Qed.

Lemma repeat_inj : forall n m, repeat one n = repeat one m -> n = m.
Proof.
  intros n m E. apply (f_equal (@length _)) in E. rewrite !repeat_length in E. exact E.
Qed.

Module Good.
  Definition pa : bytes := bs "m/a".
  Definition pb : bytes := bs "m/b".

  (* per package: (version of the sources, what the generated file was generated from + 1; 0 = no generated file) *)
  Definition tree := ((nat * nat) * (nat * nat))%type.
  Definition content := (nat * nat)%type.

  Definition H (c : content) : option bytes := Some (hh :: repeat one (fst c) ++ xx :: repeat one (snd c)).

  Definition dirc (t : tree) (_ : option bytes) (p : bytes) : content :=
    if bytes_eqb p pa then fst t else if bytes_eqb p pb then snd t else (0, 0).

  Definition gen (t : tree) (p : bytes) : tree :=
    if bytes_eqb p pa then ((fst (fst t), S (fst (fst t))), snd t)
    else if bytes_eqb p pb then (fst t, (fst (snd t), S (fst (snd t))))
    else t.

  Definition locals (_ : tree) (_ : list bytes) : list (bytes * bool) := [(pb, true); (pa, true)].

  Lemma H_tokens_ok : H_tokens content H.
  Proof.
    intros c h E. unfold H in E. inversion E; subst h. unfold token_ok. cbn [is_nil negb andb forallb].
    rewrite forallb_app'. cbn [forallb]. rewrite !forallb_repeat_plain. reflexivity.
  Qed.

  Lemma H_injective_ok : H_injective content H.
  Proof.
    intros [x1 y1] [x2 y2] h E1 E2. unfold H in *. cbn [fst snd] in *.
    rewrite <- E2 in E1. inversion E1 as [E]. apply unary_inj in E. destruct E as [Ex Ey].
    apply repeat_inj in Ey. subst. reflexivity.
  Qed.

  Lemma locals_ok_ok : locals_ok tree locals.
  Proof.
    intros t e. unfold locals. cbn [map fst]. split.
    - constructor; [|constructor; [intros []|constructor]].
      intros [E|[]]. discriminate E.
    - repeat constructor.
  Qed.

  Lemma gen_idem_ok : gen_idem tree gen.
  Proof.
    intros t p. unfold gen. destruct (bytes_eqb p pa) eqn:Ea; [reflexivity|].
    destruct (bytes_eqb p pb); reflexivity.
  Qed.

  Lemma gen_comm_ok : gen_comm tree gen.
  Proof.
    intros t p q. unfold gen.
    destruct (bytes_eqb p pa) eqn:Ea; destruct (bytes_eqb q pa) eqn:Eb;
      destruct (bytes_eqb p pb) eqn:Ec; destruct (bytes_eqb q pb) eqn:Ed; try reflexivity.
  Qed.

  Lemma gen_local_ok : gen_local tree content dirc gen.
  Proof.
    intros t p q. unfold D, dirc, gen.
    destruct (bytes_eqb q pa) eqn:Eqa.
    - destruct (bytes_eqb p pa) eqn:Epa.
      + left. apply bytes_eqb_spec in Eqa, Epa. subst. intros t1 t2 E. exact E.
      + right. destruct (bytes_eqb p pb); reflexivity.
    - destruct (bytes_eqb q pb) eqn:Eqb.
      + destruct (bytes_eqb p pa) eqn:Epa; [right; reflexivity|].
        destruct (bytes_eqb p pb) eqn:Epb; [|right; reflexivity].
        left. apply bytes_eqb_spec in Eqb, Epb. subst. intros t1 t2 E. exact E.
      + right. reflexivity.
  Qed.

  Lemma gen_keeps_locals_ok : gen_keeps_locals tree gen locals.
  Proof. intros t p e. reflexivity. Qed.

  Lemma all_hashable_ok : all_hashable tree content H dirc.
  Proof. intros t p. unfold H. discriminate. Qed.

  Definition run := run tree content H dirc gen locals fixed_all.
  Definition exec := exec tree content H dirc gen locals fixed_all.
  Definition all_run : runargs := {| r_all := true; r_force := false; r_entry := []; r_fail := None |}.
  Definition st0 : state tree := {| st_tree := ((1, 0), (1, 0)); st_sum := SumMissing |}.
  Definition edit_a (t : tree) : tree := ((S (fst (fst t)), snd (fst t)), snd t).

  (* which packages each of the runs executes in: run, run, run, edit a, run, run, run *)
  Definition demo : list (list bytes) :=
    let r s := executed (fst (snd (run all_run s))) in
    let s1 := exec st0 [Run all_run] in
    let s2 := exec s1 [Run all_run] in
    let s3 := exec s2 [Run all_run] in
    let s4 := exec s3 [Edit edit_a; Run all_run] in
    let s5 := exec s4 [Run all_run] in
    [r st0; r s1; r s2; r s3; r (exec s3 [Edit edit_a]); r s4; r s5].
End Good.

Module Bad.
  Definition pm : bytes := bs "m".

  (* (sources, generated-from + 1, a dangling symlink is present) *)
  Definition tree := ((nat * nat) * bool)%type.
  Definition content := option (nat * nat * nat).

  Definition H (c : content) : option bytes :=
    match c with
    | None => None
    | Some (x, y, z) => Some (hh :: repeat one x ++ xx :: repeat one y ++ xx :: repeat one z)
    end.

  (* the package is at the module root: gengo.sum is one of the files below its directory *)
  Definition dirc (t : tree) (sumb : option bytes) (_ : bytes) : content :=
    if snd t then None
    else Some (fst (fst t), snd (fst t), match sumb with Some b => S (length b) | None => 0 end).

  Definition gen (t : tree) (_ : bytes) : tree := ((fst (fst t), S (fst (fst t))), snd t).
  Definition locals (_ : tree) (_ : list bytes) : list (bytes * bool) := [(pm, true)].

  Definition run := run tree content H dirc gen locals.
  Definition step := step tree content H dirc gen locals.
  Definition all_run : runargs := {| r_all := true; r_force := false; r_entry := []; r_fail := None |}.
  Definition edit (t : tree) : tree := ((S (fst (fst t)), snd (fst t)), snd t).

  Definition only_empty_unfixed : fixes := {| fx_empty := false; fx_rootsum := true |}.
  Definition only_rootsum_unfixed : fixes := {| fx_empty := true; fx_rootsum := false |}.

  Definition dangling0 : state tree := {| st_tree := ((1, 0), true); st_sum := SumMissing |}.
  Definition clean0 : state tree := {| st_tree := ((1, 0), false); st_sum := SumMissing |}.
End Bad.

(* the code before "fix: never treat a package whose directory could not be hashed as cached":
   run All, edit the sources, run All again — the package is skipped although its directory is not in the
   state the first run started from *)
Lemma skip_sound_refuted_unhashable :
  let s1 := Bad.dangling0 in
  let s2 := Bad.step Bad.only_empty_unfixed (Edit Bad.edit) (fst (Bad.run Bad.only_empty_unfixed Bad.all_run s1)) in
  good_run Bad.tree Bad.content Bad.H Bad.dirc Bad.gen Bad.locals Bad.only_empty_unfixed Bad.all_run s1
  /\ st_sum s2 = st_sum (fst (Bad.run Bad.only_empty_unfixed Bad.all_run s1))
  /\ In Bad.pm (skipped (fst (snd (Bad.run Bad.only_empty_unfixed Bad.all_run s2))))
  /\ fst (st_tree s2) <> fst (st_tree s1).
Proof.
  cbn zeta. split; [split; vm_compute; reflexivity|]. split; [vm_compute; reflexivity|].
  split; [vm_compute; left; reflexivity|]. vm_compute. discriminate.
Qed.

(* with the repair the same history regenerates the package *)
Lemma skip_sound_unhashable_fixed :
  let s1 := Bad.dangling0 in
  let s2 := Bad.step fixed_all (Edit Bad.edit) (fst (Bad.run fixed_all Bad.all_run s1)) in
  executed (fst (snd (Bad.run fixed_all Bad.all_run s2))) = [Bad.pm].
Proof. vm_compute. reflexivity. Qed.

(* the code before "fix: leave gengo.sum out of the directory hash of a package at the module root":
   every further run regenerates the root package and rewrites gengo.sum *)
Lemma converges_refuted_rootsum :
  let fx := Bad.only_rootsum_unfixed in
  let s1 := fst (Bad.run fx Bad.all_run Bad.clean0) in
  let s2 := fst (Bad.run fx Bad.all_run s1) in
  let s3 := fst (Bad.run fx Bad.all_run s2) in
  let s4 := fst (Bad.run fx Bad.all_run s3) in
  executed (fst (snd (Bad.run fx Bad.all_run s3))) = [Bad.pm]
  /\ st_sum s4 <> st_sum s3
  /\ executed (fst (snd (Bad.run fx Bad.all_run s4))) = [Bad.pm].
Proof.
  cbn zeta. split; [vm_compute; reflexivity|]. split; [vm_compute; discriminate|]. vm_compute. reflexivity.
Qed.

Lemma good_demo :
  Good.demo = [[Good.pa; Good.pb]; [Good.pa; Good.pb]; []; []; [Good.pa]; [Good.pa]; []].
Proof. vm_compute. reflexivity. Qed.
