(* C18 — non-vacuity witnesses for C18_types (Props/C18.v) and for the transfer theorem C18_copy_unshared with a
   CONCRETE [rec_spec] / [callees_as_ok]: an origin struct with eight fields — scalar, omitted slice, slice, map of a
   foreign scalar, foreign named, replaced struct field, error, same-package interface — whose replacement type Y is a
   struct with a slice and a map of its own, copied by a DeepCopyIntoAs method that is executed (C17's exec_into), not
   assumed. *)
Require Import Gengo.Base.Bytes.
Require Import Gengo.Model.Generators.
Require Gengo.Proofs.DeepCopy Gengo.Proofs.DeepCopySem Gengo.Proofs.DeepCopyTop Gengo.Proofs.GenPartialStruct.
Require Import Gengo.Proofs.Generators.
From Coq Require Import Lia NArith.

(* ================================================================================================================ *)
(* 1. C18_types: the rendered field types denote the origin's types through the file's import block                *)
(* ================================================================================================================ *)

Definition wt_time : bytes := bs "time".
Definition wt_lib : bytes := bs "example.com/m/lib".

(* the import block of the generated file: path -> the tracker's name (last segment), no clashes *)
Definition wt_imps : list (bytes * bytes) :=
  [(PP.w_origin, bs "origin"); (wt_time, bs "time"); (wt_lib, bs "lib")].

(* the origin struct: scalar, (omitted) slice, slice, map, foreign named, pointer to foreign named, replaced field,
   error, any, own-package type, nested containers, array *)
Definition wt_fields : list PS.field :=
  [ PS.mk_field (bs "A") (PS.TBasic (bs "int")) (of_string "json:""a""");
    PS.mk_field (bs "B") (PS.TSlice (PS.TBasic (bs "int"))) [];
    PS.mk_field (bs "S") (PS.TSlice (PS.TBasic (bs "string"))) [];
    PS.mk_field (bs "M") (PS.TMap (PS.TBasic (bs "string")) (PS.TNamed wt_lib (bs "Code") PS.UOther [])) [];
    PS.mk_field (bs "C") (PS.TMap (PS.TBasic (bs "string")) (PS.TSlice (PS.TPtr (PS.TNamed PP.w_origin (bs "Inner") PS.UStruct [])))) [];
    PS.mk_field (bs "D") (PS.TNamed wt_time (bs "Duration") PS.UOther []) [];
    PS.mk_field (bs "P") (PS.TPtr (PS.TNamed wt_time (bs "Time") PS.UStruct [])) [];
    PS.mk_field (bs "R") (PS.TArray 4 (PS.TNamed wt_lib (bs "Code") PS.UOther [])) [];
    PS.mk_field (bs "I") (PS.TNamed PP.w_origin (bs "Inner") PS.UStruct []) [];
    PS.mk_field (bs "E") PS.TError [];
    PS.mk_field (bs "G") PS.TAny [];
    PS.mk_field (bs "N") (PS.TNamed PP.w_target (bs "LIface") PS.UIface []) [] ].

Definition wt_ti : PS.tinput :=
  PS.mk_tinput (bs "x") true [(bs "x", PS.RSel (Some (PP.w_origin, bs "T")))] (Some wt_fields) [bs "B"] [bs "I:Y"].

Lemma wt_imps_ok :
  (forall p n, In (p, n) wt_imps -> n = PS.last_segment p) /\ NoDup (map snd wt_imps).
Proof.
  split.
  - intros p n H. cbn in H. repeat (destruct H as [H|H]; [inversion H; subst; vm_compute; reflexivity|]). contradiction.
  - repeat constructor; cbn; intuition discriminate.
Qed.

Lemma wt_types_hyps : forall f, In f wt_fields ->
  (PS.fx_errlit PS.all_fixed = true \/ PP.no_error (PS.f_ty f) = true) /\
  PS.has_iface_lit (PS.f_ty f) = false /\
  PP.imported PS.last_segment PP.w_target wt_imps (PS.f_ty f).
Proof.
  intros f Hin. split; [left; reflexivity|]. cbn in Hin.
  repeat (destruct Hin as [<-|Hin];
          [split; [reflexivity|];
           intros p Hp Hne; cbn in Hp;
           repeat (destruct Hp as [<-|Hp]; [try (vm_compute in Hne; discriminate); cbn; tauto|]); contradiction|]).
  contradiction.
Qed.

(* the theorem, instantiated on every field type of the origin *)
Lemma wt_types_denote : forall f, In f wt_fields ->
  PS.denotes wt_imps PP.w_target (fst (PS.type_lit PS.last_segment PP.w_target PS.all_fixed (PS.f_ty f))) (PS.f_ty f) = true.
Proof.
  intros f Hin. destruct (wt_types_hyps f Hin) as (He & Hi & Hm).
  exact (PP.type_lit_denotes PS.last_segment PP.w_target PS.all_fixed wt_imps (proj1 wt_imps_ok) (proj2 wt_imps_ok)
           (PS.f_ty f) He Hi Hm).
Qed.

(* what was generated: the omitted field is gone, the replaced one has the replacement type, the others are rendered
   with the import names, and the imports registered are the foreign packages mentioned *)
Definition wt_g : PS.gtype :=
  PS.mk_gtype (bs "X") (PS.OSel (bs "origin") (bs "T"))
    [ PS.mk_gfield (bs "A") (PS.OIdent (bs "int")) (of_string "json:""a""");
      PS.mk_gfield (bs "S") (PS.OSlice (PS.OIdent (bs "string"))) [];
      PS.mk_gfield (bs "M") (PS.OMap (PS.OIdent (bs "string")) (PS.OSel (bs "lib") (bs "Code"))) [];
      PS.mk_gfield (bs "C") (PS.OMap (PS.OIdent (bs "string")) (PS.OSlice (PS.OPtr (PS.OSel (bs "origin") (bs "Inner"))))) [];
      PS.mk_gfield (bs "D") (PS.OSel (bs "time") (bs "Duration")) [];
      PS.mk_gfield (bs "P") (PS.OPtr (PS.OSel (bs "time") (bs "Time"))) [];
      PS.mk_gfield (bs "R") (PS.OArray 4 (PS.OSel (bs "lib") (bs "Code"))) [];
      PS.mk_gfield (bs "I") (PS.OText (bs "Y")) [];
      PS.mk_gfield (bs "E") (PS.OIdent (bs "error")) [];
      PS.mk_gfield (bs "G") (PS.OIdent (bs "any")) [];
      PS.mk_gfield (bs "N") (PS.OIdent (bs "LIface")) [] ]
    [ PS.SAssign (bs "A");
      PS.SCopySlice (bs "S") (PS.OSlice (PS.OIdent (bs "string")));
      PS.SCopyMap (bs "M") (PS.OMap (PS.OIdent (bs "string")) (PS.OSel (bs "lib") (bs "Code")));
      PS.SCopyMap (bs "C") (PS.OMap (PS.OIdent (bs "string")) (PS.OSlice (PS.OPtr (PS.OSel (bs "origin") (bs "Inner")))));
      PS.SAssign (bs "D"); PS.SAssign (bs "P"); PS.SAssign (bs "R");
      PS.SCallInto (bs "I") (bs "DeepCopyIntoAs");
      PS.SAssign (bs "E"); PS.SAssign (bs "G"); PS.SAssign (bs "N") ].

Lemma wt_generated :
  PS.generate_type PS.last_segment PP.w_target PS.all_fixed wt_ti =
  PS.TGen wt_g [wt_lib; PP.w_origin; wt_time; wt_time; wt_lib; PP.w_origin; wt_lib; PP.w_origin].
Proof. vm_compute. reflexivity. Qed.

(* every rendered field type of the generated struct that was not replaced denotes the origin field's type *)
Lemma wt_generated_fields_denote :
  forallb (fun f => match find (fun gf => bytes_eqb (PS.gf_name gf) (PS.f_name f)) (PS.g_fields wt_g) with
                    | Some gf => bytes_eqb (PS.f_name f) (bs "I") || PS.denotes wt_imps PP.w_target (PS.gf_ty gf) (PS.f_ty f)
                    | None => bytes_eqb (PS.f_name f) (bs "B")
                    end) wt_fields = true.
Proof. vm_compute. reflexivity. Qed.

(* ================================================================================================================ *)
(* 2. C18_copy_unshared with concrete rec_spec / callees_as_ok                                                      *)
(* ================================================================================================================ *)

(* the origin (fields inside the common domain of the two models of the copy helper): scalar, omitted slice, slice, map
   of a foreign scalar, foreign named, struct replaced by Y, error, same-package interface *)
Definition wh_fields : list PS.field :=
  [ PS.mk_field (bs "A") (PS.TBasic (bs "int")) [];
    PS.mk_field (bs "B") (PS.TSlice (PS.TBasic (bs "int"))) [];
    PS.mk_field (bs "S") (PS.TSlice (PS.TBasic (bs "string"))) [];
    PS.mk_field (bs "M") (PS.TMap (PS.TBasic (bs "string")) (PS.TNamed wt_lib (bs "Code") PS.UOther [])) [];
    PS.mk_field (bs "D") (PS.TNamed wt_time (bs "Duration") PS.UOther []) [];
    PS.mk_field (bs "I") (PS.TNamed PP.w_origin (bs "Inner") PS.UStruct []) [];
    PS.mk_field (bs "E") PS.TError [];
    PS.mk_field (bs "N") (PS.TNamed PP.w_target (bs "LIface") PS.UIface []) [] ].
Definition wh_ti : PS.tinput :=
  PS.mk_tinput (bs "x") true [(bs "x", PS.RSel (Some (PP.w_origin, bs "T")))] (Some wh_fields) [bs "B"] [bs "I:Y"].
Definition wh_repl := PS.replace_map (PS.ti_replace wh_ti) [].

Definition wh_g : PS.gtype :=
  PS.mk_gtype (bs "X") (PS.OSel (bs "origin") (bs "T"))
    [ PS.mk_gfield (bs "A") (PS.OIdent (bs "int")) [];
      PS.mk_gfield (bs "S") (PS.OSlice (PS.OIdent (bs "string"))) [];
      PS.mk_gfield (bs "M") (PS.OMap (PS.OIdent (bs "string")) (PS.OSel (bs "lib") (bs "Code"))) [];
      PS.mk_gfield (bs "D") (PS.OSel (bs "time") (bs "Duration")) [];
      PS.mk_gfield (bs "I") (PS.OText (bs "Y")) [];
      PS.mk_gfield (bs "E") (PS.OIdent (bs "error")) [];
      PS.mk_gfield (bs "N") (PS.OIdent (bs "LIface")) [] ]
    [ PS.SAssign (bs "A");
      PS.SCopySlice (bs "S") (PS.OSlice (PS.OIdent (bs "string")));
      PS.SCopyMap (bs "M") (PS.OMap (PS.OIdent (bs "string")) (PS.OSel (bs "lib") (bs "Code")));
      PS.SAssign (bs "D");
      PS.SCallInto (bs "I") (bs "DeepCopyIntoAs");
      PS.SAssign (bs "E"); PS.SAssign (bs "N") ].

(* the generated struct X in C17's terms, the replacement type Y — a struct with containers of its own —, the interface *)
Definition wh_cfs : list (bytes * DC.fty) :=
  [ (bs "A", DC.FBasic (bs "int")); (bs "S", DC.FSlice (DC.EBasic (bs "string")));
    (bs "M", DC.FMap (bs "string") (DC.EForeign (bs "lib") (bs "Code")));
    (bs "D", DC.FForeign []);
    (bs "I", DC.FNamed (bs "Y") []); (bs "E", DC.FError); (bs "N", DC.FNamed (bs "LIface") []) ].
Definition wh_yfs : list (bytes * DC.fty) :=
  [ (bs "P", DC.FSlice (DC.EBasic (bs "int"))); (bs "Q", DC.FBasic (bs "int"));
    (bs "K", DC.FMap (bs "string") (DC.EBasic (bs "int"))) ].
Definition wh_G : DC.pkg :=
  DC.mk_pkg false
    [ DC.mk_decl (bs "X") (DC.DStruct [] wh_cfs) false None [];
      DC.mk_decl (bs "Y") (DC.DStruct [] wh_yfs) false None [];
      DC.mk_decl (bs "LIface") DC.DIface false None [] ].

(* the methods that exist: Y's DeepCopyIntoAs, with the body the copy helper gives for Y's fields *)
Definition wh_ybody : list DC.stmt :=
  [ DC.SCopySlice (bs "P") (bs "[]int"); DC.SAssign (bs "Q"); DC.SCopyMap (bs "K") (bs "map[string]int") ].
Definition wh_ms : list DC.method := [DC.MPtrInto (bs "Y") [] wh_ybody].

Lemma wh_generated :
  PS.generate_type PS.last_segment PP.w_target PS.all_fixed wh_ti = PS.TGen wh_g [wt_lib; wt_time; PP.w_origin; wt_lib] /\
  fields17 PS.last_segment PP.w_target PS.all_fixed wh_repl (filter (keep (PS.ti_omit wh_ti)) wh_fields) = Some wh_cfs /\
  DC.lookup wh_G (PS.g_name wh_g) = Some (DC.mk_decl (bs "X") (DC.DStruct [] wh_cfs) false None []).
Proof. split; [vm_compute; reflexivity|]. split; vm_compute; reflexivity. Qed.

Lemma wh_agrees : forall f, In f wh_fields -> keep (PS.ti_omit wh_ti) f = true ->
  agrees_field PP.w_target wh_G wh_repl f.
Proof.
  intros f Hin Hk. cbn in Hin.
  repeat (destruct Hin as [<-|Hin]; [try (vm_compute in Hk; discriminate)|]); try contradiction; try exact I.
  - unfold agrees_field. vm_compute. eexists. split; [reflexivity|]. split; [right; eauto|reflexivity].
  - unfold agrees_field. cbn. intros _. split; [|reflexivity]. vm_compute. eexists. split; [reflexivity|]. split; [exact I|reflexivity].
Qed.

Lemma wh_dom : PDS.dom wh_G.
Proof. apply Gengo.Proofs.DeepCopyTop.dom_b_sound. vm_compute. reflexivity. Qed.

Lemma wh_callees_ok : PDS.callees_ok wh_G wh_ms.
Proof.
  intros n body H. cbn [wh_ms DC.find_into] in H.
  destruct (bytes_eqb (bs "Y") n) eqn:E; [|discriminate]. apply bytes_eqb_spec in E. subst n.
  inversion H; subst body. eexists. split; [vm_compute; reflexivity|]. right.
  exists [], wh_yfs, []. split; [reflexivity|]. split; [vm_compute; reflexivity|].
  intros f c args Hin. cbn in Hin. repeat (destruct Hin as [Hin|Hin]; [discriminate|]). contradiction.
Qed.

(* [rec_spec] holds of the EXECUTED methods, for every call-depth bound *)
Lemma wh_rec_spec : forall fuel, PDS.rec_spec wh_G wh_ms (DC.exec_into fuel wh_G wh_ms) fuel.
Proof. exact (PDS.exec_into_spec wh_G wh_ms wh_dom wh_callees_ok). Qed.

Lemma wh_callees_as_ok : callees_as_ok wh_G wh_ms wh_cfs.
Proof.
  intros f c0 args Hin. cbn in Hin.
  repeat (destruct Hin as [Hin|Hin]; [try discriminate; inversion Hin; subst f c0 args|]); try contradiction.
  - split; [intros Hm; vm_compute in Hm; discriminate|]. intros dc _ _. vm_compute. discriminate.
  - split; [intros Hm; vm_compute in Hm; discriminate|]. intros dc Hdc Hk. vm_compute in Hdc. inversion Hdc; subst dc.
    destruct Hk as [Hk|[tp [fs Hk]]]; discriminate.
Qed.

(* the theorem, instantiated: every heap, every well-typed value of X *)
Lemma wh_transfer : forall fuel h,
  deep_copy_as_heap (DC.exec_into fuel wh_G wh_ms) wh_G wh_ms wh_g None h = Ok (None, h) /\
  forall fin, PDS.wt_fields wh_G h wh_cfs fin -> PDS.depth_fields fin < fuel ->
    exists fout t,
      deep_copy_as_heap (DC.exec_into fuel wh_G wh_ms) wh_G wh_ms wh_g (Some fin) h = Ok (Some (DC.VStruct fout), h ++ t) /\
      DC.snapshot (h ++ t) (DC.VStruct fout) = DC.snapshot h (DC.VStruct fin) /\
      (forall a, In a (DC.locs (DC.VStruct fout)) -> List.length h <= a < List.length (h ++ t)) /\
      (forall a cell, In a (DC.locs (DC.VStruct fout)) ->
         DC.snapshot (DC.write (h ++ t) a cell) (DC.VStruct fin) = DC.snapshot h (DC.VStruct fin)).
Proof.
  intros fuel.
  exact (copy_as_transfer PS.last_segment PP.w_target PS.all_fixed eq_refl wh_ti wh_g _ wh_fields wh_G wh_ms
           (DC.exec_into fuel wh_G wh_ms) fuel wh_cfs _ []
           (proj1 wh_generated) eq_refl (proj1 (proj2 wh_generated)) wh_agrees wh_dom
           (proj2 (proj2 wh_generated)) eq_refl (wh_rec_spec fuel) wh_callees_as_ok).
Qed.

(* a value: filled slice and map in X, filled slice and map inside the replaced struct *)
Definition wh_heap : DC.heap := [DC.CSlice [1; 2]%N; DC.CMap [(3, 4)]%N; DC.CSlice [9; 8; 7]%N; DC.CMap [(5, 6)]%N].
Definition wh_fin : list (bytes * DC.value) :=
  [ (bs "A", DC.VScalar 7); (bs "S", DC.VSlice (Some 0)); (bs "M", DC.VMap (Some 1)); (bs "D", DC.VScalar 3600);
    (bs "I", DC.VStruct [(bs "P", DC.VSlice (Some 2)); (bs "Q", DC.VScalar 5); (bs "K", DC.VMap (Some 3))]);
    (bs "E", DC.VIface 5); (bs "N", DC.VIface 6) ].

Lemma wh_fin_typed : PDS.wt_fields wh_G wh_heap wh_cfs wh_fin /\ PDS.depth_fields wh_fin < 3.
Proof. split; [vm_compute; repeat split; eauto|vm_compute; lia]. Qed.

Lemma wh_instance :
  exists fout t,
    deep_copy_as_heap (DC.exec_into 3 wh_G wh_ms) wh_G wh_ms wh_g (Some wh_fin) wh_heap
      = Ok (Some (DC.VStruct fout), wh_heap ++ t) /\
    DC.snapshot (wh_heap ++ t) (DC.VStruct fout) = DC.snapshot wh_heap (DC.VStruct wh_fin) /\
    (forall a, In a (DC.locs (DC.VStruct fout)) -> List.length wh_heap <= a < List.length (wh_heap ++ t)) /\
    (forall a cell, In a (DC.locs (DC.VStruct fout)) ->
       DC.snapshot (DC.write (wh_heap ++ t) a cell) (DC.VStruct wh_fin) = DC.snapshot wh_heap (DC.VStruct wh_fin)).
Proof. exact (proj2 (wh_transfer 3 wh_heap) wh_fin (proj1 wh_fin_typed) (proj2 wh_fin_typed)). Qed.

(* and computed: nil gives nil; four fresh cells (4..7), two of them inside the replaced struct; a write through the
   copy's inner map leaves the original as it was, while the same write through the ORIGINAL's cell does not *)
Lemma wh_computed :
  deep_copy_as_heap (DC.exec_into 3 wh_G wh_ms) wh_G wh_ms wh_g None wh_heap = Ok (None, wh_heap) /\
  match deep_copy_as_heap (DC.exec_into 3 wh_G wh_ms) wh_G wh_ms wh_g (Some wh_fin) wh_heap with
  | Ok (Some v', h') =>
      DC.snapshot h' v' = DC.snapshot wh_heap (DC.VStruct wh_fin) /\ DC.locs v' = [4; 5; 6; 7] /\ List.length h' = 8 /\
      DC.snapshot (DC.write h' 7 (DC.CMap [])) (DC.VStruct wh_fin) = DC.snapshot wh_heap (DC.VStruct wh_fin) /\
      DC.snapshot (DC.write h' 3 (DC.CMap [])) (DC.VStruct wh_fin) <> DC.snapshot wh_heap (DC.VStruct wh_fin)
  | _ => False
  end.
Proof. split; [reflexivity|]. vm_compute. repeat split. discriminate. Qed.
