(* Lemmas about the camelcase model, for every rune type and every classifier. *)
Require Import Gengo.Base.Bytes Gengo.Model.CamelCase.

Section S.
  Variable rune : Type.
  Variable cls : rune -> class.
  Notation pass1 := (pass1 rune cls).
  Notation pass2 := (pass2 rune cls).
  Notation split_runes := (split_runes rune cls).
  Notation split := (split rune cls).

  Lemma pass1_fixed_ok : forall src groups last,
    exists gs, pass1 true src groups last = Ok gs.
  Proof.
    induction src as [|r rest IH]; intros groups last; cbn [CamelCase.pass1].
    - eauto.
    - destruct groups as [|g gs]; cbn [is_nil negb andb].
      + apply IH.
      + destruct (joins (cls r) last); cbn; apply IH.
  Qed.

  Lemma pass1_no_fuel : forall fixed src groups last, pass1 fixed src groups last <> OutOfFuel.
  Proof.
    intros fixed; induction src as [|r rest IH]; intros groups last; cbn [CamelCase.pass1].
    - discriminate.
    - destruct ((if fixed then negb (is_nil groups) else true) && joins (cls r) last).
      + destruct groups as [|g gs]; [discriminate|apply IH].
      + apply IH.
  Qed.

  (* what the accumulator of the first loop means *)
  Lemma pass1_concat : forall fixed src groups last gs,
    pass1 fixed src groups last = Ok gs ->
    concat (rev gs) = concat (rev groups) ++ src /\
    (Forall (fun g => g <> []) groups -> Forall (fun g => g <> []) gs).
  Proof.
    intros fixed; induction src as [|r rest IH]; intros groups last gs H; cbn [CamelCase.pass1] in H.
    - inversion H; subst. rewrite app_nil_r. auto.
    - destruct ((if fixed then negb (is_nil groups) else true) && joins (cls r) last).
      + destruct groups as [|g gs0]; [discriminate|].
        apply IH in H. destruct H as [H1 H2]. split.
        * rewrite H1. cbn [rev]. rewrite !concat_app. cbn [concat].
          rewrite !app_nil_r, <- !app_assoc. reflexivity.
        * intros F. apply H2. inversion F; subst.
          constructor; [destruct g; discriminate|assumption].
      + apply IH in H. destruct H as [H1 H2]. split.
        * rewrite H1. cbn [rev]. rewrite concat_app. cbn [concat].
          rewrite app_nil_r, <- app_assoc. reflexivity.
        * intros F. apply H2. constructor; [discriminate|assumption].
  Qed.

  Lemma removelast_last : forall (l : list rune) a, l <> [] -> removelast l ++ [last l a] = l.
  Proof. intros l a H. symmetry. apply app_removelast_last. exact H. Qed.

  (* the invariant of the second loop: every group handed over by the first loop is
     non-empty, hence  carry ++ g  (= runes[i]) and  g2  (= runes[i+1]) are, and all four
     slice accesses of an iteration are in range *)
  Lemma pass2_in_range : forall gs carry,
    Forall (fun g => g <> []) gs -> exists out, pass2 carry gs = Ok out.
  Proof.
    induction gs as [|g tl IH]; intros carry F; cbn [CamelCase.pass2]; [eauto|].
    inversion F as [|? ? Hg Ftl]; subst.
    destruct tl as [|g2 tl']; [eauto|].
    assert (Hg' : carry ++ g <> []) by (destruct carry; [exact Hg|discriminate]).
    destruct (carry ++ g) as [|a l] eqn:Eg; [congruence|].
    inversion Ftl as [|? ? Hg2 _]; subst.
    destruct g2 as [|b l2]; [congruence|].
    cbn [idx0 idx_last slice_init bind].
    destruct (r_upper rune cls a); cbn [bind].
    - destruct (r_lower rune cls b).
      + destruct (IH [last (a :: l) a] Ftl) as [out ->]. cbn [bind]. eauto.
      + destruct (IH [] Ftl) as [out ->]. cbn [bind]. eauto.
    - destruct (IH [] Ftl) as [out ->]. cbn [bind]. eauto.
  Qed.

  (* the accesses ARE checked: an empty group in either position makes the loop panic *)
  Lemma pass2_empty_group_panics : forall g tl, pass2 [] ([] :: g :: tl) = Panic.
  Proof. reflexivity. Qed.
  Lemma pass2_empty_next_group_panics : forall a g tl,
    r_upper rune cls a = true -> pass2 [] ((a :: g) :: [] :: tl) = Panic.
  Proof. intros a g tl H. cbn. rewrite H. reflexivity. Qed.

  Lemma pass2_concat : forall gs carry out,
    gs <> [] -> pass2 carry gs = Ok out -> concat out = carry ++ concat gs.
  Proof.
    induction gs as [|g tl IH]; intros carry out Hne H; [congruence|].
    cbn [CamelCase.pass2] in H. destruct tl as [|g2 tl'].
    - inversion H; subst. cbn. rewrite !app_nil_r. reflexivity.
    - destruct (carry ++ g) as [|a l] eqn:Eg; [discriminate|].
      cbn [idx0 idx_last slice_init bind] in H.
      assert (Hno : forall out', pass2 [] (g2 :: tl') = Ok out' ->
                concat ((a :: l) :: out') = carry ++ concat (g :: g2 :: tl')).
      { intros out' H'. cbn [concat]. rewrite (IH [] out') by (discriminate || exact H').
        rewrite app_nil_l, <- Eg, <- app_assoc. reflexivity. }
      destruct (match (if r_upper rune cls a
                       then bind (idx0 rune g2) (fun b => Ok (r_lower rune cls b)) else Ok false)
                with Ok m => Some m | _ => None end) as [m|] eqn:Em.
      + destruct (if r_upper rune cls a
                  then bind (idx0 rune g2) (fun b => Ok (r_lower rune cls b)) else Ok false)
          as [m'| |]; try discriminate.
        inversion Em; subst m'. cbn [bind] in H. destruct m.
        * destruct (pass2 [last (a :: l) a] (g2 :: tl')) as [rest| |] eqn:Er; try discriminate.
          cbn [bind] in H.
          assert (Eo : out = removelast (a :: l) :: rest) by congruence. subst out.
          cbn [concat]. rewrite (IH _ _ ltac:(discriminate) Er).
          rewrite app_assoc. rewrite removelast_last by discriminate.
          rewrite <- Eg. cbn [concat]. rewrite <- app_assoc. reflexivity.
        * destruct (pass2 [] (g2 :: tl')) as [rest| |] eqn:Er; try discriminate.
          inversion H; subst. apply Hno. reflexivity.
      + destruct (if r_upper rune cls a
                  then bind (idx0 rune g2) (fun b => Ok (r_lower rune cls b)) else Ok false)
          as [m'| |]; discriminate.
  Qed.

  Lemma concat_filter_nonempty : forall (l : list (list rune)),
    concat (filter (fun g => negb (is_nil g)) l) = concat l.
  Proof.
    induction l as [|g l IH]; cbn; [reflexivity|].
    destruct g; cbn; [exact IH| rewrite IH; reflexivity].
  Qed.

  Lemma pass1_groups_nonempty : forall fixed src gs,
    pass1 fixed src [] COther = Ok gs -> Forall (fun g => g <> []) (rev gs).
  Proof.
    intros fixed src gs H. apply pass1_concat in H. destruct H as [_ H].
    apply Forall_rev. apply H. constructor.
  Qed.

  Lemma split_runes_total : forall src, exists ws, split_runes true src = Ok ws.
  Proof.
    intros src. unfold CamelCase.split_runes.
    destruct (pass1_fixed_ok src [] COther) as [gs E]. rewrite E.
    destruct (pass2_in_range (rev gs) [] (pass1_groups_nonempty _ _ _ E)) as [out ->].
    cbn [bind]. eauto.
  Qed.

  Lemma split_runes_lossless : forall fixed src ws,
    split_runes fixed src = Ok ws -> concat ws = src /\ Forall (fun w => w <> []) ws.
  Proof.
    intros fixed src ws H. unfold CamelCase.split_runes in H.
    destruct (pass1 fixed src [] COther) as [gs| |] eqn:E; try discriminate.
    destruct (pass2 [] (rev gs)) as [out| |] eqn:E2; try discriminate.
    cbn [bind] in H. inversion H; subst; clear H.
    apply pass1_concat in E. destruct E as [E _]. cbn in E. split.
    - rewrite concat_filter_nonempty. destruct (rev gs) as [|g0 gl] eqn:Er.
      + cbn in *. inversion E2; subst. cbn. congruence.
      + apply pass2_concat in E2; [|discriminate]. rewrite E2. cbn [app]. exact E.
    - apply Forall_forall. intros w Hin. apply filter_In in Hin.
      destruct Hin as [_ Hw]. destruct w; discriminate.
  Qed.

  Lemma split_total : forall s, exists ws, split true s = Ok ws.
  Proof. intros [rs|bs]; cbn; [apply split_runes_total|eauto]. Qed.

  Lemma split_never_panics : forall s, split true s <> Panic /\ split true s <> OutOfFuel.
  Proof. intros s. destruct (split_total s) as [ws ->]. split; discriminate. Qed.

  Lemma split_lossless : forall fixed s ws,
    split fixed s = Ok ws -> concat ws = content s /\ (content s <> [] -> Forall (fun w => w <> []) ws).
  Proof.
    intros fixed [rs|bs] ws H; cbn in *.
    - apply split_runes_lossless in H. destruct H; auto.
    - inversion H; subst. cbn. rewrite app_nil_r. split; [reflexivity|]. intros Hne. constructor; auto.
  Qed.

  Lemma split_valid_nonempty_words : forall fixed rs ws,
    split fixed (Valid rs) = Ok ws -> Forall (fun w => w <> []) ws.
  Proof. intros fixed rs ws H; cbn in H. apply split_runes_lossless in H. tauto. Qed.

  Lemma split_invalid : forall fixed bs, split fixed (Invalid bs) = Ok [bs].
  Proof. reflexivity. Qed.

  (* the old loop panics exactly when the first rune joins the (non-existent) last group, i.e.
     when its class is RuneOther: characterisation of the pre-fix failure class *)
  Lemma pass1_old_first_other : forall r rest,
    cls r = COther -> CamelCase.pass1 rune cls false (r :: rest) [] COther = Panic.
  Proof. intros r rest H. cbn. rewrite H. reflexivity. Qed.

  Section Conv.
    Variable blen : rune -> nat.
    Variable drop1 : rune -> bool.
    Variable lower upper title : list rune -> list rune.
    Variable is_id : list rune -> bool.
    Variable id_word underscore hyphen : list rune.

    Lemma make_case_total : forall linker trans s,
      exists r, make_case rune cls blen drop1 true linker trans s = Ok r.
    Proof.
      intros linker trans s. unfold make_case.
      destruct (split_total s) as [ws ->]. eauto.
    Qed.

    Lemma conv_total : forall k s,
      exists r, conv rune cls blen drop1 lower upper title is_id id_word underscore hyphen true k s = Ok r.
    Proof.
      intros k s. unfold conv.
      destruct k as [|[|[|[|[|k]]]]]; apply make_case_total.
    Qed.
  End Conv.
End S.

(* the pre-fix loop is not total: "_id" *)
Lemma split_old_refuted :
  exists s, split crune c_cls false s = Panic.
Proof. exists (Valid [(95, COther); (105, CLower); (100, CLower)]%N). vm_compute. reflexivity. Qed.
