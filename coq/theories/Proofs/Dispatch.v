(* Lemmas about Model/Dispatch.v (C06). *)
Require Import Gengo.Base.Bytes Gengo.Model.Dispatch.
Require Import Permutation Sorted.

(* ------------------------------------------------------------------------------------------ *)
(* association lists                                                                          *)

Lemma bytes_eqb_false_neq : forall a b, bytes_eqb a b = false <-> a <> b.
Proof.
  intros a b. split.
  - intros H E. subst. rewrite bytes_eqb_refl in H. discriminate.
  - intros H. destruct (bytes_eqb a b) eqn:E; [|reflexivity]. apply bytes_eqb_spec in E. contradiction.
Qed.

Lemma bytes_eqb_sym : forall a b, bytes_eqb a b = bytes_eqb b a.
Proof.
  intros a b. destruct (bytes_eqb a b) eqn:E.
  - apply bytes_eqb_spec in E. subst. symmetry. apply bytes_eqb_refl.
  - symmetry. apply bytes_eqb_false_neq. apply bytes_eqb_false_neq in E. congruence.
Qed.

Section MapLemmas.
  Context {V : Type}.
  Implicit Types (m : list (bytes * V)) (k : bytes) (v : V).

  Lemma lookup_Some_In : forall m k v, lookup k m = Some v -> In (k, v) m.
  Proof.
    induction m as [|[k' v'] r IH]; intros k v H; cbn in H; [discriminate|].
    destruct (bytes_eqb k' k) eqn:E.
    - apply bytes_eqb_spec in E. inversion H; subst. left; reflexivity.
    - right. apply IH. exact H.
  Qed.

  Lemma lookup_None_notin : forall m k, lookup k m = None <-> ~ In k (keys m).
  Proof.
    induction m as [|[k' v'] r IH]; intros k; cbn.
    - split; [intros _ H; exact H | reflexivity].
    - destruct (bytes_eqb k' k) eqn:E.
      + apply bytes_eqb_spec in E. subst. split; [discriminate|]. intros H. exfalso. apply H. left; reflexivity.
      + apply bytes_eqb_false_neq in E. rewrite IH. split.
        * intros H [H1|H1]; [contradiction|]. apply H; exact H1.
        * intros H H1. apply H. right; exact H1.
  Qed.

  Lemma lookup_In : forall m k v, NoDup (keys m) -> In (k, v) m -> lookup k m = Some v.
  Proof.
    induction m as [|[k' v'] r IH]; intros k v Hnd Hin; cbn in *; [contradiction|].
    inversion Hnd as [|? ? Hnotin Hnd']; subst.
    destruct Hin as [Heq|Hin].
    - inversion Heq; subst. rewrite bytes_eqb_refl. reflexivity.
    - destruct (bytes_eqb k' k) eqn:E.
      + apply bytes_eqb_spec in E. subst. exfalso. apply Hnotin.
        change k with (fst (k, v)). apply in_map. exact Hin.
      + apply IH; assumption.
  Qed.

  Lemma lookup_perm : forall m m' k, NoDup (keys m) -> Permutation m m' -> lookup k m = lookup k m'.
  Proof.
    intros m m' k Hnd Hp.
    assert (Hnd' : NoDup (keys m')).
    { eapply Permutation_NoDup; [|exact Hnd]. apply Permutation_map. exact Hp. }
    destruct (lookup k m) as [v|] eqn:E.
    - symmetry. apply lookup_In; [exact Hnd'|]. eapply Permutation_in; [exact Hp|]. apply lookup_Some_In. exact E.
    - symmetry. apply lookup_None_notin. apply lookup_None_notin in E. intros H. apply E.
      eapply Permutation_in; [|exact H]. apply Permutation_map. apply Permutation_sym. exact Hp.
  Qed.

  Lemma map_set_lookup_same : forall m k v, lookup k (map_set k v m) = Some v.
  Proof.
    induction m as [|[k' v'] r IH]; intros k v; cbn.
    - rewrite bytes_eqb_refl. reflexivity.
    - destruct (bytes_eqb k' k) eqn:E; cbn.
      + rewrite bytes_eqb_refl. reflexivity.
      + rewrite E. apply IH.
  Qed.

  Lemma map_set_lookup_other : forall m k k' v, k' <> k -> lookup k' (map_set k v m) = lookup k' m.
  Proof.
    induction m as [|[k0 v0] r IH]; intros k k' v Hne; cbn.
    - assert (E : bytes_eqb k k' = false) by (apply bytes_eqb_false_neq; congruence).
      rewrite E. reflexivity.
    - destruct (bytes_eqb k0 k) eqn:E; cbn.
      + apply bytes_eqb_spec in E. subst k0.
        assert (E : bytes_eqb k k' = false) by (apply bytes_eqb_false_neq; congruence).
        rewrite E. reflexivity.
      + destruct (bytes_eqb k0 k'); [reflexivity|]. apply IH. exact Hne.
  Qed.

  Lemma map_set_keys_in : forall m k v k', In k' (keys (map_set k v m)) <-> k' = k \/ In k' (keys m).
  Proof.
    unfold keys.
    induction m as [|[k0 v0] r IH]; intros k v k'; cbn.
    - split; intros [H|H]; auto; contradiction.
    - destruct (bytes_eqb k0 k) eqn:E; cbn.
      + apply bytes_eqb_spec in E. subst k0. split; intros H; intuition congruence.
      + rewrite IH. split; intros H; intuition.
  Qed.

  Lemma map_set_notin : forall m k v, ~ In k (keys m) -> map_set k v m = m ++ [(k, v)].
  Proof.
    induction m as [|[k0 v0] r IH]; intros k v H; cbn in *; [reflexivity|].
    destruct (bytes_eqb k0 k) eqn:E.
    - apply bytes_eqb_spec in E. subst. exfalso. apply H. left; reflexivity.
    - f_equal. apply IH. intros H1. apply H. right; exact H1.
  Qed.

  Lemma map_set_nodup : forall m k v, NoDup (keys m) -> NoDup (keys (map_set k v m)).
  Proof.
    induction m as [|[k0 v0] r IH]; intros k v Hnd; cbn.
    - constructor; [intros H; exact H | constructor].
    - inversion Hnd as [|? ? Hnotin Hnd']; subst.
      destruct (bytes_eqb k0 k) eqn:E; cbn.
      + apply bytes_eqb_spec in E. subst k0. constructor; assumption.
      + constructor.
        * intros H. apply map_set_keys_in in H. destruct H as [H|H].
          -- apply bytes_eqb_false_neq in E. congruence.
          -- apply Hnotin. exact H.
        * apply IH. exact Hnd'.
  Qed.
End MapLemmas.

(* ------------------------------------------------------------------------------------------ *)
(* IsGeneratorEnabled                                                                         *)

(* the declarative reading of the rule *)
Definition enabled_spec (g : bytes) (t : tags) : bool :=
  match lookup (gengo_prefix g) t with
  | Some vs => negb (bytes_eqb (concat vs) str_false)
  | None => existsb (fun kv => has_prefix (gengo_prefix g ++ colon) (fst kv)) t
  end.

Lemma enabled_loop_spec : forall p t acc,
  enabled_loop p t acc =
  match lookup p t with
  | Some vs => negb (bytes_eqb (concat vs) str_false)
  | None => acc || existsb (fun kv => has_prefix (p ++ colon) (fst kv)) t
  end.
Proof.
  induction t as [|[k vs] r IH]; intros acc; cbn [enabled_loop lookup existsb fst].
  - rewrite orb_false_r. reflexivity.
  - destruct (bytes_eqb k p) eqn:E; [reflexivity|].
    destruct (has_prefix (p ++ colon) k) eqn:H; rewrite IH; destruct (lookup p r); try reflexivity.
    cbn. rewrite orb_true_r. reflexivity.
Qed.

Lemma enabled_is_spec : forall g t, is_generator_enabled g t = enabled_spec g t.
Proof. intros g t. unfold is_generator_enabled, enabled_spec. rewrite enabled_loop_spec. reflexivity. Qed.

Lemma existsb_perm : forall {A} (f : A -> bool) l l', Permutation l l' -> existsb f l = existsb f l'.
Proof.
  intros A f l l' Hp. induction Hp; cbn.
  - reflexivity.
  - rewrite IHHp. reflexivity.
  - rewrite !orb_assoc. rewrite (orb_comm (f y) (f x)). reflexivity.
  - congruence.
Qed.

Lemma enabled_order_independent : forall g t t',
  NoDup (keys t) -> Permutation t t' -> is_generator_enabled g t = is_generator_enabled g t'.
Proof.
  intros g t t' Hnd Hp. rewrite !enabled_is_spec. unfold enabled_spec.
  rewrite (lookup_perm t t' _ Hnd Hp). rewrite (existsb_perm _ t t' Hp). reflexivity.
Qed.

(* only the tags of THIS generator matter: gengo:<g> and gengo:<g>:… *)
Definition relevant (g : bytes) (k : bytes) : bool :=
  bytes_eqb k (gengo_prefix g) || has_prefix (gengo_prefix g ++ colon) k.

Lemma lookup_filter_keys : forall {V} (f : bytes -> bool) (m : list (bytes * V)) k,
  f k = true -> lookup k (filter (fun kv => f (fst kv)) m) = lookup k m.
Proof.
  intros V f m k Hk. induction m as [|[k' v'] r IH]; cbn; [reflexivity|].
  destruct (f k') eqn:Ef; cbn.
  - rewrite IH. reflexivity.
  - destruct (bytes_eqb k' k) eqn:E.
    + apply bytes_eqb_spec in E. congruence.
    + exact IH.
Qed.

Lemma enabled_only_own_tags : forall g t,
  is_generator_enabled g t = is_generator_enabled g (filter (fun kv => relevant g (fst kv)) t).
Proof.
  intros g t. rewrite !enabled_is_spec. unfold enabled_spec.
  rewrite (lookup_filter_keys (relevant g)).
  2:{ unfold relevant. rewrite bytes_eqb_refl. reflexivity. }
  destruct (lookup (gengo_prefix g) t); [reflexivity|].
  induction t as [|[k vs] r IH]; [reflexivity|].
  cbn [filter existsb fst].
  unfold relevant at 1.
  destruct (has_prefix (gengo_prefix g ++ colon) k) eqn:H.
  - rewrite orb_true_r. cbn [existsb fst]. rewrite H. reflexivity.
  - rewrite orb_false_r. destruct (bytes_eqb k (gengo_prefix g)); cbn [existsb fst orb]; [rewrite H|]; cbn [orb]; exact IH.
Qed.

Lemma has_prefix_app : forall p s, has_prefix p (p ++ s) = true.
Proof. induction p as [|a p IH]; intros s; cbn; [reflexivity|]. rewrite Ascii.eqb_refl. apply IH. Qed.

Lemma has_prefix_app_inv : forall p q s, has_prefix (p ++ q) (p ++ s) = has_prefix q s.
Proof. induction p as [|a p IH]; intros q s; cbn; [reflexivity|]. rewrite Ascii.eqb_refl. apply IH. Qed.

(* a tag of a generator whose name merely STARTS with g (next byte not ':') is not a tag of g *)
Lemma longer_name_not_relevant : forall g c rest tail,
  c <> ":"%char -> relevant g (gengo_prefix (g ++ c :: rest) ++ tail) = false.
Proof.
  intros g c rest tail Hc. unfold relevant, gengo_prefix.
  apply orb_false_iff. split.
  - apply bytes_eqb_false_neq. intros H.
    rewrite <- !app_assoc in H. apply app_inv_head in H.
    rewrite <- (app_nil_r g) in H at 2. apply app_inv_head in H. discriminate.
  - rewrite <- !app_assoc. rewrite has_prefix_app_inv. rewrite has_prefix_app_inv.
    change colon with [":"%char]. cbn [has_prefix app].
    destruct (Ascii.eqb ":" c) eqn:E; [|reflexivity].
    apply Ascii.eqb_eq in E. congruence.
Qed.

Lemma enabled_ignores_longer_names : forall g c rest t,
  c <> ":"%char ->
  (forall k, In k (keys t) -> exists tail, k = gengo_prefix (g ++ c :: rest) ++ tail) ->
  is_generator_enabled g t = false.
Proof.
  intros g c rest t Hc Hall. rewrite enabled_only_own_tags.
  replace (filter (fun kv => relevant g (fst kv)) t) with (@nil (bytes * list bytes)); [reflexivity|].
  symmetry. induction t as [|[k vs] r IH]; cbn; [reflexivity|].
  destruct (Hall k) as [tail Hk]; [left; reflexivity|].
  rewrite Hk at 1. rewrite longer_name_not_relevant by exact Hc.
  apply IH. intros k' Hin. apply Hall. right. exact Hin.
Qed.

(* ------------------------------------------------------------------------------------------ *)
(* merge: declaration over package over global                                                *)

Lemma merge_into_lookup : forall t m k, NoDup (keys t) ->
  lookup k (merge_into m t) = match lookup k t with Some v => Some v | None => lookup k m end.
Proof.
  unfold merge_into.
  induction t as [|[k0 v0] r IH]; intros m k Hnd; cbn [fold_left lookup fst snd]; [reflexivity|].
  inversion Hnd as [|? ? Hnotin Hnd']; subst.
  rewrite IH by exact Hnd'.
  destruct (bytes_eqb k0 k) eqn:E.
  - apply bytes_eqb_spec in E. subst k0.
    assert (Hn : lookup k r = None) by (apply lookup_None_notin; exact Hnotin).
    rewrite Hn. apply map_set_lookup_same.
  - destruct (lookup k r); [reflexivity|].
    apply map_set_lookup_other. apply bytes_eqb_false_neq in E. congruence.
Qed.

Lemma merge_into_nodup : forall t m, NoDup (keys m) -> NoDup (keys (merge_into m t)).
Proof.
  unfold merge_into. induction t as [|[k0 v0] r IH]; intros m H; cbn; [exact H|].
  apply IH. apply map_set_nodup. exact H.
Qed.

Lemma merge_into_keys_in : forall t m k, In k (keys (merge_into m t)) <-> In k (keys m) \/ In k (keys t).
Proof.
  unfold merge_into. induction t as [|[k0 v0] r IH]; intros m k; cbn [fold_left fst snd].
  - cbn. intuition.
  - rewrite IH. rewrite map_set_keys_in. cbn. intuition.
Qed.

Lemma merge_nodup_from : forall tl m, NoDup (keys m) -> NoDup (keys (fold_left merge_into tl m)).
Proof. induction tl as [|t tl IH]; intros m H; cbn; [exact H|]. apply IH. apply merge_into_nodup. exact H. Qed.

Lemma merge_nodup : forall tl, NoDup (keys (merge tl)).
Proof. intros tl. unfold merge. apply merge_nodup_from. constructor. Qed.

Definition or_else {A} (a b : option A) : option A := match a with Some x => Some x | None => b end.

Lemma doc_tags_lookup : forall G P d k,
  NoDup (keys G) -> NoDup (keys P) -> NoDup (keys (td_tags d)) ->
  lookup k (doc_tags G P d) = or_else (lookup k (td_tags d)) (or_else (lookup k P) (lookup k G)).
Proof.
  intros G P d k HG HP HD. unfold doc_tags, merge. cbn [fold_left].
  rewrite !merge_into_lookup by assumption. cbn [lookup].
  unfold or_else. destruct (lookup k (td_tags d)), (lookup k P), (lookup k G); reflexivity.
Qed.

Lemma doc_tags_keys_in : forall G P d k,
  In k (keys (doc_tags G P d)) <-> In k (keys (td_tags d)) \/ In k (keys P) \/ In k (keys G).
Proof.
  intros. unfold doc_tags, merge. cbn [fold_left]. rewrite !merge_into_keys_in. cbn. intuition.
Qed.

(* package tags: the later file wins *)
Lemma pkg_tags_lookup_snoc : forall files t k, NoDup (keys t) ->
  lookup k (pkg_tags (files ++ [t])) = or_else (lookup k t) (lookup k (pkg_tags files)).
Proof.
  intros files t k Hnd. unfold pkg_tags, merge. rewrite fold_left_app. cbn [fold_left].
  rewrite merge_into_lookup by exact Hnd. reflexivity.
Qed.

Lemma existsb_same_members : forall {A} (f : A -> bool) l l',
  (forall x, In x l <-> In x l') -> existsb f l = existsb f l'.
Proof.
  intros A f l l' H. destruct (existsb f l) eqn:E.
  - apply existsb_exists in E. destruct E as [x [Hin Hf]]. symmetry. apply existsb_exists.
    exists x. split; [apply H; exact Hin | exact Hf].
  - symmetry. destruct (existsb f l') eqn:E'; [|reflexivity].
    apply existsb_exists in E'. destruct E' as [x [Hin Hf]].
    assert (existsb f l = true) by (apply existsb_exists; exists x; split; [apply H; exact Hin | exact Hf]).
    congruence.
Qed.

(* the rule, stated on the three levels *)
Definition enabled_eff_spec (g : bytes) (G P D : tags) : bool :=
  match or_else (lookup (gengo_prefix g) D) (or_else (lookup (gengo_prefix g) P) (lookup (gengo_prefix g) G)) with
  | Some vs => negb (bytes_eqb (concat vs) str_false)
  | None => existsb (has_prefix (gengo_prefix g ++ colon)) (keys D ++ keys P ++ keys G)
  end.

Lemma existsb_keys : forall (f : bytes -> bool) (t : tags), existsb (fun kv => f (fst kv)) t = existsb f (keys t).
Proof. intros f t. induction t as [|[k v] r IH]; cbn; [reflexivity|]. rewrite IH. reflexivity. Qed.

Lemma enabled_effective : forall g G P d t',
  NoDup (keys G) -> NoDup (keys P) -> NoDup (keys (td_tags d)) ->
  Permutation t' (doc_tags G P d) ->
  is_generator_enabled g t' = enabled_eff_spec g G P (td_tags d).
Proof.
  intros g G P d t' HG HP HD Hp.
  assert (Hnd : NoDup (keys (doc_tags G P d))) by apply merge_nodup.
  rewrite <- (enabled_order_independent g (doc_tags G P d) t' Hnd (Permutation_sym Hp)).
  rewrite enabled_is_spec. unfold enabled_spec, enabled_eff_spec.
  rewrite doc_tags_lookup by assumption.
  destruct (or_else _ _); [reflexivity|].
  rewrite existsb_keys. apply existsb_same_members.
  intros k. rewrite doc_tags_keys_in. rewrite !in_app_iff. reflexivity.
Qed.

(* ------------------------------------------------------------------------------------------ *)
(* sort.Strings: byte-wise lexicographic order, insertion sort                                 *)

Lemma N_of_ascii_inj : forall a b, N_of_ascii a = N_of_ascii b -> a = b.
Proof. intros a b H. rewrite <- (ascii_N_embedding a), <- (ascii_N_embedding b). rewrite H. reflexivity. Qed.

Lemma bytes_leb_refl : forall a, bytes_leb a a = true.
Proof. induction a as [|x a IH]; cbn; [reflexivity|]. rewrite N.ltb_irrefl. exact IH. Qed.

Lemma bytes_leb_total : forall a b, bytes_leb a b = true \/ bytes_leb b a = true.
Proof.
  induction a as [|x a IH]; intros [|y b]; cbn; auto.
  destruct (N.ltb_spec (N_of_ascii x) (N_of_ascii y)); auto.
  destruct (N.ltb_spec (N_of_ascii y) (N_of_ascii x)); auto.
Qed.

Lemma bytes_leb_antisym : forall a b, bytes_leb a b = true -> bytes_leb b a = true -> a = b.
Proof.
  induction a as [|x a IH]; intros [|y b]; cbn; intros H1 H2; try reflexivity; try discriminate.
  destruct (N.ltb_spec (N_of_ascii x) (N_of_ascii y)) as [Hlt|Hge];
    destruct (N.ltb_spec (N_of_ascii y) (N_of_ascii x)) as [Hlt'|Hge']; try discriminate; try lia.
  assert (x = y) by (apply N_of_ascii_inj; lia). subst. f_equal. apply IH; assumption.
Qed.

Lemma bytes_leb_trans : forall a b c, bytes_leb a b = true -> bytes_leb b c = true -> bytes_leb a c = true.
Proof.
  induction a as [|x a IH]; intros [|y b] [|z c]; cbn; intros H1 H2; try reflexivity; try discriminate.
  destruct (N.ltb_spec (N_of_ascii x) (N_of_ascii y)) as [Hxy|Hxy];
    destruct (N.ltb_spec (N_of_ascii y) (N_of_ascii z)) as [Hyz|Hyz];
    destruct (N.ltb_spec (N_of_ascii x) (N_of_ascii z)) as [Hxz|Hxz]; try reflexivity; try lia;
    destruct (N.ltb_spec (N_of_ascii y) (N_of_ascii x)) as [Hyx|Hyx]; try discriminate; try lia;
    destruct (N.ltb_spec (N_of_ascii z) (N_of_ascii y)) as [Hzy|Hzy]; try discriminate; try lia;
    destruct (N.ltb_spec (N_of_ascii z) (N_of_ascii x)) as [Hzx|Hzx]; try lia.
  eapply IH; eassumption.
Qed.

Section SortLemmas.
  Context {A : Type} (key : A -> bytes).
  Definition kle (x y : A) : Prop := bytes_leb (key x) (key y) = true.

  Lemma insert_by_perm : forall x l, Permutation (x :: l) (insert_by key x l).
  Proof.
    intros x l. induction l as [|y r IH]; cbn; [apply Permutation_refl|].
    destruct (bytes_leb (key x) (key y)); [apply Permutation_refl|].
    eapply Permutation_trans; [apply perm_swap|]. apply perm_skip. exact IH.
  Qed.

  Lemma isort_by_perm : forall l, Permutation l (isort_by key l).
  Proof.
    induction l as [|x r IH]; cbn; [constructor|].
    eapply Permutation_trans; [|apply insert_by_perm]. apply perm_skip. exact IH.
  Qed.

  Lemma insert_by_sorted : forall x l, StronglySorted kle l -> StronglySorted kle (insert_by key x l).
  Proof.
    intros x l H. induction H as [|y r Hr IH Hall]; cbn.
    - constructor; constructor.
    - destruct (bytes_leb (key x) (key y)) eqn:E.
      + constructor; [constructor; assumption|]. constructor; [exact E|].
        eapply Forall_impl; [|exact Hall]. intros z Hz. unfold kle in *. eapply bytes_leb_trans; eassumption.
      + constructor; [exact IH|].
        assert (Hyx : kle y x).
        { unfold kle. destruct (bytes_leb_total (key x) (key y)) as [H1|H1]; [congruence|exact H1]. }
        eapply Permutation_Forall; [apply insert_by_perm|]. constructor; assumption.
  Qed.

  Lemma isort_by_sorted : forall l, StronglySorted kle (isort_by key l).
  Proof. induction l as [|x r IH]; cbn; [constructor|]. apply insert_by_sorted. exact IH. Qed.
End SortLemmas.

Lemma map_insert_by : forall {A} (key : A -> bytes) x l,
  map key (insert_by key x l) = insert_by (fun s => s) (key x) (map key l).
Proof.
  intros A key x l. induction l as [|y r IH]; cbn; [reflexivity|].
  destruct (bytes_leb (key x) (key y)); cbn; [reflexivity|]. rewrite IH. reflexivity.
Qed.

Lemma map_isort_by : forall {A} (key : A -> bytes) l, map key (isort_by key l) = sort_strings (map key l).
Proof.
  intros A key l. unfold sort_strings. induction l as [|x r IH]; [reflexivity|].
  change (isort_by key (x :: r)) with (insert_by key x (isort_by key r)).
  change (map key (x :: r)) with (key x :: map key r).
  change (isort_by (fun s : bytes => s) (key x :: map key r))
    with (insert_by (fun s : bytes => s) (key x) (isort_by (fun s : bytes => s) (map key r))).
  rewrite map_insert_by. rewrite IH. reflexivity.
Qed.

(* a sorted list is determined by its elements *)
Lemma sorted_perm_unique : forall l1 l2 : list bytes,
  StronglySorted (kle (fun s => s)) l1 -> StronglySorted (kle (fun s => s)) l2 -> Permutation l1 l2 -> l1 = l2.
Proof.
  induction l1 as [|a l1 IH]; intros l2 H1 H2 Hp.
  - apply Permutation_nil in Hp. subst. reflexivity.
  - destruct l2 as [|b l2]; [apply Permutation_sym, Permutation_nil in Hp; discriminate|].
    inversion H1 as [|? ? H1' Ha]; subst. inversion H2 as [|? ? H2' Hb]; subst.
    assert (Hab : a = b).
    { assert (Hina : In a (b :: l2)) by (eapply Permutation_in; [exact Hp | left; reflexivity]).
      assert (Hinb : In b (a :: l1)) by (eapply Permutation_in; [apply Permutation_sym; exact Hp | left; reflexivity]).
      destruct Hina as [Hina|Hina]; [congruence|]. destruct Hinb as [Hinb|Hinb]; [congruence|].
      rewrite Forall_forall in Ha, Hb. apply bytes_leb_antisym; [apply (Ha b Hinb) | apply (Hb a Hina)]. }
    subst b. f_equal. apply IH; try assumption. eapply Permutation_cons_inv. exact Hp.
Qed.

Lemma sort_strings_perm : forall l l', Permutation l l' -> sort_strings l = sort_strings l'.
Proof.
  intros l l' Hp. unfold sort_strings. apply sorted_perm_unique; try apply isort_by_sorted.
  eapply Permutation_trans; [apply Permutation_sym, isort_by_perm|].
  eapply Permutation_trans; [exact Hp|]. apply isort_by_perm.
Qed.

(* ------------------------------------------------------------------------------------------ *)
(* the type table                                                                             *)

Definition entry (d : tdef) : bytes * tdef := (td_name d, d).

Lemma type_table_fixed_from : forall l acc,
  NoDup (keys acc ++ map td_name (filter td_pkgscope l)) ->
  fold_left (table_add true) l acc = acc ++ map entry (filter td_pkgscope l).
Proof.
  induction l as [|d r IH]; intros acc Hnd; cbn [fold_left filter map].
  - rewrite app_nil_r. reflexivity.
  - unfold table_add at 2. cbn [andb]. cbn [filter] in Hnd. destruct (td_pkgscope d) eqn:Es; cbn [negb].
    + cbn [map] in Hnd.
      assert (Hnotin : ~ In (td_name d) (keys acc)).
      { intros Hin. apply NoDup_remove_2 in Hnd. apply Hnd. apply in_or_app. left. exact Hin. }
      rewrite map_set_notin by exact Hnotin.
      rewrite IH.
      * rewrite <- app_assoc. reflexivity.
      * unfold keys. rewrite map_app. cbn [map fst entry]. rewrite <- app_assoc. cbn [app]. exact Hnd.
    + apply IH. exact Hnd.
Qed.

Lemma type_table_fixed : forall defs,
  NoDup (map td_name (filter td_pkgscope defs)) ->
  type_table true defs = map entry (filter td_pkgscope defs).
Proof. intros defs H. unfold type_table. rewrite type_table_fixed_from; [reflexivity|exact H]. Qed.

Lemma keys_map_entry : forall l, keys (map entry l) = map td_name l.
Proof. intros l. unfold keys. rewrite map_map. reflexivity. Qed.

(* ------------------------------------------------------------------------------------------ *)
(* doGenerate                                                                                 *)

(* the calls the property asks for, for one declaration *)
Definition call_of (g : gen) (G P : tags) (d : tdef) : list call :=
  match td_kind d with
  | KNamed => if enabled_eff_spec (g_name g) G P (td_tags d) then [(CT, d)] else []
  | KAlias => if enabled_eff_spec (g_name g) G P (td_tags d) && g_alias g then [(CA, d)] else []
  | KOther => []
  end.

(* … for a package: its package-scope declarations in name order *)
Definition expected_calls (g : gen) (G P : tags) (defs : list tdef) : list call :=
  flat_map (call_of g G P) (isort_by td_name (filter td_pkgscope defs)).

(* a generator error ends the loop: calls up to and including the first failing one *)
Fixpoint cut_err (cs : list call) : list call * bool :=
  match cs with
  | [] => ([], false)
  | c :: r => if is_err (td_action (snd c)) then ([c], true)
              else let (l, e) := cut_err r in (c :: l, e)
  end.

Lemma cut_err_no_err : forall cs, forallb (fun c => negb (is_err (td_action (snd c)))) cs = true -> cut_err cs = (cs, false).
Proof.
  induction cs as [|c r IH]; cbn; intros H; [reflexivity|].
  apply andb_true_iff in H. destruct H as [H1 H2]. apply negb_true_iff in H1. rewrite H1.
  rewrite IH by exact H2. reflexivity.
Qed.

Lemma gen_loop_spec : forall g G P tbl L,
  NoDup (keys G) -> NoDup (keys P) ->
  (forall d, In d L -> lookup (td_name d) tbl = Some d /\ NoDup (keys (td_tags d))) ->
  gen_loop g G P tbl (map td_name L) = Ok (cut_err (flat_map (call_of g G P) L)).
Proof.
  intros g G P tbl L HG HP. induction L as [|d r IH]; intros Hall; cbn [map gen_loop flat_map]; [reflexivity|].
  destruct (Hall d) as [Hl Hd]; [left; reflexivity|]. rewrite Hl.
  assert (Hen : is_generator_enabled (g_name g) (doc_tags G P d) = enabled_eff_spec (g_name g) G P (td_tags d)).
  { apply enabled_effective; try assumption. apply Permutation_refl. }
  rewrite IH by (intros d' Hd'; apply Hall; right; exact Hd').
  set (tail := flat_map (call_of g G P) r).
  unfold call_of. destruct (td_kind d); rewrite ?Hen.
  - destruct (enabled_eff_spec (g_name g) G P (td_tags d)); cbn [app cut_err snd]; [|reflexivity].
    destruct (is_err (td_action d)); [reflexivity|]. cbn [bind].
    destruct (cut_err tail) as [l e]. reflexivity.
  - destruct (enabled_eff_spec (g_name g) G P (td_tags d)); cbn [andb app cut_err snd]; [|reflexivity].
    destruct (g_alias g); cbn [app cut_err snd]; [|reflexivity].
    destruct (is_err (td_action d)); [reflexivity|]. cbn [bind].
    destruct (cut_err tail) as [l e]. reflexivity.
  - reflexivity.
Qed.

(* the central statement: with the scope fix, for EVERY order in which the definitions are met and
   EVERY order in which the table's keys are ranged over, the calls are the expected ones *)
Lemma do_generate_spec : forall g G P defs pi ns,
  NoDup (keys G) -> NoDup (keys P) ->
  (forall d, In d defs -> NoDup (keys (td_tags d))) ->
  NoDup (map td_name (filter td_pkgscope defs)) ->
  Permutation pi defs ->
  Permutation ns (keys (type_table true pi)) ->
  do_generate g G P (type_table true pi) ns = Ok (cut_err (expected_calls g G P defs)).
Proof.
  intros g G P defs pi ns HG HP Htags Hnd Hpi Hns.
  assert (HpiF : Permutation (filter td_pkgscope pi) (filter td_pkgscope defs)).
  { clear - Hpi. induction Hpi; cbn.
    - constructor.
    - destruct (td_pkgscope x); [apply perm_skip|]; exact IHHpi.
    - destruct (td_pkgscope x), (td_pkgscope y); try apply Permutation_refl. apply perm_swap.
    - eapply Permutation_trans; eassumption. }
  assert (Hnd' : NoDup (map td_name (filter td_pkgscope pi))).
  { eapply Permutation_NoDup; [|exact Hnd]. apply Permutation_map. apply Permutation_sym. exact HpiF. }
  rewrite (type_table_fixed pi Hnd') in *. rewrite keys_map_entry in Hns.
  unfold do_generate, expected_calls.
  assert (Hsort : sort_strings ns = map td_name (isort_by td_name (filter td_pkgscope defs))).
  { rewrite map_isort_by. apply sort_strings_perm.
    eapply Permutation_trans; [exact Hns|]. apply Permutation_map. exact HpiF. }
  rewrite Hsort. apply gen_loop_spec; try assumption.
  intros d Hd.
  assert (HdF : In d (filter td_pkgscope defs)).
  { eapply Permutation_in; [apply Permutation_sym, isort_by_perm | exact Hd]. }
  split.
  - apply lookup_In.
    + rewrite keys_map_entry. exact Hnd'.
    + change (td_name d, d) with (entry d). apply in_map.
      eapply Permutation_in; [apply Permutation_sym; exact HpiF | exact HdF].
  - apply Htags. apply filter_In in HdF. tauto.
Qed.

(* exactly once, in the In / NoDup form *)
Lemma call_of_In : forall g G P d c, In c (call_of g G P d) -> snd c = d.
Proof.
  intros g G P d c H. unfold call_of in H.
  destruct (td_kind d); [destruct (enabled_eff_spec _ _ _ _) | destruct (enabled_eff_spec _ _ _ _ && _) |];
    cbn in H; try contradiction; destruct H as [H|[]]; subst; reflexivity.
Qed.

Lemma flat_map_call_of_nodup : forall g G P L, NoDup L -> NoDup (flat_map (call_of g G P) L).
Proof.
  intros g G P L H. induction H as [|d r Hnotin Hnd IH]; cbn; [constructor|].
  assert (Hr : forall c, In c (flat_map (call_of g G P) r) -> snd c <> d).
  { intros c Hc E. apply in_flat_map in Hc. destruct Hc as [d' [Hd' Hc]]. apply call_of_In in Hc. congruence. }
  unfold call_of at 1.
  destruct (td_kind d); [destruct (enabled_eff_spec _ _ _ _) | destruct (enabled_eff_spec _ _ _ _ && _) |]; cbn [app]; try exact IH;
    (constructor; [intros Hc; apply (Hr _ Hc); reflexivity | exact IH]).
Qed.

Lemma expected_calls_nodup : forall g G P defs,
  NoDup (map td_name (filter td_pkgscope defs)) -> NoDup (expected_calls g G P defs).
Proof.
  intros g G P defs H. unfold expected_calls. apply flat_map_call_of_nodup.
  eapply Permutation_NoDup; [apply isort_by_perm|]. eapply NoDup_map_inv. exact H.
Qed.

Lemma expected_calls_In : forall g G P defs k d,
  In (k, d) (expected_calls g G P defs) <->
  In d defs /\ td_pkgscope d = true /\ enabled_eff_spec (g_name g) G P (td_tags d) = true /\
  ((k = CT /\ td_kind d = KNamed) \/ (k = CA /\ td_kind d = KAlias /\ g_alias g = true)).
Proof.
  intros g G P defs k d. unfold expected_calls. rewrite in_flat_map. split.
  - intros [d' [Hd' Hc]].
    assert (d' = d) by (apply call_of_In in Hc; cbn in Hc; congruence). subst d'.
    assert (HdF : In d (filter td_pkgscope defs)) by (eapply Permutation_in; [apply Permutation_sym, isort_by_perm | exact Hd']).
    apply filter_In in HdF. destruct HdF as [Hin Hs]. unfold call_of in Hc.
    destruct (td_kind d) eqn:Ek.
    + destruct (enabled_eff_spec _ _ _ _) eqn:Ee; cbn in Hc; [|contradiction].
      destruct Hc as [Hc|[]]. inversion Hc; subst. repeat split; auto.
    + destruct (enabled_eff_spec _ _ _ _) eqn:Ee; cbn in Hc; [|contradiction].
      destruct (g_alias g) eqn:Ea; cbn in Hc; [|contradiction].
      destruct Hc as [Hc|[]]. inversion Hc; subst. repeat split; auto.
    + cbn in Hc. contradiction.
  - intros [Hin [Hs [He Hk]]]. exists d. split.
    + eapply Permutation_in; [apply isort_by_perm|]. apply filter_In. split; assumption.
    + unfold call_of. destruct Hk as [[Hk Hkind]|[Hk [Hkind Ha]]]; subst k; rewrite Hkind, He; [|rewrite Ha]; left; reflexivity.
Qed.

(* ------------------------------------------------------------------------------------------ *)
(* the defer queue                                                                            *)

Lemma qsize_app : forall a b, qsize (a ++ b) = qsize a + qsize b.
Proof.
  induction a as [|d a IH]; intros b; [reflexivity|].
  change (qsize ((d :: a) ++ b)) with (dsize d + qsize (a ++ b)).
  change (qsize (d :: a)) with (dsize d + qsize a). rewrite IH. lia.
Qed.

Lemma qsize_cons : forall id err nested r, qsize (DS id err nested :: r) = S (qsize nested + qsize r).
Proof. reflexivity. Qed.

(* enough fuel exists: the queue loop never runs out (callback forests are finite) *)
Lemma run_defers_queue_total : forall fuel q, qsize q <= fuel -> exists r, run_defers_queue fuel q = Ok r.
Proof.
  induction fuel as [|fuel IH]; intros q H.
  - destruct q as [|[id err nested] r]; [eexists; reflexivity|]. rewrite qsize_cons in H. lia.
  - destruct q as [|[id err nested] r]; cbn [run_defers_queue]; [eexists; reflexivity|].
    destruct err; [eexists; reflexivity|].
    destruct (IH (r ++ nested)) as [[l e] Hr].
    { rewrite qsize_app. rewrite qsize_cons in H. lia. }
    rewrite Hr. eexists; reflexivity.
Qed.

Lemma firstn_prefix : forall {A} (a b l : list A), firstn (length a + length b) l = a ++ b -> firstn (length a) l = a.
Proof.
  induction a as [|x a IH]; intros b l H; [reflexivity|].
  destruct l as [|y l]; cbn in H; [discriminate|]. inversion H; subst. cbn. f_equal. eapply IH. eassumption.
Qed.

Lemma ids_all_app : forall a b, ids_all (a ++ b) = ids_all a ++ ids_all b.
Proof. intros. unfold ids_all. apply flat_map_app. Qed.

(* no callback fails: every callback of the forest runs exactly once (the list of ids run is a
   permutation of all ids), the directly registered ones first and in registration order *)
Lemma run_defers_queue_ok : forall fuel q, qsize q <= fuel -> forallb no_err_tree q = true ->
  exists l, run_defers_queue fuel q = Ok (l, false)
            /\ Permutation l (ids_all q) /\ firstn (length q) l = map root_id q.
Proof.
  induction fuel as [|fuel IH]; intros q H Hok.
  - destruct q as [|[id err nested] r]; [exists []; repeat split; constructor|]. rewrite qsize_cons in H. lia.
  - destruct q as [|[id err nested] r]; [exists []; repeat split; constructor|].
    cbn [forallb no_err_tree] in Hok. apply andb_true_iff in Hok. destruct Hok as [Hd Hr].
    apply andb_true_iff in Hd. destruct Hd as [He Hn]. apply negb_true_iff in He. subst err.
    destruct (IH (r ++ nested)) as [l [Hrun [Hp Hf]]].
    { rewrite qsize_app. rewrite qsize_cons in H. lia. }
    { rewrite forallb_app. rewrite Hr, Hn. reflexivity. }
    exists (id :: l). cbn [run_defers_queue]. rewrite Hrun. cbn [bind]. split; [reflexivity|]. split.
    + unfold ids_all in *. cbn [flat_map ids_tree]. cbn [app]. apply perm_skip.
      eapply Permutation_trans; [exact Hp|]. rewrite flat_map_app. apply Permutation_app_comm.
    + cbn [length firstn map root_id]. f_equal.
      rewrite app_length, map_app in Hf. rewrite <- (map_length root_id r).
      apply (firstn_prefix (map root_id r) (map root_id nested) l). rewrite !map_length. exact Hf.
Qed.

(* ------------------------------------------------------------------------------------------ *)
(* one generator on one package                                                               *)

Definition is_callback (e : event) : bool := match e with EWrites _ _ => false | _ => true end.
Definition ev_pkg (e : event) : N := match e with EType p _ _ _ | EAlias p _ _ _ | EDefer p _ _ | EWrites p _ => p end.

(* whatever the switches: the events of a session are call events followed by defer events *)
Lemma session_shape : forall fx p g G P defs ns evs o b,
  session fx p g G P defs ns = Ok (evs, o, b) ->
  exists cs ds, evs = map (event_of_call p g G P) cs ++ map (EDefer p (g_idx g)) ds.
Proof.
  intros fx p g G P defs ns evs o b H. unfold session in H.
  destruct (do_generate g G P (type_table (fx_scope fx) defs) ns) as [[cs e]| |]; cbn [bind] in H; try discriminate.
  destruct e.
  - inversion H; subst. exists cs, []. rewrite app_nil_r. reflexivity.
  - destruct (if fx_defer fx then _ else _) as [[ds e2]| |]; cbn [bind] in H; try discriminate.
    destruct e2; inversion H; subst; exists cs, ds; reflexivity.
Qed.

Lemma session_fixed_spec : forall p g G P defs pi ns,
  NoDup (keys G) -> NoDup (keys P) ->
  (forall d, In d defs -> NoDup (keys (td_tags d))) ->
  NoDup (map td_name (filter td_pkgscope defs)) ->
  Permutation pi defs ->
  Permutation ns (keys (type_table true pi)) ->
  let cs := expected_calls g G P defs in
  forallb (fun c => negb (is_err (td_action (snd c)))) cs = true ->
  forallb no_err_tree (registered cs) = true ->
  exists ds,
    session fixed_all p g G P pi ns
      = Ok (map (event_of_call p g G P) cs ++ map (EDefer p (g_idx g)) ds, Done, rendered cs || negb (is_nil ds))
    /\ Permutation ds (ids_all (registered cs))
    /\ firstn (length (registered cs)) ds = map root_id (registered cs).
Proof.
  intros p g G P defs pi ns HG HP Htags Hnd Hpi Hns cs Hne Hnd2.
  unfold session. cbn [fixed_all fx_scope fx_defer].
  rewrite (do_generate_spec g G P defs pi ns) by assumption.
  fold cs. rewrite cut_err_no_err by exact Hne. cbn [bind].
  destruct (run_defers_queue_ok (qsize (registered cs)) (registered cs) (le_n _) Hnd2) as [l [Hr [Hp Hf]]].
  rewrite Hr. cbn [bind]. exists l. repeat split; assumption.
Qed.

(* calls are made only for entries of the table, and the table holds only definitions of the package *)
Lemma gen_loop_calls_from_table : forall g G P tbl names cs e,
  gen_loop g G P tbl names = Ok (cs, e) -> forall c, In c cs -> exists n, lookup n tbl = Some (snd c).
Proof.
  intros g G P tbl. induction names as [|n r IH]; intros cs e H c Hc; cbn [gen_loop] in H.
  - inversion H; subst. contradiction.
  - destruct (lookup n tbl) as [d|] eqn:El; [|discriminate].
    assert (Hinv : forall k, (if is_err (td_action d) then Ok ([(k, d)], true)
                              else let! (cs0, e0) := gen_loop g G P tbl r in Ok ((k, d) :: cs0, e0)) = Ok (cs, e) ->
                             exists n0, lookup n0 tbl = Some (snd c)).
    { intros k Hk. destruct (is_err (td_action d)).
      - inversion Hk; subst. destruct Hc as [Hc|[]]; subst. exists n. exact El.
      - destruct (gen_loop g G P tbl r) as [[cs0 e0]| |]; cbn [bind] in Hk; try discriminate.
        inversion Hk; subst. destruct Hc as [Hc|Hc]; [subst; exists n; exact El|]. eapply IH; [reflexivity|exact Hc]. }
    destruct (td_kind d).
    + destruct (is_generator_enabled _ _); [apply (Hinv CT H) | eapply IH; eassumption].
    + destruct (is_generator_enabled _ _); [destruct (g_alias g); [apply (Hinv CA H) | eapply IH; eassumption] | eapply IH; eassumption].
    + eapply IH; eassumption.
Qed.

Lemma map_set_entries : forall {V} (m : list (bytes * V)) k v x, In x (map_set k v m) -> x = (k, v) \/ In x m.
Proof.
  intros V. induction m as [|[k0 v0] r IH]; intros k v x H; cbn in H.
  - destruct H as [H|[]]. left. symmetry. exact H.
  - destruct (bytes_eqb k0 k).
    + destruct H as [H|H]; [left; symmetry; exact H | right; right; exact H].
    + destruct H as [H|H]; [right; left; exact H|]. apply IH in H. destruct H; [left|right; right]; assumption.
Qed.

Lemma type_table_entries : forall sf defs n d, In (n, d) (type_table sf defs) -> In d defs.
Proof.
  intros sf defs n d. unfold type_table.
  assert (Hgen : forall l acc, In (n, d) (fold_left (table_add sf) l acc) -> In (n, d) acc \/ In d l).
  { induction l as [|x r IH]; intros acc H; cbn in H; [left; exact H|].
    apply IH in H. destruct H as [H|H]; [|right; right; exact H].
    unfold table_add in H. destruct (sf && negb (td_pkgscope x)); [left; exact H|].
    apply map_set_entries in H. destruct H as [H|H]; [inversion H; subst; right; left; reflexivity | left; exact H]. }
  intros H. apply Hgen in H. destruct H as [[]|H]. exact H.
Qed.

Definition ev_decl (e : event) : option N := match e with EType _ _ i _ | EAlias _ _ i _ => Some i | _ => None end.

Lemma session_calls_own_defs : forall fx p g G P defs ns evs o b,
  session fx p g G P defs ns = Ok (evs, o, b) ->
  forall e i, In e evs -> ev_decl e = Some i -> exists d, In d defs /\ td_id d = i.
Proof.
  intros fx p g G P defs ns evs o b H e i He Hi. unfold session in H.
  destruct (do_generate g G P (type_table (fx_scope fx) defs) ns) as [[cs er]| |] eqn:Eg; cbn [bind] in H; try discriminate.
  assert (Hcs : forall c, In c cs -> In (snd c) defs).
  { intros c Hc. unfold do_generate in Eg. destruct (gen_loop_calls_from_table _ _ _ _ _ _ _ Eg c Hc) as [n Hn].
    apply lookup_Some_In in Hn. eapply type_table_entries. exact Hn. }
  assert (Hev : forall c, In c cs -> ev_decl (event_of_call p g G P c) = Some (td_id (snd c))).
  { intros [k d] _. unfold event_of_call. destruct k; reflexivity. }
  assert (Hmain : forall ds, In e (map (event_of_call p g G P) cs ++ map (EDefer p (g_idx g)) ds) -> exists d, In d defs /\ td_id d = i).
  { intros ds Hin. apply in_app_or in Hin. destruct Hin as [Hin|Hin].
    - apply in_map_iff in Hin. destruct Hin as [c [Hc1 Hc2]]. subst e. rewrite (Hev c Hc2) in Hi. inversion Hi; subst.
      exists (snd c). split; [apply Hcs; exact Hc2 | reflexivity].
    - apply in_map_iff in Hin. destruct Hin as [x [Hx _]]. subst e. discriminate. }
  destruct er.
  - inversion H; subst. apply (Hmain []). rewrite app_nil_r. exact He.
  - destruct (if fx_defer fx then _ else _) as [[ds e2]| |]; cbn [bind] in H; try discriminate.
    destruct e2; inversion H; subst; apply (Hmain ds); exact He.
Qed.

Lemma session_events : forall fx p g G P defs ns evs o b,
  session fx p g G P defs ns = Ok (evs, o, b) -> forall e, In e evs -> is_callback e = true /\ ev_pkg e = p.
Proof.
  intros fx p g G P defs ns evs o b H e He.
  destruct (session_shape _ _ _ _ _ _ _ _ _ _ H) as [cs [ds Hs]]. subst evs.
  apply in_app_or in He. destruct He as [He|He]; apply in_map_iff in He; destruct He as [x [Hx _]]; subst e.
  - unfold event_of_call. destruct (fst x); split; reflexivity.
  - split; reflexivity.
Qed.

(* ------------------------------------------------------------------------------------------ *)
(* one package, all packages                                                                  *)

Lemma pkg_gens_events : forall fx p gens G evs o ws,
  pkg_gens fx p gens G = Ok (evs, o, ws) ->
  forall e, In e evs ->
    is_callback e = true /\ ev_pkg e = pk_id p /\
    (forall i, ev_decl e = Some i -> exists d, In d (pk_defs p) /\ td_id d = i).
Proof.
  intros fx p. induction gens as [|g r IH]; intros G evs o ws H e He; cbn [pkg_gens] in H.
  - inversion H; subst. contradiction.
  - destruct (session_default fx p g G) as [[[evs1 o1] b1]| |] eqn:Es; cbn [bind] in H; try discriminate.
    assert (H1 : In e evs1 -> is_callback e = true /\ ev_pkg e = pk_id p /\
                 (forall i, ev_decl e = Some i -> exists d, In d (pk_defs p) /\ td_id d = i)).
    { intros Hin. unfold session_default in Es. destruct (session_events _ _ _ _ _ _ _ _ _ _ Es e Hin) as [Ha Hb].
      repeat split; try assumption. intros i Hi. eapply session_calls_own_defs; eassumption. }
    destruct o1.
    + destruct (pkg_gens fx p r G) as [[[evs2 o2] ws2]| |] eqn:Er; cbn [bind] in H; try discriminate.
      inversion H; subst. apply in_app_or in He. destruct He as [He|He]; [apply H1; exact He|].
      exact (IH _ _ _ _ Er e He).
    + inversion H; subst. apply H1. exact He.
    + inversion H; subst. apply H1. exact He.
Qed.

(* the callbacks of a package all come before its write event *)
Lemma pkg_execute_shape : forall fx p gens G evs o,
  pkg_execute fx p gens G = Ok (evs, o) ->
  exists cb w, evs = cb ++ w
    /\ (forall e, In e cb -> is_callback e = true /\ ev_pkg e = pk_id p /\
                  (forall i, ev_decl e = Some i -> exists d, In d (pk_defs p) /\ td_id d = i))
    /\ (w = [] \/ (o = Done /\ exists ws, w = [EWrites (pk_id p) ws])).
Proof.
  intros fx p gens G evs o H. unfold pkg_execute in H.
  destruct (pkg_gens fx p gens G) as [[[evs1 o1] ws]| |] eqn:Eg; cbn [bind] in H; try discriminate.
  assert (Hcb := pkg_gens_events _ _ _ _ _ _ _ Eg).
  destruct o1; inversion H; subst.
  - exists evs1. eexists. split; [reflexivity|]. split; [exact Hcb|].
    destruct (is_nil ws); [left; reflexivity | right; split; [reflexivity | eexists; reflexivity]].
  - exists evs, []. rewrite app_nil_r. split; [reflexivity|]. split; [exact Hcb | left; reflexivity].
  - exists evs, []. rewrite app_nil_r. split; [reflexivity|]. split; [exact Hcb | left; reflexivity].
Qed.

(* types of other packages never: every call event of a run belongs to a processed package and is
   for a declaration of that package *)
Lemma execute_calls_own_package : forall fx all pkgs gens G evs o,
  execute fx all pkgs gens G = Ok (evs, o) ->
  forall e i, In e evs -> ev_decl e = Some i ->
    exists p, In p pkgs /\ (all || pk_direct p = true) /\ ev_pkg e = pk_id p /\ exists d, In d (pk_defs p) /\ td_id d = i.
Proof.
  intros fx all. induction pkgs as [|p r IH]; intros gens G evs o H e i He Hi; cbn [execute] in H.
  - inversion H; subst. contradiction.
  - destruct (all || pk_direct p) eqn:Ep.
    + destruct (pkg_execute fx p gens G) as [[evs1 o1]| |] eqn:Ex; cbn [bind] in H; try discriminate.
      destruct (pkg_execute_shape _ _ _ _ _ _ Ex) as [cb [w [Hs [Hcb Hw]]]].
      assert (H1 : In e evs1 -> exists p0, In p0 (p :: r) /\ (all || pk_direct p0 = true) /\ ev_pkg e = pk_id p0 /\
                                   exists d, In d (pk_defs p0) /\ td_id d = i).
      { intros Hin. subst evs1. apply in_app_or in Hin. destruct Hin as [Hin|Hin].
        - destruct (Hcb e Hin) as [_ [Hp Hd]]. exists p. split; [left; reflexivity|]. split; [exact Ep|]. split; [exact Hp|]. apply Hd. exact Hi.
        - destruct Hw as [Hw|[_ [ws Hw]]]; subst w; [contradiction|]. destruct Hin as [Hin|[]]. subst e. discriminate. }
      destruct o1.
      * destruct (execute fx all r gens G) as [[evs2 o2]| |] eqn:Er; cbn [bind] in H; try discriminate.
        inversion H; subst. apply in_app_or in He. destruct He as [He|He]; [apply H1; exact He|].
        destruct (IH _ _ _ _ Er e i He Hi) as [p0 [Hp0 Hrest]]. exists p0. split; [right; exact Hp0 | exact Hrest].
      * inversion H; subst. apply H1. exact He.
      * inversion H; subst. apply H1. exact He.
    + destruct (IH _ _ _ _ H e i He Hi) as [p0 [Hp0 Hrest]]. exists p0. split; [right; exact Hp0 | exact Hrest].
Qed.

(* ------------------------------------------------------------------------------------------ *)
(* the code as it was found                                                                   *)

Definition wit_gen : gen := mk_gen 0 (bs "deep") false.
Definition wit_globals : tags := [(bs "gengo:deep", [[]])].
Definition wit_T : tdef := mk_tdef 1 (bs "T") KNamed true [] ANil [].        (* type T struct{} *)
Definition wit_Tparam : tdef := mk_tdef 2 (bs "T") KOther false [] ANil [].  (* func F[T any]() *)
Definition wit_L : tdef := mk_tdef 3 (bs "L") KNamed false [] ANil [].       (* func G() { type L struct{} } *)

Lemma unfixed_table_order_dependent :
  exists defs pi1 pi2, Permutation pi1 defs /\ Permutation pi2 defs /\
    do_generate wit_gen wit_globals [] (type_table false pi1) (keys (type_table false pi1))
    <> do_generate wit_gen wit_globals [] (type_table false pi2) (keys (type_table false pi2)).
Proof.
  exists [wit_T; wit_Tparam], [wit_T; wit_Tparam], [wit_Tparam; wit_T].
  split; [apply Permutation_refl|]. split; [apply perm_swap|]. vm_compute. discriminate.
Qed.

Lemma unfixed_local_type_called :
  exists defs cs, do_generate wit_gen wit_globals [] (type_table false defs) (keys (type_table false defs)) = Ok (cs, false)
                  /\ In (CT, wit_L) cs /\ td_pkgscope wit_L = false.
Proof. exists [wit_L], [(CT, wit_L)]. split; [vm_compute; reflexivity|]. split; [left; reflexivity | reflexivity]. Qed.

Lemma snapshot_defer_loop_drops_nested :
  exists q, forallb no_err_tree q = true /\ In 502%N (ids_all q) /\ ~ In 502%N (fst (run_defers_snapshot q)).
Proof.
  exists [DS 501 false [DS 502 false []]]. split; [reflexivity|]. split; [right; left; reflexivity|].
  vm_compute. intros [H|[]]. discriminate.
Qed.

(* ------------------------------------------------------------------------------------------ *)
(* exactly once (no generator error): the In / NoDup reading                                  *)

Lemma exactly_once : forall g G P defs pi ns,
  NoDup (keys G) -> NoDup (keys P) ->
  (forall d, In d defs -> NoDup (keys (td_tags d))) ->
  NoDup (map td_name (filter td_pkgscope defs)) ->
  Permutation pi defs ->
  Permutation ns (keys (type_table true pi)) ->
  (forall d, In d defs -> td_action d <> AErr) ->
  exists cs,
    do_generate g G P (type_table true pi) ns = Ok (cs, false)
    /\ NoDup cs
    /\ forall k d, In (k, d) cs <->
         In d defs /\ td_pkgscope d = true /\ enabled_eff_spec (g_name g) G P (td_tags d) = true /\
         ((k = CT /\ td_kind d = KNamed) \/ (k = CA /\ td_kind d = KAlias /\ g_alias g = true)).
Proof.
  intros g G P defs pi ns HG HP Htags Hnd Hpi Hns Hne.
  exists (expected_calls g G P defs). split; [|split].
  - rewrite (do_generate_spec g G P defs pi ns) by assumption. f_equal. apply cut_err_no_err.
    apply forallb_forall. intros [k d] Hc. apply expected_calls_In in Hc. destruct Hc as [Hin _].
    cbn [snd]. specialize (Hne d Hin). destruct (td_action d); try reflexivity. congruence.
  - apply expected_calls_nodup. exact Hnd.
  - intros k d. apply expected_calls_In.
Qed.

(* ------------------------------------------------------------------------------------------ *)
(* a whole run does not depend on the order of TypesInfo.Defs                                 *)

Definition pkg_wf (p : pkg) : Prop :=
  NoDup (map td_name (filter td_pkgscope (pk_defs p))) /\ (forall d, In d (pk_defs p) -> NoDup (keys (td_tags d))).
(* the same package, its definitions met in another order *)
Definition pkg_perm (p p' : pkg) : Prop :=
  pk_id p = pk_id p' /\ pk_direct p = pk_direct p' /\ pk_filetags p = pk_filetags p' /\ Permutation (pk_defs p') (pk_defs p).

Lemma session_default_perm : forall p p' g G,
  NoDup (keys G) -> pkg_wf p -> pkg_perm p p' ->
  session_default fixed_all p g G = session_default fixed_all p' g G.
Proof.
  intros p p' g G HG [Hnd Htags] (Hid & _ & Hf & Hp).
  unfold session_default, session. rewrite <- Hid, <- Hf. cbn [fixed_all fx_scope fx_defer].
  assert (HP : NoDup (keys (pkg_tags (pk_filetags p)))) by apply merge_nodup.
  rewrite (do_generate_spec g G _ (pk_defs p) (pk_defs p) _ HG HP Htags Hnd (Permutation_refl _) (Permutation_refl _)).
  rewrite (do_generate_spec g G _ (pk_defs p) (pk_defs p') _ HG HP Htags Hnd Hp (Permutation_refl _)).
  reflexivity.
Qed.

Lemma pkg_gens_perm : forall p p' gens G,
  NoDup (keys G) -> pkg_wf p -> pkg_perm p p' ->
  pkg_gens fixed_all p gens G = pkg_gens fixed_all p' gens G.
Proof.
  intros p p' gens G HG Hwf Hp. induction gens as [|g r IH]; cbn [pkg_gens]; [reflexivity|].
  rewrite (session_default_perm p p' g G HG Hwf Hp). rewrite IH. reflexivity.
Qed.

Lemma pkg_execute_perm : forall p p' gens G,
  NoDup (keys G) -> pkg_wf p -> pkg_perm p p' ->
  pkg_execute fixed_all p gens G = pkg_execute fixed_all p' gens G.
Proof.
  intros p p' gens G HG Hwf Hp. unfold pkg_execute. rewrite (pkg_gens_perm p p' gens G HG Hwf Hp).
  destruct Hp as (Hid & _). rewrite Hid. reflexivity.
Qed.

Lemma execute_perm : forall all pkgs pkgs' gens G,
  NoDup (keys G) -> Forall pkg_wf pkgs -> Forall2 pkg_perm pkgs pkgs' ->
  execute fixed_all all pkgs gens G = execute fixed_all all pkgs' gens G.
Proof.
  intros all pkgs pkgs' gens G HG Hwf H2. induction H2 as [|p p' r r' Hp Hr IH]; [reflexivity|].
  inversion Hwf as [|? ? Hwfp Hwfr]; subst. cbn [execute].
  rewrite (pkg_execute_perm p p' gens G HG Hwfp Hp). rewrite (IH Hwfr).
  destruct Hp as (_ & Hd & _). rewrite Hd. reflexivity.
Qed.
