(* Lemmas about Model/Dispatch.v (C06). *)
Require Import Gengo.Base.Bytes Gengo.Model.Dispatch.
Require Import Permutation Sorted.

(* ------------------------------------------------------------------------------------------ *)
(* association lists                                                                          *)

Lemma bytes_eqb_false_neq : forall a b, bytes_eqb a b = false <-> a <> b.
Proof.
  intros a b. split.
  - intros H E. subst. rewrite bytes_eqb_refl in H. discriminate.
  - intros H. destruct (bytes_eqb a b) eqn:E; [|reflexivity]. apply bytes_eqb_spec in E. contradiction.
Qed.

Lemma bytes_eqb_sym : forall a b, bytes_eqb a b = bytes_eqb b a.
Proof.
  intros a b. destruct (bytes_eqb a b) eqn:E.
  - apply bytes_eqb_spec in E. subst. symmetry. apply bytes_eqb_refl.
  - symmetry. apply bytes_eqb_false_neq. apply bytes_eqb_false_neq in E. congruence.
Qed.

Section MapLemmas.
  Context {V : Type}.
  Implicit Types (m : list (bytes * V)) (k : bytes) (v : V).

  Lemma lookup_Some_In : forall m k v, lookup k m = Some v -> In (k, v) m.
  Proof.
    induction m as [|[k' v'] r IH]; intros k v H; cbn in H; [discriminate|].
    destruct (bytes_eqb k' k) eqn:E.
    - apply bytes_eqb_spec in E. inversion H; subst. left; reflexivity.
    - right. apply IH. exact H.
  Qed.

  Lemma lookup_None_notin : forall m k, lookup k m = None <-> ~ In k (keys m).
  Proof.
    induction m as [|[k' v'] r IH]; intros k; cbn.
    - split; [intros _ H; exact H | reflexivity].
    - destruct (bytes_eqb k' k) eqn:E.
      + apply bytes_eqb_spec in E. subst. split; [discriminate|]. intros H. exfalso. apply H. left; reflexivity.
      + apply bytes_eqb_false_neq in E. rewrite IH. split.
        * intros H [H1|H1]; [contradiction|]. apply H; exact H1.
        * intros H H1. apply H. right; exact H1.
  Qed.

  Lemma lookup_In : forall m k v, NoDup (keys m) -> In (k, v) m -> lookup k m = Some v.
  Proof.
    induction m as [|[k' v'] r IH]; intros k v Hnd Hin; cbn in *; [contradiction|].
    inversion Hnd as [|? ? Hnotin Hnd']; subst.
    destruct Hin as [Heq|Hin].
    - inversion Heq; subst. rewrite bytes_eqb_refl. reflexivity.
    - destruct (bytes_eqb k' k) eqn:E.
      + apply bytes_eqb_spec in E. subst. exfalso. apply Hnotin.
        change k with (fst (k, v)). apply in_map. exact Hin.
      + apply IH; assumption.
  Qed.

  Lemma lookup_perm : forall m m' k, NoDup (keys m) -> Permutation m m' -> lookup k m = lookup k m'.
  Proof.
    intros m m' k Hnd Hp.
    assert (Hnd' : NoDup (keys m')).
    { eapply Permutation_NoDup; [|exact Hnd]. apply Permutation_map. exact Hp. }
    destruct (lookup k m) as [v|] eqn:E.
    - symmetry. apply lookup_In; [exact Hnd'|]. eapply Permutation_in; [exact Hp|]. apply lookup_Some_In. exact E.
    - symmetry. apply lookup_None_notin. apply lookup_None_notin in E. intros H. apply E.
      eapply Permutation_in; [|exact H]. apply Permutation_map. apply Permutation_sym. exact Hp.
  Qed.

  Lemma map_set_lookup_same : forall m k v, lookup k (map_set k v m) = Some v.
  Proof.
    induction m as [|[k' v'] r IH]; intros k v; cbn.
    - rewrite bytes_eqb_refl. reflexivity.
    - destruct (bytes_eqb k' k) eqn:E; cbn.
      + rewrite bytes_eqb_refl. reflexivity.
      + rewrite E. apply IH.
  Qed.

  Lemma map_set_lookup_other : forall m k k' v, k' <> k -> lookup k' (map_set k v m) = lookup k' m.
  Proof.
    induction m as [|[k0 v0] r IH]; intros k k' v Hne; cbn.
    - assert (E : bytes_eqb k k' = false) by (apply bytes_eqb_false_neq; congruence).
      rewrite E. reflexivity.
    - destruct (bytes_eqb k0 k) eqn:E; cbn.
      + apply bytes_eqb_spec in E. subst k0.
        assert (E : bytes_eqb k k' = false) by (apply bytes_eqb_false_neq; congruence).
        rewrite E. reflexivity.
      + destruct (bytes_eqb k0 k'); [reflexivity|]. apply IH. exact Hne.
  Qed.

  Lemma map_set_keys_in : forall m k v k', In k' (keys (map_set k v m)) <-> k' = k \/ In k' (keys m).
  Proof.
    unfold keys.
    induction m as [|[k0 v0] r IH]; intros k v k'; cbn.
    - split; intros [H|H]; auto; contradiction.
    - destruct (bytes_eqb k0 k) eqn:E; cbn.
      + apply bytes_eqb_spec in E. subst k0. split; intros H; intuition congruence.
      + rewrite IH. split; intros H; intuition.
  Qed.

  Lemma map_set_notin : forall m k v, ~ In k (keys m) -> map_set k v m = m ++ [(k, v)].
  Proof.
    induction m as [|[k0 v0] r IH]; intros k v H; cbn in *; [reflexivity|].
    destruct (bytes_eqb k0 k) eqn:E.
    - apply bytes_eqb_spec in E. subst. exfalso. apply H. left; reflexivity.
    - f_equal. apply IH. intros H1. apply H. right; exact H1.
  Qed.

  Lemma map_set_nodup : forall m k v, NoDup (keys m) -> NoDup (keys (map_set k v m)).
  Proof.
    induction m as [|[k0 v0] r IH]; intros k v Hnd; cbn.
    - constructor; [intros H; exact H | constructor].
    - inversion Hnd as [|? ? Hnotin Hnd']; subst.
      destruct (bytes_eqb k0 k) eqn:E; cbn.
      + apply bytes_eqb_spec in E. subst k0. constructor; assumption.
      + constructor.
        * intros H. apply map_set_keys_in in H. destruct H as [H|H].
          -- apply bytes_eqb_false_neq in E. congruence.
          -- apply Hnotin. exact H.
        * apply IH. exact Hnd'.
  Qed.
End MapLemmas.

(* ------------------------------------------------------------------------------------------ *)
(* IsGeneratorEnabled                                                                         *)

(* the declarative reading of the rule *)
Definition enabled_spec (g : bytes) (t : tags) : bool :=
  match lookup (gengo_prefix g) t with
  | Some vs => negb (bytes_eqb (concat vs) str_false)
  | None => existsb (fun kv => has_prefix (gengo_prefix g ++ colon) (fst kv)) t
  end.

Lemma enabled_loop_spec : forall p t acc,
  enabled_loop p t acc =
  match lookup p t with
  | Some vs => negb (bytes_eqb (concat vs) str_false)
  | None => acc || existsb (fun kv => has_prefix (p ++ colon) (fst kv)) t
  end.
Proof.
  induction t as [|[k vs] r IH]; intros acc; cbn [enabled_loop lookup existsb fst].
  - rewrite orb_false_r. reflexivity.
  - destruct (bytes_eqb k p) eqn:E; [reflexivity|].
    destruct (has_prefix (p ++ colon) k) eqn:H; rewrite IH; destruct (lookup p r); try reflexivity.
    cbn. rewrite orb_true_r. reflexivity.
Qed.

Lemma enabled_is_spec : forall g t, is_generator_enabled g t = enabled_spec g t.
Proof. intros g t. unfold is_generator_enabled, enabled_spec. rewrite enabled_loop_spec. reflexivity. Qed.

Lemma existsb_perm : forall {A} (f : A -> bool) l l', Permutation l l' -> existsb f l = existsb f l'.
Proof.
  intros A f l l' Hp. induction Hp; cbn.
  - reflexivity.
  - rewrite IHHp. reflexivity.
  - rewrite !orb_assoc. rewrite (orb_comm (f y) (f x)). reflexivity.
  - congruence.
Qed.

Lemma enabled_order_independent : forall g t t',
  NoDup (keys t) -> Permutation t t' -> is_generator_enabled g t = is_generator_enabled g t'.
Proof.
  intros g t t' Hnd Hp. rewrite !enabled_is_spec. unfold enabled_spec.
  rewrite (lookup_perm t t' _ Hnd Hp). rewrite (existsb_perm _ t t' Hp). reflexivity.
Qed.

(* only the tags of THIS generator matter: gengo:<g> and gengo:<g>:… *)
Definition relevant (g : bytes) (k : bytes) : bool :=
  bytes_eqb k (gengo_prefix g) || has_prefix (gengo_prefix g ++ colon) k.

Lemma lookup_filter_keys : forall {V} (f : bytes -> bool) (m : list (bytes * V)) k,
  f k = true -> lookup k (filter (fun kv => f (fst kv)) m) = lookup k m.
Proof.
  intros V f m k Hk. induction m as [|[k' v'] r IH]; cbn; [reflexivity|].
  destruct (f k') eqn:Ef; cbn.
  - rewrite IH. reflexivity.
  - destruct (bytes_eqb k' k) eqn:E.
    + apply bytes_eqb_spec in E. congruence.
    + exact IH.
Qed.

Lemma enabled_only_own_tags : forall g t,
  is_generator_enabled g t = is_generator_enabled g (filter (fun kv => relevant g (fst kv)) t).
Proof.
  intros g t. rewrite !enabled_is_spec. unfold enabled_spec.
  rewrite (lookup_filter_keys (relevant g)).
  2:{ unfold relevant. rewrite bytes_eqb_refl. reflexivity. }
  destruct (lookup (gengo_prefix g) t); [reflexivity|].
  induction t as [|[k vs] r IH]; [reflexivity|].
  cbn [filter existsb fst].
  unfold relevant at 1.
  destruct (has_prefix (gengo_prefix g ++ colon) k) eqn:H.
  - rewrite orb_true_r. cbn [existsb fst]. rewrite H. reflexivity.
  - rewrite orb_false_r. destruct (bytes_eqb k (gengo_prefix g)); cbn [existsb fst orb]; [rewrite H|]; cbn [orb]; exact IH.
Qed.

Lemma has_prefix_app : forall p s, has_prefix p (p ++ s) = true.
Proof. induction p as [|a p IH]; intros s; cbn; [reflexivity|]. rewrite Ascii.eqb_refl. apply IH. Qed.

Lemma has_prefix_app_inv : forall p q s, has_prefix (p ++ q) (p ++ s) = has_prefix q s.
Proof. induction p as [|a p IH]; intros q s; cbn; [reflexivity|]. rewrite Ascii.eqb_refl. apply IH. Qed.

(* a tag of a generator whose name merely STARTS with g (next byte not ':') is not a tag of g *)
Lemma longer_name_not_relevant : forall g c rest tail,
  c <> ":"%char -> relevant g (gengo_prefix (g ++ c :: rest) ++ tail) = false.
Proof.
  intros g c rest tail Hc. unfold relevant, gengo_prefix.
  apply orb_false_iff. split.
  - apply bytes_eqb_false_neq. intros H.
    rewrite <- !app_assoc in H. apply app_inv_head in H.
    rewrite <- (app_nil_r g) in H at 2. apply app_inv_head in H. discriminate.
  - rewrite <- !app_assoc. rewrite has_prefix_app_inv. rewrite has_prefix_app_inv.
    change colon with [":"%char]. cbn [has_prefix app].
    destruct (Ascii.eqb ":" c) eqn:E; [|reflexivity].
    apply Ascii.eqb_eq in E. congruence.
Qed.

Lemma enabled_ignores_longer_names : forall g c rest t,
  c <> ":"%char ->
  (forall k, In k (keys t) -> exists tail, k = gengo_prefix (g ++ c :: rest) ++ tail) ->
  is_generator_enabled g t = false.
Proof.
  intros g c rest t Hc Hall. rewrite enabled_only_own_tags.
  replace (filter (fun kv => relevant g (fst kv)) t) with (@nil (bytes * list bytes)); [reflexivity|].
  symmetry. induction t as [|[k vs] r IH]; cbn; [reflexivity|].
  destruct (Hall k) as [tail Hk]; [left; reflexivity|].
  rewrite Hk at 1. rewrite longer_name_not_relevant by exact Hc.
  apply IH. intros k' Hin. apply Hall. right. exact Hin.
Qed.

(* ------------------------------------------------------------------------------------------ *)
(* merge: declaration over package over global                                                *)

Lemma merge_into_lookup : forall t m k, NoDup (keys t) ->
  lookup k (merge_into m t) = match lookup k t with Some v => Some v | None => lookup k m end.
Proof.
  unfold merge_into.
  induction t as [|[k0 v0] r IH]; intros m k Hnd; cbn [fold_left lookup fst snd]; [reflexivity|].
  inversion Hnd as [|? ? Hnotin Hnd']; subst.
  rewrite IH by exact Hnd'.
  destruct (bytes_eqb k0 k) eqn:E.
  - apply bytes_eqb_spec in E. subst k0.
    assert (Hn : lookup k r = None) by (apply lookup_None_notin; exact Hnotin).
    rewrite Hn. apply map_set_lookup_same.
  - destruct (lookup k r); [reflexivity|].
    apply map_set_lookup_other. apply bytes_eqb_false_neq in E. congruence.
Qed.

Lemma merge_into_nodup : forall t m, NoDup (keys m) -> NoDup (keys (merge_into m t)).
Proof.
  unfold merge_into. induction t as [|[k0 v0] r IH]; intros m H; cbn; [exact H|].
  apply IH. apply map_set_nodup. exact H.
Qed.

Lemma merge_into_keys_in : forall t m k, In k (keys (merge_into m t)) <-> In k (keys m) \/ In k (keys t).
Proof.
  unfold merge_into. induction t as [|[k0 v0] r IH]; intros m k; cbn [fold_left fst snd].
  - cbn. intuition.
  - rewrite IH. rewrite map_set_keys_in. cbn. intuition.
Qed.

Lemma merge_nodup_from : forall tl m, NoDup (keys m) -> NoDup (keys (fold_left merge_into tl m)).
Proof. induction tl as [|t tl IH]; intros m H; cbn; [exact H|]. apply IH. apply merge_into_nodup. exact H. Qed.

Lemma merge_nodup : forall tl, NoDup (keys (merge tl)).
Proof. intros tl. unfold merge. apply merge_nodup_from. constructor. Qed.

Definition or_else {A} (a b : option A) : option A := match a with Some x => Some x | None => b end.

Lemma doc_tags_lookup : forall G P d k,
  NoDup (keys G) -> NoDup (keys P) -> NoDup (keys (td_tags d)) ->
  lookup k (doc_tags G P d) = or_else (lookup k (td_tags d)) (or_else (lookup k P) (lookup k G)).
Proof.
  intros G P d k HG HP HD. unfold doc_tags, merge. cbn [fold_left].
  rewrite !merge_into_lookup by assumption. cbn [lookup].
  unfold or_else. destruct (lookup k (td_tags d)), (lookup k P), (lookup k G); reflexivity.
Qed.

Lemma doc_tags_keys_in : forall G P d k,
  In k (keys (doc_tags G P d)) <-> In k (keys (td_tags d)) \/ In k (keys P) \/ In k (keys G).
Proof.
  intros. unfold doc_tags, merge. cbn [fold_left]. rewrite !merge_into_keys_in. cbn. intuition.
Qed.

(* package tags: the later file wins *)
Lemma pkg_tags_lookup_snoc : forall files t k, NoDup (keys t) ->
  lookup k (pkg_tags (files ++ [t])) = or_else (lookup k t) (lookup k (pkg_tags files)).
Proof.
  intros files t k Hnd. unfold pkg_tags, merge. rewrite fold_left_app. cbn [fold_left].
  rewrite merge_into_lookup by exact Hnd. reflexivity.
Qed.

Lemma existsb_same_members : forall {A} (f : A -> bool) l l',
  (forall x, In x l <-> In x l') -> existsb f l = existsb f l'.
Proof.
  intros A f l l' H. destruct (existsb f l) eqn:E.
  - apply existsb_exists in E. destruct E as [x [Hin Hf]]. symmetry. apply existsb_exists.
    exists x. split; [apply H; exact Hin | exact Hf].
  - symmetry. destruct (existsb f l') eqn:E'; [|reflexivity].
    apply existsb_exists in E'. destruct E' as [x [Hin Hf]].
    assert (existsb f l = true) by (apply existsb_exists; exists x; split; [apply H; exact Hin | exact Hf]).
    congruence.
Qed.

(* the rule, stated on the three levels *)
Definition enabled_eff_spec (g : bytes) (G P D : tags) : bool :=
  match or_else (lookup (gengo_prefix g) D) (or_else (lookup (gengo_prefix g) P) (lookup (gengo_prefix g) G)) with
  | Some vs => negb (bytes_eqb (concat vs) str_false)
  | None => existsb (has_prefix (gengo_prefix g ++ colon)) (keys D ++ keys P ++ keys G)
  end.

Lemma existsb_keys : forall (f : bytes -> bool) (t : tags), existsb (fun kv => f (fst kv)) t = existsb f (keys t).
Proof. intros f t. induction t as [|[k v] r IH]; cbn; [reflexivity|]. rewrite IH. reflexivity. Qed.

Lemma enabled_effective : forall g G P d t',
  NoDup (keys G) -> NoDup (keys P) -> NoDup (keys (td_tags d)) ->
  Permutation t' (doc_tags G P d) ->
  is_generator_enabled g t' = enabled_eff_spec g G P (td_tags d).
Proof.
  intros g G P d t' HG HP HD Hp.
  assert (Hnd : NoDup (keys (doc_tags G P d))) by apply merge_nodup.
  rewrite <- (enabled_order_independent g (doc_tags G P d) t' Hnd (Permutation_sym Hp)).
  rewrite enabled_is_spec. unfold enabled_spec, enabled_eff_spec.
  rewrite doc_tags_lookup by assumption.
  destruct (or_else _ _); [reflexivity|].
  rewrite existsb_keys. apply existsb_same_members.
  intros k. rewrite doc_tags_keys_in. rewrite !in_app_iff. reflexivity.
Qed.
