(* RenderStack, part 3: the leaves are stable and register exactly what they say.
   ID / %T / PkgExpose leaves: by induction over C11's model (any tracker that always finds a name).
   Value / %v leaves: the literal of C10's model mentions only packages its rendering registers. *)
Require Import Gengo.Base.Bytes.
Require Import Gengo.Model.RenderStack Gengo.Proofs.RenderStackSnippet.
Require Gengo.Model.TypeLit Gengo.Proofs.TypeLit.
Require Gengo.Model.ValueLit Gengo.Proofs.ValueLitBase Gengo.Proofs.ValueLit.

Module PTL := Gengo.Proofs.TypeLit.

Scheme tref_mind := Induction for TL.tref Sort Prop
  with trefs_mind := Induction for TL.trefs Sort Prop.
Combined Scheme tref_mutind from tref_mind, trefs_mind.

Scheme tyview_mind := Induction for TL.tyview Sort Prop
  with vfields_mind := Induction for TL.vfields Sort Prop.
Combined Scheme tyview_mutind from tyview_mind, vfields_mind.

Notation ext := PTL.ext.

Lemma ext_antisym : forall a b : TL.renv, ext a b -> ext b a -> a = b.
Proof.
  intros a b [x Hx] [y Hy]. subst b. rewrite <- app_assoc in Hy.
  assert (L : length a = length (a ++ x ++ y)) by (rewrite <- Hy; reflexivity).
  rewrite !app_length in L. destruct x; [rewrite app_nil_r; reflexivity|cbn in L; lia].
Qed.

Section Tracker.
  Variable pick : bytes -> TL.renv -> option bytes.
  Hypothesis pick_total : forall p e, TL.alookup p e = None -> pick p e <> None.

  Notation tr_add := (TL.tr_add pick).
  Notation add_all := (add_all pick).

  Lemma tr_add_ext : forall p e, ext e (tr_add p e).
  Proof.
    intros p e. unfold TL.tr_add. destruct (TL.alookup p e); [apply PTL.ext_refl|].
    destruct (pick p e); [eexists; reflexivity|apply PTL.ext_refl].
  Qed.

  Lemma tr_add_bound : forall p e, exists n, TL.alookup p (tr_add p e) = Some n.
  Proof.
    intros p e. unfold TL.tr_add. destruct (TL.alookup p e) as [n|] eqn:E; [eauto|].
    destruct (pick p e) as [n|] eqn:P; [|exfalso; exact (pick_total p e E P)].
    exists n. rewrite PTL.alookup_app_none by exact E. cbn. rewrite bytes_eqb_refl. reflexivity.
  Qed.

  Lemma tr_add_registered : forall p e n, TL.alookup p e = Some n -> tr_add p e = e.
  Proof. intros p e n H. unfold TL.tr_add. rewrite H. reflexivity. Qed.

  (* the step AddType; LocalNameOf is stable *)
  Lemma step_stable : forall p e e2, ext (tr_add p e) e2 ->
    tr_add p e2 = e2 /\ TL.local_name_of p e2 = TL.local_name_of p (tr_add p e).
  Proof.
    intros p e e2 X. destruct (tr_add_bound p e) as [n L].
    pose proof (PTL.ext_alookup _ _ _ _ X L) as L2. split; [eapply tr_add_registered; eauto|].
    unfold TL.local_name_of. rewrite L, L2. reflexivity.
  Qed.

  Lemma add_all_app : forall a b e, add_all (a ++ b) e = add_all b (add_all a e).
  Proof. intros a b e. unfold RenderStack.add_all. apply fold_left_app. Qed.

  Lemma add_all_ext : forall ps e, ext e (add_all ps e).
  Proof.
    induction ps as [|p r IH]; intros e; [apply PTL.ext_refl|]. cbn.
    eapply PTL.ext_trans; [apply tr_add_ext|apply IH].
  Qed.

  Lemma add_all_cons : forall p ps e, add_all (p :: ps) e = add_all ps (tr_add p e).
  Proof. reflexivity. Qed.

  (* re-adding what is registered changes nothing *)
  Lemma add_all_fix : forall ps e e2, ext (add_all ps e) e2 -> add_all ps e2 = e2.
  Proof.
    induction ps as [|p r IH]; intros e e2 X; [reflexivity|]. rewrite add_all_cons in *.
    assert (X1 : ext (tr_add p e) e2) by (eapply PTL.ext_trans; [apply add_all_ext|exact X]).
    rewrite (proj1 (step_stable p e e2 X1)). eapply IH. 
    destruct (tr_add_bound p e) as [n L]. exact X.
  Qed.

  Lemma add_all_paths : forall ps e q, In q (map fst (add_all ps e)) <-> In q (map fst e) \/ In q ps.
  Proof.
    induction ps as [|p r IH]; intros e q; [cbn; tauto|]. rewrite add_all_cons, IH. cbn [In].
    assert (H : In q (map fst (tr_add p e)) <-> In q (map fst e) \/ p = q).
    { unfold TL.tr_add. destruct (TL.alookup p e) as [n|] eqn:E.
      - split; [tauto|]. intros [H|<-]; [exact H|]. apply PTL.alookup_in in E.
        apply in_map_iff. exists (p, n). split; [reflexivity|exact E].
      - destruct (pick p e) as [n|] eqn:P; [|exfalso; exact (pick_total p e E P)].
        rewrite map_app, in_app_iff. cbn. tauto. }
    rewrite H. tauto.
  Qed.

  Lemma add_all_bound : forall ps e p, In p ps -> exists n, TL.alookup p (add_all ps e) = Some n.
  Proof.
    induction ps as [|q r IH]; intros e p Hin; [destruct Hin|]. rewrite add_all_cons.
    destruct Hin as [->|Hin]; [|apply IH; exact Hin].
    destruct (tr_add_bound p e) as [n L]. exists n. eapply PTL.ext_alookup; [apply add_all_ext|exact L].
  Qed.

  (* a registered foreign package keeps its qualifier *)
  Lemma add_all_local : forall ps e e2 p, In p ps -> ext (add_all ps e) e2 ->
    TL.local_name_of p e2 = TL.local_name_of p (add_all ps e).
  Proof.
    intros ps e e2 p Hin X. destruct (add_all_bound ps e p Hin) as [n L].
    unfold TL.local_name_of. rewrite L, (PTL.ext_alookup _ _ _ _ X L). reflexivity.
  Qed.

  (* ---------------------------------------------------------------------------------------- *)
  (* ident.Frag                                                                                *)
  Section Id.
    Variable parse : bytes -> option TL.tref.
    Variable self : bytes.
    Variable cbq : bytes -> bool.
    Variables fe ft : bool.

    Notation walk := (TL.walk pick self).
    Notation walks := (TL.walks pick self).
    Notation tref_regs := (tref_regs self).
    Notation trefs_regs := (trefs_regs self).
    Notation name_regs := (name_regs self parse).
    Notation view_regs := (RenderStack.view_regs self parse).
    Notation fields_regs := (RenderStack.fields_regs self parse).

    Lemma walk_eq : forall pkg name args e,
      walk (TL.TRef pkg name args) e =
      let '(pkg', e1) :=
        if is_nil pkg then (pkg, e)
        else if bytes_eqb pkg self then ([], e)
        else let e1 := tr_add pkg e in (TL.local_name_of pkg e1, e1) in
      let '(args', e2) := walks args e1 in
      (TL.TRef pkg' name args', e2).
    Proof. reflexivity. Qed.

    Lemma tref_regs_eq : forall pkg name args,
      tref_regs (TL.TRef pkg name args) =
      (if is_nil pkg then [] else if bytes_eqb pkg self then [] else [pkg]) ++ trefs_regs args.
    Proof. reflexivity. Qed.

    Lemma trefs_regs_cons : forall t r, trefs_regs (TL.TRCons t r) = tref_regs t ++ trefs_regs r.
    Proof. reflexivity. Qed.

    Lemma walks_cons : forall t r e,
      walks (TL.TRCons t r) e =
      let '(t', e1) := walk t e in let '(r', e2) := walks r e1 in (TL.TRCons t' r', e2).
    Proof. reflexivity. Qed.

    Lemma walk_spec :
      (forall t e t' e1, walk t e = (t', e1) ->
         e1 = add_all (tref_regs t) e /\ forall e2, ext e1 e2 -> walk t e2 = (t', e2)) /\
      (forall l e l' e1, walks l e = (l', e1) ->
         e1 = add_all (trefs_regs l) e /\ forall e2, ext e1 e2 -> walks l e2 = (l', e2)).
    Proof.
      apply tref_mutind.
      - intros pkg name args IH e t' e1 H. rewrite walk_eq in H. rewrite tref_regs_eq.
        destruct (is_nil pkg) eqn:En; [|destruct (bytes_eqb pkg self) eqn:Es]; cbv beta iota zeta in H.
        + destruct (walks args e) as [args' e2] eqn:W. inversion H; subst. destruct (IH _ _ _ W) as [E S].
          split; [exact E|]. intros e3 X. rewrite walk_eq, En. cbv beta iota zeta. rewrite (S e3 X). reflexivity.
        + destruct (walks args e) as [args' e2] eqn:W. inversion H; subst. destruct (IH _ _ _ W) as [E S].
          split; [exact E|]. intros e3 X. rewrite walk_eq, En, Es. cbv beta iota zeta. rewrite (S e3 X). reflexivity.
        + destruct (walks args (tr_add pkg e)) as [args' e2] eqn:W. inversion H; subst.
          destruct (IH _ _ _ W) as [E S]. split; [exact E|]. intros e3 X.
          assert (X1 : ext (tr_add pkg e) e3).
          { eapply PTL.ext_trans; [|exact X]. rewrite E. apply add_all_ext. }
          destruct (step_stable pkg e e3 X1) as [A B]. rewrite walk_eq, En, Es. cbv beta iota zeta.
          rewrite A, B, (S e3 X). reflexivity.
      - intros e l' e1 H. cbn in H. inversion H; subst. split; [reflexivity|]. intros e2 _. reflexivity.
      - intros t IHt r IHr e l' e1 H. rewrite walks_cons in H. rewrite trefs_regs_cons.
        destruct (walk t e) as [t' ea] eqn:W1. destruct (walks r ea) as [r' eb] eqn:W2. inversion H; subst.
        destruct (IHt _ _ _ W1) as [E1 S1]. destruct (IHr _ _ _ W2) as [E2 S2].
        split; [rewrite add_all_app, <- E1; exact E2|]. intros e3 X.
        assert (X1 : ext ea e3). { eapply PTL.ext_trans; [|exact X]. rewrite E2. apply add_all_ext. }
        rewrite walks_cons, (S1 e3 X1), (S2 e3 X). reflexivity.
    Qed.

    Definition res_spec {A} (f : TL.renv -> res (A * TL.renv)) (regs : list bytes) : Prop :=
      forall e a e1, f e = Ok (a, e1) ->
        e1 = add_all regs e /\ forall e2, ext e1 e2 -> f e2 = Ok (a, e2).

    Definition pn_regs (name : bytes) : list bytes :=
      match parse name with
      | None => []
      | Some (TL.TRef _ _ TL.TRNil) => []
      | Some t => tref_regs t
      end.

    Lemma process_name_spec : forall name, res_spec (TL.process_name pick parse self name) (pn_regs name).
    Proof.
      intros name e a e1 H. unfold TL.process_name, pn_regs in *.
      destruct (parse name) as [[p n [|a0 r0]]|]; [| |discriminate].
      - inversion H; subst. split; [reflexivity|]. intros; reflexivity.
      - destruct (walk (TL.TRef p n (TL.TRCons a0 r0)) e) as [t' ea] eqn:W. inversion H; subst.
        destruct (proj1 walk_spec _ _ _ _ W) as [E S]. split; [exact E|]. intros e2 X. rewrite (S e2 X). reflexivity.
    Qed.

    Definition self_ast (pkg name : bytes) (tps : list bytes) (t : TL.tref) : TL.tyast :=
      match t, tps with
      | TL.TRef [] [] TL.TRNil, [] => TL.ARaw (pkg ++ [TL.dot] ++ name)
      | _, _ => TL.named_ast false [] t tps
      end.

    Lemma self_branch_eq : forall pkg name tps t (e : TL.renv),
      (match t, tps with
       | TL.TRef [] [] TL.TRNil, [] => Ok (TL.ARaw (pkg ++ [TL.dot] ++ name), e)
       | _, _ => Ok (TL.named_ast false [] t tps, e)
       end) = Ok (self_ast pkg name tps t, e).
    Proof. intros pkg name tps [[|? ?] [|? ?] [|? ?]] e; destruct tps; reflexivity. Qed.

    Lemma namer_name_spec : forall pkg name tps,
      res_spec (TL.namer_name pick parse self pkg name tps) (name_regs pkg name).
    Proof.
      intros pkg name tps e a e1 H. unfold TL.namer_name in H.
      destruct (TL.process_name pick parse self name e) as [[t ea]| |] eqn:PN; cbn [bind] in H; try discriminate.
      destruct (process_name_spec name _ _ _ PN) as [Ea Sa].
      change (name_regs pkg name) with (pn_regs name ++ (if bytes_eqb pkg self then [] else [pkg])).
      destruct (bytes_eqb pkg self) eqn:Es.
      - rewrite self_branch_eq in H. inversion H; subst. split; [rewrite app_nil_r; reflexivity|].
        intros e2 X. unfold TL.namer_name. rewrite (Sa e2 X). cbn [bind]. rewrite Es, self_branch_eq. reflexivity.
      - cbv zeta in H. inversion H; subst. split; [rewrite add_all_app; reflexivity|].
        intros e2 X. unfold TL.namer_name.
        assert (X1 : ext (add_all (pn_regs name) e) e2) by (eapply PTL.ext_trans; [apply tr_add_ext|exact X]).
        rewrite (Sa e2 X1). cbn [bind]. rewrite Es. cbv zeta.
        destruct (step_stable pkg _ e2 X) as [A B]. rewrite A, B. reflexivity.
    Qed.

    Notation type_lit := (TL.type_lit pick parse self cbq fe ft).
    Notation fields_lit := (TL.fields_lit pick parse self cbq fe ft).

    Lemma res_spec_map1 : forall {A B} (f : TL.renv -> res (A * TL.renv)) (g : A -> B) regs,
      res_spec f regs -> res_spec (fun e => let! (a, e1) := f e in Ok (g a, e1)) regs.
    Proof.
      intros A B f g regs S e b e1 H. destruct (f e) as [[a ea]| |] eqn:E; cbn [bind] in H; try discriminate.
      inversion H; subst. destruct (S _ _ _ E) as [E1 S1]. split; [exact E1|]. intros e2 X.
      rewrite (S1 e2 X). reflexivity.
    Qed.

    Lemma type_lit_map_eq : forall k x e,
      type_lit (TL.VMap k x) e =
      (let! (ak, e1) := type_lit k e in let! (ax, e2) := type_lit x e1 in Ok (TL.AMap ak ax, e2)).
    Proof. reflexivity. Qed.

    Lemma fields_lit_cons_eq : forall name anon t tag rest e,
      fields_lit (TL.VFCons name anon t tag rest) e =
      (let! (a, e1) := type_lit t e in
       let! (r, e2) := fields_lit rest e1 in
       Ok (TL.AFCons (if anon then [] else name) anon a (TL.tag_lit cbq ft tag) r, e2)).
    Proof. reflexivity. Qed.

    Lemma view_regs_map_eq : forall k x, view_regs (TL.VMap k x) = view_regs k ++ view_regs x.
    Proof. reflexivity. Qed.

    Lemma fields_regs_cons_eq : forall name anon t tag rest,
      fields_regs (TL.VFCons name anon t tag rest) = view_regs t ++ fields_regs rest.
    Proof. reflexivity. Qed.

    Lemma type_lit_spec :
      (forall v, res_spec (type_lit v) (view_regs v)) /\
      (forall fs, res_spec (fields_lit fs) (fields_regs fs)).
    Proof.
      apply tyview_mutind.
      - intros pkg name. apply namer_name_spec.
      - intros x IH. exact (res_spec_map1 _ TL.AStar _ IH).
      - intros x IH. exact (res_spec_map1 _ TL.AChan _ IH).
      - intros fs IH. exact (res_spec_map1 _ TL.AStruct _ IH).
      - intros n x IH. exact (res_spec_map1 _ (TL.AArray n) _ IH).
      - intros x IH. exact (res_spec_map1 _ TL.ASlice _ IH).
      - intros k IHk x IHx e a e1 H. rewrite type_lit_map_eq in H. rewrite view_regs_map_eq.
        destruct (type_lit k e) as [[ak ea]| |] eqn:E1; cbn [bind] in H; try discriminate.
        destruct (type_lit x ea) as [[ax eb]| |] eqn:E2; cbn [bind] in H; try discriminate.
        inversion H; subst. destruct (IHk _ _ _ E1) as [A1 S1]. destruct (IHx _ _ _ E2) as [A2 S2].
        split; [rewrite add_all_app, <- A1; exact A2|]. intros e2 X.
        assert (X1 : ext ea e2). { eapply PTL.ext_trans; [|exact X]. rewrite A2. apply add_all_ext. }
        rewrite type_lit_map_eq, (S1 e2 X1). cbn [bind]. rewrite (S2 e2 X). reflexivity.
      - intros name e a e1 H. cbn [TL.type_lit RenderStack.view_regs] in *.
        destruct (fe && bytes_eqb name (bs "error")); inversion H; subst; (split; [reflexivity|]; intros; reflexivity).
      - intros s e a e1 H. cbn in H. inversion H; subst. split; [reflexivity|]. intros; reflexivity.
      - intros e a e1 H. cbn in H. inversion H; subst. split; [reflexivity|]. intros; reflexivity.
      - intros name anon t IHt tag rest IHr e a e1 H. rewrite fields_lit_cons_eq in H. rewrite fields_regs_cons_eq.
        destruct (type_lit t e) as [[at' ea]| |] eqn:E1; cbn [bind] in H; try discriminate.
        destruct (fields_lit rest ea) as [[ar eb]| |] eqn:E2; cbn [bind] in H; try discriminate.
        inversion H; subst. destruct (IHt _ _ _ E1) as [A1 S1]. destruct (IHr _ _ _ E2) as [A2 S2].
        split; [rewrite add_all_app, <- A1; exact A2|]. intros e2 X.
        assert (X1 : ext ea e2). { eapply PTL.ext_trans; [|exact X]. rewrite A2. apply add_all_ext. }
        rewrite fields_lit_cons_eq, (S1 e2 X1). cbn [bind]. rewrite (S2 e2 X). reflexivity.
    Qed.

    Lemma ident_frag_spec : forall x,
      res_spec (TL.ident_frag pick parse self cbq fe ft x) (idarg_regs self parse x).
    Proof.
      intros x e a e1 H. destruct x as [s|s|p n tps|v|v|]; cbn [TL.ident_frag RenderStack.idarg_regs] in *.
      - destruct (TL.parse_ref s) as [[p n]|]; [exact (namer_name_spec p n [] e a e1 H)|].
        inversion H; subst. split; [reflexivity|]. intros; reflexivity.
      - destruct (TL.parse_ref s) as [[p n]|]; [exact (namer_name_spec p n [] e a e1 H)|].
        inversion H; subst. split; [reflexivity|]. intros; reflexivity.
      - exact (namer_name_spec p n tps e a e1 H).
      - exact (proj1 type_lit_spec v e a e1 H).
      - exact (proj1 type_lit_spec v e a e1 H).
      - discriminate.
    Qed.
  End Id.
End Tracker.
