(* RenderStack, part 3: the leaves are stable and register exactly what they say.
   ID / %T / PkgExpose leaves: by induction over C11's model (any tracker that always finds a name).
   Value / %v leaves: the literal of C10's model mentions only packages its rendering registers. *)
Require Import Gengo.Base.Bytes.
Require Import Gengo.Model.RenderStack Gengo.Proofs.RenderStackSnippet.
Require Gengo.Model.TypeLit Gengo.Proofs.TypeLit.
Require Gengo.Model.ValueLit Gengo.Proofs.ValueLitBase Gengo.Proofs.ValueLit.

Module PTL := Gengo.Proofs.TypeLit.

Scheme tref_mind := Induction for TL.tref Sort Prop
  with trefs_mind := Induction for TL.trefs Sort Prop.
Combined Scheme tref_mutind from tref_mind, trefs_mind.

Scheme tyview_mind := Induction for TL.tyview Sort Prop
  with vfields_mind := Induction for TL.vfields Sort Prop.
Combined Scheme tyview_mutind from tyview_mind, vfields_mind.

Notation ext := PTL.ext.

Lemma ext_antisym : forall a b : TL.renv, ext a b -> ext b a -> a = b.
Proof.
  intros a b [x Hx] [y Hy]. subst b. rewrite <- app_assoc in Hy.
  assert (L : length a = length (a ++ x ++ y)) by (rewrite <- Hy; reflexivity).
  rewrite !app_length in L. destruct x; [rewrite app_nil_r; reflexivity|cbn in L; lia].
Qed.

Section Tracker.
  Variable pick : bytes -> TL.renv -> option bytes.
  Hypothesis pick_total : forall p e, TL.alookup p e = None -> pick p e <> None.

  Notation tr_add := (TL.tr_add pick).
  Notation add_all := (add_all pick).

  Lemma tr_add_ext : forall p e, ext e (tr_add p e).
  Proof.
    intros p e. unfold TL.tr_add. destruct (TL.alookup p e); [apply PTL.ext_refl|].
    destruct (pick p e); [eexists; reflexivity|apply PTL.ext_refl].
  Qed.

  Lemma tr_add_bound : forall p e, exists n, TL.alookup p (tr_add p e) = Some n.
  Proof.
    intros p e. unfold TL.tr_add. destruct (TL.alookup p e) as [n|] eqn:E; [eauto|].
    destruct (pick p e) as [n|] eqn:P; [|exfalso; exact (pick_total p e E P)].
    exists n. rewrite PTL.alookup_app_none by exact E. cbn. rewrite bytes_eqb_refl. reflexivity.
  Qed.

  Lemma tr_add_registered : forall p e n, TL.alookup p e = Some n -> tr_add p e = e.
  Proof. intros p e n H. unfold TL.tr_add. rewrite H. reflexivity. Qed.

  (* the step AddType; LocalNameOf is stable *)
  Lemma step_stable : forall p e e2, ext (tr_add p e) e2 ->
    tr_add p e2 = e2 /\ TL.local_name_of p e2 = TL.local_name_of p (tr_add p e).
  Proof.
    intros p e e2 X. destruct (tr_add_bound p e) as [n L].
    pose proof (PTL.ext_alookup _ _ _ _ X L) as L2. split; [eapply tr_add_registered; eauto|].
    unfold TL.local_name_of. rewrite L, L2. reflexivity.
  Qed.

  Lemma add_all_app : forall a b e, add_all (a ++ b) e = add_all b (add_all a e).
  Proof. intros a b e. unfold RenderStack.add_all. apply fold_left_app. Qed.

  Lemma add_all_ext : forall ps e, ext e (add_all ps e).
  Proof.
    induction ps as [|p r IH]; intros e; [apply PTL.ext_refl|]. cbn.
    eapply PTL.ext_trans; [apply tr_add_ext|apply IH].
  Qed.

  Lemma add_all_cons : forall p ps e, add_all (p :: ps) e = add_all ps (tr_add p e).
  Proof. reflexivity. Qed.

  (* re-adding what is registered changes nothing *)
  Lemma add_all_fix : forall ps e e2, ext (add_all ps e) e2 -> add_all ps e2 = e2.
  Proof.
    induction ps as [|p r IH]; intros e e2 X; [reflexivity|]. rewrite add_all_cons in *.
    assert (X1 : ext (tr_add p e) e2) by (eapply PTL.ext_trans; [apply add_all_ext|exact X]).
    rewrite (proj1 (step_stable p e e2 X1)). eapply IH. 
    destruct (tr_add_bound p e) as [n L]. exact X.
  Qed.

  Lemma add_all_paths : forall ps e q, In q (map fst (add_all ps e)) <-> In q (map fst e) \/ In q ps.
  Proof.
    induction ps as [|p r IH]; intros e q; [cbn; tauto|]. rewrite add_all_cons, IH. cbn [In].
    assert (H : In q (map fst (tr_add p e)) <-> In q (map fst e) \/ p = q).
    { unfold TL.tr_add. destruct (TL.alookup p e) as [n|] eqn:E.
      - split; [tauto|]. intros [H|<-]; [exact H|]. apply PTL.alookup_in in E.
        apply in_map_iff. exists (p, n). split; [reflexivity|exact E].
      - destruct (pick p e) as [n|] eqn:P; [|exfalso; exact (pick_total p e E P)].
        rewrite map_app, in_app_iff. cbn. tauto. }
    rewrite H. tauto.
  Qed.

  Lemma add_all_bound : forall ps e p, In p ps -> exists n, TL.alookup p (add_all ps e) = Some n.
  Proof.
    induction ps as [|q r IH]; intros e p Hin; [destruct Hin|]. rewrite add_all_cons.
    destruct Hin as [->|Hin]; [|apply IH; exact Hin].
    destruct (tr_add_bound p e) as [n L]. exists n. eapply PTL.ext_alookup; [apply add_all_ext|exact L].
  Qed.

  (* a registered foreign package keeps its qualifier *)
  Lemma add_all_local : forall ps e e2 p, In p ps -> ext (add_all ps e) e2 ->
    TL.local_name_of p e2 = TL.local_name_of p (add_all ps e).
  Proof.
    intros ps e e2 p Hin X. destruct (add_all_bound ps e p Hin) as [n L].
    unfold TL.local_name_of. rewrite L, (PTL.ext_alookup _ _ _ _ X L). reflexivity.
  Qed.

  (* ---------------------------------------------------------------------------------------- *)
  (* ident.Frag                                                                                *)
  Section Id.
    Variable parse : bytes -> option TL.tref.
    Variable self : bytes.
    Variable cbq : bytes -> bool.
    Variables fe ft : bool.

    Notation walk := (TL.walk pick self).
    Notation walks := (TL.walks pick self).
    Notation tref_regs := (tref_regs self).
    Notation trefs_regs := (trefs_regs self).
    Notation name_regs := (name_regs self parse).
    Notation view_regs := (RenderStack.view_regs self parse).
    Notation fields_regs := (RenderStack.fields_regs self parse).

    Lemma walk_eq : forall pkg name args e,
      walk (TL.TRef pkg name args) e =
      let '(pkg', e1) :=
        if is_nil pkg then (pkg, e)
        else if bytes_eqb pkg self then ([], e)
        else let e1 := tr_add pkg e in (TL.local_name_of pkg e1, e1) in
      let '(args', e2) := walks args e1 in
      (TL.TRef pkg' name args', e2).
    Proof. reflexivity. Qed.

    Lemma tref_regs_eq : forall pkg name args,
      tref_regs (TL.TRef pkg name args) =
      (if is_nil pkg then [] else if bytes_eqb pkg self then [] else [pkg]) ++ trefs_regs args.
    Proof. reflexivity. Qed.

    Lemma trefs_regs_cons : forall t r, trefs_regs (TL.TRCons t r) = tref_regs t ++ trefs_regs r.
    Proof. reflexivity. Qed.

    Lemma walks_cons : forall t r e,
      walks (TL.TRCons t r) e =
      let '(t', e1) := walk t e in let '(r', e2) := walks r e1 in (TL.TRCons t' r', e2).
    Proof. reflexivity. Qed.

    Lemma walk_spec :
      (forall t e t' e1, walk t e = (t', e1) ->
         e1 = add_all (tref_regs t) e /\ forall e2, ext e1 e2 -> walk t e2 = (t', e2)) /\
      (forall l e l' e1, walks l e = (l', e1) ->
         e1 = add_all (trefs_regs l) e /\ forall e2, ext e1 e2 -> walks l e2 = (l', e2)).
    Proof.
      apply tref_mutind.
      - intros pkg name args IH e t' e1 H. rewrite walk_eq in H. rewrite tref_regs_eq.
        destruct (is_nil pkg) eqn:En; [|destruct (bytes_eqb pkg self) eqn:Es]; cbv beta iota zeta in H.
        + destruct (walks args e) as [args' e2] eqn:W. inversion H; subst. destruct (IH _ _ _ W) as [E S].
          split; [exact E|]. intros e3 X. rewrite walk_eq, En. cbv beta iota zeta. rewrite (S e3 X). reflexivity.
        + destruct (walks args e) as [args' e2] eqn:W. inversion H; subst. destruct (IH _ _ _ W) as [E S].
          split; [exact E|]. intros e3 X. rewrite walk_eq, En, Es. cbv beta iota zeta. rewrite (S e3 X). reflexivity.
        + destruct (walks args (tr_add pkg e)) as [args' e2] eqn:W. inversion H; subst.
          destruct (IH _ _ _ W) as [E S]. split; [exact E|]. intros e3 X.
          assert (X1 : ext (tr_add pkg e) e3).
          { eapply PTL.ext_trans; [|exact X]. rewrite E. apply add_all_ext. }
          destruct (step_stable pkg e e3 X1) as [A B]. rewrite walk_eq, En, Es. cbv beta iota zeta.
          rewrite A, B, (S e3 X). reflexivity.
      - intros e l' e1 H. cbn in H. inversion H; subst. split; [reflexivity|]. intros e2 _. reflexivity.
      - intros t IHt r IHr e l' e1 H. rewrite walks_cons in H. rewrite trefs_regs_cons.
        destruct (walk t e) as [t' ea] eqn:W1. destruct (walks r ea) as [r' eb] eqn:W2. inversion H; subst.
        destruct (IHt _ _ _ W1) as [E1 S1]. destruct (IHr _ _ _ W2) as [E2 S2].
        split; [rewrite add_all_app, <- E1; exact E2|]. intros e3 X.
        assert (X1 : ext ea e3). { eapply PTL.ext_trans; [|exact X]. rewrite E2. apply add_all_ext. }
        rewrite walks_cons, (S1 e3 X1), (S2 e3 X). reflexivity.
    Qed.

    Definition res_spec {A} (f : TL.renv -> res (A * TL.renv)) (regs : list bytes) : Prop :=
      forall e a e1, f e = Ok (a, e1) ->
        e1 = add_all regs e /\ forall e2, ext e1 e2 -> f e2 = Ok (a, e2).

    Definition pn_regs (name : bytes) : list bytes :=
      match parse name with
      | None => []
      | Some (TL.TRef _ _ TL.TRNil) => []
      | Some t => tref_regs t
      end.

    Lemma process_name_spec : forall name, res_spec (TL.process_name pick parse self name) (pn_regs name).
    Proof.
      intros name e a e1 H. unfold TL.process_name, pn_regs in *.
      destruct (parse name) as [[p n [|a0 r0]]|]; [| |discriminate].
      - inversion H; subst. split; [reflexivity|]. intros; reflexivity.
      - destruct (walk (TL.TRef p n (TL.TRCons a0 r0)) e) as [t' ea] eqn:W. inversion H; subst.
        destruct (proj1 walk_spec _ _ _ _ W) as [E S]. split; [exact E|]. intros e2 X. rewrite (S e2 X). reflexivity.
    Qed.

    Definition self_ast (pkg name : bytes) (tps : list bytes) (t : TL.tref) : TL.tyast :=
      match t, tps with
      | TL.TRef [] [] TL.TRNil, [] => TL.ARaw (pkg ++ [TL.dot] ++ name)
      | _, _ => TL.named_ast false [] t tps
      end.

    Lemma self_branch_eq : forall pkg name tps t (e : TL.renv),
      (match t, tps with
       | TL.TRef [] [] TL.TRNil, [] => Ok (TL.ARaw (pkg ++ [TL.dot] ++ name), e)
       | _, _ => Ok (TL.named_ast false [] t tps, e)
       end) = Ok (self_ast pkg name tps t, e).
    Proof. intros pkg name tps [[|? ?] [|? ?] [|? ?]] e; destruct tps; reflexivity. Qed.

    Lemma namer_name_spec : forall pkg name tps,
      res_spec (TL.namer_name pick parse self pkg name tps) (name_regs pkg name).
    Proof.
      intros pkg name tps e a e1 H. unfold TL.namer_name in H.
      destruct (TL.process_name pick parse self name e) as [[t ea]| |] eqn:PN; cbn [bind] in H; try discriminate.
      destruct (process_name_spec name _ _ _ PN) as [Ea Sa].
      change (name_regs pkg name) with (pn_regs name ++ (if bytes_eqb pkg self then [] else [pkg])).
      destruct (bytes_eqb pkg self) eqn:Es.
      - rewrite self_branch_eq in H. inversion H; subst. split; [rewrite app_nil_r; reflexivity|].
        intros e2 X. unfold TL.namer_name. rewrite (Sa e2 X). cbn [bind]. rewrite Es, self_branch_eq. reflexivity.
      - cbv zeta in H. inversion H; subst. split; [rewrite add_all_app; reflexivity|].
        intros e2 X. unfold TL.namer_name.
        assert (X1 : ext (add_all (pn_regs name) e) e2) by (eapply PTL.ext_trans; [apply tr_add_ext|exact X]).
        rewrite (Sa e2 X1). cbn [bind]. rewrite Es. cbv zeta.
        destruct (step_stable pkg _ e2 X) as [A B]. rewrite A, B. reflexivity.
    Qed.

    Notation type_lit := (TL.type_lit pick parse self cbq fe ft).
    Notation fields_lit := (TL.fields_lit pick parse self cbq fe ft).

    Lemma res_spec_map1 : forall {A B} (f : TL.renv -> res (A * TL.renv)) (g : A -> B) regs,
      res_spec f regs -> res_spec (fun e => let! (a, e1) := f e in Ok (g a, e1)) regs.
    Proof.
      intros A B f g regs S e b e1 H. destruct (f e) as [[a ea]| |] eqn:E; cbn [bind] in H; try discriminate.
      inversion H; subst. destruct (S _ _ _ E) as [E1 S1]. split; [exact E1|]. intros e2 X.
      rewrite (S1 e2 X). reflexivity.
    Qed.

    Lemma type_lit_map_eq : forall k x e,
      type_lit (TL.VMap k x) e =
      (let! (ak, e1) := type_lit k e in let! (ax, e2) := type_lit x e1 in Ok (TL.AMap ak ax, e2)).
    Proof. reflexivity. Qed.

    Lemma fields_lit_cons_eq : forall name anon t tag rest e,
      fields_lit (TL.VFCons name anon t tag rest) e =
      (let! (a, e1) := type_lit t e in
       let! (r, e2) := fields_lit rest e1 in
       Ok (TL.AFCons (if anon then [] else name) anon a (TL.tag_lit cbq ft tag) r, e2)).
    Proof. reflexivity. Qed.

    Lemma view_regs_map_eq : forall k x, view_regs (TL.VMap k x) = view_regs k ++ view_regs x.
    Proof. reflexivity. Qed.

    Lemma fields_regs_cons_eq : forall name anon t tag rest,
      fields_regs (TL.VFCons name anon t tag rest) = view_regs t ++ fields_regs rest.
    Proof. reflexivity. Qed.

    Lemma type_lit_spec :
      (forall v, res_spec (type_lit v) (view_regs v)) /\
      (forall fs, res_spec (fields_lit fs) (fields_regs fs)).
    Proof.
      apply tyview_mutind.
      - intros pkg name. apply namer_name_spec.
      - intros x IH. exact (res_spec_map1 _ TL.AStar _ IH).
      - intros x IH. exact (res_spec_map1 _ TL.AChan _ IH).
      - intros fs IH. exact (res_spec_map1 _ TL.AStruct _ IH).
      - intros n x IH. exact (res_spec_map1 _ (TL.AArray n) _ IH).
      - intros x IH. exact (res_spec_map1 _ TL.ASlice _ IH).
      - intros k IHk x IHx e a e1 H. rewrite type_lit_map_eq in H. rewrite view_regs_map_eq.
        destruct (type_lit k e) as [[ak ea]| |] eqn:E1; cbn [bind] in H; try discriminate.
        destruct (type_lit x ea) as [[ax eb]| |] eqn:E2; cbn [bind] in H; try discriminate.
        inversion H; subst. destruct (IHk _ _ _ E1) as [A1 S1]. destruct (IHx _ _ _ E2) as [A2 S2].
        split; [rewrite add_all_app, <- A1; exact A2|]. intros e2 X.
        assert (X1 : ext ea e2). { eapply PTL.ext_trans; [|exact X]. rewrite A2. apply add_all_ext. }
        rewrite type_lit_map_eq, (S1 e2 X1). cbn [bind]. rewrite (S2 e2 X). reflexivity.
      - intros name e a e1 H. cbn [TL.type_lit RenderStack.view_regs] in *.
        destruct (fe && bytes_eqb name (bs "error")); inversion H; subst; (split; [reflexivity|]; intros; reflexivity).
      - intros s e a e1 H. cbn in H. inversion H; subst. split; [reflexivity|]. intros; reflexivity.
      - intros e a e1 H. cbn in H. inversion H; subst. split; [reflexivity|]. intros; reflexivity.
      - intros name anon t IHt tag rest IHr e a e1 H. rewrite fields_lit_cons_eq in H. rewrite fields_regs_cons_eq.
        destruct (type_lit t e) as [[at' ea]| |] eqn:E1; cbn [bind] in H; try discriminate.
        destruct (fields_lit rest ea) as [[ar eb]| |] eqn:E2; cbn [bind] in H; try discriminate.
        inversion H; subst. destruct (IHt _ _ _ E1) as [A1 S1]. destruct (IHr _ _ _ E2) as [A2 S2].
        split; [rewrite add_all_app, <- A1; exact A2|]. intros e2 X.
        assert (X1 : ext ea e2). { eapply PTL.ext_trans; [|exact X]. rewrite A2. apply add_all_ext. }
        rewrite fields_lit_cons_eq, (S1 e2 X1). cbn [bind]. rewrite (S2 e2 X). reflexivity.
    Qed.

    Lemma ident_frag_spec : forall x,
      res_spec (TL.ident_frag pick parse self cbq fe ft x) (idarg_regs self parse x).
    Proof.
      intros x e a e1 H. destruct x as [s|s|p n tps|v|v|]; cbn [TL.ident_frag RenderStack.idarg_regs] in *.
      - destruct (TL.parse_ref s) as [[p n]|]; [exact (namer_name_spec p n [] e a e1 H)|].
        inversion H; subst. split; [reflexivity|]. intros; reflexivity.
      - destruct (TL.parse_ref s) as [[p n]|]; [exact (namer_name_spec p n [] e a e1 H)|].
        inversion H; subst. split; [reflexivity|]. intros; reflexivity.
      - exact (namer_name_spec p n tps e a e1 H).
      - exact (proj1 type_lit_spec v e a e1 H).
      - exact (proj1 type_lit_spec v e a e1 H).
      - discriminate.
    Qed.
  End Id.
End Tracker.

(* ------------------------------------------------------------------------------------------ *)
(* value literals (C10's model): which packages a literal mentions, and what it depends on       *)
Module VLB := Gengo.Proofs.ValueLitBase.

Lemma in_insert_kv : forall {A} (e x : bytes * A) l, In x (insert_kv e l) <-> x = e \/ In x l.
Proof.
  intros A e x l. induction l as [|y r IH]; cbn [insert_kv]; [cbn; intuition congruence|].
  destruct (VL.bytes_leb (fst e) (fst y)); cbn [In]; [intuition congruence|]. rewrite IH. cbn [In]. intuition congruence.
Qed.

Lemma in_sort_kv : forall {A} (x : bytes * A) l, In x (sort_kv l) <-> In x l.
Proof.
  intros A x l. induction l as [|y r IH]; [reflexivity|]. unfold sort_kv in *. cbn [fold_right].
  rewrite in_insert_kv, IH. cbn [In]. intuition congruence.
Qed.

Lemma assoc_last_some_in : forall {A} k (v : A) l, VL.assoc_last k l = Some v -> In (k, v) l.
Proof.
  intros A k v l. induction l as [|[k' w] r IH]; intros H; cbn [VL.assoc_last] in H; [discriminate|].
  destruct (VL.assoc_last k r) as [x|] eqn:E.
  - inversion H; subst. right. apply IH. reflexivity.
  - destruct (bytes_eqb k k') eqn:Ek; [|discriminate]. inversion H; subst.
    apply bytes_eqb_spec in Ek. subst. left. reflexivity.
Qed.

Section Value.
  Context {F : Type}.
  Variable fzero : F -> bool.
  Variables ffmt gfmt : VL.fkind -> F -> bytes.
  Variable fbig : F -> bool.
  Variable quote : bytes -> bytes.
  Variable fx6 : bool.

  Notation goval := (VL.goval F).
  Notation vlit := (vlit fzero ffmt gfmt fbig quote).
  Notation value_regs := (value_regs fzero ffmt gfmt fbig quote fx6).
  Notation renders_nothing := (renders_nothing fzero).
  Notation key_text := (key_text fzero ffmt gfmt fbig quote).

  (* ---- printing depends on the qualifiers of the mentioned packages only ---- *)
  Lemma print_ty_struct_eq : forall local fs,
    VL.print_ty local (VL.YStruct fs) =
    bs "struct {" ++ concat (map (fun f => fst f ++ bs " " ++ VL.print_ty local (snd f) ++ [VL.nl]) fs) ++ bs "}".
  Proof. reflexivity. Qed.

  Lemma ty_pkgs_struct_eq : forall fs, ty_pkgs (VL.YStruct fs) = flat_map (fun f => ty_pkgs (snd f)) fs.
  Proof. reflexivity. Qed.

  Lemma print_ty_ext : forall l1 l2 t, (forall p, In p (ty_pkgs t) -> l1 p = l2 p) ->
    VL.print_ty l1 t = VL.print_ty l2 t.
  Proof.
    intros l1 l2. fix IH 1. intros [p n|e|e|n e|k e|fs] H.
    - cbn [VL.print_ty ty_pkgs] in *. rewrite (H p (or_introl eq_refl)). reflexivity.
    - cbn [VL.print_ty ty_pkgs] in *. rewrite (IH e H). reflexivity.
    - cbn [VL.print_ty ty_pkgs] in *. rewrite (IH e H). reflexivity.
    - cbn [VL.print_ty ty_pkgs] in *. rewrite (IH e H). reflexivity.
    - cbn [VL.print_ty ty_pkgs] in *.
      rewrite (IH k), (IH e); [reflexivity| |]; intros p Hp; apply H; rewrite in_app_iff; auto.
    - rewrite !print_ty_struct_eq. rewrite ty_pkgs_struct_eq in H. f_equal. f_equal. f_equal.
      induction fs as [|f r IHr]; [reflexivity|]. cbn [map flat_map] in *.
      f_equal; [|apply IHr; intros p Hp; apply H; rewrite in_app_iff; auto].
      assert (E : VL.print_ty l1 (snd f) = VL.print_ty l2 (snd f)) by (apply IH; intros p Hp; apply H; rewrite in_app_iff; auto).
      f_equal. f_equal. f_equal. exact E.
  Qed.

  Lemma print_lit_composite_eq : forall local ty es,
    VL.print_lit quote local (VL.LComposite ty es) =
    VL.print_ty local ty ++ bs "{" ++ (if is_nil es then [] else [VL.nl])
    ++ concat (map (fun e => (if VL.is_knone (fst e) then [] else VL.print_lit quote local (fst e) ++ bs ":")
                             ++ VL.print_lit quote local (snd e) ++ bs "," ++ [VL.nl]) es)
    ++ bs "}".
  Proof. reflexivity. Qed.

  Lemma lit_pkgs_composite_eq : forall ty es,
    lit_pkgs (VL.LComposite ty es) = ty_pkgs ty ++ flat_map (fun e => lit_pkgs (fst e) ++ lit_pkgs (snd e)) es.
  Proof. reflexivity. Qed.

  Lemma print_lit_ext : forall l1 l2 l, (forall p, In p (lit_pkgs l) -> l1 p = l2 p) ->
    VL.print_lit quote l1 l = VL.print_lit quote l2 l.
  Proof.
    intros l1 l2. fix IH 1. intros l H. destruct l as [| |b|s|c|s|x|ty a|ty es| |n|]; try reflexivity.
    - cbn [VL.print_lit lit_pkgs] in *. rewrite (IH x H). reflexivity.
    - cbn [VL.print_lit lit_pkgs] in *.
      rewrite (print_ty_ext l1 l2 ty), (IH a); [reflexivity| |]; intros p Hp; apply H; rewrite in_app_iff; auto.
    - rewrite !print_lit_composite_eq. rewrite lit_pkgs_composite_eq in H.
      rewrite (print_ty_ext l1 l2 ty) by (intros p Hp; apply H; rewrite in_app_iff; auto).
      f_equal. f_equal. f_equal. f_equal. f_equal.
      assert (H' : forall p, In p (flat_map (fun e => lit_pkgs (fst e) ++ lit_pkgs (snd e)) es) -> l1 p = l2 p)
        by (intros p Hp; apply H; rewrite in_app_iff; auto).
      clear H. induction es as [|e r IHr]; [reflexivity|]. cbn [map flat_map] in *.
      f_equal; [|apply IHr; intros p Hp; apply H'; rewrite !in_app_iff; auto].
      assert (E1 : VL.print_lit quote l1 (fst e) = VL.print_lit quote l2 (fst e)) by (apply IH; intros p Hp; apply H'; rewrite !in_app_iff; auto).
      assert (E2 : VL.print_lit quote l1 (snd e) = VL.print_lit quote l2 (snd e)) by (apply IH; intros p Hp; apply H'; rewrite !in_app_iff; auto).
      f_equal; [destruct (VL.is_knone (fst e)); [reflexivity|f_equal; exact E1]|f_equal; exact E2].
  Qed.

  (* ---- unfolding equations of C10's model ---- *)
  Definition fld (local : bytes -> bytes) (f : bytes * VL.gotype) (x : goval) : res (option (VL.lit * VL.lit)) :=
    if VL.is_exported (fst f) && negb (VL.is_empty fzero x) then
      let! l := vlit local true (snd f) x in
      Ok (if VL.is_lempty l then None else Some (VL.LKField (fst f), l))
    else Ok None.

  Definition kvrow (local : bytes -> bytes) (kt et : VL.gotype) (kv : goval * goval) : res (bytes * (VL.lit * VL.lit)) :=
    let! kl := vlit local false kt (fst kv) in
    let! vl := vlit local false et (snd kv) in
    Ok (VL.print_lit quote local kl, (kl, vl)).

  Lemma vlit_ptr_eq : forall local sub t x,
    vlit local sub t (VL.VPtr x) =
    match VL.under t with
    | VL.TPtr e =>
        if VL.basic_kind true (VL.under e) then
          let! a := vlit local sub e x in Ok (VL.LPtrClosure (VL.type_lit e) a)
        else let! a := vlit local false e x in Ok (VL.LAddr a)
    | _ => Panic
    end.
  Proof. reflexivity. Qed.

  Lemma vlit_struct_eq : forall local sub t vs,
    vlit local sub t (VL.VStruct vs) =
    match VL.under t with
    | VL.TStruct fs =>
        let! outs := VL.map2r (fld local) fs vs in
        let es := VL.somes outs in
        if sub && is_nil es then Ok VL.LEmpty else Ok (VL.LComposite (VL.type_lit t) es)
    | _ => Panic
    end.
  Proof. reflexivity. Qed.

  Lemma vlit_map_eq : forall local sub t n m,
    vlit local sub t (VL.VMap n m) =
    match VL.under t with
    | VL.TMap kt et =>
        let! tbl := VL.mapr (kvrow local kt et) m in
        let keys := VL.isort (map fst tbl) in
        Ok (VL.LComposite (VL.type_lit t)
              (map (fun k => match VL.assoc_last k tbl with Some e => e | None => (VL.LOther, VL.LOther) end) keys))
    | _ => Panic
    end.
  Proof. reflexivity. Qed.

  Lemma vlit_slice_eq : forall local sub t n l,
    vlit local sub t (VL.VSlice n l) =
    match VL.under t with
    | VL.TSlice e => let! ls := VL.mapr (vlit local false e) l in Ok (VL.LComposite (VL.type_lit t) (map (fun x => (VL.LKNone, x)) ls))
    | _ => Panic
    end.
  Proof. reflexivity. Qed.

  Lemma vlit_array_eq : forall local sub t l,
    vlit local sub t (VL.VArray l) =
    match VL.under t with
    | VL.TArray _ e => let! ls := VL.mapr (vlit local false e) l in Ok (VL.LComposite (VL.type_lit t) (map (fun x => (VL.LKNone, x)) ls))
    | _ => Panic
    end.
  Proof. reflexivity. Qed.

  Definition regfld (f : bytes * VL.gotype) (x : goval) : list bytes :=
    if VL.is_exported (fst f) && negb (VL.is_empty fzero x) then value_regs true (snd f) x else [].

  Lemma regs_struct_eq : forall sub t vs,
    value_regs sub t (VL.VStruct vs) =
    match VL.under t with
    | VL.TStruct fs =>
        if fx6 && sub && renders_nothing t (VL.VStruct vs) then []
        else ty_pkgs (VL.type_lit t) ++ cat2 regfld fs vs
    | _ => []
    end.
  Proof. reflexivity. Qed.

  Lemma regs_map_eq : forall sub t n m,
    value_regs sub t (VL.VMap n m) =
    match VL.under t with
    | VL.TMap kt et =>
        ty_pkgs (VL.type_lit t)
        ++ flat_map (fun kv => value_regs false kt (fst kv)) m
        ++ concat (map snd (sort_kv (map (fun kv => (key_text kt (fst kv), value_regs false et (snd kv))) m)))
    | _ => []
    end.
  Proof. reflexivity. Qed.

  Lemma rn_struct_eq : forall t vs,
    renders_nothing t (VL.VStruct vs) =
    match VL.under t with
    | VL.TStruct fs =>
        all2 (fun (f : bytes * VL.gotype) (x : goval) =>
                negb (VL.is_exported (fst f)) || VL.is_empty fzero x || renders_nothing (snd f) x) fs vs
    | _ => false
    end.
  Proof. reflexivity. Qed.

  (* ---- a value that renders nothing: its literal is the empty text, whatever the qualifiers ---- *)
  Lemma renders_nothing_lempty : forall v t local l,
    renders_nothing t v = true -> vlit local true t v = Ok l -> l = VL.LEmpty.
  Proof.
    induction v as [b|z|x|s| |v IH|n l0 IH|l0 IH|n m IH|vs IH] using Gengo.Proofs.ValueLit.goval_ind';
      intros t local l R H; try discriminate.
    rewrite rn_struct_eq in R. rewrite vlit_struct_eq in H. destruct (VL.under t) as [| | | | | | | | |fs]; try discriminate.
    destruct (VL.map2r (fld local) fs vs) as [outs| |] eqn:M; cbn [bind] in H; try discriminate.
    assert (S : VL.somes outs = []).
    { clear H. revert fs outs R M. induction IH as [|x r Hx _ IHr]; intros fs outs R M.
      - destruct fs; cbn in M; inversion M; reflexivity.
      - destruct fs as [|f fr]; [cbn in M; discriminate|]. cbn [all2] in R. cbn [VL.map2r] in M.
        apply andb_true_iff in R. destruct R as [R1 R2].
        destruct (fld local f x) as [o| |] eqn:Ef; try discriminate.
        destruct (VL.map2r (fld local) fr r) as [os| |] eqn:Mr; try discriminate.
        inversion M; subst. cbn [VL.somes].
        assert (o = None).
        { unfold fld in Ef. destruct (VL.is_exported (fst f)) eqn:Ex; cbn [andb negb orb] in *; [|inversion Ef; reflexivity].
          destruct (VL.is_empty fzero x) eqn:Em; cbn [andb negb orb] in *; [inversion Ef; reflexivity|].
          destruct (vlit local true (snd f) x) as [lx| |] eqn:El; cbn [bind] in Ef; try discriminate.
          rewrite (Hx _ _ _ R1 El) in Ef. inversion Ef. reflexivity. }
        subst o. apply (IHr fr os R2 Mr). }
    rewrite S in H. cbn in H. inversion H. reflexivity.
  Qed.

  (* ---- L1, none missing: every package a literal mentions was handed to the namer ---- *)
  Lemma mapr_inv : forall {A B} (f : A -> res B) l ys, VL.mapr f l = Ok ys -> Forall2 (fun x y => f x = Ok y) l ys.
  Proof.
    intros A B f. induction l as [|x r IH]; intros ys H; cbn [VL.mapr] in H.
    - inversion H. constructor.
    - destruct (f x) as [y| |] eqn:E; try discriminate.
      destruct (VL.mapr f r) as [yr| |] eqn:Er; try discriminate. inversion H; subst. constructor; [exact E|apply IH; reflexivity].
  Qed.

  Lemma value_lit_pkgs : forall v local sub t l,
    vlit local sub t v = Ok l -> incl (lit_pkgs l) (value_regs sub t v).
  Proof.
    induction v as [b|z|x|s| |v IH|n l0 IH|l0 IH|n m IH|vs IH] using Gengo.Proofs.ValueLit.goval_ind';
      intros local sub t l H.
    - cbn in H. destruct (VL.under t); inversion H; intros p [].
    - cbn in H. destruct (VL.under t) as [|k| | | | | | | |]; try discriminate.
      destruct k; try (inversion H; intros p []; fail).
      destruct (VL.is_rune_type t && VL.rune_short z); inversion H; intros p [].
    - cbn in H. destruct (VL.under t); inversion H; intros p [].
    - cbn in H. destruct (VL.under t); inversion H; intros p [].
    - cbn in H. inversion H. intros p [].
    - rewrite vlit_ptr_eq in H. cbn [RenderStack.value_regs]. destruct (VL.under t) as [| | | | |e| | | |]; try discriminate.
      destruct (VL.basic_kind true (VL.under e)).
      + destruct (vlit local sub e v) as [a| |] eqn:E; cbn [bind] in H; try discriminate. inversion H; subst.
        cbn [lit_pkgs]. apply incl_app; [apply incl_appl, incl_refl|apply incl_appr, (IH _ _ _ _ E)].
      + destruct (vlit local false e v) as [a| |] eqn:E; cbn [bind] in H; try discriminate. inversion H; subst.
        cbn [lit_pkgs]. exact (IH _ _ _ _ E).
    - rewrite vlit_slice_eq in H. cbn [RenderStack.value_regs]. destruct (VL.under t) as [| | | | | |e| | |]; try discriminate.
      destruct (VL.mapr (vlit local false e) l0) as [ls| |] eqn:M; cbn [bind] in H; try discriminate. inversion H; subst.
      rewrite lit_pkgs_composite_eq. apply incl_app; [apply incl_appl, incl_refl|apply incl_appr].
      apply mapr_inv in M. clear H. induction M as [|x y rx ry Hxy _ IHm]; [intros p []|].
      inversion IH as [|? ? Hx Hr]; subst. cbn [map flat_map fst snd lit_pkgs app].
      apply incl_app; [apply incl_appl, (Hx _ _ _ _ Hxy)|apply incl_appr, IHm, Hr].
    - rewrite vlit_array_eq in H. cbn [RenderStack.value_regs]. destruct (VL.under t) as [| | | | | | |k e| |]; try discriminate.
      destruct (VL.mapr (vlit local false e) l0) as [ls| |] eqn:M; cbn [bind] in H; try discriminate. inversion H; subst.
      rewrite lit_pkgs_composite_eq. apply incl_app; [apply incl_appl, incl_refl|apply incl_appr].
      apply mapr_inv in M. clear H. induction M as [|x y rx ry Hxy _ IHm]; [intros p []|].
      inversion IH as [|? ? Hx Hr]; subst. cbn [map flat_map fst snd lit_pkgs app].
      apply incl_app; [apply incl_appl, (Hx _ _ _ _ Hxy)|apply incl_appr, IHm, Hr].
    - rewrite vlit_map_eq in H. rewrite regs_map_eq. destruct (VL.under t) as [| | | | | | | |kt et|]; try discriminate.
      destruct (VL.mapr (kvrow local kt et) m) as [tbl| |] eqn:M; cbn [bind] in H; try discriminate. inversion H; subst. clear H.
      rewrite lit_pkgs_composite_eq. apply incl_app; [apply incl_appl, incl_refl|apply incl_appr].
      apply mapr_inv in M.
      (* every row of the table is covered by the registrations of its entry *)
      assert (R : forall k e, In (k, e) tbl ->
                  incl (lit_pkgs (fst e) ++ lit_pkgs (snd e))
                       (flat_map (fun kv => value_regs false kt (fst kv)) m
                        ++ concat (map snd (sort_kv (map (fun kv => (key_text kt (fst kv), value_regs false et (snd kv))) m))))).
      { intros k e Hin. clear - IH M Hin. induction M as [|kv row rm rt Hrow _ IHm]; [destruct Hin|].
        inversion IH as [|? ? [Hk Hv] Hr]; subst.
        assert (Mono : forall a b : list bytes, incl a b -> forall x, incl a (x ++ b)) by (intros; apply incl_appr; assumption).
        destruct Hin as [->|Hin].
        - unfold kvrow in Hrow.
          destruct (vlit local false kt (fst kv)) as [kl| |] eqn:Ek; cbn [bind] in Hrow; try discriminate.
          destruct (vlit local false et (snd kv)) as [vl| |] eqn:Ev; cbn [bind] in Hrow; try discriminate.
          inversion Hrow; subst. cbn [fst snd map flat_map]. apply incl_app.
          + apply incl_appl, incl_appl. exact (Hk _ _ _ _ Ek).
          + apply incl_appr. intros p Hp. apply in_concat.
            exists (value_regs false et (snd kv)). split; [|exact (Hv _ _ _ _ Ev p Hp)].
            apply in_map_iff. exists (key_text kt (fst kv), value_regs false et (snd kv)). split; [reflexivity|].
            apply (proj2 (in_sort_kv _ _)). left. reflexivity.
        - specialize (IHm Hr Hin). intros p Hp. specialize (IHm p Hp). cbn [map flat_map].
          rewrite in_app_iff in *. destruct IHm as [H1|H1]; [left; rewrite in_app_iff; right; exact H1|right].
          apply in_concat in H1. destruct H1 as (x & Hx & Hpx). apply in_concat. exists x. split; [|exact Hpx].
          apply in_map_iff in Hx. destruct Hx as (y & <- & Hy). apply in_map_iff. exists y. split; [reflexivity|].
          apply (proj2 (in_sort_kv _ _)). right. apply (proj1 (in_sort_kv _ _)) in Hy. exact Hy. }
      intros p Hp. apply in_flat_map in Hp. destruct Hp as (e & He & Hpe).
      apply in_map_iff in He. destruct He as (k & Hk & _).
      destruct (VL.assoc_last k tbl) as [e'|] eqn:A.
      + subst e'. apply assoc_last_some_in in A. exact (R k e A p Hpe).
      + subst e. cbn in Hpe. destruct Hpe.
    - rewrite vlit_struct_eq in H. rewrite regs_struct_eq. destruct (VL.under t) as [| | | | | | | | |fs] eqn:U; try discriminate.
      destruct (VL.map2r (fld local) fs vs) as [outs| |] eqn:M; cbn [bind] in H; try discriminate.
      destruct (fx6 && sub && renders_nothing t (VL.VStruct vs)) eqn:C.
      + apply andb_true_iff in C. destruct C as [C R]. apply andb_true_iff in C. destruct C as [_ Hs]. subst sub.
        assert (L : l = VL.LEmpty).
        { eapply renders_nothing_lempty; [exact R|]. rewrite vlit_struct_eq, U, M. cbn [bind]. exact H. }
        subst l. intros p [].
      + destruct (sub && is_nil (VL.somes outs)); inversion H; subst; [intros p []|].
        rewrite lit_pkgs_composite_eq. apply incl_app; [apply incl_appl, incl_refl|apply incl_appr].
        clear H C U. revert fs outs M. induction IH as [|x r Hx _ IHr]; intros fs outs M.
        * destruct fs; cbn in M; inversion M; intros p [].
        * destruct fs as [|f fr]; [cbn in M; discriminate|]. cbn [VL.map2r] in M.
          destruct (fld local f x) as [o| |] eqn:Ef; try discriminate.
          destruct (VL.map2r (fld local) fr r) as [os| |] eqn:Mr; try discriminate. inversion M; subst.
          cbn [cat2]. specialize (IHr fr os Mr).
          destruct o as [e|]; cbn [VL.somes flat_map]; [|apply incl_appr, IHr].
          apply incl_app; [apply incl_appl|apply incl_appr, IHr].
          unfold fld in Ef. unfold regfld. destruct (VL.is_exported (fst f) && negb (VL.is_empty fzero x)); [|discriminate].
          destruct (vlit local true (snd f) x) as [lx| |] eqn:El; cbn [bind] in Ef; try discriminate.
          destruct (VL.is_lempty lx); inversion Ef; subst. cbn [fst snd lit_pkgs app]. exact (Hx _ _ _ _ El).
  Qed.

  (* ---- L2: the literal depends on the qualifiers of the registered packages only (they enter through the
     sort keys of maps) ---- *)
  Lemma mapr_ext : forall {A B} (f g : A -> res B) l, (forall x, In x l -> f x = g x) -> VL.mapr f l = VL.mapr g l.
  Proof.
    intros A B f g. induction l as [|x r IH]; intros H; [reflexivity|]. cbn [VL.mapr].
    rewrite (H x (or_introl eq_refl)), IH; [reflexivity|]. intros y Hy. apply H. right. exact Hy.
  Qed.

  Lemma renders_nothing_ext : forall v t l1 l2 sub,
    renders_nothing t v = true -> vlit l1 sub t v = vlit l2 sub t v.
  Proof.
    induction v as [b|z|x|s| |v IH|n l0 IH|l0 IH|n m IH|vs IH] using Gengo.Proofs.ValueLit.goval_ind';
      intros t l1 l2 sub R; try discriminate.
    rewrite rn_struct_eq in R. rewrite !vlit_struct_eq. destruct (VL.under t) as [| | | | | | | | |fs]; try discriminate.
    assert (E : VL.map2r (fld l1) fs vs = VL.map2r (fld l2) fs vs).
    { revert fs R. induction IH as [|x r Hx _ IHr]; intros fs R; [destruct fs; reflexivity|].
      destruct fs as [|f fr]; [reflexivity|]. cbn [all2] in R. apply andb_true_iff in R. destruct R as [R1 R2].
      cbn [VL.map2r]. rewrite (IHr fr R2).
      assert (Ef : fld l1 f x = fld l2 f x).
      { unfold fld. destruct (VL.is_exported (fst f)); cbn [andb negb orb] in *; [|reflexivity].
        destruct (VL.is_empty fzero x); cbn [andb negb orb] in *; [reflexivity|]. rewrite (Hx _ l1 l2 true R1). reflexivity. }
      rewrite Ef. reflexivity. }
    rewrite E. reflexivity.
  Qed.

  Lemma value_lit_ext : forall v l1 l2 sub t,
    (forall p, In p (value_regs sub t v) -> l1 p = l2 p) -> vlit l1 sub t v = vlit l2 sub t v.
  Proof.
    induction v as [b|z|x|s| |v IH|n l0 IH|l0 IH|n m IH|vs IH] using Gengo.Proofs.ValueLit.goval_ind';
      intros l1 l2 sub t H; try reflexivity.
    - rewrite !vlit_ptr_eq. cbn [RenderStack.value_regs] in H. destruct (VL.under t) as [| | | | |e| | | |]; try reflexivity.
      destruct (VL.basic_kind true (VL.under e)).
      + rewrite (IH l1 l2 sub e); [reflexivity|]. intros p Hp. apply H. rewrite in_app_iff. auto.
      + rewrite (IH l1 l2 false e H). reflexivity.
    - rewrite !vlit_slice_eq. cbn [RenderStack.value_regs] in H. destruct (VL.under t) as [| | | | | |e| | |]; try reflexivity.
      rewrite (mapr_ext (vlit l1 false e) (vlit l2 false e) l0); [reflexivity|].
      intros x Hx. rewrite Forall_forall in IH. apply (IH x Hx). intros p Hp. apply H. rewrite in_app_iff. right.
      apply in_flat_map. eauto.
    - rewrite !vlit_array_eq. cbn [RenderStack.value_regs] in H. destruct (VL.under t) as [| | | | | | |k e| |]; try reflexivity.
      rewrite (mapr_ext (vlit l1 false e) (vlit l2 false e) l0); [reflexivity|].
      intros x Hx. rewrite Forall_forall in IH. apply (IH x Hx). intros p Hp. apply H. rewrite in_app_iff. right.
      apply in_flat_map. eauto.
    - rewrite !vlit_map_eq. rewrite regs_map_eq in H. destruct (VL.under t) as [| | | | | | | |kt et|]; try reflexivity.
      rewrite (mapr_ext (kvrow l1 kt et) (kvrow l2 kt et) m); [reflexivity|].
      intros kv Hkv. rewrite Forall_forall in IH. destruct (IH kv Hkv) as [Hk Hv]. unfold kvrow.
      assert (Rk : forall p, In p (value_regs false kt (fst kv)) -> l1 p = l2 p).
      { intros p Hp. apply H. rewrite !in_app_iff. right. left. apply in_flat_map. eauto. }
      assert (Rv : forall p, In p (value_regs false et (snd kv)) -> l1 p = l2 p).
      { intros p Hp. apply H. rewrite !in_app_iff. right. right. apply in_concat.
        exists (value_regs false et (snd kv)). split; [|exact Hp]. apply in_map_iff.
        exists (key_text kt (fst kv), value_regs false et (snd kv)). split; [reflexivity|].
        apply (proj2 (in_sort_kv _ _)). apply in_map_iff. eauto. }
      rewrite (Hk l1 l2 false kt Rk), (Hv l1 l2 false et Rv).
      destruct (vlit l2 false kt (fst kv)) as [kl| |] eqn:Ek; cbn [bind]; try reflexivity.
      destruct (vlit l2 false et (snd kv)) as [vl| |] eqn:Ev; cbn [bind]; try reflexivity.
      rewrite (print_lit_ext l1 l2 kl); [reflexivity|]. intros p Hp. apply Rk. exact (value_lit_pkgs _ _ _ _ _ Ek p Hp).
    - destruct (fx6 && sub && renders_nothing t (VL.VStruct vs)) eqn:C.
      + apply andb_true_iff in C. destruct C as [_ R]. apply renders_nothing_ext, R.
      + rewrite regs_struct_eq, C in H. rewrite !vlit_struct_eq. destruct (VL.under t) as [| | | | | | | | |fs]; try reflexivity.
        assert (E : VL.map2r (fld l1) fs vs = VL.map2r (fld l2) fs vs).
        { assert (H' : forall p, In p (cat2 regfld fs vs) -> l1 p = l2 p) by (intros p Hp; apply H; rewrite in_app_iff; auto).
          clear H C. revert fs H'. induction IH as [|x r Hx _ IHr]; intros fs H'; [destruct fs; reflexivity|].
          destruct fs as [|f fr]; [reflexivity|]. cbn [VL.map2r cat2] in *.
          rewrite (IHr fr) by (intros p Hp; apply H'; rewrite in_app_iff; auto).
          assert (Ef : fld l1 f x = fld l2 f x).
          { unfold fld. unfold regfld in H'. destruct (VL.is_exported (fst f) && negb (VL.is_empty fzero x)); [|reflexivity].
            rewrite (Hx l1 l2 true (snd f)); [reflexivity|]. intros p Hp. apply H'. rewrite in_app_iff. auto. }
          rewrite Ef. reflexivity. }
        rewrite E. reflexivity.
  Qed.
End Value.

(* ------------------------------------------------------------------------------------------ *)
(* the leaves of the concrete term language                                                      *)
Section Leaves.
  Context {F : Type}.
  Variable fzero : F -> bool.
  Variables ffmt gfmt : VL.fkind -> F -> bytes.
  Variable fbig : F -> bool.
  Variable quote : bytes -> bytes.
  Variable cbq : bytes -> bool.
  Variable pick : bytes -> TL.renv -> option bytes.
  Hypothesis pick_total : forall p e, TL.alookup p e = None -> pick p e <> None.
  Variable self : bytes.
  Variable fx6 : bool.

  Notation value_frag := (value_frag fzero ffmt gfmt fbig quote pick self fx6).
  Notation id_frag := (id_frag quote cbq pick self).
  Notation leaf_frag := (leaf_frag fzero ffmt gfmt fbig quote cbq pick self fx6).
  Notation raw_v := (raw_v fzero ffmt gfmt fbig quote pick self fx6).
  Notation raw_t := (@raw_t F quote cbq pick self).
  Notation value_regs := (value_regs fzero ffmt gfmt fbig quote fx6).
  Notation add_all := (add_all pick).
  Notation stable := (stable TL.renv ext).
  Definition reached (e e1 : TL.renv) (ps : list bytes) : Prop := e1 = add_all ps e.
  Notation regs_ok := (regs_ok TL.renv reached).

  Definition vregs (t : VL.gotype) (v : VL.goval F) : list bytes := filter (is_foreign self) (value_regs false t v).

  Lemma local_of_agree : forall ps e e2 p, ext (add_all (filter (is_foreign self) ps) e) e2 -> In p ps ->
    local_of self (add_all (filter (is_foreign self) ps) e) p = local_of self e2 p.
  Proof.
    intros ps e e2 p X Hin. unfold local_of. destruct (is_foreign self p) eqn:Ef; [|reflexivity].
    symmetry. apply (add_all_local pick pick_total); [|exact X]. apply filter_In. auto.
  Qed.

  Lemma value_frag_spec : forall t v e txt e1, value_frag t v e = Ok (txt, e1) ->
    e1 = add_all (vregs t v) e /\ forall e2, ext e1 e2 -> value_frag t v e2 = Ok (txt, e2).
  Proof.
    intros t v e txt e1 H. unfold RenderStack.value_frag in H. fold (vregs t v) in H.
    set (ea := add_all (vregs t v) e) in *.
    destruct (vlit fzero ffmt gfmt fbig quote (local_of self ea) false t v) as [l| |] eqn:E; cbn [bind] in H; try discriminate.
    inversion H; subst. split; [reflexivity|]. intros e2 X. unfold RenderStack.value_frag. fold (vregs t v).
    rewrite (add_all_fix pick pick_total _ e e2 X).
    assert (A : forall p, In p (value_regs false t v) -> local_of self e2 p = local_of self ea p).
    { intros p Hp. symmetry. apply (local_of_agree (value_regs false t v) e e2 p X Hp). }
    rewrite (value_lit_ext fzero ffmt gfmt fbig quote fx6 v _ _ false t A), E. cbn [bind].
    rewrite (print_lit_ext quote (local_of self e2) (local_of self ea) l); [reflexivity|].
    intros p Hp. apply A. exact (value_lit_pkgs fzero ffmt gfmt fbig quote fx6 _ _ _ _ _ E p Hp).
  Qed.

  Lemma value_frag_stable : forall t v, stable (value_frag t v).
  Proof.
    intros t v e txt e1 H. destruct (value_frag_spec t v e txt e1 H) as [E S].
    split; [rewrite E; apply add_all_ext|exact S].
  Qed.

  Lemma value_frag_regs : forall t v, regs_ok (value_frag t v) (vregs t v).
  Proof.
    intros t v e txt e1 H. destruct (value_frag_spec t v e txt e1 H) as [E _]. exact E.
  Qed.

  Lemma id_frag_spec : forall x e txt e1, id_frag x e = Ok (txt, e1) ->
    e1 = add_all (idarg_regs self parse_c15 x) e /\ forall e2, ext e1 e2 -> id_frag x e2 = Ok (txt, e2).
  Proof.
    intros x e txt e1 H. unfold RenderStack.id_frag in *.
    destruct (TL.ident_frag pick parse_c15 self cbq true true x e) as [[a ea]| |] eqn:E; cbn [bind] in H; try discriminate.
    inversion H; subst. destruct (ident_frag_spec pick pick_total parse_c15 self cbq true true x e a e1 E) as [E1 S].
    split; [exact E1|]. intros e2 X. rewrite (S e2 X). reflexivity.
  Qed.

  Lemma id_frag_stable : forall x, stable (id_frag x).
  Proof.
    intros x e txt e1 H. destruct (id_frag_spec x e txt e1 H) as [E S].
    split; [rewrite E; apply add_all_ext|exact S].
  Qed.

  Lemma id_frag_regs : forall x, regs_ok (id_frag x) (idarg_regs self parse_c15 x).
  Proof.
    intros x e txt e1 H. destruct (id_frag_spec x e txt e1 H) as [E _]. exact E.
  Qed.

  Lemma reached_refl : forall e, reached e e [].
  Proof. intros e. reflexivity. Qed.

  Lemma reached_trans : forall e e1 e2 F1 F2, reached e e1 F1 -> reached e1 e2 F2 -> reached e e2 (F1 ++ F2).
  Proof. intros e e1 e2 F1 F2 H1 H2. unfold reached in *. subst. symmetry. apply add_all_app. Qed.

  Lemma ret_stable : forall b, stable (ret_st TL.renv b).
  Proof. intros b. apply stable_ret. apply PTL.ext_refl. Qed.

  Lemma leaf_frag_stable : forall l, stable (leaf_frag l).
  Proof.
    intros [[[t v]|]|[x|]|p n]; cbn [RenderStack.leaf_frag].
    - apply value_frag_stable. - apply ret_stable. - apply id_frag_stable. - apply stable_panic. - apply id_frag_stable.
  Qed.

  Lemma raw_v_stable : forall a, stable (raw_v a).
  Proof.
    intros [t v| |x]; cbn [RenderStack.raw_v]; [apply value_frag_stable|apply ret_stable|apply stable_panic].
  Qed.

  Lemma raw_t_stable : forall a, stable (raw_t a).
  Proof.
    intros [t v| |x]; cbn [RenderStack.raw_t]; [|apply stable_panic|apply id_frag_stable].
    destruct t; try apply stable_panic. destruct v; try apply stable_panic. apply id_frag_stable.
  Qed.

  Lemma leaf_frag_regs : forall l, regs_ok (leaf_frag l) (leaf_regs fzero ffmt gfmt fbig quote self fx6 l).
  Proof.
    intros [[[t v]|]|[x|]|p n]; cbn [RenderStack.leaf_frag leaf_regs].
    - apply value_frag_regs. - apply regs_ok_ret, reached_refl. - apply id_frag_regs. - apply regs_ok_panic. - apply id_frag_regs.
  Qed.

  Lemma raw_v_regs_ok : forall a, regs_ok (raw_v a) (raw_v_regs fzero ffmt gfmt fbig quote self fx6 a).
  Proof.
    intros [t v| |x]; cbn [RenderStack.raw_v raw_v_regs]; [apply value_frag_regs|apply regs_ok_ret, reached_refl|apply regs_ok_panic].
  Qed.

  Lemma raw_t_regs_ok : forall a, regs_ok (raw_t a) (@raw_t_regs F self a).
  Proof.
    intros [t v| |x]; cbn [RenderStack.raw_t raw_t_regs]; [|apply regs_ok_panic|apply id_frag_regs].
    destruct t; try apply regs_ok_panic. destruct v; try apply regs_ok_panic. apply id_frag_regs.
  Qed.
End Leaves.

(* ------------------------------------------------------------------------------------------ *)
(* L4, none unused (repaired code, fixes/C10-6): every package handed to the namer occurs in the literal *)
From Coq Require Import Permutation.

Lemma nodupb_NoDup : forall l, nodupb l = true -> NoDup l.
Proof.
  induction l as [|x r IH]; intros H; [constructor|]. cbn [nodupb] in H. apply andb_true_iff in H. destruct H as [H1 H2].
  constructor; [|apply IH, H2]. intros Hin. apply negb_true_iff in H1.
  assert (E : existsb (bytes_eqb x) r = true) by (apply existsb_exists; exists x; split; [exact Hin|apply bytes_eqb_refl]).
  congruence.
Qed.

Lemma Forall2_in_l : forall {A B} (R : A -> B -> Prop) l1 l2 x, Forall2 R l1 l2 -> In x l1 -> exists y, In y l2 /\ R x y.
Proof.
  intros A B R l1 l2 x H. induction H as [|a b ra rb Hab _ IH]; intros Hin; [destruct Hin|].
  destruct Hin as [->|Hin]; [exists b; split; [left; reflexivity|exact Hab]|].
  destruct (IH Hin) as (y & Hy & Hr). exists y. split; [right; exact Hy|exact Hr].
Qed.

Section ValueUsed.
  Context {F : Type}.
  Variable fzero : F -> bool.
  Variables ffmt gfmt : VL.fkind -> F -> bytes.
  Variable fbig : F -> bool.
  Variable quote : bytes -> bytes.

  Notation goval := (VL.goval F).
  Notation vlit := (vlit fzero ffmt gfmt fbig quote).
  Notation value_regs := (value_regs fzero ffmt gfmt fbig quote true).
  Notation renders_nothing := (renders_nothing fzero).
  Notation key_text := (key_text fzero ffmt gfmt fbig quote).
  Notation keys_distinct := (keys_distinct fzero ffmt gfmt fbig quote).
  Notation ktext := (ktext fzero ffmt gfmt fbig quote).
  Notation fld := (fld fzero ffmt gfmt fbig quote).
  Notation kvrow := (kvrow fzero ffmt gfmt fbig quote).
  Notation regfld := (regfld fzero ffmt gfmt fbig quote true).

  (* the converse of renders_nothing_lempty: the empty text comes from such a struct only *)
  Lemma lempty_renders_nothing : forall v t local, vlit local true t v = Ok VL.LEmpty -> renders_nothing t v = true.
  Proof.
    induction v as [b|z|x|s| |v IH|n l0 IH|l0 IH|n m IH|vs IH] using Gengo.Proofs.ValueLit.goval_ind';
      intros t local H;
      try (destruct (Gengo.Proofs.ValueLit.lempty_shape fzero ffmt gfmt fbig quote local true true t _ H) as [_ [vs' E]]; discriminate).
    rewrite (vlit_struct_eq fzero ffmt gfmt fbig quote) in H. rewrite (rn_struct_eq fzero).
    destruct (VL.under t) as [| | | | | | | | |fs]; try discriminate.
    destruct (VL.map2r (fld local) fs vs) as [outs| |] eqn:M; cbn [bind] in H; try discriminate.
    destruct (is_nil (VL.somes outs)) eqn:N; cbn [andb] in H; [|discriminate]. clear H.
    revert fs outs M N. induction IH as [|x r Hx _ IHr]; intros fs outs M N.
    - destruct fs; reflexivity.
    - destruct fs as [|f fr]; [reflexivity|]. cbn [VL.map2r] in M.
      destruct (fld local f x) as [o| |] eqn:Ef; try discriminate.
      destruct (VL.map2r (fld local) fr r) as [os| |] eqn:Mr; try discriminate. inversion M; subst.
      destruct o as [e|]; [cbn in N; discriminate|]. cbn [VL.somes] in N.
      cbn [all2]. rewrite (IHr fr os Mr N), andb_true_r.
      unfold RenderStackLeaves.fld in Ef. destruct (VL.is_exported (fst f)); cbn [andb negb orb] in *; [|reflexivity].
      destruct (VL.is_empty fzero x); cbn [andb negb orb] in *; [reflexivity|].
      destruct (vlit local true (snd f) x) as [lx| |] eqn:El; cbn [bind] in Ef; try discriminate.
      destruct lx; cbn [VL.is_lempty] in Ef; try discriminate. exact (Hx _ _ El).
  Qed.

  Lemma value_regs_used : forall v local sub t l,
    vlit local sub t v = Ok l -> keys_distinct local t v = true -> incl (value_regs sub t v) (lit_pkgs l).
  Proof.
    induction v as [b|z|x|s| |v IH|n l0 IH|l0 IH|n m IH|vs IH] using Gengo.Proofs.ValueLit.goval_ind';
      intros local sub t l H K; try (intros p []).
    - rewrite (vlit_ptr_eq fzero ffmt gfmt fbig quote) in H. cbn [RenderStack.value_regs RenderStack.keys_distinct] in *.
      destruct (VL.under t) as [| | | | |e| | | |]; try (intros p []).
      destruct (VL.basic_kind true (VL.under e)).
      + destruct (vlit local sub e v) as [a| |] eqn:E; cbn [bind] in H; try discriminate. inversion H; subst.
        cbn [lit_pkgs]. apply incl_app; [apply incl_appl, incl_refl|apply incl_appr, (IH _ _ _ _ E K)].
      + destruct (vlit local false e v) as [a| |] eqn:E; cbn [bind] in H; try discriminate. inversion H; subst.
        cbn [lit_pkgs]. exact (IH _ _ _ _ E K).
    - rewrite (vlit_slice_eq fzero ffmt gfmt fbig quote) in H. cbn [RenderStack.value_regs RenderStack.keys_distinct] in *.
      destruct (VL.under t) as [| | | | | |e| | |]; try (intros p []).
      destruct (VL.mapr (vlit local false e) l0) as [ls| |] eqn:M; cbn [bind] in H; try discriminate. inversion H; subst.
      rewrite lit_pkgs_composite_eq. apply incl_app; [apply incl_appl, incl_refl|apply incl_appr].
      apply mapr_inv in M. clear H. revert K. induction M as [|x y rx ry Hxy _ IHm]; intros K; [intros p []|].
      inversion IH as [|? ? Hx Hr]; subst. cbn [forallb] in K. apply andb_true_iff in K. destruct K as [K1 K2].
      cbn [map flat_map fst snd lit_pkgs app].
      apply incl_app; [apply incl_appl, (Hx _ _ _ _ Hxy K1)|apply incl_appr, (IHm Hr K2)].
    - rewrite (vlit_array_eq fzero ffmt gfmt fbig quote) in H. cbn [RenderStack.value_regs RenderStack.keys_distinct] in *.
      destruct (VL.under t) as [| | | | | | |k e| |]; try (intros p []).
      destruct (VL.mapr (vlit local false e) l0) as [ls| |] eqn:M; cbn [bind] in H; try discriminate. inversion H; subst.
      rewrite lit_pkgs_composite_eq. apply incl_app; [apply incl_appl, incl_refl|apply incl_appr].
      apply mapr_inv in M. clear H. revert K. induction M as [|x y rx ry Hxy _ IHm]; intros K; [intros p []|].
      inversion IH as [|? ? Hx Hr]; subst. cbn [forallb] in K. apply andb_true_iff in K. destruct K as [K1 K2].
      cbn [map flat_map fst snd lit_pkgs app].
      apply incl_app; [apply incl_appl, (Hx _ _ _ _ Hxy K1)|apply incl_appr, (IHm Hr K2)].
    - rewrite (vlit_map_eq fzero ffmt gfmt fbig quote) in H. rewrite (regs_map_eq fzero ffmt gfmt fbig quote).
      cbn [RenderStack.keys_distinct] in K.
      destruct (VL.under t) as [| | | | | | | |kt et|]; try (intros p []).
      destruct (VL.mapr (kvrow local kt et) m) as [tbl| |] eqn:M; cbn [bind] in H; try discriminate. inversion H; subst. clear H.
      apply andb_true_iff in K. destruct K as [KN KF]. rewrite forallb_forall in KF. rewrite Forall_forall in IH.
      rewrite lit_pkgs_composite_eq. apply incl_app; [apply incl_appl, incl_refl|apply incl_appr].
      apply mapr_inv in M.
      (* the key texts of the table are those of the side condition *)
      assert (KT : map fst tbl = map (fun kv => ktext local kt (fst kv)) m).
      { clear - M. induction M as [|kv row rm rt Hrow _ IHm]; [reflexivity|]. cbn [map]. rewrite IHm. f_equal.
        unfold RenderStackLeaves.kvrow in Hrow. unfold RenderStack.ktext.
        destruct (vlit local false kt (fst kv)) as [kl| |]; cbn [bind] in Hrow; try discriminate.
        destruct (vlit local false et (snd kv)) as [vl| |]; cbn [bind] in Hrow; try discriminate.
        inversion Hrow. reflexivity. }
      assert (ND : NoDup (map fst tbl)) by (rewrite KT; apply nodupb_NoDup, KN).
      set (entries := map (fun k => match VL.assoc_last k tbl with Some e => e | None => (VL.LOther, VL.LOther) end)
                          (VL.isort (map fst tbl))).
      assert (Ent : forall k e, In (k, e) tbl -> In e entries).
      { intros k e Hin. unfold entries. apply in_map_iff. exists k. split.
        - rewrite (VLB.assoc_last_in k e tbl ND Hin). reflexivity.
        - apply (Permutation_in _ (VLB.isort_perm (map fst tbl))). apply in_map_iff. exists (k, e). split; [reflexivity|exact Hin]. }
      (* every entry of the map: its registrations are in its row *)
      assert (Row : forall kv, In kv m ->
                forall p, In p (value_regs false kt (fst kv)) \/ In p (value_regs false et (snd kv)) ->
                In p (flat_map (fun e => lit_pkgs (fst e) ++ lit_pkgs (snd e)) entries)).
      { intros kv Hkv p Hp. destruct (Forall2_in_l _ _ _ _ M Hkv) as (row & Hrow & R).
        unfold RenderStackLeaves.kvrow in R.
        destruct (vlit local false kt (fst kv)) as [kl| |] eqn:Ek; cbn [bind] in R; try discriminate.
        destruct (vlit local false et (snd kv)) as [vl| |] eqn:Ev; cbn [bind] in R; try discriminate.
        inversion R; subst row. clear R.
        specialize (KF kv Hkv). apply andb_true_iff in KF. destruct KF as [K1 K2].
        destruct (IH kv Hkv) as [Hk Hv].
        apply in_flat_map. exists (kl, vl). split; [exact (Ent _ _ Hrow)|]. cbn [fst snd]. apply in_app_iff.
        destruct Hp as [Hp|Hp]; [left; exact (Hk _ _ _ _ Ek K1 p Hp)|right; exact (Hv _ _ _ _ Ev K2 p Hp)]. }
      intros p Hp. apply in_app_iff in Hp. destruct Hp as [Hp|Hp].
      + apply in_flat_map in Hp. destruct Hp as (kv & Hkv & Hp). exact (Row kv Hkv p (or_introl Hp)).
      + apply in_concat in Hp. destruct Hp as (x & Hx & Hp). apply in_map_iff in Hx. destruct Hx as (y & <- & Hy).
        apply (proj1 (in_sort_kv _ _)) in Hy. apply in_map_iff in Hy. destruct Hy as (kv & <- & Hkv).
        exact (Row kv Hkv p (or_intror Hp)).
    - rewrite (vlit_struct_eq fzero ffmt gfmt fbig quote) in H. rewrite (regs_struct_eq fzero ffmt gfmt fbig quote).
      cbn [RenderStack.keys_distinct] in K.
      destruct (VL.under t) as [| | | | | | | | |fs] eqn:U; try (intros p []).
      destruct (VL.map2r (fld local) fs vs) as [outs| |] eqn:M; cbn [bind] in H; try discriminate.
      destruct (true && sub && renders_nothing t (VL.VStruct vs)) eqn:C; [intros p []|].
      destruct (sub && is_nil (VL.somes outs)) eqn:SE.
      + (* the empty text: then the struct renders nothing and the condition C would hold *)
        exfalso. apply andb_true_iff in SE. destruct SE as [-> N]. inversion H; subst.
        assert (E : vlit local true t (VL.VStruct vs) = Ok VL.LEmpty).
        { rewrite (vlit_struct_eq fzero ffmt gfmt fbig quote), U, M. cbn [bind]. rewrite N. reflexivity. }
        rewrite (lempty_renders_nothing _ _ _ E) in C. discriminate.
      + inversion H; subst. rewrite lit_pkgs_composite_eq.
        apply incl_app; [apply incl_appl, incl_refl|apply incl_appr].
        clear H C U SE. revert fs outs M K. induction IH as [|x r Hx _ IHr]; intros fs outs M K.
        * destruct fs; intros q [].
        * destruct fs as [|f fr]; [intros q []|]. cbn [VL.map2r] in M. cbn [all2] in K.
          apply andb_true_iff in K. destruct K as [K1 K2].
          destruct (fld local f x) as [o| |] eqn:Ef; try discriminate.
          destruct (VL.map2r (fld local) fr r) as [os| |] eqn:Mr; try discriminate. inversion M; subst.
          cbn [cat2]. specialize (IHr fr os Mr K2).
          unfold RenderStackLeaves.fld in Ef. unfold RenderStackLeaves.regfld.
          destruct (VL.is_exported (fst f) && negb (VL.is_empty fzero x)).
          -- destruct (vlit local true (snd f) x) as [lx| |] eqn:El; cbn [bind] in Ef; try discriminate.
             destruct (VL.is_lempty lx) eqn:Le; inversion Ef; subst; cbn [VL.somes flat_map].
             ++ (* the field renders nothing: with the repair it registers nothing *)
                destruct lx; try discriminate.
                pose proof (lempty_renders_nothing _ _ _ El) as RN.
                destruct (Gengo.Proofs.ValueLit.lempty_shape fzero ffmt gfmt fbig quote local true true _ _ El) as [_ [vs' ->]].
                rewrite (regs_struct_eq fzero ffmt gfmt fbig quote).
                destruct (VL.under (snd f)); try exact IHr. rewrite RN. cbn [andb]. exact IHr.
             ++ cbn [fst snd lit_pkgs app]. apply incl_app; [apply incl_appl, (Hx _ _ _ _ El K1)|apply incl_appr, IHr].
          -- inversion Ef; subst. cbn [VL.somes app]. exact IHr.
  Qed.
End ValueUsed.
