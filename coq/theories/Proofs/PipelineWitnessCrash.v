(* C02_whole_crash_then_skip_justified / C02_whole_crash_sum_content, non-vacuity: concrete crash states with a
   NON-EMPTY gengo.sum after which the next run skips one package (pkg_changed = false) and regenerates the others.
     (A) a FAILED All run over three packages — m/a cached through the previous gengo.sum, m/b regenerated, m/c fails —
         stopped where Execute returns the error: sum and every previous file of m/a and m/c untouched;
     (B) a successful All run killed INSIDE the write of gengo.sum, which holds the complete first line and a piece of
         the second.
   Closed computation, plus the theorem applied with every hypothesis discharged. *)
Require Import Gengo.Base.Bytes Gengo.Model.Pipeline Gengo.Model.Whole Gengo.Spec.PipelineSpec.
Require Import Gengo.Proofs.Pipeline Gengo.Proofs.PipelinePkg Gengo.Proofs.PipelineC02 Gengo.Proofs.PipelineWitness
  Gengo.Proofs.PipelineWitnessC02 Gengo.Proofs.WholeCrash Gengo.Corr.Pipe.
Require Gengo.Model.SumFile Gengo.Proofs.SumFile.

Definition wk_a (h : string) : pkginfo :=
  mk_pkg (bs "m/a") (bs "a") (bs "a") [bs "a.go"; bs "zz_generated.g1.go"] [mk_ty (bs "T0") KNamed (tag "g1")] (bs h).
Definition wk_b (h : string) : pkginfo :=
  mk_pkg (bs "m/b") (bs "b") (bs "b") [bs "b.go"; bs "zz_generated.g1.go"] [mk_ty (bs "T0") KNamed (tag "g1")] (bs h).
Definition wk_c (h : string) : pkginfo :=
  mk_pkg (bs "m/c") (bs "c") (bs "c") [bs "c.go"; bs "zz_generated.g1.go"] [mk_ty (bs "T0") KNamed (tag "g1")] (bs h).
(* the load of the killed / failed run *)
Definition wk_world : world := mk_world [wk_c "h1:c"; wk_b "h1:b"; wk_a "h1:a"] [bs "m/a"; bs "m/b"; bs "m/c"].
(* the load of the NEXT run: m/b's directory has changed (its generated file was rewritten) *)
Definition wk_world2 : world := mk_world [wk_c "h1:c"; wk_b "h1:B"; wk_a "h1:a"] [bs "m/a"; bs "m/b"; bs "m/c"].
Definition wk_args : args := {| a_all := true; a_force := false; a_base := bs "zz_generated" |}.

(* the previous gengo.sum: m/a with its current hash, m/b and m/c with other hashes *)
Definition wk_sum0 : bytes := bs "m/a h1:a" ++ nl ++ bs "m/b h1:0" ++ nl ++ bs "m/c h1:0" ++ nl.
Definition wk_fs : fs :=
  [((bs "a", bs "a.go"), bs "A"); ((bs "a", bs "zz_generated.g1.go"), bs "old a g1");
   ((bs "b", bs "b.go"), bs "B"); ((bs "b", bs "zz_generated.g1.go"), bs "old b g1");
   ((bs "c", bs "c.go"), bs "C"); ((bs "c", bs "zz_generated.g1.go"), bs "old c g1");
   ((bs "", bs "gengo.sum"), wk_sum0)].

(* g1 renders in every package; in m/c it returns an error (run A) or renders too (run B) *)
Definition wk_g1 (c_step : sstep) : generator :=
  script_gen (mk_sgen (bs "g1") false
    [((bs "m/a", bs "T0"), ok_step "var A = 1"); ((bs "m/b", bs "T0"), ok_step "var B = 1"); ((bs "m/c", bs "T0"), c_step)]).
Definition wk_gens_fail : list generator := [wk_g1 (mk_step (bs "var C = 1") RErr false false [])].
Definition wk_gens_ok : list generator := [wk_g1 (ok_step "var C = 1")].

Ltac splits := repeat match goal with |- _ /\ _ => split end.
Ltac nodup := repeat (constructor; [cbn; intuition discriminate|]); try constructor.

Lemma wk_files_ok : files_ok wk_world.
Proof. intros p [<-|[<-|[<-|[]]]]; cbn; intuition discriminate. Qed.

Lemma wk_kv_ok : Gengo.Proofs.SumFile.kv_ok (current_sum wk_world).
Proof.
  split; [cbn; nodup|]. repeat (constructor; [split; vm_compute; reflexivity|]). constructor.
Qed.

Lemma wk_env_sums : e_sum_load wf_env = SumFile.sumfile_load /\ e_sum_bytes wf_env = SumFile.sumfile_bytes.
Proof. split; reflexivity. Qed.

(* ---------- (A) the failed run ---------- *)

Definition wk_effects_fail : list effect := effects wf_env wk_args wk_world wk_gens_fail wk_fs.
(* where Execute returns: every effect of the failed run has been applied *)
Definition wk_after_fail : fs := apply_all (firstn (List.length wk_effects_fail) wk_effects_fail) wk_fs.

Lemma wk_crash_state_fail : crash_state wf_env wk_args wk_world wk_gens_fail wk_fs wk_after_fail.
Proof. apply cs_between. Qed.

Definition lookups (s : fs) (qs : list path) : list (option bytes) := map (fun q => fs_lookup q s) qs.
Definition wk_paths : list path :=
  [(bs "a", bs "a.go"); (bs "a", bs "zz_generated.g1.go"); (bs "b", bs "b.go"); (bs "b", bs "zz_generated.g1.go");
   (bs "c", bs "c.go"); (bs "c", bs "zz_generated.g1.go"); (bs "", bs "gengo.sum")].

(* the run: m/a is cached (no call), m/b is regenerated, m/c fails; the state it leaves IS what Execute leaves;
   gengo.sum (non-empty) and the previous files of m/a and m/c are byte-identical, m/b's file is the new one *)
Lemma wk_failed_run :
  exec_outcome wf_env wk_args wk_world wk_gens_fail wk_fs = Failed (EGen (bs "g1") (bs "m/c"))
  /\ map (fun p => pkg_changed wk_args wk_world (load_prev wf_env wk_args wk_world wk_fs) p) (sorted_pkgs wk_world)
     = [false; true; true]
  /\ map (fun e => match e with EvCall _ p _ _ r => (p, r) | EvDefer _ p _ _ r => (p, r) end)
         (exec_trace wf_env wk_args wk_world wk_gens_fail wk_fs) = [(bs "m/b", RNil); (bs "m/c", RErr)]
  /\ List.length wk_effects_fail = 2
  /\ wk_after_fail = exec_fs wf_env wk_args wk_world wk_gens_fail wk_fs
  /\ lookups wk_after_fail wk_paths
     = [Some (bs "A"); Some (bs "old a g1"); Some (bs "B"); Some (assemble (bs "b") (bs "g1") (bs "var B = 1"));
        Some (bs "C"); Some (bs "old c g1"); Some wk_sum0].
Proof. splits; vm_compute; reflexivity. Qed.

(* the next run (same arguments, m/b re-hashed): m/a is skipped, m/b and m/c are regenerated *)
Lemma wk_next_after_fail :
  map (fun p => pkg_changed wk_args wk_world2 (load_prev wf_env wk_args wk_world2 wk_after_fail) p) (sorted_pkgs wk_world2)
  = [false; true; true].
Proof. vm_compute. reflexivity. Qed.

(* C02_whole_crash_then_skip_justified applied: the skip of m/a rests on the line of the gengo.sum the failed run found *)
Lemma wk_skip_justified_after_fail :
  sum_get (current_sum wk_world2) (bs "m/a") <> []
  /\ ((exists b, fs_lookup (sum_path wk_world) wk_fs = Some b
                 /\ SumFile.sum_sum (SumFile.sumfile_load b) (bs "m/a") = sum_get (current_sum wk_world2) (bs "m/a"))
      \/ sum_get (current_sum wk_world) (bs "m/a") = sum_get (current_sum wk_world2) (bs "m/a")).
Proof.
  apply (crash_then_skip_justified wf_env eq_refl eq_refl wk_args wk_world wk_gens_fail wk_fs wk_after_fail
           wk_args wk_world2 (wk_a "h1:a") wk_files_ok wk_crash_state_fail wk_kv_ok eq_refl).
  - right. vm_compute. reflexivity.
  - vm_compute. reflexivity.
Qed.

(* ---------- (B) killed inside the write of gengo.sum ---------- *)

(* 14 bytes of "m/a h1:a\nm/b h1:b\nm/c h1:c\n" are on disk: the first line and "m/b h" *)
Definition wk_torn : fs :=
  apply_effect (EAppend (sum_path wk_world) (firstn 14 (e_sum_bytes wf_env (current_sum wk_world))))
    (apply_all (pkgs_effects wf_env wk_args wk_world wk_gens_ok wk_fs ++ [ETruncate (sum_path wk_world)]) wk_fs).

Lemma wk_run_ok : exec_outcome wf_env wk_args wk_world wk_gens_ok wk_fs = Done.
Proof. vm_compute. reflexivity. Qed.

Lemma wk_crash_state_torn : crash_state wf_env wk_args wk_world wk_gens_ok wk_fs wk_torn.
Proof. apply cs_torn; [exact wk_run_ok|reflexivity]. Qed.

Lemma wk_torn_state :
  lookups wk_torn wk_paths
  = [Some (bs "A"); Some (bs "old a g1"); Some (bs "B"); Some (assemble (bs "b") (bs "g1") (bs "var B = 1"));
     Some (bs "C"); Some (assemble (bs "c") (bs "g1") (bs "var C = 1")); Some (bs "m/a h1:a" ++ nl ++ bs "m/b h")]
  /\ SumFile.sumfile_load (bs "m/a h1:a" ++ nl ++ bs "m/b h") = [(bs "m/a", bs "h1:a"); (bs "m/b", bs "h")]
  (* the next run on the same load: m/a is skipped on the strength of the complete line, m/b (torn line) and m/c
     (no line yet) are regenerated *)
  /\ map (fun p => pkg_changed wk_args wk_world (load_prev wf_env wk_args wk_world wk_torn) p) (sorted_pkgs wk_world)
     = [false; true; true].
Proof. splits; vm_compute; reflexivity. Qed.

(* the theorems applied at that crash state *)
Lemma wk_torn_sum_content :
  fs_lookup (sum_path wk_world) wk_torn = fs_lookup (sum_path wk_world) wk_fs
  \/ exists n, fs_lookup (sum_path wk_world) wk_torn = Some (firstn n (SumFile.sumfile_bytes (current_sum wk_world))).
Proof. exact (crash_sum_content wf_env eq_refl wk_args wk_world wk_gens_ok wk_fs wk_torn wk_files_ok wk_crash_state_torn). Qed.

Lemma wk_skip_justified_torn :
  sum_get (current_sum wk_world) (bs "m/a") <> []
  /\ ((exists b, fs_lookup (sum_path wk_world) wk_fs = Some b
                 /\ SumFile.sum_sum (SumFile.sumfile_load b) (bs "m/a") = sum_get (current_sum wk_world) (bs "m/a"))
      \/ sum_get (current_sum wk_world) (bs "m/a") = sum_get (current_sum wk_world) (bs "m/a")).
Proof.
  apply (crash_then_skip_justified wf_env eq_refl eq_refl wk_args wk_world wk_gens_ok wk_fs wk_torn
           wk_args wk_world (wk_a "h1:a") wk_files_ok wk_crash_state_torn wk_kv_ok eq_refl).
  - right. reflexivity.
  - vm_compute. reflexivity.
Qed.

Print Assumptions wk_skip_justified_after_fail.
Print Assumptions wk_skip_justified_torn.
