(* C02's crash theorem (Proofs/PipelineC02.v: the sum is written last, by open-with-truncate and one write) composed
   with the real gengo.sum parser (Proofs/WholeTorn.v): whatever point a run is killed at — between any two effects,
   or INSIDE the write of gengo.sum, leaving any prefix of its bytes — the next run skips a package only if the hash it
   computes is the one recorded by the untouched previous gengo.sum or the one the killed run was recording. *)
Require Import Gengo.Base.Bytes Gengo.Model.Pipeline Gengo.Model.Whole.
Require Import Gengo.Proofs.Pipeline Gengo.Proofs.PipelinePkg Gengo.Proofs.PipelineC02 Gengo.Proofs.WholeSum.
Require Gengo.Model.SumFile Gengo.Proofs.SumFile Gengo.Proofs.WholeTorn.
From Coq Require Import PeanoNat.

Section Crash.
  Variable E : env.
  Hypothesis Hload : e_sum_load E = SumFile.sumfile_load.
  Hypothesis Hbytes : e_sum_bytes E = SumFile.sumfile_bytes.

  (* the states a killed run can leave: after any number of effects, or part-way through the write of gengo.sum *)
  Inductive crash_state (a : args) (w : world) (gens : list generator) (s : fs) : fs -> Prop :=
  | cs_between : forall k, crash_state a w gens s (apply_all (firstn k (effects E a w gens s)) s)
  | cs_torn : forall n,
      exec_outcome E a w gens s = Done -> a_all a = true ->
      crash_state a w gens s
        (apply_effect (EAppend (sum_path w) (firstn n (e_sum_bytes E (current_sum w))))
           (apply_all (pkgs_effects E a w gens s ++ [ETruncate (sum_path w)]) s)).

  (* gengo.sum in such a state: untouched, or a prefix of the bytes being written *)
  Lemma crash_sum_content : forall a w gens s s',
    files_ok w -> crash_state a w gens s s' ->
    fs_lookup (sum_path w) s' = fs_lookup (sum_path w) s
    \/ exists n, fs_lookup (sum_path w) s' = Some (firstn n (SumFile.sumfile_bytes (current_sum w))).
  Proof.
    intros a w gens s s' Hfiles Hc. destruct Hc as [k | n Hdone Hall].
    - destruct (sum_written_last E a w gens s Hfiles) as [tail [Heff [Hnot Htail]]].
      destruct Htail as [->|[-> _]].
      + (* the run does not save: no effect is on gengo.sum *)
        left. rewrite Heff, app_nil_r. apply apply_all_other. intros e He. apply Hnot. eapply firstn_In. exact He.
      + destruct (Nat.leb k (List.length (pkgs_effects E a w gens s))) eqn:Hk.
        * apply Nat.leb_le in Hk. left. apply crash_before_save; assumption.
        * apply Nat.leb_gt in Hk. right.
          rewrite Heff, firstn_app, firstn_all2 by lia. rewrite apply_all_app.
          destruct (k - List.length (pkgs_effects E a w gens s)) as [|[|d]] eqn:Hd; [lia| |].
          -- exists 0. cbn [save_effects firstn apply_all fold_left apply_effect]. apply lookup_set_same.
          -- exists (List.length (SumFile.sumfile_bytes (current_sum w))).
             cbn [save_effects firstn]. rewrite firstn_nil. cbn [apply_all fold_left apply_effect].
             rewrite lookup_set_same, lookup_set_same, Hbytes, firstn_all. reflexivity.
    - right. exists n. rewrite apply_all_app. cbn [apply_all fold_left apply_effect].
      rewrite lookup_set_same, lookup_set_same, Hbytes. reflexivity.
  Qed.

  (* a skip on the strength of a torn gengo.sum is a skip the complete file would justify too *)
  Lemma torn_skip_justified : forall a w s p m n,
    Gengo.Proofs.SumFile.kv_ok m ->
    fs_lookup (sum_path w) s = Some (firstn n (SumFile.sumfile_bytes m)) ->
    (SumFile.sum_sum m (pk_path p) = []
     \/ List.length (SumFile.sum_sum m (pk_path p)) = List.length (sum_get (current_sum w) (pk_path p))) ->
    pkg_changed a w (load_prev E a w s) p = false ->
    SumFile.sum_sum m (pk_path p) = sum_get (current_sum w) (pk_path p)
    /\ sum_get (current_sum w) (pk_path p) <> [].
  Proof.
    intros a w s p m n Hok Hs Hlen Hch. unfold pkg_changed in Hch.
    destruct (a_force a); [discriminate Hch|]. unfold load_prev in Hch.
    destruct (a_all a && existsb (is_direct w) (w_pkgs w)); [|discriminate Hch].
    rewrite Hs, Hload in Hch. apply orb_false_iff in Hch. destruct Hch as [Hne Heq].
    apply negb_false_iff in Heq. apply bytes_eqb_spec in Heq.
    pose proof (WholeTorn.torn_sum_prefix m n (pk_path p) Hok) as Hp.
    rewrite <- sum_get_sum_sum, Heq in Hp.
    assert (Hcur : sum_get (current_sum w) (pk_path p) <> []).
    { intros Hx. rewrite Hx in Hne. discriminate Hne. }
    split; [|exact Hcur].
    destruct Hlen as [Hnil|Hlen].
    - exfalso. rewrite Hnil in Hp. destruct Hp as [t Ht]. apply Hcur.
      destruct (sum_get (current_sum w) (pk_path p)); [reflexivity | discriminate Ht].
    - symmetry. apply WholeTorn.prefix_same_length; [exact Hp | symmetry; exact Hlen].
  Qed.

  (* THE COMPOSITE.  Run 1 (a, w, gens) is killed anywhere and leaves s'.  Run 2 (any arguments, any loaded world
     w2 of the same module) skips p only if the hash of p it computed is recorded for p by the gengo.sum that run 1
     found and had not touched yet, or by the map run 1 was saving.  Side conditions: the paths and hashes run 1
     records are tokens (kv_ok: non-empty ASCII without white space; distinct paths), and a recorded hash has the
     length of the one computed now (dirhash.Hash1: "h1:" + base64 of a SHA-256) or is empty. *)
  Theorem crash_then_skip_justified : forall a w gens s s' a2 w2 p,
    files_ok w -> crash_state a w gens s s' ->
    Gengo.Proofs.SumFile.kv_ok (current_sum w) ->
    sum_path w2 = sum_path w ->
    (sum_get (current_sum w) (pk_path p) = []
     \/ List.length (sum_get (current_sum w) (pk_path p)) = List.length (sum_get (current_sum w2) (pk_path p))) ->
    pkg_changed a2 w2 (load_prev E a2 w2 s') p = false ->
    sum_get (current_sum w2) (pk_path p) <> []
    /\ ((exists b, fs_lookup (sum_path w) s = Some b
                   /\ SumFile.sum_sum (SumFile.sumfile_load b) (pk_path p) = sum_get (current_sum w2) (pk_path p))
        \/ sum_get (current_sum w) (pk_path p) = sum_get (current_sum w2) (pk_path p)).
  Proof.
    intros a w gens s s' a2 w2 p Hfiles Hcs Hok Hsp Hlen Hch.
    destruct (crash_sum_content a w gens s s' Hfiles Hcs) as [Hold | [n Hn]].
    - (* gengo.sum untouched: the ordinary reading of pkgChanged *)
      unfold pkg_changed in Hch. destruct (a_force a2); [discriminate Hch|]. unfold load_prev in Hch.
      destruct (a_all a2 && existsb (is_direct w2) (w_pkgs w2)); [|discriminate Hch].
      rewrite Hsp, Hold in Hch. destruct (fs_lookup (sum_path w) s) as [b|]; [|discriminate Hch].
      rewrite Hload in Hch. apply orb_false_iff in Hch. destruct Hch as [Hne Heq].
      apply negb_false_iff in Heq. apply bytes_eqb_spec in Heq.
      split; [intros Hx; rewrite Hx in Hne; discriminate Hne|].
      left. exists b. split; [reflexivity|]. rewrite <- sum_get_sum_sum. exact Heq.
    - rewrite <- Hsp in Hn. rewrite !sum_get_sum_sum in Hlen.
      assert (Hlen' : SumFile.sum_sum (current_sum w) (pk_path p) = []
                      \/ List.length (SumFile.sum_sum (current_sum w) (pk_path p))
                         = List.length (sum_get (current_sum w2) (pk_path p))).
      { rewrite sum_get_sum_sum. exact Hlen. }
      destruct (torn_skip_justified a2 w2 s' p (current_sum w) n Hok Hn Hlen' Hch) as [Heq Hne].
      split; [exact Hne|]. right. rewrite sum_get_sum_sum. exact Heq.
  Qed.
End Crash.
