(* RenderStack, part 1: C03's tracker satisfies every hypothesis C11 and C15 make about "the tracker",
   and C15's ParseTypeRef satisfies the hypothesis C11 makes about "the parser". *)
Require Import Gengo.Base.Bytes.
Require Import Gengo.Model.GoIdent Gengo.Model.TrackerSpec Gengo.Model.RenderStack.
Require Gengo.Model.Tracker Gengo.Proofs.Tracker Gengo.Proofs.StdTable Gengo.Gen.StdList.
Require Gengo.Model.TypeLit Gengo.Spec.TypeLit Gengo.Proofs.TypeLit.
Require Gengo.Model.TypeRef Gengo.Proofs.TypeRef.

Module PT := Gengo.Proofs.Tracker.
Module TLS := Gengo.Spec.TypeLit.
Module PTL := Gengo.Proofs.TypeLit.
Module PTR := Gengo.Proofs.TypeRef.

(* ------------------------------------------------------------------------------------------ *)
(* names handed out by the repaired [add]: a generic predicate                                  *)

Section NamePred.
  Variable P : bytes -> Prop.
  Hypothesis P_local : forall parts nm, Tk.to_local_name true parts = Ok nm -> P nm.
  Hypothesis P_num : forall nm k, P nm -> P (nm ++ Tk.itoa k).

  Lemma local_name_P : forall segs n nm, Tk.local_name true segs n = Ok nm -> P nm.
  Proof.
    intros segs n nm. unfold Tk.local_name.
    destruct segs as [|s [|s2 rest]]; try apply P_local.
    - destruct (Nat.eqb n 1); apply P_local.
    - destruct (Nat.eqb n 1); [|apply P_local].
      destruct (Tk.shortcut (bs "domain") (s :: s2 :: rest)); [apply P_local|].
      destruct (Tk.shortcut (bs "apis") (s :: s2 :: rest)); apply P_local.
  Qed.

  Lemma try_cands_P : forall pre std tr path segs ns last r l,
    Tk.try_cands true pre std tr path segs ns last = Ok (r, l) ->
    (P last \/ ns <> []) ->
    P l /\ (forall tr', r = Some tr' -> Tk.bind pre std tr l path = Some tr').
  Proof.
    intros pre std tr path segs ns. induction ns as [|n rest IH]; intros last r l H HP; cbn [Tk.try_cands] in H.
    - inversion H; subst. split; [destruct HP as [HP|HP]; [exact HP|congruence]|discriminate].
    - destruct (Tk.local_name true segs n) as [nm| |] eqn:EL; cbn [bind] in H; try discriminate.
      pose proof (local_name_P _ _ _ EL) as Pnm.
      destruct (Tk.bind pre std tr nm path) as [tr1|] eqn:B.
      + inversion H; subst. split; [exact Pnm|]. intros tr' E. inversion E; subst. exact B.
      + apply (IH nm r l H). left. exact Pnm.
  Qed.

  Lemma add_bound_P : forall pre std tr path tr',
    Tk.add true pre std tr path = Ok tr' -> Tk.lookup path (Tk.p2n tr) = None ->
    exists nm, Tk.bind pre std tr nm path = Some tr' /\ P nm.
  Proof.
    intros pre std tr path tr' H L. unfold Tk.add in H. rewrite L in H.
    set (segs := Tk.split_slash [] path) in *.
    assert (NE : seq 1 (length segs) <> []).
    { pose proof (PT.split_slash_nonempty path []) as N. fold segs in N. destruct segs; [congruence|discriminate]. }
    destruct (Tk.try_cands true pre std tr path segs (seq 1 (length segs)) []) as [[r l]| |] eqn:ET;
      cbn [bind] in H; try discriminate.
    destruct (try_cands_P _ _ _ _ _ _ _ _ _ ET (or_intror NE)) as [Pl Hb].
    destruct r as [tr1|].
    - inversion H; subst. exists l. split; [apply Hb; reflexivity|exact Pl].
    - destruct (PT.number_loop_result (S (length (Tk.n2p tr) + Tk.std_size std + length pre)) 2 pre std tr l path)
        as [(tr1 & j & E & B)|[E _]]; rewrite E in H; [|discriminate].
      inversion H; subst. exists (l ++ Tk.itoa j). split; [exact B|apply P_num; exact Pl].
  Qed.
End NamePred.

(* ---- the names are lower-case: no upper-case first byte (C11: [exported n = false]) ---- *)

Lemma is_upper_to_lower : forall c, is_upper (to_lower c) = false.
Proof.
  intros c. unfold to_lower. destruct (is_upper c) eqn:E; [|exact E].
  unfold is_upper in *. apply andb_true_iff in E. destruct E as [E1 E2].
  apply N.leb_le in E1. apply N.leb_le in E2.
  assert (B : (N_of_ascii c + 32 < 256)%N) by lia.
  rewrite N_ascii_embedding by exact B.
  apply andb_false_iff. right. apply N.leb_gt. lia.
Qed.

Definition no_upper (n : bytes) : Prop := Forall (fun c => is_upper c = false) n.

Lemma raw_local_name_no_upper : forall parts r, Tk.raw_local_name parts = Ok r -> no_upper r.
Proof.
  intros parts r. unfold Tk.raw_local_name.
  destruct (Gengo.Model.CamelCase.c_conv true 4 _) as [x| |]; try discriminate.
  intros H. inversion H; subst. unfold no_upper. apply Forall_forall. intros c Hc.
  apply in_map_iff in Hc. destruct Hc as (y & <- & _). apply is_upper_to_lower.
Qed.

Lemma no_upper_filter : forall f n, no_upper n -> no_upper (filter f n).
Proof.
  intros f n H. unfold no_upper in *. rewrite Forall_forall in *. intros c Hc.
  apply filter_In in Hc. apply H, Hc.
Qed.

Lemma sanitize_no_upper : forall raw, no_upper raw -> no_upper (Tk.sanitize raw).
Proof.
  intros raw H. unfold Tk.sanitize.
  destruct (is_nil (filter ident_char raw) || is_blank (filter ident_char raw)).
  - unfold no_upper. repeat constructor.
  - destruct (Tk.hd_is_digit (filter ident_char raw) || is_keyword (filter ident_char raw)).
    + constructor; [reflexivity|apply no_upper_filter, H].
    + apply no_upper_filter, H.
Qed.

Definition lower_first (n : bytes) : Prop := n <> [] /\ TLS.exported n = false.

Lemma valid_no_upper_lower_first : forall n, valid_name_b n = true -> no_upper n -> lower_first n.
Proof.
  intros n V U. split; [apply PT.valid_name_nonempty, V|].
  destruct n as [|c r]; [reflexivity|]. inversion U; subst. assumption.
Qed.

Lemma to_local_name_lower_first : forall parts nm, Tk.to_local_name true parts = Ok nm -> lower_first nm.
Proof.
  intros parts nm H. unfold Tk.to_local_name in H.
  destruct (Tk.raw_local_name parts) as [raw| |] eqn:E; cbn [bind] in H; try discriminate.
  inversion H; subst. apply valid_no_upper_lower_first; [apply PT.sanitize_valid|].
  apply sanitize_no_upper. eapply raw_local_name_no_upper; eauto.
Qed.

Lemma lower_first_num : forall nm k, lower_first nm -> lower_first (nm ++ Tk.itoa k).
Proof.
  intros nm k [NE E]. destruct nm as [|c r]; [congruence|]. split; [discriminate|exact E].
Qed.

(* ------------------------------------------------------------------------------------------ *)
(* association lists: C11's [alookup] is C03's [lookup]; reversal does not matter for membership  *)

Lemma alookup_lookup : forall k (m : list (bytes * bytes)), TL.alookup k m = Tk.lookup k m.
Proof. induction m as [|[k' v] r IH]; cbn; [reflexivity|]. rewrite IH. reflexivity. Qed.

Lemma alookup_none_notin : forall k (m : list (bytes * bytes)), TL.alookup k m = None <-> ~ In k (map fst m).
Proof. intros k m. rewrite alookup_lookup. apply PT.lookup_none_keys. Qed.

Lemma lookup_rev_none : forall k (m : list (bytes * bytes)), TL.alookup k m = None -> Tk.lookup k (rev m) = None.
Proof.
  intros k m H. apply PT.lookup_none_keys. apply alookup_none_notin in H.
  unfold keys. rewrite map_rev. intros Hin. apply in_rev in Hin. exact (H Hin).
Qed.

Lemma lookup_rev_some : forall k v (m : list (bytes * bytes)),
  TL.alookup k m = Some v -> exists w, Tk.lookup k (rev m) = Some w.
Proof.
  intros k v m H. rewrite alookup_lookup in H. apply PT.lookup_in_keys in H.
  apply PT.keys_in_lookup. unfold keys in *. rewrite map_rev. apply in_rev. rewrite rev_involutive. exact H.
Qed.

(* with pairwise distinct keys the order of an association list is irrelevant *)
Lemma lookup_rev_nodup : forall k (m : list (bytes * bytes)),
  NoDup (map fst m) -> Tk.lookup k (rev m) = TL.alookup k m.
Proof.
  intros k m ND. destruct (TL.alookup k m) as [v|] eqn:E.
  - rewrite alookup_lookup in E. apply PT.lookup_in in E.
    apply PT.in_nodup_lookup.
    + unfold keys. rewrite map_rev. apply NoDup_rev. exact ND.
    + apply in_rev. rewrite rev_involutive. exact E.
  - apply lookup_rev_none. exact E.
Qed.

Lemma map_swap_fst : forall m : list (bytes * bytes), map fst (map swap m) = map snd m.
Proof. induction m as [|[a b] r IH]; cbn; [reflexivity|]. rewrite IH. reflexivity. Qed.

(* ------------------------------------------------------------------------------------------ *)
(* Section: any refused-name list, any reserved table                                           *)

Section Concrete.
  Variable pre : list bytes.
  Variable std : option Tk.tracker.

  Notation cadd := (cadd pre std).
  Notation pick := (pick_c03 pre std).

  Lemma cadd_ok : forall tr p, Tk.add true pre std tr p = Ok (cadd tr p).
  Proof.
    intros tr p. unfold RenderStack.cadd. destruct (PT.add_total true pre std tr p) as [tr' E]. rewrite E. reflexivity.
  Qed.

  (* ---- C15's two hypotheses, for EVERY tracker state ---- *)

  Lemma cadd_ext : forall tr q p n,
    Tk.lookup p (Tk.p2n tr) = Some n -> Tk.lookup p (Tk.p2n (cadd tr q)) = Some n.
  Proof.
    intros tr q p n L. pose proof (cadd_ok tr q) as E. apply PT.add_reach in E.
    destruct (PT.reach_ext _ _ _ _ _ E) as [X _]. apply X, L.
  Qed.

  Lemma fold_cadd_ext : forall qs tr p n,
    Tk.lookup p (Tk.p2n tr) = Some n -> Tk.lookup p (Tk.p2n (fold_left cadd qs tr)) = Some n.
  Proof.
    induction qs as [|q r IH]; intros tr p n L; [exact L|]. cbn [fold_left]. apply IH, cadd_ext, L.
  Qed.

  Lemma cadd_bound : forall tr p, exists n, Tk.lookup p (Tk.p2n (cadd tr p)) = Some n.
  Proof. intros tr p. exact (proj1 (PT.add_fixed_bound _ _ _ _ _ (cadd_ok tr p))). Qed.

  (* "stable names": a name handed out is not changed by later additions *)
  Lemma cadd_stable : forall tr p qs, cname (fold_left cadd qs (cadd tr p)) p = cname (cadd tr p) p.
  Proof.
    intros tr p qs. destruct (cadd_bound tr p) as [n L]. unfold cname, Tk.lookup_or_empty.
    rewrite (fold_cadd_ext qs _ _ _ L), L. reflexivity.
  Qed.

  (* "add registers exactly that path" *)
  Lemma cadd_registers : forall tr p q, In q (cpaths (cadd tr p)) <-> q = p \/ In q (cpaths tr).
  Proof. intros tr p q. exact (proj2 (PT.add_fixed_bound _ _ _ _ _ (cadd_ok tr p)) q). Qed.

  (* a fold of [cadd] is C03's [add_all], i.e. a history of AddType calls *)
  Lemma fold_cadd_add_all : forall ps tr, Tk.add_all true pre std tr ps = Ok (fold_left cadd ps tr).
  Proof.
    induction ps as [|p r IH]; intros tr; [reflexivity|]. cbn [Tk.add_all fold_left].
    rewrite cadd_ok. cbn [bind]. apply IH.
  Qed.

  (* ---- what a fresh registration looks like ---- *)

  Lemma cadd_fresh : forall tr p, Tk.lookup p (Tk.p2n tr) = None ->
    exists nm, cadd tr p = Tk.mk_tracker ((p, nm) :: Tk.p2n tr) ((nm, p) :: Tk.n2p tr)
               /\ Tk.lookup nm (Tk.n2p tr) = None /\ name_in pre nm = false
               /\ valid_name_b nm = true /\ lower_first nm.
  Proof.
    intros tr p L.
    destruct (add_bound_P (fun nm => valid_name_b nm = true /\ lower_first nm)) with (pre := pre) (std := std)
      (tr := tr) (path := p) (tr' := cadd tr p) as (nm & B & V & LF).
    - intros parts nm H. split; [|eapply to_local_name_lower_first; eauto].
      destruct (PT.to_local_name_spec true parts) as (nm' & E & V). rewrite E in H. inversion H; subst. auto.
    - intros nm k [V LF]. split; [apply PT.valid_name_numbered, V|apply lower_first_num, LF].
    - apply cadd_ok.
    - exact L.
    - exists nm. destruct (PT.bind_some _ _ _ _ _ _ B) as (_ & N & E).
      repeat split; try assumption. + eapply PT.bind_some_not_pre; eauto. + apply LF. + apply LF.
  Qed.

  Lemma cadd_registered : forall tr p n, Tk.lookup p (Tk.p2n tr) = Some n -> cadd tr p = tr.
  Proof.
    intros tr p n L. unfold RenderStack.cadd, Tk.add. rewrite L. reflexivity.
  Qed.

  (* ---- C11's [pick] ---- *)

  Lemma pick_spec : forall p e n, pick p e = Some n ->
    TL.alookup p e = None /\
    cadd (tr_of e) p = Tk.mk_tracker ((p, n) :: rev e) ((n, p) :: map swap (rev e)) /\
    ~ In n (map snd e) /\ name_in pre n = false /\ valid_name_b n = true /\ lower_first n.
  Proof.
    intros p e n H. unfold pick_c03 in H. destruct (TL.alookup p e) eqn:A; [discriminate|].
    rewrite cadd_ok in H.
    destruct (cadd_fresh (tr_of e) p (lookup_rev_none _ _ A)) as (nm & E & N & NP & V & LF).
    rewrite E in H. cbn [Tk.p2n] in H. rewrite PT.lookup_hd in H. inversion H; subst nm.
    split; [reflexivity|]. split; [exact E|]. split; [|auto].
    apply PT.lookup_none_keys in N. cbn [tr_of Tk.n2p] in N. unfold keys in N.
    rewrite map_swap_fst, map_rev in N. intros Hin. apply N. apply in_rev. rewrite rev_involutive. exact Hin.
  Qed.

  Lemma pick_total : forall p e, TL.alookup p e = None -> pick p e <> None.
  Proof.
    intros p e A. unfold pick_c03. rewrite A, cadd_ok.
    destruct (cadd_bound (tr_of e) p) as [n L]. rewrite L. discriminate.
  Qed.

  Theorem tracker_hyps_c03 : PTL.tracker_hyps pick.
  Proof.
    split; [|split].
    - intros p e n H. apply (pick_spec _ _ _ H).
    - intros p e n H. apply PT.valid_name_nonempty. apply (pick_spec _ _ _ H).
    - exact pick_total.
  Qed.

  Theorem tracker_lower_case_c03 : PTL.tracker_lower_case pick.
  Proof. intros p e n H. apply (pick_spec _ _ _ H). Qed.

  Theorem tracker_not_predeclared_c03 :
    (forall n, TLS.is_predeclared n = true -> In n pre) -> PTL.tracker_not_predeclared pick.
  Proof.
    intros Hpre p e n H. destruct (TLS.is_predeclared n) eqn:E; [|reflexivity]. exfalso.
    destruct (pick_spec _ _ _ H) as (_ & _ & _ & NP & _).
    apply Hpre in E. apply PT.name_in_spec in E. congruence.
  Qed.

  (* ---- the renv of C11 and the record of C03 move in lock step ---- *)

  Lemma tr_of_app1 : forall e p n,
    tr_of (e ++ [(p, n)]) = Tk.mk_tracker ((p, n) :: rev e) ((n, p) :: map swap (rev e)).
  Proof. intros e p n. unfold tr_of. rewrite rev_unit. reflexivity. Qed.

  Theorem tr_add_simulation : forall p e, tr_of (TL.tr_add pick p e) = cadd (tr_of e) p.
  Proof.
    intros p e. unfold TL.tr_add. destruct (TL.alookup p e) as [n|] eqn:A.
    - destruct (lookup_rev_some _ _ _ A) as [w L]. symmetry. exact (cadd_registered (tr_of e) p w L).
    - destruct (pick p e) as [n|] eqn:P; [|exfalso; exact (pick_total p e A P)].
      destruct (pick_spec _ _ _ P) as (_ & E & _). rewrite E. apply tr_of_app1.
  Qed.

  Lemma fold_tr_add_simulation : forall ps e,
    tr_of (fold_left (fun e p => TL.tr_add pick p e) ps e) = fold_left cadd ps (tr_of e).
  Proof.
    induction ps as [|p r IH]; intros e; [reflexivity|]. cbn [fold_left]. rewrite IH, tr_add_simulation. reflexivity.
  Qed.

  (* LocalNameOf agrees as soon as no path is registered twice (an invariant of [tr_add]) *)
  Lemma local_name_simulation : forall p e,
    NoDup (map fst e) -> TL.local_name_of p e = cname (tr_of e) p.
  Proof.
    intros p e ND. unfold TL.local_name_of, cname, Tk.lookup_or_empty. cbn [tr_of Tk.p2n].
    rewrite lookup_rev_nodup by exact ND. reflexivity.
  Qed.

  Lemma tr_add_nodup : forall p e, NoDup (map fst e) -> NoDup (map fst (TL.tr_add pick p e)).
  Proof.
    intros p e ND. unfold TL.tr_add. destruct (TL.alookup p e) eqn:A; [exact ND|].
    destruct (pick p e); [|exact ND]. rewrite map_app. cbn.
    apply alookup_none_notin in A. apply PTL.NoDup_app_one; assumption.
  Qed.
End Concrete.

(* ------------------------------------------------------------------------------------------ *)
(* C15's ParseTypeRef is the parser C11 assumes                                                  *)

Lemma of15_eq : forall p n a, of15 (TR.TRef p n a) = TL.TRef p n (of15s a).
Proof.
  intros p n a. reflexivity.
Qed.

Lemma of15_to15 :
  (forall t, of15 (to15 t) = t) /\ (forall l, of15s (to15s l) = l).
Proof.
  assert (H : forall t, of15 (to15 t) = t).
  { fix IH 1. intros [p n a]. cbn [to15]. rewrite of15_eq. f_equal.
    induction a as [|t r IHr]; [reflexivity|]. cbn [to15s of15s]. rewrite IH, IHr. reflexivity. }
  split; [exact H|]. induction l as [|t r IHr]; [reflexivity|]. cbn [to15s of15s]. rewrite H, IHr. reflexivity.
Qed.

Lemma print_to15 :
  (forall t, TR.print (to15 t) = TL.tref_string t) /\
  (forall l, TR.join_comma (map TR.print (to15s l)) = TL.trefs_string l).
Proof.
  assert (H : forall t, TR.print (to15 t) = TL.tref_string t).
  { fix IH 1. intros [p n a]. cbn [to15 TR.print TL.tref_string]. unfold TR.head_str.
    rewrite <- app_assoc. f_equal. f_equal.
    destruct a as [|t r]; [reflexivity|]. cbn [to15s is_nil]. cbn [app]. f_equal. unfold TR.lbr, TL.lbrack. f_equal.
    change (to15 t :: to15s r) with (to15s (TL.TRCons t r)).
    assert (J : forall l, TR.join_comma (map TR.print (to15s l)) = TL.trefs_string l).
    { induction l as [|t1 r1 IHl]; [reflexivity|]. cbn [to15s map TR.join_comma TL.trefs_string].
      rewrite IH. destruct r1 as [|t2 r2]; [cbn; apply app_nil_r|].
      cbn [to15s map] in *. rewrite IHl. reflexivity. }
    rewrite J. reflexivity. }
  split; [exact H|]. induction l as [|t1 r1 IHl]; [reflexivity|]. cbn [to15s map TR.join_comma TL.trefs_string].
  rewrite H. destruct r1 as [|t2 r2]; [cbn; apply app_nil_r|].
  cbn [to15s map] in *. rewrite IHl. reflexivity.
Qed.

Lemma is_ident_char_ident_b : forall c, TL.is_ident_char c = true -> TR.ident_b c = true.
Proof.
  intros c H. unfold TR.ident_b, TR.plain_b, TR.lbr, TR.rbr, TR.comma, TR.dot.
  destruct (Ascii.eqb c "["%char) eqn:E1; [apply Ascii.eqb_eq in E1; subst; discriminate|].
  destruct (Ascii.eqb c "]"%char) eqn:E2; [apply Ascii.eqb_eq in E2; subst; discriminate|].
  destruct (Ascii.eqb c ","%char) eqn:E3; [apply Ascii.eqb_eq in E3; subst; discriminate|].
  destruct (Ascii.eqb c "."%char) eqn:E4; [apply Ascii.eqb_eq in E4; subst; discriminate|].
  reflexivity.
Qed.

Lemma pkg_ok_plain : forall p, TLS.pkg_ok p = true -> forallb TR.plain_b p = true.
Proof.
  intros p H. unfold TLS.pkg_ok in H. apply andb_true_iff in H. destruct H as [_ H].
  rewrite forallb_forall in *. intros c Hc. specialize (H c Hc).
  unfold TR.plain_b, TR.lbr, TR.rbr, TR.comma. unfold TL.lbrack, TL.rbrack, TL.comma in H.
  apply negb_true_iff in H. apply orb_false_iff in H. destruct H as [H H3].
  apply orb_false_iff in H. destruct H as [H1 H2]. rewrite H1, H2, H3. reflexivity.
Qed.

Lemma tref_wf_wf :
  (forall t, PTL.tref_wf t = true -> TR.wf_b (to15 t) = true) /\
  (forall l, PTL.trefs_wf l = true -> forallb TR.wf_b (to15s l) = true).
Proof.
  assert (H : forall t, PTL.tref_wf t = true -> TR.wf_b (to15 t) = true).
  { fix IH 1. intros [p n a] W. cbn [PTL.tref_wf] in W.
    apply andb_true_iff in W. destruct W as [W Wa]. apply andb_true_iff in W. destruct W as [Wp Wn].
    cbn [to15 TR.wf_b]. apply andb_true_iff. split; [apply andb_true_iff; split|].
    - destruct p as [|c r]; [reflexivity|]. cbn [is_nil orb] in Wp. apply pkg_ok_plain, Wp.
    - unfold TL.is_ident in Wn. apply andb_true_iff in Wn. destruct Wn as [N1 N2].
      rewrite N1. cbn [andb]. rewrite forallb_forall in *. intros c Hc. apply is_ident_char_ident_b, N2, Hc.
    - induction a as [|t r IHr]; [reflexivity|]. cbn [PTL.trefs_wf] in Wa.
      apply andb_true_iff in Wa. destruct Wa as [W1 W2]. cbn [to15s forallb].
      rewrite (IH t W1), (IHr W2). reflexivity. }
  split; [exact H|]. induction l as [|t r IHr]; intros W; [reflexivity|]. cbn [PTL.trefs_wf] in W.
  apply andb_true_iff in W. destruct W as [W1 W2]. cbn [to15s forallb]. rewrite (H t W1), (IHr W2). reflexivity.
Qed.

Theorem parse_hyp_c15 : PTL.parse_hyp parse_c15.
Proof.
  intros t W. unfold parse_c15, TR.parse_type_ref.
  rewrite <- (proj1 print_to15 t).
  rewrite (PTR.roundtrip (to15 t) (proj1 tref_wf_wf t W) (S (length (TR.print (to15 t)))) (PeanoNat.Nat.lt_succ_diag_r _)).
  rewrite (proj1 of15_to15). reflexivity.
Qed.

(* ------------------------------------------------------------------------------------------ *)
(* the tracker of the current tree                                                              *)

Theorem the_tracker_hyps :
  PTL.tracker_hyps the_pick /\ PTL.tracker_not_predeclared the_pick /\ PTL.tracker_lower_case the_pick.
Proof.
  split; [apply tracker_hyps_c03|]. split; [|apply tracker_lower_case_c03].
  apply tracker_not_predeclared_c03. exact Gengo.Proofs.StdTable.c11_predeclared_in_universe.
Qed.
