(* Per-package analysis of the pipeline model: what a successful package run leaves at each of its paths,
   localisation (a package's directory only sees that package's effects), independence of the rest of the run. *)
Require Import Gengo.Base.Bytes Gengo.Model.Pipeline Gengo.Proofs.Pipeline.
From Coq Require Import Permutation.

(* ---------- generic list facts ---------- *)

Lemma NoDup_map_inj_in {A B} (f : A -> B) (l : list A) :
  NoDup (map f l) -> forall x y, In x l -> In y l -> f x = f y -> x = y.
Proof.
  induction l as [|a r IH]; intros Hnd x y Hx Hy Heq; [contradiction|].
  cbn in Hnd. inversion Hnd as [|? ? Hnotin Hnd']; subst.
  destruct Hx as [Hx|Hx]; destruct Hy as [Hy|Hy]; subst.
  - reflexivity.
  - exfalso. apply Hnotin. rewrite Heq. apply in_map. exact Hy.
  - exfalso. apply Hnotin. rewrite <- Heq. apply in_map. exact Hx.
  - apply IH; assumption.
Qed.

Lemma NoDup_map_filter {A B} (f : A -> B) (keep : A -> bool) (l : list A) :
  NoDup (map f l) -> NoDup (map f (filter keep l)).
Proof.
  induction l as [|a r IH]; intros Hnd; cbn; [constructor|].
  cbn in Hnd. inversion Hnd as [|? ? Hnotin Hnd']; subst.
  destruct (keep a); cbn; [|apply IH; exact Hnd'].
  constructor; [|apply IH; exact Hnd'].
  intros Hin. apply Hnotin. apply in_map_iff in Hin. destruct Hin as [x [Hfx Hx]].
  apply filter_In in Hx. apply in_map_iff. exists x. tauto.
Qed.

Lemma NoDup_cons_dir {A B} (f : A -> B) (a : A) (r : list A) :
  NoDup (map f (a :: r)) -> (forall x, In x r -> f x <> f a) /\ NoDup (map f r).
Proof.
  cbn. intros Hnd. inversion Hnd as [|? ? Hnotin Hnd']; subst. split; [|exact Hnd'].
  intros x Hx Heq. apply Hnotin. rewrite <- Heq. apply in_map. exact Hx.
Qed.

Lemma removes_lookup : forall d names f s,
  fs_lookup (d, f) (apply_all (map (fun x => ERemove (d, x)) names) s) =
  if mem_bytes f names then None else fs_lookup (d, f) s.
Proof.
  intros d names f. induction names as [|x r IH]; intros s; cbn [map apply_all fold_left]; [reflexivity|].
  change (fold_left (fun s e => apply_effect e s) (map (fun x => ERemove (d, x)) r) (apply_effect (ERemove (d, x)) s))
    with (apply_all (map (fun x => ERemove (d, x)) r) (apply_effect (ERemove (d, x)) s)).
  rewrite IH. unfold mem_bytes. cbn [existsb].
  fold (mem_bytes f r). destruct (mem_bytes f r) eqn:Hr.
  - rewrite orb_true_r. reflexivity.
  - rewrite orb_false_r. cbn [apply_effect]. destruct (bytes_eqb f x) eqn:Hfx.
    + apply bytes_eqb_spec in Hfx. subst x. apply lookup_del_same.
    + apply lookup_del_other. intros Heq. inversion Heq; subst. rewrite bytes_eqb_refl in Hfx. discriminate.
Qed.

Section Analysis.
Variable E : env.

(* ---------- the generator phase in closed form ---------- *)

Definition kept (g : generator) (p : pkginfo) : bool := negb (is_zero (gen_run E g p)).

Lemma gen_phase_done : forall gens p gfs tr,
  gen_phase E gens p = (gfs, tr, Done) ->
  gfs = map (fun g => (g_name g, go_body (gen_run E g p))) (filter (fun g => kept g p) gens)
  /\ forall g, In g gens -> go_out (gen_run E g p) = Done.
Proof.
  induction gens as [|g r IH]; intros p gfs tr H; cbn [gen_phase] in H.
  - inversion H; subst. split; [reflexivity | intros g []].
  - destruct (go_out (gen_run E g p)) eqn:Hout; try discriminate H.
    destruct (gen_phase E r p) as [[gfs' tr'] out'] eqn:Hr.
    inversion H; subst. destruct (IH p gfs' tr' Hr) as [Hg Hall].
    split.
    + cbn [filter]. unfold kept at 1. destruct (is_zero (gen_run E g p)); cbn [negb map]; rewrite Hg; reflexivity.
    + intros g0 [Hg0|Hg0]; [subst; exact Hout | apply Hall; exact Hg0].
Qed.

Lemma gfs_names : forall gens p,
  map fst (map (fun g => (g_name g, go_body (gen_run E g p))) (filter (fun g => kept g p) gens))
  = map g_name (filter (fun g => kept g p) gens).
Proof. intros. rewrite map_map. reflexivity. Qed.

(* ---------- the write loop ---------- *)

Lemma write_loop_fail : forall a p gfs rem effs rem' q,
  NoDup (map fst gfs) ->
  write_loop E a p gfs rem = (effs, rem', Some (EParse q)) ->
  (exists n body, In (n, body) gfs /\ q = gen_file a p n /\ body <> [] /\
                  e_fmt E (assemble (pk_name p) n body) = None)
  /\ forall e, In e effs -> effect_path e <> q.
Proof.
  intros a p gfs. induction gfs as [|[n body] r IH]; intros rem effs rem' q Hnd H; cbn [write_loop] in H.
  - discriminate H.
  - cbn in Hnd. inversion Hnd as [|? ? Hnotin Hnd']; subst.
    destruct body as [|c body'] eqn:Hb; cbn [is_nil] in H.
    + destruct (IH _ _ _ _ Hnd' H) as [[n' [b' [Hin Hrest]]] Heff]. split; [|exact Heff].
      exists n', b'. split; [right; exact Hin | exact Hrest].
    + rewrite <- Hb in *. destruct (e_fmt E (assemble (pk_name p) n body)) as [out|] eqn:Hf.
      * destruct (write_loop E a p r (strike (fname a n) rem)) as [[effs0 rem0] e0] eqn:Hw.
        inversion H; subst effs rem' e0.
        destruct (IH _ _ _ _ Hnd' Hw) as [[n' [b' [Hin [Hq Hrest]]]] Heff]. split.
        -- exists n', b'. split; [right; exact Hin | split; [exact Hq | exact Hrest]].
        -- intros e He.
           assert (He' : In e (write_effects (gen_file a p n) out) \/ In e effs0).
           { cbn [write_effects app In] in He |- *. tauto. }
           clear He. destruct He' as [He|He]; [|apply Heff; exact He].
           assert (Hp : effect_path e = gen_file a p n) by (cbn in He; destruct He as [He|[He|[]]]; subst e; reflexivity).
           rewrite Hp, Hq. intros Heq. apply gen_file_inj in Heq. subst n'.
           apply Hnotin. apply in_map_iff. exists (n, b'). split; [reflexivity | exact Hin].
      * inversion H; subst. split; [|intros e []].
        exists n, (c :: body'). split; [left; reflexivity|]. split; [reflexivity|]. split; [discriminate | exact Hf].
Qed.

Lemma write_loop_err_is_parse : forall a p gfs rem x,
  snd (write_loop E a p gfs rem) = Some x -> exists q, x = EParse q.
Proof.
  intros a p gfs. induction gfs as [|[n body] r IH]; intros rem x H; cbn [write_loop] in H.
  - discriminate H.
  - destruct (is_nil body); [apply IH in H; exact H|].
    destruct (e_fmt E (assemble (pk_name p) n body)).
    + destruct (write_loop E a p r (strike (fname a n) rem)) as [[effs0 rem0] e0] eqn:Hw. cbn [snd] in H.
      specialize (IH (strike (fname a n) rem) x). rewrite Hw in IH. apply IH. exact H.
    + cbn [snd] in H. inversion H. eexists. reflexivity.
Qed.

Lemma write_loop_ok : forall a p gfs rem effs rem',
  NoDup (map fst gfs) ->
  write_loop E a p gfs rem = (effs, rem', None) ->
  (forall f, In f rem' <-> In f rem /\ ~ In f (map (fun gf => fname a (fst gf)) gfs))
  /\ (forall n body s, In (n, body) gfs ->
        (body = [] -> fs_lookup (gen_file a p n) (apply_all effs s) = fs_lookup (gen_file a p n) s) /\
        (body <> [] -> fs_lookup (gen_file a p n) (apply_all effs s) = e_fmt E (assemble (pk_name p) n body)
                       /\ e_fmt E (assemble (pk_name p) n body) <> None)).
Proof.
  intros a p gfs. induction gfs as [|[n0 body0] r IH]; intros rem effs rem' Hnd H; cbn [write_loop] in H.
  - inversion H; subst. split; [intros f; cbn; tauto | intros n body s []].
  - cbn in Hnd. inversion Hnd as [|? ? Hnotin Hnd']; subst.
    (* effects of the tail never touch the head's file *)
    assert (Htail : forall rem1 effs1 rem1' e1 s, write_loop E a p r rem1 = (effs1, rem1', e1) ->
              fs_lookup (gen_file a p n0) (apply_all effs1 s) = fs_lookup (gen_file a p n0) s).
    { intros rem1 effs1 rem1' e1 s Hw. apply apply_all_other. intros e He Heq.
      pose proof (write_loop_paths E a p r rem1 e) as Hp. rewrite Hw in Hp. destruct (Hp He) as [n' [Hin Hn']].
      rewrite Hn' in Heq. apply gen_file_inj in Heq. subst n'. apply Hnotin. exact Hin. }
    destruct body0 as [|c body0'] eqn:Hb; cbn [is_nil] in H.
    + destruct (IH _ _ _ Hnd' H) as [Hrem Hlk]. split.
      * intros f. rewrite Hrem, strike_In. cbn [map fst In]. split.
        -- intros [[H1 H2] H3]. split; [exact H1|]. intros [H4|H4]; [congruence | contradiction].
        -- intros [H1 H2]. split; [split; [exact H1|]|]; intros H3; apply H2; [left; congruence | right; exact H3].
      * intros n body s [Hin|Hin].
        -- inversion Hin; subst n body. split; [|intros Hne; contradiction].
           intros _. eapply Htail. exact H.
        -- apply Hlk. exact Hin.
    + rewrite <- Hb in *. destruct (e_fmt E (assemble (pk_name p) n0 body0)) as [out|] eqn:Hf; [|discriminate H].
      destruct (write_loop E a p r (strike (fname a n0) rem)) as [[effs0 rem0] e0] eqn:Hw.
      remember (write_effects (gen_file a p n0) out) as W eqn:HW.
      inversion H; subst effs rem' e0. subst W.
      destruct (IH _ _ _ Hnd' Hw) as [Hrem Hlk]. split.
      * intros f. rewrite Hrem, strike_In. cbn [map fst In]. split.
        -- intros [[H1 H2] H3]. split; [exact H1|]. intros [H4|H4]; [congruence | contradiction].
        -- intros [H1 H2]. split; [split; [exact H1|]|]; intros H3; apply H2; [left; congruence | right; exact H3].
      * intros n body s [Hin|Hin].
        -- inversion Hin; subst n body. split; [intros Hnil; rewrite Hnil in Hb; discriminate Hb|].
           intros _. rewrite apply_all_app. rewrite (Htail _ _ _ _ _ Hw).
           rewrite apply_write_effects. unfold write_file_fs. rewrite lookup_set_same.
           split; [symmetry; exact Hf | rewrite Hf; discriminate].
        -- assert (Hne : gen_file a p n <> gen_file a p n0).
           { intros Heq. apply gen_file_inj in Heq. subst n. apply Hnotin.
             apply in_map_iff. exists (n0, body). split; [reflexivity | exact Hin]. }
           destruct (Hlk n body (apply_all (write_effects (gen_file a p n0) out) s) Hin) as [H1 H2].
           assert (Hsame : fs_lookup (gen_file a p n) (apply_all (write_effects (gen_file a p n0) out) s)
                           = fs_lookup (gen_file a p n) s).
           { apply apply_all_other. intros e He. cbn in He. destruct He as [He|[He|[]]]; subst e; cbn [effect_path]; congruence. }
           rewrite apply_all_app. split.
           ++ intros Hnil. rewrite (H1 Hnil). exact Hsame.
           ++ intros Hnn. exact (H2 Hnn).
Qed.

(* ---------- a successful package run, path by path ---------- *)

Definition order_ok : Prop := forall p l, Permutation (e_order E p l) l.

Lemma perm_map_NoDup {A B} (f : A -> B) (l1 l2 : list A) :
  Permutation l1 l2 -> NoDup (map f l2) -> NoDup (map f l1).
Proof.
  intros Hp Hnd. eapply Permutation_NoDup; [|exact Hnd]. apply Permutation_map, Permutation_sym, Hp.
Qed.

Lemma pkg_effects_done : forall a gens p effs tr,
  order_ok -> NoDup (map g_name gens) ->
  pkg_effects E a gens p = (effs, tr, Done) ->
  forall s,
  (forall g, In g gens ->
      fs_lookup (gen_file a p (g_name g)) (apply_all effs s) =
        if negb (is_nil (go_body (gen_run E g p))) then e_fmt E (assemble (pk_name p) (g_name g) (go_body (gen_run E g p)))
        else if go_ignore (gen_run E g p) then fs_lookup (gen_file a p (g_name g)) s
        else if mem_bytes (fname a (g_name g)) (pk_files p) then None
        else fs_lookup (gen_file a p (g_name g)) s)
  /\ (forall g, In g gens -> go_body (gen_run E g p) <> [] ->
        e_fmt E (assemble (pk_name p) (g_name g) (go_body (gen_run E g p))) <> None)
  /\ (forall f, In f (pk_files p) -> prefixb (out_prefix a) f = true ->
        (~ exists g, In g gens /\ kept g p = true /\ f = fname a (g_name g)) ->
        fs_lookup (pk_dir p, f) (apply_all effs s) = None).
Proof.
  intros a gens p effs tr Hord Hnd H s. unfold pkg_effects in H.
  destruct (gen_phase E gens p) as [[gfs tr0] out] eqn:Hgp.
  destruct out; try discriminate H.
  destruct (gen_phase_done _ _ _ _ Hgp) as [Hgfs _].
  destruct (write_loop E a p (e_order E p gfs) (generated_files a p)) as [[weffs rem] e] eqn:Hw.
  destruct e as [x|]; [discriminate H|]. inversion H; subst effs tr0. clear H.
  assert (HndG : NoDup (map fst gfs)).
  { rewrite Hgfs, gfs_names. apply NoDup_map_filter. exact Hnd. }
  assert (HndO : NoDup (map fst (e_order E p gfs))) by (eapply perm_map_NoDup; [apply Hord | exact HndG]).
  destruct (write_loop_ok _ _ _ _ _ _ HndO Hw) as [Hrem Hlk].
  assert (Hin_gfs : forall n body, In (n, body) (e_order E p gfs) <->
             exists g, In g gens /\ kept g p = true /\ n = g_name g /\ body = go_body (gen_run E g p)).
  { intros n body. split.
    - intros Hin. apply (Permutation_in _ (Hord p gfs)) in Hin. rewrite Hgfs in Hin.
      apply in_map_iff in Hin. destruct Hin as [g [Heq Hg]]. apply filter_In in Hg. inversion Heq; subst.
      exists g. tauto.
    - intros [g [Hg [Hk [Hn Hb]]]]. apply (Permutation_in _ (Permutation_sym (Hord p gfs))).
      rewrite Hgfs. apply in_map_iff. exists g. split; [subst; reflexivity | apply filter_In; tauto]. }
  assert (Hfn : forall f, In f (map (fun gf => fname a (fst gf)) (e_order E p gfs)) <->
             exists g, In g gens /\ kept g p = true /\ f = fname a (g_name g)).
  { intros f. rewrite in_map_iff. split.
    - intros [[n body] [Hf Hin]]. apply Hin_gfs in Hin. destruct Hin as [g [Hg [Hk [Hn Hb]]]].
      exists g. cbn in Hf. subst. tauto.
    - intros [g [Hg [Hk Hf]]]. exists (g_name g, go_body (gen_run E g p)). split; [subst; reflexivity|].
      apply Hin_gfs. exists g. tauto. }
  rewrite apply_all_app.
  split; [|split].
  - intros g Hg. unfold gen_file at 1. rewrite removes_lookup. unfold removal_order. rewrite mem_rank_sort. fold (gen_file a p (g_name g)).
    destruct (kept g p) eqn:Hk.
    + (* retained: its name was struck from the removal set *)
      assert (Hnr : mem_bytes (fname a (g_name g)) rem = false).
      { destruct (mem_bytes (fname a (g_name g)) rem) eqn:Hm; [|reflexivity].
        apply mem_bytes_In in Hm. apply Hrem in Hm. destruct Hm as [_ Hm]. exfalso. apply Hm.
        apply Hfn. exists g. tauto. }
      rewrite Hnr.
      assert (Hin : In (g_name g, go_body (gen_run E g p)) (e_order E p gfs)) by (apply Hin_gfs; exists g; tauto).
      destruct (Hlk _ _ s Hin) as [H1 H2].
      destruct (go_body (gen_run E g p)) as [|c b] eqn:Hb; cbn [is_nil negb].
      * rewrite (H1 eq_refl). unfold kept, is_zero in Hk. rewrite Hb in Hk. cbn [is_nil andb] in Hk.
        rewrite negb_involutive in Hk. rewrite Hk. reflexivity.
      * apply H2. discriminate.
    + (* not retained: rendered nothing, no ignore flag *)
      unfold kept in Hk. apply negb_false_iff in Hk. unfold is_zero in Hk. apply andb_true_iff in Hk.
      destruct Hk as [Hnil Hign]. apply negb_true_iff in Hign. rewrite Hnil, Hign. cbn [negb].
      assert (Hw0 : fs_lookup (gen_file a p (g_name g)) (apply_all weffs s) = fs_lookup (gen_file a p (g_name g)) s).
      { apply apply_all_other. intros e He Heq.
        pose proof (write_loop_paths E a p (e_order E p gfs) (generated_files a p) e) as Hp. rewrite Hw in Hp.
        destruct (Hp He) as [n [Hn Hpn]]. rewrite Hpn in Heq. apply gen_file_inj in Heq. subst n.
        apply in_map_iff in Hn. destruct Hn as [[n body] [Hfst Hin]]. cbn in Hfst. subst n.
        apply Hin_gfs in Hin. destruct Hin as [g' [Hg' [Hk' [Hn' _]]]].
        assert (g' = g) by (eapply NoDup_map_inj_in; eauto). subst g'.
        unfold kept, is_zero in Hk'. rewrite Hnil, Hign in Hk'. discriminate Hk'. }
      rewrite Hw0.
      destruct (mem_bytes (fname a (g_name g)) (pk_files p)) eqn:Hm.
      * assert (Hr : mem_bytes (fname a (g_name g)) rem = true).
        { apply mem_bytes_In. apply Hrem. split.
          - unfold generated_files. apply filter_In. split; [apply mem_bytes_In; exact Hm | apply fname_prefix].
          - intros Hc. apply Hfn in Hc. destruct Hc as [g' [Hg' [Hk' Hf']]]. apply fname_inj in Hf'.
            assert (g' = g) by (eapply NoDup_map_inj_in; eauto). subst g'.
            unfold kept, is_zero in Hk'. rewrite Hnil, Hign in Hk'. discriminate Hk'. }
        rewrite Hr. reflexivity.
      * assert (Hr : mem_bytes (fname a (g_name g)) rem = false).
        { destruct (mem_bytes (fname a (g_name g)) rem) eqn:Hr; [|reflexivity].
          apply mem_bytes_In in Hr. apply Hrem in Hr. destruct Hr as [Hr _].
          unfold generated_files in Hr. apply filter_In in Hr. destruct Hr as [Hr _].
          apply mem_bytes_In in Hr. congruence. }
        rewrite Hr. reflexivity.
  - intros g Hg Hne.
    assert (Hk : kept g p = true).
    { unfold kept, is_zero. destruct (go_body (gen_run E g p)); [contradiction | reflexivity]. }
    assert (Hin : In (g_name g, go_body (gen_run E g p)) (e_order E p gfs)) by (apply Hin_gfs; exists g; tauto).
    destruct (Hlk _ _ s Hin) as [_ H2]. apply H2. exact Hne.
  - intros f Hf Hpre Hnone. rewrite removes_lookup. unfold removal_order. rewrite mem_rank_sort.
    assert (Hr : mem_bytes f rem = true).
    { apply mem_bytes_In. apply Hrem. split.
      - unfold generated_files. apply filter_In. tauto.
      - intros Hc. apply Hfn in Hc. apply Hnone. exact Hc. }
    rewrite Hr. reflexivity.
Qed.

(* ---------- localisation ---------- *)

Lemma run_pkgs_dirs : forall a w gens prev ps e,
  In e (fst (fst (run_pkgs E a w gens prev ps))) -> exists p, In p ps /\ fst (effect_path e) = pk_dir p.
Proof.
  intros a w gens prev ps e H. destruct (run_pkgs_paths _ _ _ _ _ _ _ H) as [p [Hin [_ [_ [[Hd _] _]]]]].
  exists p. tauto.
Qed.

Lemma pkg_execute_dir : forall a w gens prev p e,
  In e (fst (fst (pkg_execute E a w gens prev p))) -> fst (effect_path e) = pk_dir p.
Proof.
  intros a w gens prev p e H. destruct (pkg_execute_paths _ _ _ _ _ _ _ H) as [_ [[Hd _] _]]. exact Hd.
Qed.

Lemma run_pkgs_local : forall a w gens prev ps,
  NoDup (map pk_dir ps) ->
  forall p, In p ps -> selected a w p = true ->
  snd (run_pkgs E a w gens prev ps) = Done ->
  forall f s,
    fs_lookup (pk_dir p, f) (apply_all (fst (fst (run_pkgs E a w gens prev ps))) s)
    = fs_lookup (pk_dir p, f) (apply_all (fst (fst (pkg_execute E a w gens prev p))) s).
Proof.
  intros a w gens prev ps. induction ps as [|p0 r IH]; intros Hnd p Hin Hsel Hdone f s; [contradiction|].
  destruct (NoDup_cons_dir _ _ _ Hnd) as [Hne Hnd'].
  cbn [run_pkgs] in *.
  destruct (selected a w p0) eqn:Hsel0.
  - destruct (pkg_execute E a w gens prev p0) as [[e1 t1] o1] eqn:Hpe.
    destruct o1; cbn [snd] in Hdone; try discriminate Hdone.
    destruct (run_pkgs E a w gens prev r) as [[e2 t2] o2] eqn:Hr. cbn [fst snd] in *.
    rewrite apply_all_app.
    destruct Hin as [Hin|Hin].
    + subst p0. rewrite Hpe. cbn [fst].
      apply apply_all_other. intros e He Heq.
      pose proof (run_pkgs_dirs a w gens prev r e) as Hd. rewrite Hr in Hd. destruct (Hd He) as [p' [Hp' Hdir]].
      rewrite Heq in Hdir. cbn [fst] in Hdir. eapply Hne; [exact Hp' | symmetry; exact Hdir].
    + rewrite (IH Hnd' p Hin Hsel Hdone f (apply_all e1 s)).
      apply apply_all_congr. apply apply_all_other. intros e He Heq.
      pose proof (pkg_execute_dir a w gens prev p0 e) as Hd. rewrite Hpe in Hd. specialize (Hd He).
      rewrite Heq in Hd. cbn [fst] in Hd. eapply Hne; [exact Hin | exact Hd].
  - destruct Hin as [Hin|Hin]; [subst p0; congruence|].
    apply IH; assumption.
Qed.

Lemma run_pkgs_done_iff : forall a w gens prev ps,
  snd (run_pkgs E a w gens prev ps) = Done <->
  forall p, In p ps -> selected a w p = true -> snd (pkg_execute E a w gens prev p) = Done.
Proof.
  intros a w gens prev ps. induction ps as [|p0 r IH]; cbn [run_pkgs].
  - split; [intros _ p [] | reflexivity].
  - destruct (selected a w p0) eqn:Hsel0.
    + destruct (pkg_execute E a w gens prev p0) as [[e1 t1] o1] eqn:Hpe.
      destruct o1.
      * destruct (run_pkgs E a w gens prev r) as [[e2 t2] o2] eqn:Hr. cbn [snd] in *. rewrite IH. split.
        -- intros H p [Hp|Hp] Hs; [subst; rewrite Hpe; reflexivity | apply H; assumption].
        -- intros H p Hp Hs. apply H; [right; exact Hp | exact Hs].
      * cbn [snd]. split; [discriminate|]. intros H. specialize (H p0 (or_introl eq_refl) Hsel0).
        rewrite Hpe in H. exact H.
      * cbn [snd]. split; [discriminate|]. intros H. specialize (H p0 (or_introl eq_refl) Hsel0).
        rewrite Hpe in H. exact H.
    + rewrite IH. split.
      * intros H p [Hp|Hp] Hs; [subst; congruence | apply H; assumption].
      * intros H p Hp Hs. apply H; [right; exact Hp | exact Hs].
Qed.

(* ---------- the sum path is never a package effect ---------- *)

Definition files_ok (w : world) : Prop := forall p, In p (w_pkgs w) -> ~ In sum_name (pk_files p).

Lemma pkgs_effects_not_sum : forall a w gens s e,
  files_ok w -> In e (pkgs_effects E a w gens s) -> snd (effect_path e) <> sum_name.
Proof.
  intros a w gens s e Hok He. destruct (pkgs_effects_paths _ _ _ _ _ _ He) as [p [Hp [_ [_ [[n Hn]|Hf]]]]].
  - rewrite Hn. cbn [gen_file snd]. apply fname_ne_sum.
  - intros Heq. rewrite Heq in Hf. exact (Hok p Hp Hf).
Qed.

Lemma save_effects_path : forall w e, In e (save_effects E w) -> effect_path e = sum_path w.
Proof. intros w e H. cbn in H. destruct H as [H|[H|[]]]; subst e; reflexivity. Qed.

(* a path other than gengo.sum sees only the package effects *)
Lemma exec_fs_not_sum : forall a w gens s q,
  q <> sum_path w -> fs_lookup q (exec_fs E a w gens s) = fs_lookup q (apply_all (pkgs_effects E a w gens s) s).
Proof.
  intros a w gens s q Hq. rewrite exec_fs_eq, effects_split, apply_all_app.
  apply apply_all_other. intros e He Heq. apply Hq. rewrite <- Heq.
  destruct (exec_outcome E a w gens s); try contradiction.
  destruct (a_all a); [|contradiction]. apply save_effects_path. exact He.
Qed.

Definition world_ok (w : world) : Prop := NoDup (map pk_dir (w_pkgs w)) /\ NoDup (map pk_path (w_pkgs w)).

(* what a successful run leaves in the directory of a processed package is what that package's own effects leave *)
Lemma exec_local : forall a w gens s p f,
  world_ok w -> In p (w_pkgs w) -> selected a w p = true ->
  exec_outcome E a w gens s = Done ->
  (pk_dir p, f) <> sum_path w ->
  fs_lookup (pk_dir p, f) (exec_fs E a w gens s)
  = fs_lookup (pk_dir p, f) (apply_all (fst (fst (pkg_execute E a w gens (load_prev E a w s) p))) s).
Proof.
  intros a w gens s p f [Hd _] Hp Hsel Hdone Hq.
  rewrite exec_fs_not_sum by exact Hq. unfold pkgs_effects, run_all.
  apply run_pkgs_local.
  - apply sort_by_NoDup_map. exact Hd.
  - apply sort_by_In. exact Hp.
  - exact Hsel.
  - exact Hdone.
Qed.

(* ---------- independence (C05) ---------- *)

Lemma sum_get_current : forall ps p,
  NoDup (map pk_path ps) -> In p ps ->
  sum_get (map (fun p => (pk_path p, pk_hash p)) ps) (pk_path p) = pk_hash p.
Proof.
  induction ps as [|p0 r IH]; intros p Hnd Hin; [contradiction|].
  destruct (NoDup_cons_dir _ _ _ Hnd) as [Hne Hnd']. cbn [map sum_get].
  destruct Hin as [Hin|Hin].
  - subst p0. rewrite bytes_eqb_refl. reflexivity.
  - assert (Hx : bytes_eqb (pk_path p0) (pk_path p) = false).
    { apply bytes_eqb_neq. intros Heq. apply (Hne p Hin). symmetry. exact Heq. }
    rewrite Hx. apply IH; assumption.
Qed.

Definition has_direct (w : world) : bool := existsb (is_direct w) (w_pkgs w).

Lemma pkg_execute_same : forall a gens s w1 w2 p,
  w_modroot w1 = w_modroot w2 ->
  world_ok w1 -> world_ok w2 -> In p (w_pkgs w1) -> In p (w_pkgs w2) ->
  (a_all a = true -> has_direct w1 = true /\ has_direct w2 = true) ->
  pkg_execute E a w1 gens (load_prev E a w1 s) p = pkg_execute E a w2 gens (load_prev E a w2 s) p.
Proof.
  intros a gens s w1 w2 p Hroot [_ Hp1] [_ Hp2] Hin1 Hin2 Hdir.
  unfold pkg_execute.
  assert (Hch : pkg_changed a w1 (load_prev E a w1 s) p = pkg_changed a w2 (load_prev E a w2 s) p).
  { unfold pkg_changed. destruct (a_force a); [reflexivity|].
    unfold load_prev, sum_path. rewrite <- Hroot.
    destruct (a_all a) eqn:Hall; cbn [andb]; [|reflexivity].
    destruct (Hdir eq_refl) as [H1 H2]. unfold has_direct in H1, H2. rewrite H1, H2.
    destruct (fs_lookup (w_modroot w1, sum_name) s); [|reflexivity].
    unfold current_sum. rewrite !sum_get_current by assumption. reflexivity. }
  rewrite Hch. reflexivity.
Qed.

Theorem independent : forall a gens s w1 w2 p f,
  w_modroot w1 = w_modroot w2 ->
  world_ok w1 -> world_ok w2 -> In p (w_pkgs w1) -> In p (w_pkgs w2) ->
  selected a w1 p = true -> selected a w2 p = true ->
  (a_all a = true -> has_direct w1 = true /\ has_direct w2 = true) ->
  exec_outcome E a w1 gens s = Done -> exec_outcome E a w2 gens s = Done ->
  (pk_dir p, f) <> sum_path w1 ->
  fs_lookup (pk_dir p, f) (exec_fs E a w1 gens s) = fs_lookup (pk_dir p, f) (exec_fs E a w2 gens s).
Proof.
  intros a gens s w1 w2 p f Hroot Hok1 Hok2 Hin1 Hin2 Hs1 Hs2 Hdir Hd1 Hd2 Hq.
  rewrite (exec_local a w1 gens s p f Hok1 Hin1 Hs1 Hd1 Hq).
  assert (Hq2 : (pk_dir p, f) <> sum_path w2) by (unfold sum_path in *; rewrite <- Hroot; exact Hq).
  rewrite (exec_local a w2 gens s p f Hok2 Hin2 Hs2 Hd2 Hq2).
  rewrite (pkg_execute_same a gens s w1 w2 p Hroot Hok1 Hok2 Hin1 Hin2 Hdir). reflexivity.
Qed.

(* success of the whole run is success of every selected package on its own: it transfers between worlds *)
Lemma outcome_done_transfer : forall a gens s w1 w2,
  w_modroot w1 = w_modroot w2 -> world_ok w1 -> world_ok w2 ->
  (forall p, In p (w_pkgs w2) -> selected a w2 p = true -> In p (w_pkgs w1) /\ selected a w1 p = true) ->
  (a_all a = true -> has_direct w1 = true /\ has_direct w2 = true) ->
  exec_outcome E a w1 gens s = Done -> exec_outcome E a w2 gens s = Done.
Proof.
  intros a gens s w1 w2 Hroot Hok1 Hok2 Hsub Hdir Hd1.
  unfold exec_outcome, run_all in *. apply run_pkgs_done_iff. intros p Hp Hsel.
  unfold sorted_pkgs in Hp. apply (proj1 (sort_by_In pk_path _ _)) in Hp. destruct (Hsub p Hp Hsel) as [Hp1 Hs1].
  rewrite <- (pkg_execute_same a gens s w1 w2 p Hroot Hok1 Hok2 Hp1 Hp Hdir).
  apply (proj1 (run_pkgs_done_iff a w1 gens (load_prev E a w1 s) (sorted_pkgs w1)) Hd1).
  - apply sort_by_In. exact Hp1.
  - exact Hs1.
Qed.

End Analysis.
