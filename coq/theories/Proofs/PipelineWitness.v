(* Concrete runs of the model: refutation witnesses for the code before a repair, and instances showing that
   the hypotheses of the general theorems are satisfiable (non-vacuity).  Everything here is closed computation. *)
Require Import Gengo.Base.Bytes Gengo.Model.Pipeline Gengo.Proofs.Pipeline Gengo.Proofs.PipelinePkg
  Gengo.Proofs.PipelineC07 Gengo.Corr.Pipe.
From Coq Require Import Permutation.

(* no formatter table: everything "parses" and is written as assembled; map order = list order *)
(* the composed model (Model/Whole.v): byte-level gengo.sum, Dispatch's enabling rule *)
Definition wit_env (fixed : bool) : env := whole_env_fx fixed (fun src => Some src) (fun _ l => l) rank0 [].

Lemma wit_order_ok : forall fixed, order_ok (wit_env fixed).
Proof. intros fixed p l. apply Permutation_refl. Qed.

Definition tag (g : string) : tags := [(bs "gengo:" ++ bs g, [[]])].

(* package a of module m: `type U = int` tagged +gengo:al, and a previous zz_generated.al.go *)
Definition wa_pkg : pkginfo :=
  mk_pkg (bs "m/a") (bs "a") (bs "a") [bs "a.go"; bs "zz_generated.al.go"] [mk_ty (bs "U") KAlias (tag "al")] (bs "h1:a").
Definition wa_world : world := mk_world [wa_pkg] [bs "m/a"].
Definition wa_gen : generator :=
  script_gen (mk_sgen (bs "al") true [((bs "m/a", bs "U"), mk_step [] RIgnore false false [])]).
Definition wa_fs : fs := [((bs "a", bs "a.go"), bs "package a"); ((bs "a", bs "zz_generated.al.go"), bs "package a")].
Definition wa_args : args := {| a_all := false; a_force := false; a_base := bs "zz_generated" |}.

(* Before the repair of doGenerateAliasType the alias generator that signals ErrIgnore and renders nothing loses
   its previous file: every hypothesis of [exists_iff] except e_fixed holds, and the equivalence fails. *)
Lemma exists_iff_refuted_before_fix :
  exists (E : env) a w gens s p g,
    e_fixed E = false /\ order_ok E /\ NoDup (map g_name gens) /\ world_ok w /\
    exec_outcome E a w gens s = Done /\ In p (w_pkgs w) /\ processed E a w s p = true /\ In g gens /\
    (fs_lookup (gen_file a p (g_name g)) s <> None -> In (fname a (g_name g)) (pk_files p)) /\
    signalled_ignore E g p = true /\ go_body (gen_run E g p) = [] /\
    fs_lookup (gen_file a p (g_name g)) s <> None /\
    fs_lookup (gen_file a p (g_name g)) (exec_fs E a w gens s) = None.
Proof.
  exists (wit_env false), wa_args, wa_world, [wa_gen], wa_fs, wa_pkg, wa_gen.
  split; [reflexivity|]. split; [apply wit_order_ok|].
  split; [repeat constructor; intros []|].
  split; [split; repeat constructor; intros []|].
  split; [vm_compute; reflexivity|].
  split; [left; reflexivity|]. split; [vm_compute; reflexivity|]. split; [left; reflexivity|].
  split; [intros _; right; left; reflexivity|].
  split; [vm_compute; reflexivity|]. split; [vm_compute; reflexivity|].
  split; [vm_compute; discriminate | vm_compute; reflexivity].
Qed.

(* the same run on the repaired code keeps the file *)
Lemma alias_ignore_kept_after_fix :
  fs_lookup (gen_file wa_args wa_pkg (bs "al")) (exec_fs (wit_env true) wa_args wa_world [wa_gen] wa_fs)
  = Some (bs "package a").
Proof. vm_compute. reflexivity. Qed.

(* ---------- C05: a stateful generator on two packages ---------- *)

(* renders its call counter and emits a helper once per instance *)
Definition wc_gen : generator :=
  script_gen (mk_sgen (bs "g1") false
    [((bs "m/a", bs "T"), mk_step [] RNil true true []); ((bs "m/a", bs "T2"), mk_step [] RNil true true []);
     ((bs "m/b", bs "T"), mk_step [] RNil true true [])]).
Definition wc_a : pkginfo :=
  mk_pkg (bs "m/a") (bs "a") (bs "a") [bs "a.go"] [mk_ty (bs "T") KNamed (tag "g1"); mk_ty (bs "T2") KNamed (tag "g1")] (bs "h1:a").
Definition wc_b : pkginfo :=
  mk_pkg (bs "m/b") (bs "b") (bs "b") [bs "b.go"] [mk_ty (bs "T") KNamed (tag "g1")] (bs "h1:b").
Definition wc_world : world := mk_world [wc_b; wc_a] [bs "m/a"; bs "m/b"].
Definition wc_args : args := {| a_all := true; a_force := false; a_base := bs "zz_generated" |}.
Definition wc_fs : fs := [((bs "a", bs "a.go"), bs "package a"); ((bs "b", bs "b.go"), bs "package b")].

(* package b is processed after a; its counter starts at one again and its helper is emitted again *)
Lemma stateful_generator_fresh_per_package :
  exec_outcome (wit_env true) wc_args wc_world [wc_gen] wc_fs = Done /\
  fs_lookup (bs "b", bs "zz_generated.g1.go") (exec_fs (wit_env true) wc_args wc_world [wc_gen] wc_fs)
  = Some (assemble (bs "b") (bs "g1") (bs "var N_g1_T_x int" ++ nl ++ bs "func helper_g1() {}" ++ nl)) /\
  fs_lookup (bs "a", bs "zz_generated.g1.go") (exec_fs (wit_env true) wc_args wc_world [wc_gen] wc_fs)
  = Some (assemble (bs "a") (bs "g1")
           (bs "var N_g1_T_x int" ++ nl ++ bs "func helper_g1() {}" ++ nl ++ bs "var N_g1_T2_xx int" ++ nl)).
Proof. vm_compute. repeat split; reflexivity. Qed.
