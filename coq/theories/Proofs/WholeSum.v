(* Agreement of two models of the same Go code (pkg/gengo/context.go 95-142):
     Model/SumCache.v  (C08: which packages are regenerated, what happens to gengo.sum; world abstract)
     Model/Pipeline.v  (C07/C05/C02: Execute on a file system; sum parser/printer abstract)
   SumCache.run, with its abstract tree instantiated by the pipeline's file system, its [gen] by the pipeline's
   package step, and its locals / hashes by the loaded world, IS Pipeline.exec. *)
Require Import Gengo.Base.Bytes Gengo.Model.Pipeline Gengo.Model.Whole.
Require Import Gengo.Proofs.Pipeline Gengo.Proofs.PipelinePkg.
Require Gengo.Model.SumFile Gengo.Model.SumCache Gengo.Proofs.SumFile Gengo.Proofs.SumCache.
From Coq Require Import Permutation.

(* ---------- the little adapters ---------- *)

Lemma sum_get_sum_sum : forall m k, Pipeline.sum_get m k = SumFile.sum_sum m k.
Proof.
  intros m k. unfold SumFile.sum_sum. induction m as [|[k' v] r IH]; cbn; [reflexivity|].
  destruct (bytes_eqb k' k); [reflexivity | exact IH].
Qed.

Lemma bytes_leb_same : forall a b, Pipeline.bytes_leb a b = SumFile.bytes_leb a b.
Proof.
  reflexivity.   (* the two definitions are the same fixpoint *)
Qed.

Lemma insert_by_same {A} (key : A -> bytes) (f : A -> bytes * bool) :
  (forall x, fst (f x) = key x) ->
  forall x l, SumFile.insert_by fst (f x) (map f l) = map f (Pipeline.insert_by key x l).
Proof.
  intros Hk x l. induction l as [|y r IH]; cbn; [reflexivity|].
  rewrite !Hk, <- bytes_leb_same. destruct (Pipeline.bytes_leb (key x) (key y)); cbn; [reflexivity|].
  rewrite IH. reflexivity.
Qed.

Lemma sort_by_same {A} (key : A -> bytes) (f : A -> bytes * bool) :
  (forall x, fst (f x) = key x) ->
  forall l, SumFile.sort_by fst (map f l) = map f (Pipeline.sort_by key l).
Proof.
  intros Hk l. induction l as [|x r IH]; cbn; [reflexivity|].
  rewrite IH. apply insert_by_same. exact Hk.
Qed.

Lemma find_pkg_in : forall w p, NoDup (map pk_path (w_pkgs w)) -> In p (w_pkgs w) -> find_pkg w (pk_path p) = Some p.
Proof.
  intros w p. unfold find_pkg. induction (w_pkgs w) as [|q r IH]; intros Hnd Hin; [contradiction|].
  cbn [map] in Hnd. inversion Hnd as [|x l Hnotin Hnd']; subst. cbn [find].
  destruct Hin as [Hin|Hin].
  - subst q. rewrite bytes_eqb_refl. reflexivity.
  - destruct (bytes_eqb (pk_path q) (pk_path p)) eqn:Heq.
    + apply bytes_eqb_spec in Heq. exfalso. apply Hnotin. rewrite Heq. apply in_map. exact Hin.
    + apply IH; assumption.
Qed.

Section SumAgree.
  Variable E : env.
  Variable a : args.
  Variable w : world.
  Variable gens : list generator.

  (* the pipeline is run with the byte-level sum file of Model/SumFile.v (e.g. E = whole_env ...) *)
  Hypothesis Hload : e_sum_load E = SumFile.sumfile_load.
  Hypothesis Hbytes : e_sum_bytes E = SumFile.sumfile_bytes.

  Definition locf (p : pkginfo) : bytes * bool := (pk_path p, is_direct w p).

  Notation step := (pkg_step E a w gens).
  Notation ptrace := (pkg_trace E a w gens).
  Notation ffail := (first_fail E a w gens).
  Notation feffs := (fail_effects E a w gens).

  Lemma first_fail_in : forall prev ps x, ffail prev ps = Some x -> In x (map pk_path ps).
  Proof.
    intros prev ps x. induction ps as [|p r IH]; cbn [first_fail map]; intros H; [discriminate|].
    destruct (selected a w p && pkg_changed a w prev p && pkg_fails E a gens p).
    - inversion H. left. reflexivity.
    - right. apply IH. exact H.
  Qed.

  Lemma changed_same : forall ra prev p,
    SumCache.r_force ra = a_force a ->
    SumCache.pkg_changed SumCache.fixed_all ra prev (current_sum w) (pk_path p) = pkg_changed a w prev p.
  Proof.
    intros ra prev p Hf. unfold SumCache.pkg_changed, pkg_changed. rewrite Hf.
    destruct (a_force a); [reflexivity|]. destruct prev as [d|]; [|reflexivity].
    cbn [SumCache.fx_empty SumCache.fixed_all andb]. rewrite !sum_get_sum_sum. reflexivity.
  Qed.

  (* the package loop: context.go 108-116 read twice *)
  Lemma loop_agree : forall ps t prev ra t' evs s1 tr out,
    NoDup (map pk_path ps) -> (forall p, In p ps -> find_pkg w (pk_path p) = Some p) ->
    SumCache.r_all ra = a_all a -> SumCache.r_force ra = a_force a -> SumCache.r_fail ra = ffail prev ps ->
    SumCache.pkg_loop fs step SumCache.fixed_all ra prev (current_sum w) (map locf ps) t = (t', evs) ->
    run_pkgs_fs E a w gens prev ps t = (s1, tr, out) ->
    tr = flat_map ptrace (SumCache.executed evs)
    /\ (out = Done -> SumCache.failed evs = false /\ s1 = t')
    /\ (out <> Done -> SumCache.failed evs = true /\ s1 = apply_all (feffs evs) t').
  Proof.
    induction ps as [|p r IH]; intros t prev ra t' evs s1 tr out Hnd Hfind Hall Hforce Hfail H1 H2.
    - cbn in H1, H2. inversion H1; inversion H2; subst. split; [reflexivity|]. split; [auto|].
      intros H. exfalso. apply H. reflexivity.
    - cbn [map locf SumCache.pkg_loop] in H1. cbn [run_pkgs_fs] in H2.
      inversion Hnd as [|x l Hnotin Hnd']; subst.
      assert (Hfind' : forall q, In q r -> find_pkg w (pk_path q) = Some q) by (intros q Hq; apply Hfind; right; exact Hq).
      replace (negb (SumCache.r_all ra) && negb (is_direct w p)) with (negb (selected a w p)) in H1
        by (unfold selected; rewrite Hall; destruct (a_all a), (is_direct w p); reflexivity).
      cbn [first_fail] in Hfail.
      destruct (selected a w p) eqn:Hsel; cbn [negb andb] in *.
      2:{ eapply IH; eassumption. }
      rewrite (changed_same ra prev p Hforce) in H1.
      rewrite pkg_execute_fs_eq in H2. unfold pkg_execute in H2.
      destruct (pkg_changed a w prev p) eqn:Hch; cbn [andb fst snd apply_all fold_left] in *.
      2:{ destruct (SumCache.pkg_loop fs step SumCache.fixed_all ra prev (current_sum w) (map locf r) t) as [t2 evs2] eqn:H1'.
          destruct (run_pkgs_fs E a w gens prev r t) as [[s2 tr2] o2] eqn:H2'.
          inversion H1; inversion H2; subst. cbn [app].
          exact (IH _ _ _ _ _ _ _ _ Hnd' Hfind' Hall Hforce Hfail H1' H2'). }
      unfold pkg_fails in Hfail.
      assert (Hstep : step t (pk_path p) = apply_all (fst (fst (pkg_effects E a gens p))) t).
      { unfold pkg_step. rewrite (Hfind p (or_introl eq_refl)). reflexivity. }
      assert (Htr : ptrace (pk_path p) = snd (fst (pkg_effects E a gens p))).
      { unfold pkg_trace. rewrite (Hfind p (or_introl eq_refl)). reflexivity. }
      assert (Hfe : forall rest, feffs (SumCache.EvFail (pk_path p) :: rest) = fst (fst (pkg_effects E a gens p))).
      { intros rest. cbn [fail_effects]. rewrite (Hfind p (or_introl eq_refl)). reflexivity. }
      destruct (pkg_effects E a gens p) as [[effs trp] outp]. cbn [fst snd] in *.
      destruct outp.
      + (* the package succeeded *)
        assert (Hne : SumCache.opt_bytes_eqb (SumCache.r_fail ra) (pk_path p) = false).
        { rewrite Hfail. destruct (ffail prev r) as [x|] eqn:Hff; [|reflexivity]. cbn.
          destruct (bytes_eqb x (pk_path p)) eqn:Hx; [|reflexivity].
          apply bytes_eqb_spec in Hx. subst x. exfalso. apply Hnotin. eapply first_fail_in. exact Hff. }
        rewrite Hne, Hstep in H1.
        destruct (SumCache.pkg_loop fs step SumCache.fixed_all ra prev (current_sum w) (map locf r) (apply_all effs t))
          as [t2 evs2] eqn:H1'.
        destruct (run_pkgs_fs E a w gens prev r (apply_all effs t)) as [[s2 tr2] o2] eqn:H2'.
        injection H1 as <- <-; injection H2 as <- <- <-.
        destruct (IH _ _ _ _ _ _ _ _ Hnd' Hfind' Hall Hforce Hfail H1' H2') as [IH1 [IH2 IH3]].
        split; [cbn [SumCache.executed flat_map SumCache.ev_executed app]; rewrite Htr, IH1; reflexivity|].
        split; [exact IH2 | exact IH3].
      + (* it failed: Execute returns here *)
        rewrite Hfail in H1. cbn [SumCache.opt_bytes_eqb] in H1. rewrite bytes_eqb_refl in H1.
        injection H1 as <- <-; injection H2 as <- <- <-.
        split; [cbn; rewrite Htr, app_nil_r; reflexivity|].
        split; [intros H; discriminate H|]. intros _. split; [reflexivity|]. rewrite Hfe. reflexivity.
      + rewrite Hfail in H1. cbn [SumCache.opt_bytes_eqb] in H1. rewrite bytes_eqb_refl in H1.
        injection H1 as <- <-; injection H2 as <- <- <-.
        split; [cbn; rewrite Htr, app_nil_r; reflexivity|].
        split; [intros H; discriminate H|]. intros _. split; [reflexivity|]. rewrite Hfe. reflexivity.
  Qed.
End SumAgree.

(* ---------- one run ---------- *)

Lemma failed_false_no_fail_effects : forall E a w gens evs,
  SumCache.failed evs = false -> fail_effects E a w gens evs = [].
Proof.
  intros E a w gens evs. unfold SumCache.failed. induction evs as [|e r IH]; cbn [existsb fail_effects]; [reflexivity|].
  destruct e; cbn [SumCache.ev_is_fail orb]; intros H; try (apply IH; exact H). discriminate H.
Qed.

Lemma existsb_world_locals : forall w, existsb snd (world_locals w) = existsb (is_direct w) (w_pkgs w).
Proof.
  intros w. unfold world_locals. induction (w_pkgs w) as [|p r IH]; cbn; [reflexivity|]. rewrite IH. reflexivity.
Qed.

Require Import Gengo.Proofs.PipelineC02.

Section RunAgree.
  Variable E : env.
  Variable a : args.
  Variable w : world.
  Variable gens : list generator.
  Hypothesis Hload : e_sum_load E = SumFile.sumfile_load.
  Hypothesis Hbytes : e_sum_bytes E = SumFile.sumfile_bytes.

  (* SumCache's world: any directory contents, hash function and package lister ... *)
  Variable content : Type.
  Variable H : content -> option bytes.
  Variable dirc : fs -> option bytes -> bytes -> content.
  Variable locals : fs -> list bytes -> list (bytes * bool).
  Variable entry : list bytes.
  Variable s : fs.
  (* ... that are THE SAME DATA as the world the pipeline was given: the local packages with their direct flag,
     and for each of them the directory hash taken at load time ("" when the directory cannot be hashed) *)
  Hypothesis Hloc : locals s entry = world_locals w.
  Hypothesis Hhash : forall p, In p (w_pkgs w) ->
    SumCache.hash_of fs content H dirc SumCache.fixed_all (abs_state w s) (pk_path p) = pk_hash p.
  Hypothesis Hnd : NoDup (map pk_path (w_pkgs w)).
  Hypothesis Hfiles : files_ok w.

  Let ra := run_args E a w gens entry s.
  Let r := SumCache.run fs content H dirc (pkg_step E a w gens) locals SumCache.fixed_all ra (abs_state w s).

  Lemma cur_same : SumCache.current_sum fs content H dirc SumCache.fixed_all (abs_state w s) (world_locals w) = current_sum w.
  Proof.
    unfold SumCache.current_sum, world_locals, current_sum. rewrite map_map. apply map_ext_in.
    intros p Hp. cbn [fst]. rewrite (Hhash p Hp). reflexivity.
  Qed.

  Lemma prev_same : SumCache.previous_sum fs ra (abs_state w s) (world_locals w) = load_prev E a w s.
  Proof.
    unfold SumCache.previous_sum, load_prev. cbn [ra run_args SumCache.r_all abs_state SumCache.st_sum].
    rewrite existsb_world_locals. destruct (a_all a && existsb (is_direct w) (w_pkgs w)); [|reflexivity].
    unfold sum_state. destruct (fs_lookup (sum_path w) s); [rewrite Hload; reflexivity | reflexivity].
  Qed.

  Lemma sorted_same : SumFile.sort_by fst (world_locals w) = map (locf w) (sorted_pkgs w).
  Proof. unfold world_locals, sorted_pkgs. apply (sort_by_same pk_path (locf w)). reflexivity. Qed.

  Theorem run_agree :
    exec_trace E a w gens s = flat_map (pkg_trace E a w gens) (SumCache.executed (fst (snd r)))
    /\ snd (snd r) <> SumCache.ESave
    /\ (snd (snd r) = SumCache.ENone <-> exec_outcome E a w gens s = Done)
    /\ (exec_outcome E a w gens s = Done -> fail_effects E a w gens (fst (snd r)) = [])
    /\ SumCache.st_sum (fst r) = sum_state w (exec_fs E a w gens s)
    /\ (forall q, q <> sum_path w ->
          fs_lookup q (exec_fs E a w gens s)
          = fs_lookup q (apply_all (fail_effects E a w gens (fst (snd r))) (SumCache.st_tree (fst r)))).
  Proof.
    subst r. rewrite Gengo.Proofs.SumCache.run_unfold.
    unfold Gengo.Proofs.SumCache.run_loop, Gengo.Proofs.SumCache.run_loc.
    cbn [abs_state SumCache.st_tree SumCache.st_sum]. cbn [ra run_args SumCache.r_entry]. fold ra.
    rewrite Hloc, cur_same, prev_same, sorted_same.
    destruct (SumCache.pkg_loop fs (pkg_step E a w gens) SumCache.fixed_all ra (load_prev E a w s) (current_sum w)
                (map (locf w) (sorted_pkgs w)) s) as [t' evs] eqn:H1.
    pose proof (run_pkgs_fs_eq E a w gens (load_prev E a w s) (sorted_pkgs w) s) as H2.
    fold (run_all E a w gens s) in H2.
    change (fst (fst (run_all E a w gens s))) with (pkgs_effects E a w gens s) in H2.
    change (snd (fst (run_all E a w gens s))) with (exec_trace E a w gens s) in H2.
    change (snd (run_all E a w gens s)) with (exec_outcome E a w gens s) in H2.
    assert (Hnd' : NoDup (map pk_path (sorted_pkgs w))) by (apply sort_by_NoDup_map; exact Hnd).
    assert (Hfind : forall p, In p (sorted_pkgs w) -> find_pkg w (pk_path p) = Some p).
    { intros p Hp. apply find_pkg_in; [exact Hnd | apply (sort_by_In pk_path); exact Hp]. }
    destruct (loop_agree E a w gens _ _ _ ra _ _ _ _ _ Hnd' Hfind eq_refl eq_refl eq_refl H1 H2) as [Ht [Hd Hf]].
    assert (Hsumkeep : exec_outcome E a w gens s <> Done \/ a_all a = false ->
                       sum_state w (exec_fs E a w gens s) = sum_state w s).
    { intros Hc. unfold sum_state. destruct Hc as [Hc|Hc].
      - rewrite (sum_untouched_unless_done E a w gens s Hfiles Hc). reflexivity.
      - rewrite exec_fs_eq, effects_split. rewrite Hc.
        replace (match exec_outcome E a w gens s with Done => [] | _ => [] end) with (@nil effect)
          by (destruct (exec_outcome E a w gens s); reflexivity).
        rewrite app_nil_r, apply_all_other; [reflexivity|].
        intros e He. exact (pkgs_effects_not_sum_path E a w gens s e Hfiles He). }
    destruct (exec_outcome E a w gens s) as [|x|] eqn:Hout.
    - (* Execute returned nil *)
      destruct (Hd eq_refl) as [Hnf Hs1]. rewrite Hnf.
      cbn [ra run_args SumCache.r_all]. fold ra.
      assert (Hq : forall q, q <> sum_path w -> fs_lookup q (exec_fs E a w gens s) = fs_lookup q t').
      { intros q Hq. rewrite exec_fs_not_sum by exact Hq. rewrite Hs1. reflexivity. }
      destruct (a_all a) eqn:Hall.
      + assert (Hsum : sum_state w (exec_fs E a w gens s) = SumCache.SumFile (SumFile.sumfile_bytes (current_sum w))).
        { unfold sum_state. rewrite exec_fs_eq, effects_split, Hout, Hall, apply_all_app.
          cbn [save_effects apply_all fold_left apply_effect]. rewrite lookup_set_same, lookup_set_same, Hbytes. reflexivity. }
        destruct (sum_state w s) eqn:Hss;
          [| |unfold sum_state in Hss; destruct (fs_lookup (sum_path w) s); discriminate Hss];
          cbn [fst snd SumCache.st_sum SumCache.st_tree];
          (split; [exact Ht|]; split; [discriminate|]; split; [tauto|];
           split; [intros _; apply failed_false_no_fail_effects; exact Hnf|]; split; [symmetry; exact Hsum|];
           intros q Hq'; rewrite (failed_false_no_fail_effects _ _ _ _ _ Hnf); apply Hq; exact Hq').
      + cbn [fst snd SumCache.st_sum SumCache.st_tree].
        split; [exact Ht|]. split; [discriminate|]. split; [tauto|].
        split; [intros _; apply failed_false_no_fail_effects; exact Hnf|].
        split; [symmetry; apply Hsumkeep; right; reflexivity|].
        intros q Hq'. rewrite (failed_false_no_fail_effects _ _ _ _ _ Hnf). apply Hq. exact Hq'.
    - assert (Hne : Failed x <> Done) by discriminate.
      destruct (Hf Hne) as [Hnf Hs1]. rewrite Hnf. cbn [fst snd SumCache.st_sum SumCache.st_tree].
      split; [exact Ht|]. split; [discriminate|]. split; [split; discriminate|].
      split; [intros Hx; discriminate Hx|].
      split; [symmetry; apply Hsumkeep; left; exact Hne|].
      intros q Hq. rewrite exec_fs_not_sum by exact Hq. rewrite Hs1. reflexivity.
    - assert (Hne : Died <> Done) by discriminate.
      destruct (Hf Hne) as [Hnf Hs1]. rewrite Hnf. cbn [fst snd SumCache.st_sum SumCache.st_tree].
      split; [exact Ht|]. split; [discriminate|]. split; [split; discriminate|].
      split; [intros Hx; discriminate Hx|].
      split; [symmetry; apply Hsumkeep; left; exact Hne|].
      intros q Hq. rewrite exec_fs_not_sum by exact Hq. rewrite Hs1. reflexivity.
  Qed.
End RunAgree.

(* ---------- C08's "skipped only if", OF Pipeline.exec ---------- *)

(* a canonical SumCache world for a loaded pipeline world: the directory of a package is named by its path, the
   hash function answers what the loader recorded (None where it recorded "") *)
Section Canonical.
  Variable w : world.
  Definition can_H (path : bytes) : option bytes :=
    match find_pkg w path with
    | Some p => if is_nil (pk_hash p) then None else Some (pk_hash p)
    | None => None
    end.
  Definition can_dirc (_ : fs) (_ : option bytes) (path : bytes) : bytes := path.
  Definition can_locals (_ : fs) (_ : list bytes) : list (bytes * bool) := world_locals w.

  Lemma can_hash : NoDup (map pk_path (w_pkgs w)) -> forall s p, In p (w_pkgs w) ->
    SumCache.hash_of fs bytes can_H can_dirc SumCache.fixed_all (abs_state w s) (pk_path p) = pk_hash p.
  Proof.
    intros Hnd s p Hin. unfold SumCache.hash_of, can_dirc, can_H. rewrite (find_pkg_in w p Hnd Hin).
    destruct (pk_hash p); reflexivity.
  Qed.
End Canonical.

Lemma nogens_done : forall E a w prev ps, (forall p, e_order E p [] = []) -> snd (run_pkgs E a w [] prev ps) = Done.
Proof.
  intros E a w prev ps Ho. induction ps as [|p r IH]; cbn [run_pkgs]; [reflexivity|].
  destruct (selected a w p); [|exact IH].
  unfold pkg_execute. destruct (pkg_changed a w prev p).
  - unfold pkg_effects. cbn [gen_phase]. rewrite Ho. cbn [write_loop].
    destruct (run_pkgs E a w [] prev r) as [[e2 t2] o2]. exact IH.
  - destruct (run_pkgs E a w [] prev r) as [[e2 t2] o2]. exact IH.
Qed.

(* A package the pipeline leaves alone as cached (selected, not processed): All, no Force, gengo.sum is a file and the
   hash it records for the package — read by the byte-level parser — is the package's load-time hash, which is not
   empty.  Obtained from C08's theorem [run_skip_only_if] about SumCache.run through the agreement [run_agree]. *)
Theorem pipeline_skip_only_if : forall E a w s p,
  e_sum_load E = SumFile.sumfile_load ->
  NoDup (map pk_path (w_pkgs w)) -> files_ok w ->
  In p (w_pkgs w) -> selected a w p = true -> processed E a w s p = false ->
  a_all a = true /\ a_force a = false /\
  exists b, fs_lookup (sum_path w) s = Some b
            /\ SumFile.sum_sum (SumFile.sumfile_load b) (pk_path p) = pk_hash p
            /\ pk_hash p <> [].
Proof.
  intros E a w s p HloadE Hnd Hfiles Hin Hsel Hproc.
  (* the decision does not depend on formatter, order or generators: run the agreement for a run without generators *)
  set (E' := whole_env (fun _ => None) (fun _ l => l) rank0 []).
  assert (Hproc' : processed E' a w s p = false).
  { unfold processed, load_prev in *. rewrite HloadE in Hproc. exact Hproc. }
  pose proof (run_agree E' a w [] eq_refl eq_refl bytes (can_H w) can_dirc (can_locals w) [] s eq_refl
                (can_hash w Hnd s) Hnd Hfiles) as Hag.
  cbv zeta in Hag.
  set (ra := run_args E' a w [] [] s) in *.
  set (r := SumCache.run fs bytes (can_H w) can_dirc (pkg_step E' a w []) (can_locals w) SumCache.fixed_all ra (abs_state w s)) in *.
  destruct Hag as [_ [_ [Hek _]]].
  assert (Hdone : exec_outcome E' a w [] s = Done) by (apply nogens_done; reflexivity).
  apply Hek in Hdone.
  (* the run reaches every package in scope *)
  destruct (Gengo.Proofs.SumCache.run_visited_scope fs bytes (can_H w) can_dirc (pkg_step E' a w []) (can_locals w)
              SumCache.fixed_all ra (abs_state w s)) as [rest [Hvis Hrest]].
  fold r in Hvis, Hrest. rewrite Hrest in Hvis by (rewrite Hdone; discriminate). rewrite app_nil_r in Hvis.
  assert (Hv : In (pk_path p) (SumCache.visited (fst (snd r)))).
  { rewrite <- Hvis. unfold Gengo.Proofs.SumCache.run_loc. cbn [can_locals].
    apply in_map_iff. exists (locf w p). split; [reflexivity|]. apply filter_In. split.
    - eapply Permutation_in; [apply Permutation_sym, Gengo.Proofs.SumFile.sort_by_perm|].
      unfold world_locals. apply in_map_iff. exists p. split; [reflexivity | exact Hin].
    - unfold Gengo.Proofs.SumCache.in_scope. cbn [ra run_args SumCache.r_all locf snd]. exact Hsel. }
  (* visited and not changed: skipped *)
  assert (Hsk : In (pk_path p) (SumCache.skipped (fst (snd r)))).
  { apply Gengo.Proofs.SumCache.visited_split in Hv. destruct Hv as [Hex|Hsk]; [|exact Hsk]. exfalso.
    pose proof (Gengo.Proofs.SumCache.run_events_ok fs bytes (can_H w) can_dirc (pkg_step E' a w []) (can_locals w)
                  SumCache.fixed_all ra (abs_state w s)) as Hok.
    fold r in Hok. rewrite Forall_forall in Hok.
    unfold Gengo.Proofs.SumCache.run_loc in Hok. cbn [can_locals] in Hok.
    change (can_locals w (SumCache.st_tree (abs_state w s)) (SumCache.r_entry ra)) with (world_locals w) in Hok.
    rewrite (cur_same w bytes (can_H w) can_dirc s (can_hash w Hnd s)) in Hok.
    unfold ra in Hok at 2. rewrite (prev_same E' a w [] eq_refl [] s) in Hok.
    unfold processed in Hproc'. rewrite Hsel in Hproc'. cbn [andb] in Hproc'.
    apply Gengo.Proofs.SumCache.in_executed in Hex. destruct Hex as [Hex|Hex]; specialize (Hok _ Hex);
      cbn [Gengo.Proofs.SumCache.ev_ok] in Hok; destruct Hok as [Hc _];
      rewrite (changed_same a w ra _ p eq_refl) in Hc; congruence. }
  destruct (Gengo.Proofs.SumCache.run_skip_only_if fs bytes (can_H w) can_dirc (pkg_step E' a w []) (can_locals w)
              SumCache.fixed_all ra (abs_state w s) (pk_path p) Hsk) as [Hall [Hforce [b [Hb [Hrec Hne]]]]].
  cbn [ra run_args SumCache.r_all SumCache.r_force] in Hall, Hforce.
  split; [exact Hall|]. split; [exact Hforce|]. exists b.
  cbn [abs_state SumCache.st_sum] in Hb. unfold sum_state in Hb.
  destruct (fs_lookup (sum_path w) s) as [b'|]; [|discriminate Hb]. inversion Hb; subst b'.
  rewrite (can_hash w Hnd s p Hin) in Hrec, Hne.
  split; [reflexivity|]. split; [exact Hrec | apply Hne; reflexivity].
Qed.
