(* C04, non-vacuity on a module that is not empty: two packages, two generators (one an AliasGenerator that signals
   ErrIgnore), a tree that already holds a stale generated file, a previous output, user files and a previous gengo.sum
   (read with the byte-level parser of Model/SumFile.v); the FIRST run, then a genuine SECOND run on the tree the
   first one left (the packages re-loaded: the generated files are now among their files, the directory hashes
   differ), and the same run with the entrypoints permuted under another behaviour of the runtime.
   Closed computation plus instances of the general theorems with every hypothesis discharged. *)
Require Import Gengo.Base.Bytes Gengo.Model.Determinism Gengo.Proofs.Determinism.
Require Gengo.Model.SumFile.
From Coq Require Import Permutation.

(* ---------- a file system given by a finite table ---------- *)

Definition fs_of (l : list (path * bytes)) : fs :=
  fun q => match find (fun e => path_eqb q (fst e)) l with Some e => Some (snd e) | None => None end.

(* [loaded], decided on the table *)
Definition loaded_b (a : args) (w : world) (l : list (path * bytes)) : bool :=
  forallb (fun q => negb (is_gen_name a (snd q))
                    || forallb (fun p => negb (bytes_eqb (pk_dir p) (fst q)) || mem (snd q) (pk_files p)) (w_pkgs w))
          (map fst l).

Lemma loaded_b_sound : forall a w l, loaded_b a w l = true -> loaded a w (fs_of l).
Proof.
  intros a w l H p k Hp Hg Hne. unfold fs_of in Hne.
  destruct (find (fun e => path_eqb (pk_dir p, k) (fst e)) l) as [e|] eqn:F; [|now contradiction Hne].
  apply find_some in F. destruct F as [Hin Heq]. apply path_eqb_spec in Heq.
  unfold loaded_b in H. rewrite forallb_forall in H. specialize (H (fst e) (in_map fst l e Hin)).
  rewrite <- Heq in H. cbn [fst snd] in H. rewrite Hg in H. cbn [negb orb] in H.
  rewrite forallb_forall in H. specialize (H p Hp). rewrite bytes_eqb_refl in H. cbn [negb orb] in H.
  unfold mem in H. apply existsb_exists in H. destruct H as [x [Hx Hk]]. apply bytes_eqb_spec in Hk. now subst x.
Qed.

(* ---------- the module ---------- *)

(* package m/a: T (two methods), U, alias A, and a function-local T; a package-doc tag; [files] / [hash] vary per load *)
Definition d_a (files : list bytes) (hash : bytes) : pkg :=
  mk_pkg (bs "m/a") (bs "a") (bs "a") files [(bs "doc.go", [(bs "gengo:other", bs "false")])]
         [mk_tdef (bs "U") 406 KNamed true false [(bs "gengo:rec", []); (bs "gengo:other", [])];
          mk_tdef (bs "T") 306 KNamed true false [(bs "gengo:rec", [])];
          mk_tdef (bs "A") 506 KAlias true false [(bs "gengo:other", [])];
          mk_tdef (bs "T") 608 KOther false false []]
         [mk_meth 306 (bs "M1") 1206 false; mk_meth 306 (bs "M0") 1006 false; mk_meth 406 (bs "N") 1306 false]
         hash.
Definition d_b (files : list bytes) (hash : bytes) : pkg :=
  mk_pkg (bs "m/b") (bs "b") (bs "b") files []
         [mk_tdef (bs "V") 706 KNamed true false [(bs "gengo:other", [])]] [] hash.

(* the load before the first run: a lists a stale generated file and a previous output *)
Definition d_world0 : world :=
  mk_world (bs ".") [d_b [bs "b.go"] (bs "h1:b0");
                     d_a [bs "f0.go"; bs "zz_generated.old.go"; bs "zz_generated.rec.go"] (bs "h1:a0")].
(* the load before the second run: the generated files of run 1 are there, the stale one is gone, hashes differ *)
Definition d_world1 : world :=
  mk_world (bs ".") [d_b [bs "b.go"; bs "zz_generated.other.go"] (bs "h1:b1");
                     d_a [bs "f0.go"; bs "zz_generated.other.go"; bs "zz_generated.rec.go"] (bs "h1:a1")].

Definition d_args : args := mk_args [] (bs "zz_generated") true true.       (* All, Force *)
Definition d_entry : list bytes := [bs "m/b"; bs "m/a"].

Definition d_gens : list gen :=
  [scripted (bs "rec") false
     [(bs "m/a", [(306%N, mk_frag ORender [bs "G"] [bs "sort"; bs "fmt"] (Some (bs "Gm")) [bs "D"] [bs "bytes"]);
                  (406%N, mk_frag ORender [bs "H"] [bs "fmt"] None [] [])])];
   scripted (bs "other") true
     [(bs "m/a", [(406%N, mk_frag ORender [bs "O"] [] None [] []); (506%N, mk_frag OIgnore [] [] None [] [])]);
      (bs "m/b", [(706%N, mk_frag ORender [bs "V1"; bs "V2"] [] None [] [])])]].

(* "formatter": package clause, import paths as handed over by writeImports, body *)
Definition d_render (f : gfile) : option bytes :=
  Some (bs "package " ++ gf_pkgname f ++ bs ";" ++ concat (map (fun kv => bs "import " ++ fst kv ++ bs ";") (gf_imports f))
        ++ gf_body f).

Definition nl10 : ascii := ascii_of_N 10.
Definition d_prev_sum : bytes := bs "m/a h1:old" ++ [nl10] ++ bs "m/b h1:b0" ++ [nl10].

Definition d_tree0 : list (path * bytes) :=
  [((bs "a", bs "f0.go"), bs "package a");
   ((bs "a", bs "zz_generated.old.go"), bs "stale");
   ((bs "a", bs "zz_generated.rec.go"), bs "previous rec");
   ((bs "a", bs "zz_generatedx.go"), bs "look-alike");
   ((bs "b", bs "b.go"), bs "package b");
   ((bs ".", bs "README.md"), bs "R");
   ((bs ".", bs "gengo.sum"), d_prev_sum)].
Definition d_fs0 : fs := fs_of d_tree0.

Definition d_parse_sum : bytes -> alist bytes := Gengo.Model.SumFile.sumfile_load.

Definition d_run1 := run true true d_render d_parse_sum oid d_args d_entry d_world0 d_gens d_fs0.
(* the tree the first run leaves *)
Definition d_fs1 : fs := match d_run1 with Some (f, _) => f | None => fun _ => None end.
(* THE SECOND RUN: on that tree, the re-loaded packages, another behaviour of the runtime at every map range *)
Definition d_run2 := run true true d_render d_parse_sum rev_oracle d_args d_entry d_world1 d_gens d_fs1.

Definition d_paths : list path :=
  [(bs "a", bs "f0.go"); (bs "a", bs "zz_generated.old.go"); (bs "a", bs "zz_generated.rec.go");
   (bs "a", bs "zz_generated.other.go"); (bs "a", bs "zz_generatedx.go");
   (bs "b", bs "b.go"); (bs "b", bs "zz_generated.other.go"); (bs "b", bs "zz_generated.rec.go"); (bs ".", bs "README.md")].
Definition d_sum : path := (bs ".", bs "gengo.sum").

(* ---------- hypotheses of the theorems, for this module ---------- *)

Lemma d_world0_wf : wf_world d_world0.
Proof.
  split; cbn; [solve_nodup|].
  constructor; [|constructor; [|constructor]]; split; cbn; try solve_nodup;
    repeat constructor; cbn; intuition discriminate.
Qed.

Lemma d_world1_wf : wf_world d_world1.
Proof.
  split; cbn; [solve_nodup|].
  constructor; [|constructor; [|constructor]]; split; cbn; try solve_nodup;
    repeat constructor; cbn; intuition discriminate.
Qed.

Lemma d_reload : reload d_world0 d_world1.
Proof. split; [reflexivity|]. repeat constructor. Qed.

Lemma d_loaded : loaded d_args d_world0 d_fs0.
Proof. apply loaded_b_sound. vm_compute. reflexivity. Qed.

Lemma d_regen_all : regen_all d_args d_world0 d_fs0.
Proof. left. reflexivity. Qed.

Lemma d_gens_ok : Forall reads_sources_only d_gens.
Proof. repeat constructor; apply scripted_reads_sources_only. Qed.

Lemma d_dirs : NoDup (map pk_dir (w_pkgs d_world0)).
Proof. cbn. solve_nodup. Qed.

Lemma d_hypotheses :
  wf_world d_world0 /\ wf_world d_world1 /\ wf_args d_args /\ shuffles oid /\ shuffles rev_oracle
  /\ NoDup (map pk_dir (w_pkgs d_world0)) /\ is_gen_name d_args sum_name = false
  /\ Forall reads_sources_only d_gens /\ reload d_world0 d_world1
  /\ loaded d_args d_world0 d_fs0 /\ regen_all d_args d_world0 d_fs0
  /\ d_fs0 (bs "a", bs "zz_generated.old.go") = Some (bs "stale")
  /\ d_fs0 (w_moddir d_world0, sum_name) = Some d_prev_sum
  /\ d_parse_sum d_prev_sum = [(bs "m/a", bs "h1:old"); (bs "m/b", bs "h1:b0")].
Proof.
  split; [exact d_world0_wf|]. split; [exact d_world1_wf|]. split; [constructor|].
  split; [exact oid_shuffles|]. split; [exact rev_oracle_shuffles|]. split; [exact d_dirs|].
  split; [reflexivity|]. split; [exact d_gens_ok|]. split; [exact d_reload|].
  split; [exact d_loaded|]. split; [exact d_regen_all|].
  split; [reflexivity|]. split; [reflexivity|]. vm_compute. reflexivity.
Qed.

(* ---------- the two runs, computed ---------- *)

Ltac splits := repeat match goal with |- _ /\ _ => split end.

(* run 1: the calls in dispatch order (m/a before m/b, per generator the names sorted, the alias only for the
   AliasGenerator, the function-local T never); the stale file removed, the previous output replaced, the ErrIgnore
   of "other" on alias A irrelevant because it rendered for U; look-alike and user files as they were *)
Lemma d_first_run :
  log_of d_run1
  = Some [(bs "m/a", bs "rec", [mk_call CType (bs "T") 306; mk_call CType (bs "U") 406]);
          (bs "m/a", bs "other", [mk_call CAlias (bs "A") 506; mk_call CType (bs "U") 406]);
          (bs "m/b", bs "rec", []);
          (bs "m/b", bs "other", [mk_call CType (bs "V") 706])]
  /\ map (file_of d_run1) d_paths
     = [Some (bs "package a"); None;
        Some (bs "package a;import bytes;import fmt;import sort;G;Gm(M0,M1,);H;D;");
        Some (bs "package a;O;"); Some (bs "look-alike");
        Some (bs "package b"); Some (bs "package b;V1;V2;"); None; Some (bs "R")]
  /\ file_of d_run1 d_sum = Some (bs "m/a h1:a0" ++ [nl10] ++ bs "m/b h1:b0" ++ [nl10]).
Proof. splits; vm_compute; reflexivity. Qed.

(* run 2 on what run 1 left: same calls, every path of the module except gengo.sum holds what it held, nothing added,
   nothing removed; gengo.sum now records the hashes of the second load (why the theorem excludes it) *)
Lemma d_second_run :
  log_of d_run2 = log_of d_run1
  /\ map (file_of d_run2) d_paths = map (file_of d_run1) d_paths
  /\ map (file_of d_run2) d_paths = map d_fs1 d_paths
  /\ file_of d_run2 d_sum = Some (bs "m/a h1:a1" ++ [nl10] ++ bs "m/b h1:b1" ++ [nl10])
  /\ file_of d_run2 d_sum <> file_of d_run1 d_sum.
Proof. splits; try (vm_compute; reflexivity). vm_compute. intros H; discriminate H. Qed.

Lemma d_run1_some : exists log1, d_run1 = Some (d_fs1, log1).
Proof.
  unfold d_fs1. destruct d_run1 as [[f l]|] eqn:E; [now exists l|].
  exfalso. assert (H : log_of d_run1 <> None) by (rewrite (proj1 d_first_run); discriminate).
  apply H. rewrite E. reflexivity.
Qed.

(* C04_fixed_point applied to this module: every hypothesis discharged *)
Lemma d_fixed_point_instance :
  exists f2 log2, d_run2 = Some (f2, log2) /\ forall q, q <> (w_moddir d_world1, sum_name) -> f2 q = d_fs1 q.
Proof.
  destruct d_run1_some as [log1 E].
  exact (second_run_fixed_point d_render d_parse_sum oid rev_oracle d_args d_entry d_gens d_world0 d_world1 d_fs0 d_fs1 log1
           oid_shuffles rev_oracle_shuffles (NoDup_nil _) d_world0_wf d_world1_wf d_dirs eq_refl d_gens_ok d_reload
           d_loaded d_regen_all E).
Qed.

(* ... and a THIRD and FOURTH run from there (C04_fixed_point_any_number_of_runs on the tree run 1 left) *)
Lemma d_any_number_instance :
  exists f', runs_to d_render d_parse_sum d_args d_entry d_gens d_fs1 [(d_world1, rev_oracle); (d_world0, oid); (d_world1, oid)] f'
             /\ forall q, generated d_args q = true -> f' q = d_fs1 q.
Proof.
  destruct d_run1_some as [log1 E].
  apply (settled_forever d_render d_parse_sum d_args d_entry d_gens d_world0 (NoDup_nil _) d_world0_wf eq_refl d_gens_ok).
  - apply Forall_cons; [|apply Forall_cons; [|apply Forall_cons; [|apply Forall_nil]]]; cbn [fst snd].
    + exact (conj d_reload (conj d_world1_wf rev_oracle_shuffles)).
    + refine (conj _ (conj d_world0_wf oid_shuffles)). split; [reflexivity|]. repeat constructor.
    + exact (conj d_reload (conj d_world1_wf oid_shuffles)).
  - exists oid. split; [exact oid_shuffles|].
    exact (first_run_settles d_render d_parse_sum oid oid_shuffles d_args d_entry d_gens d_world0 d_fs0 d_fs1 log1
             d_world0_wf d_dirs eq_refl d_loaded d_regen_all E).
Qed.

(* ---------- permuted entrypoints, another behaviour of the runtime ---------- *)

Definition d_run1_perm := run true true d_render d_parse_sum rev_oracle d_args (rev d_entry) d_world0 d_gens d_fs0.

Lemma d_permuted_entrypoints :
  rev d_entry = [bs "m/a"; bs "m/b"]
  /\ log_of d_run1_perm = log_of d_run1
  /\ map (file_of d_run1_perm) (d_sum :: d_paths) = map (file_of d_run1) (d_sum :: d_paths)
  /\ out_equiv d_run1 d_run1_perm.
Proof.
  splits; try (vm_compute; reflexivity).
  apply (run_order_independent d_render d_parse_sum oid rev_oracle d_args d_entry (rev d_entry) d_world0 d_gens d_fs0
           oid_shuffles rev_oracle_shuffles (NoDup_nil _) d_world0_wf).
  apply Permutation_rev.
Qed.

(* without All only the entrypoints are generated: with one entrypoint m/b is not touched, and the order of two
   entrypoints does not matter (no gengo.sum is read or written) *)
Definition d_args_direct : args := mk_args [] (bs "zz_generated") false false.
Lemma d_direct_entrypoints :
  let r e o := run true true d_render d_parse_sum o d_args_direct e d_world0 d_gens d_fs0 in
  map (file_of (r [bs "m/a"; bs "m/b"] oid)) (d_sum :: d_paths) = map (file_of (r [bs "m/b"; bs "m/a"] rev_oracle)) (d_sum :: d_paths)
  /\ log_of (r [bs "m/a"; bs "m/b"] oid) = log_of (r [bs "m/b"; bs "m/a"] rev_oracle)
  /\ file_of (r [bs "m/a"; bs "m/b"] oid) d_sum = Some d_prev_sum
  /\ file_of (r [bs "m/a"; bs "m/b"] oid) (bs "b", bs "zz_generated.other.go") = Some (bs "package b;V1;V2;")
  /\ file_of (r [bs "m/a"] oid) (bs "b", bs "zz_generated.other.go") = None
  /\ out_equiv (r [bs "m/a"; bs "m/b"] oid) (r [bs "m/b"; bs "m/a"] rev_oracle).
Proof.
  cbv zeta. splits; try (vm_compute; reflexivity).
  apply (run_order_independent d_render d_parse_sum oid rev_oracle d_args_direct [bs "m/a"; bs "m/b"] [bs "m/b"; bs "m/a"]
           d_world0 d_gens d_fs0 oid_shuffles rev_oracle_shuffles (NoDup_nil _) d_world0_wf).
  apply perm_swap.
Qed.

Print Assumptions d_fixed_point_instance.
Print Assumptions d_any_number_instance.
