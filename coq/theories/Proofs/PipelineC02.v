(* C02: what every kind of failure leads to (the verdict of a logged call decides the outcome), what a failed
   run leaves untouched, and that gengo.sum is written by the last two effects only. *)
Require Import Gengo.Base.Bytes Gengo.Model.Pipeline Gengo.Spec.PipelineSpec Gengo.Proofs.Pipeline Gengo.Proofs.PipelinePkg.
From Coq Require Import Permutation.

Lemma verdict_not_done : forall e o, ev_verdict e = Some o -> o <> Done.
Proof.
  intros e o H Hd. subst o. destruct e as [g p t b r|g p i b r]; destruct r; cbn in H; discriminate H.
Qed.

Lemma verdict_done_absurd : forall e o, ev_verdict e = Some o -> Done = o -> False.
Proof. intros e o Hv Hd. eapply verdict_not_done; [exact Hv | symmetry; exact Hd]. Qed.

Section C02.
Variable E : env.

(* ---------- the verdict of any logged call is the outcome ---------- *)

Lemma call_loop_verdict : forall g p tys st e o,
  In e (ro_trace (call_loop E g p st tys)) -> ev_verdict e = Some o -> ro_out (call_loop E g p st tys) = o.
Proof.
  intros g p tys. induction tys as [|t r IH]; intros st e o Hin Hv; cbn [call_loop] in *; [contradiction|].
  destruct (should_call E g p t); [|eapply IH; eassumption].
  destruct (g_type g st p t) as [st' out]. destruct (so_res out) eqn:Hres; cbn [ro_trace ro_out] in *.
  - destruct Hin as [Hin|Hin]; [subst e; cbn in Hv; discriminate Hv | eapply IH; eassumption].
  - destruct Hin as [Hin|Hin]; [subst e; cbn in Hv; discriminate Hv | eapply IH; eassumption].
  - destruct Hin as [Hin|Hin]; [subst e; cbn in Hv; discriminate Hv | eapply IH; eassumption].
  - destruct Hin as [Hin|[]]. subst e. cbn in Hv. inversion Hv. reflexivity.
  - destruct Hin as [Hin|[]]. subst e. cbn in Hv. inversion Hv. reflexivity.
Qed.

Lemma defer_loop_verdict : forall fuel g p ids st e o,
  In e (ro_trace (defer_loop fuel g p st ids)) -> ev_verdict e = Some o -> ro_out (defer_loop fuel g p st ids) = o.
Proof.
  intros fuel g p. induction fuel as [|fuel IH]; intros ids st e o Hin Hv;
    (destruct ids as [|i r]; cbn [defer_loop] in *; [contradiction|]); [contradiction|].
  destruct (g_defer g st p i) as [st' out]. destruct (so_res out) eqn:Hres; cbn [ro_trace ro_out] in *.
  - destruct Hin as [Hin|Hin]; [subst e; cbn in Hv; discriminate Hv | eapply IH; eassumption].
  - destruct Hin as [Hin|[]]. subst e. cbn in Hv. inversion Hv. reflexivity.
  - destruct Hin as [Hin|[]]. subst e. cbn in Hv. inversion Hv. reflexivity.
  - destruct Hin as [Hin|[]]. subst e. cbn in Hv. inversion Hv. reflexivity.
  - destruct Hin as [Hin|[]]. subst e. cbn in Hv. inversion Hv. reflexivity.
Qed.

Lemma gen_run_verdict : forall g p e o,
  In e (go_trace (gen_run E g p)) -> ev_verdict e = Some o -> go_out (gen_run E g p) = o.
Proof.
  intros g p e o Hin Hv. unfold gen_run in *.
  destruct (ro_out (call_loop E g p (g_new g p) (sort_by ty_name (pk_types p)))) eqn:Hc; cbn [go_trace go_out] in *.
  - apply in_app_or in Hin. destruct Hin as [Hin|Hin].
    + pose proof (call_loop_verdict _ _ _ _ _ _ Hin Hv) as H. rewrite Hc in H. exfalso. eapply verdict_done_absurd; eauto.
    + eapply defer_loop_verdict; eassumption.
  - rewrite <- Hc. eapply call_loop_verdict; eassumption.
  - rewrite <- Hc. eapply call_loop_verdict; eassumption.
Qed.

Lemma gen_phase_verdict : forall gens p e o,
  In e (snd (fst (gen_phase E gens p))) -> ev_verdict e = Some o -> snd (gen_phase E gens p) = o.
Proof.
  induction gens as [|g r IH]; intros p e o Hin Hv; cbn [gen_phase] in *; [contradiction|].
  destruct (go_out (gen_run E g p)) eqn:Hout.
  - destruct (gen_phase E r p) as [[gfs tr] out] eqn:Hr. cbn [fst snd] in *.
    apply in_app_or in Hin. destruct Hin as [Hin|Hin].
    + pose proof (gen_run_verdict _ _ _ _ Hin Hv) as H. rewrite Hout in H. exfalso. eapply verdict_done_absurd; eauto.
    + specialize (IH p e o). rewrite Hr in IH. apply IH; assumption.
  - cbn [fst snd] in *. rewrite <- Hout. eapply gen_run_verdict; eassumption.
  - cbn [fst snd] in *. rewrite <- Hout. eapply gen_run_verdict; eassumption.
Qed.

Lemma pkg_effects_verdict : forall a gens p e o,
  In e (snd (fst (pkg_effects E a gens p))) -> ev_verdict e = Some o -> snd (pkg_effects E a gens p) = o.
Proof.
  intros a gens p e o Hin Hv. unfold pkg_effects in *.
  pose proof (gen_phase_verdict gens p e o) as Hg.
  destruct (gen_phase E gens p) as [[gfs tr] out]. cbn [fst snd] in *.
  destruct out.
  - destruct (write_loop E a p (e_order E p gfs) (generated_files a p)) as [[effs rem] err].
    destruct err; cbn [fst snd] in *; exfalso; (eapply verdict_done_absurd; [exact Hv | apply Hg; assumption]).
  - cbn [fst snd] in *. apply Hg; assumption.
  - cbn [fst snd] in *. apply Hg; assumption.
Qed.

Lemma pkg_execute_verdict : forall a w gens prev p e o,
  In e (snd (fst (pkg_execute E a w gens prev p))) -> ev_verdict e = Some o -> snd (pkg_execute E a w gens prev p) = o.
Proof.
  intros a w gens prev p e o Hin Hv. unfold pkg_execute in *.
  destruct (pkg_changed a w prev p); [eapply pkg_effects_verdict; eassumption | contradiction].
Qed.

Lemma run_pkgs_verdict : forall a w gens prev ps e o,
  In e (snd (fst (run_pkgs E a w gens prev ps))) -> ev_verdict e = Some o -> snd (run_pkgs E a w gens prev ps) = o.
Proof.
  intros a w gens prev ps. induction ps as [|p r IH]; intros e o Hin Hv; cbn [run_pkgs] in *; [contradiction|].
  destruct (selected a w p); [|eapply IH; eassumption].
  pose proof (pkg_execute_verdict a w gens prev p e o) as Hp.
  destruct (pkg_execute E a w gens prev p) as [[e1 t1] o1]. cbn [fst snd] in *.
  destruct o1.
  - destruct (run_pkgs E a w gens prev r) as [[e2 t2] o2]. cbn [fst snd] in *.
    apply in_app_or in Hin. destruct Hin as [Hin|Hin].
    + exfalso. eapply verdict_done_absurd; [exact Hv | apply Hp; assumption].
    + eapply IH; eassumption.
  - cbn [fst snd] in *. apply Hp; assumption.
  - cbn [fst snd] in *. apply Hp; assumption.
Qed.

Theorem trace_verdict : forall a w gens s e o,
  In e (exec_trace E a w gens s) -> ev_verdict e = Some o -> exec_outcome E a w gens s = o.
Proof.
  intros a w gens s e o Hin Hv. unfold exec_trace, exec_outcome, run_all in *.
  eapply run_pkgs_verdict; eassumption.
Qed.

(* ---------- who can fail how ---------- *)

Lemma call_loop_failed : forall g p tys st x,
  ro_out (call_loop E g p st tys) = Failed x -> x = EGen (g_name g) (pk_path p).
Proof.
  intros g p tys. induction tys as [|t r IH]; intros st x H; cbn [call_loop] in *; [discriminate H|].
  destruct (should_call E g p t); [|eapply IH; eassumption].
  destruct (g_type g st p t) as [st' out]. destruct (so_res out); cbn [ro_out] in *;
    try (eapply IH; eassumption); try discriminate H.
  inversion H. reflexivity.
Qed.

Lemma defer_loop_failed : forall fuel g p ids st x,
  ro_out (defer_loop fuel g p st ids) = Failed x -> x = EDefer (g_name g) (pk_path p).
Proof.
  intros fuel g p. induction fuel as [|fuel IH]; intros ids st x H;
    (destruct ids as [|i r]; cbn [defer_loop] in *; [discriminate H|]); [discriminate H|].
  destruct (g_defer g st p i) as [st' out]. destruct (so_res out); cbn [ro_out] in *;
    try (eapply IH; eassumption); try discriminate H; inversion H; reflexivity.
Qed.

Lemma gen_run_failed : forall g p x,
  go_out (gen_run E g p) = Failed x -> x = EGen (g_name g) (pk_path p) \/ x = EDefer (g_name g) (pk_path p).
Proof.
  intros g p x H. unfold gen_run in H.
  destruct (ro_out (call_loop E g p (g_new g p) (sort_by ty_name (pk_types p)))) eqn:Hc; cbn [go_out] in H.
  - right. eapply defer_loop_failed. exact H.
  - left. inversion H; subst. eapply call_loop_failed. exact Hc.
  - discriminate H.
Qed.

Definition names_pkg (x : err) (gn pp : bytes) : Prop := x = EGen gn pp \/ x = EDefer gn pp.

Lemma gen_phase_failed : forall gens p x,
  snd (gen_phase E gens p) = Failed x -> exists g, In g gens /\ names_pkg x (g_name g) (pk_path p).
Proof.
  induction gens as [|g r IH]; intros p x H; cbn [gen_phase] in H; [discriminate H|].
  destruct (go_out (gen_run E g p)) eqn:Hout.
  - destruct (gen_phase E r p) as [[gfs tr] out] eqn:Hr. cbn [snd] in H. subst out.
    specialize (IH p x). rewrite Hr in IH. destruct (IH eq_refl) as [g' [Hg' Hn]]. exists g'. split; [right; exact Hg' | exact Hn].
  - cbn [snd] in H. inversion H; subst. exists g. split; [left; reflexivity | apply gen_run_failed; exact Hout].
  - discriminate H.
Qed.

(* a package that fails in its generator phase performs no effect at all; one that fails while writing names the
   file whose rendering does not parse and has not touched it *)
Lemma pkg_effects_failed : forall a gens p effs tr x,
  order_ok E -> NoDup (map g_name gens) ->
  pkg_effects E a gens p = (effs, tr, Failed x) ->
  (effs = [] /\ exists g, In g gens /\ names_pkg x (g_name g) (pk_path p))
  \/ (exists g, In g gens /\ x = EParse (gen_file a p (g_name g)) /\ go_body (gen_run E g p) <> [] /\
                e_fmt E (assemble (pk_name p) (g_name g) (go_body (gen_run E g p))) = None /\
                forall e, In e effs -> effect_path e <> gen_file a p (g_name g)).
Proof.
  intros a gens p effs tr x Hord Hnd H. unfold pkg_effects in H.
  destruct (gen_phase E gens p) as [[gfs tr0] out] eqn:Hgp. destruct out.
  - destruct (gen_phase_done E _ _ _ _ Hgp) as [Hgfs _].
    destruct (write_loop E a p (e_order E p gfs) (generated_files a p)) as [[weffs rem] err] eqn:Hw.
    destruct err as [y|]; [|discriminate H]. inversion H; subst effs tr0 y. right.
    pose proof (write_loop_err_is_parse E a p (e_order E p gfs) (generated_files a p) x) as Hq. rewrite Hw in Hq.
    destruct (Hq eq_refl) as [q Hx]. subst x.
    assert (HndO : NoDup (map fst (e_order E p gfs))).
    { eapply perm_map_NoDup; [apply Hord|]. rewrite Hgfs, gfs_names. apply NoDup_map_filter. exact Hnd. }
    destruct (write_loop_fail E _ _ _ _ _ _ _ HndO Hw) as [[n [body [Hin [Hqn [Hne Hfmt]]]]] Heff].
    apply (Permutation_in _ (Hord p gfs)) in Hin. rewrite Hgfs in Hin. apply in_map_iff in Hin.
    destruct Hin as [g [Heq Hg]]. apply filter_In in Hg. inversion Heq; subst n body.
    exists g. split; [tauto|]. split; [rewrite Hqn; reflexivity|]. split; [exact Hne|]. split; [exact Hfmt|].
    rewrite <- Hqn. exact Heff.
  - inversion H; subst effs tr0 e. left. split; [reflexivity|].
    pose proof (gen_phase_failed gens p x) as Hf. rewrite Hgp in Hf. apply Hf. reflexivity.
  - discriminate H.
Qed.

(* ---------- what a failed run has not touched ---------- *)

Lemma run_pkgs_failed : forall a w gens prev ps effs tr x,
  order_ok E -> NoDup (map g_name gens) -> NoDup (map pk_dir ps) -> NoDup (map pk_path ps) ->
  run_pkgs E a w gens prev ps = (effs, tr, Failed x) ->
  exists pf, In pf ps /\ selected a w pf = true /\ pkg_changed a w prev pf = true /\
    ((exists g, In g gens /\ names_pkg x (g_name g) (pk_path pf)) /\
       (forall e, In e effs -> fst (effect_path e) <> pk_dir pf)
     \/ (exists g, In g gens /\ x = EParse (gen_file a pf (g_name g)) /\ go_body (gen_run E g pf) <> [] /\
                   e_fmt E (assemble (pk_name pf) (g_name g) (go_body (gen_run E g pf))) = None /\
                   forall e, In e effs -> effect_path e <> gen_file a pf (g_name g))).
Proof.
  intros a w gens prev ps. induction ps as [|p r IH]; intros effs tr x Hord Hnd Hdirs Hpaths H; cbn [run_pkgs] in H;
    [discriminate H|].
  destruct (NoDup_cons_dir _ _ _ Hdirs) as [Hne Hdirs']. destruct (NoDup_cons_dir _ _ _ Hpaths) as [_ Hpaths'].
  destruct (selected a w p) eqn:Hsel.
  - destruct (pkg_execute E a w gens prev p) as [[e1 t1] o1] eqn:Hpe.
    destruct o1.
    + destruct (run_pkgs E a w gens prev r) as [[e2 t2] o2] eqn:Hr. inversion H; subst effs tr o2.
      destruct (IH _ _ _ Hord Hnd Hdirs' Hpaths' eq_refl) as [pf [Hpf [Hs [Hc Hcases]]]].
      exists pf. split; [right; exact Hpf|]. split; [exact Hs|]. split; [exact Hc|].
      assert (He1 : forall e, In e e1 -> fst (effect_path e) <> pk_dir pf).
      { intros e He Heq. pose proof (pkg_execute_dir E a w gens prev p e) as Hd. rewrite Hpe in Hd.
        rewrite (Hd He) in Heq. eapply Hne; [exact Hpf | symmetry; exact Heq]. }
      destruct Hcases as [[Hn Heff]|[g [Hg [Hx [Hb [Hf Heff]]]]]].
      * left. split; [exact Hn|]. intros e He. apply in_app_or in He. destruct He as [He|He]; [apply He1 | apply Heff]; exact He.
      * right. exists g. repeat (split; [assumption|]). intros e He. apply in_app_or in He. destruct He as [He|He].
        -- intros Heq. apply (He1 e He). rewrite Heq. reflexivity.
        -- apply Heff. exact He.
    + inversion H; subst effs tr e. unfold pkg_execute in Hpe.
      destruct (pkg_changed a w prev p) eqn:Hch; [|discriminate Hpe].
      exists p. split; [left; reflexivity|]. split; [exact Hsel|]. split; [exact Hch|].
      destruct (pkg_effects_failed a gens p e1 t1 x Hord Hnd Hpe) as [[Hnil Hn]|Hparse].
      * left. split; [exact Hn|]. subst e1. intros e [].
      * right. exact Hparse.
    + discriminate H.
  - destruct (IH _ _ _ Hord Hnd Hdirs' Hpaths' H) as [pf [Hpf Hrest]]. exists pf. split; [right; exact Hpf | exact Hrest].
Qed.

Lemma effects_of_failed : forall a w gens s x,
  exec_outcome E a w gens s = Failed x -> effects E a w gens s = pkgs_effects E a w gens s.
Proof. intros a w gens s x H. rewrite effects_split, H, app_nil_r. reflexivity. Qed.

(* a generator or deferred callback failed: Execute's error names generator and package; nothing in that package's
   directory has changed (so the generator's previous file is byte-identical) *)
Theorem failed_names_pkg : forall a w gens s gn pp,
  order_ok E -> NoDup (map g_name gens) -> world_ok w ->
  (exec_outcome E a w gens s = Failed (EGen gn pp) \/ exec_outcome E a w gens s = Failed (EDefer gn pp)) ->
  exists p g, In p (w_pkgs w) /\ pk_path p = pp /\ In g gens /\ g_name g = gn /\ processed E a w s p = true /\
    forall f, fs_lookup (pk_dir p, f) (exec_fs E a w gens s) = fs_lookup (pk_dir p, f) s.
Proof.
  intros a w gens s gn pp Hord Hnd [Hd Hp] Hout.
  assert (Hx : exists x, exec_outcome E a w gens s = Failed x /\ (x = EGen gn pp \/ x = EDefer gn pp))
    by (destruct Hout as [H|H]; eexists; split; eauto).
  destruct Hx as [x [Hfail Hxx]].
  pose proof Hfail as Hrun. unfold exec_outcome, run_all in Hrun.
  destruct (run_pkgs E a w gens (load_prev E a w s) (sorted_pkgs w)) as [[effs tr] out] eqn:Hr. cbn [snd] in Hrun. subst out.
  destruct (run_pkgs_failed a w gens _ _ effs tr x Hord Hnd
              (sort_by_NoDup_map pk_path pk_dir _ Hd) (sort_by_NoDup_map pk_path pk_path _ Hp) Hr)
    as [pf [Hpf [Hs [Hc Hcases]]]].
  apply (proj1 (sort_by_In pk_path _ _)) in Hpf.
  destruct Hcases as [[[g [Hg Hn]] Heff]|[g [_ [Hpx _]]]].
  - assert (Hgp : g_name g = gn /\ pk_path pf = pp).
    { destruct Hn as [Hn|Hn]; destruct Hxx as [Hxx|Hxx]; rewrite Hxx in Hn; inversion Hn; auto. }
    destruct Hgp as [Hgn Hpp].
    exists pf, g. split; [exact Hpf|]. split; [exact Hpp|]. split; [exact Hg|]. split; [exact Hgn|].
    split; [unfold processed; rewrite Hs, Hc; reflexivity|].
    intros f. rewrite exec_fs_eq, (effects_of_failed _ _ _ _ _ Hfail). unfold pkgs_effects, run_all. rewrite Hr. cbn [fst].
    apply apply_all_other. intros e He Heq. apply (Heff e He). rewrite Heq. reflexivity.
  - destruct Hxx as [Hxx|Hxx]; rewrite Hxx in Hpx; discriminate Hpx.
Qed.

(* a rendering did not parse: the error carries the position in that generator's file, the file is untouched *)
Theorem failed_parse : forall a w gens s q,
  order_ok E -> NoDup (map g_name gens) -> world_ok w ->
  exec_outcome E a w gens s = Failed (EParse q) ->
  (exists p g, In p (w_pkgs w) /\ In g gens /\ processed E a w s p = true /\ q = gen_file a p (g_name g) /\
               go_body (gen_run E g p) <> [] /\
               e_fmt E (assemble (pk_name p) (g_name g) (go_body (gen_run E g p))) = None)
  /\ fs_lookup q (exec_fs E a w gens s) = fs_lookup q s.
Proof.
  intros a w gens s q Hord Hnd [Hd Hp] Hfail.
  pose proof Hfail as Hrun. unfold exec_outcome, run_all in Hrun.
  destruct (run_pkgs E a w gens (load_prev E a w s) (sorted_pkgs w)) as [[effs tr] out] eqn:Hr. cbn [snd] in Hrun. subst out.
  destruct (run_pkgs_failed a w gens _ _ effs tr _ Hord Hnd
              (sort_by_NoDup_map pk_path pk_dir _ Hd) (sort_by_NoDup_map pk_path pk_path _ Hp) Hr)
    as [pf [Hpf [Hs [Hc Hcases]]]].
  apply (proj1 (sort_by_In pk_path _ _)) in Hpf.
  destruct Hcases as [[[g [_ Hn]] _]|[g [Hg [Hx [Hb [Hf Heff]]]]]].
  - destruct Hn as [Hn|Hn]; discriminate Hn.
  - inversion Hx; subst q. split.
    + exists pf, g. split; [exact Hpf|]. split; [exact Hg|]. split; [unfold processed; rewrite Hs, Hc; reflexivity|].
      split; [reflexivity|]. split; assumption.
    + rewrite exec_fs_eq, (effects_of_failed _ _ _ _ _ Hfail). unfold pkgs_effects, run_all. rewrite Hr. cbn [fst].
      apply apply_all_other. exact Heff.
Qed.

(* a successful run: nothing but nil / ErrSkip / ErrIgnore was returned, and everything retained parsed *)
Theorem done_clean : forall a w gens s,
  exec_outcome E a w gens s = Done ->
  forall e, In e (exec_trace E a w gens s) -> ev_verdict e = None.
Proof.
  intros a w gens s Hdone e Hin. destruct (ev_verdict e) as [o|] eqn:Hv; [|reflexivity].
  exfalso. pose proof (trace_verdict a w gens s e o Hin Hv) as H. rewrite Hdone in H.
  eapply verdict_done_absurd; [exact Hv | exact H].
Qed.

(* ---------- gengo.sum ---------- *)

Lemma pkgs_effects_not_sum_path : forall a w gens s e,
  files_ok w -> In e (pkgs_effects E a w gens s) -> effect_path e <> sum_path w.
Proof.
  intros a w gens s e Hok He Heq. apply (pkgs_effects_not_sum E a w gens s e Hok He). rewrite Heq. reflexivity.
Qed.

(* the run's effects are the package effects followed, only after success under All, by the two effects of
   sumfile.Save; no package effect is on gengo.sum *)
Theorem sum_written_last : forall a w gens s,
  files_ok w ->
  exists tail, effects E a w gens s = pkgs_effects E a w gens s ++ tail /\
    (forall e, In e (pkgs_effects E a w gens s) -> effect_path e <> sum_path w) /\
    (tail = [] \/ (tail = save_effects E w /\ exec_outcome E a w gens s = Done /\ a_all a = true)).
Proof.
  intros a w gens s Hok. rewrite effects_split. eexists. split; [reflexivity|]. split.
  - intros e He. apply pkgs_effects_not_sum_path with (gens := gens) (s := s) (a := a); assumption.
  - destruct (exec_outcome E a w gens s); [|left; reflexivity|left; reflexivity].
    destruct (a_all a); [right; auto | left; reflexivity].
Qed.

(* every crash point before the save: gengo.sum is what it was *)
Theorem crash_before_save : forall a w gens s k,
  files_ok w -> k <= List.length (pkgs_effects E a w gens s) ->
  fs_lookup (sum_path w) (apply_all (firstn k (effects E a w gens s)) s) = fs_lookup (sum_path w) s.
Proof.
  intros a w gens s k Hok Hk. rewrite effects_split, firstn_app.
  replace (k - List.length (pkgs_effects E a w gens s)) with 0 by lia. rewrite firstn_O, app_nil_r.
  apply apply_all_other. intros e He. apply firstn_In in He.
  apply pkgs_effects_not_sum_path with (gens := gens) (s := s) (a := a); assumption.
Qed.

(* a run that did not succeed (error or death) has not touched gengo.sum *)
Theorem sum_untouched_unless_done : forall a w gens s,
  files_ok w -> exec_outcome E a w gens s <> Done ->
  fs_lookup (sum_path w) (exec_fs E a w gens s) = fs_lookup (sum_path w) s.
Proof.
  intros a w gens s Hok Hnd. rewrite exec_fs_eq, effects_split.
  destruct (exec_outcome E a w gens s) as [|x|] eqn:Ho; [contradiction| |]; rewrite app_nil_r;
    apply apply_all_other; intros e0 He0; apply pkgs_effects_not_sum_path with (gens := gens) (s := s) (a := a); assumption.
Qed.

(* the crash point between the two effects of the save (after open-with-truncate, before the write): the sum is empty *)
Theorem crash_inside_save : forall a w gens s,
  exec_outcome E a w gens s = Done -> a_all a = true ->
  fs_lookup (sum_path w)
    (apply_all (firstn (S (List.length (pkgs_effects E a w gens s))) (effects E a w gens s)) s) = Some [].
Proof.
  intros a w gens s Hdone Hall. rewrite effects_split, Hdone, Hall, firstn_app.
  rewrite firstn_all2 by lia.
  replace (S (List.length (pkgs_effects E a w gens s)) - List.length (pkgs_effects E a w gens s)) with 1 by lia.
  cbn [save_effects firstn]. rewrite apply_all_app. cbn [apply_all fold_left apply_effect].
  apply lookup_set_same.
Qed.

(* ... and an empty gengo.sum makes the next run regenerate every package that has a hash (for any sum parser that
   reads nothing out of nothing) *)
Theorem empty_sum_regenerates_all : forall a w s p,
  e_sum_load E [] = [] -> fs_lookup (sum_path w) s = Some [] ->
  pkg_changed a w (load_prev E a w s) p = true.
Proof.
  intros a w s p Hload Hs. unfold pkg_changed. destruct (a_force a); [reflexivity|].
  unfold load_prev. destruct (a_all a && existsb (is_direct w) (w_pkgs w)); [|reflexivity].
  rewrite Hs, Hload. cbn [sum_get].
  destruct (sum_get (current_sum w) (pk_path p)); reflexivity.
Qed.

Theorem empty_sum_regenerates : forall a w s p,
  e_sum_load E [] = [] -> fs_lookup (sum_path w) s = Some [] ->
  sum_get (current_sum w) (pk_path p) <> [] ->
  pkg_changed a w (load_prev E a w s) p = true.
Proof.
  intros a w s p Hload Hs Hh. unfold pkg_changed. destruct (a_force a); [reflexivity|].
  unfold load_prev. destruct (a_all a && existsb (is_direct w) (w_pkgs w)); [|reflexivity].
  rewrite Hs, Hload. cbn [sum_get].
  destruct (sum_get (current_sum w) (pk_path p)); [contradiction | reflexivity].
Qed.

End C02.
