package pipe

// Probes (Step.Probe): a scripted generator renders into its file, as comment lines, what the queries of the run's
// Universe — the one object every package of a run shares — answer about a loaded package: for "<pkgpath>.*" the
// imports, and for every function, type (with its methods) and constant, in name order, ResultsOf / MethodsOf / Doc /
// Comment; for "<pkgpath>.<Name>" the same for one function or type.  The answers are part of the generated file, so
// the byte comparison "file of P alone vs. next to Q" (C05) sees any answer that depends on what was asked before.
// Nothing here is modelled in Coq: like Use and DocOf, steps with probes are decided on the Go side only.

import (
	"fmt"
	"go/ast"
	"go/importer"
	"go/parser"
	"go/token"
	"go/types"
	"sort"
	"strings"

	"github.com/octohelm/gengo/pkg/gengo"
	gtypes "github.com/octohelm/gengo/pkg/types"
)

// ImportName: the local name under which source() imports the package in directory dir (Pkg.Imports).
func ImportName(dir string) string { return "i" + strings.ReplaceAll(dir, "/", "_") }

type prober struct {
	b   strings.Builder
	c   gengo.Context
	pkg gtypes.Package
}

func (p *prober) line(format string, a ...any) {
	s := fmt.Sprintf(format, a...)
	s = strings.NewReplacer("\n", "\\n", "\r", "\\r").Replace(s)
	p.b.WriteString("//   | " + s + "\n")
}

// guarded: a query that panics is an answer, too (the same one alone and together, or the files differ)
func (p *prober) guarded(what string, f func()) {
	defer func() {
		if recover() != nil {
			p.line("%s: <panic>", what)
		}
	}()
	f()
}

func sortedKeys[V any](m map[string]V) []string {
	ks := make([]string, 0, len(m))
	for k := range m {
		ks = append(ks, k)
	}
	sort.Strings(ks)
	return ks
}

func tagText(tags map[string][]string) string {
	var s []string
	for _, k := range sortedKeys(tags) {
		s = append(s, fmt.Sprintf("%s=%q", k, tags[k]))
	}
	return "{" + strings.Join(s, " ") + "}"
}

func (p *prober) doc(what string, o types.Object) {
	p.guarded("doc "+what, func() {
		tags, lines := p.c.Doc(o)
		p.line("doc %s: tags %s lines %q", what, tagText(tags), lines)
	})
	p.guarded("comment "+what, func() {
		if lines := p.pkg.Comment(o.Pos()); len(lines) > 0 {
			p.line("comment %s: %q", what, lines)
		}
	})
}

func (p *prober) results(what string, fn *types.Func) {
	p.guarded("results "+what, func() {
		res, n := p.pkg.ResultsOf(fn)
		p.line("results %s: n=%d %s", what, n, res.String())
	})
}

func (p *prober) function(name string) bool {
	fn := p.pkg.Function(name)
	if fn == nil {
		return false
	}
	p.results(name, fn)
	p.doc(name, fn)
	return true
}

func (p *prober) typ(name string) bool {
	tn := p.pkg.Type(name)
	if tn == nil {
		return false
	}
	p.doc(name, tn)
	named, ok := tn.Type().(*types.Named)
	if !ok {
		return true
	}
	for _, ptr := range []bool{false, true} {
		p.guarded("methods "+name, func() {
			var ms []*types.Func
			var names []string
			for _, m := range p.pkg.MethodsOf(named, ptr) {
				ms = append(ms, m)
				names = append(names, m.Name())
			}
			p.line("methods %s (ptr=%v): %v", name, ptr, names)
			if !ptr {
				return
			}
			for _, m := range ms {
				if m.Pkg() == nil || m.Pkg().Path() != p.pkg.Pkg().Path() {
					continue // promoted from a type of another package: asked there
				}
				p.results(name+"."+m.Name(), m)
			}
		})
	}
	return true
}

func probeOf(c gengo.Context, ref string) (out string) {
	k := strings.LastIndex(ref, ".")
	if k < 0 {
		return "// probe " + ref + ": <malformed>\n"
	}
	path, name := ref[:k], ref[k+1:]
	defer func() {
		if recover() != nil {
			out = "// probe " + ref + ": <not loaded>\n"
		}
	}()
	pkg := c.Package(path)
	_ = pkg.Pkg().Path() // a package the run did not load: nil
	p := &prober{c: c, pkg: pkg}
	if name != "*" {
		if !p.function(name) && !p.typ(name) {
			return "// probe " + ref + ": <no such function or type>\n"
		}
		return "// probe " + ref + "\n" + p.b.String()
	}
	p.guarded("imports", func() { p.line("imports: %v", sortedKeys(pkg.Imports())) })
	for _, n := range sortedKeys(pkg.Functions()) {
		p.function(n)
	}
	for _, n := range sortedKeys(pkg.Types()) {
		p.typ(n)
	}
	p.guarded("constants", func() {
		cs := pkg.Constants()
		for _, n := range sortedKeys(cs) {
			p.line("const %s = %s", n, cs[n].Val().ExactString())
		}
	})
	return "// probe " + ref + "\n" + p.b.String()
}

// TypeCheck parses and type-checks the packages of the module as source() writes them (with the .go files of
// Module.Files that lie in a package directory), module-local imports from these sources, everything else from the
// standard library's sources.  Shrinking drops declarations blindly: a module that no longer compiles is not an input
// of the family.  Modules with Ext are not checked (nil).
func (m *Module) TypeCheck() error {
	if len(m.Ext) > 0 {
		return nil
	}
	fset := token.NewFileSet()
	std := importer.ForCompiler(fset, "source", nil)
	byPath := map[string]Pkg{}
	for _, p := range m.Pkgs {
		byPath[m.PkgPath(p.Dir)] = p
	}
	checked := map[string]*types.Package{}
	busy := map[string]bool{}
	var imp importerFunc
	imp = func(path string) (*types.Package, error) {
		p, local := byPath[path]
		if !local {
			return std.Import(path)
		}
		if tp := checked[path]; tp != nil {
			return tp, nil
		}
		if busy[path] {
			return nil, fmt.Errorf("import cycle through %s", path)
		}
		busy[path] = true
		srcs := map[string]string{p.Dir + "/main.go": m.source(p)}
		for _, f := range m.Files {
			if d, _ := splitPath(f.Path); d == p.Dir && strings.HasSuffix(f.Path, ".go") && !strings.HasSuffix(f.Path, "_test.go") &&
				!strings.Contains(f.Content, "//go:build ignore") {
				srcs[f.Path] = f.Content
			}
		}
		var files []*ast.File
		for _, name := range sortedKeys(srcs) {
			af, err := parser.ParseFile(fset, name, srcs[name], parser.SkipObjectResolution)
			if err != nil {
				return nil, err
			}
			files = append(files, af)
		}
		tp, err := (&types.Config{Importer: imp}).Check(path, fset, files, nil)
		if err != nil {
			return nil, err
		}
		checked[path] = tp
		return tp, nil
	}
	for _, p := range m.Pkgs {
		if _, err := imp(m.PkgPath(p.Dir)); err != nil {
			return err
		}
	}
	return nil
}

type importerFunc func(path string) (*types.Package, error)

func (f importerFunc) Import(path string) (*types.Package, error) { return f(path) }
