package pipe

import (
	"context"
	"errors"
	"fmt"
	"io"
	"io/fs"
	"strings"
	"syscall"

	"github.com/octohelm/gengo/pkg/gengo"
)

// Error VALUES a scripted generator / deferred callback can return (Step.Res, DeferStep.Res) besides the plain "err".
// The statement of C02 makes no difference between them: "if a generator returns an error … Execute returns an error";
// gengo.ErrSkip / gengo.ErrIgnore — bare or somewhere in the chain (errors.Is) — are the ONLY values a GenerateType /
// GenerateAliasType call may return without failing the run.  Everything in ErrKinds must therefore fail it exactly like
// errors.New does (Coq: RErr); SwallowedKinds are further spellings of the two sentinels (Coq: RSkip / RIgnore).
//
// The family exists because code that treats some error values specially looks natural ("an interrupted run is not a
// failure", "EOF just ends the loop", "a missing file is fine", "retry what is temporary"): sentinels of context, io,
// io/fs and syscall, bare and wrapped (%w, errors.Join, a custom type with Unwrap / Is), errors with Timeout() /
// Temporary(), an empty message, and messages that merely SPELL "skip" / "ignore".
var ErrKinds = []string{
	"err-canceled",       // fmt.Errorf("…: %w", context.Canceled): a helper run under a context of its own was cancelled
	"err-canceled-bare",  // context.Canceled itself
	"err-deadline",       // wrapped context.DeadlineExceeded (Timeout() and Temporary() are true)
	"err-deadline-bare",  //
	"err-eof",            // io.EOF itself
	"err-eof-wrapped",    //
	"err-unexpected-eof", // io.ErrUnexpectedEOF
	"err-notexist",       // fs.ErrNotExist itself (os.IsNotExist)
	"err-patherror",      // *fs.PathError{open schema.json: ENOENT}: errors.Is(err, fs.ErrNotExist), os.IsNotExist
	"err-exist",          // wrapped fs.ErrExist
	"err-permission",     // *fs.PathError{…: EACCES}
	"err-closed",         // fs.ErrClosed
	"err-eintr",          // syscall.EINTR (Temporary())
	"err-eagain",         // syscall.EAGAIN (Temporary(), Timeout())
	"err-join",           // errors.Join(plain, context.Canceled, io.EOF)
	"err-join-one",       // errors.Join(plain)
	"err-custom-is",      // custom type whose Is() claims context.Canceled, io.EOF and fs.ErrNotExist
	"err-custom-unwrap",  // custom type with Unwrap() -> plain error
	"err-timeout",        // custom net.Error-like value: Timeout() = Temporary() = true
	"err-empty",          // errors.New("")
	"err-text-skip",      // errors.New("skip"): spelled like gengo.ErrSkip, but not it
	"err-text-ignore",    // errors.New("ignore")
	"err-double-wrapped", // %w of %w of a plain error
}

// SwallowedKinds: gengo.ErrSkip / gengo.ErrIgnore reached through other wrappers than fmt.Errorf("%w") ("skipw" / "ignorew").
var SwallowedKinds = []string{"skipc", "skipj", "ignorec", "ignorej"}

type isErr struct{ msg string }

func (e *isErr) Error() string { return e.msg }
func (e *isErr) Is(target error) bool {
	return target == context.Canceled || target == io.EOF || target == fs.ErrNotExist
}

type unwrapErr struct {
	msg   string
	inner error
}

func (e *unwrapErr) Error() string { return e.msg + ": " + e.inner.Error() }
func (e *unwrapErr) Unwrap() error { return e.inner }

type timeoutErr struct{}

func (timeoutErr) Error() string   { return "i/o timeout" }
func (timeoutErr) Timeout() bool   { return true }
func (timeoutErr) Temporary() bool { return true }

// IsErrRes: the result stands for an error that must fail the run.
func IsErrRes(res string) bool { return res == "err" || strings.HasPrefix(res, "err-") }

func errOfKind(res string) error {
	switch res {
	case "err-canceled":
		return fmt.Errorf("schema helper stopped: %w", context.Canceled)
	case "err-canceled-bare":
		return context.Canceled
	case "err-deadline":
		return fmt.Errorf("schema helper too slow: %w", context.DeadlineExceeded)
	case "err-deadline-bare":
		return context.DeadlineExceeded
	case "err-eof":
		return io.EOF
	case "err-eof-wrapped":
		return fmt.Errorf("reading schema: %w", io.EOF)
	case "err-unexpected-eof":
		return io.ErrUnexpectedEOF
	case "err-notexist":
		return fs.ErrNotExist
	case "err-patherror":
		return &fs.PathError{Op: "open", Path: "schema.json", Err: syscall.ENOENT}
	case "err-exist":
		return fmt.Errorf("scratch dir: %w", fs.ErrExist)
	case "err-permission":
		return &fs.PathError{Op: "open", Path: "schema.json", Err: syscall.EACCES}
	case "err-closed":
		return fs.ErrClosed
	case "err-eintr":
		return syscall.EINTR
	case "err-eagain":
		return syscall.EAGAIN
	case "err-join":
		return errors.Join(errors.New("first failure"), context.Canceled, io.EOF)
	case "err-join-one":
		return errors.Join(errors.New("only failure"))
	case "err-custom-is":
		return &isErr{msg: "custom failure"}
	case "err-custom-unwrap":
		return &unwrapErr{msg: "custom wrapper", inner: errors.New("inner failure")}
	case "err-timeout":
		return timeoutErr{}
	case "err-empty":
		return errors.New("")
	case "err-text-skip":
		return errors.New("skip")
	case "err-text-ignore":
		return errors.New("ignore")
	case "err-double-wrapped":
		return fmt.Errorf("outer: %w", fmt.Errorf("inner: %w", errors.New("scripted failure")))
	case "skipc":
		return &unwrapErr{msg: "not for this type", inner: gengo.ErrSkip}
	case "skipj":
		return errors.Join(gengo.ErrSkip)
	case "ignorec":
		return &unwrapErr{msg: "keep what is there", inner: gengo.ErrIgnore}
	case "ignorej":
		return errors.Join(gengo.ErrIgnore)
	}
	return nil
}
