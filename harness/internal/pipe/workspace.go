package pipe

import (
	"encoding/json"
	"fmt"
	"os"
	"path/filepath"
	"sort"
	"strconv"
	"strings"

	"verifharness/internal/core"
)

// go.work workspaces: the scenario's module and its Ext modules are all `use`d by one go.work file.  For the go command
// (and go/packages) every member is then a MAIN module (Module.Main is true for each of them), whichever directory the
// run was started in.  For a gengo run nothing changes: the run was started in the root of ONE module and its
// entrypoints name packages of that module; the other members are dependencies like any other, except that they are
// writable directories next to / below it.

func goVerLess(a, b string) bool {
	pa, pb := strings.Split(a, "."), strings.Split(b, ".")
	for i := 0; i < len(pa) && i < len(pb); i++ {
		x, _ := strconv.Atoi(pa[i])
		y, _ := strconv.Atoi(pb[i])
		if x != y {
			return x < y
		}
	}
	return len(pa) < len(pb)
}

// WorkMode: "" | "root" | "parent" | "auto" (see Module.Work).  Inputs written before the two workspace mechanisms were
// unified spell "auto" as the JSON boolean true.
type WorkMode string

func (w *WorkMode) UnmarshalJSON(b []byte) error {
	switch string(b) {
	case "true":
		*w = "auto"
		return nil
	case "false", "null":
		*w = ""
		return nil
	}
	var s string
	if err := json.Unmarshal(b, &s); err != nil {
		return err
	}
	*w = WorkMode(s)
	return nil
}

// WorkPlace: "" (no workspace), "root" (go.work in this module's root) or "parent" (in the directory above it).
func (m *Module) WorkPlace() string {
	switch m.Work {
	case "":
		return ""
	case "auto":
		for _, x := range m.Ext {
			if strings.HasPrefix(x.Dir, "../") {
				return "parent"
			}
		}
		return "root"
	case "parent":
		return "parent"
	}
	return "root"
}

// WorkNoRequire: the go.mod carries no require / replace lines for the other members.
func (m *Module) WorkNoRequire() bool { return m.Work == "auto" || (m.Work != "" && m.WorkOnly) }

// WorkFile returns the path of go.work relative to the module root and its content ("", "" without a workspace); self is
// the name of the module's own directory (used when go.work lies above it).  The go line is the newest go directive
// among the members, at least 1.18 (the first release with workspaces).
func (m *Module) WorkFile(self string) (rel, content string) {
	place := m.WorkPlace()
	if place == "" {
		return "", ""
	}
	gv := m.GoVer
	if gv == "" {
		gv = "1.22"
	}
	for _, x := range m.Ext {
		if x.GoVer != "" && goVerLess(gv, x.GoVer) {
			gv = x.GoVer
		}
	}
	if goVerLess(gv, "1.18") {
		gv = "1.18"
	}
	var uses []string
	rel = "go.work"
	if place == "parent" {
		// a sibling "../mkit" is "./mkit" seen from above
		rel = "../go.work"
		uses = append(uses, "./"+self)
		for _, x := range m.Ext {
			if strings.HasPrefix(x.Dir, "../") {
				uses = append(uses, "./"+strings.TrimPrefix(x.Dir, "../"))
			} else {
				uses = append(uses, "./"+self+"/"+x.Dir)
			}
		}
	} else {
		uses = append(uses, ".")
		for _, x := range m.Ext {
			uses = append(uses, replTarget(x.Dir))
		}
	}
	sort.Strings(uses[1:])
	var b strings.Builder
	fmt.Fprintf(&b, "go %s\n\nuse (\n", gv)
	for _, u := range uses {
		fmt.Fprintf(&b, "\t%s\n", u)
	}
	b.WriteString(")\n")
	return rel, b.String()
}

func (m *Module) writeWork(root string) error {
	rel, content := m.WorkFile(filepath.Base(root))
	if rel == "" {
		return nil
	}
	return os.WriteFile(filepath.Join(root, filepath.FromSlash(rel)), []byte(content), 0o644)
}

// workspaceEnv: the parent's environment without GOFLAGS (bin/check exports -mod=mod, which the go command rejects in
// workspace mode) and without GOWORK (so that go.work is found by walking up from the working directory).
func workspaceEnv(env []string) []string {
	var out []string
	for _, kv := range env {
		if strings.HasPrefix(kv, "GOFLAGS=") || strings.HasPrefix(kv, "GOWORK=") {
			continue
		}
		out = append(out, kv)
	}
	return append(out, "GOFLAGS=", "GOWORK=")
}

// MakeWorkspace turns a scenario with external modules (AddForeign) into a go.work workspace of 2-3 member modules:
// go.work in the module root or above it; in half of the cases the go.mod files carry no require / replace lines at all;
// with two other members, one of them sometimes imports the other (a chain main -> B -> C), and a member that nobody
// of the main module imports stays in the workspace as well.
func MakeWorkspace(r *core.RNG, sc *Scenario) {
	m := &sc.Module
	if len(m.Ext) == 0 {
		return
	}
	m.Work = core.Pick(r, []WorkMode{"root", "root", "parent"})
	m.WorkOnly = r.Chance(50)
	if len(m.Ext) > 1 && m.WorkOnly && r.Chance(50) {
		// B -> C: only the workspace can resolve this import (B's go.mod does not require C)
		b, c := &m.Ext[0], &m.Ext[1]
		if len(b.Pkgs) > 0 && len(c.Pkgs) > 0 && !strings.HasPrefix(c.ModPath, b.ModPath+"/") {
			b.Pkgs[0].XImports = append(b.Pkgs[0].XImports, c.PkgPath(c.Pkgs[0].Dir))
		}
	}
}

// entryDir: the directory (relative to the main module's root, slash separated, "" = that root) an entrypoint pattern
// names: ".", "./d", "./d/...", "../x", "../x/d/...".
func entryDir(e string) string {
	e = strings.TrimSuffix(strings.TrimSuffix(e, "..."), "/")
	if e = strings.TrimPrefix(e, "./"); e == "." {
		e = ""
	}
	return e
}

// RunModule decides from the scenario alone in which member the entrypoints lie: nil, true = the module the run was
// started in; x, true = the other member x (its directory is a path prefix of every entrypoint's directory; possible
// in a workspace only); _, false = the entrypoints name packages of more than one module.
func (sc *Scenario) RunModule() (*ExtMod, bool) {
	var run *ExtMod
	for i, e := range sc.Entry {
		d := entryDir(e)
		var best *ExtMod
		for xi := range sc.Module.Ext {
			x := &sc.Module.Ext[xi]
			if d == x.Dir || strings.HasPrefix(d, x.Dir+"/") {
				if best == nil || len(x.Dir) > len(best.Dir) {
					best = x
				}
			}
		}
		if i > 0 && best != run {
			return nil, false
		}
		run = best
	}
	return run, true
}

// RunWorld is OwnWorld for scenarios whose entrypoints may name packages of another workspace member: the packages of
// the run are the packages of the module the entrypoints lie in (RunModule; by the go.mod files of the scenario, longest
// module path prefix), gengo.sum belongs into THAT module's root.  Second result: the packages the loader listed as
// local although they belong to another module.
func RunWorld(w *World, sc *Scenario) (*World, []string) {
	run, ok := sc.RunModule()
	if run == nil || !ok {
		return OwnWorld(w, &sc.Module)
	}
	c := *w
	c.Pkgs = nil
	c.RunRoot = run.Dir
	var foreign []string
	for _, p := range w.Pkgs {
		if x := sc.Module.ExtOf(p.Path); x == nil || x.ModPath != run.ModPath {
			foreign = append(foreign, p.Path)
			continue
		}
		c.Pkgs = append(c.Pkgs, p)
	}
	sort.Strings(foreign)
	return &c, foreign
}

// EnterMember moves the entrypoints of a workspace scenario into another member: one or two of its packages by relative
// directory ("./api", "../mkit/sub") or the whole member ("./api/...").
func EnterMember(r *core.RNG, sc *Scenario) {
	m := &sc.Module
	if m.Work == "" || len(m.Ext) == 0 {
		return
	}
	x := m.Ext[r.Intn(len(m.Ext))]
	for _, y := range m.Ext { // not a member that contains another member's directory (its "..." would stop there anyway)
		if y.Dir != x.Dir && strings.HasPrefix(y.Dir, x.Dir+"/") {
			return
		}
	}
	rel := func(d string) string {
		p := replTarget(x.Dir)
		if d != "" {
			p += "/" + d
		}
		return p
	}
	if r.Chance(35) {
		sc.Entry = []string{rel("") + "/..."}
		return
	}
	sc.Entry = []string{rel(core.Pick(r, x.Pkgs).Dir)}
	if r.Chance(30) {
		if e := rel(core.Pick(r, x.Pkgs).Dir); e != sc.Entry[0] {
			sc.Entry = append(sc.Entry, e)
		}
	}
}
