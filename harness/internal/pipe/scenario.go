package pipe

import (
	"encoding/json"
	"fmt"
	"sort"
	"strings"

	"verifharness/internal/core"
)

// Scenario is one Execute call on one synthetic module (the JSON input of C07 and C02 cases).
type Scenario struct {
	Module Module   `json:"module"`
	Entry  []string `json:"entry"`
	All    bool     `json:"all"`
	Force  bool     `json:"force,omitempty"`
	Base   string   `json:"base"`
	Gens   []Gen    `json:"gens"`
	// Globals: GeneratorArgs.Globals.  Only bare enabling tags are used ("gengo:<g>": [""] = g is enabled for every
	// type of every package).  GlobalsSet: pass a non-nil (possibly empty) map.
	Globals    map[string][]string `json:"globals,omitempty"`
	GlobalsSet bool                `json:"globals_set,omitempty"`
}

type Opts struct {
	FaultShare int  // percent of scenarios that contain a failing step (error / unparseable / death)
	Faults     bool // allow failing steps at all
}

var (
	dirsPool = []string{"", "a", "b", "a/sub", "c"}
	genPool  = []string{"g1", "g2", "al", "deep"}
	basePool = []string{"zz_generated", "zz_generated", "zz_generated", "gen", "gengo", "zz.gen"}
	okBodies = []string{
		"var V_{g}_{t} = 1\n", "func F_{g}_{t}() {}\n", "// only a comment {g} {t}\n", "\n",
		"type X_{g}_{t} struct{\nA int\n   B string}\n", "const C_{g}_{t} = \"x\"\n\n\nvar _ = C_{g}_{t}\n",
	}
	badBodies = []string{"func (\n", "var = 1\n", "}\n", "type {g}_{t} struct {\n", "package other\n"}
)

func fill(tpl, g, t string) string {
	return strings.ReplaceAll(strings.ReplaceAll(tpl, "{g}", g), "{t}", t)
}

func pkgName(dir string) string {
	if dir == "" {
		return "root"
	}
	return strings.ReplaceAll(dir[strings.LastIndex(dir, "/")+1:], "-", "_")
}

func goFile(pkg, note string) string { return fmt.Sprintf("package %s\n\n// %s\n", pkg, note) }

// RandScenario draws a module, an entry selection and scripted generators.
func RandScenario(r *core.RNG, o Opts) Scenario {
	var sc Scenario
	sc.Base = core.Pick(r, basePool)
	sc.All = r.Chance(55)
	sc.Force = r.Chance(15)
	m := &sc.Module
	m.ModPath = core.Pick(r, []string{"example.com/m", "example.com/x/y", "m.test/mod"})
	m.GoVer = core.Pick(r, []string{"1.22", "1.22", "1.21", "1.23"})

	// packages
	nd := 1 + r.Intn(4)
	perm := append([]string{}, dirsPool...)
	for i := range perm {
		j := i + r.Intn(len(perm)-i)
		perm[i], perm[j] = perm[j], perm[i]
	}
	dirs := perm[:nd]
	sort.Strings(dirs)
	ngen := 1 + r.Intn(3)
	names := append([]string{}, genPool[:ngen]...)
	if r.Chance(30) { // names that are prefixes of one another / of the stale file names
		names[0] = "g"
	}
	for i, d := range dirs {
		p := Pkg{Dir: d, Name: pkgName(d)}
		for _, d2 := range dirs[i+1:] { // imports only "forwards": acyclic
			if r.Chance(35) {
				p.Imports = append(p.Imports, d2)
			}
		}
		nt := r.Intn(4)
		for k := 0; k < nt; k++ {
			t := Type{Name: fmt.Sprintf("T%d", k)}
			if r.Chance(30) {
				t.Alias = core.Pick(r, []string{"int", "string", "[]byte", "struct{ A int }"})
				t.Name = fmt.Sprintf("U%d", k)
			}
			for _, g := range names {
				switch {
				case r.Chance(65):
					t.Enabled = append(t.Enabled, g)
				case r.Chance(20): // written "+gengo:<g>=false": the tag is there, the generator is off
					t.Enabled = append(t.Enabled, g+"=false")
				case r.Chance(20): // only a sub-option "+gengo:<g>:opt=1": enables <g>
					t.Enabled = append(t.Enabled, g+":opt=1")
				case r.Chance(10): // "+gengo:<g>=false" together with a sub-option: off
					t.Enabled = append(t.Enabled, g+"=false", g+":opt")
				}
			}
			p.Types = append(p.Types, t)
		}
		m.Pkgs = append(m.Pkgs, p)
	}

	// pre-existing files
	add := func(path, content string) { m.Files = append(m.Files, File{Path: path, Content: content}) }
	join := func(d, f string) string {
		if d == "" {
			return f
		}
		return d + "/" + f
	}
	for _, p := range m.Pkgs {
		for _, g := range names { // previous outputs of the generators of this run
			if r.Chance(50) {
				add(join(p.Dir, sc.Base+"."+g+".go"), goFile(p.Name, "previous output of "+g))
			}
		}
		if r.Chance(45) { // stale outputs of generators no longer run
			add(join(p.Dir, sc.Base+".old.go"), goFile(p.Name, "stale output"))
		}
		if r.Chance(20) {
			add(join(p.Dir, sc.Base+"."+names[0]+"x.go"), goFile(p.Name, "stale output, name extends a generator's"))
		}
		if r.Chance(40) { // look-alike names
			add(join(p.Dir, sc.Base+"x.go"), goFile(p.Name, "look-alike x"))
		}
		if r.Chance(30) {
			add(join(p.Dir, sc.Base+"_y.go"), goFile(p.Name, "look-alike _y"))
		}
		if r.Chance(30) {
			add(join(p.Dir, sc.Base+".go"), goFile(p.Name, "look-alike bare"))
		}
		if r.Chance(30) { // non-Go and build-ignored <base>.* files
			add(join(p.Dir, sc.Base+".txt"), "not go\n")
		}
		if r.Chance(20) {
			add(join(p.Dir, sc.Base+"."+names[0]+".go.bak"), "backup\n")
		}
		if r.Chance(20) {
			add(join(p.Dir, sc.Base+".ign.go"), "//go:build ignore\n\npackage "+p.Name+"\n")
		}
		if r.Chance(30) {
			add(join(p.Dir, "user.go"), goFile(p.Name, "user file"))
		}
	}
	if r.Chance(50) {
		add("README.md", "# readme\n")
	}
	if r.Chance(40) {
		add("data/"+sc.Base+".g1.go.txt", "data\n")
	}
	if r.Chance(30) { // a package of the module nobody selects or imports
		add("lonely/lonely.go", "package lonely\n\n// +gengo:g1\ntype L struct{}\n")
		add("lonely/"+sc.Base+".g1.go", goFile("lonely", "output in an unselected package"))
	}

	// selection
	switch k := r.Intn(10); {
	case k < 4:
		sc.Entry = []string{"./..."}
	case k < 8:
		sc.Entry = []string{"./" + core.Pick(r, dirs)}
	default:
		sc.Entry = []string{"./" + core.Pick(r, dirs), "./" + core.Pick(r, dirs)}
		if sc.Entry[0] == sc.Entry[1] {
			sc.Entry = sc.Entry[:1]
		}
	}
	for i, e := range sc.Entry {
		if e == "./" {
			sc.Entry[i] = "."
		}
	}

	// gengo.sum before the run
	if r.Chance(45) {
		m.HasSum = true
		for _, d := range dirs {
			if r.Chance(50) {
				m.SumFor = append(m.SumFor, d)
			}
		}
		if r.Chance(30) {
			m.SumJunk = core.Pick(r, []string{"garbage\n", m.ModPath + " h1:stale=\n", "\n\n", "a b c d\n", "x"})
		}
	}

	// scripts
	faulty := o.Faults && r.Chance(o.FaultShare)
	badPkg := map[string]bool{}
	for gi, name := range names {
		g := Gen{Name: name, Alias: r.Chance(60), CustomNew: r.Chance(40), Steps: map[string]Step{}}
		_ = gi
		for _, p := range m.Pkgs {
			for _, t := range p.Types {
				on := false
				for _, e := range t.Enabled {
					on = on || e == name
				}
				if !on {
					continue
				}
				var st Step
				switch k := r.Intn(20); {
				case k < 9:
					st.Body = fill(core.Pick(r, okBodies), name, t.Name)
				case k < 12: // renders nothing
				case k < 14:
					st.Res = core.Pick(r, []string{"skip", "skipw"})
					if r.Chance(30) {
						st.Body = fill(okBodies[0], name, t.Name)
					}
				case k < 18:
					st.Res = core.Pick(r, []string{"ignore", "ignore", "ignorew"})
					if r.Chance(25) {
						st.Body = fill(okBodies[0], name, t.Name)
					}
				default:
					st.Body = fill(okBodies[0], name, t.Name)
					st.Count = r.Bool()
					st.Helper = r.Bool()
				}
				if r.Chance(15) {
					d := DeferStep{Body: core.Pick(r, []string{"", fill("var D_{g}_{t} = 2\n", name, t.Name)})}
					if r.Chance(40) { // a callback that registers callbacks: gengo runs them too (index loop over c.defers)
						d.Nested = append(d.Nested, DeferStep{Body: fill("var DN_{g}_{t} = 3\n", name, t.Name)})
						if r.Chance(40) {
							d.Nested = append(d.Nested, DeferStep{Nested: []DeferStep{{Body: fill("var DNN_{g}_{t} = 4\n", name, t.Name)}}})
						}
					}
					st.Defers = append(st.Defers, d)
				}
				if faulty && r.Chance(25) {
					switch k := r.Intn(8); {
					case k < 3:
						st.Res = "err"
					case k < 5:
						if !badPkg[p.Dir] {
							badPkg[p.Dir] = true
							st.Body, st.Res, st.Count, st.Helper = fill(core.Pick(r, badBodies), name, t.Name), "", false, false
						}
					case k < 6:
						st.Res = core.Pick(r, []string{"exit", "kill", "panic"})
					case k < 7:
						st.Defers = append(st.Defers, DeferStep{Res: core.Pick(r, []string{"err", "skip", "ignore"})})
					default:
						st.Defers = append(st.Defers, DeferStep{Res: core.Pick(r, []string{"exit", "kill"})})
					}
				}
				g.Steps[m.PkgPath(p.Dir)+" "+t.Name] = st
			}
		}
		sc.Gens = append(sc.Gens, g)
	}
	return sc
}

func clone(sc Scenario) Scenario {
	b, _ := json.Marshal(sc)
	var c Scenario
	_ = json.Unmarshal(b, &c)
	return c
}

// ShrinkScenario: strictly smaller candidates.
func ShrinkScenario(sc Scenario) []Scenario {
	var out []Scenario
	out = append(out, shrinkExt(sc)...)
	// drop a package nobody imports and no entry names
	for i, p := range sc.Module.Pkgs {
		used := false
		for _, q := range sc.Module.Pkgs {
			for _, im := range q.Imports {
				used = used || im == p.Dir
			}
		}
		for _, e := range sc.Entry {
			used = used || e == "./"+p.Dir || (p.Dir == "" && e == ".")
		}
		if used || len(sc.Module.Pkgs) == 1 {
			continue
		}
		c := clone(sc)
		c.Module.Pkgs = append(c.Module.Pkgs[:i], c.Module.Pkgs[i+1:]...)
		var files []File
		for _, f := range c.Module.Files {
			d, _ := splitPath(f.Path)
			if d != p.Dir {
				files = append(files, f)
			}
		}
		c.Module.Files = files
		var sf []string
		for _, d := range c.Module.SumFor {
			if d != p.Dir {
				sf = append(sf, d)
			}
		}
		c.Module.SumFor = sf
		out = append(out, c)
	}
	for i := range sc.Module.Files {
		c := clone(sc)
		c.Module.Files = append(c.Module.Files[:i], c.Module.Files[i+1:]...)
		out = append(out, c)
	}
	for i := range sc.Gens {
		if len(sc.Gens) > 1 {
			c := clone(sc)
			c.Gens = append(c.Gens[:i], c.Gens[i+1:]...)
			out = append(out, c)
		}
		for k, st := range sc.Gens[i].Steps {
			c := clone(sc)
			delete(c.Gens[i].Steps, k)
			out = append(out, c)
			if len(st.Defers) > 0 {
				c := clone(sc)
				s2 := c.Gens[i].Steps[k]
				s2.Defers = s2.Defers[:len(s2.Defers)-1]
				c.Gens[i].Steps[k] = s2
				out = append(out, c)
			}
			if st.Count || st.Helper {
				c := clone(sc)
				s2 := c.Gens[i].Steps[k]
				s2.Count, s2.Helper = false, false
				c.Gens[i].Steps[k] = s2
				out = append(out, c)
			}
		}
		if sc.Gens[i].CustomNew {
			c := clone(sc)
			c.Gens[i].CustomNew = false
			out = append(out, c)
		}
		if sc.Gens[i].Kind != "" {
			c := clone(sc)
			c.Gens[i].Kind = ""
			out = append(out, c)
		}
		if sc.Gens[i].Proto {
			c := clone(sc)
			c.Gens[i].Proto = false
			out = append(out, c)
		}
	}
	for pi, p := range sc.Module.Pkgs {
		for ti := range p.Types {
			c := clone(sc)
			ts := c.Module.Pkgs[pi].Types
			c.Module.Pkgs[pi].Types = append(ts[:ti], ts[ti+1:]...)
			out = append(out, c)
		}
		if len(p.Imports) > 0 {
			c := clone(sc)
			c.Module.Pkgs[pi].Imports = nil
			out = append(out, c)
		}
		// further declarations (probe.go): every other function, then one declaration at a time, last first (a candidate
		// that no longer compiles does not start and is not kept)
		if len(p.Decls) > 5 {
			for _, odd := range []bool{true, false} {
				c := clone(sc)
				var kept []string
				k := 0
				for _, d := range p.Decls {
					if strings.HasPrefix(d, "func ") {
						if k++; (k%2 == 1) == odd {
							continue
						}
					}
					kept = append(kept, d)
				}
				c.Module.Pkgs[pi].Decls = kept
				out = append(out, c)
			}
		}
		for di := len(p.Decls) - 1; di >= 0; di-- {
			c := clone(sc)
			ds := c.Module.Pkgs[pi].Decls
			c.Module.Pkgs[pi].Decls = append(ds[:di:di], ds[di+1:]...)
			out = append(out, c)
		}
		for ii := range p.GoImports {
			c := clone(sc)
			is := c.Module.Pkgs[pi].GoImports
			c.Module.Pkgs[pi].GoImports = append(is[:ii:ii], is[ii+1:]...)
			out = append(out, c)
		}
	}
	if sc.Module.HasSum {
		c := clone(sc)
		c.Module.HasSum, c.Module.SumFor, c.Module.SumJunk = false, nil, ""
		out = append(out, c)
	}
	if sc.Force {
		c := clone(sc)
		c.Force = false
		out = append(out, c)
	}
	if len(sc.Globals) > 0 {
		c := clone(sc)
		c.Globals, c.GlobalsSet = nil, true
		out = append(out, c)
	} else if sc.GlobalsSet {
		c := clone(sc)
		c.GlobalsSet = false
		out = append(out, c)
	}
	for pi, p := range sc.Module.Pkgs {
		if len(p.DocTags) > 0 {
			c := clone(sc)
			c.Module.Pkgs[pi].DocTags = p.DocTags[:len(p.DocTags)-1]
			out = append(out, c)
		}
	}
	return out
}

// Requested reports whether the package in directory dir (relative to the module root, "" = root) is matched by one of
// the entrypoint patterns (".", "./d", "./...", "./d/...") — decided from the scenario alone, without gengo's loader.
func Requested(entry []string, dir string) bool {
	for _, e := range entry {
		if e = strings.TrimPrefix(e, "./"); e == "." {
			e = ""
		}
		switch {
		case e == "...":
			return true
		case strings.HasSuffix(e, "/..."):
			if d := strings.TrimSuffix(e, "/..."); dir == d || strings.HasPrefix(dir, d+"/") {
				return true
			}
		case e == dir:
			return true
		}
	}
	return false
}

// RequestedWorld returns a copy of the world in which "direct" is what the scenario's entrypoints request (Requested)
// instead of what gengo's loader reported, and the paths of the packages on which the two disagree.
func RequestedWorld(w *World, entry []string) (*World, []string) {
	c := *w
	c.Pkgs = append([]WPkg{}, w.Pkgs...)
	var diff []string
	for i := range c.Pkgs {
		want := Requested(entry, c.Pkgs[i].Dir)
		if want != c.Pkgs[i].Direct {
			diff = append(diff, c.Pkgs[i].Path)
		}
		c.Pkgs[i].Direct = want
	}
	sort.Strings(diff)
	return &c, diff
}

// InheritTags completes the per-type "enabled" lists of the world (which LoadWorld fills from the tags on the
// declaration alone) with the tags the declaration inherits by the documented rule globals < package doc < declaration:
// a generator named in the scenario's Globals is enabled for every type, one named in a package's DocTags for every type
// of that package — and of no other.  Computed from the scenario, not by gengo's merge.
func InheritTags(w *World, sc Scenario) {
	if w == nil {
		return
	}
	docTags := map[string][]string{}
	some := len(sc.Globals) > 0
	for _, p := range sc.Module.Pkgs {
		docTags[p.Dir] = p.DocTags
		some = some || len(p.DocTags) > 0
	}
	for _, x := range sc.Module.Ext { // a run whose entrypoints lie in another workspace member has that member's packages
		for _, p := range x.Pkgs {
			docTags[strings.TrimSuffix(x.Dir+"/"+p.Dir, "/")] = p.DocTags
			some = some || len(p.DocTags) > 0
		}
	}
	if !some {
		return
	}
	// the world's types carry the gengo:* tags of the declaration (LoadWorld); the model decides "enabled" from the
	// merged tags [globals; package doc; declaration] and the case files pass no globals / package tags of their own, so
	// the inherited tags are merged in here, by the documented precedence (declaration over package over global)
	for pi := range w.Pkgs {
		for ti := range w.Pkgs[pi].Types {
			t := &w.Pkgs[pi].Types[ti]
			merged := map[string][]string{}
			for k, v := range sc.Globals {
				if strings.HasPrefix(k, "gengo:") {
					merged[k] = append([]string{}, v...)
				}
			}
			for _, d := range docTags[w.Pkgs[pi].Dir] {
				merged["gengo:"+d] = []string{""}
			}
			for k, v := range t.Tags {
				merged[k] = v
			}
			if len(merged) > 0 {
				t.Tags = merged
			}
		}
	}
}

// Observation of one scenario run, ready for the case files.
type Observation struct {
	Before, After Tree
	Run           RunResult
}

// RunScenario materialises the module in scratch/m, snapshots, runs Execute in a fresh child, snapshots again.
func RunScenario(sc Scenario, scratch string, wrapper ...string) (*Observation, error) {
	root := scratch + "/m"
	if err := sc.Module.Materialise(root); err != nil {
		return nil, err
	}
	before, err := SnapshotModule(root, &sc.Module)
	if err != nil {
		return nil, err
	}
	job := Job{Dir: root, Entry: sc.Entry, All: sc.All, Force: sc.Force, Base: sc.Base, Gens: sc.Gens, Out: scratch + "/run",
		Globals: sc.Globals, GlobalsSet: sc.GlobalsSet, Work: sc.Module.Work != ""}
	rr := RunChild(job, scratch, wrapper...)
	InheritTags(rr.World, sc)
	after, err := SnapshotModule(root, &sc.Module)
	if err != nil {
		return nil, err
	}
	return &Observation{Before: before, After: after, Run: rr}, nil
}

// CoqRunFields renders "all force base world gens fmt before after trace outcome" (the fields every pipeline case starts with).
func (o *Observation) CoqRunFields(sc Scenario) string {
	tbl, _ := FmtTable(o.Run.World, o.Run.Events)
	return strings.Join([]string{core.CoqBool(sc.All), core.CoqBool(sc.Force), core.Hex(sc.Base), CoqWorld(o.Run.World),
		CoqGens(sc.Gens), tbl, CoqTree(o.Before), CoqTree(o.After), CoqEvents(o.Run.Events), o.Run.CoqOutcome()}, "\n   ")
}

// Summary is the JSON-able observation.
type Summary struct {
	Outcome string            `json:"outcome"`
	Err     string            `json:"err,omitempty"`
	Exit    int               `json:"exit,omitempty"`
	Signal  string            `json:"signal,omitempty"`
	Changed map[string]string `json:"changed"` // path -> created|removed|rewritten
	Calls   int               `json:"calls"`
}

func (o *Observation) Summary() Summary {
	s := Summary{Changed: map[string]string{}, Calls: len(o.Run.Events), Exit: o.Run.ExitCode, Signal: o.Run.Signal}
	if o.Run.Result == nil {
		s.Outcome = "died"
	} else {
		s.Outcome = o.Run.Result.Class
		s.Err = o.Run.Result.Err
		if o.Run.Result.NewContextErr != "" {
			s.Outcome, s.Err = "load-error", o.Run.Result.NewContextErr
		}
	}
	for p, b := range o.Before {
		a, ok := o.After[p]
		if !ok {
			s.Changed[p] = "removed"
		} else if string(a) != string(b) {
			s.Changed[p] = "rewritten"
		}
	}
	for p := range o.After {
		if _, ok := o.Before[p]; !ok {
			s.Changed[p] = "created"
		}
	}
	return s
}
