package pipe

import (
	"bufio"
	"bytes"
	"encoding/json"
	"fmt"
	"os"
	"os/exec"
	"strings"
	"syscall"
	"time"
)

// StraceAvailable reports whether syscall-level fault injection can be used here.
func StraceAvailable() bool {
	_, err := exec.LookPath("strace")
	return err == nil
}

// RunChildKilledAt runs the job in a fresh process that stops after NewContext; strace is attached to exactly the
// Execute phase with "inject=write,openat,unlinkat:signal=SIGKILL:when=k" (the k-th such syscall of a thread kills
// the process before it is performed); then the child is released.  attached=false: the tracer could not attach.
func RunChildKilledAt(job Job, scratch string, k int) (rr RunResult, attached bool) {
	job.Gate = job.Out + ".gate"
	jobFile := job.Out + ".job.json"
	b, _ := json.Marshal(job)
	_ = os.WriteFile(jobFile, b, 0o644)
	cmd := exec.Command(vhExe, "pipe-child", jobFile)
	var stderr bytes.Buffer
	cmd.Stderr = &stderr
	cmd.Dir = scratch
	if err := cmd.Start(); err != nil {
		return rr, false
	}
	exited := make(chan error, 1)
	go func() { exited <- cmd.Wait() }()
	finish := func(err error) {
		if err != nil {
			if ee, ok := err.(*exec.ExitError); ok {
				rr.ExitCode = ee.ExitCode()
				if ws, ok := ee.Sys().(syscall.WaitStatus); ok && ws.Signaled() {
					rr.Signal = ws.Signal().String()
				}
			} else {
				rr.ExitCode = -1
			}
		}
		rr.Stderr = stderr.String()
		readOutputs(job, &rr)
	}
	// wait for the child to reach the gate (or to finish early: load error)
	ready := false
	deadline := time.Now().Add(60 * time.Second)
	for time.Now().Before(deadline) {
		if _, err := os.Stat(job.Out + ".ready"); err == nil {
			ready = true
			break
		}
		select {
		case err := <-exited:
			finish(err)
			return rr, true
		default:
		}
		time.Sleep(2 * time.Millisecond)
	}
	if !ready {
		_ = cmd.Process.Kill()
		finish(<-exited)
		rr.TimedOut = true
		return rr, false
	}
	st := exec.Command("strace", "-f", "-p", fmt.Sprint(cmd.Process.Pid), "-o", "/dev/null",
		"-e", "trace=write,openat,unlinkat", "-e", fmt.Sprintf("inject=write,openat,unlinkat:signal=SIGKILL:when=%d", k))
	pipeR, err := st.StderrPipe()
	if err == nil {
		err = st.Start()
	}
	if err != nil {
		_ = cmd.Process.Kill()
		finish(<-exited)
		return rr, false
	}
	att := make(chan bool, 1)
	go func() {
		sc := bufio.NewScanner(pipeR)
		seen := false
		for sc.Scan() {
			if !seen && strings.Contains(sc.Text(), "attached") {
				seen = true
				att <- true
			}
		}
		if !seen {
			att <- false
		}
	}()
	select {
	case attached = <-att:
	case <-time.After(15 * time.Second):
	}
	if !attached {
		_ = st.Process.Kill()
		_ = cmd.Process.Kill()
		finish(<-exited)
		_ = st.Wait()
		return rr, false
	}
	_ = os.WriteFile(job.Gate, []byte("go"), 0o644)
	select {
	case err := <-exited:
		finish(err)
	case <-time.After(120 * time.Second):
		_ = cmd.Process.Kill()
		finish(<-exited)
		rr.TimedOut = true
	}
	done := make(chan struct{})
	go func() { _ = st.Wait(); close(done) }()
	select {
	case <-done:
	case <-time.After(5 * time.Second):
		_ = st.Process.Kill()
	}
	return rr, true
}
