package pipe

// Generator prototypes whose underlying type is not a struct (Gen.Kind): the value itself is the state.
//
//	map:   type seen map[string]bool  — the "already processed" set; the call counter is its size, the "helper emitted"
//	       flag one more key
//	slice: type seen []string         — the processed (package, type) pairs in call order, the flag one more element
//	int:   type calls int             — counter << 1 | flag
//
// All have pointer receivers and are registered as a pointer to a non-nil empty value (&seen{}, new(calls)); without a
// custom New gengo creates the per-package instance with reflect.New of the type, i.e. a pointer to a zero value (nil
// map, nil slice, 0), which the methods fill lazily.  On code that really gives every package a fresh instance they
// behave exactly like the struct generators with value fields: same script, same model.  With CustomNew only the map
// kind has its own shape (New returns a pointer to a fresh empty map); slice / int fall back to the struct `newer`.
// One Go type per registration slot (the name cannot live in the value): a phantom type parameter selects the slot.

import (
	"go/types"

	"github.com/octohelm/gengo/pkg/gengo"
)

// Kinds: the non-struct underlying kinds of Gen.Kind.
var Kinds = []string{"map", "slice", "int"}

type slotTag interface{ idx() int }
type (
	tag0 struct{}
	tag1 struct{}
	tag2 struct{}
	tag3 struct{}
)

func (tag0) idx() int { return 0 }
func (tag1) idx() int { return 1 }
func (tag2) idx() int { return 2 }
func (tag3) idx() int { return 3 }

func slotName[S slotTag]() string { var s S; return slotNames[s.idx()] }

const helperKey = "\x00helper"

// through: run the scripted call with the bookkeeping read from / written back to the non-struct value
func through(count int, helper bool, name string, c gengo.Context, pkg, ty string) (bool, error) {
	st := state{count: count, helper: helper}
	err := st.call(name, c, pkg, ty)
	return st.helper, err
}

func mapCall(m *map[string]bool, name string, c gengo.Context, pkg, ty string) error {
	if *m == nil {
		*m = map[string]bool{}
	}
	n := len(*m)
	if (*m)[helperKey] {
		n--
	}
	(*m)[pkg+" "+ty] = true
	h, err := through(n, (*m)[helperKey], name, c, pkg, ty)
	if h {
		(*m)[helperKey] = true
	}
	return err
}

func sliceCall(s *[]string, name string, c gengo.Context, pkg, ty string) error {
	n, helper := 0, false
	for _, e := range *s {
		if e == helperKey {
			helper = true
		} else {
			n++
		}
	}
	*s = append(*s, pkg+" "+ty)
	h, err := through(n, helper, name, c, pkg, ty)
	if h && !helper {
		*s = append(*s, helperKey)
	}
	return err
}

func intCall(i *int, name string, c gengo.Context, pkg, ty string) error {
	n, helper := *i>>1, *i&1 == 1
	h, err := through(n, helper, name, c, pkg, ty)
	*i = (n + 1) << 1
	if h {
		*i |= 1
	}
	return err
}

func at(n interface{ Obj() *types.TypeName }) (string, string) {
	return n.Obj().Pkg().Path(), n.Obj().Name()
}

// ---- map
type mslot[S slotTag] map[string]bool

func (*mslot[S]) Name() string { return slotName[S]() }
func (g *mslot[S]) GenerateType(c gengo.Context, n *types.Named) error {
	pkg, ty := at(n)
	return mapCall((*map[string]bool)(g), slotName[S](), c, pkg, ty)
}

type amslot[S slotTag] map[string]bool

func (*amslot[S]) Name() string { return slotName[S]() }
func (g *amslot[S]) GenerateType(c gengo.Context, n *types.Named) error {
	pkg, ty := at(n)
	return mapCall((*map[string]bool)(g), slotName[S](), c, pkg, ty)
}
func (g *amslot[S]) GenerateAliasType(c gengo.Context, n *types.Alias) error {
	pkg, ty := at(n)
	return mapCall((*map[string]bool)(g), slotName[S](), c, pkg, ty)
}

// map with a custom New
type nmslot[S slotTag] map[string]bool

func (*nmslot[S]) Name() string                      { return slotName[S]() }
func (*nmslot[S]) New(gengo.Context) gengo.Generator { return &nmslot[S]{} }
func (g *nmslot[S]) GenerateType(c gengo.Context, n *types.Named) error {
	pkg, ty := at(n)
	return mapCall((*map[string]bool)(g), slotName[S](), c, pkg, ty)
}

type anmslot[S slotTag] map[string]bool

func (*anmslot[S]) Name() string                      { return slotName[S]() }
func (*anmslot[S]) New(gengo.Context) gengo.Generator { return &anmslot[S]{} }
func (g *anmslot[S]) GenerateType(c gengo.Context, n *types.Named) error {
	pkg, ty := at(n)
	return mapCall((*map[string]bool)(g), slotName[S](), c, pkg, ty)
}
func (g *anmslot[S]) GenerateAliasType(c gengo.Context, n *types.Alias) error {
	pkg, ty := at(n)
	return mapCall((*map[string]bool)(g), slotName[S](), c, pkg, ty)
}

// ---- slice
type sslot[S slotTag] []string

func (*sslot[S]) Name() string { return slotName[S]() }
func (g *sslot[S]) GenerateType(c gengo.Context, n *types.Named) error {
	pkg, ty := at(n)
	return sliceCall((*[]string)(g), slotName[S](), c, pkg, ty)
}

type asslot[S slotTag] []string

func (*asslot[S]) Name() string { return slotName[S]() }
func (g *asslot[S]) GenerateType(c gengo.Context, n *types.Named) error {
	pkg, ty := at(n)
	return sliceCall((*[]string)(g), slotName[S](), c, pkg, ty)
}
func (g *asslot[S]) GenerateAliasType(c gengo.Context, n *types.Alias) error {
	pkg, ty := at(n)
	return sliceCall((*[]string)(g), slotName[S](), c, pkg, ty)
}

// ---- int
type islot[S slotTag] int

func (*islot[S]) Name() string { return slotName[S]() }
func (g *islot[S]) GenerateType(c gengo.Context, n *types.Named) error {
	pkg, ty := at(n)
	return intCall((*int)(g), slotName[S](), c, pkg, ty)
}

type aislot[S slotTag] int

func (*aislot[S]) Name() string { return slotName[S]() }
func (g *aislot[S]) GenerateType(c gengo.Context, n *types.Named) error {
	pkg, ty := at(n)
	return intCall((*int)(g), slotName[S](), c, pkg, ty)
}
func (g *aislot[S]) GenerateAliasType(c gengo.Context, n *types.Alias) error {
	pkg, ty := at(n)
	return intCall((*int)(g), slotName[S](), c, pkg, ty)
}

func kindProto[S slotTag](g Gen) gengo.Generator {
	switch {
	case g.CustomNew && g.Alias:
		return &anmslot[S]{}
	case g.CustomNew:
		return &nmslot[S]{}
	case g.Kind == "map" && g.Alias:
		return &amslot[S]{}
	case g.Kind == "map":
		return &mslot[S]{}
	case g.Kind == "slice" && g.Alias:
		return &asslot[S]{}
	case g.Kind == "slice":
		return &sslot[S]{}
	case g.Alias:
		return new(aislot[S])
	}
	return new(islot[S])
}

// kindPrototype: the value registered for slot i of a generator with Gen.Kind (nil: not one of these shapes).
func kindPrototype(i int, g Gen) gengo.Generator {
	known := false
	for _, k := range Kinds {
		known = known || g.Kind == k
	}
	if !known || (g.CustomNew && g.Kind != "map") {
		return nil
	}
	slotNames[i] = g.Name
	switch i {
	case 0:
		return kindProto[tag0](g)
	case 1:
		return kindProto[tag1](g)
	case 2:
		return kindProto[tag2](g)
	}
	return kindProto[tag3](g)
}
