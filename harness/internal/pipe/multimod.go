package pipe

import (
	"fmt"
	"os"
	"path/filepath"
	"sort"
	"strings"

	"verifharness/internal/core"
)

// ExtMod is another module on disk that the scenario's (main) module requires and reaches through a `replace`
// directive pointing at a directory: a nested module of a multi-module repository (Dir "api": a sub-directory with its
// own go.mod, which the go command excludes from the main module) or a sibling checkout (Dir "../mkit").
// Its packages are ordinary dependencies of the main module.  They are part of the run only if an entrypoint names one
// of them by import path (then that module is a root of the run as well).
type ExtMod struct {
	Dir     string `json:"dir"` // relative to the main module's root, slash separated
	ModPath string `json:"modpath"`
	GoVer   string `json:"gover"` // never newer than the main module's (the go command would raise the main go directive)
	Pkgs    []Pkg  `json:"pkgs"`
	Files   []File `json:"files,omitempty"`
}

func (x *ExtMod) PkgPath(dir string) string {
	if dir == "" {
		return x.ModPath
	}
	return x.ModPath + "/" + dir
}

func pseudoVersion(modPath string) string {
	if i := strings.LastIndex(modPath, "/v"); i >= 0 {
		if n := modPath[i+2:]; n != "" && strings.Trim(n, "0123456789") == "" && n != "0" && n != "1" {
			return "v" + n + ".0.0"
		}
	}
	return "v0.0.0"
}

// requireBlock: the require / replace lines of the main go.mod, in the layout `go mod edit` leaves (so that the go
// command has no reason to rewrite the file).
func (m *Module) requireBlock() string {
	if len(m.Ext) == 0 || m.WorkNoRequire() {
		return ""
	}
	var b strings.Builder
	ext := append([]ExtMod{}, m.Ext...)
	sort.Slice(ext, func(i, j int) bool { return ext[i].ModPath < ext[j].ModPath })
	if len(ext) == 1 {
		fmt.Fprintf(&b, "\nrequire %s %s\n", ext[0].ModPath, pseudoVersion(ext[0].ModPath))
	} else {
		b.WriteString("\nrequire (\n")
		for _, x := range ext {
			fmt.Fprintf(&b, "\t%s %s\n", x.ModPath, pseudoVersion(x.ModPath))
		}
		b.WriteString(")\n")
	}
	if len(ext) == 1 {
		fmt.Fprintf(&b, "\nreplace %s => %s\n", ext[0].ModPath, replTarget(ext[0].Dir))
	} else {
		b.WriteString("\nreplace (\n")
		for _, x := range ext {
			fmt.Fprintf(&b, "\t%s => %s\n", x.ModPath, replTarget(x.Dir))
		}
		b.WriteString(")\n")
	}
	return b.String()
}

func replTarget(dir string) string {
	if strings.HasPrefix(dir, "../") {
		return dir
	}
	return "./" + dir
}

// SnapshotModule is Snapshot(root) plus the files of the sibling modules (Ext with Dir "../x"), keyed by their path
// relative to root ("../x/..."): the whole tree a run could reach through the module graph.
func SnapshotModule(root string, m *Module) (Tree, error) {
	t, err := Snapshot(root)
	if err != nil {
		return nil, err
	}
	if m.WorkPlace() == "parent" {
		if b, err := os.ReadFile(filepath.Join(root, "..", "go.work")); err == nil {
			t["../go.work"] = b
		}
	}
	for _, x := range m.Ext {
		if !strings.HasPrefix(x.Dir, "../") {
			continue
		}
		dir := filepath.Join(root, filepath.FromSlash(x.Dir))
		if _, err := os.Stat(dir); err != nil {
			continue
		}
		sub, err := Snapshot(dir)
		if err != nil {
			return nil, err
		}
		for p, b := range sub {
			t[x.Dir+"/"+p] = b
		}
	}
	return t, nil
}

// ExtOf returns the external module the import path belongs to (longest module path that is a path prefix), or nil for a
// package of the main module / of no module of the scenario.
func (m *Module) ExtOf(pkgPath string) *ExtMod {
	var best *ExtMod
	for i := range m.Ext {
		x := &m.Ext[i]
		if pkgPath == x.ModPath || strings.HasPrefix(pkgPath, x.ModPath+"/") {
			if best == nil || len(x.ModPath) > len(best.ModPath) {
				best = x
			}
		}
	}
	if best != nil && !(pkgPath == m.ModPath || strings.HasPrefix(pkgPath, m.ModPath+"/")) {
		return best
	}
	if best != nil && len(best.ModPath) > len(m.ModPath) {
		return best
	}
	return nil
}

// OwnWorld returns a copy of the world without the packages that belong — by the go.mod files of the SCENARIO — to
// another module than the one the run was started in, and their import paths.  When every entrypoint names a package
// of the main module, the packages of the run ("selected directly or through All") are packages of that module; which
// module a package belongs to is decided by the go command (longest module path prefix), not by gengo's loader, whose
// "local" flag is part of the code under test (pkg/types/load.go).
func OwnWorld(w *World, m *Module) (*World, []string) {
	if len(m.Ext) == 0 {
		return w, nil
	}
	c := *w
	c.Pkgs = nil
	var foreign []string
	for _, p := range w.Pkgs {
		if m.ExtOf(p.Path) != nil {
			foreign = append(foreign, p.Path)
			continue
		}
		c.Pkgs = append(c.Pkgs, p)
	}
	sort.Strings(foreign)
	return &c, foreign
}

type extLayout struct {
	dir, suffix, abs, name string // module path = main path + suffix, or abs
}

// the layouts: module paths that EXTEND the main module's path (at a slash: nested API module, major version; inside the
// last element: mkit, m-client) or are unrelated to it, each in a sub-directory of the main module or next to it.
var extLayouts = []extLayout{
	{dir: "api", suffix: "/api", name: "api"},
	{dir: "../api-checkout", suffix: "/api", name: "api"},
	{dir: "v2", suffix: "/v2", name: "mv2"},
	{dir: "../mkit", suffix: "kit", name: "mkit"},
	{dir: "../m-client", suffix: "-client", name: "client"},
	{dir: "tools/kit", suffix: "kit", name: "mkit"},
	{dir: "third_party/other", abs: "example.org/other", name: "other"},
	{dir: "../other", abs: "example.org/other", name: "other"},
}

// AddForeign adds one or two external modules to a scenario: tagged types (for the generators of the run), previous and
// stale <base>.* outputs, look-alikes, user files and (sometimes) a gengo.sum of their own; some packages of the main
// module import them; the generators' scripts render something for their types, too.  Everything in them must be
// byte-identical after every run whose entrypoints name packages of the main module only.
func AddForeign(r *core.RNG, sc *Scenario) {
	m := &sc.Module
	if len(m.Pkgs) == 0 {
		return
	}
	n := 1 + r.Intn(2)
	used := map[string]bool{}
	usedPath := map[string]bool{}
	for len(m.Ext) < n {
		l := core.Pick(r, extLayouts)
		path := l.abs
		if path == "" {
			path = m.ModPath + l.suffix
		}
		if used[l.dir] || usedPath[path] {
			continue
		}
		used[l.dir], usedPath[path] = true, true
		x := ExtMod{Dir: l.dir, ModPath: path, GoVer: core.Pick(r, []string{"1.21", "1.20", "1.16"})}
		dirs := []string{""}
		if r.Chance(40) {
			dirs = append(dirs, "sub")
		}
		if r.Chance(15) {
			dirs = dirs[1:] // no package at the module root
		}
		if len(dirs) == 0 {
			dirs = []string{""}
		}
		for _, d := range dirs {
			p := Pkg{Dir: d, Name: l.name}
			if d != "" {
				p.Name = d
			}
			nt := 1 + r.Intn(2)
			for k := 0; k < nt; k++ {
				t := Type{Name: fmt.Sprintf("X%d", k)}
				if r.Chance(25) {
					t.Name, t.Alias = fmt.Sprintf("XU%d", k), "int"
				}
				for _, g := range sc.Gens {
					switch {
					case r.Chance(75):
						t.Enabled = append(t.Enabled, g.Name)
					case r.Chance(30):
						t.Enabled = append(t.Enabled, g.Name+"=false")
					}
				}
				p.Types = append(p.Types, t)
			}
			if r.Chance(25) {
				for _, g := range sc.Gens {
					p.DocTags = append(p.DocTags, g.Name)
				}
			}
			x.Pkgs = append(x.Pkgs, p)
			join := func(f string) string {
				if d == "" {
					return f
				}
				return d + "/" + f
			}
			add := func(f, content string) { x.Files = append(x.Files, File{Path: join(f), Content: content}) }
			for _, g := range sc.Gens {
				if r.Chance(50) {
					add(sc.Base+"."+g.Name+".go", goFile(p.Name, "previous output of "+g.Name+" in another module"))
				}
			}
			if r.Chance(70) {
				add(sc.Base+".retired.go", goFile(p.Name, "stale output in another module"))
			}
			if r.Chance(30) {
				add(sc.Base+"x.go", goFile(p.Name, "look-alike x"))
			}
			if r.Chance(30) {
				add("user.go", goFile(p.Name, "user file"))
			}
		}
		if r.Chance(30) {
			x.Files = append(x.Files, File{Path: "gengo.sum", Content: x.ModPath + " h1:theirs=\n"})
		}
		if r.Chance(30) {
			x.Files = append(x.Files, File{Path: "README.md", Content: "# another module\n"})
		}
		m.Ext = append(m.Ext, x)
	}
	// who imports them: mostly at least one package of the main module
	for xi := range m.Ext {
		x := &m.Ext[xi]
		for _, xp := range x.Pkgs {
			if r.Chance(85) {
				pi := r.Intn(len(m.Pkgs))
				m.Pkgs[pi].XImports = append(m.Pkgs[pi].XImports, x.PkgPath(xp.Dir))
			}
			if r.Chance(20) {
				pi := r.Intn(len(m.Pkgs))
				if !containsStr(m.Pkgs[pi].XImports, x.PkgPath(xp.Dir)) {
					m.Pkgs[pi].XImports = append(m.Pkgs[pi].XImports, x.PkgPath(xp.Dir))
				}
			}
		}
	}
	// scripts for their types: if they were (wrongly) generated, something would be rendered
	for gi := range sc.Gens {
		g := &sc.Gens[gi]
		if g.Steps == nil {
			g.Steps = map[string]Step{}
		}
		for _, x := range m.Ext {
			for _, xp := range x.Pkgs {
				for _, t := range xp.Types {
					st := Step{Body: fill("var V_{g}_{t} = 1\n", g.Name, t.Name)}
					if r.Chance(20) {
						st = Step{Res: "ignore"}
					}
					g.Steps[x.PkgPath(xp.Dir)+" "+t.Name] = st
				}
			}
		}
	}
	if r.Chance(60) {
		sc.All = true
	}
}

func containsStr(l []string, s string) bool {
	for _, x := range l {
		if x == s {
			return true
		}
	}
	return false
}

// shrinkExt: drop an external module (with the imports of it and the scripts for it), one of its files, one of its types.
func shrinkExt(sc Scenario) []Scenario {
	var out []Scenario
	for xi, x := range sc.Module.Ext {
		c := clone(sc)
		c.Module.Ext = append(c.Module.Ext[:xi], c.Module.Ext[xi+1:]...)
		for pi := range c.Module.Pkgs {
			var keep []string
			for _, im := range c.Module.Pkgs[pi].XImports {
				if !(im == x.ModPath || strings.HasPrefix(im, x.ModPath+"/")) || c.Module.ExtOf(im) != nil {
					keep = append(keep, im)
				}
			}
			c.Module.Pkgs[pi].XImports = keep
		}
		for yi := range c.Module.Ext {
			for pi := range c.Module.Ext[yi].Pkgs {
				var keep []string
				for _, im := range c.Module.Ext[yi].Pkgs[pi].XImports {
					if !(im == x.ModPath || strings.HasPrefix(im, x.ModPath+"/")) || c.Module.ExtOf(im) != nil {
						keep = append(keep, im)
					}
				}
				c.Module.Ext[yi].Pkgs[pi].XImports = keep
			}
		}
		if run, _ := sc.RunModule(); run != nil && run.Dir == x.Dir {
			continue // the entrypoints lie in this member
		}
		for gi := range c.Gens {
			for k := range c.Gens[gi].Steps {
				pp := k[:strings.Index(k, " ")]
				if (pp == x.ModPath || strings.HasPrefix(pp, x.ModPath+"/")) && c.Module.ExtOf(pp) == nil {
					delete(c.Gens[gi].Steps, k)
				}
			}
		}
		out = append(out, c)
		for fi := range x.Files {
			c := clone(sc)
			fs := c.Module.Ext[xi].Files
			c.Module.Ext[xi].Files = append(fs[:fi], fs[fi+1:]...)
			out = append(out, c)
		}
		for pi, p := range x.Pkgs {
			for ti := range p.Types {
				c := clone(sc)
				ts := c.Module.Ext[xi].Pkgs[pi].Types
				c.Module.Ext[xi].Pkgs[pi].Types = append(ts[:ti], ts[ti+1:]...)
				out = append(out, c)
			}
			if len(p.DocTags) > 0 {
				c := clone(sc)
				c.Module.Ext[xi].Pkgs[pi].DocTags = nil
				out = append(out, c)
			}
			imported := false
			for _, q := range sc.Module.Pkgs {
				imported = imported || containsStr(q.XImports, x.PkgPath(p.Dir))
			}
			for _, y := range sc.Module.Ext { // members of a workspace import one another; packages of one member, too
				for _, q := range y.Pkgs {
					imported = imported || containsStr(q.XImports, x.PkgPath(p.Dir)) || (y.Dir == x.Dir && containsStr(q.Imports, p.Dir))
				}
			}
			for _, e := range sc.Entry {
				imported = imported || entryDir(e) == strings.TrimSuffix(x.Dir+"/"+p.Dir, "/")
			}
			if !imported && len(x.Pkgs) > 1 {
				c := clone(sc)
				ps := c.Module.Ext[xi].Pkgs
				c.Module.Ext[xi].Pkgs = append(ps[:pi], ps[pi+1:]...)
				var files []File
				for _, f := range c.Module.Ext[xi].Files {
					if d, _ := splitPath(f.Path); d != p.Dir || f.Path == "gengo.sum" || f.Path == "README.md" {
						files = append(files, f)
					}
				}
				c.Module.Ext[xi].Files = files
				out = append(out, c)
			}
		}
	}
	for pi, p := range sc.Module.Pkgs {
		for ii := range p.XImports {
			c := clone(sc)
			xs := c.Module.Pkgs[pi].XImports
			c.Module.Pkgs[pi].XImports = append(xs[:ii], xs[ii+1:]...)
			out = append(out, c)
		}
	}
	for xi, x := range sc.Module.Ext {
		for pi, p := range x.Pkgs {
			for ii := range p.XImports {
				c := clone(sc)
				xs := c.Module.Ext[xi].Pkgs[pi].XImports
				c.Module.Ext[xi].Pkgs[pi].XImports = append(xs[:ii], xs[ii+1:]...)
				out = append(out, c)
			}
			if len(p.Imports) > 0 {
				c := clone(sc)
				c.Module.Ext[xi].Pkgs[pi].Imports = nil
				out = append(out, c)
			}
		}
	}
	if sc.Module.Work != "" {
		if sc.Module.WorkPlace() == "parent" && sc.Module.Work != "auto" {
			c := clone(sc)
			c.Module.Work = "root"
			out = append(out, c)
		}
		if sc.Module.WorkOnly {
			c := clone(sc)
			c.Module.WorkOnly = false
			out = append(out, c)
		}
		if run, _ := sc.RunModule(); run == nil {
			ok := true
			for _, x := range sc.Module.Ext {
				for _, p := range x.Pkgs {
					ok = ok && len(p.XImports) == 0
				}
			}
			if ok { // the same modules without the workspace (require + replace)
				c := clone(sc)
				c.Module.Work, c.Module.WorkOnly = "", false
				out = append(out, c)
			}
		}
	}
	return out
}
