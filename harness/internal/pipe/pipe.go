// Package pipe is shared by the pipeline checks (C07, C05, C02): synthetic modules, scripted/recording
// generators run through the public gengo API in a fresh child process, tree snapshots, the independent
// reference formatter, and the Coq rendering of worlds / scripts / trees.
package pipe

import (
	"bytes"
	"context"
	"crypto/sha256"
	"encoding/hex"
	"encoding/json"
	"errors"
	"fmt"
	"go/ast"
	"go/format"
	"go/parser"
	"go/scanner"
	"go/token"
	"go/types"
	"os"
	"os/exec"
	"path/filepath"
	"regexp"
	"runtime"
	"sort"
	"strings"
	"syscall"
	"time"

	"github.com/octohelm/gengo/pkg/gengo"
	"github.com/octohelm/gengo/pkg/gengo/snippet"
	gtypes "github.com/octohelm/gengo/pkg/types"
	"golang.org/x/mod/sumdb/dirhash"
	gformat "mvdan.cc/gofumpt/format"

	"verifharness/internal/core"
)

// ---------- the synthetic module ----------

type Type struct {
	Name    string   `json:"name"`
	Alias   string   `json:"alias,omitempty"` // "" = defined struct type; otherwise the aliased type expression (e.g. "int", "q.B")
	Enabled []string `json:"enabled,omitempty"`
	Doc     []string `json:"doc,omitempty"` // doc comment lines above the tags (e.g. "T0 T0 is ..."); read back through Context.Doc
}

type Pkg struct {
	Dir     string   `json:"dir"` // relative to the module root, "" = root package
	Name    string   `json:"name"`
	Types   []Type   `json:"types,omitempty"`
	Imports []string `json:"imports,omitempty"` // dirs of packages of this module it imports
	// XImports: full import paths of packages of OTHER on-disk modules (Module.Ext) it imports
	XImports []string `json:"ximports,omitempty"`
	// DocTags: generator names g for which the package's file doc (doc.go) carries "+gengo:<g>", i.e. the generator is
	// enabled for every type of THIS package.
	DocTags []string `json:"doc_tags,omitempty"`
	// GoImports / Decls: further top-level declarations of the package (functions, methods, error types ...), written
	// verbatim after the types, and the import paths they need, imported under their own names (the packages listed in
	// Imports are imported under an alias as well; the declarations must use every path of GoImports).  probe.go.
	GoImports []string `json:"go_imports,omitempty"`
	Decls     []string `json:"decls,omitempty"`
}

type File struct {
	Path    string `json:"path"` // relative, slash separated
	Content string `json:"content"`
}

type Module struct {
	ModPath string `json:"modpath"`
	GoVer   string `json:"gover"`
	Pkgs    []Pkg  `json:"pkgs"`
	Files   []File `json:"files,omitempty"` // every other pre-existing file (user files, look-alikes, stale outputs ...)
	// gengo.sum before the run: entries with the CURRENT hash for these package dirs, then SumJunk verbatim.
	SumFor  []string `json:"sum_for,omitempty"`
	SumJunk string   `json:"sum_junk,omitempty"`
	HasSum  bool     `json:"has_sum,omitempty"`
	// Ext: further modules on disk (own go.mod) which this module requires and reaches through `replace => <dir>`
	// (multimod.go).  Their files are part of the snapshotted tree (paths relative to THIS module's root).
	Ext []ExtMod `json:"ext,omitempty"`
	// Work: the modules (this one and every Ext) are members of a go.work workspace (workspace.go): "root" = go.work in
	// this module's root (use . ./api ../mkit), "parent" = go.work in the directory above it (use ./m ./m/api ./mkit),
	// "auto" (JSON also: true) = above it iff some member is a sibling "../x", and no require lines (C05's two-module runs).
	// WorkOnly: the go.mod of this module has NO require / replace lines for the other members (the workspace alone
	// resolves the imports).  The child process then runs without GOFLAGS=-mod=mod (rejected in workspace mode).
	Work     WorkMode `json:"work,omitempty"`
	WorkOnly bool     `json:"work_only,omitempty"`
}

func (m *Module) PkgPath(dir string) string {
	if dir == "" {
		return m.ModPath
	}
	return m.ModPath + "/" + dir
}

func (m *Module) source(p Pkg) string {
	var b strings.Builder
	fmt.Fprintf(&b, "package %s\n", p.Name)
	for _, im := range p.Imports {
		fmt.Fprintf(&b, "\nimport %s %q\n", "i"+strings.ReplaceAll(im, "/", "_"), m.PkgPath(im))
	}
	for i, im := range p.XImports {
		fmt.Fprintf(&b, "\nimport x%d %q\n", i, im)
	}
	for _, im := range p.GoImports {
		fmt.Fprintf(&b, "\nimport %q\n", im)
	}
	for _, im := range p.Imports {
		fmt.Fprintf(&b, "\nvar _ = %s.Anchor\n", "i"+strings.ReplaceAll(im, "/", "_"))
	}
	for i := range p.XImports {
		fmt.Fprintf(&b, "\nvar _ = x%d.Anchor\n", i)
	}
	b.WriteString("\nconst Anchor = 0\n")
	for _, t := range p.Types {
		b.WriteString("\n")
		for _, l := range t.Doc {
			fmt.Fprintf(&b, "// %s\n", l)
		}
		for _, g := range t.Enabled {
			fmt.Fprintf(&b, "// +gengo:%s\n", g)
		}
		if t.Alias != "" {
			fmt.Fprintf(&b, "type %s = %s\n", t.Name, t.Alias)
		} else {
			fmt.Fprintf(&b, "type %s struct{ F int }\n", t.Name)
		}
	}
	for _, d := range p.Decls {
		b.WriteString("\n" + d + "\n")
	}
	return b.String()
}

// Materialise writes the module below root (which must not exist or be empty).
func (m *Module) Materialise(root string) error {
	write := func(rel, content string) error {
		p := filepath.Join(root, filepath.FromSlash(rel))
		if err := os.MkdirAll(filepath.Dir(p), 0o755); err != nil {
			return err
		}
		return os.WriteFile(p, []byte(content), 0o644)
	}
	gv := m.GoVer
	if gv == "" {
		gv = "1.22"
	}
	if err := write("go.mod", fmt.Sprintf("module %s\n\ngo %s\n", m.ModPath, gv)+m.requireBlock()); err != nil {
		return err
	}
	if err := m.writeWork(root); err != nil {
		return err
	}
	for _, x := range m.Ext {
		sub := Module{ModPath: x.ModPath, GoVer: x.GoVer, Pkgs: x.Pkgs, Files: x.Files}
		if err := sub.Materialise(filepath.Join(root, filepath.FromSlash(x.Dir))); err != nil {
			return err
		}
	}
	for _, p := range m.Pkgs {
		base := filepath.Base(p.Dir)
		if p.Dir == "" {
			base = "root"
		}
		if err := write(filepath.ToSlash(filepath.Join(p.Dir, base+".go")), m.source(p)); err != nil {
			return err
		}
		if len(p.DocTags) > 0 {
			var b strings.Builder
			fmt.Fprintf(&b, "// Package %s carries package-level tags.\n//\n", p.Name)
			for _, g := range p.DocTags {
				fmt.Fprintf(&b, "// +gengo:%s\n", g)
			}
			fmt.Fprintf(&b, "package %s\n", p.Name)
			if err := write(filepath.ToSlash(filepath.Join(p.Dir, "doc.go")), b.String()); err != nil {
				return err
			}
		}
	}
	for _, f := range m.Files {
		if err := write(f.Path, f.Content); err != nil {
			return err
		}
	}
	if m.HasSum {
		var b strings.Builder
		for _, d := range m.SumFor {
			h, err := dirhash.HashDir(filepath.Join(root, filepath.FromSlash(d)), "", dirhash.Hash1)
			if err != nil {
				return err
			}
			fmt.Fprintf(&b, "%s %s\n", m.PkgPath(d), h)
		}
		b.WriteString(m.SumJunk)
		if err := write("gengo.sum", b.String()); err != nil {
			return err
		}
	}
	return nil
}

// ---------- scripts ----------

type DeferStep struct {
	Body string `json:"body,omitempty"`
	Res  string `json:"res,omitempty"`
	// callbacks this callback registers (with Context.Defer) when it runs; gengo appends them to the queue
	Nested []DeferStep `json:"nested,omitempty"`
}

// Step is what a scripted generator does when called for one (package, type).
// Res: "" nil | "skip" | "skipw" (wrapped) | "ignore" | "ignorew" | "err" | "exit" | "kill" | "panic"
// | one of ErrKinds ("err-…": other error values) | one of SwallowedKinds (errkinds.go).
type Step struct {
	Body   string   `json:"body,omitempty"`
	Res    string   `json:"res,omitempty"`
	Count  bool     `json:"count,omitempty"`  // also render a declaration that spells the instance's call counter
	Helper bool     `json:"helper,omitempty"` // also render a helper, once per instance
	Use    []string `json:"use,omitempty"`    // also render references "<pkgpath>.<Name>" through the import tracker (not modelled: Go-side checks only)
	// DocOf: also render, as comments, the doc lines Context.Doc returns for the objects "<pkgpath>.<Name>" (own or another
	// loaded package's types).  Not modelled: Go-side checks only.
	DocOf []string `json:"doc_of,omitempty"`
	// Probe: also render, as comments, what the queries of the run's shared Universe answer for "<pkgpath>.*" (every
	// function, type, method and constant of that loaded package: ResultsOf, MethodsOf, Doc, Comment, Imports) or for
	// "<pkgpath>.<Name>" (one function or type).  Not modelled: Go-side checks only.  probe.go.
	Probe  []string    `json:"probe,omitempty"`
	Defers []DeferStep `json:"defers,omitempty"`
}

type Gen struct {
	Name      string `json:"name"`
	Alias     bool   `json:"alias,omitempty"`      // implements AliasGenerator
	CustomNew bool   `json:"custom_new,omitempty"` // implements GeneratorNewer
	// Proto (only without CustomNew): the value passed to gengo.Register is built by a constructor and carries non-nil
	// reference fields (a map and a pointer used for the per-package bookkeeping) instead of being a zero value; the
	// instance gengo creates per package is a zero value, so GenerateType allocates them lazily.  Same behaviour as
	// the zero-prototype generators when every package really gets a fresh instance.
	Proto bool `json:"proto,omitempty"`
	// Kind: "" = a struct with value fields; "map" | "slice" | "int": the generator's underlying type is not a struct, the
	// value itself is the bookkeeping (kinds.go).  Takes precedence over Proto.
	Kind  string          `json:"kind,omitempty"`
	Steps map[string]Step `json:"steps,omitempty"` // key: "<pkgpath> <type>"
}

type Job struct {
	Dir   string   `json:"dir"`
	Entry []string `json:"entry"`
	All   bool     `json:"all"`
	Force bool     `json:"force"`
	Base  string   `json:"base"`
	Gens  []Gen    `json:"gens"`
	// Globals -> GeneratorArgs.Globals (nil unless GlobalsSet or non-empty)
	Globals    map[string][]string `json:"globals,omitempty"`
	GlobalsSet bool                `json:"globals_set,omitempty"`
	Out        string              `json:"out"` // prefix of the files the child writes: <out>.world.json, <out>.log, <out>.result.json
	// Gate: if set, the child writes <out>.ready after NewContext and waits for this file to appear before it calls
	// Execute (so that a tracer can be attached to exactly the Execute phase).
	Gate string `json:"gate,omitempty"`
	// Work: the module lies in a go.work workspace; the child is started without GOFLAGS (-mod=mod is rejected in
	// workspace mode) and without GOWORK (the go command finds go.work by walking up from Dir).
	Work bool `json:"work,omitempty"`
}

type Event struct {
	Defer bool   `json:"defer,omitempty"`
	Gen   string `json:"gen"`
	Pkg   string `json:"pkg"`
	Type  string `json:"type,omitempty"`
	ID    int    `json:"id,omitempty"` // defer id
	Body  string `json:"body,omitempty"`
	Res   string `json:"res,omitempty"`
}

type WType struct {
	Name string `json:"name"`
	Kind string `json:"kind"` // named | alias | other
	// the gengo:* tags of the declaration as Package.Doc reports them (key -> values); whether a generator is
	// enabled is decided by the model (Model/Whole.v: Dispatch's IsGeneratorEnabled on the merged tags)
	Tags map[string][]string `json:"tags,omitempty"`
}
type WPkg struct {
	Path   string   `json:"path"`
	Direct bool     `json:"direct"`
	Dir    string   `json:"dir"` // relative to the module root
	Name   string   `json:"name"`
	Files  []string `json:"files"`
	Types  []WType  `json:"types"`
	Hash   string   `json:"hash"`
	// the module the loader reports for this package (one run may span several modules: the reference formatter takes the
	// language version and the module path of the module the FILE lies in)
	ModPath string `json:"modpath,omitempty"`
	GoVer   string `json:"gover,omitempty"`
}
type World struct {
	ModRoot string `json:"modroot"`
	ModPath string `json:"modpath"`
	GoVer   string `json:"gover"`
	Pkgs    []WPkg `json:"pkgs"`
	// RunRoot: root directory of the module of the run relative to ModRoot, when that is not the directory the run was
	// started in (workspace.go: RunWorld); "" otherwise.  The model writes gengo.sum there.
	RunRoot string `json:"runroot,omitempty"`
}

type ChildResult struct {
	NewContextErr string `json:"new_context_err,omitempty"`
	Err           string `json:"err,omitempty"`
	Class         string `json:"class"` // done | gen | defer | parse | other
	Gen           string `json:"gen,omitempty"`
	Pkg           string `json:"pkg,omitempty"`
	File          string `json:"file,omitempty"` // relative path named by a parse error
}

// ---------- the child: runs the real code ----------

func init() { core.Children["pipe-child"] = childMain }

var (
	scripts = map[string]Gen{}
	logFile *os.File
)

func logEvent(e Event) {
	b, _ := json.Marshal(e)
	_, _ = logFile.Write(append(b, '\n'))
}

type state struct {
	count  int
	helper bool
}

func resErr(res string) error {
	switch res {
	case "skip":
		return gengo.ErrSkip
	case "skipw":
		return fmt.Errorf("not for this type: %w", gengo.ErrSkip)
	case "ignore":
		return gengo.ErrIgnore
	case "ignorew":
		return fmt.Errorf("keep what is there: %w", gengo.ErrIgnore)
	case "err":
		return errors.New("scripted failure")
	}
	return errOfKind(res) // errkinds.go: further error values ("err-…") and spellings of the two sentinels; nil otherwise
}

func die(res string) {
	switch res {
	case "exit":
		os.Exit(3)
	case "kill":
		_ = syscall.Kill(os.Getpid(), syscall.SIGKILL)
		time.Sleep(10 * time.Second)
	case "panic":
		panic("scripted panic")
	}
}

// docOf asks the generator context for the documentation of "<pkgpath>.<Name>" and spells the answer as comment lines.
func docOf(c gengo.Context, ref string) (out string) {
	defer func() {
		if recover() != nil {
			out = "// doc of " + ref + ": <not loaded>\n"
		}
	}()
	k := strings.LastIndex(ref, ".")
	tn := c.Package(ref[:k]).Type(ref[k+1:])
	if tn == nil {
		return "// doc of " + ref + ": <no such type>\n"
	}
	_, lines := c.Doc(tn)
	out = fmt.Sprintf("// doc of %s: %d line(s)\n", ref, len(lines))
	for _, l := range lines {
		out += "//   | " + l + "\n"
	}
	return out
}

func (s *state) call(name string, c gengo.Context, pkg, ty string) error {
	st := scripts[name].Steps[pkg+" "+ty]
	s.count++
	body := st.Body
	if st.Count {
		body += fmt.Sprintf("var N_%s_%s_%s int\n", name, ty, strings.Repeat("x", s.count))
	}
	if st.Helper && !s.helper {
		s.helper = true
		body += fmt.Sprintf("func helper_%s() {}\n", name)
	}
	for _, ref := range st.DocOf {
		body += docOf(c, ref)
	}
	for _, ref := range st.Probe {
		body += probeOf(c, ref)
	}
	if body != "" {
		c.Render(snippet.Block(body))
	}
	for i, u := range st.Use {
		k := strings.LastIndex(u, ".")
		c.RenderT("var _ @x // "+fmt.Sprint(i)+"\n", snippet.Arg("x", snippet.PkgExpose(u[:k], u[k+1:])))
	}
	var register func(c gengo.Context, d DeferStep, id int)
	register = func(c gengo.Context, d DeferStep, id int) {
		c.Defer(func(c gengo.Context) error {
			logEvent(Event{Defer: true, Gen: name, Pkg: pkg, Type: ty, ID: id, Body: d.Body, Res: d.Res})
			if d.Body != "" {
				c.Render(snippet.Block(d.Body))
			}
			for j, n := range d.Nested {
				register(c, n, id*10+j+1)
			}
			die(d.Res)
			return resErr(d.Res)
		})
	}
	for i, d := range st.Defers {
		register(c, d, i)
	}
	logEvent(Event{Gen: name, Pkg: pkg, Type: ty, Body: body, Res: st.Res})
	die(st.Res)
	return resErr(st.Res)
}

// Four generator shapes: with/without AliasGenerator x with/without GeneratorNewer.  Without a custom New gengo
// creates the per-package instance with reflect.New, so the name must not live in a field: one Go type per slot.
type slot0 struct{ state }
type slot1 struct{ state }
type slot2 struct{ state }
type slot3 struct{ state }

var slotNames [4]string

func (*slot0) Name() string { return slotNames[0] }
func (*slot1) Name() string { return slotNames[1] }
func (*slot2) Name() string { return slotNames[2] }
func (*slot3) Name() string { return slotNames[3] }
func (g *slot0) GenerateType(c gengo.Context, n *types.Named) error {
	return g.call(slotNames[0], c, n.Obj().Pkg().Path(), n.Obj().Name())
}
func (g *slot1) GenerateType(c gengo.Context, n *types.Named) error {
	return g.call(slotNames[1], c, n.Obj().Pkg().Path(), n.Obj().Name())
}
func (g *slot2) GenerateType(c gengo.Context, n *types.Named) error {
	return g.call(slotNames[2], c, n.Obj().Pkg().Path(), n.Obj().Name())
}
func (g *slot3) GenerateType(c gengo.Context, n *types.Named) error {
	return g.call(slotNames[3], c, n.Obj().Pkg().Path(), n.Obj().Name())
}

// The same four shapes for generators whose registered prototype comes from a constructor (Gen.Proto): the bookkeeping
// lives behind a map and a pointer.  A per-package instance made by reflect.New has both nil and allocates its own.
type pstate struct {
	seen map[string]bool // (package, type) pairs this instance was called for
	st   *state
}

func newPstate() pstate { return pstate{seen: map[string]bool{}, st: &state{}} }

func (p *pstate) call(name string, c gengo.Context, pkg, ty string) error {
	if p.seen == nil {
		p.seen = map[string]bool{}
	}
	if p.st == nil {
		p.st = &state{}
	}
	p.seen[pkg+" "+ty] = true
	p.st.count = len(p.seen) - 1 // the call counter is the size of the "already processed" set
	return p.st.call(name, c, pkg, ty)
}

type pslot0 struct{ pstate }
type pslot1 struct{ pstate }
type pslot2 struct{ pstate }
type pslot3 struct{ pstate }

func (*pslot0) Name() string { return slotNames[0] }
func (*pslot1) Name() string { return slotNames[1] }
func (*pslot2) Name() string { return slotNames[2] }
func (*pslot3) Name() string { return slotNames[3] }
func (g *pslot0) GenerateType(c gengo.Context, n *types.Named) error {
	return g.call(slotNames[0], c, n.Obj().Pkg().Path(), n.Obj().Name())
}
func (g *pslot1) GenerateType(c gengo.Context, n *types.Named) error {
	return g.call(slotNames[1], c, n.Obj().Pkg().Path(), n.Obj().Name())
}
func (g *pslot2) GenerateType(c gengo.Context, n *types.Named) error {
	return g.call(slotNames[2], c, n.Obj().Pkg().Path(), n.Obj().Name())
}
func (g *pslot3) GenerateType(c gengo.Context, n *types.Named) error {
	return g.call(slotNames[3], c, n.Obj().Pkg().Path(), n.Obj().Name())
}

type apslot0 struct{ pslot0 }
type apslot1 struct{ pslot1 }
type apslot2 struct{ pslot2 }
type apslot3 struct{ pslot3 }

func (g *apslot0) GenerateAliasType(c gengo.Context, n *types.Alias) error {
	return g.call(slotNames[0], c, n.Obj().Pkg().Path(), n.Obj().Name())
}
func (g *apslot1) GenerateAliasType(c gengo.Context, n *types.Alias) error {
	return g.call(slotNames[1], c, n.Obj().Pkg().Path(), n.Obj().Name())
}
func (g *apslot2) GenerateAliasType(c gengo.Context, n *types.Alias) error {
	return g.call(slotNames[2], c, n.Obj().Pkg().Path(), n.Obj().Name())
}
func (g *apslot3) GenerateAliasType(c gengo.Context, n *types.Alias) error {
	return g.call(slotNames[3], c, n.Obj().Pkg().Path(), n.Obj().Name())
}

// alias-capable wrappers
type aslot0 struct{ slot0 }
type aslot1 struct{ slot1 }
type aslot2 struct{ slot2 }
type aslot3 struct{ slot3 }

func (g *aslot0) GenerateAliasType(c gengo.Context, n *types.Alias) error {
	return g.call(slotNames[0], c, n.Obj().Pkg().Path(), n.Obj().Name())
}
func (g *aslot1) GenerateAliasType(c gengo.Context, n *types.Alias) error {
	return g.call(slotNames[1], c, n.Obj().Pkg().Path(), n.Obj().Name())
}
func (g *aslot2) GenerateAliasType(c gengo.Context, n *types.Alias) error {
	return g.call(slotNames[2], c, n.Obj().Pkg().Path(), n.Obj().Name())
}
func (g *aslot3) GenerateAliasType(c gengo.Context, n *types.Alias) error {
	return g.call(slotNames[3], c, n.Obj().Pkg().Path(), n.Obj().Name())
}

// custom New: one type for all, the name lives in the instance and is copied by New
type newer struct {
	state
	name string
}

func (g *newer) Name() string                        { return g.name }
func (g *newer) New(c gengo.Context) gengo.Generator { return &newer{name: g.name} }
func (g *newer) GenerateType(c gengo.Context, n *types.Named) error {
	return g.call(g.name, c, n.Obj().Pkg().Path(), n.Obj().Name())
}

type anewer struct{ newer }

func (g *anewer) New(c gengo.Context) gengo.Generator { return &anewer{newer{name: g.name}} }
func (g *anewer) GenerateAliasType(c gengo.Context, n *types.Alias) error {
	return g.call(g.name, c, n.Obj().Pkg().Path(), n.Obj().Name())
}

func prototype(i int, g Gen) gengo.Generator {
	if p := kindPrototype(i, g); p != nil {
		return p
	}
	if g.CustomNew {
		if g.Alias {
			return &anewer{newer{name: g.Name}}
		}
		return &newer{name: g.Name}
	}
	slotNames[i] = g.Name
	if g.Proto {
		switch {
		case g.Alias && i == 0:
			return &apslot0{pslot0{newPstate()}}
		case g.Alias && i == 1:
			return &apslot1{pslot1{newPstate()}}
		case g.Alias && i == 2:
			return &apslot2{pslot2{newPstate()}}
		case g.Alias && i == 3:
			return &apslot3{pslot3{newPstate()}}
		case i == 0:
			return &pslot0{newPstate()}
		case i == 1:
			return &pslot1{newPstate()}
		case i == 2:
			return &pslot2{newPstate()}
		}
		return &pslot3{newPstate()}
	}
	switch {
	case g.Alias && i == 0:
		return &aslot0{}
	case g.Alias && i == 1:
		return &aslot1{}
	case g.Alias && i == 2:
		return &aslot2{}
	case g.Alias && i == 3:
		return &aslot3{}
	case i == 0:
		return &slot0{}
	case i == 1:
		return &slot1{}
	case i == 2:
		return &slot2{}
	}
	return &slot3{}
}

var (
	reGen   = regexp.MustCompile("^`([^`]*)` generate failed for (\\S+): ")
	reDefer = regexp.MustCompile("^`([^`]*)` defer generate failed for (\\S+): ")
)

// LoadWorld dumps what gengo's own loader reports for the entrypoints (input data of the model).
func LoadWorld(dir string, entry []string, gens []string) (*World, error) {
	u, err := gtypes.Load(entry, gtypes.WithDir(dir))
	if err != nil {
		return nil, err
	}
	w := &World{}
	// Directories are reported relative to the directory the run was started in — in every scenario the root of the
	// (main) module, i.e. Module().Dir of its packages — also when the loader reports packages of other modules as local.
	if abs, err := filepath.Abs(dir); err == nil {
		if _, err := os.Stat(filepath.Join(abs, "go.mod")); err == nil {
			w.ModRoot = abs
		}
	}
	for path, direct := range u.LocalPkgPaths() {
		p := u.Package(path)
		if mod := p.Module(); mod != nil && (w.ModRoot == "" || w.ModPath == "") {
			if w.ModRoot == "" {
				w.ModRoot = mod.Dir
			}
			w.ModPath, w.GoVer = mod.Path, mod.GoVersion
		}
		wp := WPkg{Path: path, Direct: direct, Name: p.Pkg().Name(), Hash: u.SumFile().Sum(path)}
		if mod := p.Module(); mod != nil {
			wp.ModPath, wp.GoVer = mod.Path, mod.GoVersion
		}
		rel, err := filepath.Rel(w.ModRoot, p.SourceDir())
		if err != nil {
			return nil, err
		}
		if rel == "." {
			rel = ""
		}
		wp.Dir = filepath.ToSlash(rel)
		for _, f := range p.Files() {
			wp.Files = append(wp.Files, filepath.Base(p.FileSet().File(f.FileStart).Name()))
		}
		sort.Strings(wp.Files)
		for name, tn := range p.Types() {
			wt := WType{Name: name, Kind: "other"}
			switch tn.Type().(type) {
			case *types.Named:
				wt.Kind = "named"
			case *types.Alias:
				wt.Kind = "alias"
			}
			tags, _ := p.Doc(tn.Pos())
			for k, vs := range tags {
				if strings.HasPrefix(k, "gengo:") {
					if wt.Tags == nil {
						wt.Tags = map[string][]string{}
					}
					wt.Tags[k] = append([]string{}, vs...)
				}
			}
			wp.Types = append(wp.Types, wt)
		}
		sort.Slice(wp.Types, func(i, j int) bool { return wp.Types[i].Name < wp.Types[j].Name })
		w.Pkgs = append(w.Pkgs, wp)
	}
	return w, nil
}

func childMain(argv []string) int {
	data, err := os.ReadFile(argv[0])
	if err != nil {
		fmt.Fprintln(os.Stderr, err)
		return 2
	}
	var job Job
	if err := json.Unmarshal(data, &job); err != nil {
		fmt.Fprintln(os.Stderr, err)
		return 2
	}
	if err := os.Chdir(job.Dir); err != nil {
		fmt.Fprintln(os.Stderr, err)
		return 2
	}
	var names []string
	for _, g := range job.Gens {
		names = append(names, g.Name)
	}
	writeJSON := func(suffix string, v any) {
		b, _ := json.Marshal(v)
		_ = os.WriteFile(job.Out+suffix, b, 0o644)
	}
	w, err := LoadWorld(job.Dir, job.Entry, names)
	if err != nil {
		writeJSON(".result.json", ChildResult{NewContextErr: err.Error(), Class: "other"})
		return 0
	}
	writeJSON(".world.json", w)
	logFile, err = os.OpenFile(job.Out+".log", os.O_CREATE|os.O_WRONLY|os.O_APPEND, 0o644)
	if err != nil {
		fmt.Fprintln(os.Stderr, err)
		return 2
	}
	for i, g := range job.Gens {
		scripts[g.Name] = g
		gengo.Register(prototype(i, g))
	}
	gargs := &gengo.GeneratorArgs{Entrypoint: job.Entry, OutputFileBaseName: job.Base, All: job.All, Force: job.Force}
	if job.GlobalsSet || len(job.Globals) > 0 {
		gargs.Globals = map[string][]string{}
		for k, v := range job.Globals {
			gargs.Globals[k] = v
		}
	}
	c, err := gengo.NewContext(gargs)
	if err != nil {
		writeJSON(".result.json", ChildResult{NewContextErr: err.Error(), Class: "other"})
		return 0
	}
	if job.Gate != "" {
		// strace counts injected syscalls per thread: keep Execute (which is synchronous) on one OS thread
		runtime.LockOSThread()
		_ = os.WriteFile(job.Out+".ready", []byte(fmt.Sprint(os.Getpid())), 0o644)
		for i := 0; i < 20000; i++ {
			if _, err := os.Stat(job.Gate); err == nil {
				break
			}
			time.Sleep(time.Millisecond)
		}
	}
	err = c.Execute(context.Background(), gengo.GetRegisteredGenerators(names...)...)
	res := ChildResult{Class: "done"}
	if err != nil {
		res.Err = err.Error()
		res.Class = "other"
		var sl scanner.ErrorList
		if m := reGen.FindStringSubmatch(res.Err); m != nil {
			res.Class, res.Gen, res.Pkg = "gen", m[1], m[2]
		} else if m := reDefer.FindStringSubmatch(res.Err); m != nil {
			res.Class, res.Gen, res.Pkg = "defer", m[1], m[2]
		} else if errors.As(err, &sl) && len(sl) > 0 {
			res.Class = "parse"
			if rel, e := filepath.Rel(w.ModRoot, sl[0].Pos.Filename); e == nil {
				res.File = filepath.ToSlash(rel)
			} else {
				res.File = sl[0].Pos.Filename
			}
			if !strings.Contains(res.Err, fmt.Sprintf("%s:%d:%d", sl[0].Pos.Filename, sl[0].Pos.Line, sl[0].Pos.Column)) {
				res.Class = "other" // the returned error must carry the position
			}
		}
	}
	writeJSON(".result.json", res)
	return 0
}

// ---------- the parent side ----------

type Tree map[string][]byte // relative slash path -> content

func Snapshot(root string) (Tree, error) {
	t := Tree{}
	err := filepath.Walk(root, func(p string, info os.FileInfo, err error) error {
		if err != nil {
			return err
		}
		if info.IsDir() {
			return nil
		}
		rel, _ := filepath.Rel(root, p)
		b, err := os.ReadFile(p)
		if err != nil {
			return err
		}
		t[filepath.ToSlash(rel)] = b
		return nil
	})
	return t, err
}

func (t Tree) Paths() []string {
	var ps []string
	for p := range t {
		ps = append(ps, p)
	}
	sort.Strings(ps)
	return ps
}

// Digest is the JSON-friendly form of a tree (path -> first 12 hex digits of SHA-256).
func (t Tree) Digest() map[string]string {
	d := map[string]string{}
	for p, b := range t {
		h := sha256.Sum256(b)
		d[p] = hex.EncodeToString(h[:6])
	}
	return d
}

type RunResult struct {
	World    *World
	Events   []Event
	Result   *ChildResult // nil: the process died before it could report
	ExitCode int
	Signal   string
	TimedOut bool
	Stderr   string
}

var vhExe = func() string {
	p, err := os.Executable()
	if err != nil {
		return os.Args[0]
	}
	return p
}()

// RunChild executes the job in a fresh process (optionally under a wrapper such as strace).
func RunChild(job Job, scratch string, wrapper ...string) RunResult {
	jobFile := job.Out + ".job.json"
	b, _ := json.Marshal(job)
	_ = os.WriteFile(jobFile, b, 0o644)
	ctx, cancel := context.WithTimeout(context.Background(), 120*time.Second)
	defer cancel()
	argv := append(append([]string{}, wrapper...), vhExe, "pipe-child", jobFile)
	cmd := exec.CommandContext(ctx, argv[0], argv[1:]...)
	var stderr, stdout bytes.Buffer
	cmd.Stderr, cmd.Stdout = &stderr, &stdout
	cmd.Dir = scratch
	if job.Work {
		cmd.Env = workspaceEnv(os.Environ())
	}
	err := cmd.Run()
	var rr RunResult
	rr.Stderr = stderr.String()
	if ctx.Err() != nil {
		rr.TimedOut = true
	}
	if err != nil {
		var ee *exec.ExitError
		if errors.As(err, &ee) {
			rr.ExitCode = ee.ExitCode()
			if ws, ok := ee.Sys().(syscall.WaitStatus); ok && ws.Signaled() {
				rr.Signal = ws.Signal().String()
			}
		} else {
			rr.ExitCode = -1
		}
	}
	readOutputs(job, &rr)
	return rr
}

func readOutputs(job Job, rr *RunResult) {
	if data, e := os.ReadFile(job.Out + ".world.json"); e == nil {
		var w World
		if json.Unmarshal(data, &w) == nil {
			rr.World = &w
		}
	}
	if data, e := os.ReadFile(job.Out + ".log"); e == nil {
		for _, line := range bytes.Split(data, []byte("\n")) {
			if len(bytes.TrimSpace(line)) == 0 {
				continue
			}
			var ev Event
			if json.Unmarshal(line, &ev) == nil {
				rr.Events = append(rr.Events, ev)
			}
		}
	}
	if data, e := os.ReadFile(job.Out + ".result.json"); e == nil {
		var r ChildResult
		if json.Unmarshal(data, &r) == nil {
			rr.Result = &r
		}
	}
}

// ---------- independent reference formatter (what WriteToFile composes, called directly) ----------

func Assemble(pkgName, gen, body string) string {
	return fmt.Sprintf("/*\nPackage %s GENERATED BY gengo:%s \nDON'T EDIT THIS FILE\n*/\npackage %s\n", pkgName, gen, pkgName) + body
}

func RefFormat(src string, goVer, modPath string) (string, bool) {
	fset := token.NewFileSet()
	file, err := parser.ParseFile(fset, "x.go", src, parser.ParseComments|parser.SkipObjectResolution|parser.AllErrors)
	if err != nil {
		return "", false
	}
	ast.SortImports(fset, file)
	gformat.File(fset, file, gformat.Options{LangVersion: "go" + goVer, ModulePath: modPath})
	var out bytes.Buffer
	if err := format.Node(&out, fset, file); err != nil {
		return "", false
	}
	return out.String(), true
}

// ---------- Coq rendering ----------

func splitPath(rel string) (dir, base string) {
	i := strings.LastIndex(rel, "/")
	if i < 0 {
		return "", rel
	}
	return rel[:i], rel[i+1:]
}

func CoqPath(rel string) string {
	d, b := splitPath(rel)
	return "(" + core.Hex(d) + ", " + core.Hex(b) + ")"
}

func CoqTree(t Tree) string {
	var items []string
	for _, p := range t.Paths() {
		items = append(items, "("+CoqPath(p)+", "+core.Hex(string(t[p]))+")")
	}
	return core.CoqList(items)
}

func CoqRes(res string) string {
	switch res {
	case "":
		return "RNil"
	case "skip", "skipw":
		return "RSkip"
	case "ignore", "ignorew":
		return "RIgnore"
	case "err":
		return "RErr"
	case "skipc", "skipj":
		return "RSkip"
	case "ignorec", "ignorej":
		return "RIgnore"
	}
	if IsErrRes(res) { // an error is an error, whatever its value (errkinds.go)
		return "RErr"
	}
	return "RDie"
}

func CoqWorld(w *World) string {
	var pkgs, direct []string
	for _, p := range w.Pkgs {
		var files, tys []string
		for _, f := range p.Files {
			files = append(files, core.Hex(f))
		}
		for _, t := range p.Types {
			kind := map[string]string{"named": "KNamed", "alias": "KAlias", "other": "KOther"}[t.Kind]
			var tags []string
			keys := make([]string, 0, len(t.Tags))
			for k := range t.Tags {
				keys = append(keys, k)
			}
			sort.Strings(keys)
			for _, k := range keys {
				var vs []string
				for _, v := range t.Tags[k] {
					vs = append(vs, core.Hex(v))
				}
				tags = append(tags, "("+core.Hex(k)+", "+core.CoqList(vs)+")")
			}
			tys = append(tys, fmt.Sprintf("(mk_ty %s %s %s)", core.Hex(t.Name), kind, core.CoqList(tags)))
		}
		pkgs = append(pkgs, fmt.Sprintf("(mk_pkg %s %s %s %s %s %s)", core.Hex(p.Path), core.Hex(p.Dir), core.Hex(p.Name),
			core.CoqList(files), core.CoqList(tys), core.Hex(p.Hash)))
		if p.Direct {
			direct = append(direct, core.Hex(p.Path))
		}
	}
	if w.RunRoot != "" {
		return fmt.Sprintf("(mk_world_at %s %s %s)", core.Hex(w.RunRoot), core.CoqList(pkgs), core.CoqList(direct))
	}
	return fmt.Sprintf("(mk_world %s %s)", core.CoqList(pkgs), core.CoqList(direct))
}

func coqDefer(d DeferStep) string {
	var nested []string
	for _, n := range d.Nested {
		nested = append(nested, coqDefer(n))
	}
	return "(SD " + core.Hex(d.Body) + " " + CoqRes(d.Res) + " " + core.CoqList(nested) + ")"
}

func CoqGens(gens []Gen) string {
	var gs []string
	for _, g := range gens {
		var keys []string
		for k := range g.Steps {
			keys = append(keys, k)
		}
		sort.Strings(keys)
		var steps []string
		for _, k := range keys {
			st := g.Steps[k]
			i := strings.Index(k, " ")
			var dfs []string
			for _, d := range st.Defers {
				dfs = append(dfs, coqDefer(d))
			}
			steps = append(steps, fmt.Sprintf("((%s, %s), mk_step %s %s %s %s %s)", core.Hex(k[:i]), core.Hex(k[i+1:]),
				core.Hex(st.Body), CoqRes(st.Res), core.CoqBool(st.Count), core.CoqBool(st.Helper), core.CoqList(dfs)))
		}
		gs = append(gs, fmt.Sprintf("(mk_sgen %s %s %s)", core.Hex(g.Name), core.CoqBool(g.Alias), core.CoqList(steps)))
	}
	return core.CoqList(gs)
}

func CoqEvents(evs []Event) string {
	var items []string
	for _, e := range evs {
		if e.Defer {
			items = append(items, fmt.Sprintf("EvDefer %s %s %d %s %s", core.Hex(e.Gen), core.Hex(e.Pkg), 0, core.Hex(e.Body), CoqRes(e.Res)))
		} else {
			items = append(items, fmt.Sprintf("EvCall %s %s %s %s %s", core.Hex(e.Gen), core.Hex(e.Pkg), core.Hex(e.Type), core.Hex(e.Body), CoqRes(e.Res)))
		}
	}
	return core.CoqList(items)
}

// FmtTable: for every (package, generator) of the world, the source gengo would assemble from what the generator
// rendered in this run (taken from the recorded events) and what the reference formatter makes of it.
func FmtTable(w *World, evs []Event) (string, map[string]string) {
	bodies := map[[2]string]string{}
	var order [][2]string
	for _, e := range evs {
		k := [2]string{e.Pkg, e.Gen}
		if _, ok := bodies[k]; !ok {
			order = append(order, k)
		}
		bodies[k] += e.Body
	}
	names := map[string]string{}
	mods := map[string][2]string{}
	for _, p := range w.Pkgs {
		names[p.Path] = p.Name
		mods[p.Path] = [2]string{w.GoVer, w.ModPath}
		if p.ModPath != "" {
			mods[p.Path] = [2]string{p.GoVer, p.ModPath}
		}
	}
	var items []string
	expect := map[string]string{}
	for _, k := range order {
		if bodies[k] == "" {
			continue
		}
		src := Assemble(names[k[0]], k[1], bodies[k])
		out, ok := RefFormat(src, mods[k[0]][0], mods[k[0]][1])
		items = append(items, "("+core.Hex(src)+", "+core.CoqOpt(ok, core.Hex(out))+")")
		if ok {
			expect[k[0]+" "+k[1]] = out
		}
	}
	return core.CoqList(items), expect
}

func (rr RunResult) CoqOutcome() string {
	if rr.Result == nil {
		return "ODied"
	}
	switch rr.Result.Class {
	case "done":
		return "ODone"
	case "gen":
		return fmt.Sprintf("(OGen %s %s)", core.Hex(rr.Result.Gen), core.Hex(rr.Result.Pkg))
	case "defer":
		return fmt.Sprintf("(ODefer %s %s)", core.Hex(rr.Result.Gen), core.Hex(rr.Result.Pkg))
	case "parse":
		return fmt.Sprintf("(OParse %s)", CoqPath(rr.Result.File))
	}
	return "OOther"
}
