package c06

import (
	"context"
	"encoding/json"
	"fmt"
	"go/types"
	"iter"
	"os"
	"path/filepath"
	"sort"
	"strings"

	"github.com/octohelm/gengo/pkg/gengo"
	"github.com/octohelm/gengo/pkg/gengo/snippet"

	"verifharness/internal/core"
)

// The recording generator runs in a fresh child process per execution: generator registration is
// process-global and Go's map iteration order (TypesInfo.Defs) differs from process to process.

func init() { core.Children["c06-child"] = childMain }

type scriptEntry struct {
	ID     int         `json:"id"`
	Action string      `json:"action,omitempty"`
	Defers []deferSpec `json:"defers,omitempty"`
}

type outputFile struct {
	Key  string `json:"key"` // "<pkg path>|<generator>"
	Path string `json:"path"`
}

type childSpec struct {
	Dir     string                 `json:"dir"`
	Globals []kv                   `json:"globals"`
	Gens    []genSpec              `json:"gens"`
	Entry   []string               `json:"entry"`
	All     bool                   `json:"all"`
	Force   bool                   `json:"force"`
	Script  map[string]scriptEntry `json:"script"` // "<dir>/<file>:<line>" -> behaviour

	// Probe: the generators look around before they record a call, as generators that follow references do: Context.Doc on
	// the type parameters and the field types of the visited type, and on every type name declared in an inner scope of
	// the package (function-local types, type parameters of functions, methods and generic types).  Doc is a query: what it
	// answers for the visited type afterwards, and which types are visited, must not depend on it.
	Probe bool `json:"probe,omitempty"`

	Outputs []outputFile `json:"outputs"`
	Out     string       `json:"out"`
}

type childEvent struct {
	K      string   `json:"k"` // type | alias | defer | new (GeneratorNewer.New was called) | ndefer (a callback registered inside New ran)
	Pkg    string   `json:"pkg"`
	Gen    string   `json:"gen"`
	TPkg   string   `json:"tpkg,omitempty"`
	Pos    string   `json:"pos,omitempty"` // "<dir>/<file>:<line>"
	Name   string   `json:"name,omitempty"`
	DID    int      `json:"did,omitempty"`
	Tags   []kv     `json:"tags,omitempty"`
	Exists []string `json:"exists,omitempty"` // output files present when the callback ran
}

type childOut struct {
	LoadErr string       `json:"load_err,omitempty"`
	Err     string       `json:"err,omitempty"`
	Events  []childEvent `json:"events"`
	Final   []string     `json:"final"`
}

type recorder struct {
	spec *childSpec
	out  childOut
}

func (r *recorder) existing() []string {
	var l []string
	for _, o := range r.spec.Outputs {
		if _, err := os.Stat(o.Path); err == nil {
			l = append(l, o.Key)
		}
	}
	sort.Strings(l)
	return l
}

func raw(s string) snippet.Snippet {
	return snippet.Func(func(ctx context.Context) iter.Seq[string] {
		return func(yield func(string) bool) { yield(s) }
	})
}

func (r *recorder) register(c gengo.Context, gen string, pkg string, ds []deferSpec) {
	for _, d := range ds {
		d := d
		c.Defer(func(c gengo.Context) error {
			r.out.Events = append(r.out.Events, childEvent{K: "defer", Pkg: pkg, Gen: gen, DID: d.ID, Exists: r.existing()})
			if d.Err {
				return fmt.Errorf("scripted defer failure %d", d.ID)
			}
			c.Render(raw(fmt.Sprintf("// defer %d\n", d.ID)))
			r.register(c, gen, pkg, d.Nested)
			return nil
		})
	}
}

func probeScope(c gengo.Context, s *types.Scope, top bool) {
	if !top {
		for _, n := range s.Names() {
			if tn, ok := s.Lookup(n).(*types.TypeName); ok && tn.Pkg() != nil {
				c.Doc(tn)
			}
		}
	}
	for i := 0; i < s.NumChildren(); i++ {
		probeScope(c, s.Child(i), false)
	}
}

func (r *recorder) probe(c gengo.Context, obj types.Object) {
	defer func() { _ = recover() }()
	ask := func(t types.Type) {
		if o, ok := t.(interface{ Obj() *types.TypeName }); ok && o.Obj() != nil && o.Obj().Pkg() != nil {
			c.Doc(o.Obj())
		}
	}
	if n, ok := obj.Type().(*types.Named); ok {
		for i := 0; i < n.TypeParams().Len(); i++ {
			ask(n.TypeParams().At(i))
		}
		if st, ok := n.Underlying().(*types.Struct); ok {
			for i := 0; i < st.NumFields(); i++ {
				ask(st.Field(i).Type())
			}
		}
	}
	if a, ok := obj.Type().(*types.Alias); ok {
		ask(a.Rhs())
	}
	probeScope(c, c.Package("").Pkg().Scope(), true)
}

func (r *recorder) onCall(kind string, g *recGen, c gengo.Context, obj types.Object) error {
	gen := g.name
	if r.spec.Probe {
		r.probe(c, obj)
	}
	cur := c.Package("")
	pkg := cur.Pkg().Path()
	p := cur.Position(obj.Pos())
	pos := fmt.Sprintf("%s/%s:%d", filepath.Base(filepath.Dir(p.Filename)), filepath.Base(p.Filename), p.Line)
	ev := childEvent{K: kind, Pkg: pkg, Gen: gen, Pos: pos, Name: obj.Name(), Exists: r.existing()}
	if obj.Pkg() != nil {
		ev.TPkg = obj.Pkg().Path()
	}
	tags, _ := c.Doc(obj)
	for k, vs := range tags {
		ev.Tags = append(ev.Tags, kv{K: k, Vs: append([]string{}, vs...)})
	}
	sort.Slice(ev.Tags, func(i, j int) bool { return ev.Tags[i].K < ev.Tags[j].K })
	r.out.Events = append(r.out.Events, ev)
	s := r.spec.Script[pos]
	switch s.Action {
	case "skip":
		return gengo.ErrSkip
	case "ignore":
		return gengo.ErrIgnore
	case "err":
		return fmt.Errorf("scripted failure for %s", obj.Name())
	}
	if s.Action != "quiet" { // "quiet": nil without rendering; the file then exists only through what Defer callbacks render
		c.Render(raw("// " + kind + " " + obj.Name() + "\n"))
		g.rendered++
	}
	r.register(c, gen, pkg, s.Defers)
	return nil
}

type recGen struct {
	name string
	rec  *recorder
	spec genSpec
	// per instance (= per processed package): how many calls rendered something so far
	rendered int
}

func (g *recGen) Name() string { return g.name }

// New (gengo.GeneratorNewer): gengo asks the registered prototype for the instance that serves one package.  A
// collect-then-emit generator hooks its per-package summary here: with genSpec.NewDefers it registers callbacks on the
// Context it is handed (they render a footer when the instance has rendered anything by then, and may register further
// callbacks), with genSpec.NewRender it touches the Context's writer (an empty snippet: the output is unchanged) — after
// reading the package the Context stands for.  Recorded as events "new" / "ndefer", which only the Go-side oracle of the
// parent reads (c06.go, newDeferViolations); the trace handed to the model does not contain them.
func (g *recGen) New(c gengo.Context) gengo.Generator {
	n := &recGen{name: g.name, rec: g.rec, spec: g.spec}
	g.rec.onNew(c, n)
	return n
}

func (r *recorder) onNew(c gengo.Context, g *recGen) {
	if len(g.spec.NewDefers) == 0 && !g.spec.NewRender {
		return
	}
	pkg := "<no package>"
	if p := c.Package(""); p != nil && p.Pkg() != nil {
		pkg = p.Pkg().Path()
	}
	r.out.Events = append(r.out.Events, childEvent{K: "new", Pkg: pkg, Gen: g.name, Exists: r.existing()})
	if g.spec.NewRender {
		c.Render(raw(""))
	}
	r.registerNew(c, g, pkg, g.spec.NewDefers)
}

func (r *recorder) registerNew(c gengo.Context, g *recGen, pkg string, ds []deferSpec) {
	for _, d := range ds {
		d := d
		c.Defer(func(c gengo.Context) error {
			r.out.Events = append(r.out.Events, childEvent{K: "ndefer", Pkg: pkg, Gen: g.name, DID: d.ID, Exists: r.existing()})
			if g.rendered > 0 { // the footer of a file that has content anyway: whether the file is written does not depend on it
				c.Render(raw(fmt.Sprintf("// new-defer %d after %d rendered call(s)\n", d.ID, g.rendered)))
			}
			r.registerNew(c, g, pkg, d.Nested)
			return nil
		})
	}
}

func (g *recGen) GenerateType(c gengo.Context, n *types.Named) error {
	return g.rec.onCall("type", g, c, n.Obj())
}

type recAliasGen struct{ recGen }

func (g *recAliasGen) New(c gengo.Context) gengo.Generator {
	n := &recAliasGen{recGen{name: g.name, rec: g.rec, spec: g.spec}}
	g.rec.onNew(c, &n.recGen)
	return n
}

func (g *recAliasGen) GenerateAliasType(c gengo.Context, a *types.Alias) error {
	return g.rec.onCall("alias", &g.recGen, c, a.Obj())
}

func childMain(args []string) int {
	if len(args) != 1 {
		fmt.Fprintln(os.Stderr, "usage: vh c06-child <spec.json>")
		return 2
	}
	data, err := os.ReadFile(args[0])
	if err != nil {
		fmt.Fprintln(os.Stderr, err)
		return 2
	}
	var spec childSpec
	if err := json.Unmarshal(data, &spec); err != nil {
		fmt.Fprintln(os.Stderr, err)
		return 2
	}
	if err := os.Chdir(spec.Dir); err != nil {
		fmt.Fprintln(os.Stderr, err)
		return 2
	}
	rec := &recorder{spec: &spec}
	var names []string
	for _, g := range spec.Gens {
		if g.Alias {
			gengo.Register(&recAliasGen{recGen{name: g.Name, rec: rec, spec: g}})
		} else {
			gengo.Register(&recGen{name: g.Name, rec: rec, spec: g})
		}
		names = append(names, g.Name)
	}
	globals := map[string][]string{}
	for _, e := range spec.Globals {
		globals[e.K] = e.Vs
	}
	// gengo prints progress to stdout/stderr; the observation goes to a file
	func() {
		defer func() {
			if p := recover(); p != nil {
				rec.out.Err = fmt.Sprintf("panic: %v", p)
			}
		}()
		c, err := gengo.NewContext(&gengo.GeneratorArgs{
			Globals: globals, Entrypoint: spec.Entry, OutputFileBaseName: "zz_generated", All: spec.All, Force: spec.Force,
		})
		if err != nil {
			rec.out.LoadErr = err.Error()
			return
		}
		if err := c.Execute(context.Background(), gengo.GetRegisteredGenerators(names...)...); err != nil {
			rec.out.Err = err.Error()
		}
	}()
	rec.out.Final = rec.existing()
	if rec.out.Events == nil {
		rec.out.Events = []childEvent{}
	}
	b, _ := json.Marshal(rec.out)
	if err := os.WriteFile(spec.Out, b, 0o644); err != nil {
		fmt.Fprintln(os.Stderr, err)
		return 2
	}
	return 0
}

func errClass(s string) string {
	switch {
	case s == "":
		return "Done"
	case strings.Contains(s, "defer generate failed"):
		return "DeferFailed"
	case strings.Contains(s, "generate failed"):
		return "GenFailed"
	}
	return "Other"
}
