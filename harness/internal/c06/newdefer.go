package c06

import (
	"fmt"
	"sort"
)

// newDeferViolations is the Go-side oracle for callbacks registered with Context.Defer inside GeneratorNewer.New(c)
// (genSpec.NewDefers).  The Coq model (Model/Dispatch.v) starts a (package, generator) session with an empty queue — it does
// not describe how gengo creates the per-package instance — so this family is checked here, on the child's event log, against
// the last sentence of the statement alone:
//
//	"Callbacks registered with Defer run exactly once each, after the package's last GenerateType and before its file is written."
//
// For every (package, generator) for which New was called and registered callbacks (event "new"):
//   - every callback of the registered forest (the callbacks never fail; nested ones are registered when their parent runs)
//     ran exactly once in a completed run, at most once in a run that ended with an error;
//   - no callback ran that this (package, generator) did not register, and none before the callback that registers it;
//   - no GenerateType / GenerateAliasType of the (package, generator) happened after one of them;
//   - the (package, generator)'s output file did not exist yet when one of them ran.
//
// How often New is called is not this property's business (C05): every "new" event counts as one registration.
func newDeferViolations(inp *input, co *childOut, done bool) []string {
	var out []string
	for _, g := range inp.Gens {
		if len(g.NewDefers) == 0 {
			continue
		}
		parent := map[int]int{} // id -> id of the callback that registers it (0: New itself)
		var walk func(ds []deferSpec, up int)
		walk = func(ds []deferSpec, up int) {
			for _, d := range ds {
				parent[d.ID] = up
				walk(d.Nested, d.ID)
			}
		}
		walk(g.NewDefers, 0)
		registrations := map[string]int{} // package -> number of New calls that registered the forest
		ran := map[string]map[int]int{}   // package -> id -> runs
		var pkgs []string
		for i, e := range co.Events {
			if e.Gen != g.Name {
				continue
			}
			switch e.K {
			case "new":
				if registrations[e.Pkg] == 0 {
					pkgs = append(pkgs, e.Pkg)
					ran[e.Pkg] = map[int]int{}
				}
				registrations[e.Pkg]++
			case "ndefer":
				where := fmt.Sprintf("callback #%d registered inside New of generator %s for package %s", e.DID, g.Name, e.Pkg)
				up, known := parent[e.DID]
				switch {
				case !known || registrations[e.Pkg] == 0:
					out = append(out, where+": ran, but was not registered for this package and generator")
					continue
				case up != 0 && ran[e.Pkg][up] == 0:
					out = append(out, where+fmt.Sprintf(": ran before the callback #%d that registers it", up))
				}
				ran[e.Pkg][e.DID]++
				for _, later := range co.Events[i+1:] {
					if later.Gen == g.Name && later.Pkg == e.Pkg && (later.K == "type" || later.K == "alias") {
						out = append(out, where+fmt.Sprintf(": ran before the package's last GenerateType (%s %s follows)", later.K, later.Name))
						break
					}
				}
				for _, key := range e.Exists {
					if key == e.Pkg+"|"+g.Name {
						out = append(out, where+": ran after the file of its package and generator was written")
					}
				}
			}
		}
		var ids []int
		for id := range parent {
			ids = append(ids, id)
		}
		sort.Ints(ids)
		for _, p := range pkgs {
			for _, id := range ids {
				n, want := ran[p][id], registrations[p]
				switch {
				case done && n != want:
					out = append(out, fmt.Sprintf("callback #%d registered inside New of generator %s for package %s: registered %d time(s), ran %d time(s) in a run that succeeded", id, g.Name, p, want, n))
				case n > want:
					out = append(out, fmt.Sprintf("callback #%d registered inside New of generator %s for package %s: registered %d time(s), ran %d time(s)", id, g.Name, p, want, n))
				}
			}
		}
	}
	return out
}
