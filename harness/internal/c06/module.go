package c06

import (
	"fmt"
	"go/ast"
	"os"
	"path/filepath"
	"sort"
	"strings"
)

// ---- the structured input (JSON round-trippable) ----

// tagLine is one comment line `// +k` / `// +k=v` (marker '@' when At).
type tagLine struct {
	K  string `json:"k"`
	V  string `json:"v,omitempty"`
	Eq bool   `json:"eq,omitempty"`
	At bool   `json:"at,omitempty"`
	Sp int    `json:"sp,omitempty"` // how the comment line is spaced: 0 `// +k`, 1 `//+k`, 2 `//   +k  `
}

// comment: the comment as it is written in the source (without indentation)
func (t tagLine) comment() string {
	switch t.Sp {
	case 1:
		return "//" + t.text()
	case 2:
		return "//   " + t.text() + "  "
	}
	return "// " + t.text()
}

// groupText: go/ast's CommentGroup.Text() of a comment group consisting of these comments ("" for none) —
// the text pkg/types/package.go (commentLinesFrom) and pkg/gengo/context.go (package tags) start from.
func groupText(comments []string) string {
	if len(comments) == 0 {
		return ""
	}
	cg := &ast.CommentGroup{}
	for _, c := range comments {
		cg.List = append(cg.List, &ast.Comment{Text: c})
	}
	return cg.Text()
}

func (t tagLine) text() string {
	m := "+"
	if t.At {
		m = "@"
	}
	if t.Eq {
		return m + t.K + "=" + t.V
	}
	return m + t.K
}

type kv struct {
	K  string   `json:"k"`
	Vs []string `json:"vs"`
}

// tagsOf: the tag map a doc comment consisting of these lines denotes (key up to the first '=',
// value the rest, "" without '='; a repeated key collects its values in line order).  Keys and
// values written by the generator contain neither '=' nor spaces, so this needs no scanner.
func tagsOf(lines []tagLine) []kv {
	var out []kv
	for _, l := range lines {
		v := ""
		if l.Eq {
			v = l.V
		}
		found := false
		for i := range out {
			if out[i].K == l.K {
				out[i].Vs = append(out[i].Vs, v)
				found = true
			}
		}
		if !found {
			out = append(out, kv{K: l.K, Vs: []string{v}})
		}
	}
	return out
}

type deferSpec struct {
	ID     int         `json:"id"`
	Err    bool        `json:"err,omitempty"`
	Nested []deferSpec `json:"nested,omitempty"`
}

// typeDecl is one type declaration.  Kind: struct | int | iface | generic | alias | aliasext.
type typeDecl struct {
	ID     int         `json:"id"`
	Name   string      `json:"name"` // "_" allowed
	Kind   string      `json:"kind"`
	TParam string      `json:"tparam,omitempty"` // generic: name of the type parameter
	Method bool        `json:"method,omitempty"` // generic: also declare a method (its receiver declares the parameter again)
	Text   bool        `json:"text,omitempty"`   // a plain sentence in front of the tag lines
	Tags   []tagLine   `json:"tags,omitempty"`
	Group  int         `json:"group,omitempty"` // >0: consecutive declarations with the same number share one `type ( … )`
	Action string      `json:"action,omitempty"`
	Defers []deferSpec `json:"defers,omitempty"`

	// generic: the type parameter stands on a line of its own (`type Box[` / `	Item any,` / `] struct{ … }`): no comment
	// ends on the line above it, while a parameter on the line of the declared name has the declaration's doc above it
	TParamLine bool `json:"tparam_line,omitempty"`
	// LineFile != "": a `//line <LineFile>:<LineNo>` directive (and a blank line) stands above the declaration's doc comment,
	// as in the output of goyacc / ragel / template engines: positions below it name that file (in the same directory)
	LineFile string `json:"line_file,omitempty"`
	LineNo   int    `json:"line_no,omitempty"`
}

type funcDecl struct {
	Name    string     `json:"name"`
	TParams []string   `json:"tparams,omitempty"`
	Locals  []typeDecl `json:"locals,omitempty"` // kinds struct | int | alias
}

type fileSpec struct {
	Name   string     `json:"name"`
	HasDoc bool       `json:"has_doc,omitempty"`
	Text   bool       `json:"text,omitempty"`
	Doc    []tagLine  `json:"doc,omitempty"`
	Types  []typeDecl `json:"types,omitempty"`
	Funcs  []funcDecl `json:"funcs,omitempty"`
}

type pkgSpec struct {
	Dir        string     `json:"dir"` // p0, p1, … (package name = directory name)
	Files      []fileSpec `json:"files"`
	ImportNext bool       `json:"import_next,omitempty"`
}

type genSpec struct {
	Name  string `json:"name"`
	Alias bool   `json:"alias,omitempty"`
	// NewDefers: callbacks the generator registers with Context.Defer INSIDE GeneratorNewer.New(c) — once per processed
	// package, before the first GenerateType — as a collect-then-emit generator does for its per-package summary; they never
	// fail.  NewRender: New(c) also touches c's writer (renders an empty snippet).  Both are outside the Coq model (which
	// does not describe how the instance is created): checked by the Go-side oracle newDeferViolations.
	NewDefers []deferSpec `json:"new_defers,omitempty"`
	NewRender bool        `json:"new_render,omitempty"`
}

const modPath = "example.com/m"

// ---- what the model is told about a package (derived from what is written) ----

type defInfo struct {
	ID       int
	Name     string
	Kind     string // KNamed | KAlias | KOther
	PkgScope bool
	Tags     []kv
	DocText  string // Text() of the comment group written directly above the declaration ("" if none)
	Action   string
	Defers   []deferSpec
}

type pkgInfo struct {
	Idx      int
	Path     string
	Dir      string
	FileTags [][]kv // per file that has a package doc, file-name order
	FileDocs []string // Text() of those package docs, same order
	Defs     []defInfo
	Next     int // index of the imported package, -1
}

type layout struct {
	Pkgs []pkgInfo
	Pos  map[string]int // "<dir>/<file>:<line>" of the declared name -> declaration id
}

// srcw writes a file and keeps the position go/token reports for the line being written: file name and line number
// as adjusted by the //line directives written so far.
type srcw struct {
	b    strings.Builder
	file string
	line int
}

func (w *srcw) ln(s string) int {
	w.line++
	w.b.WriteString(s)
	w.b.WriteByte('\n')
	return w.line
}

// directive writes `//line file:n` (column 1) and a blank line: the blank line is file:n, what follows file:n+1.
func (w *srcw) directive(file string, n int) {
	if n < 1 {
		n = 1
	}
	w.ln(fmt.Sprintf("//line %s:%d", file, n))
	w.file, w.line = file, n-1
	w.ln("")
}

func kindOf(k string) string {
	switch k {
	case "alias", "aliasext":
		return "KAlias"
	}
	return "KNamed"
}

// docLines writes the comment group and returns its comments as written
func (w *srcw) docLines(indent string, text bool, name string, tags []tagLine) []string {
	var cs []string
	if text {
		cs = append(cs, "// "+name+" is declared for the check.")
	}
	for _, t := range tags {
		cs = append(cs, t.comment())
	}
	for _, c := range cs {
		w.ln(indent + c)
	}
	return cs
}

func typeBody(d typeDecl, extTarget string) string {
	switch d.Kind {
	case "int":
		return d.Name + " int"
	case "iface":
		return d.Name + " interface{ M() }"
	case "generic":
		if d.TParamLine {
			return d.Name + "[\n\t" + d.TParam + " any,\n] struct{ v " + d.TParam + " }"
		}
		return d.Name + "[" + d.TParam + " any] struct{ v " + d.TParam + " }"
	case "alias":
		return d.Name + " = int"
	case "aliasext":
		return d.Name + " = next." + extTarget
	}
	return d.Name + " struct{}"
}

// exportedTarget: an exported, non-generic, package-level defined type of the package (for `= next.X`).
func exportedTarget(p pkgSpec) string {
	for _, f := range p.Files {
		for _, t := range f.Types {
			if t.Kind != "generic" && t.Kind != "alias" && t.Kind != "aliasext" && t.Name != "_" && t.Name != "" && t.Name[0] >= 'A' && t.Name[0] <= 'Z' {
				return t.Name
			}
		}
	}
	return ""
}

// writeModule writes the synthetic module under root and returns what was written as the
// abstract description the model gets.
func writeModule(root string, pkgs []pkgSpec) (*layout, error) {
	lay := &layout{Pos: map[string]int{}}
	if err := os.MkdirAll(root, 0o755); err != nil {
		return nil, err
	}
	if err := os.WriteFile(filepath.Join(root, "go.mod"), []byte("module "+modPath+"\n\ngo 1.23\n"), 0o644); err != nil {
		return nil, err
	}
	synth := 100000
	for pi, p := range pkgs {
		info := pkgInfo{Idx: pi, Path: modPath + "/" + p.Dir, Dir: p.Dir, Next: -1}
		ext := ""
		if p.ImportNext && pi+1 < len(pkgs) {
			info.Next = pi + 1
			ext = exportedTarget(pkgs[pi+1])
		}
		if err := os.MkdirAll(filepath.Join(root, p.Dir), 0o755); err != nil {
			return nil, err
		}
		files := append([]fileSpec(nil), p.Files...)
		sort.SliceStable(files, func(i, j int) bool { return files[i].Name < files[j].Name })
		for fi, f := range files {
			w := &srcw{file: f.Name}
			if f.HasDoc {
				cs := w.docLines("", f.Text || len(f.Doc) == 0, "Package "+p.Dir, f.Doc)
				info.FileTags = append(info.FileTags, tagsOf(f.Doc))
				info.FileDocs = append(info.FileDocs, groupText(cs))
			}
			w.ln("package " + p.Dir)
			w.ln("")
			needNext := false
			for _, t := range f.Types {
				if t.Kind == "aliasext" {
					needNext = true
				}
			}
			if info.Next >= 0 {
				if needNext && ext != "" {
					w.ln(fmt.Sprintf("import next %q", modPath+"/"+pkgs[pi+1].Dir))
					w.ln("")
				} else if fi == 0 {
					w.ln(fmt.Sprintf("import _ %q", modPath+"/"+pkgs[pi+1].Dir))
					w.ln("")
				}
			}
			emit := func(indent string, d typeDecl, pkgScope bool, grouped bool) {
				if d.Kind == "aliasext" && (info.Next < 0 || ext == "") {
					d.Kind = "alias"
				}
				if d.LineFile != "" {
					w.directive(d.LineFile, d.LineNo)
				}
				cs := w.docLines(indent, d.Text, d.Name, d.Tags)
				var line int
				body := strings.Split(typeBody(d, ext), "\n") // the declared name stands on the first line
				if grouped {
					line = w.ln(indent + body[0])
				} else {
					line = w.ln(indent + "type " + body[0])
				}
				for _, l := range body[1:] {
					w.ln(indent + l)
				}
				lay.Pos[fmt.Sprintf("%s/%s:%d", p.Dir, w.file, line)] = d.ID
				scope := pkgScope && d.Name != "_"
				info.Defs = append(info.Defs, defInfo{ID: d.ID, Name: d.Name, Kind: kindOf(d.Kind), PkgScope: scope,
					Tags: tagsOf(d.Tags), DocText: groupText(cs), Action: d.Action, Defers: d.Defers})
				if d.Kind == "generic" {
					synth++
					info.Defs = append(info.Defs, defInfo{ID: synth, Name: d.TParam, Kind: "KOther"})
				}
			}
			for i := 0; i < len(f.Types); {
				d := f.Types[i]
				if d.Group > 0 {
					w.ln("type (")
					j := i
					for ; j < len(f.Types) && f.Types[j].Group == d.Group; j++ {
						emit("\t", f.Types[j], true, true)
					}
					w.ln(")")
					w.ln("")
					i = j
					continue
				}
				emit("", d, true, false)
				w.ln("")
				i++
			}
			for _, d := range f.Types {
				if d.Kind == "generic" && d.Method && d.Name != "_" {
					w.ln(fmt.Sprintf("func (x *%s[%s]) Get() %s { return x.v }", d.Name, d.TParam, d.TParam))
					w.ln("")
					synth++
					info.Defs = append(info.Defs, defInfo{ID: synth, Name: d.TParam, Kind: "KOther"})
				}
			}
			for _, fn := range f.Funcs {
				head := "func " + fn.Name
				if len(fn.TParams) > 0 {
					head += "[" + strings.Join(fn.TParams, ", ") + " any]"
					for _, tp := range fn.TParams {
						synth++
						info.Defs = append(info.Defs, defInfo{ID: synth, Name: tp, Kind: "KOther"})
					}
				}
				w.ln(head + "() {")
				for _, l := range fn.Locals {
					if l.Kind != "int" && l.Kind != "alias" {
						l.Kind = "struct"
					}
					emit("\t", l, false, false)
				}
				w.ln("}")
				w.ln("")
			}
			if err := os.WriteFile(filepath.Join(root, p.Dir, f.Name), []byte(w.b.String()), 0o644); err != nil {
				return nil, err
			}
		}
		lay.Pkgs = append(lay.Pkgs, info)
	}
	return lay, nil
}
