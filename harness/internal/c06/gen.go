package c06

import (
	"encoding/json"
	"fmt"
	"hash/fnv"
	"strings"

	"verifharness/internal/core"
)

// generator names: several are prefixes of one another
var genNames = []string{"deep", "deepcopy", "d", "de", "deepcopygen", "x", "deep2", "copy"}

var typeNames = []string{"A", "B", "T", "U", "Box", "item", "L", "X", "Y", "Zed", "T1", "Ab", "a", "E", "P"}

func enc(in input) json.RawMessage {
	in.quote()
	b, _ := json.Marshal(in)
	return b
}

// one tag line aimed at generator name g (or at a look-alike of it)
func randTag(r *core.RNG, names []string, malformed bool) tagLine {
	g := core.Pick(r, names)
	t := tagLine{At: r.Chance(12)}
	switch k := r.Intn(20); {
	case k < 4:
		t.K = "gengo:" + g
	case k < 7:
		t.K, t.Eq, t.V = "gengo:"+g, true, "true"
	case k < 11:
		t.K, t.Eq, t.V = "gengo:"+g, true, "false"
	case k < 12:
		t.K, t.Eq, t.V = "gengo:"+g, true, ""
	case k < 15:
		t.K = "gengo:" + g + ":" + core.Pick(r, []string{"sub", "a", "interfaces", "x"})
		if r.Chance(40) {
			t.Eq, t.V = true, core.Pick(r, []string{"false", "true", "v"})
		}
	case k < 16: // look-alike names: one byte longer / shorter
		t.K = "gengo:" + g + core.Pick(r, []string{"x", "copy", "2", "_"})
		if r.Chance(50) {
			t.Eq, t.V = true, core.Pick(r, []string{"false", "true"})
		}
	case k < 17:
		if len(g) > 1 {
			t.K = "gengo:" + g[:len(g)-1]
		} else {
			t.K = "gengo:"
		}
		if r.Chance(50) {
			t.Eq, t.V = true, core.Pick(r, []string{"false", "true"})
		}
	case k < 18: // halves of "false": a repeated key collects its values
		t.K, t.Eq, t.V = "gengo:"+g, true, core.Pick(r, []string{"fal", "se", "f", "alse"})
	case k < 19:
		t.K, t.Eq, t.V = "gengo:"+g, true, core.Pick(r, []string{"False", "FALSE", "0", "no", "falsee", "false.", "true"})
	default:
		t.K = core.Pick(r, []string{"k8s:deepcopy-gen", "genngo:" + g, "gengo", "openapi:gen"})
		if r.Chance(50) {
			t.Eq, t.V = true, "false"
		}
	}
	if malformed {
		switch r.Intn(6) {
		case 0:
			t.K = ""
		case 1:
			t.K = "gengo:"
		case 2:
			t.K = "gengo::" + g
		case 3:
			t.K = "gengo:" + g + ":"
		case 4:
			t.K, t.Eq, t.V = "gengo:"+g, true, "=false"
		case 5:
			t.K = "gengo:" + g + "::sub"
		}
	}
	if r.Chance(25) { // spacing of the comment line: `//+k`, `//   +k  `
		t.Sp = 1 + r.Intn(2)
	}
	return t
}

func randTags(r *core.RNG, names []string, pNone int, malformed bool) []tagLine {
	if r.Chance(pNone) {
		return nil
	}
	n := 1 + r.Intn(2)
	if r.Chance(15) {
		n = 3
	}
	var out []tagLine
	for i := 0; i < n; i++ {
		out = append(out, randTag(r, names, malformed && r.Chance(50)))
	}
	if r.Chance(8) { // "fal" + "se"
		g := core.Pick(r, names)
		out = append(out, tagLine{K: "gengo:" + g, Eq: true, V: "fal"}, tagLine{K: "gengo:" + g, Eq: true, V: "se"})
	}
	return out
}

type idgen struct{ n int }

func (g *idgen) next() int { g.n++; return g.n }

func randDefers(r *core.RNG, ids *idgen, depth int) []deferSpec {
	var out []deferSpec
	n := 1 + r.Intn(2)
	for i := 0; i < n; i++ {
		d := deferSpec{ID: ids.next(), Err: r.Chance(4)}
		if depth < 2 && r.Chance(35) {
			d.Nested = randDefers(r, ids, depth+1)
		}
		out = append(out, d)
	}
	return out
}

// sideRNG: a generator seeded by the content of v; draws from it do not advance the main stream.
func sideRNG(v any) *core.RNG {
	b, _ := json.Marshal(v)
	h := fnv.New64a()
	_, _ = h.Write(b)
	return core.NewRNG(h.Sum64())
}

// callbacks registered inside New: they never fail (a failing one would be a callback error like any other: family of C02)
func randNewDefers(r *core.RNG, ids *idgen, depth int) []deferSpec {
	var out []deferSpec
	n := 1 + r.Intn(2)
	for i := 0; i < n; i++ {
		d := deferSpec{ID: ids.next()}
		if depth < 2 && r.Chance(30) {
			d.Nested = randNewDefers(r, ids, depth+1)
		}
		out = append(out, d)
	}
	return out
}

func randModule(r *core.RNG, malformed bool) input {
	in := input{Kind: "module", Runs: 3}
	ids := &idgen{}
	dids := &idgen{n: 500}
	// generators
	ng := 1 + r.Intn(3)
	used := map[string]bool{}
	for len(in.Gens) < ng {
		n := core.Pick(r, genNames)
		if len(in.Gens) == 1 && r.Chance(60) { // a name that extends / is a prefix of the first
			n = core.Pick(r, []string{in.Gens[0].Name + "copy", in.Gens[0].Name + "2", in.Gens[0].Name[:1]})
		}
		if used[n] {
			continue
		}
		used[n] = true
		in.Gens = append(in.Gens, genSpec{Name: n, Alias: r.Chance(55)})
	}
	var names []string
	for _, g := range in.Gens {
		names = append(names, g.Name)
	}
	tagTargets := append(append([]string{}, names...), names...)
	tagTargets = append(tagTargets, core.Pick(r, genNames))
	in.Globals = tagsOf(randTags(r, tagTargets, 55, malformed))

	np := 1 + r.Intn(3)
	if r.Chance(50) {
		np = 1
	}
	for pi := 0; pi < np; pi++ {
		p := pkgSpec{Dir: fmt.Sprintf("p%d", pi), ImportNext: pi+1 < np && r.Chance(70)}
		usedT := map[string]bool{}
		var pkgLevel []string
		newName := func() string {
			for {
				n := core.Pick(r, typeNames)
				if !usedT[n] {
					usedT[n] = true
					return n
				}
			}
		}
		script := func(d *typeDecl) {
			switch k := r.Intn(100); {
			case k < 7:
				d.Action = "skip"
			case k < 13:
				d.Action = "ignore"
			case k < 16:
				d.Action = "err"
			}
			if d.Action == "" && r.Chance(12) {
				d.Action = "quiet"
			}
			if (d.Action == "" && r.Chance(25)) || (d.Action == "quiet" && r.Chance(60)) {
				d.Defers = randDefers(r, dids, 0)
			}
		}
		nf := 1 + r.Intn(2)
		if r.Chance(35) {
			p.Files = append(p.Files, fileSpec{Name: "doc.go", HasDoc: true, Text: r.Bool(), Doc: randTags(r, tagTargets, 25, malformed)})
		}
		for fi := 0; fi < nf; fi++ {
			f := fileSpec{Name: fmt.Sprintf("%c.go", 'a'+fi)}
			if r.Chance(25) {
				f.HasDoc, f.Text, f.Doc = true, r.Bool(), randTags(r, tagTargets, 25, malformed)
			}
			nt := 1 + r.Intn(4)
			group := 0
			for ti := 0; ti < nt && len(usedT) < len(typeNames)-2; ti++ {
				d := typeDecl{ID: ids.next(), Name: newName(), Text: r.Chance(40), Tags: randTags(r, tagTargets, 30, malformed)}
				switch k := r.Intn(100); {
				case k < 35:
					d.Kind = "struct"
				case k < 45:
					d.Kind = "int"
				case k < 53:
					d.Kind = "iface"
				case k < 70:
					d.Kind = "generic"
				case k < 85:
					d.Kind = "alias"
				case k < 95:
					d.Kind = "aliasext"
				default:
					d.Kind, d.Name = "struct", "_"
				}
				if d.Name != "_" {
					pkgLevel = append(pkgLevel, d.Name)
				}
				if r.Chance(30) {
					if group == 0 || r.Chance(30) {
						group = ti + 1
					}
					d.Group = group
				} else {
					group = 0
				}
				script(&d)
				f.Types = append(f.Types, d)
			}
			// type parameters of generic types: often named like a package-level type
			for i := range f.Types {
				if f.Types[i].Kind == "generic" {
					f.Types[i].TParam = core.Pick(r, []string{"P", "E", "K"})
					if r.Chance(55) && len(pkgLevel) > 1 {
						if n := core.Pick(r, pkgLevel); n != f.Types[i].Name {
							f.Types[i].TParam = n
						}
					}
					f.Types[i].Method = r.Chance(40)
				}
			}
			nfn := r.Intn(3)
			for k := 0; k < nfn; k++ {
				fn := funcDecl{Name: fmt.Sprintf("fn%c%d", 'a'+fi, k)}
				ntp := r.Intn(3)
				seen := map[string]bool{}
				for q := 0; q < ntp; q++ {
					n := core.Pick(r, []string{"V", "W", "Q"})
					if r.Chance(60) && len(pkgLevel) > 0 {
						n = core.Pick(r, pkgLevel)
					}
					if !seen[n] {
						seen[n] = true
						fn.TParams = append(fn.TParams, n)
					}
				}
				nl := r.Intn(3)
				for q := 0; q < nl; q++ {
					n := core.Pick(r, []string{"L", "local", "Loc"})
					if r.Chance(50) && len(pkgLevel) > 0 {
						n = core.Pick(r, pkgLevel)
					}
					if seen[n] {
						continue
					}
					seen[n] = true
					l := typeDecl{ID: ids.next(), Name: n, Kind: core.Pick(r, []string{"struct", "struct", "int", "alias"}),
						Text: r.Chance(30), Tags: randTags(r, tagTargets, 20, malformed)}
					script(&l)
					fn.Locals = append(fn.Locals, l)
				}
				f.Funcs = append(f.Funcs, fn)
			}
			p.Files = append(p.Files, f)
		}
		in.Pkgs = append(in.Pkgs, p)
	}
	// entrypoints
	for pi := 0; pi < np; pi++ {
		if r.Chance(60) {
			in.Entry = append(in.Entry, pi)
		}
	}
	if len(in.Entry) == 0 {
		in.Entry = []int{0}
	}
	in.All = r.Chance(35)
	in.Force = r.Chance(30)
	// generators that register callbacks inside New(c) (collect-then-emit: the per-package summary) and touch c's writer there
	// (drawn from a side stream seeded by the module drawn so far, so that the modules of a seed stay what they were)
	ndids := &idgen{n: 9000}
	side := sideRNG(in)
	for gi := range in.Gens {
		if side.Chance(35) {
			in.Gens[gi].NewDefers = randNewDefers(side, ndids, 0)
		}
		if side.Chance(20) {
			in.Gens[gi].NewRender = true
		}
	}
	// generators that ask Context.Doc about type parameters, field types and local types before they record
	in.Probe = r.Chance(50)
	for pi := range in.Pkgs {
		for fi := range in.Pkgs[pi].Files {
			for ti := range in.Pkgs[pi].Files[fi].Types {
				if t := &in.Pkgs[pi].Files[fi].Types[ti]; t.Kind == "generic" && r.Chance(35) {
					t.TParamLine = true
				}
			}
		}
	}
	if r.Chance(35) {
		addLineDirectives(r, &in, 35)
	}
	return in
}

// addLineDirectives puts `//line <file>:<n>` above some declarations (package-level, grouped, function-local).  The named
// file lies in the same directory; its name is the physical file's own name (pure renumbering) or one derived from it
// (so two physical files never claim the same lines); line numbers only move forward within a physical file.
func addLineDirectives(r *core.RNG, in *input, percent int) {
	for pi := range in.Pkgs {
		for fi := range in.Pkgs[pi].Files {
			f := &in.Pkgs[pi].Files[fi]
			stem := strings.TrimSuffix(f.Name, ".go")
			next := 1000
			place := func(t *typeDecl) {
				if !r.Chance(percent) {
					return
				}
				t.LineFile = core.Pick(r, []string{stem + "_gram.y", stem + ".go.tmpl", f.Name, stem + "_gram.y"})
				t.LineNo = next + r.Intn(50)
				next += 1000
			}
			for ti := range f.Types {
				place(&f.Types[ti])
			}
			for ki := range f.Funcs {
				for li := range f.Funcs[ki].Locals {
					place(&f.Funcs[ki].Locals[li])
				}
			}
		}
	}
}

// ---- fixed corner cases ----

func one(g string, alias bool, globals []tagLine, doc []tagLine, types []typeDecl, funcs []funcDecl) input {
	in := input{Kind: "module", Runs: 3, Gens: []genSpec{{Name: g, Alias: alias}}, Entry: []int{0}, Globals: tagsOf(globals)}
	p := pkgSpec{Dir: "p0"}
	if doc != nil {
		p.Files = append(p.Files, fileSpec{Name: "doc.go", HasDoc: true, Doc: doc})
	}
	p.Files = append(p.Files, fileSpec{Name: "a.go", Types: types, Funcs: funcs})
	in.Pkgs = []pkgSpec{p}
	return in
}

func tl(k string) tagLine     { return tagLine{K: k} }
func tv(k, v string) tagLine  { return tagLine{K: k, Eq: true, V: v} }
func on(g string) []tagLine   { return []tagLine{tl("gengo:" + g)} }
func off(g string) []tagLine  { return []tagLine{tv("gengo:"+g, "false")} }
func sub(g string) []tagLine  { return []tagLine{tl("gengo:" + g + ":sub")} }
func st(id int, n string, tags []tagLine) typeDecl {
	return typeDecl{ID: id, Name: n, Kind: "struct", Tags: tags}
}

func fixedCases() []input {
	var out []input
	// local type, enabled globally
	out = append(out, one("deep", false, on("deep"), nil, []typeDecl{st(1, "A", nil)},
		[]funcDecl{{Name: "F", Locals: []typeDecl{st(2, "L", nil)}}}))
	// type parameter shadowing a package-level type
	sh := one("deep", false, on("deep"), nil, []typeDecl{st(1, "T", nil), st(2, "U", nil)},
		[]funcDecl{{Name: "F", TParams: []string{"T"}}})
	sh.Runs = 8
	out = append(out, sh)
	// generic type whose parameter shadows; local alias; blank type
	out = append(out, one("deep", true, nil, on("deep"), []typeDecl{
		{ID: 1, Name: "Box", Kind: "generic", TParam: "Item", Method: true}, st(2, "Item", nil), {ID: 3, Name: "_", Kind: "struct"},
		{ID: 4, Name: "Al", Kind: "alias"}},
		[]funcDecl{{Name: "F", Locals: []typeDecl{{ID: 5, Name: "LA", Kind: "alias"}, {ID: 6, Name: "Item", Kind: "int", Tags: off("deep")}}}}))
	// precedence: declaration over package over global
	out = append(out, one("deep", false, on("deep"), off("deep"), []typeDecl{st(1, "A", nil), st(2, "B", on("deep")), st(3, "C", off("deep")), st(4, "D", sub("deep"))}, nil))
	out = append(out, one("deep", false, off("deep"), on("deep"), []typeDecl{st(1, "A", nil), st(2, "B", on("deep")), st(3, "C", off("deep")), st(4, "D", sub("deep"))}, nil))
	out = append(out, one("deep", false, off("deep"), nil, []typeDecl{st(1, "A", nil), st(2, "B", sub("deep")), st(3, "C", []tagLine{tv("gengo:deep", "true")}), st(4, "D", []tagLine{tv("gengo:deep", "")})}, nil))
	// prefix-named generators
	pn := one("deep", true, nil, nil, []typeDecl{st(1, "A", on("deepcopy")), st(2, "B", on("deep")), st(3, "C", sub("deepcopy")), st(4, "D", sub("deep")),
		st(5, "E", []tagLine{tl("gengo:deep"), tv("gengo:deepcopy", "false")}), st(6, "F", []tagLine{tv("gengo:deep", "false"), tl("gengo:deepcopy")}),
		st(7, "G", []tagLine{tl("gengo:de")}), st(8, "H", []tagLine{tl("gengo:deepcopy:deep")})}, nil)
	pn.Gens = []genSpec{{Name: "deep", Alias: true}, {Name: "deepcopy"}, {Name: "de"}}
	out = append(out, pn)
	// aliases: only an AliasGenerator gets them
	al := one("deep", true, on("deep"), nil, []typeDecl{st(1, "A", nil), {ID: 2, Name: "B", Kind: "alias"}, {ID: 3, Name: "C", Kind: "alias", Tags: off("deep")}}, nil)
	al.Gens = append(al.Gens, genSpec{Name: "x"})
	al.Globals = tagsOf([]tagLine{tl("gengo:deep"), tl("gengo:x")})
	out = append(out, al)
	// defers, nested
	out = append(out, one("deep", false, on("deep"), nil, []typeDecl{
		{ID: 1, Name: "A", Kind: "struct", Defers: []deferSpec{{ID: 501, Nested: []deferSpec{{ID: 502}}}, {ID: 503}}},
		{ID: 2, Name: "B", Kind: "struct", Defers: []deferSpec{{ID: 504}}}, {ID: 3, Name: "C", Kind: "struct", Action: "skip"}}, nil))
	// the file exists only through what a Defer callback renders; and not at all
	out = append(out, one("deep", false, on("deep"), nil, []typeDecl{{ID: 1, Name: "A", Kind: "struct", Action: "quiet", Defers: []deferSpec{{ID: 501}}}}, nil))
	out = append(out, one("deep", false, on("deep"), nil, []typeDecl{{ID: 1, Name: "A", Kind: "struct", Action: "quiet"}, {ID: 2, Name: "B", Kind: "struct", Action: "ignore"}}, nil))
	// "fal" + "se"
	out = append(out, one("deep", false, nil, nil, []typeDecl{st(1, "A", []tagLine{tv("gengo:deep", "fal"), tv("gengo:deep", "se")}),
		st(2, "B", []tagLine{tv("gengo:deep", "false"), tv("gengo:deep", "false")})}, nil))
	// two packages, the second reached through an import only
	tp := input{Kind: "module", Runs: 3, Gens: []genSpec{{Name: "deep", Alias: true}}, Entry: []int{0}, Globals: tagsOf(on("deep")), All: true,
		Pkgs: []pkgSpec{{Dir: "p0", ImportNext: true, Files: []fileSpec{{Name: "a.go", Types: []typeDecl{st(1, "A", nil), {ID: 2, Name: "Ext", Kind: "aliasext"}}}}},
			{Dir: "p1", Files: []fileSpec{{Name: "a.go", Types: []typeDecl{st(3, "X", nil), st(4, "y", off("deep"))}}}}}}
	out = append(out, tp)
	tp2 := tp
	tp2.All = false
	out = append(out, tp2)
	out = append(out, probeCases()...)
	out = append(out, lineDirectiveCases()...)
	out = append(out, newDeferCases()...)
	return out
}

// Callbacks registered with Context.Defer inside GeneratorNewer.New(c): the generator is created once per processed package
// and hooks its per-package footer there.  They run exactly once per (package, generator), after the last GenerateType,
// before the file is written — with and without enabled types, next to callbacks registered from GenerateType, for several
// generators and packages, nested, in All and entrypoint-only runs.
func newDeferCases() []input {
	var out []input
	nd := func(ids ...int) []deferSpec {
		var ds []deferSpec
		for _, id := range ids {
			ds = append(ds, deferSpec{ID: id})
		}
		return ds
	}
	// the registry generator: two enabled types, one footer callback
	a := one("deep", false, on("deep"), nil, []typeDecl{st(1, "A", nil), st(2, "B", nil)}, nil)
	a.Gens[0].NewDefers = nd(9001)
	out = append(out, a)
	// next to callbacks registered from GenerateType (also nested ones), and New touches the writer
	b := one("deep", true, on("deep"), nil, []typeDecl{
		{ID: 1, Name: "A", Kind: "struct", Defers: []deferSpec{{ID: 501, Nested: []deferSpec{{ID: 502}}}}},
		{ID: 2, Name: "B", Kind: "alias", Defers: []deferSpec{{ID: 503}}}, {ID: 3, Name: "C", Kind: "struct", Action: "skip"}}, nil)
	b.Gens[0].NewDefers = []deferSpec{{ID: 9001, Nested: []deferSpec{{ID: 9002, Nested: nd(9003)}}}, {ID: 9004}}
	b.Gens[0].NewRender = true
	out = append(out, b)
	// nothing is enabled / nothing renders: the callbacks run all the same, no file appears
	c := one("deep", false, nil, nil, []typeDecl{st(1, "A", nil), st(2, "B", off("deep"))}, nil)
	c.Gens[0].NewDefers = nd(9001, 9002)
	out = append(out, c)
	d := one("deep", false, on("deep"), nil, []typeDecl{{ID: 1, Name: "A", Kind: "struct", Action: "quiet"}, {ID: 2, Name: "B", Kind: "struct", Action: "ignore"}}, nil)
	d.Gens[0].NewDefers = nd(9001)
	out = append(out, d)
	// the file exists only through a callback registered from GenerateType; the one from New runs before it
	e := one("deep", false, on("deep"), nil, []typeDecl{{ID: 1, Name: "A", Kind: "struct", Action: "quiet", Defers: []deferSpec{{ID: 501}}}}, nil)
	e.Gens[0].NewDefers = nd(9001)
	out = append(out, e)
	// three generators (prefix names), two of them register inside New, one only touches the writer
	f := one("deep", true, nil, nil, []typeDecl{st(1, "A", on("deepcopy")), st(2, "B", on("deep")), st(3, "C", []tagLine{tl("gengo:deep"), tl("gengo:de")})}, nil)
	f.Gens = []genSpec{{Name: "deep", Alias: true, NewDefers: nd(9001)}, {Name: "deepcopy", NewDefers: []deferSpec{{ID: 9011, Nested: nd(9012)}}}, {Name: "de", NewRender: true}}
	out = append(out, f)
	// two packages: All, entrypoint only (the imported package is loaded but not processed: New is not called for it),
	// and a generator error in the first package (the callbacks of that session must not run)
	for _, all := range []bool{true, false} {
		g := input{Kind: "module", Runs: 3, Gens: []genSpec{{Name: "deep", Alias: true, NewDefers: []deferSpec{{ID: 9001, Nested: nd(9002)}}}, {Name: "x", NewDefers: nd(9021)}},
			Entry: []int{0}, Globals: tagsOf([]tagLine{tl("gengo:deep"), tl("gengo:x")}), All: all,
			Pkgs: []pkgSpec{{Dir: "p0", ImportNext: true, Files: []fileSpec{{Name: "a.go", Types: []typeDecl{st(1, "A", nil), {ID: 2, Name: "Ext", Kind: "aliasext"}}}}},
				{Dir: "p1", Files: []fileSpec{{Name: "a.go", Types: []typeDecl{st(3, "X", nil), st(4, "y", off("deep"))}}}}}}
		out = append(out, g)
	}
	h := one("deep", false, on("deep"), nil, []typeDecl{st(1, "A", nil), {ID: 2, Name: "B", Kind: "struct", Action: "err"}, st(3, "C", nil)}, nil)
	h.Gens[0].NewDefers = nd(9001)
	out = append(out, h)
	// a callback registered from GenerateType fails: the queue stops there; the callback from New stood before it
	i := one("deep", false, on("deep"), nil, []typeDecl{{ID: 1, Name: "A", Kind: "struct", Defers: []deferSpec{{ID: 501, Err: true}, {ID: 502}}}}, nil)
	i.Gens[0].NewDefers = nd(9001)
	out = append(out, i)
	return out
}

// The generator asks Context.Doc about the type parameters / field types of what it visits and about local types, before
// the package-level type of the same name is visited (generic types sort before the types they shadow): the verdict for
// that type is still decided by its own declaration.
func probeCases() []input {
	var out []input
	gen := func(id int, n, tp string, own bool, tags []tagLine) typeDecl {
		return typeDecl{ID: id, Name: n, Kind: "generic", TParam: tp, TParamLine: own, Tags: tags}
	}
	for _, own := range []bool{false, true} {
		// the package enables the generator, the shadowed type opts out
		a := one("deep", true, nil, on("deep"), []typeDecl{gen(1, "Bag", "Item", own, nil), st(2, "Item", off("deep")), st(3, "Plain", nil), {ID: 4, Name: "Ref", Kind: "alias"}}, nil)
		// both opt in at declaration level
		b := one("deep", false, nil, nil, []typeDecl{gen(1, "Cache", "Entry", own, on("deep")), st(2, "Entry", on("deep")), st(3, "Zed", nil)}, nil)
		// the generic type opts out, the shadowed type inherits from the package; a method declares the parameter again
		c := one("deep", false, nil, on("deep"), []typeDecl{{ID: 1, Name: "Box", Kind: "generic", TParam: "T", TParamLine: own, Method: true, Tags: off("deep")}, st(2, "T", nil), st(3, "U", sub("deep"))}, nil)
		// global tags, sub-option only on the shadowed type, two generators
		d := one("deep", true, off("deep"), nil, []typeDecl{gen(1, "A", "K", own, on("deep")), st(2, "K", sub("deep")), st(3, "L", nil)}, nil)
		d.Gens = append(d.Gens, genSpec{Name: "deepcopy"})
		for _, in := range []input{a, b, c, d} {
			in.Probe = true
			out = append(out, in)
		}
	}
	// type parameters of functions and function-local types named like package-level types, with other tags above them
	e := one("deep", true, nil, on("deep"), []typeDecl{st(1, "A", off("deep")), st(2, "B", nil), {ID: 3, Name: "C", Kind: "alias", Tags: off("deep")}},
		[]funcDecl{{Name: "F", TParams: []string{"A", "C"}}, {Name: "G", Locals: []typeDecl{st(4, "B", off("deep")), {ID: 5, Name: "A", Kind: "int", Tags: on("deep")}}}})
	e.Probe = true
	out = append(out, e)
	f := one("deep", false, nil, nil, []typeDecl{st(1, "A", on("deep")), st(2, "B", on("deep")), st(3, "Z", on("deep"))},
		[]funcDecl{{Name: "F", TParams: []string{"B"}, Locals: []typeDecl{st(4, "A", off("deep")), st(5, "Z", nil)}}})
	f.Probe = true
	out = append(out, f)
	return out
}

// Declarations below a `//line` directive (parser generators, template engines): their doc tags count like any other.
func lineDirectiveCases() []input {
	var out []input
	ld := func(d typeDecl, file string, n int) typeDecl {
		d.LineFile, d.LineNo = file, n
		return d
	}
	for _, file := range []string{"gram.y", "a.go", "a.go.tmpl"} {
		// declarations opt in
		out = append(out, one("deep", true, nil, nil, []typeDecl{st(1, "Before", on("deep")), ld(st(2, "After", on("deep")), file, 100),
			{ID: 3, Name: "AliasAfter", Kind: "alias", Tags: on("deep")}, st(4, "Untagged", nil)}, nil))
		// the package opts in, declarations opt out
		out = append(out, one("deep", false, nil, on("deep"), []typeDecl{st(1, "Plain", nil), ld(st(2, "SkippedAfter", off("deep")), file, 40), st(3, "Zed", nil),
			ld(st(4, "Sub", []tagLine{tv("gengo:deep", "false"), tl("gengo:deep:sub")}), file, 2000)}, nil))
		// global opt-out, sub-options and grouped declarations below the directive; a local type below one
		g := one("deep", true, off("deep"), nil, []typeDecl{
			{ID: 1, Name: "G1", Kind: "struct", Group: 1, Tags: on("deep")}, ld(typeDecl{ID: 2, Name: "G2", Kind: "struct", Group: 1, Tags: sub("deep")}, file, 300),
			{ID: 3, Name: "G3", Kind: "alias", Group: 1, Tags: on("deep")}, ld(typeDecl{ID: 4, Name: "Gen", Kind: "generic", TParam: "G1", Tags: on("deep")}, file, 700)},
			[]funcDecl{{Name: "F", Locals: []typeDecl{ld(st(5, "G2", on("deep")), file, 900)}}})
		g.Probe = true
		out = append(out, g)
	}
	return out
}

// every combination of the enabling tag at {global, package doc} (one module each) x declaration doc (one type each)
func levelChoices(g string) [][]tagLine {
	return [][]tagLine{nil, on(g), {tv("gengo:"+g, "true")}, off(g), sub(g), {tv("gengo:"+g+":sub", "false")}, {tv("gengo:"+g, "false"), tl("gengo:" + g + ":sub")}}
}

func latticeCases(g string, other string) []input {
	var out []input
	ch := levelChoices(g)
	for _, gl := range ch {
		for _, pk := range ch {
			var types []typeDecl
			for i, d := range ch {
				types = append(types, st(i+1, fmt.Sprintf("T%d", i), d))
			}
			in := one(g, true, gl, pk, types, nil)
			in.Gens = append(in.Gens, genSpec{Name: other})
			out = append(out, in)
		}
	}
	return out
}

// ---- direct cases for IsGeneratorEnabled ----

func randEnabled(r *core.RNG, malformed bool) input {
	in := input{Kind: "enabled"}
	g := core.Pick(r, genNames)
	in.G = []byte(g)
	n := r.Intn(6)
	seen := map[string]bool{}
	for i := 0; i < n; i++ {
		t := randTag(r, []string{g, g, g + "copy", g[:1], core.Pick(r, genNames)}, malformed && r.Chance(40))
		if seen[t.K] {
			continue
		}
		seen[t.K] = true
		e := bkv{K: []byte(t.K)}
		nv := 1
		if r.Chance(25) {
			nv = r.Intn(4)
		}
		for j := 0; j < nv; j++ {
			v := ""
			if t.Eq {
				v = t.V
			}
			if j > 0 || r.Chance(20) {
				v = core.Pick(r, []string{"false", "true", "", "fal", "se", "f", "alse", "False"})
			}
			e.Vs = append(e.Vs, []byte(v))
		}
		in.Tags = append(in.Tags, e)
	}
	if malformed {
		switch r.Intn(5) {
		case 0:
			in.NilMap, in.Tags = true, nil
		case 1:
			in.G = []byte{}
		case 2:
			in.G = []byte(g + ":sub")
		case 3:
			in.G = []byte{0xff, 'd'}
			in.Tags = append(in.Tags, bkv{K: append([]byte("gengo:"), 0xff, 'd', ':', 0x80), Vs: [][]byte{{0xfe}}})
		case 4: // a key whose value slice is nil / empty
			var keep []bkv
			for _, t := range in.Tags {
				if string(t.K) != "gengo:"+g {
					keep = append(keep, t)
				}
			}
			in.Tags = append(keep, bkv{K: []byte("gengo:" + g), Vs: nil})
		}
	}
	return in
}

func exhaustiveEnabled() []input {
	keys := []string{"gengo:deep", "gengo:deepcopy", "gengo:deep:a", "gengo:deepcopy:a", "gengo:de"}
	vals := [][]string{nil, {""}, {"true"}, {"false"}, {"fal", "se"}}
	var out []input
	idx := make([]int, len(keys))
	for {
		for _, g := range []string{"deep", "deepcopy", "de"} {
			in := input{Kind: "enabled", G: []byte(g)}
			for i, k := range keys {
				if idx[i] == 0 {
					continue
				}
				e := bkv{K: []byte(k)}
				for _, v := range vals[idx[i]] {
					e.Vs = append(e.Vs, []byte(v))
				}
				in.Tags = append(in.Tags, e)
			}
			out = append(out, in)
		}
		i := 0
		for ; i < len(idx); i++ {
			idx[i]++
			if idx[i] < len(vals) {
				break
			}
			idx[i] = 0
		}
		if i == len(idx) {
			break
		}
	}
	return out
}

func (prop) Generate(r *core.RNG, tier string) []json.RawMessage {
	var out []json.RawMessage
	for _, in := range fixedCases() {
		out = append(out, enc(in))
	}
	nMod, nEn := 150, 600
	if tier == "thorough" {
		nMod, nEn = 2400, 6000
	}
	lat := latticeCases("deep", "deepcopy")
	if tier == "thorough" {
		lat = append(lat, latticeCases("deepcopy", "deep")...)
		for _, in := range lat {
			out = append(out, enc(in))
		}
	} else {
		for i := 0; i < 16; i++ {
			out = append(out, enc(lat[r.Intn(len(lat))]))
		}
	}
	for i := 0; i < nMod; i++ {
		out = append(out, enc(randModule(r, r.Chance(10))))
	}
	for i := 0; i < nEn; i++ {
		out = append(out, enc(randEnabled(r, r.Chance(10))))
	}
	if tier == "thorough" {
		for _, in := range exhaustiveEnabled() {
			out = append(out, enc(in))
		}
	}
	return out
}

// Extra: nothing to run; records that the thorough tier enumerates its two small scopes completely.
func (prop) Extra(r *core.RNG, tier string, scratch string) ([]string, []string, map[string]any) {
	st := map[string]any{"exhaustive": tier == "thorough", "executions_per_module": 3}
	if tier == "thorough" {
		st["exhaustive_scopes"] = []string{
			"enabling tag {absent, on, =true, =false, :sub, :sub=false, =false+:sub} at each of (global, package doc, declaration doc), for generator deep next to deepcopy and vice versa: 2 x 49 modules x 7 types, each executed in 3 fresh processes",
			"IsGeneratorEnabled on every map over {gengo:deep, gengo:deepcopy, gengo:deep:a, gengo:deepcopy:a, gengo:de} x {absent, [\"\"], [true], [false], [fal,se]} for g in {deep, deepcopy, de}: 9375 maps x 24 calls",
		}
	}
	return nil, nil, st
}

// ---- shrinking ----

func clone(in input) input {
	var c input
	b, _ := json.Marshal(in)
	_ = json.Unmarshal(b, &c)
	return c
}

func (prop) Shrink(raw json.RawMessage) []json.RawMessage {
	var in input
	if json.Unmarshal(raw, &in) != nil {
		return nil
	}
	var out []json.RawMessage
	add := func(c input) {
		b := enc(c)
		if string(b) != string(raw) {
			out = append(out, b)
		}
	}
	if in.Kind == "enabled" {
		for i := range in.Tags {
			c := clone(in)
			c.Tags = append(c.Tags[:i], c.Tags[i+1:]...)
			add(c)
		}
		for i := range in.Tags {
			for j := range in.Tags[i].Vs {
				c := clone(in)
				c.Tags[i].Vs = append(c.Tags[i].Vs[:j], c.Tags[i].Vs[j+1:]...)
				add(c)
			}
		}
		return out
	}
	// fewer packages (only the last, and only if nothing refers to it)
	if n := len(in.Pkgs); n > 1 {
		c := clone(in)
		c.Pkgs = c.Pkgs[:n-1]
		c.Pkgs[n-2].ImportNext = false
		var e []int
		for _, x := range c.Entry {
			if x < n-1 {
				e = append(e, x)
			}
		}
		if len(e) == 0 {
			e = []int{0}
		}
		c.Entry = e
		add(c)
	}
	if len(in.Gens) > 1 {
		for i := range in.Gens {
			c := clone(in)
			c.Gens = append(c.Gens[:i], c.Gens[i+1:]...)
			add(c)
		}
	}
	for i := range in.Globals {
		c := clone(in)
		c.Globals = append(c.Globals[:i], c.Globals[i+1:]...)
		add(c)
	}
	if in.All {
		c := clone(in)
		c.All = false
		add(c)
	}
	if in.Force {
		c := clone(in)
		c.Force = false
		add(c)
	}
	for gi, g := range in.Gens {
		if len(g.NewDefers) > 0 {
			c := clone(in)
			c.Gens[gi].NewDefers = c.Gens[gi].NewDefers[:len(g.NewDefers)-1]
			add(c)
			for di, d := range g.NewDefers {
				if len(d.Nested) > 0 {
					c := clone(in)
					c.Gens[gi].NewDefers[di].Nested = nil
					add(c)
				}
			}
		}
		if g.NewRender {
			c := clone(in)
			c.Gens[gi].NewRender = false
			add(c)
		}
	}
	if in.Probe {
		c := clone(in)
		c.Probe = false
		add(c)
	}
	for pi := range in.Pkgs {
		p := in.Pkgs[pi]
		if len(p.Files) > 1 {
			for fi := range p.Files {
				c := clone(in)
				c.Pkgs[pi].Files = append(c.Pkgs[pi].Files[:fi], c.Pkgs[pi].Files[fi+1:]...)
				add(c)
			}
		}
		for fi := range p.Files {
			f := p.Files[fi]
			if f.HasDoc && (len(f.Types) > 0 || len(f.Funcs) > 0) {
				c := clone(in)
				c.Pkgs[pi].Files[fi].HasDoc, c.Pkgs[pi].Files[fi].Doc = false, nil
				add(c)
			}
			for i := range f.Doc {
				c := clone(in)
				d := c.Pkgs[pi].Files[fi].Doc
				c.Pkgs[pi].Files[fi].Doc = append(d[:i], d[i+1:]...)
				add(c)
			}
			if len(f.Types)+len(f.Funcs) > 1 || len(p.Files) > 1 {
				for ti := range f.Types {
					c := clone(in)
					t := c.Pkgs[pi].Files[fi].Types
					c.Pkgs[pi].Files[fi].Types = append(t[:ti], t[ti+1:]...)
					add(c)
				}
				for ki := range f.Funcs {
					c := clone(in)
					t := c.Pkgs[pi].Files[fi].Funcs
					c.Pkgs[pi].Files[fi].Funcs = append(t[:ki], t[ki+1:]...)
					add(c)
				}
			}
			for ti, t := range f.Types {
				for i := range t.Tags {
					c := clone(in)
					d := c.Pkgs[pi].Files[fi].Types[ti].Tags
					c.Pkgs[pi].Files[fi].Types[ti].Tags = append(d[:i], d[i+1:]...)
					add(c)
				}
				if t.Action != "" || len(t.Defers) > 0 || t.Text || t.Group > 0 || t.Method {
					c := clone(in)
					x := &c.Pkgs[pi].Files[fi].Types[ti]
					x.Action, x.Defers, x.Text, x.Group, x.Method = "", nil, false, 0, false
					add(c)
				}
				if t.Kind != "struct" && t.Kind != "generic" {
					c := clone(in)
					c.Pkgs[pi].Files[fi].Types[ti].Kind = "struct"
					add(c)
				}
				if t.LineFile != "" {
					c := clone(in)
					c.Pkgs[pi].Files[fi].Types[ti].LineFile, c.Pkgs[pi].Files[fi].Types[ti].LineNo = "", 0
					add(c)
				}
				if t.TParamLine {
					c := clone(in)
					c.Pkgs[pi].Files[fi].Types[ti].TParamLine = false
					add(c)
				}
			}
			for ki, fn := range f.Funcs {
				for i := range fn.TParams {
					c := clone(in)
					d := c.Pkgs[pi].Files[fi].Funcs[ki].TParams
					c.Pkgs[pi].Files[fi].Funcs[ki].TParams = append(d[:i], d[i+1:]...)
					add(c)
				}
				for i, l := range fn.Locals {
					c := clone(in)
					d := c.Pkgs[pi].Files[fi].Funcs[ki].Locals
					c.Pkgs[pi].Files[fi].Funcs[ki].Locals = append(d[:i:i], d[i+1:]...)
					add(c)
					if len(l.Tags) > 0 || l.Action != "" || len(l.Defers) > 0 || l.LineFile != "" {
						c := clone(in)
						x := &c.Pkgs[pi].Files[fi].Funcs[ki].Locals[i]
						x.Tags, x.Action, x.Defers, x.LineFile, x.LineNo = nil, "", nil, "", 0
						add(c)
					}
				}
			}
		}
	}
	_ = strings.TrimSpace
	return out
}
