// Package c06: GenerateType is called exactly for the enabled package-level named types.
//
// Two kinds of cases:
//
//	enabled — gengo.IsGeneratorEnabled called directly on a tag map (many times: Go randomises map iteration);
//	module  — a synthetic module is written, a recording Generator / AliasGenerator is registered through the
//	          public API and gengo.NewContext(...).Execute is run in FRESH CHILD PROCESSES (3-4 per module);
//	          observed: the call log (kind, declaration identity, order, Context.Doc tags), the defer callbacks
//	          and at which point the output files appear.
package c06

import (
	"context"
	"encoding/json"
	"fmt"
	"os"
	"os/exec"
	"path/filepath"
	"sort"
	"strconv"
	"strings"
	"time"

	"github.com/octohelm/gengo/pkg/gengo"

	"verifharness/internal/core"
)

type prop struct{}

func init() { core.Register(prop{}) }

func (prop) ID() string        { return "C06" }
func (prop) CoqModule() string { return "Gengo.Corr.C06" }
func (prop) Parallel() int     { return 10 }

type bkv struct {
	K  []byte   `json:"k"`
	Vs [][]byte `json:"vs"`
}

type input struct {
	Kind string `json:"kind"` // module | enabled

	// module
	Globals []kv      `json:"globals,omitempty"`
	Pkgs    []pkgSpec `json:"pkgs,omitempty"`
	Gens    []genSpec `json:"gens,omitempty"`
	Entry   []int     `json:"entry,omitempty"` // indices of the entrypoint packages
	All     bool      `json:"all,omitempty"`
	Force   bool      `json:"force,omitempty"`
	Runs    int       `json:"runs,omitempty"`
	Probe   bool      `json:"probe,omitempty"` // see childSpec.Probe

	// enabled
	G      []byte `json:"g,omitempty"`
	Tags   []bkv  `json:"tags,omitempty"`
	NilMap bool   `json:"nil_map,omitempty"`
	Q      string `json:"q,omitempty"` // readable copy
}

func (in *input) quote() {
	if in.Kind != "enabled" {
		return
	}
	var b strings.Builder
	fmt.Fprintf(&b, "g=%q tags={", in.G)
	for i, t := range in.Tags {
		if i > 0 {
			b.WriteString(", ")
		}
		fmt.Fprintf(&b, "%q:[", t.K)
		for j, v := range t.Vs {
			if j > 0 {
				b.WriteString(",")
			}
			b.WriteString(strconv.Quote(string(v)))
		}
		b.WriteString("]")
	}
	b.WriteString("}")
	in.Q = b.String()
}

// ---- Coq term helpers ----

func coqKVs(t []kv) string {
	var items []string
	for _, e := range t {
		var vs []string
		for _, v := range e.Vs {
			vs = append(vs, core.Hex(v))
		}
		items = append(items, "("+core.Hex(e.K)+", "+core.CoqList(vs)+")")
	}
	return core.CoqList(items)
}

func coqDefers(ds []deferSpec) string {
	var items []string
	for _, d := range ds {
		items = append(items, fmt.Sprintf("DS %d %s %s", d.ID, core.CoqBool(d.Err), coqDefers(d.Nested)))
	}
	return core.CoqList(items)
}

func coqAction(a string) string {
	switch a {
	case "skip":
		return "ASkip"
	case "ignore":
		return "AIgnore"
	case "err":
		return "AErr"
	case "quiet":
		return "AQuiet"
	}
	return "ANil"
}

// ---- enabled cases ----

func runEnabled(inp *input) core.Result {
	var res core.Result
	// a Go map has distinct keys: keep the first entry of a repeated key
	{
		seenK := map[string]bool{}
		var ded []bkv
		for _, t := range inp.Tags {
			if !seenK[string(t.K)] {
				seenK[string(t.K)] = true
				ded = append(ded, t)
			}
		}
		inp.Tags = ded
	}
	g := &recGen{name: string(inp.G)}
	seen := map[bool]bool{}
	panicked := false
	for i := 0; i < 24 && !panicked; i++ {
		var m map[string][]string
		if !inp.NilMap {
			m = map[string][]string{}
			// insertion order varied as well (rotation)
			n := len(inp.Tags)
			for j := 0; j < n; j++ {
				t := inp.Tags[(j+i)%n]
				var vs []string
				for _, v := range t.Vs {
					vs = append(vs, string(v))
				}
				m[string(t.K)] = vs
			}
		}
		p, _ := core.Recover(func() { seen[gengo.IsGeneratorEnabled(g, m)] = true })
		panicked = panicked || p
	}
	var obs []string
	if seen[false] {
		obs = append(obs, "false")
	}
	if seen[true] {
		obs = append(obs, "true")
	}
	res.Observed = map[string]any{"results": obs, "panicked": panicked}
	if panicked {
		res.GoViolations = append(res.GoViolations, "IsGeneratorEnabled panicked")
	}
	var tags []kv
	if !inp.NilMap {
		for _, t := range inp.Tags {
			e := kv{K: string(t.K)}
			for _, v := range t.Vs {
				e.Vs = append(e.Vs, string(v))
			}
			tags = append(tags, e)
		}
	}
	res.Coq = fmt.Sprintf("CEnabled %s %s %s", core.Hex(string(inp.G)), coqKVs(tags), core.CoqList(obs))
	pre := "gengo:" + string(inp.G)
	exact, sub, near := false, false, false
	for _, t := range tags {
		switch {
		case t.K == pre:
			exact = true
		case strings.HasPrefix(t.K, pre+":"):
			sub = true
		case strings.HasPrefix(t.K, pre) || strings.HasPrefix(pre, t.K):
			near = true
		}
	}
	res.Nontrivial = exact || sub || near
	res.Tags = []string{"kind=enabled", fmt.Sprintf("enabled:exact=%v,sub=%v,near=%v", exact, sub, near), fmt.Sprintf("enabled:ntags=%d", min(len(tags), 6))}
	return res
}

// ---- module cases ----

type runObs struct {
	Outcome string   `json:"outcome"`
	Err     string   `json:"err,omitempty"`
	Events  []string `json:"events"`
}

type moduleObs struct {
	LoadErr string   `json:"load_err,omitempty"`
	Runs    []runObs `json:"runs"`
	Same    bool     `json:"all_runs_equal"`
}

func runChild(specPath string, dir string) error {
	exe, err := os.Executable()
	if err != nil {
		return err
	}
	ctx, cancel := context.WithTimeout(context.Background(), 120*time.Second)
	defer cancel()
	cmd := exec.CommandContext(ctx, exe, "c06-child", specPath)
	cmd.Dir = dir
	cmd.Env = append(os.Environ(), "GOFLAGS=-mod=mod", "GOPROXY=off")
	out, err := cmd.CombinedOutput()
	if err != nil {
		tail := string(out)
		if len(tail) > 600 {
			tail = tail[len(tail)-600:]
		}
		return fmt.Errorf("child: %v: %s", err, tail)
	}
	return nil
}

func runModule(inp *input, scratch string) core.Result {
	var res core.Result
	root := filepath.Join(scratch, "m")
	lay, err := writeModule(root, inp.Pkgs)
	if err != nil {
		res.Notes = append(res.Notes, "C06 harness: cannot write module: "+err.Error())
		return res
	}
	// loaded packages: entrypoints and what they import (each package imports at most the next one)
	direct := map[int]bool{}
	loaded := map[int]bool{}
	for _, e := range inp.Entry {
		if e >= 0 && e < len(lay.Pkgs) {
			direct[e] = true
			for i := e; i >= 0 && i < len(lay.Pkgs) && !loaded[i]; i = lay.Pkgs[i].Next {
				loaded[i] = true
			}
		}
	}
	if len(direct) == 0 {
		res.Notes = append(res.Notes, "C06 harness: no entrypoint")
		return res
	}
	spec := childSpec{Dir: root, Globals: inp.Globals, Gens: inp.Gens, All: inp.All, Force: inp.Force, Probe: inp.Probe,
		Script: map[string]scriptEntry{}, Out: filepath.Join(scratch, "out.json")}
	if spec.Globals == nil {
		spec.Globals = []kv{}
	}
	for i := range lay.Pkgs {
		if direct[i] {
			spec.Entry = append(spec.Entry, "./"+lay.Pkgs[i].Dir)
		}
	}
	byID := map[int]defInfo{}
	for _, p := range lay.Pkgs {
		for _, d := range p.Defs {
			byID[d.ID] = d
		}
	}
	for pos, id := range lay.Pos {
		spec.Script[pos] = scriptEntry{ID: id, Action: byID[id].Action, Defers: byID[id].Defers}
	}
	pkgIdx := map[string]int{}
	genIdx := map[string]int{}
	for gi, g := range inp.Gens {
		genIdx[g.Name] = gi
	}
	for _, p := range lay.Pkgs {
		pkgIdx[p.Path] = p.Idx
		for _, g := range inp.Gens {
			spec.Outputs = append(spec.Outputs, outputFile{Key: p.Path + "|" + g.Name, Path: filepath.Join(root, p.Dir, "zz_generated."+g.Name+".go")})
		}
	}
	specPath := filepath.Join(scratch, "spec.json")
	b, _ := json.Marshal(spec)
	if err := os.WriteFile(specPath, b, 0o644); err != nil {
		res.Notes = append(res.Notes, "C06 harness: "+err.Error())
		return res
	}
	runs := inp.Runs
	if runs <= 0 {
		runs = 3
	}
	var obs moduleObs
	var coqRuns []string
	for k := 0; k < runs; k++ {
		for _, o := range spec.Outputs {
			_ = os.Remove(o.Path)
		}
		_ = os.Remove(filepath.Join(root, "gengo.sum"))
		_ = os.Remove(spec.Out)
		if err := runChild(specPath, root); err != nil {
			res.GoViolations = append(res.GoViolations, "the generator process died or timed out: "+err.Error())
			obs.Runs = append(obs.Runs, runObs{Outcome: "Crashed", Err: err.Error()})
			coqRuns = append(coqRuns, "([], None)")
			continue
		}
		data, err := os.ReadFile(spec.Out)
		var co childOut
		if err == nil {
			err = json.Unmarshal(data, &co)
		}
		if err != nil {
			res.Notes = append(res.Notes, "C06 harness: unreadable child output: "+err.Error())
			return res
		}
		if co.LoadErr != "" {
			obs.LoadErr = co.LoadErr
			res.Observed = obs
			res.Notes = append(res.Notes, "C06 harness: synthetic module does not load: "+co.LoadErr)
			return res
		}
		// trace: callbacks, with a write event wherever output files appeared
		seen := map[string]bool{}
		var evs, readable []string
		writes := func(now []string) {
			byPkg := map[int][]int{}
			for _, key := range now {
				if seen[key] {
					continue
				}
				seen[key] = true
				i := strings.LastIndex(key, "|")
				pi, ok1 := pkgIdx[key[:i]]
				gi, ok2 := genIdx[key[i+1:]]
				if !ok1 || !ok2 {
					pi, gi = 99999, 99999
				}
				byPkg[pi] = append(byPkg[pi], gi)
			}
			var ps []int
			for pi := range byPkg {
				ps = append(ps, pi)
			}
			sort.Ints(ps)
			for _, pi := range ps {
				gs := byPkg[pi]
				sort.Ints(gs)
				var items []string
				for _, g := range gs {
					items = append(items, fmt.Sprint(g))
				}
				evs = append(evs, fmt.Sprintf("EWrites %d %s", pi, core.CoqList(items)))
				readable = append(readable, fmt.Sprintf("writes p%d %v", pi, gs))
			}
		}
		for _, e := range co.Events {
			writes(e.Exists)
			pi, ok := pkgIdx[e.Pkg]
			if !ok {
				pi = 99999
			}
			gi, ok := genIdx[e.Gen]
			if !ok {
				gi = 99999
			}
			switch e.K {
			case "new": // GeneratorNewer.New was called (only recorded for generators with new_defers / new_render): Go-side oracle
				readable = append(readable, fmt.Sprintf("new p%d %s", pi, e.Gen))
			case "ndefer":
				readable = append(readable, fmt.Sprintf("new-defer p%d %s #%d", pi, e.Gen, e.DID))
			case "defer":
				evs = append(evs, fmt.Sprintf("EDefer %d %d %d", pi, gi, e.DID))
				readable = append(readable, fmt.Sprintf("defer p%d %s #%d", pi, e.Gen, e.DID))
			default:
				id, ok := lay.Pos[e.Pos]
				if !ok {
					id = 999999
				}
				c := "EType"
				if e.K == "alias" {
					c = "EAlias"
				}
				evs = append(evs, fmt.Sprintf("%s %d %d %d %s", c, pi, gi, id, coqKVs(e.Tags)))
				readable = append(readable, fmt.Sprintf("%s p%d %s %s(#%d at %s)", e.K, pi, e.Gen, e.Name, id, e.Pos))
			}
		}
		writes(co.Final)
		oc := errClass(co.Err)
		for _, v := range newDeferViolations(inp, &co, oc == "Done") {
			res.GoViolations = append(res.GoViolations, fmt.Sprintf("execution %d: %s", k+1, v))
		}
		obs.Runs = append(obs.Runs, runObs{Outcome: oc, Err: co.Err, Events: readable})
		o := "(Some " + oc + ")"
		if oc == "Other" {
			o = "None"
		}
		coqRuns = append(coqRuns, "("+core.CoqList(evs)+", "+o+")")
	}
	obs.Same = true
	for k := 1; k < len(obs.Runs); k++ {
		if strings.Join(obs.Runs[k].Events, "\n") != strings.Join(obs.Runs[0].Events, "\n") || obs.Runs[k].Outcome != obs.Runs[0].Outcome {
			obs.Same = false
		}
	}
	res.Observed = obs

	// the abstract description for the model
	var gens []string
	for gi, g := range inp.Gens {
		gens = append(gens, fmt.Sprintf("mk_gen %d %s %s", gi, core.Hex(g.Name), core.CoqBool(g.Alias)))
	}
	var pkgs, srcs []string
	for _, p := range lay.Pkgs { // directories p0 < p1 < … : sorted by path
		if !loaded[p.Idx] {
			continue
		}
		var fts, defs, fdocs, ddocs []string
		for _, ft := range p.FileTags {
			fts = append(fts, coqKVs(ft))
		}
		for _, fd := range p.FileDocs {
			fdocs = append(fdocs, core.Hex(fd))
		}
		for _, d := range p.Defs {
			if d.DocText != "" {
				ddocs = append(ddocs, fmt.Sprintf("(%d, %s)", d.ID, core.Hex(d.DocText)))
			}
		}
		srcs = append(srcs, "("+core.CoqList(fdocs)+", "+core.CoqList(ddocs)+")")
		for _, d := range p.Defs {
			defs = append(defs, fmt.Sprintf("mk_tdef %d %s %s %s %s %s %s", d.ID, core.Hex(d.Name), d.Kind, core.CoqBool(d.PkgScope),
				coqKVs(d.Tags), coqAction(d.Action), coqDefers(d.Defers)))
		}
		pkgs = append(pkgs, fmt.Sprintf("mk_pkg %d %s %s %s", p.Idx, core.CoqBool(direct[p.Idx]), core.CoqList(fts), core.CoqList(defs)))
	}
	// srcs: per package, Text() of its package docs and of the comment group above each declaration — the model
	// of ExtractCommentTags / commentLinesFrom (C12) computes the tag maps from them (Model/Tables.v)
	res.Coq = fmt.Sprintf("CModule %s %s %s %s %s %s", core.CoqBool(inp.All), coqKVs(inp.Globals), core.CoqList(gens), core.CoqList(pkgs), core.CoqList(srcs), core.CoqList(coqRuns))

	// distribution
	feat := map[string]bool{}
	ncalls := 0
	for _, r := range obs.Runs[:1] {
		for _, e := range r.Events {
			if strings.HasPrefix(e, "type ") || strings.HasPrefix(e, "alias ") {
				ncalls++
			}
			if strings.HasPrefix(e, "defer ") {
				feat["defer_ran"] = true
			}
		}
		feat["outcome="+r.Outcome] = true
	}
	ndefs := 0
	for _, p := range lay.Pkgs {
		names := map[string]int{}
		for _, d := range p.Defs {
			names[d.Name]++
			ndefs++
			switch {
			case d.Kind == "KOther":
				feat["type_param"] = true
			case !d.PkgScope && d.Name == "_":
				feat["blank_type"] = true
			case !d.PkgScope:
				feat["local_type"] = true
			case d.Kind == "KAlias":
				feat["alias"] = true
			}
			if len(d.Tags) > 0 {
				feat["decl_tags"] = true
			}
			if len(d.Defers) > 0 {
				feat["defers"] = true
				for _, x := range d.Defers {
					if len(x.Nested) > 0 {
						feat["nested_defers"] = true
					}
				}
			}
		}
		for _, n := range names {
			if n > 1 {
				feat["shadowing"] = true
			}
		}
		if len(p.FileTags) > 0 {
			feat["pkg_tags"] = true
		}
		if len(p.FileTags) > 1 {
			feat["pkg_tags_in_several_files"] = true
		}
	}
	for _, p := range inp.Pkgs {
		for _, f := range p.Files {
			for _, t := range f.Types {
				if t.Group > 0 {
					feat["grouped_decl"] = true
				}
				if t.Kind == "generic" {
					feat["generic"] = true
				}
				if t.Kind == "generic" && t.TParamLine {
					feat["type_param_on_its_own_line"] = true
				}
				if t.LineFile != "" {
					feat["line_directive_above_declaration"] = true
					if len(t.Tags) > 0 {
						feat["line_directive_above_tagged_declaration"] = true
					}
				}
			}
			for _, fn := range f.Funcs {
				for _, l := range fn.Locals {
					if l.LineFile != "" {
						feat["line_directive_above_declaration"] = true
					}
				}
			}
		}
	}
	if len(inp.Globals) > 0 {
		feat["global_tags"] = true
	}
	for i, g := range inp.Gens {
		for j, h := range inp.Gens {
			if i != j && strings.HasPrefix(h.Name, g.Name) {
				feat["prefix_named_generators"] = true
			}
		}
	}
	if inp.All {
		feat["all"] = true
	}
	if inp.Probe {
		feat["generator_asks_doc_of_type_params_and_locals"] = true
	}
	for _, g := range inp.Gens {
		if len(g.NewDefers) > 0 {
			feat["defers_registered_inside_New"] = true
			for _, d := range g.NewDefers {
				if len(d.Nested) > 0 {
					feat["nested_defers_registered_inside_New"] = true
				}
			}
		}
		if g.NewRender {
			feat["New_touches_the_writer"] = true
		}
	}
	for _, e := range obs.Runs[0].Events {
		if strings.HasPrefix(e, "new-defer ") {
			feat["defer_registered_inside_New_ran"] = true
		}
	}
	if len(loaded) > 1 {
		feat["several_packages"] = true
	}
	// labels of the (repaired) finding classes the input falls in; they only group failing cases in reports
	switch {
	case feat["local_type"] || feat["blank_type"] || feat["shadowing"]:
		res.Class = "non_package_scope_type_names"
	case feat["nested_defers"]:
		res.Class = "defer_registered_by_defer"
	}
	res.Tags = []string{"kind=module", fmt.Sprintf("module:calls=%d", min(ncalls, 8))}
	for f := range feat {
		res.Tags = append(res.Tags, "module:"+f)
	}
	sort.Strings(res.Tags)
	res.Nontrivial = ncalls > 0 && ncalls < ndefs*len(inp.Gens)
	return res
}

func (prop) Run(in json.RawMessage, scratch string) core.Result {
	var inp input
	if err := json.Unmarshal(in, &inp); err != nil {
		return core.Result{Notes: []string{"C06 harness: bad input: " + err.Error()}}
	}
	if inp.Kind == "enabled" {
		return runEnabled(&inp)
	}
	if err := os.MkdirAll(scratch, 0o755); err != nil {
		return core.Result{Notes: []string{"C06 harness: " + err.Error()}}
	}
	return runModule(&inp, scratch)
}
