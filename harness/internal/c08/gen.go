package c08

import (
	"encoding/json"
	"os"
	"path/filepath"
	"sort"
	"strconv"

	"verifharness/internal/core"
)

// module shapes: plain siblings, nested packages (dirhash is recursive), a package at the module root
// (gengo.sum lies in its directory), names whose byte order differs from their "natural" order
var shapes = [][]string{
	{"a", "b"},
	{"a", "a/sub", "b"},
	{"a", "a/sub"},
	{".", "a"},
	{".", "a", "a/sub"},
	{"a", "a-b", "a/b", "ab"},
	{"B", "a", "a0", "a_"},
	{"p/q", "p/q/r", "p/q/r/s"},
	{"a", "b", "c"},
	{"x"},
}

var mods = []string{"example.com/m", "example.com/m2", "m.test/x-y/z", "example.com/M"}

var editFiles = []string{"x1.go", "x1.go", "x1.go", "x2.go", "u1.go", "notes.txt", "testdata/t.txt", genFile}

// files the directory hash must not lose: dot-files, files in dot- and underscore-directories (the go tool ignores
// such directories, dirhash does not), and names that share a prefix, a suffix or the base name with gengo.sum
// (only the module's own <root>/gengo.sum is left out of the hash of a package at the module root)
var dotFiles = []string{".gitignore", ".gitattributes", ".gitkeep", ".gitlab-ci.yml", ".github/workflows/x.yml", ".git/HEAD",
	".hidden", ".config/tool.toml", ".x1.go.swp", "_skip/notes.txt"}
var sumLookalikes = []string{"gengo.sum.bak", ".gengo.sum", "gengo.summary", "gengo.sum~", "agengo.sum", "gengo.su", "etc/gengo.sum", "GENGO.SUM"}

// oddFile: a dot-file or a gengo.sum look-alike; in a package below the module root also a file called gengo.sum
func (g *hgen) oddFile(p int) string {
	switch k := g.r.Intn(10); {
	case k < 6:
		return core.Pick(g.r, dotFiles)
	case k < 9 || g.in.Pkgs[p].Dir == ".":
		return core.Pick(g.r, sumLookalikes)
	}
	return sumName
}

func (g *hgen) rootPkg() int {
	for i, p := range g.in.Pkgs {
		if p.Dir == "." {
			return i
		}
	}
	return -1
}

type hgen struct {
	r   *core.RNG
	in  input
	ver int
}

func (g *hgen) pkg() int { return g.r.Intn(len(g.in.Pkgs)) }

func (g *hgen) edit() opIn {
	g.ver++
	p := g.pkg()
	if g.r.Chance(12) { // dot-files and gengo.sum look-alikes, created / edited / deleted
		if g.r.Chance(30) {
			return opIn{K: "del", P: p, File: g.oddFile(p)}
		}
		return opIn{K: "set", P: p, File: g.oddFile(p), V: g.ver}
	}
	switch k := g.r.Intn(20); {
	case k < 11:
		return opIn{K: "set", P: p, File: core.Pick(g.r, editFiles), V: g.ver}
	case k < 14:
		return opIn{K: "del", P: p, File: core.Pick(g.r, editFiles)}
	case k < 15:
		return opIn{K: "set", P: p, File: "x1.go", V: 1} // back to the very first content
	case k < 17:
		return opIn{K: "restoregen", P: p}
	case k < 18:
		return opIn{K: "symlink", P: p}
	case k < 19:
		return opIn{K: "del", P: p, File: "dangling"}
	default:
		return opIn{K: "set", P: p, File: "x1.go", V: g.ver ^ 1} // same generated output, different source
	}
}

func (g *hgen) sumOp() opIn {
	switch k := g.r.Intn(10); {
	case k < 2:
		return opIn{K: "delsum"}
	case k < 9:
		return opIn{K: "corrupt", Mode: core.Pick(g.r, corruptModes)}
	default:
		return opIn{K: "block"}
	}
}

func (g *hgen) run() opIn {
	o := opIn{K: "run", All: true}
	switch k := g.r.Intn(20); {
	case k < 11:
	case k < 13:
		o.Force = true
	case k < 16: // All on a subset of the entrypoints - every second time an importer without its imports; with and without Force
		o.Entry = g.subset()
		if g.r.Bool() {
			o.Entry = g.importerOnly()
		}
		o.Force = g.r.Chance(40)
	case k < 18: // without All: direct packages only, gengo.sum not used
		o.All = false
		if g.r.Bool() {
			o.Entry = g.subset()
		}
		o.Force = g.r.Chance(25)
	default:
		o.Force = g.r.Chance(20)
	}
	if g.r.Chance(18) {
		f := g.pkg()
		o.Fail = &f
	}
	if g.r.Chance(12) { // any kind of run may be interrupted
		o.Cancel = g.cancel(nil)
	}
	return o
}

// cancel: the point at which the caller of the run gives up - before the call (cancelled / a deadline in the past),
// or while one package is generated (New / first GenerateType / deferred callback; by cancel() or by a deadline that
// passes there).  prefer: packages the in-package point should lie in (e.g. the ones just edited: they are executed).
func (g *hgen) cancel(prefer []int) *cancelIn {
	switch k := g.r.Intn(20); {
	case k < 3:
		return &cancelIn{At: "pre"}
	case k < 5:
		return &cancelIn{At: "expired"}
	}
	p := g.pkg()
	if len(prefer) > 0 && g.r.Chance(85) {
		p = core.Pick(g.r, prefer)
	}
	return &cancelIn{At: core.Pick(g.r, []string{"new", "type", "type", "defer"}), P: p, Deadline: g.r.Chance(20)}
}

func (g *hgen) hasEdge() bool {
	for _, p := range g.in.Pkgs {
		if len(p.Imports) > 0 {
			return true
		}
	}
	return false
}

func (g *hgen) subset() []int {
	var e []int
	for i := range g.in.Pkgs {
		if g.r.Bool() {
			e = append(e, i)
		}
	}
	if len(e) == 0 {
		e = []int{g.pkg()}
	}
	return e
}

// importerOnly: entrypoints that leave out at least one package they import - it is in the run (All) without
// having been asked for; falls back to a random subset when the module has no import edge
func (g *hgen) importerOnly() []int {
	var importers []int
	for i, p := range g.in.Pkgs {
		if len(p.Imports) > 0 {
			importers = append(importers, i)
		}
	}
	if len(importers) == 0 {
		return g.subset()
	}
	i := core.Pick(g.r, importers)
	imported := map[int]bool{}
	for _, j := range g.in.Pkgs[i].Imports {
		imported[j] = true
	}
	e := []int{i}
	for j := range g.in.Pkgs {
		if j != i && !imported[j] && g.r.Chance(25) {
			e = append(e, j)
		}
	}
	sort.Ints(e)
	return e
}

func (g *hgen) module() {
	sh := core.Pick(g.r, shapes)
	g.in = input{Mod: core.Pick(g.r, mods)}
	for _, d := range sh {
		g.in.Pkgs = append(g.in.Pkgs, pkgDecl{Dir: d})
	}
	// import edges along a random topological order: an imported package may sort BEFORE or AFTER its importer
	// (LocalPkgPaths is sorted: with All on a subset of the entrypoints the packages that are in the run through
	// imports only are judged before / after the first entrypoint)
	n := len(g.in.Pkgs)
	rank := make([]int, n)
	for i := range rank {
		rank[i] = i
	}
	if g.r.Chance(60) {
		for i := n - 1; i > 0; i-- {
			j := g.r.Intn(i + 1)
			rank[i], rank[j] = rank[j], rank[i]
		}
	}
	for a := 0; a < n; a++ {
		for b := a + 1; b < n; b++ {
			if g.r.Chance(30) {
				g.in.Pkgs[rank[a]].Imports = append(g.in.Pkgs[rank[a]].Imports, rank[b])
			}
		}
	}
	for i := range g.in.Pkgs {
		sort.Ints(g.in.Pkgs[i].Imports)
	}
}

// backEdges: (importer, imported) pairs whose imported package sorts before the importer
func (g *hgen) backEdges() [][2]int {
	var out [][2]int
	for i, p := range g.in.Pkgs {
		for _, j := range p.Imports {
			if importPath(g.in.Mod, g.in.Pkgs[j].Dir) < importPath(g.in.Mod, p.Dir) {
				out = append(out, [2]int{i, j})
			}
		}
	}
	return out
}

// history of the given kind: "mixed" | "malformed" (damage to gengo.sum dominates) | "converge" |
// "forcesubset" (a module with import edges is brought to rest, then Force+All runs on importers only, between edits)
func (g *hgen) history(kind string) json.RawMessage {
	g.module()
	if kind == "forcesubset" {
		for tries := 0; tries < 20 && !g.hasEdge(); tries++ {
			g.module()
		}
		if !g.hasEdge() && len(g.in.Pkgs) > 1 {
			g.in.Pkgs[0].Imports = []int{len(g.in.Pkgs) - 1}
		}
		plain := opIn{K: "run", All: true}
		ops := []opIn{plain, plain}
		if g.r.Chance(70) {
			ops = append(ops, plain)
		}
		for k := 1 + g.r.Intn(3); k > 0; k-- {
			if g.r.Chance(40) {
				ops = append(ops, g.edit())
			}
			o := opIn{K: "run", All: true, Force: !g.r.Chance(15), Entry: g.importerOnly()}
			if g.r.Chance(10) {
				f := g.pkg()
				o.Fail = &f
			}
			ops = append(ops, o)
			if g.r.Chance(50) {
				ops = append(ops, plain)
			}
		}
		g.in.Ops = ops
		b, _ := json.Marshal(g.in)
		return b
	}
	if kind == "cancel" {
		// INTERRUPTED RUNS: a module of >= 2 packages is brought to rest (gengo.sum records the current state), 1-3 packages
		// are edited, then an All run whose context is cancelled at a chosen point - before the call, by a deadline in the
		// past, while the first / a middle / the last edited package is generated - sometimes a second interrupted run,
		// then ordinary All runs: every edited package has to be regenerated by the first run that gets to it, and a run
		// that returned an error has left gengo.sum as it was
		for tries := 0; tries < 30 && len(g.in.Pkgs) < 2; tries++ {
			g.module()
		}
		plain := opIn{K: "run", All: true}
		ops := []opIn{plain, plain}
		if g.r.Chance(70) {
			ops = append(ops, plain)
		}
		for k := 1 + g.r.Intn(3); k > 0; k-- {
			var edited []int
			for i := range g.in.Pkgs {
				if g.r.Chance(60) {
					edited = append(edited, i)
				}
			}
			if len(edited) == 0 {
				edited = []int{g.pkg()}
			}
			for _, p := range edited {
				g.ver++
				if g.r.Chance(80) {
					ops = append(ops, opIn{K: "set", P: p, File: core.Pick(g.r, []string{"x1.go", "x1.go", "x2.go", "notes.txt"}), V: g.ver})
				} else {
					e := g.edit()
					e.P = p
					if e.K == "symlink" || e.K == "restoregen" {
						e = opIn{K: "set", P: p, File: "u1.go", V: g.ver}
					}
					ops = append(ops, e)
				}
			}
			for n := 1 + g.r.Intn(2); n > 0; n-- {
				o := opIn{K: "run", All: true, Cancel: g.cancel(edited)}
				switch j := g.r.Intn(20); {
				case j < 2:
					o.Force = true
				case j < 4:
					o.Entry = g.subset()
				case j < 5:
					o.All = false
				case j < 7:
					f := g.pkg()
					o.Fail = &f
				}
				ops = append(ops, o)
				if n > 1 && g.r.Bool() {
					break
				}
			}
			ops = append(ops, plain)
			if g.r.Chance(60) {
				ops = append(ops, plain)
			}
		}
		g.in.Ops = ops
		b, _ := json.Marshal(g.in)
		return b
	}
	if kind == "dotfiles" {
		// a module (70 %: with a package at the module root) is brought to rest; then dot-files, files in dot-directories
		// and gengo.sum look-alikes are created, edited and deleted in the root package and in packages below it, a
		// plain All run after each change (the package must regenerate) and often a second one (must be idle again)
		if g.r.Chance(70) {
			for tries := 0; tries < 30 && g.rootPkg() < 0; tries++ {
				g.module()
			}
		}
		plain := opIn{K: "run", All: true}
		ops := []opIn{plain, plain, plain}
		for k := 1 + g.r.Intn(3); k > 0; k-- {
			p := g.pkg()
			if root := g.rootPkg(); root >= 0 && g.r.Chance(60) {
				p = root
			}
			f := g.oddFile(p)
			g.ver++
			ops = append(ops, opIn{K: "set", P: p, File: f, V: g.ver}, plain)
			if g.r.Bool() {
				ops = append(ops, plain)
			}
			if g.r.Chance(60) {
				g.ver++
				ops = append(ops, opIn{K: "set", P: p, File: f, V: g.ver}, plain)
				if g.r.Chance(30) {
					ops = append(ops, plain)
				}
			}
			if g.r.Chance(60) {
				ops = append(ops, opIn{K: "del", P: p, File: f}, plain)
				if g.r.Chance(30) {
					ops = append(ops, plain)
				}
			}
		}
		g.in.Ops = ops
		b, _ := json.Marshal(g.in)
		return b
	}
	if kind == "subsetconverge" {
		// All on a subset of the entrypoints, repeated on unchanged inputs: the packages that are in the run through
		// imports only - sorting before and after the entrypoints - come to rest like the others (4th identical run idle)
		for tries := 0; tries < 30 && len(g.backEdges()) == 0; tries++ {
			g.module()
		}
		if len(g.backEdges()) == 0 && len(g.in.Pkgs) > 1 {
			for i := range g.in.Pkgs {
				g.in.Pkgs[i].Imports = nil
			}
			g.in.Pkgs[len(g.in.Pkgs)-1].Imports = []int{0}
		}
		var entry []int
		if be := g.backEdges(); len(be) > 0 && g.r.Chance(75) {
			e := core.Pick(g.r, be)
			entry = []int{e[0]}
			imported := map[int]bool{}
			for _, j := range g.in.Pkgs[e[0]].Imports {
				imported[j] = true
			}
			for j := range g.in.Pkgs {
				if j != e[0] && !imported[j] && g.r.Chance(20) {
					entry = append(entry, j)
				}
			}
			sort.Ints(entry)
		} else {
			entry = g.importerOnly()
		}
		plain := opIn{K: "run", All: true}
		sub := opIn{K: "run", All: true, Entry: entry}
		var ops []opIn
		for k := g.r.Intn(3); k > 0; k-- {
			ops = append(ops, plain)
		}
		ops = append(ops, sub, sub, sub, sub)
		for k := g.r.Intn(3); k > 0; k-- {
			ops = append(ops, g.edit())
			if g.r.Chance(25) {
				ops = append(ops, plain)
			}
			ops = append(ops, sub, sub)
			if g.r.Chance(70) {
				ops = append(ops, sub, sub)
			}
		}
		g.in.Ops = ops
		b, _ := json.Marshal(g.in)
		return b
	}
	n := 3 + g.r.Intn(8)
	var ops []opIn
	if g.r.Chance(70) {
		ops = append(ops, opIn{K: "run", All: true})
	}
	for len(ops) < n {
		k := g.r.Intn(100)
		switch {
		case kind == "malformed" && k < 45:
			ops = append(ops, g.sumOp())
		case k < 40:
			ops = append(ops, g.edit())
		case k < 48:
			ops = append(ops, g.sumOp())
		default:
			ops = append(ops, g.run())
		}
	}
	if kind == "malformed" || ops[len(ops)-1].K != "run" {
		ops = append(ops, opIn{K: "run", All: true})
	}
	if kind == "converge" {
		r := opIn{K: "run", All: true}
		if g.r.Chance(45) {
			r.Entry = g.subset()
			if g.r.Bool() {
				r.Entry = g.importerOnly()
			}
		}
		ops = append(ops, r, r, r, r)
	}
	g.in.Ops = ops
	b, _ := json.Marshal(g.in)
	return b
}

func fixedCases() []json.RawMessage {
	one := 1
	zero := 0
	two := 2
	run := opIn{K: "run", All: true}
	cases := []input{
		// generation changes the directory: run 2 regenerates, run 3 skips, run 4 idle
		{Mod: "example.com/m", Pkgs: []pkgDecl{{Dir: "a"}, {Dir: "b"}}, Ops: []opIn{run, run, run, run}},
		// edit between runs
		{Mod: "example.com/m", Pkgs: []pkgDecl{{Dir: "a", Imports: []int{1}}, {Dir: "b"}},
			Ops: []opIn{run, run, run, {K: "set", P: 1, File: "x1.go", V: 4}, run, run, run, run}},
		// nested packages: generating the inner one changes the outer directory
		{Mod: "example.com/m", Pkgs: []pkgDecl{{Dir: "a"}, {Dir: "a/sub"}}, Ops: []opIn{run, run, run, {K: "set", P: 1, File: "notes.txt", V: 2}, run, run, run, run}},
		// a package at the module root: gengo.sum lies in its directory
		{Mod: "example.com/m", Pkgs: []pkgDecl{{Dir: "."}, {Dir: "a"}}, Ops: []opIn{run, run, run, run, run}},
		// a directory that cannot be hashed
		{Mod: "example.com/m2", Pkgs: []pkgDecl{{Dir: "o"}, {Dir: "p"}}, Ops: []opIn{{K: "symlink", P: 0}, run, run, {K: "set", P: 0, File: "x1.go", V: 6}, run}},
		// Force, failing package, subset, direct-only, missing / damaged / unreadable gengo.sum
		{Mod: "example.com/m", Pkgs: []pkgDecl{{Dir: "a", Imports: []int{1}}, {Dir: "b"}, {Dir: "c"}},
			Ops: []opIn{run, run, run, {K: "run", All: true, Force: true}, {K: "run", All: true, Fail: &one}, {K: "set", P: 1, File: "x2.go", V: 2},
				{K: "run", All: true, Fail: &one}, run, {K: "run", All: true, Entry: []int{0}}, run, {K: "run", Entry: []int{2}}, run, run}},
		{Mod: "example.com/m", Pkgs: []pkgDecl{{Dir: "a"}, {Dir: "b"}},
			Ops: []opIn{run, run, run, {K: "delsum"}, run, run, {K: "corrupt", Mode: "dropfirst"}, run, run, {K: "corrupt", Mode: "garbage"}, run, run, {K: "block"}, run, {K: "delsum"}, run, run, run}},
		// Force with All on a SUBSET of the entrypoints: b is in the run through a's import only, its directory hash equals
		// the recorded one - Force makes it regenerate all the same (seeded change C08-f: Force only for the packages asked for)
		{Mod: "example.com/m", Pkgs: []pkgDecl{{Dir: "a", Imports: []int{1}}, {Dir: "b"}, {Dir: "c"}},
			Ops: []opIn{run, run, run, {K: "run", All: true, Force: true, Entry: []int{0}}, run, {K: "set", P: 1, File: "x1.go", V: 8},
				{K: "run", All: true, Force: true, Entry: []int{0}}, {K: "run", All: true, Entry: []int{0}}, {K: "run", All: true, Force: true, Entry: []int{0, 2}},
				{K: "run", Force: true, Entry: []int{0}}, run}},
		{Mod: "example.com/m", Pkgs: []pkgDecl{{Dir: ".", Imports: []int{1, 2}}, {Dir: "a", Imports: []int{2}}, {Dir: "a/sub"}},
			Ops: []opIn{run, run, run, {K: "run", All: true, Force: true, Entry: []int{1}}, {K: "run", All: true, Force: true, Entry: []int{0}}, run}},
		// a package at the module root: only the module's own gengo.sum is left out of its directory hash - dot-files,
		// files in dot-directories and gengo.sum look-alikes, in the root and below it, make it regenerate (seeded change
		// C08-g: every name with the prefix ".git" dropped from the hash of the root package)
		{Mod: "example.com/m", Pkgs: []pkgDecl{{Dir: "."}, {Dir: "a"}},
			Ops: []opIn{run, run, run, {K: "set", P: 0, File: ".gitignore", V: 2}, run, run, {K: "set", P: 0, File: ".gitignore", V: 3}, run,
				{K: "set", P: 0, File: ".github/workflows/x.yml", V: 4}, run, {K: "del", P: 0, File: ".gitignore"}, run, run,
				{K: "set", P: 1, File: ".gitattributes", V: 5}, run, {K: "set", P: 0, File: "gengo.sum.bak", V: 6}, run,
				{K: "set", P: 1, File: sumName, V: 7}, run, {K: "set", P: 0, File: ".gengo.sum", V: 8}, run, {K: "del", P: 1, File: sumName}, run, run}},
		// All on the entrypoint ./b only, b imports a (sorts before b) and z (sorts after): repeated runs come to rest
		// for a and z too (seeded change C08-h: previous sums loaded on reaching the first direct package)
		{Mod: "example.com/m", Pkgs: []pkgDecl{{Dir: "a"}, {Dir: "b", Imports: []int{0, 2}}, {Dir: "z"}},
			Ops: []opIn{{K: "run", All: true, Entry: []int{1}}, {K: "run", All: true, Entry: []int{1}}, {K: "run", All: true, Entry: []int{1}}, {K: "run", All: true, Entry: []int{1}},
				{K: "set", P: 2, File: "x1.go", V: 4}, {K: "run", All: true, Entry: []int{1}}, {K: "run", All: true, Entry: []int{1}}, {K: "run", All: true, Entry: []int{1}}, {K: "run", All: true, Entry: []int{1}},
				{K: "set", P: 0, File: "notes.txt", V: 5}, {K: "run", All: true, Entry: []int{1}}, {K: "run", All: true, Entry: []int{1}}, run, run}},
		{Mod: "example.com/m", Pkgs: []pkgDecl{{Dir: ".", Imports: []int{1}}, {Dir: "a"}, {Dir: "a/sub", Imports: []int{0}}},
			Ops: []opIn{run, run, run, {K: "run", All: true, Entry: []int{2}}, {K: "run", All: true, Entry: []int{2}}, {K: "run", All: true, Entry: []int{2}}, {K: "run", All: true, Entry: []int{2}}}},
		// INTERRUPTED RUNS (seeded change C08-k: the loop stops at a cancelled context but gengo.sum is saved all the same).
		// at rest; edit a and b; the context is cancelled while a is generated; ordinary runs.  b has to be regenerated by
		// the first run that gets to it
		{Mod: "example.com/m", Pkgs: []pkgDecl{{Dir: "a"}, {Dir: "b"}, {Dir: "c"}},
			Ops: []opIn{run, run, run, {K: "set", P: 0, File: "x1.go", V: 4}, {K: "set", P: 1, File: "x1.go", V: 6},
				{K: "run", All: true, Cancel: &cancelIn{At: "type", P: 0}}, run, run, run}},
		// cancelled before the call / a deadline in the past / in the last package after all its types / by a deadline
		// passing in the middle package / in New of the first one with Force / without All / with a failing later package
		{Mod: "example.com/m", Pkgs: []pkgDecl{{Dir: "a", Imports: []int{1}}, {Dir: "b"}, {Dir: "c"}},
			Ops: []opIn{run, run, run, {K: "set", P: 1, File: "x1.go", V: 4}, {K: "run", All: true, Cancel: &cancelIn{At: "pre"}}, run, run,
				{K: "set", P: 2, File: "x2.go", V: 6}, {K: "run", All: true, Cancel: &cancelIn{At: "expired"}}, run, run,
				{K: "set", P: 0, File: "x1.go", V: 8}, {K: "set", P: 2, File: "x1.go", V: 10}, {K: "run", All: true, Cancel: &cancelIn{At: "defer", P: 2}}, run, run,
				{K: "set", P: 0, File: "notes.txt", V: 12}, {K: "set", P: 1, File: "notes.txt", V: 14}, {K: "set", P: 2, File: "notes.txt", V: 16},
				{K: "run", All: true, Cancel: &cancelIn{At: "type", P: 1, Deadline: true}}, run, run,
				{K: "run", All: true, Force: true, Cancel: &cancelIn{At: "new", P: 0}}, run,
				{K: "set", P: 1, File: "x1.go", V: 18}, {K: "run", Entry: []int{0, 1}, Cancel: &cancelIn{At: "type", P: 0}}, run, run,
				{K: "set", P: 0, File: "x1.go", V: 20}, {K: "set", P: 2, File: "x1.go", V: 22}, {K: "run", All: true, Fail: &two, Cancel: &cancelIn{At: "type", P: 0}}, run, run}},
		// no gengo.sum yet / a subset of the entrypoints / a package at the module root and a nested one
		{Mod: "example.com/m", Pkgs: []pkgDecl{{Dir: "."}, {Dir: "a", Imports: []int{2}}, {Dir: "a/sub"}},
			Ops: []opIn{{K: "run", All: true, Cancel: &cancelIn{At: "type", P: 0}}, run, run, run,
				{K: "set", P: 2, File: "x1.go", V: 4}, {K: "run", All: true, Entry: []int{1}, Cancel: &cancelIn{At: "new", P: 1}}, run, run, run,
				{K: "set", P: 0, File: "x1.go", V: 6}, {K: "set", P: 1, File: "x1.go", V: 8}, {K: "run", All: true, Cancel: &cancelIn{At: "defer", P: 0}},
				{K: "run", All: true, Cancel: &cancelIn{At: "pre"}}, run, run, run}},
		// stale output trusted after the generated file is put back (not claimed otherwise)
		{Mod: "example.com/m", Pkgs: []pkgDecl{{Dir: "a"}}, Ops: []opIn{{K: "set", P: 0, File: genFile, V: 3}, run, run, {K: "restoregen", P: 0}, run}},
		// the tagged type disappears: the generated file is removed
		{Mod: "example.com/m", Pkgs: []pkgDecl{{Dir: "a"}, {Dir: "b"}}, Ops: []opIn{run, run, {K: "del", P: 0, File: "x1.go"}, run, run, run, {K: "run", All: true, Fail: &zero}}},
	}
	var out []json.RawMessage
	for _, c := range cases {
		b, _ := json.Marshal(c)
		out = append(out, b)
	}
	return out
}

// ---------- sumfile.Load / Bytes inputs ----------

var sumSeps = []string{" ", " ", " ", "\t", "  ", " \t ", "\u00a0", "\u0085", "\u1680", "\u2000", "\u2003", "\u200a", "\u2028", "\u2029", "\u202f", "\u205f", "\u3000", "\v", "\f", "\r"}
var sumJunk = []string{"\xc2", "\xe2\x80", "\x85", "\xa0", "\xff", "\xe1\x9a", "\u00e9", "\u200b", "\u180e", "\xe2\x80\x8b", "\xe3\x80\x81", "\xc2\x86", "\x00", "\xe2\x81\x9e", "\xe2\x80\x8a\x80", "\xe0\x82\x85", "\xc0\xa0"}
var sumKeys = []string{"example.com/m/a", "example.com/m/a/b", "example.com/m/a-b", "example.com/m", "example.com/m/ab", "k", "K", "a", "b"}

func (g *hgen) token() string {
	switch k := g.r.Intn(10); {
	case k < 5:
		return core.Pick(g.r, sumKeys)
	case k < 8:
		return "h1:" + strconv.FormatUint(g.r.Uint64(), 36) + "="
	default:
		return core.Pick(g.r, sumKeys) + core.Pick(g.r, sumJunk) + core.Pick(g.r, []string{"", "x", "\x80"})
	}
}

func (g *hgen) sumio() json.RawMessage {
	var data []byte
	nl := g.r.Intn(6)
	for i := 0; i < nl; i++ {
		if g.r.Chance(15) {
			data = append(data, core.Pick(g.r, sumSeps)...)
		}
		nf := g.r.Intn(4)
		if g.r.Chance(60) {
			nf = 2
		}
		for j := 0; j < nf; j++ {
			if j > 0 {
				data = append(data, core.Pick(g.r, sumSeps)...)
			}
			data = append(data, g.token()...)
		}
		if g.r.Chance(15) {
			data = append(data, core.Pick(g.r, sumSeps)...)
		}
		switch k := g.r.Intn(20); {
		case k < 16:
			data = append(data, '\n')
		case k < 18:
			data = append(data, '\r', '\n')
		case k < 19 && i == nl-1:
		default:
			data = append(data, '\n', '\n')
		}
	}
	var m [][2][]byte
	nk := g.r.Intn(5)
	for i := 0; i < nk; i++ {
		k, v := core.Pick(g.r, sumKeys), "h1:"+strconv.FormatUint(g.r.Uint64(), 36)
		if g.r.Chance(12) { // outside paths_ok: white space or nothing in a key or a hash
			switch g.r.Intn(4) {
			case 0:
				k = k + core.Pick(g.r, sumSeps) + "x"
			case 1:
				v = ""
			case 2:
				v = v + core.Pick(g.r, sumSeps) + "y"
			default:
				k = k + core.Pick(g.r, sumJunk)
			}
		}
		m = append(m, [2][]byte{[]byte(k), []byte(v)})
	}
	b, _ := json.Marshal(input{SumIO: &sumIO{Data: data, DQ: strconv.Quote(string(data)), M: m}})
	return b
}

// ---------- exhaustive small scope: every history of length <= 4 over 2 packages, reduced alphabet ----------

func exhaustive() []json.RawMessage {
	one := 1
	type sym struct {
		op   opIn
		edit int // 1-based package whose x1.go gets a fresh content; 0 = not an edit
	}
	alphabet := []sym{
		{edit: 1}, {edit: 2},
		{op: opIn{K: "delsum"}},
		{op: opIn{K: "corrupt", Mode: "dropfirst"}},
		{op: opIn{K: "run", All: true}},
		{op: opIn{K: "run", All: true, Force: true}},
		{op: opIn{K: "run", All: true, Fail: &one}},
		{op: opIn{K: "run", All: true, Entry: []int{0}}},
		{op: opIn{K: "run"}},
	}
	var out []json.RawMessage
	var rec func(prefix []sym)
	emit := func(h []sym) {
		in := input{Mod: "example.com/m", Pkgs: []pkgDecl{{Dir: "a"}, {Dir: "b"}}}
		v := 1
		for _, s := range h {
			if s.edit > 0 {
				v++
				in.Ops = append(in.Ops, opIn{K: "set", P: s.edit - 1, File: "x1.go", V: 2 * v})
			} else {
				in.Ops = append(in.Ops, s.op)
			}
		}
		b, _ := json.Marshal(in)
		out = append(out, b)
	}
	rec = func(prefix []sym) {
		if n := len(prefix); n > 0 && prefix[n-1].op.K == "run" {
			emit(prefix)
		}
		if len(prefix) == 4 {
			return
		}
		for _, s := range alphabet {
			rec(append(append([]sym{}, prefix...), s))
		}
	}
	rec(nil)
	return out
}

// exhaustiveForceSubset: a imports b; after two plain All runs (b's recorded hash is current) every history of
// length <= 3 that ends in a run, over {edit a, edit b, run All, run All+Force, run All on a only, run All+Force on a only}
func exhaustiveForceSubset() []json.RawMessage {
	type sym struct {
		op   opIn
		edit int
	}
	alphabet := []sym{
		{edit: 1}, {edit: 2},
		{op: opIn{K: "run", All: true}},
		{op: opIn{K: "run", All: true, Force: true}},
		{op: opIn{K: "run", All: true, Entry: []int{0}}},
		{op: opIn{K: "run", All: true, Force: true, Entry: []int{0}}},
	}
	var out []json.RawMessage
	var rec func(prefix []sym)
	emit := func(h []sym) {
		plain := opIn{K: "run", All: true}
		in := input{Mod: "example.com/m", Pkgs: []pkgDecl{{Dir: "a", Imports: []int{1}}, {Dir: "b"}}, Ops: []opIn{plain, plain}}
		v := 1
		for _, s := range h {
			if s.edit > 0 {
				v++
				in.Ops = append(in.Ops, opIn{K: "set", P: s.edit - 1, File: "x1.go", V: 2 * v})
			} else {
				in.Ops = append(in.Ops, s.op)
			}
		}
		b, _ := json.Marshal(in)
		out = append(out, b)
	}
	rec = func(prefix []sym) {
		if n := len(prefix); n > 0 && prefix[n-1].op.K == "run" {
			emit(prefix)
		}
		if len(prefix) == 3 {
			return
		}
		for _, s := range alphabet {
			rec(append(append([]sym{}, prefix...), s))
		}
	}
	rec(nil)
	return out
}

// exhaustiveSmall: after `prefix`, every history of length <= maxLen that ends in a run, over the alphabet
func exhaustiveSmall(mod input, prefix []opIn, alphabet []opIn, maxLen int) []json.RawMessage {
	var out []json.RawMessage
	var rec func(h []opIn)
	rec = func(h []opIn) {
		if n := len(h); n > 0 && h[n-1].K == "run" {
			in := mod
			in.Ops = append([]opIn{}, prefix...)
			v := 1
			for _, o := range h {
				if o.K == "set" {
					v++
					o.V = 2 * v
				}
				in.Ops = append(in.Ops, o)
			}
			b, _ := json.Marshal(in)
			out = append(out, b)
		}
		if len(h) == maxLen {
			return
		}
		for _, o := range alphabet {
			rec(append(append([]opIn{}, h...), o))
		}
	}
	rec(nil)
	return out
}

// exhaustiveRootDot: a package at the module root and one below it, at rest after three plain All runs; every history
// of length <= 3 ending in a run over {create/edit .gitignore in the root, delete it, create/edit a/.gitignore,
// create/edit gengo.sum.bak in the root, create/edit a/gengo.sum, run All}
func exhaustiveRootDot() []json.RawMessage {
	plain := opIn{K: "run", All: true}
	return exhaustiveSmall(input{Mod: "example.com/m", Pkgs: []pkgDecl{{Dir: "."}, {Dir: "a"}}}, []opIn{plain, plain, plain},
		[]opIn{{K: "set", P: 0, File: ".gitignore"}, {K: "del", P: 0, File: ".gitignore"}, {K: "set", P: 1, File: ".gitignore"},
			{K: "set", P: 0, File: "gengo.sum.bak"}, {K: "set", P: 1, File: sumName}, plain}, 3)
}

// exhaustiveSubsetOrder: b imports a (sorts before b) and c (sorts after); every history of length <= 4 ending in a
// run over {edit a, edit c, run All on b only, run All on a only, run All}
func exhaustiveSubsetOrder() []json.RawMessage {
	return exhaustiveSmall(input{Mod: "example.com/m", Pkgs: []pkgDecl{{Dir: "a"}, {Dir: "b", Imports: []int{0, 2}}, {Dir: "c"}}}, nil,
		[]opIn{{K: "set", P: 0, File: "x1.go"}, {K: "set", P: 2, File: "x1.go"}, {K: "run", All: true, Entry: []int{1}},
			{K: "run", All: true, Entry: []int{0}}, {K: "run", All: true}}, 4)
}

// exhaustiveCancel: a, b, c at rest after three plain All runs; every history of length <= 3 ending in a run over
// {edit a, edit b, run All, run All cancelled before the call, run All with a deadline in the past, run All cancelled
// while a is generated, run All cancelled in a deferred callback of b}
func exhaustiveCancel() []json.RawMessage {
	plain := opIn{K: "run", All: true}
	return exhaustiveSmall(input{Mod: "example.com/m", Pkgs: []pkgDecl{{Dir: "a"}, {Dir: "b"}, {Dir: "c"}}}, []opIn{plain, plain, plain},
		[]opIn{{K: "set", P: 0, File: "x1.go"}, {K: "set", P: 1, File: "x1.go"}, plain,
			{K: "run", All: true, Cancel: &cancelIn{At: "pre"}}, {K: "run", All: true, Cancel: &cancelIn{At: "expired"}},
			{K: "run", All: true, Cancel: &cancelIn{At: "type", P: 0}}, {K: "run", All: true, Cancel: &cancelIn{At: "defer", P: 1}}}, 3)
}

func (prop) Generate(r *core.RNG, tier string) []json.RawMessage {
	nHist, nSum := 112, 300
	if tier == "thorough" {
		nHist, nSum = 672, 3000
	}
	out := fixedCases()
	g := &hgen{r: r}
	for i := 0; i < nHist; i++ {
		kind := "mixed"
		switch k := g.r.Intn(112); { // the kinds keep their shares of the first 100; interrupted runs come on top
		case k < 12:
			kind = "malformed"
		case k < 37:
			kind = "converge"
		case k < 47:
			kind = "forcesubset"
		case k < 58:
			kind = "dotfiles"
		case k < 69:
			kind = "subsetconverge"
		case k >= 100:
			kind = "cancel"
		}
		out = append(out, g.history(kind))
	}
	for i := 0; i < nSum; i++ {
		out = append(out, g.sumio())
	}
	if tier == "thorough" {
		out = append(out, exhaustive()...)
		out = append(out, exhaustiveForceSubset()...)
		out = append(out, exhaustiveRootDot()...)
		out = append(out, exhaustiveSubsetOrder()...)
		out = append(out, exhaustiveCancel()...)
	}
	return out
}

func (prop) Extra(r *core.RNG, tier string, scratch string) ([]string, []string, map[string]any) {
	stats := map[string]any{"exhaustive": tier == "thorough",
		"exhaustive_scope": "thorough: every history of length <= 4 that ends in a run, over 2 packages and the alphabet {edit a, edit b, delete gengo.sum, drop its first line, run All, run All+Force, run All failing in b, run All on entrypoint a only, run without All}; and, with a importing b, after two plain All runs every history of length <= 3 that ends in a run over {edit a, edit b, run All, run All+Force, run All on a only, run All+Force on a only}; and, with a package at the module root and package a below it at rest after three plain All runs, every history of length <= 3 that ends in a run over {set .gitignore in the root, delete it, set a/.gitignore, set gengo.sum.bak in the root, set a/gengo.sum, run All}; and, with b importing a and c, every history of length <= 4 that ends in a run over {edit a, edit c, run All on b only, run All on a only, run All}; and, with a b c at rest after three plain All runs, every history of length <= 3 that ends in a run over {edit a, edit b, run All, run All with a context cancelled before the call, run All with a deadline in the past, run All cancelled while a is generated, run All cancelled in a deferred callback of b}"}
	// The deliberate NON-claim (DESIGN.md, C08): cache transparency.  The recorded hash is the one of the state a run
	// STARTED from, so putting that state back (sources + an older generated file) is trusted.  Shown, not judged.
	run := opIn{K: "run", All: true}
	in := input{Mod: "example.com/m", Pkgs: []pkgDecl{{Dir: "a"}},
		Ops: []opIn{run, run, run, {K: "set", P: 0, File: genFile, V: 3}, run, {K: "restoregen", P: 0}, run}}
	raw, _ := json.Marshal(in)
	res := prop{}.Run(raw, filepath.Join(scratch, "extra-transparency"))
	_ = os.RemoveAll(filepath.Join(scratch, "extra-transparency"))
	var notes []string
	if ob, ok := res.Observed.(*observed); ok && ob.Fatal == "" && len(ob.Steps) == len(in.Ops) {
		last := ob.Steps[len(ob.Steps)-1]
		if last.Run != nil && len(last.Run.Executed) == 0 {
			notes = append(notes, "cache transparency is NOT claimed and does not hold (by design of the recorded value): run x3; hand-edit a/zz_generated.rec.go; run (regenerates, records the hash of the hand-edited state); put the hand-edited file back; run -> package a is skipped and the stale file stays. C08 only says: skipped => recorded hash = hash of the directory at load time.")
		} else if last.Run != nil {
			notes = append(notes, "cache transparency scenario: the implementation regenerated the package after an earlier generated file was put back (stronger than C08 demands)")
		}
	}
	return nil, notes, stats
}

// Shrink: drop one step; drop the tail; plainer runs; fewer packages.
func (prop) Shrink(raw json.RawMessage) []json.RawMessage {
	var in input
	if json.Unmarshal(raw, &in) != nil {
		return nil
	}
	var out []json.RawMessage
	add := func(x input) {
		b, _ := json.Marshal(x)
		if string(b) != string(raw) {
			out = append(out, b)
		}
	}
	if in.SumIO != nil {
		s := *in.SumIO
		if len(s.Data) > 0 {
			add(input{SumIO: &sumIO{Data: s.Data[:len(s.Data)/2], M: s.M}})
			add(input{SumIO: &sumIO{Data: s.Data[len(s.Data)/2:], M: s.M}})
			add(input{SumIO: &sumIO{Data: s.Data[1:], M: s.M}})
			add(input{SumIO: &sumIO{Data: s.Data[:len(s.Data)-1], M: s.M}})
		}
		for i := range s.M {
			m := append(append([][2][]byte{}, s.M[:i]...), s.M[i+1:]...)
			add(input{SumIO: &sumIO{Data: s.Data, M: m}})
		}
		if len(s.M) > 0 && len(s.Data) > 0 {
			add(input{SumIO: &sumIO{Data: nil, M: s.M}})
		}
		return out
	}
	clone := func() input {
		var c input
		b, _ := json.Marshal(in)
		_ = json.Unmarshal(b, &c)
		return c
	}
	n := len(in.Ops)
	if n > 2 {
		c := clone()
		c.Ops = c.Ops[:n/2]
		add(c)
	}
	for i := n - 1; i >= 0; i-- {
		c := clone()
		c.Ops = append(c.Ops[:i], c.Ops[i+1:]...)
		add(c)
	}
	for i := range in.Ops {
		o := in.Ops[i]
		if o.K != "run" {
			continue
		}
		if o.Fail != nil {
			c := clone()
			c.Ops[i].Fail = nil
			add(c)
		}
		if o.Entry != nil {
			c := clone()
			c.Ops[i].Entry = nil
			add(c)
		}
		if o.Force {
			c := clone()
			c.Ops[i].Force = false
			add(c)
		}
		if o.Cancel != nil {
			c := clone()
			c.Ops[i].Cancel = nil
			add(c)
			if o.Cancel.Deadline {
				c := clone()
				c.Ops[i].Cancel.Deadline = false
				add(c)
			}
			if o.Cancel.At == "new" || o.Cancel.At == "defer" {
				c := clone()
				c.Ops[i].Cancel.At = "type"
				add(c)
			}
		}
	}
	// drop the last package when nothing refers to it
	if last := len(in.Pkgs) - 1; last > 0 {
		used := false
		for _, p := range in.Pkgs {
			for _, j := range p.Imports {
				used = used || j == last
			}
		}
		for _, o := range in.Ops {
			used = used || ((o.K == "set" || o.K == "del" || o.K == "symlink" || o.K == "restoregen") && o.P == last)
			used = used || (o.Fail != nil && *o.Fail == last)
			used = used || (o.Cancel != nil && o.Cancel.P == last)
			for _, e := range o.Entry {
				used = used || e == last
			}
		}
		if !used {
			c := clone()
			c.Pkgs = c.Pkgs[:last]
			add(c)
		}
	}
	for i, p := range in.Pkgs {
		if len(p.Imports) > 0 {
			c := clone()
			c.Pkgs[i].Imports = nil
			add(c)
		}
	}
	return out
}
