package c08

// Supervised child: ONE gengo run (gengo.NewContext + Execute) on a synthetic module, with a recording
// generator registered through the public API.  A fresh process per run because generator registration and
// go/packages state are process-global; the parent kills the child on timeout.
//
//	vh c08-run <request.json>      prints one JSON line {executed, err_kind, err}

import (
	"context"
	"encoding/json"
	"errors"
	"fmt"
	"go/types"
	"os"
	"runtime/debug"
	"strings"
	"sync"
	"time"

	"github.com/octohelm/gengo/pkg/gengo"
	"github.com/octohelm/gengo/pkg/gengo/snippet"

	"verifharness/internal/core"
)

func init() { core.Children["c08-run"] = childRun }

type runReq struct {
	Dir   string   `json:"dir"` // module root (the child chdirs there)
	Entry []string `json:"entry"`
	All   bool     `json:"all"`
	Force bool     `json:"force"`
	Fail  string   `json:"fail"` // import path of the package in which the generator fails ("" = none)
	// the context handed to Execute: nil = context.Background(), never cancelled
	Cancel *cancelReq `json:"cancel,omitempty"`
}

// cancelReq: when the caller gives up (ctrl-c = cancel, or a deadline that passes).
//
//	pre      cancelled before Execute is called
//	expired  a deadline that lies in the past when Execute is called
//	new      while package Pkg is generated: in GeneratorNewer.New (the first thing pkgExecute does with a generator)
//	type     ... in GenerateType of its first tagged type
//	defer    ... in a deferred callback (all types visited, nothing written yet)
//
// With Deadline the in-package points do not call cancel(): the context has a short timeout and the generator
// waits at that point until it has passed (ctx.Err() = DeadlineExceeded instead of Canceled).
type cancelReq struct {
	At       string `json:"at"`
	Pkg      string `json:"pkg,omitempty"`
	Deadline bool   `json:"deadline,omitempty"`
}

type runResp struct {
	Executed []string `json:"executed"`  // packages the generator was instantiated for (one New per executed package), in order
	Rendered []string `json:"rendered"`  // packages in which GenerateType rendered something
	ErrKind  string   `json:"err_kind"`  // "" | "load" | "gen" | "ctx" (context.Canceled / DeadlineExceeded) | "other"
	Err      string   `json:"err"`       // error text (never compared)
	FailedIn string   `json:"failed_in"` // package whose generator returned the injected error
	Fired    bool     `json:"fired"`     // the in-package cancellation point was reached
	CtxDone  bool     `json:"ctx_done"`  // ctx.Err() != nil when Execute returned
}

var errInjected = errors.New("c08-injected-failure")

// recGen is the recording generator.  gengo calls New once per executed package (context.go: pkgCtxForGen.New(gen)).
type recGen struct {
	log  *runResp
	fail string

	cancelAt  string // "" | new | type | defer
	cancelPkg string
	fire      func() // cancels the context (or waits until its deadline has passed); at most once
}

func (g *recGen) hit(at, p string) {
	if g.fire != nil && g.cancelAt == at && g.cancelPkg == p {
		g.fire()
	}
}

func (*recGen) Name() string { return "rec" }

func (g *recGen) New(c gengo.Context) gengo.Generator {
	p := c.Package("").Pkg().Path()
	g.log.Executed = append(g.log.Executed, p)
	g.hit("new", p)
	if g.cancelAt == "defer" && g.cancelPkg == p {
		c.Defer(func(gengo.Context) error {
			g.hit("defer", p)
			return nil
		})
	}
	if p == g.fail {
		// fails after all types were visited, before anything is written
		c.Defer(func(gengo.Context) error {
			g.log.FailedIn = p
			return errInjected
		})
	}
	return &recGen{log: g.log, fail: g.fail, cancelAt: g.cancelAt, cancelPkg: g.cancelPkg, fire: g.fire}
}

func (g *recGen) GenerateType(c gengo.Context, named *types.Named) error {
	p := named.Obj().Pkg().Path()
	if n := len(g.log.Rendered); n == 0 || g.log.Rendered[n-1] != p {
		g.log.Rendered = append(g.log.Rendered, p)
	}
	g.hit("type", p)
	// the output depends only on the sources of the package: one method per tagged type
	c.Render(snippet.T("func (@Type) Rec() string { return @name }\n\n", snippet.Args{
		"Type": snippet.ID(named.Obj()),
		"name": snippet.Value(named.Obj().Name()),
	}))
	return nil
}

func childRun(args []string) int {
	debug.SetMaxStack(256 << 20)
	var req runReq
	data, err := os.ReadFile(args[0])
	if err == nil {
		err = json.Unmarshal(data, &req)
	}
	if err != nil {
		fmt.Fprintln(os.Stderr, "c08-run:", err)
		return 2
	}
	if err := os.Chdir(req.Dir); err != nil {
		fmt.Fprintln(os.Stderr, "c08-run:", err)
		return 2
	}
	resp := &runResp{Executed: []string{}, Rendered: []string{}}
	g := &recGen{log: resp, fail: req.Fail}
	gengo.Register(g)

	stdout := os.Stdout
	devnull, _ := os.OpenFile(os.DevNull, os.O_WRONLY, 0)
	os.Stdout = devnull // load.go prints warnings with fmt.Println

	func() {
		c, err := gengo.NewContext(&gengo.GeneratorArgs{
			Entrypoint:         req.Entry,
			OutputFileBaseName: "zz_generated",
			All:                req.All,
			Force:              req.Force,
		})
		if err != nil {
			resp.ErrKind, resp.Err = "load", err.Error()
			return
		}
		// the context is made only now: loading is over, a short timeout starts with Execute
		ctx := context.Background()
		if cr := req.Cancel; cr != nil {
			switch cr.At {
			case "pre":
				cctx, cancel := context.WithCancel(ctx)
				cancel()
				ctx = cctx
			case "expired":
				cctx, cancel := context.WithDeadline(ctx, time.Now().Add(-time.Hour))
				defer cancel()
				ctx = cctx
			default:
				var once sync.Once
				if cr.Deadline {
					cctx, cancel := context.WithTimeout(ctx, 60*time.Millisecond)
					defer cancel()
					ctx = cctx
					g.fire = func() { once.Do(func() { resp.Fired = true; <-cctx.Done() }) }
				} else {
					cctx, cancel := context.WithCancel(ctx)
					defer cancel()
					ctx = cctx
					g.fire = func() { once.Do(func() { resp.Fired = true; cancel() }) }
				}
				g.cancelAt, g.cancelPkg = cr.At, cr.Pkg
			}
		}
		err = c.Execute(ctx, gengo.GetRegisteredGenerators("rec")...)
		resp.CtxDone = ctx.Err() != nil
		if err != nil {
			resp.Err = err.Error()
			switch {
			case errors.Is(err, errInjected) || strings.Contains(err.Error(), errInjected.Error()):
				resp.ErrKind = "gen"
			case errors.Is(err, context.Canceled) || errors.Is(err, context.DeadlineExceeded):
				resp.ErrKind = "ctx"
			default:
				resp.ErrKind = "other"
			}
		}
	}()
	os.Stdout = stdout
	out, _ := json.Marshal(resp)
	fmt.Println(string(out))
	return 0
}
