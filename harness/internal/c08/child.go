package c08

// Supervised child: ONE gengo run (gengo.NewContext + Execute) on a synthetic module, with a recording
// generator registered through the public API.  A fresh process per run because generator registration and
// go/packages state are process-global; the parent kills the child on timeout.
//
//	vh c08-run <request.json>      prints one JSON line {executed, err_kind, err}

import (
	"context"
	"encoding/json"
	"errors"
	"fmt"
	"go/types"
	"os"
	"runtime/debug"
	"strings"

	"github.com/octohelm/gengo/pkg/gengo"
	"github.com/octohelm/gengo/pkg/gengo/snippet"

	"verifharness/internal/core"
)

func init() { core.Children["c08-run"] = childRun }

type runReq struct {
	Dir   string   `json:"dir"` // module root (the child chdirs there)
	Entry []string `json:"entry"`
	All   bool     `json:"all"`
	Force bool     `json:"force"`
	Fail  string   `json:"fail"` // import path of the package in which the generator fails ("" = none)
}

type runResp struct {
	Executed []string `json:"executed"`  // packages the generator was instantiated for (one New per executed package), in order
	Rendered []string `json:"rendered"`  // packages in which GenerateType rendered something
	ErrKind  string   `json:"err_kind"`  // "" | "load" | "gen" | "other"
	Err      string   `json:"err"`       // error text (never compared)
	FailedIn string   `json:"failed_in"` // package whose generator returned the injected error
}

var errInjected = errors.New("c08-injected-failure")

// recGen is the recording generator.  gengo calls New once per executed package (context.go: pkgCtxForGen.New(gen)).
type recGen struct {
	log  *runResp
	fail string
}

func (*recGen) Name() string { return "rec" }

func (g *recGen) New(c gengo.Context) gengo.Generator {
	p := c.Package("").Pkg().Path()
	g.log.Executed = append(g.log.Executed, p)
	if p == g.fail {
		// fails after all types were visited, before anything is written
		c.Defer(func(gengo.Context) error {
			g.log.FailedIn = p
			return errInjected
		})
	}
	return &recGen{log: g.log, fail: g.fail}
}

func (g *recGen) GenerateType(c gengo.Context, named *types.Named) error {
	p := named.Obj().Pkg().Path()
	if n := len(g.log.Rendered); n == 0 || g.log.Rendered[n-1] != p {
		g.log.Rendered = append(g.log.Rendered, p)
	}
	// the output depends only on the sources of the package: one method per tagged type
	c.Render(snippet.T("func (@Type) Rec() string { return @name }\n\n", snippet.Args{
		"Type": snippet.ID(named.Obj()),
		"name": snippet.Value(named.Obj().Name()),
	}))
	return nil
}

func childRun(args []string) int {
	debug.SetMaxStack(256 << 20)
	var req runReq
	data, err := os.ReadFile(args[0])
	if err == nil {
		err = json.Unmarshal(data, &req)
	}
	if err != nil {
		fmt.Fprintln(os.Stderr, "c08-run:", err)
		return 2
	}
	if err := os.Chdir(req.Dir); err != nil {
		fmt.Fprintln(os.Stderr, "c08-run:", err)
		return 2
	}
	resp := &runResp{Executed: []string{}, Rendered: []string{}}
	g := &recGen{log: resp, fail: req.Fail}
	gengo.Register(g)

	stdout := os.Stdout
	devnull, _ := os.OpenFile(os.DevNull, os.O_WRONLY, 0)
	os.Stdout = devnull // load.go prints warnings with fmt.Println

	func() {
		c, err := gengo.NewContext(&gengo.GeneratorArgs{
			Entrypoint:         req.Entry,
			OutputFileBaseName: "zz_generated",
			All:                req.All,
			Force:              req.Force,
		})
		if err != nil {
			resp.ErrKind, resp.Err = "load", err.Error()
			return
		}
		if err := c.Execute(context.Background(), gengo.GetRegisteredGenerators("rec")...); err != nil {
			resp.Err = err.Error()
			switch {
			case errors.Is(err, errInjected) || strings.Contains(err.Error(), errInjected.Error()):
				resp.ErrKind = "gen"
			default:
				resp.ErrKind = "other"
			}
		}
	}()
	os.Stdout = stdout
	out, _ := json.Marshal(resp)
	fmt.Println(string(out))
	return 0
}
